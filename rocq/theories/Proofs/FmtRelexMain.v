(* The text an AST writer produces re-lexes to the input's tokens (lemmas for Properties/C09.v).

   good_spaces W     what is needed of a spaces function: the empty run gives the empty text; the text written for a run is
                     seen by the trivia automaton (Proofs/FmtRelexAuto.v) exactly as the run itself; unless the run is
                     the first thing in the file the text written for it begins with a blank / line feed or with the byte
                     the run began with, and is empty only if nothing follows; no lone carriage returns; bytes.
                     [echo_good], [fmt_good]: the echo writer and luafmt (every indent width) qualify.
   rend W q l out    out is a rendering of the token list l (the tokens from index q on): every code token verbatim,
                     every maximal white-space / comment run through W; [tiling_rend]: what C09_aligned gives.
   relex_rend        the main induction: out is read by the reference lexer as the code tokens of l (a quoted string in
                     the spelling of TokString.code, which is its code already) with, in between, white-space tokens and
                     exactly the comments of l, same bytes outside white space.
   relex_text        from a source of the dialect through lexer model, parser model, writer model and lexer model again. *)
From PV Require Import Base.Prelude Spec.LuaTokens Spec.LuaGrammar Spec.LuaLex Spec.SameCode Spec.TokenDepth Instances.HoldsC02 Instances.HoldsC01
  Model.Tokens Model.Parser Model.ParserInst Model.WriterChunks Model.AstWriter Model.WriterDomain Model.FmtSpaces Model.FmtSpacesInst
  Proofs.LuaLexFacts Proofs.SpecLexChunk Proofs.MinifyRelex Proofs.MinifyCount
  Proofs.FmtSpacesProofs Proofs.FmtLinesProofs Proofs.FmtChunksProofs Proofs.FmtRelexAuto Proofs.FmtRelexLex
  Proofs.ParserProofs Proofs.WriterCursor Proofs.AstWriterProofs Proofs.AstWriterTop.
From PV Require Model.Lexer Model.LexToken Proofs.LexerView Proofs.EchoProofs Proofs.EchoRelexSpec Proofs.LexerMain.
From Coq Require Import Lia.

Local Notation tis_trivia := LuaTokens.is_trivia.
Local Notation sis_trivia := LuaLex.is_trivia.

(* ====================================================================== spaces functions *)
Definition crlf_ok (x : list Z) : Prop := crlf_only x = true /\ last x 0 <> 13.

Record good_spaces (W : spaces_fn) : Prop := {
  gs_nil : forall s ind e, W s ind e [] = [];
  gs_arun : forall s ind e run V, arun (V, AN) (W s ind e run) = arun (V, AN) (run_code run);
  gs_hd : forall s ind e t run, s <> 0 -> tcode t <> [] ->
     (e = false -> W s ind e (t :: run) <> []) /\
     match W s ind e (t :: run) with [] => True | c :: _ => c = 32 \/ c = 10 \/ c = hd 0 (tcode t) end;
  gs_crlf : forall s ind e run, Forall (fun t => crlf_ok (tcode t)) run -> crlf_ok (W s ind e run);
  gs_bytes : forall s ind e run, Forall byte (run_code run) -> Forall byte (W s ind e run)
}.

Lemma crlf_ok_concat l : Forall crlf_ok l -> crlf_ok (concat l).
Proof.
  induction 1 as [|x l [H1 H2] _ [I1 I2]]; [split; [reflexivity | cbn; lia]|]. cbn [concat]. split.
  - apply EchoProofs.crlf_only_app_intro; assumption.
  - destruct (concat l) as [|y r] eqn:E; [rewrite app_nil_r; exact H2|]. rewrite last_app' by discriminate. exact I2.
Qed.

Lemma echo_spaces_code s ind e run : echo_spaces s ind e run = run_code run.
Proof. unfold echo_spaces. symmetry. apply run_code_flat_map. Qed.

Lemma run_code_cons t run : run_code (t :: run) = tcode t ++ run_code run.
Proof. reflexivity. Qed.

Lemma echo_good : good_spaces echo_spaces.
Proof.
  constructor.
  - reflexivity.
  - intros. rewrite echo_spaces_code. reflexivity.
  - intros s ind e t run _ Hne. rewrite echo_spaces_code, run_code_cons. destruct (tcode t) as [|c r]; [congruence|].
    cbn [app hd]. split; [discriminate | auto].
  - intros s ind e run H. rewrite echo_spaces_code. unfold run_code. apply crlf_ok_concat.
    induction H; cbn [map]; constructor; assumption.
  - intros s ind e run H. rewrite echo_spaces_code. exact H.
Qed.

Lemma clean_ws_byte c : cleanc c -> is_ws c = true -> c = 32 \/ c = 10.
Proof.
  unfold cleanc, is_ws, SP, TAB, NL, CR. intros [H1 H2] H.
  destruct (c =? 32) eqn:E1; [left; apply Z.eqb_eq, E1|]. destruct (c =? 9) eqn:E2; [apply Z.eqb_eq in E2; congruence|].
  destruct (c =? 10) eqn:E3; [right; apply Z.eqb_eq, E3|]. destruct (c =? 13) eqn:E4; [apply Z.eqb_eq in E4; congruence|].
  discriminate H.
Qed.

Lemma nonws_In c s : In c (nonws s) -> In c s.
Proof. unfold nonws. intros H. apply filter_In in H. apply H. Qed.

Lemma fmt_good w : good_spaces (fmt_spaces w).
Proof.
  constructor.
  - intros. apply fmt_spaces_nil.
  - intros. unfold fmt_spaces. apply fmt_run_arun.
  - intros s ind e t run Hs Hne. unfold fmt_spaces. rewrite run_code_cons.
    destruct (tcode t) as [|c0 r0] eqn:Et; [congruence|]. cbn [app hd].
    set (cfg := mk_fcfg (s =? 0) e w ind).
    assert (Hst : f_at_start cfg = false) by (cbn; lia).
    destruct (fmt_hd cfg c0 (c0 :: r0 ++ run_code run) Hst (or_intror eq_refl) ltac:(discriminate)) as [Hh Hn].
    split; [exact Hn|]. pose proof (fmt_run_clean cfg (c0 :: r0 ++ run_code run)) as Hc.
    destruct (fmt_run cfg (c0 :: r0 ++ run_code run)) as [|c X]; [exact I|]. cbn [hdP] in Hh.
    unfold clean in Hc. inversion Hc; subst. destruct Hh as [Hw| ->]; [|auto].
    destruct (clean_ws_byte c H1 Hw); auto.
  - intros s ind e run _. unfold fmt_spaces. apply EchoProofs.no_cr_crlf. intros Hin.
    pose proof (fmt_run_clean (mk_fcfg (s =? 0) e w ind) (run_code run)) as Hc. unfold clean in Hc. rewrite Forall_forall in Hc.
    destruct (Hc _ Hin) as [_ H]. apply H. reflexivity.
  - intros s ind e run H. unfold fmt_spaces. apply Forall_forall. intros c Hc.
    destruct (is_ws c) eqn:Ew.
    + unfold is_ws, SP, TAB, NL, CR in Ew. unfold byte. lia.
    + rewrite Forall_forall in H. apply H. apply nonws_In. rewrite <- (fmt_run_nonws (mk_fcfg (s =? 0) e w ind)).
      unfold nonws. apply filter_In. split; [exact Hc | rewrite Ew; reflexivity].
Qed.

(* ====================================================================== renderings *)
Local Notation dstate := FmtShape.dstate.

(* the reference depth state along a token list, one token at a time *)
Lemma depth_fold_step l : forall st n, depth_fold st l (S n) =
  match nth_error l n with
  | Some t => let s := depth_fold st l n in if tis_trivia t then s else tok_depth_after s t
  | None => depth_fold st l n
  end.
Proof.
  induction l as [|t r IH]; intros st n.
  - destruct n; reflexivity.
  - destruct n as [|n].
    + cbn [depth_fold nth_error]. destruct r; reflexivity.
    + change (depth_fold st (t :: r) (S (S n))) with (depth_fold (if tis_trivia t then st else tok_depth_after st t) r (S n)).
      rewrite IH. cbn [nth_error depth_fold]. reflexivity.
Qed.

Lemma db_step ts q t : 0 <= q -> nth_error ts (Z.to_nat q) = Some t ->
  depth_before ts (q + 1) = if tis_trivia t then depth_before ts q else tok_depth_after (depth_before ts q) t.
Proof.
  intros Hq H. unfold depth_before. replace (Z.to_nat (q + 1)) with (S (Z.to_nat q)) by lia.
  rewrite depth_fold_step, H. reflexivity.
Qed.

Lemma db_trivia ts run : forall q, 0 <= q -> run = firstn (length run) (skipn (Z.to_nat q) ts) -> forallb tis_trivia run = true ->
  depth_before ts (q + zlen run) = depth_before ts q.
Proof.
  induction run as [|t r IH]; intros q Hq H1 H2; [rewrite zlen_nil; f_equal; lia|].
  cbn [forallb] in H2. apply andb_true_iff in H2. destruct H2 as [Ht Hr]. cbn [length firstn] in H1.
  destruct (skipn (Z.to_nat q) ts) as [|u rest] eqn:Es; [discriminate H1|]. injection H1 as <- H1.
  assert (Hn : nth_error ts (Z.to_nat q) = Some t).
  { rewrite <- (Nat.add_0_r (Z.to_nat q)), <- nth_error_skipn, Es. reflexivity. }
  assert (Er : rest = skipn (Z.to_nat (q + 1)) ts).
  { replace (Z.to_nat (q + 1)) with (Z.to_nat q + 1)%nat by lia. rewrite <- skipn_plus, Es. reflexivity. }
  rewrite zlen_cons. replace (q + (1 + zlen r)) with (q + 1 + zlen r) by lia.
  rewrite (IH (q + 1)); [|lia | rewrite <- Er; exact H1 | exact Hr]. rewrite (db_step ts q t Hq Hn), Ht. reflexivity.
Qed.

Lemma sig_codes_trivia run : forall l i, forallb tis_trivia run = true -> sig_codes (run ++ l) i = sig_codes l (i + zlen run).
Proof.
  induction run as [|t r IH]; intros l i H; [cbn [app]; rewrite zlen_nil; f_equal; lia|].
  cbn [forallb] in H. apply andb_true_iff in H. destruct H as [Ht Hr]. cbn [app sig_codes]. rewrite Ht, IH by exact Hr.
  rewrite zlen_cons. f_equal. lia.
Qed.

Lemma sig_codes_ge l : forall i j text, In (j, text) (sig_codes l i) -> i <= j.
Proof.
  induction l as [|t r IH]; intros i j text H; [destruct H|]. cbn [sig_codes] in H. destruct (tis_trivia t).
  - specialize (IH _ _ _ H). lia.
  - destruct H as [H|H]; [injection H as <- _; lia | specialize (IH _ _ _ H); lia].
Qed.

Lemma skipn_nth {A} (l : list A) n t : nth_error l n = Some t -> skipn n l = t :: skipn (S n) l.
Proof.
  revert l. induction n as [|n IH]; intros l H; destruct l as [|x l]; try discriminate H.
  - injection H as ->. reflexivity.
  - cbn [nth_error] in H. cbn [skipn]. apply IH, H.
Qed.

Lemma skipn_firstn_split {A} (l : list A) q k : skipn q l = firstn k (skipn q l) ++ skipn (q + k) l.
Proof. rewrite <- (firstn_skipn k (skipn q l)) at 1. f_equal. apply skipn_plus. Qed.

Section Rend.
Variable W : spaces_fn.
(* what is known of the indent a run was written with: a predicate of the depth state before the run, the indent, and the
   tokens that follow the run (True for the C09 theorems; the reference depth for the idempotence theorem) *)
Variable Pind : dstate -> Z -> list token -> Prop.

Inductive rend : dstate -> Z -> list token -> list Z -> Prop :=
| rend_nil st q : rend st q [] []
| rend_code st q t l out : tis_trivia t = false -> rend (tok_depth_after st t) (q + 1) l out -> rend st q (t :: l) (tcode t ++ out)
| rend_run st q ind T l out : T <> [] -> forallb tis_trivia T = true ->
    match l with [] => True | u :: _ => tis_trivia u = false end -> Pind st ind l ->
    rend st (q + zlen T) l out ->
    rend st q (T ++ l) (W q ind (match l with [] => true | _ => false end) T ++ out)
| rend_empty st q ind e l out : rend st q l out -> rend st q l (W q ind e [] ++ out).

Definition ind_known (ts : list token) (c : chunk) : Prop :=
  match c with
  | Trivia s ind _ run => run <> [] -> Pind (depth_before ts s) ind (skipn (Z.to_nat (s + zlen run)) ts)
  | Code _ _ => True
  end.

Lemma tiling_rend (ts : list token) q cs p : tiling ts q cs p -> 0 <= q -> p = zlen ts -> Forall (good_end ts) cs ->
  Forall (ind_known ts) cs ->
  codes_of cs = sig_codes (skipn (Z.to_nat q) ts) q -> rend (depth_before ts q) q (skipn (Z.to_nat q) ts) (chunks_text W cs).
Proof.
  induction 1 as [q|q ind e run cs p H1 H2 H3 H4 IH|q text cs p H IH]; intros Hq Hp Hg Hk Hc.
  - subst q. rewrite skipn_all2 by (unfold zlen; lia). constructor.
  - inversion Hg as [|c0 l0 Hg1 Hg2]; subst c0 l0. inversion Hk as [|c0 l0 Hk1 Hk2]; subst c0 l0.
    pose proof (tiling_mono ts _ _ _ H4) as Hm. pose proof (zlen_nonneg run) as Hr0.
    unfold chunks_text. cbn [flat_map chunk_text]. fold (chunks_text W cs).
    assert (Hd : run = [] \/ run <> []) by (destruct run; [left; reflexivity | right; discriminate]).
    destruct Hd as [->|Hne].
    + rewrite zlen_nil in *. replace (q + 0) with q in * by lia. apply rend_empty. apply IH; [lia | exact Hp | exact Hg2 | exact Hk2 | exact Hc].
    + assert (Hsk : skipn (Z.to_nat q) ts = run ++ skipn (Z.to_nat (q + zlen run)) ts).
      { rewrite (skipn_firstn_split ts (Z.to_nat q) (length run)), <- H1. do 2 f_equal. unfold zlen. lia. }
      cbn [codes_of flat_map app] in Hc. fold (codes_of cs) in Hc.
      rewrite Hsk, sig_codes_trivia in Hc by exact H2.
      specialize (IH ltac:(lia) Hp Hg2 Hk2 Hc). rewrite (db_trivia ts run q Hq H1 H2) in IH.
      rewrite Hsk.
      assert (He : e = match skipn (Z.to_nat (q + zlen run)) ts with [] => true | _ => false end /\
                   match skipn (Z.to_nat (q + zlen run)) ts with [] => True | u :: _ => tis_trivia u = false end).
      { cbn [WriterCursor.good_end] in Hg1. destruct Hg1 as [Hg1|[Hg1|Hg1]]; [congruence | |].
        - destruct (sigb_tok ts _ Hg1) as (u & Hu & Hut). unfold AstWriter.tok_at in Hu.
          destruct (q + zlen run <? 0) eqn:E0; [discriminate|]. rewrite (skipn_nth _ _ _ Hu). split; [|exact Hut].
          assert (Hn : nth_error ts (Z.to_nat (q + zlen run)) <> None) by congruence. apply nth_error_Some in Hn. rewrite H3. apply Z.eqb_neq. unfold zlen in *. lia.
        - rewrite skipn_all2 by (unfold zlen in *; lia). split; [rewrite H3; apply Z.eqb_eq; exact Hg1 | exact I]. }
      destruct He as [He1 He2]. rewrite He1. apply rend_run; try assumption. exact (Hk1 Hne).
  - inversion Hg as [|c0 l0 Hg1 Hg2]; subst c0 l0. inversion Hk as [|c0 l0 Hk1 Hk2]; subst c0 l0. pose proof (tiling_mono ts _ _ _ H) as Hm.
    unfold chunks_text. cbn [flat_map chunk_text]. fold (chunks_text W cs).
    cbn [codes_of flat_map app] in Hc. fold (codes_of cs) in Hc.
    destruct (skipn (Z.to_nat q) ts) as [|t l] eqn:Esk; [discriminate Hc|].
    assert (El : l = skipn (Z.to_nat (q + 1)) ts).
    { replace (Z.to_nat (q + 1)) with (Z.to_nat q + 1)%nat by lia. rewrite <- skipn_plus, Esk. reflexivity. }
    cbn [sig_codes] in Hc. destruct (tis_trivia t) eqn:Et.
    + exfalso. assert (Hin : In (q, text) (sig_codes l (q + 1))) by (rewrite <- Hc; left; reflexivity).
      apply sig_codes_ge in Hin. lia.
    + injection Hc as -> Hc. apply rend_code; [exact Et|].
      assert (Hn : nth_error ts (Z.to_nat q) = Some t).
      { rewrite <- (Nat.add_0_r (Z.to_nat q)), <- nth_error_skipn, Esk. reflexivity. }
      pose proof (db_step ts q t Hq Hn) as Hdb. rewrite Et in Hdb. rewrite <- Hdb.
      rewrite El. apply IH; [lia | exact Hp | exact Hg2 | exact Hk2 | rewrite <- El; exact Hc].
Qed.

(* ====================================================================== the main induction *)
Definition kc (k : skind) : kclass :=
  match k with
  | SSpace => CSpace | SNewline => CNewline | SComment => CComment | SString => CString | SNumber => CNumber
  | SName => CName | SLabel => CLabel | SKeyword => CKeyword | SSymbol => CSymbol
  end.

(* the delimiter and data fields of the parser's token, in terms of the reference token *)
Definition tokfields (s : stok) (t : token) : Prop :=
  match s_kind s with
  | SString =>
    if s_long s <? 0 then tq t = hd 0 (s_raw s) /\ tdata t = s_text s
    else tq t = 256 + s_long s /\
         s_raw s = 91 :: repeat 61 (Z.to_nat (s_long s)) ++ 91 :: tdata t ++ 93 :: repeat 61 (Z.to_nat (s_long s)) ++ [93]
  | _ => tq t = 0 /\ tdata t = s_raw s
  end.

Definition corr (s : stok) (t : token) : Prop := tk t = kc (s_kind s) /\ tcode t = spec_code s /\ tokfields s t.

Definition pks (s : stok) : kclass * list Z := (kc (s_kind s), spec_code s).
Definition pkt (t : token) : kclass * list Z := (tk t, tcode t).

Fixpoint cv (l : list (kclass * list Z)) : list (kclass * list Z) :=
  match l with
  | [] => []
  | (k, c) :: r =>
    match k with
    | CSpace | CNewline => cv r
    | CComment => (CComment, SameCode.strip_ws c) :: cv r
    | _ => (k, c) :: cv r
    end
  end.

Lemma code_view_cv ts : code_view ts = cv (map pkt ts).
Proof. induction ts as [|t r IH]; [reflexivity|]. cbn [code_view map cv pkt]. rewrite IH. destruct (tk t); reflexivity. Qed.

Lemma cv_app a b : cv (a ++ b) = cv a ++ cv b.
Proof.
  induction a as [|[k c] a IH]; [reflexivity|]. cbn [app cv]. rewrite IH. destruct k; reflexivity.
Qed.

Lemma strip_ws_nonws c : SameCode.strip_ws c = nonws c.
Proof. reflexivity. Qed.

Lemma trivial_code s : trivial s -> spec_code s = s_raw s.
Proof. unfold trivial, sis_trivia, spec_code. destruct (s_kind s); intros H; try discriminate H; reflexivity. Qed.

Lemma cv_trivia T : Forall trivial T -> cv (map pks T) = map (fun v => (CComment, v)) (views T).
Proof.
  induction 1 as [|s T Hs _ IH]; [reflexivity|]. cbn [map cv pks views flat_map]. fold (views T). rewrite map_app, <- IH.
  unfold tview. pose proof (trivial_code s Hs) as Hc. unfold trivial, sis_trivia in Hs.
  destruct (s_kind s) eqn:K; try discriminate Hs; cbn [kc map app]; try reflexivity.
  rewrite Hc. reflexivity.
Qed.

Lemma corr_trivia s t : corr s t -> tis_trivia t = sis_trivia s.
Proof. intros [H _]. unfold tis_trivia, sis_trivia. rewrite H. destruct (s_kind s); reflexivity. Qed.

Lemma chain_txt s ts : chain s ts -> s = rawtxt ts.
Proof.
  induction 1 as [|s t rest ts Hs _ IH]; [reflexivity|]. destruct (spec_step_split _ _ _ Hs) as [E _].
  unfold rawtxt. cbn [map concat]. fold (rawtxt ts). rewrite <- IH. exact E.
Qed.

Lemma rawtxt_cons s ss : rawtxt (s :: ss) = s_raw s ++ rawtxt ss.
Proof. reflexivity. Qed.

Lemma rawtxt_app a b : rawtxt (a ++ b) = rawtxt a ++ rawtxt b.
Proof. unfold rawtxt. rewrite map_app, concat_app. reflexivity. Qed.

Lemma pks_norm s src rest : spec_step src = Some (s, rest) -> pks (norm_tok s) = pks s.
Proof.
  intros H. unfold norm_tok. destruct (s_kind s) eqn:K; try reflexivity. destruct (s_long s <? 0) eqn:El; [|reflexivity].
  unfold pks. cbn [s_kind]. rewrite K. f_equal.
  destruct (code_head _ _ _ H) as (c & r1 & r2 & Hr & Hc).
  unfold spec_code at 1. cbn [s_kind s_long s_raw s_text]. change (-1 <? 0) with true. cbv iota.
  rewrite Hc at 1. cbn [firstn]. unfold spec_code. rewrite K, El, Hr. reflexivity.
Qed.

(* line breaks between code tokens: for each code token, is there a newline token between the previous code token and it *)
Fixpoint nlk (seen : bool) (ks : list kclass) : list bool :=
  match ks with
  | [] => []
  | k :: r =>
    match k with
    | CNewline => nlk true r
    | CSpace | CComment => nlk seen r
    | _ => seen :: nlk false r
    end
  end.

Lemma nl_before_from_nlk ts : forall seen, nl_before_from seen ts = nlk seen (map tk ts).
Proof.
  induction ts as [|t r IH]; intros seen; [reflexivity|]. cbn [nl_before_from map nlk]. unfold is_newline, tis_trivia.
  destruct (tk t); rewrite ?IH; reflexivity.
Qed.

Definition skinds (ss : list stok) : list kclass := map (fun s => kc (s_kind s)) ss.

Lemma skinds_app a b : skinds (a ++ b) = skinds a ++ skinds b.
Proof. apply map_app. Qed.

Lemma nlk_trivia T : Forall trivial T -> forall l seen, nlk seen (skinds T ++ l) = nlk (seen || existsb is_nlk T) l.
Proof.
  induction 1 as [|s T Hs _ IH]; intros l seen; [cbn; rewrite orb_false_r; reflexivity|].
  cbn [skinds map app existsb]. fold (skinds T). unfold trivial, sis_trivia in Hs. unfold is_nlk at 1.
  destruct (s_kind s); try discriminate Hs; cbn [kc nlk orb]; rewrite IH; f_equal.
  rewrite orb_true_r. reflexivity.
Qed.

Definition hdconc (q : Z) (l : list token) (old out : list Z) : Prop :=
  match l with
  | [] => out = []
  | t :: _ => if tis_trivia t then (q <> 0 -> hdrel old out) else exists c o1 o2, old = c :: o1 /\ out = c :: o2
  end.

Definition codeok (s : stok) : Prop := crlf_ok (spec_code s).

Lemma Forall2_app_inv_r' {A B} (R : A -> B -> Prop) l l1 l2 : Forall2 R l (l1 ++ l2) ->
  exists a b, l = a ++ b /\ Forall2 R a l1 /\ Forall2 R b l2.
Proof. intros H. apply Forall2_app_inv_r in H. destruct H as (a & b & H1 & H2 & ->). eauto. Qed.

Lemma rend_nil_out st q out : (forall s ind e, W s ind e [] = []) -> rend st q [] out -> out = [].
Proof.
  intros Hn H. remember [] as l eqn:El. induction H as [st q|st q t l out Ht H IH|st q ind T l out HT1 HT2 Hl HP H IH|st q ind e l out H IH].
  - reflexivity.
  - discriminate El.
  - apply app_eq_nil in El. destruct El as [-> _]. congruence.
  - subst l. rewrite Hn. cbn [app]. apply IH; [reflexivity | exact Hn].
Qed.

(* how the new reference tokens lie against the old tokens: a code token for a code token (same class and code), for a run
   of the old list the trivia tokens whose text is what the spaces function wrote for the run *)
Inductive rr : dstate -> Z -> list token -> list stok -> Prop :=
| rr_nil st q : rr st q [] []
| rr_code st q t l s s' ss' : tis_trivia t = false -> corr s t -> (exists src rest, spec_step src = Some (s, rest)) -> s' = norm_tok s ->
    rr (tok_depth_after st t) (q + 1) l ss' -> rr st q (t :: l) (s' :: ss')
| rr_run st q ind T l toks ss' : T <> [] -> forallb tis_trivia T = true ->
    match l with [] => True | u :: _ => tis_trivia u = false end -> Pind st ind l ->
    Forall trivial toks -> rawtxt toks = W q ind (match l with [] => true | _ => false end) T ->
    existsb is_nlk toks = existsb is_newline T ->
    rr st (q + zlen T) l ss' -> rr st q (T ++ l) (toks ++ ss').

Definition code_is_raw (s : stok) : Prop := spec_code s = s_raw s.

Lemma norm_code_raw s src rest : spec_step src = Some (s, rest) -> sis_trivia s = false -> code_is_raw (norm_tok s).
Proof.
  intros H Hs. unfold code_is_raw. pose proof (f_equal snd (pks_norm s _ _ H)) as Hc. cbn [snd pks] in Hc. rewrite Hc.
  unfold norm_tok. destruct (s_kind s) eqn:K; try (unfold spec_code; rewrite K; reflexivity).
  destruct (s_long s <? 0) eqn:El; [reflexivity|]. unfold spec_code. rewrite K, El. reflexivity.
Qed.

Theorem relex_rend (G : good_spaces W) st q l out : rend st q l out -> 0 <= q ->
  forall ss, Forall2 corr ss l -> chain (rawtxt ss) ss -> Forall codeok ss ->
  exists ss', chain out ss' /\ crlf_only out = true /\ cv (map pks ss') = cv (map pks ss) /\ hdconc q l (rawtxt ss) out /\
              (forall seen, nlk seen (skinds ss') = nlk seen (skinds ss)) /\ rr st q l ss' /\ Forall code_is_raw ss'.
Proof.
  induction 1 as [st q|st q t l out Ht H IH|st q ind T l out HT1 HT2 Hl HP H IH|st q ind e l out H IH]; intros Hq ss Hcorr Hch Hok.
  - inversion Hcorr; subst. exists []. repeat split; constructor.
  - (* a code token *)
    inversion Hcorr as [|s t' ss1 l' Hst Hc1]; subst. inversion Hch as [|s0 t0 rest ts0 Hstep Hch1]; subst.
    pose proof (chain_txt _ _ Hch1) as Hrest. subst rest. inversion Hok as [|? ? Hok0 Hok1]; subst.
    destruct (IH ltac:(lia) ss1 Hc1 Hch1 Hok1) as (ss1' & Hc' & Hcr' & Hv' & Hh' & Hnl' & Hrr' & Hraw').
    assert (Hsig : sis_trivia s = false) by (rewrite <- (corr_trivia s t Hst); exact Ht).
    pose proof Hst as Hst0. destruct Hst as [Hk [Hcode Hfld]].
    assert (Hrel : hdrel (rawtxt ss1) out).
    { unfold hdconc in Hh'. destruct l as [|u l1]; [right; left; exact Hh'|].
      destruct (tis_trivia u); [apply Hh'; lia | left; exact Hh']. }
    pose proof (sig_relex _ _ _ out Hstep Hsig Hrel) as Hnew.
    exists (norm_tok s :: ss1'). split; [|split; [|split; [|split; [|split; [|split]]]]].
    + rewrite Hcode. econstructor; eassumption.
    + rewrite Hcode. destruct Hok0 as [O1 O2]. apply EchoProofs.crlf_only_app_intro; assumption.
    + cbn [map]. rewrite (pks_norm s _ _ Hstep).
      assert (Hcv : forall r1 r2, cv r1 = cv r2 -> cv (pks s :: r1) = cv (pks s :: r2)).
      { intros r1 r2 E. unfold pks. cbn [cv]. destruct (kc (s_kind s)); rewrite E; reflexivity. }
      apply Hcv, Hv'.
    + unfold hdconc. rewrite Ht. destruct (code_head _ _ _ Hstep) as (c & r1 & r2 & Hr & Hc).
      exists c. eexists. eexists. rewrite rawtxt_cons, Hr, Hcode, Hc. split; reflexivity.
    + intros seen. cbn [skinds map]. fold (skinds ss1') (skinds ss1).
      pose proof (f_equal fst (pks_norm s _ _ Hstep)) as Hkk. cbn [fst pks] in Hkk. rewrite Hkk.
      unfold sis_trivia in Hsig. destruct (s_kind s); try discriminate Hsig; cbn [kc nlk]; rewrite Hnl'; reflexivity.
    + eapply rr_code; [exact Ht | exact Hst0 | eauto | reflexivity | exact Hrr'].
    + constructor; [eapply norm_code_raw; eassumption | exact Hraw'].
  - (* a run of white space and comments *)
    destruct (Forall2_app_inv_r' _ _ _ _ Hcorr) as (ssT & ssl & -> & HcT & Hcl).
    destruct (chain_seg _ _ _ Hch) as [Hseg Hchl]. rewrite rawtxt_app in Hseg.
    apply Forall_app in Hok. destruct Hok as [HokT Hokl].
    pose proof (zlen_nonneg T) as HzT.
    destruct (IH ltac:(lia) ssl Hcl Hchl Hokl) as (ssl' & Hc' & Hcr' & Hv' & Hh' & Hnl' & Hrr' & Hraw').
    assert (HtrT : Forall trivial ssT).
    { clear -HcT HT2. induction HcT as [|s t a b Hst _ IH]; [constructor|]. cbn [forallb] in HT2.
      apply andb_true_iff in HT2. destruct HT2 as [H1 H2]. constructor; [|apply IH, H2].
      unfold trivial. rewrite <- (corr_trivia s t Hst). exact H1. }
    assert (Hcode : run_code T = rawtxt ssT).
    { clear -HcT HtrT. unfold run_code, rawtxt. f_equal. induction HcT as [|s t a b Hst _ IH]; [reflexivity|].
      inversion HtrT; subst. cbn [map]. f_equal; [|apply IH; assumption]. destruct Hst as [_ [-> _]]. apply trivial_code. assumption. }
    (* what follows the run: a code token, or nothing *)
    assert (Hnext : (l = [] /\ ssl = [] /\ out = []) \/
                    (exists c o1 o2, rawtxt ssl = c :: o1 /\ out = c :: o2 /\ is_blank c = false /\ is_eol c = false)).
    { destruct l as [|u l1].
      - inversion Hcl; subst. left. split; [reflexivity|]. split; [reflexivity | exact Hh'].
      - right. inversion Hcl as [|su u' ssl1 l1' Hsu Hcl1]; subst. unfold hdconc in Hh'. rewrite Hl in Hh'.
        destruct Hh' as (c & o1 & o2 & E1 & E2). exists c, o1, o2. split; [exact E1|]. split; [exact E2|].
        inversion Hchl as [|s0 t0 rest ts0 Hstep _]; subst.
        assert (Hsig : sis_trivia su = false) by (rewrite <- (corr_trivia su u Hsu); exact Hl).
        destruct (sig_head _ _ _ Hstep Hsig) as (c' & s1 & E & Hb & He). rewrite E1 in E. injection E as <- _. auto. }
    assert (Hr : rawtxt ssl = [] \/ exists c r', rawtxt ssl = c :: r' /\ is_eol c = false).
    { destruct Hnext as [(_ & -> & _)|(c & o1 & o2 & E & _ & _ & He)]; [left; reflexivity | right; eauto]. }
    destruct (seg_arun _ _ _ Hseg HtrT Hr ([], false) (([], false), AN) (or_introl eq_refl)) as (E & Hrun & HE).
    set (e := match l with [] => true | _ => false end).
    set (X := W q ind e T).
    assert (HrunX : arun (([], false), AN) X = Some (addtoks ([], false) ssT, E)).
    { unfold X. rewrite (gs_arun W G), Hcode. exact Hrun. }
    assert (HcrX : crlf_ok X).
    { unfold X. apply (gs_crlf W G). clear -HcT HokT. induction HcT as [|s t a b Hst _ IH]; [constructor|].
      inversion HokT; subst. constructor; [|apply IH; assumption]. destruct Hst as [_ [-> _]]. assumption. }
    assert (HcrXo : crlf_only (X ++ out) = true) by (destruct HcrX; apply EchoProofs.crlf_only_app_intro; assumption).
    assert (Hsc : starts_code out).
    { destruct Hnext as [(_ & _ & ->)|(c & o1 & o2 & _ & -> & Hb & He)]; [left; reflexivity | right; eauto]. }
    assert (HEo : E = EL -> out = []).
    { intros HEL. specialize (HE HEL). destruct Hnext as [(_ & _ & ->)|(c & o1 & o2 & E1 & _)]; [reflexivity | congruence]. }
    destruct (arun_seg (length X) X (le_n _) ([], false) out _ _ HrunX HcrXo Hsc HEo) as (toks & Hsg & Htr & Hvw0).
    rewrite !addtoks_spec in Hvw0. cbn [fst snd app orb] in Hvw0. injection Hvw0 as Hvw Hnlw.
    assert (HtxtX : rawtxt toks = X).
    { pose proof (seg_txt _ _ _ Hsg) as Etx. apply app_inv_tail in Etx. symmetry. exact Etx. }
    exists (toks ++ ssl'). split; [|split; [|split; [|split; [|split; [|split]]]]].
    + eapply seg_chain; eassumption.
    + exact HcrXo.
    + rewrite !map_app, !cv_app, Hv'. f_equal. rewrite (cv_trivia _ Htr), (cv_trivia _ HtrT), Hvw. reflexivity.
    + (* what the run begins with *)
      destruct T as [|t1 T1]; [congruence|]. cbn [app]. unfold hdconc.
      cbn [forallb] in HT2. apply andb_true_iff in HT2. destruct HT2 as [Ht1 _]. rewrite Ht1. intros Hq0.
      inversion HcT as [|s1 t1' ssT1 T1' Hs1 _]; subst. destruct Hs1 as [_ [Hc1 _]].
      inversion HtrT; subst. inversion Hch as [|s0 t0 rest ts0 Hstep _]; subst.
      destruct (code_head _ _ _ Hstep) as (c0 & r1 & r2 & Hr1 & Hr2).
      assert (Hne1 : tcode t1 <> []) by (rewrite Hc1, Hr2; discriminate).
      destruct (gs_hd W G q ind e t1 T1 Hq0 Hne1) as [Hn Hhd]. fold X in Hn, Hhd.
      destruct X as [|c X'] eqn:EX.
      * right. left. cbn [app]. destruct l as [|u l1]; [exact Hh'|]. exfalso. apply Hn; reflexivity.
      * cbn [app]. destruct Hhd as [->|[->|Hc]].
        -- right. right. eauto.
        -- right. right. eauto.
        -- left. exists c. eexists. eexists. split; [|reflexivity]. cbn [app]. rewrite rawtxt_cons, Hr1. cbn [app].
           rewrite Hc1, Hr2 in Hc. cbn [hd] in Hc. subst c. reflexivity.
    + intros seen. rewrite !skinds_app, (nlk_trivia _ Htr), (nlk_trivia _ HtrT), Hnlw. apply Hnl'.
    + eapply rr_run; try eassumption. rewrite <- Hnlw. clear -HcT. induction HcT as [|s t a b Hst _ IH]; [reflexivity|].
      cbn [existsb]. rewrite IH. f_equal. destruct Hst as [Hk _]. unfold is_nlk, is_newline. rewrite Hk. destruct (s_kind s); reflexivity.
    + apply Forall_app. split; [|exact Hraw']. eapply Forall_impl; [|exact Htr]. intros a Ha. apply trivial_code, Ha.
  - rewrite (gs_nil W G). cbn [app]. apply IH; assumption.
Qed.
End Rend.

(* ====================================================================== from the source text *)
Import LexToken.

Lemma code_bytes s : tok_bytes s -> Forall byte (spec_code s).
Proof.
  intros (Hraw & Htxt). unfold spec_code. destruct (s_kind s) eqn:K; try exact Hraw.
  destruct (s_long s <? 0) eqn:El; [|exact Hraw]. apply bytesb_Forall.
  assert (Hq : bytesb (firstn 1 (s_raw s)) = true).
  { apply bytesb_Forall. destruct (s_raw s) as [|q r]; [constructor|].
    inversion Hraw; subst. cbn [firstn]. constructor; [assumption | constructor]. }
  unfold Lexer.reencode. rewrite !bytesb_app, Hq. cbn [andb]. rewrite andb_true_r.
  apply escape_bytes_bytes; [exact Hq|]. apply bytesb_Forall, Htxt; [reflexivity | lia].
Qed.

Lemma rend_bytes W Pind (G : good_spaces W) st q l out : rend W Pind st q l out -> Forall (fun t => Forall byte (tcode t)) l -> Forall byte out.
Proof.
  induction 1 as [st q|st q t l out Ht H IH|st q ind T l out HT1 HT2 Hl HP H IH|st q ind e l out H IH]; intros HB.
  - constructor.
  - inversion HB; subst. apply Forall_app. split; [assumption | apply IH; assumption].
  - apply Forall_app in HB. destruct HB as [HB1 HB2]. apply Forall_app. split; [|apply IH, HB2].
    apply (gs_bytes W G). unfold run_code. clear -HB1. induction HB1; cbn [map concat]; [constructor|].
    apply Forall_app. split; assumption.
  - rewrite (gs_nil W G). cbn [app]. apply IH, HB.
Qed.

Lemma spec_code_same s : LexerView.spec_code s = spec_code s.
Proof. reflexivity. Qed.

Lemma spec_code_unpos s : spec_code (unpos s) = spec_code s.
Proof. reflexivity. Qed.

(* the codes of the tokens of a source of the dialect keep the line-end discipline (as in echo_crlf_only) *)
Lemma codes_crlf_ok src ss0 : Forall byte src -> spec_lex src = Some ss0 -> Forall (fun s => codeok (unpos s)) ss0.
Proof.
  intros HB H. pose proof (EchoProofs.spec_lex_qs src ss0 HB H) as Hq.
  assert (Hraw : Forall (fun t => crlf_only (s_raw t) = true /\ last (s_raw t) 0 <> 13) ss0).
  { unfold spec_lex in H. destruct (crlf_only src) eqn:Hcr; [|discriminate].
    destruct (LexerMain.spec_lex_fuel_toks _ _ _ _ _ _ H) as (ts0 & -> & Hts). cbn [rev app].
    apply (EchoProofs.spec_toks_raw_ok 0 0 src ts0 Hts HB Hcr). }
  clear -Hq Hraw. induction ss0 as [|s ss IH]; [constructor|].
  inversion Hq as [|? ? Q1 Q2]; subst. inversion Hraw as [|? ? R1 R2]; subst. constructor; [|apply IH; assumption].
  unfold codeok, crlf_ok. rewrite spec_code_unpos.
  destruct (HoldsC06.is_quoted s) eqn:Q.
  - destruct (Q1 Q) as (q & Hq34 & Hfirst & _). unfold spec_code. unfold HoldsC06.is_quoted in Q. destruct (s_kind s); try discriminate.
    rewrite Q, Hfirst. unfold Lexer.reencode. apply EchoProofs.no_cr_crlf. intros Hin. apply in_app_or in Hin.
    assert (Nq : q <> 13) by (destruct Hq34; subst; lia).
    destruct Hin as [[E|[]]|Hin]; [congruence|]. apply in_app_or in Hin. destruct Hin as [Hin|[E|[]]]; [|congruence].
    exact (EchoProofs.escape_bytes_no_cr q _ Nq Hin).
  - assert (E : spec_code s = s_raw s).
    { unfold spec_code. unfold HoldsC06.is_quoted in Q. destruct (s_kind s); try reflexivity. rewrite Q. reflexivity. }
    rewrite E. exact R1.
Qed.

Lemma kc_kind k : kclass_of_kind (LexerView.kind_of k) = kc k.
Proof. destruct k; reflexivity. Qed.

Lemma pkt_lex_token lt : pkt (lex_token lt) = (kclass_of_kind (Lexer.t_kind lt), Lexer.tok_code lt).
Proof. reflexivity. Qed.

(* the lexer's tokens, as the parser sees them, against the reference tokens *)
Lemma zlen_repeat {A} (x : A) n : zlen (repeat x n) = Z.of_nat n.
Proof. unfold zlen. rewrite repeat_length. reflexivity. Qed.

Lemma agree_tokfields s lt : LexerMain.agree s lt -> tokfields (unpos s) (lex_token lt).
Proof.
  intros H. destruct (LexerView.agree_fields s lt H) as (Hk & _ & _ & Hf). unfold tokfields. cbn [unpos s_kind s_long s_raw s_text].
  unfold lex_token. cbn [tq tdata]. rewrite Hk. destruct (s_kind s); cbn [LexerView.kind_of]; try (split; [reflexivity | exact Hf]).
  - destruct Hf as [Hv Hf]. destruct (s_long s <? 0) eqn:El.
    + destruct Hf as [Hq Hm]. rewrite Hm. split.
      * rewrite Hq. destruct (s_raw s); reflexivity.
      * unfold Lexer.tok_str_value in Hv. rewrite Hm in Hv. exact Hv.
    + destruct Hf as [Hm Hr]. rewrite Hm. split; [|exact Hr]. rewrite zlen_repeat. lia.
  - destruct Hf as [Hd _]. split; [reflexivity | exact Hd].
Qed.

Lemma agrees_corr ss0 lts : Forall2 LexerMain.agree ss0 lts ->
  Forall2 corr (map unpos ss0) (map lex_token lts) /\ map pkt (map lex_token lts) = map pks (map unpos ss0).
Proof.
  induction 1 as [|s lt ss lts Hag _ [I1 I2]]; [split; [constructor | reflexivity]|].
  pose proof (LexerView.agree_code s lt Hag) as Hc. injection Hc as Hk Hc.
  assert (Hpk : pkt (lex_token lt) = pks (unpos s)).
  { rewrite pkt_lex_token, Hk, Hc, kc_kind. reflexivity. }
  split.
  - cbn [map]. constructor; [|exact I1]. injection Hpk as H1 H2. split; [exact H1|]. split; [exact H2|]. apply agree_tokfields, Hag.
  - cbn [map]. rewrite I2, Hpk. reflexivity.
Qed.

Lemma view_eqb_refl a : view_eqb a a = true.
Proof.
  induction a as [|[k c] a IH]; [reflexivity|]. cbn [view_eqb]. rewrite IH, EchoRelexSpec.zlist_eqb_refl.
  destruct k; reflexivity.
Qed.

(* the core: from a rendering of the lexer's tokens of a source of the dialect *)
Theorem relex_of_rend W Pind : good_spaces W -> forall src ss0 lts out,
  Forall byte src -> spec_lex src = Some ss0 -> Lexer.model_lex [src] = Ok lts ->
  rend W Pind (FmtShape.mk_dstate 0 0) 0 (map lex_token lts) out ->
  exists ss1 lts',
    Forall byte out /\ spec_lex out = Some ss1 /\
    Lexer.model_lex [out] = Ok lts' /\ same_code (map lex_token lts) (map lex_token lts') = true /\
    nl_before (map lex_token lts') = nl_before (map lex_token lts) /\
    rr W Pind (FmtShape.mk_dstate 0 0) 0 (map lex_token lts) (map unpos ss1) /\ Forall code_is_raw (map unpos ss1) /\
    Forall2 corr (map unpos ss1) (map lex_token lts') /\ out = rawtxt (map unpos ss1).
Proof.
  intros G src ss0 lts out HB Hs Hm Hrend.
  destruct (LexerView.lex_agrees_code src ss0 HB Hs) as (lts0 & Hm0 & _ & Hag).
  rewrite Hm in Hm0. injection Hm0 as <-.
  destruct (agrees_corr ss0 lts Hag) as [Hcorr Hpk].
  destruct (EchoRelexSpec.spec_lex_chain src ss0 Hs) as [Hcr Hch].
  set (ts := map lex_token lts) in *. set (ss := map unpos ss0) in *.
  pose proof (chain_txt _ _ Hch) as Htxt.
  assert (Hok : Forall codeok ss).
  { unfold ss. pose proof (codes_crlf_ok src ss0 HB Hs) as H. clear -H. induction H; cbn [map]; constructor; assumption. }
  rewrite Htxt in Hch.
  destruct (relex_rend W Pind G _ 0 ts _ Hrend ltac:(lia) ss Hcorr Hch Hok) as (ss' & Hch' & Hcr' & Hv & _ & Hnl & Hrr & Hraw).
  destruct (EchoRelexSpec.chain_spec_lex out ss' Hcr' Hch') as (ss1 & Hs1 & Hu1).
  assert (HBo : Forall byte out).
  { apply (rend_bytes W Pind G _ 0 ts out Hrend). rewrite <- Htxt in Hch.
    pose proof (chain_bytes _ _ Hch HB) as Htb. clear -Htb Hcorr. induction Hcorr as [|s t a b Hst _ IH]; [constructor|].
    inversion Htb; subst. constructor; [|apply IH; assumption]. destruct Hst as [_ [-> _]]. apply code_bytes. assumption. }
  destruct (LexerView.lex_agrees_code out ss1 HBo Hs1) as (lts' & Hm' & _ & Hag').
  destruct (agrees_corr ss1 lts' Hag') as [Hcorr' Hpk'].
  exists ss1, lts'. split; [exact HBo|]. split; [exact Hs1|]. split; [exact Hm'|]. rewrite Hu1. split; [|split; [|split; [|split; [|split]]]].
  - unfold same_code. rewrite !code_view_cv. fold ts. rewrite Hpk, Hpk', Hu1. fold ss. rewrite Hv. apply view_eqb_refl.
  - unfold nl_before. rewrite !nl_before_from_nlk. fold ts.
    assert (Hk : forall a b, map pkt a = map pks b -> map tk a = skinds b).
    { intros a b H. apply (f_equal (map fst)) in H. rewrite !map_map in H. exact H. }
    rewrite (Hk _ _ Hpk), (Hk _ _ Hpk'), Hu1. fold ss. apply Hnl.
  - exact Hrr.
  - exact Hraw.
  - rewrite <- Hu1. exact Hcorr'.
  - apply chain_txt, Hch'.
Qed.

(* from the aligned chunk list of the writer *)
Theorem relex_core W Pind : good_spaces W -> forall src ss0 lts cs,
  Forall byte src -> spec_lex src = Some ss0 -> Lexer.model_lex [src] = Ok lts ->
  tiling (map lex_token lts) 0 cs (zlen (map lex_token lts)) -> Forall (good_end (map lex_token lts)) cs ->
  codes_of cs = sig_codes (map lex_token lts) 0 -> Forall (ind_known Pind (map lex_token lts)) cs ->
  exists ss1 lts',
    Forall byte (chunks_text W cs) /\ spec_lex (chunks_text W cs) = Some ss1 /\
    Lexer.model_lex [chunks_text W cs] = Ok lts' /\ same_code (map lex_token lts) (map lex_token lts') = true /\
    nl_before (map lex_token lts') = nl_before (map lex_token lts) /\
    rr W Pind (FmtShape.mk_dstate 0 0) 0 (map lex_token lts) (map unpos ss1) /\ Forall code_is_raw (map unpos ss1) /\
    Forall2 corr (map unpos ss1) (map lex_token lts') /\ chunks_text W cs = rawtxt (map unpos ss1).
Proof.
  intros G src ss0 lts cs HB Hs Hm Htil Hg Hcd Hik.
  set (ts := map lex_token lts) in *.
  assert (Hrend : rend W Pind (depth_before ts 0) 0 ts (chunks_text W cs)).
  { apply (tiling_rend W Pind ts 0 cs (zlen ts) Htil); [lia | reflexivity | exact Hg | exact Hik | exact Hcd]. }
  assert (HS0 : depth_before ts 0 = FmtShape.mk_dstate 0 0) by (unfold depth_before; destruct ts; reflexivity).
  rewrite HS0 in Hrend. exact (relex_of_rend W Pind G src ss0 lts _ HB Hs Hm Hrend).
Qed.

Definition Ptrue : FmtShape.dstate -> Z -> list token -> Prop := fun _ _ _ => True.

Theorem relex_text W : good_spaces W -> forall src ss0 lts root e,
  Forall byte src -> spec_lex src = Some ss0 -> Lexer.model_lex [src] = Ok lts ->
  lua_parse (map lex_token lts) = Ok (root, e) -> consumed (map lex_token lts) e = true ->
  writable (map lex_token lts) root = true ->
  exists out ss1 lts',
    writer_text W (map lex_token lts) (view root) = Ok out /\ Forall byte out /\ spec_lex out = Some ss1 /\
    Lexer.model_lex [out] = Ok lts' /\ same_code (map lex_token lts) (map lex_token lts') = true /\
    nl_before (map lex_token lts') = nl_before (map lex_token lts).
Proof.
  intros G src ss0 lts root e HB Hs Hm Hp Hc Hw.
  destruct (writer_aligned_good (map lex_token lts) root e Hp Hc Hw) as (cs & Hcs & Hcd & Htil & Hg).
  assert (Hik : Forall (ind_known Ptrue (map lex_token lts)) cs).
  { apply Forall_forall. intros c _. destruct c; cbn; intros; exact I. }
  destruct (relex_core W Ptrue G src ss0 lts cs HB Hs Hm Htil Hg Hcd Hik) as (ss1 & lts' & H1 & H2 & H3 & H4 & H5 & _).
  exists (chunks_text W cs), ss1, lts'. split; [unfold writer_text; rewrite Hcs; reflexivity|]. auto.
Qed.

(* the statements of Properties/C09.v *)
From PV Require Import Instances.HoldsC09.

Lemma no_new_breaks_refl l : no_new_breaks l l = true.
Proof. induction l as [|a l IH]; [reflexivity|]. cbn [no_new_breaks]. rewrite IH. destruct a; reflexivity. Qed.

Lemma lines_kept_same ts root out : nl_before out = nl_before ts -> lines_kept ts root out = true.
Proof.
  intros H. unfold lines_kept. rewrite H. apply forallb_forall. intros r _.
  destruct (_ <=? _)%nat; [reflexivity|]. cbn [orb]. unfold line_kept. rewrite no_new_breaks_refl. cbn [andb].
  destruct (nth_error (nl_before ts) _) as [[|]|]; reflexivity.
Qed.

Section Statements.
Variable W : spaces_fn.
Hypothesis G : good_spaces W.

Theorem writer_same_code src ss lts root e :
  Forall byte src -> spec_lex src = Some ss -> Lexer.model_lex [src] = Ok lts ->
  lua_parse (map lex_token lts) = Ok (root, e) -> consumed (map lex_token lts) e = true ->
  writable (map lex_token lts) root = true ->
  exists out ss' lts',
    writer_text W (map lex_token lts) (view root) = Ok out /\ Forall byte out /\
    spec_lex out = Some ss' /\ Lexer.model_lex [out] = Ok lts' /\
    same_code (map lex_token lts) (map lex_token lts') = true.
Proof.
  intros HB Hs Hm Hp Hc Hw.
  destruct (relex_text W G src ss lts root e HB Hs Hm Hp Hc Hw) as (out & ss1 & lts' & H1 & H2 & H3 & H4 & H5 & _).
  exists out, ss1, lts'. auto.
Qed.

Theorem writer_holds_C09 src ss lts root e valid :
  Forall byte src -> spec_lex src = Some ss -> Lexer.model_lex [src] = Ok lts ->
  lua_parse (map lex_token lts) = Ok (root, e) -> consumed (map lex_token lts) e = true ->
  writable (map lex_token lts) root = true ->
  exists out ss' lts',
    writer_text W (map lex_token lts) (view root) = Ok out /\ Forall byte out /\
    spec_lex out = Some ss' /\ Lexer.model_lex [out] = Ok lts' /\
    nl_before (map lex_token lts') = nl_before (map lex_token lts) /\
    holds_C09 (map lex_token lts) root e valid (Some (map lex_token lts')) = true.
Proof.
  intros HB Hs Hm Hp Hc Hw.
  destruct (relex_text W G src ss lts root e HB Hs Hm Hp Hc Hw) as (out & ss1 & lts' & H1 & H2 & H3 & H4 & H5 & H6).
  exists out, ss1, lts'. repeat (split; [assumption|]). unfold holds_C09. rewrite Hc, H5, (lines_kept_same _ root _ H6). reflexivity.
Qed.
End Statements.

Definition luafmt_same_code w := writer_same_code (fmt_spaces w) (fmt_good w).
Definition echo_same_code := writer_same_code echo_spaces echo_good.
Definition luafmt_holds_C09 w := writer_holds_C09 (fmt_spaces w) (fmt_good w).
Definition echo_holds_C09 := writer_holds_C09 echo_spaces echo_good.
