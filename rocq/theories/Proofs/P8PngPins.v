(* Source pins of pico8/game/formatter/p8png.py: the .p8.png reader / writer (Model/P8Png.v).
   WRITTEN BY gen/mkpins.py (developer step) from the sources the hand-written model was compared with;
   each lemma fails when the function it names has been edited since (digest of ast.unparse, docstrings
   dropped; regenerated on every run into Generated/T_pins_p8png.v). *)
From Coq Require Import ZArith List.
Import ListNotations.
Open Scope Z_scope.
From PV Require Import Generated.T_pins_p8png.

Lemma pin__mod__get_picodata_from_pngdata_ok : pin__mod__get_picodata_from_pngdata = [248; 4; 34; 9; 109; 144; 72; 216].
Proof. reflexivity. Qed.
Lemma pin__mod__get_pngdata_from_picodata_ok : pin__mod__get_pngdata_from_picodata = [53; 165; 46; 216; 30; 138; 185; 114].
Proof. reflexivity. Qed.
Lemma pin__mod__get_code_from_bytes_ok : pin__mod__get_code_from_bytes = [8; 228; 213; 66; 25; 128; 72; 44].
Proof. reflexivity. Qed.
Lemma pin__mod__get_bytes_from_code_ok : pin__mod__get_bytes_from_code = [37; 114; 222; 140; 107; 173; 136; 32].
Proof. reflexivity. Qed.
Lemma pin__mod__get_raw_data_from_p8png_file_ok : pin__mod__get_raw_data_from_p8png_file = [252; 231; 211; 202; 143; 129; 78; 62].
Proof. reflexivity. Qed.
Lemma pin__P8PNGFormatter__from_file_ok : pin__P8PNGFormatter__from_file = [208; 235; 136; 205; 218; 48; 1; 59].
Proof. reflexivity. Qed.
Lemma pin__P8PNGFormatter__to_file_ok : pin__P8PNGFormatter__to_file = [82; 214; 30; 166; 16; 81; 76; 70].
Proof. reflexivity. Qed.

(* no function was added to or removed from the pinned classes *)
Lemma pin_names__p8png_ok : pin_names__p8png =
  [[112; 105; 110; 95; 95; 109; 111; 100; 95; 95; 103; 101; 116; 95; 112; 105; 99; 111; 100; 97; 116; 97; 95; 102; 114; 111; 109; 95; 112; 110; 103; 100; 97; 116; 97]; [112; 105; 110; 95; 95; 109; 111; 100; 95; 95; 103; 101; 116; 95; 112; 110; 103; 100; 97; 116; 97; 95; 102; 114; 111; 109; 95; 112; 105; 99; 111; 100; 97; 116; 97]; [112; 105; 110; 95; 95; 109; 111; 100; 95; 95; 103; 101; 116; 95; 99; 111; 100; 101; 95; 102; 114; 111; 109; 95; 98; 121; 116; 101; 115]; [112; 105; 110; 95; 95; 109; 111; 100; 95; 95; 103; 101; 116; 95; 98; 121; 116; 101; 115; 95; 102; 114; 111; 109; 95; 99; 111; 100; 101]; [112; 105; 110; 95; 95; 109; 111; 100; 95; 95; 103; 101; 116; 95; 114; 97; 119; 95; 100; 97; 116; 97; 95; 102; 114; 111; 109; 95; 112; 56; 112; 110; 103; 95; 102; 105; 108; 101]; [112; 105; 110; 95; 95; 80; 56; 80; 78; 71; 70; 111; 114; 109; 97; 116; 116; 101; 114; 95; 95; 102; 114; 111; 109; 95; 102; 105; 108; 101]; [112; 105; 110; 95; 95; 80; 56; 80; 78; 71; 70; 111; 114; 109; 97; 116; 116; 101; 114; 95; 95; 116; 111; 95; 102; 105; 108; 101]].
Proof. reflexivity. Qed.
