(* Source pins of pico8/game/formatter/base.py: the formatter base class.
   WRITTEN BY gen/mkpins.py (developer step) from the sources the hand-written model was compared with;
   each lemma fails when the function it names has been edited since (digest of ast.unparse, docstrings
   dropped; regenerated on every run into Generated/T_pins_fmtbase.v). *)
From Coq Require Import ZArith List.
Import ListNotations.
Open Scope Z_scope.
From PV Require Import Generated.T_pins_fmtbase.

Lemma pin__BaseFormatter__from_file_ok : pin__BaseFormatter__from_file = [44; 199; 147; 83; 167; 151; 98; 141].
Proof. reflexivity. Qed.
Lemma pin__BaseFormatter__to_file_ok : pin__BaseFormatter__to_file = [133; 199; 151; 133; 48; 153; 3; 187].
Proof. reflexivity. Qed.

(* no function was added to or removed from the pinned classes *)
Lemma pin_names__fmtbase_ok : pin_names__fmtbase =
  [[112; 105; 110; 95; 95; 66; 97; 115; 101; 70; 111; 114; 109; 97; 116; 116; 101; 114; 95; 95; 102; 114; 111; 109; 95; 102; 105; 108; 101]; [112; 105; 110; 95; 95; 66; 97; 115; 101; 70; 111; 114; 109; 97; 116; 116; 101; 114; 95; 95; 116; 111; 95; 102; 105; 108; 101]].
Proof. reflexivity. Qed.
