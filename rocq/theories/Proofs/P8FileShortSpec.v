(* The model's reading of a file with short sections is the cart the file DENOTES by the reference semantics
   (Spec/P8Format.v "short sections", Spec/P8FileSpec.v denoted_p8cart): the instance predicate holds_C03_short,
   which the harness evaluates on the real reader's observations, holds of the model's reader. *)
From PV Require Import Base.Prelude Base.ListX Model.P8File Generated.K_p8file Generated.K_sfx Generated.K_music
  Spec.P8Format Spec.P8FileSpec Instances.HoldsC03
  Proofs.C16Proofs Proofs.SfxLines Proofs.P8FileWrite Proofs.P8FileRewrite Proofs.P8FileRoundtrip.
From Coq Require Import ZifyBool.

Lemma skipn_concat_repeat {A} (r : list A) : forall k n, (k <= n)%nat ->
  skipn (k * length r) (concat (repeat r n)) = concat (repeat r (n - k)).
Proof.
  induction k as [|k IH]; intros n H.
  - rewrite Nat.sub_0_r. reflexivity.
  - destruct n as [|n]; [lia|]. cbn [repeat concat Nat.sub Nat.mul].
    rewrite skipn_app, skipn_all2 by lia.
    replace (length r + k * length r - length r)%nat with (k * length r)%nat by lia.
    cbn [app]. apply IH. lia.
Qed.

Lemma music_norm_default n : music_norm (concat (repeat [65; 66; 67; 68] n)) = concat (repeat [65; 66; 67; 68] n).
Proof. induction n as [|n IH]; [reflexivity|]. cbn [repeat concat app music_norm]. rewrite IH. reflexivity. Qed.

Lemma music_norm_app : forall k d t, length d = (k * 4)%nat -> music_norm (d ++ t) = music_norm d ++ music_norm t.
Proof.
  induction k as [|k IH]; intros d t H.
  - destruct d; [reflexivity | discriminate].
  - destruct d as [|b0 [|b1 [|b2 [|b3 d]]]]; try discriminate.
    cbn [app music_norm]. rewrite (IH d t) by (cbn in H; lia). reflexivity.
Qed.

Lemma spec_fill_zeros n d : spec_fill (repeat 0 n) d = pad0 n d.
Proof. unfold spec_fill, pad0. rewrite skipn_repeat. reflexivity. Qed.

Lemma spec_fill_full dflt d : length d = length dflt -> spec_fill dflt d = d.
Proof. intros H. unfold spec_fill. rewrite skipn_all2 by lia. apply app_nil_r. Qed.

Lemma pin_spec_default_sfx : length spec_default_sfx = 4352%nat.
Proof. reflexivity. Qed.

(* the reference defaults are the ones the code fills in (regenerated from the running code) *)
Lemma spec_defaults_are_code_defaults :
  p8_pad_sections = [(0, repeat 0 (Z.to_nat 8192)); (2, repeat 0 (Z.to_nat 256)); (1, repeat 0 (Z.to_nat 4096));
                     (4, spec_default_sfx); (3, spec_default_music); (6, repeat 0 (Z.to_nat 8192))].
Proof. reflexivity. Qed.

Lemma Forall_byte_zeros n : Forall byte (repeat 0 n).
Proof. induction n; constructor; [unfold byte; lia | assumption]. Qed.

Lemma Forall_byte_pad0 n d : Forall byte d -> Forall byte (pad0 n d).
Proof. intros H. unfold pad0. apply Forall_app. split; [exact H | apply Forall_byte_zeros]. Qed.

Lemma all_bytes_of l : Forall byte l -> all_bytes l = true.
Proof. apply all_bytes_Forall. Qed.

Lemma zlen_of {A} (l : list A) n : length l = n -> zlen l = Z.of_nat n.
Proof. intros <-. reflexivity. Qed.

Section WithLua.
Variable lua : Type.
Variable lua_to_lines : lua -> list (list Z).
Notation cart := (cart lua).
Notation wf_short := (wf_short lua lua_to_lines).

(* the view of a model cart the monitor takes: the code is given separately (what the Lua object echoes) *)
Definition p8cart_of (c : cart) (code : list Z) : p8cart :=
  {| pc_version := c_version c; pc_code := code; pc_gfx := c_gfx c; pc_label := c_label c;
     pc_gff := c_gff c; pc_map := c_map c; pc_sfx := c_sfx c; pc_music := c_music c |}.

Lemma short_holds (c : cart) l' code : wf_short c ->
  holds_C03_short (p8cart_of c code) false (p8cart_of (pad_cart lua (norm_cart lua c l')) (supply_nl code)) = true.
Proof.
  intros W. unfold holds_C03_short.
  destruct (short_p8cart (p8cart_of c code) && code_in_format (pc_code (p8cart_of c code))) eqn:E; [|reflexivity].
  apply andb_true_iff in E. destruct E as [E _].
  assert (Bc : all_bytes code = true).
  { unfold short_p8cart, p8cart_of in E. cbn [pc_version pc_code pc_gfx pc_label pc_gff pc_map pc_sfx pc_music] in E.
    destruct (all_bytes code); [reflexivity|]. rewrite ?andb_false_r in E. cbn in E. rewrite ?andb_false_r in E. discriminate. }
  destruct (pad_cart_facts lua lua_to_lines c l' W) as
    (Fv & _ & Fs & Fg & Lg' & Ff & Lf' & Fm & Lm' & Fmu & Lmu' & Flab & Llab').
  destruct W as (Hv & (kg & Lg & Kg) & Lf & Lm & Ls & (kmu & Lmu & Kmu) & Bg & Bf & Bm & Bs & Bmu & Hlab & _).
  set (c' := pad_cart lua (norm_cart lua c l')) in *.
  assert (Bmu' : Forall byte (c_music c')).
  { rewrite Fmu. apply Forall_app. split; [apply (music_norm_lines kmu); assumption|].
    apply Forall_skipn. apply all_bytes_Forall. reflexivity. }
  assert (Bsup : all_bytes (supply_nl code) = true).
  { unfold supply_nl. destruct (ends_nl code); [exact Bc|]. unfold all_bytes in *. rewrite forallb_app, Bc. reflexivity. }
  cbn [negb andb]. apply andb_true_iff. split.
  - (* the cart read is well formed: every region whole *)
    unfold wf_p8cart, p8cart_of. cbn [pc_version pc_code pc_gfx pc_label pc_gff pc_map pc_sfx pc_music].
    rewrite (zlen_of _ _ Lg'), (zlen_of _ _ Lf'), (zlen_of _ _ Lm'), (zlen_of _ _ Lmu'), Fs, (zlen_of _ _ Ls), Fv.
    rewrite (all_bytes_of (c_gfx c')) by (rewrite Fg; apply Forall_app; split; [exact Bg | apply Forall_byte_zeros]).
    rewrite (all_bytes_of (c_gff c')) by (rewrite Ff; apply Forall_app; split; [exact Bf | apply Forall_byte_zeros]).
    rewrite (all_bytes_of (c_map c')) by (rewrite Fm; apply Forall_app; split; [exact Bm | apply Forall_byte_zeros]).
    rewrite (all_bytes_of (c_sfx c)) by exact Bs.
    rewrite (all_bytes_of (c_music c')) by exact Bmu'.
    rewrite Bsup.
    replace (0 <=? c_version c) with true by lia.
    rewrite Flab in *. destruct (c_label c) as [d|]; [|reflexivity].
    destruct Hlab as (_ & Bd). rewrite (zlen_of _ _ Llab').
    rewrite (all_bytes_of (d ++ _)) by (apply Forall_app; split; [exact Bd | apply Forall_byte_zeros]). reflexivity.
  - (* ... and it is the cart the file denotes *)
    unfold same_cart_p8, denoted_p8cart, p8cart_of. cbn [pc_version pc_code pc_gfx pc_label pc_gff pc_map pc_sfx pc_music].
    rewrite Fv, Z.eqb_refl, (proj2 (zlist_eqb_eq _ _) eq_refl). cbn [andb].
    rewrite !spec_fill_zeros, Fg, Ff, Fm, Fs, Fmu, Flab.
    rewrite (spec_fill_full spec_default_sfx (c_sfx c)) by (rewrite Ls; reflexivity).
    unfold spec_fill, spec_default_music. rewrite (music_norm_app kmu) by exact Lmu.
    replace (length (c_music c)) with (kmu * length ([65; 66; 67; 68]%Z : list Z))%nat by (rewrite Lmu; reflexivity).
    rewrite skipn_concat_repeat, music_norm_default by lia.
    unfold pad0. rewrite !(proj2 (zlist_eqb_eq _ _) eq_refl). cbn [andb].
    destruct (c_label c) as [d|]; cbn [olist_eqb]; [rewrite skipn_repeat, (proj2 (zlist_eqb_eq _ _) eq_refl)|]; reflexivity.
Qed.

End WithLua.
