(* Valid programs lie inside the writer domain, part 4: copy of Proofs/ParserComplete4.v (statements and blocks,
   one level of the recursion) with the relations of Proofs/ValidDomain1.v.  Differences are marked (* VD *). *)
From PV Require Import Base.Prelude Base.PySlice Spec.LuaTokens Spec.LuaGrammar Model.Tokens Model.Parser Model.ParserInst
  Model.AstWriter Model.WriterDomain Proofs.ParserProofs Proofs.ParserSpecs Proofs.ParserTheorems Proofs.ParserComplete1 Proofs.ParserComplete2
  Proofs.ValidDomain1 Proofs.ValidDomain3.
From Coq Require Import ZifyBool.
Ltac Zify.zify_post_hook ::= Z.to_euclidean_division_equations.

Lemma den_tag_of ts nts t : forall tag a b sh fs, den ts nts (Node tag a b sh fs) t = true -> (tag =? tChain) = false -> tag_of t = tag.
Proof.
  intros tag a b sh fs H. apply den_old in H. revert tag a b sh fs H.                                          (* VD *)
  induction t as [tag0 s0 e0 sh0 fs0 _| | l _| | | | |i j x IH|x _] using tree_ind'; intros tag ga gb gsh gfs H Hc;
    unfold ParserComplete1.den in H; try (cbn [view] in H; rewrite denotes_node, Hc in H; discriminate H).
  - rewrite view_node, denotes_node, Hc in H. apply andb_true_iff in H. destruct H as [H _].
    apply andb_true_iff in H. destruct H as [H _]. apply Z.eqb_eq in H. unfold tag_of. cbn [strip_paren]. congruence.
  - rewrite view_paren in H. unfold tag_of. cbn [strip_paren]. eapply IH; eassumption.
Qed.

Lemma label_slice (d : list Z) : py_slice d 2 (-2) = label_name d.
Proof.
  unfold py_slice, label_name, norm_idx. cbv zeta. change (2 <? 0) with false. change (-2 <? 0) with true. cbv iota.
  unfold zlen. destruct (Nat.le_gt_cases 2 (length d)) as [H|H].
  - replace (Z.to_nat (Z.min 2 (Z.of_nat (length d)))) with 2%nat by lia. f_equal. lia.
  - rewrite (skipn_all2 (n := 2)) by lia. rewrite (skipn_all2 (n := Z.to_nat _)) by lia. rewrite !firstn_nil. reflexivity.
Qed.

Ltac ssubst := repeat match goal with Q : sstream _ _ = ?s |- _ => is_var s; subst s end.

Ltac open_lst :=
  match goal with
  | HC : ValidDomain1.CTX ?ts _ (Lst ?l) ?mx |- _ => apply CTX_lst in HC; ctx_split HC
  end.

Section Step4.
Variable ts : list token.
Variable nts : bool.
Local Notation SS := (sstream ts).
Local Notation lim := (lim ts).
Local Notation len := (zlen ts).
Local Notation CTX := (CTX ts nts).
Local Notation CTXL := (CTXL ts nts).
Local Notation den := (den ts nts).
Local Notation all2v := (all2v ts nts).
Local Notation dom := (dom ts nts).
Variable R : funs.
Variable k : Z.
Local Notation G := (G ts k).
Local Notation G' := (G' ts k).
Hypothesis HR : comp ts nts G R.

Ltac gd := unfold ValidDomain3.G, ValidDomain3.G' in *; lia.

(* ---------------------------------------------------------------- variables and calls *)
Lemma L_var p mx n g s' : G' p -> g_var n g (SS p) = Some s' -> CTX g mx -> follow fcont mx s' ->
  RT ts (var_def ts R (p, mx)) mx (fun t p' => SS p' = s' /\ p < p' /\ den g t = true /\ is_none t = false /\ is_hidden t = false).
Proof.
  intros HG Hg HC Hf. destruct n; [discriminate|]. cbn [g_var] in Hg.
  destruct (is_tag g tVarName || is_tag g tVarIndex || is_tag g tVarAttribute) eqn:Et; [|discriminate].
  unfold var_def. eapply RT_bind; [eapply L_prefixexp; eassumption|].
  cbv beta. intros t p' Hl_px (Q1 & Q2 & Q3 & Q4 & Q5 & _).
  assert (Hv : is_var t = true).
  { destruct g as [tag a b sh fs| | | | | | | |]; try discriminate Et. unfold is_tag in Et. unfold is_var.
    assert (Hc : (tag =? tChain) = false).
    { destruct (tag =? tVarName) eqn:E1; [apply Z.eqb_eq in E1; subst; reflexivity|].
      destruct (tag =? tVarIndex) eqn:E2; [apply Z.eqb_eq in E2; subst; reflexivity|].
      destruct (tag =? tVarAttribute) eqn:E3; [apply Z.eqb_eq in E3; subst; reflexivity | discriminate Et]. }
    rewrite (den_tag_of ts _ _ _ _ _ _ _ Q3 Hc). rewrite <- orb_assoc in Et. rewrite <- Et.
    destruct (tag =? tVarName), (tag =? tVarIndex), (tag =? tVarAttribute); reflexivity. }
  rewrite Hv. rewrite ret_eq. apply RT_ok; [lia|]. repeat split; assumption.
Qed.

Lemma L_varlist_loop : varlist_loop_ok ts nts G' (varlist_loop_def ts R).
Proof.
  intros p mx n l s' HG Hg HC Hf. destruct HG as [Hp0 HGk]. unfold varlist_loop_def.
  destruct l as [|c [|x r]]; cbn [sep_tail] in Hg; [|discriminate|].
  - injection Hg as <-. miss. rewrite ret_eq. apply RT_ok; [lia|]. repeat split; first [lia | reflexivity].
  - osplit Hg E1. osplit Hg E2. apply CTXL_cons in HC. destruct HC as [HC1 HC]. apply CTXL_cons in HC. destruct HC as [HC2 HC].
    tinv E1. hit.
    assert (Hfx : follow fcont mx s0).
    { destruct r as [|c2 [|x2 r2]]; cbn [sep_tail] in Hg; [injection Hg as <-; fw | discriminate |].
      apply obind_some in Hg. destruct Hg as (? & Hg & _). pose proof (hd_sym _ _ _ _ Hg) as Hh. fhd Hh. }
    eapply RT_bind; [eapply L_var; [gd | exact E2 | exact HC2 | exact Hfx]|].
    cbv beta. intros v p1 Hl_p1 (Q1 & Q2 & Q3 & Q4 & Q5). subst s0. prim; rewrite bind_assert by exact Q4.
    eapply RT_bind; [eapply (c_varlist_loop _ _ _ _ HR); [gd | exact Hg | exact HC | exact Hf]|].
    cbv beta. intros tl p' Hl_px (Q6 & Q7 & Q8). rewrite ret_eq. apply RT_ok; [lia|]. split; [exact Q6|]. split; [lia|].
    all2v_tac. exact Q8.
Qed.

Lemma L_varlist p mx n vs s' : G' p -> sep_list (g_var n) (sym ","%bs) vs (SS p) = Some s' -> CTXL vs mx ->
  follow (anyof gassign) mx s' ->
  RT ts (varlist_def ts R (p, mx)) mx (fun t p' => SS p' = s' /\ p < p' /\
       exists tl, t = Node tVarList p p' false [Lst tl] /\ all2v vs tl = true).
Proof.
  intros HG Hg HC Hf. destruct HG as [Hp0 HGk]. destruct vs as [|x r]; [discriminate|]. cbn [sep_list] in Hg.
  osplit Hg E. apply CTXL_cons in HC. destruct HC as [HC1 HC]. unfold varlist_def. prim.
  assert (Hfx : follow fcont mx s).
  { destruct r as [|c2 [|x2 r2]]; cbn [sep_tail] in Hg; [injection Hg as <-; fw | discriminate |].
    apply obind_some in Hg. destruct Hg as (? & Hg & _). pose proof (hd_sym _ _ _ _ Hg) as Hh. fhd Hh. }
  eapply RT_bind; [eapply L_var; [split; assumption | exact E | exact HC1 | exact Hfx]|].
  cbv beta. intros v p1 Hl_p1 (Q1 & Q2 & Q3 & Q4 & Q5). subst s. rewrite Q4.
  eapply RT_bind; [eapply L_varlist_loop; [gd | exact Hg | exact HC | exact Hf]|].
  cbv beta. intros tl p' Hl_px (Q6 & Q7 & Q8). rewrite mk_eq. apply RT_ok; [lia|]. split; [exact Q6|]. split; [lia|].
  eexists. split; [reflexivity|]. all2v_tac. exact Q8.
Qed.

Lemma L_var_none p mx : 0 <= p -> follow (nomatch prefix_first) mx (SS p) -> var_def ts R (p, mx) = Ok (PNone, (p, mx)).
Proof. intros Hp Hf. unfold var_def. rewrite (bind_ok _ _ _ _ _ (L_prefix_none ts R p mx Hp Hf)). reflexivity. Qed.

Lemma L_varlist_none p mx : 0 <= p -> follow (nomatch prefix_first) mx (SS p) -> varlist_def ts R (p, mx) = Ok (PNone, (p, mx)).
Proof. intros Hp Hf. unfold varlist_def. prim. rewrite (bind_ok _ _ _ _ _ (L_var_none p mx Hp Hf)). reflexivity. Qed.

Lemma L_functioncall_none p mx : 0 <= p -> follow (nomatch prefix_first) mx (SS p) ->
  functioncall_def ts R (p, mx) = Ok (PNone, (p, mx)).
Proof. intros Hp Hf. unfold functioncall_def. prim. rewrite (bind_ok _ _ _ _ _ (L_prefix_none ts R p mx Hp Hf)). reflexivity. Qed.

(* tokens at which no statement starts *)
Definition nostat : list pat := block_end ++ [pkw "return"%bs; pkw "break"%bs].

Ltac stat_start Hp0 :=
  unfold stat_def; prim;
  match goal with |- context [bindM (varlist_def ?ts ?R) _ (?p, ?mx)] =>
    rewrite (bind_ok _ _ _ _ _ (L_varlist_none p mx Hp0 ltac:(fw))) end;
  cbn [is_none strip_paren]; prim;
  match goal with |- context [bindM (functioncall_def ?ts ?R) _ (?p, ?mx)] =>
    rewrite (bind_ok _ _ _ _ _ (L_functioncall_none p mx Hp0 ltac:(fw))) end;
  cbn [is_none strip_paren negb]; prim; repeat (miss; prim).

Lemma L_stat_none p mx : 0 <= p -> follow (anyof nostat) mx (SS p) -> stat_def ts R (p, mx) = Ok (PNone, (p, mx)).
Proof. intros Hp0 Hf. stat_start Hp0. reflexivity. Qed.

(* ---------------------------------------------------------------- if ... then ... elseif ... else ... end *)
Lemma elseifs_inv n l s s' : g_elseifs (S n) l s = Some s' ->
  (l = [] /\ s' = s) \/
  (exists el b, l = [el; Lst [PNone; b]] /\ (s <~ kw "else"%bs el s ;; g_chunk n b s) = Some s') \/
  (exists ei c t b r, l = ei :: Lst [c; t; b] :: r /\
     (s <~ kw "elseif"%bs ei s ;; s <~ g_exp n c s ;; s <~ kw "then"%bs t s ;; s <~ g_chunk n b s ;; g_elseifs n r s) = Some s').
Proof.
  cbn [g_elseifs]. intros H. destruct l as [|x [|y r]]; [left; split; congruence | discriminate H |].
  destruct y as [| |ly| | | | | |]; try discriminate H.
  destruct ly as [|c [|t [|b [|? ?]]]]; try discriminate H; try (exfalso; gmatch H; fail).
  - gmatch H. right; left. eexists _, _. split; [reflexivity | exact H].
  - right; right. eexists _, _, _, _, _. split; [reflexivity|]. destruct r; try exact H; destruct c; exact H.
Qed.

Lemma elseifs_head n l s s' mx : g_elseifs n l s = Some s' -> follow (anyof [pkw "end"%bs]) mx s' -> follow fblock mx s.
Proof.
  intros H Hf. destruct n; [discriminate|]. apply elseifs_inv in H.
  destruct H as [[-> ->]|[(el & b & -> & H)|(ei & c & t & b & r & -> & H)]].
  - fw.
  - apply obind_some in H. destruct H as (? & H & _). pose proof (hd_kw _ _ _ _ H) as Hh. fhd Hh.
  - apply obind_some in H. destruct H as (? & H & _). pose proof (hd_kw _ _ _ _ H) as Hh. fhd Hh.
Qed.

Lemma L_elseif_loop : elseif_loop_ok ts nts G' (elseif_loop_def ts R).
Proof.
  intros p mx n l s' HG Hg HC Hf. destruct HG as [Hp0 HGk]. unfold elseif_loop_def.
  destruct n; [discriminate|]. pose proof Hg as Hg0. apply elseifs_inv in Hg.
  destruct Hg as [[-> ->]|[(el & b & -> & Hg)|(ei & c & t & b & r & -> & Hg)]].
  - miss. rewrite ret_eq. apply RT_ok; [lia|]. split; [lia|]. exists [], [], (S n). split; [reflexivity|]. split; [split; reflexivity|].
    split; [exact Hg0 | left; reflexivity].
  - pose proof Hg as Hg'. osplit Hg' E. pose proof (hd_kw _ _ _ _ E) as Hh.
    assert (Hf0 : follow (anyof [pkw "else"%bs]) mx (SS p)) by (fhd Hh). miss. rewrite ret_eq. apply RT_ok; [lia|].
    split; [lia|]. exists [], [el; Lst [PNone; b]], (S n). split; [reflexivity|]. split; [split; reflexivity|].
    split; [exact Hg0 | right; eexists _, _; reflexivity].
  - osplit Hg E1. osplit Hg E2. osplit Hg E3. osplit Hg E4. ctx_split HC. apply CTX_lst in HC1. ctx_split HC1.
    tinv E1. hit. pose proof (hd_kw _ _ _ _ E3) as Hh.
    eapply RT_bind; [eapply R_exp; [exact HR | gd | exact E2 | eassumption | fhd Hh]|].
    cbv beta. intros e1 p1 Hl_p1 (Q1 & Q2 & Q3 & Q4 & Q5). subst s0. tinv E3. hit.
    eapply RT_bind; [eapply (c_chunk _ _ _ _ HR); [gd | exact E4 | eassumption | eapply elseifs_head; eassumption]|].
    cbv beta. intros b1 p2 Hl_p2 (Q6 & Q7 & Q8 & fs & ->). subst s2. prim; rewrite bind_assert by reflexivity.
    eapply RT_bind; [eapply (c_elseif_loop _ _ _ _ HR); [gd | exact Hg | exact HC | exact Hf]|].
    cbv beta. intros tl p' Hl_px (Q9 & l1 & l2 & n' & -> & (Q10 & Q10p) & Q11 & Q12). rewrite ret_eq. apply RT_ok; [lia|]. split; [lia|].
    exists (Kw i :: Lst [c; Kw i0; b] :: l1), l2, n'. split; [reflexivity|]. split; [|split; assumption].
    destruct (isnode_facts _ _ Q4) as (Qh & Qn & _). split; [all2v_tac; exact Q10|].                              (* VD *)
    cbn [forallb pair_has_cond]. rewrite Qn, Q10p. reflexivity.
Qed.

Definition QS (g : tree) (s' : stream) (p : Z) : tree -> Z -> Prop :=
  fun t p' => SS p' = s' /\ p < p' /\ den g t = true /\ is_none t = false /\ is_hidden t = false.

Lemma g_elseifs_nil n s s' : g_elseifs n [] s = Some s' -> s' = s.
Proof. destruct n; [discriminate|]. cbn [g_elseifs]. congruence. Qed.

Lemma L_if_long pos ii p mx n a b c t bk rest e s' :
  G p -> pos <= ii -> ii + 1 = p ->
  (s <~ g_exp n c (SS p) ;; s <~ kw "then"%bs t s ;; s <~ g_chunk n bk s ;; s <~ g_elseifs n rest s ;; kw "end"%bs e s) = Some s' ->
  CTXL [c; t; bk] mx -> CTXL rest mx -> CTX e mx ->
  RT ts (if_def ts R pos ii (p, mx)) mx (QS (Node tStatIf a b false [Kw ii; Lst (Lst [c; t; bk] :: rest); e]) s' pos).
Proof.
  intros HG Hpos Hii Hg HC1 HCr HCe. destruct HG as [Hp0 HGk]. ctx_split HC1.
  osplit Hg E1. osplit Hg E2. osplit Hg E3. osplit Hg E4. unfold if_def.
  pose proof (hd_kw _ _ _ _ E2) as Hh.
  eapply RT_bind; [eapply R_exp; [exact HR | split; assumption | exact E1 | eassumption | fhd Hh]|].
  cbv beta. intros e1 p1 Hl_p1 (Q1 & Q2 & Q3 & Q4 & Q5). subst s. prim. tinv E2. hit. prim. miss. prim. hit. prim.
  pose proof (hd_kw _ _ _ _ Hg) as Hhe. assert (Hfe : follow (anyof [pkw "end"%bs]) mx s2) by (fhd Hhe).
  eapply RT_bind; [eapply (c_chunk _ _ _ _ HR); [gd | exact E3 | eassumption | eapply elseifs_head; eassumption]|].
  cbv beta. intros b1 p2 Hl_p2 (Q6 & Q7 & Q8 & fs & ->). subst s1. prim; rewrite bind_assert by reflexivity.
  eapply RT_bind; [eapply L_elseif_loop; [gd | exact E4 | exact HCr | exact Hfe]|].
  cbv beta. intros tl p3 Hl_p3 (Q9 & l1 & l2 & n' & -> & (Q10 & Q10p) & Q11 & Q12).
  apply CTXL_app in HCr. destruct HCr as [HCl1 HCl2]. destruct (isnode_facts _ _ Q4) as (Qh & Qn & _).
  assert (Hthen : tok_is ts (is_kw "then"%bs) i = true) by (eapply tok_is_kw; [|eassumption|eassumption]; lia).   (* VD *)
  destruct Q12 as [->|(el & b2 & ->)].
  - apply g_elseifs_nil in Q11. subst s2. assert (Hf1 : follow (anyof [pkw "end"%bs]) mx (SS p3)) by exact Hfe.
    miss. prim. tinv Hg. hit. rewrite mk_eq. apply RT_ok; [lia|]. unfold QS.
    split; [reflexivity|]. split; [lia|]. split; [|split; reflexivity].
    rewrite den_node; [| reflexivity | apply loc_if_long; [exact Qn | rewrite forallb_app', Q10p; reflexivity | exact Hthen]].   (* VD *)
    all2v_tac. rewrite all2v_cons; [exact (all2v_nil ts nts) | | reflexivity].
    rewrite den_lst. rewrite all2v_cons; [| rewrite den_lst; all2v_go | reflexivity].
    rewrite all2v_app by exact Q10. exact (all2v_nil ts nts).
  - destruct n'; [discriminate|]. apply elseifs_inv in Q11.
    destruct Q11 as [[Hx _]|[(el' & b2' & Hx & Q11)|(? & ? & ? & ? & ? & Hx & _)]]; try discriminate Hx.
    injection Hx as <- <-. osplit Q11 E5. ctx_split HCl2. open_lst.
    tinv E5. hit.
    eapply RT_bind; [eapply (c_chunk _ _ _ _ HR); [gd | exact Q11 | eassumption | fw]|].
    cbv beta. intros eb p4 Hl_p4 (Q13 & Q14 & Q15 & fs2 & ->). subst s2. prim. prim; rewrite bind_assert by reflexivity. prim.
    tinv Hg. hit. rewrite mk_eq. apply RT_ok; [lia|]. unfold QS.
    split; [reflexivity|]. split; [lia|]. split; [|split; reflexivity].
    rewrite den_node; [| reflexivity | apply loc_if_long; [exact Qn | rewrite forallb_app', Q10p; reflexivity | exact Hthen]].   (* VD *)
    all2v_tac. rewrite all2v_cons; [exact (all2v_nil ts nts) | | reflexivity].
    rewrite den_lst. rewrite all2v_cons; [| rewrite den_lst; all2v_go | reflexivity].
    rewrite all2v_app by exact Q10. all2v_tac.
Qed.

(* ---------------------------------------------------------------- for *)
Definition fstat := nomatch (lua_binops ++ cont_pats ++ [psym ","%bs; psym "="%bs]).

Lemma namelist_open g s s' : namelist g s = Some s' ->
  exists a b sh x r s1, g = Node tNameList a b sh [Lst (x :: r)] /\ tokc CName x s = Some s1 /\
                        sep_tail (tokc CName) (sym ","%bs) r s1 = Some s'.
Proof.
  unfold namelist. intros H. destruct g as [tag a b sh fs| | | | | | | |]; try discriminate.
  destruct fs as [|[| |l| | | | | |] [|? ?]]; try discriminate. gtag H tNameList.
  destruct l as [|x r]; [discriminate|]. cbn [sep_list] in H. apply obind_some in H. destruct H as (s1 & E & H).
  eexists _, _, _, _, _, _. split; [reflexivity|]. split; eassumption.
Qed.

Lemma for_tail pos p1 mx n d bk e s' (pre : list tree) tag :
  G p1 -> (s <~ kw "do"%bs d (SS p1) ;; s <~ g_chunk n bk s ;; kw "end"%bs e s) = Some s' ->
  CTX d mx -> CTX bk mx -> CTX e mx ->
  RT ts (('(di, _) <- expect ts (pkw "do"%bs) ;; b <- r_chunk R ;; b <- assert_node b ;;
       '(ei, _) <- expect ts (pkw "end"%bs) ;; mk tag pos (pre ++ [Kw di; b; Kw ei])) (p1, mx)) mx
     (fun t p' => SS p' = s' /\ p1 < p' /\
        exists di b1 ei, t = Node tag pos p' false (pre ++ [Kw di; b1; Kw ei]) /\ den bk b1 = true /\
                         is_hidden b1 = false /\ d = Kw di /\ e = Kw ei).
Proof.
  intros HG Hg HC1 HC2 HC3. destruct HG as [Hp0 HGk]. osplit Hg E1. osplit Hg E2. tinv E1. hit.
  pose proof (hd_kw _ _ _ _ Hg) as Hh.
  eapply RT_bind; [eapply (c_chunk _ _ _ _ HR); [gd | exact E2 | eassumption | fhd Hh]|].
  cbv beta. intros b1 p2 Hl_p2 (Q1 & Q2 & Q3 & fs & ->). subst s0. prim; rewrite bind_assert by reflexivity.
  tinv Hg. hit. rewrite mk_eq. apply RT_ok; [lia|]. split; [reflexivity|]. split; [lia|].
  eexists _, _, _. split; [reflexivity|]. split; [exact Q3|]. repeat split.
Qed.

Definition g_dotail (n : nat) (d b e : tree) (s : stream) : option stream :=
  s <~ kw "do"%bs d s ;; s <~ g_chunk n b s ;; kw "end"%bs e s.

Lemma L_for_step pos fi p mx n a b nm q e1 c1 e2 r s' : G' p -> pos <= fi -> fi + 1 = p ->
  (s <~ tokc CName nm (SS p) ;; s <~ sym "="%bs q s ;; s <~ g_exp n e1 s ;; s <~ sym ","%bs c1 s ;; s <~ g_exp n e2 s ;;
   match r with
   | [PNone; d; b0; e] => g_dotail n d b0 e s
   | [c2; e3; d; b0; e] => s <~ sym ","%bs c2 s ;; s <~ g_exp n e3 s ;; g_dotail n d b0 e s
   | _ => None
   end) = Some s' ->
  CTXL (nm :: q :: e1 :: c1 :: e2 :: r) mx ->
  RT ts (for_def ts R pos fi (p, mx)) mx (QS (Node tStatForStep a b false (Kw fi :: nm :: q :: e1 :: c1 :: e2 :: r)) s' pos).
Proof.
  intros HG Hpos Hfi Hg HC. destruct HG as [Hp0 HGk]. unfold for_def. prim.
  apply CTXL_cons in HC. destruct HC as [HCnm HC]. apply CTXL_cons in HC. destruct HC as [HCq HC].
  apply CTXL_cons in HC. destruct HC as [HCe1 HC]. apply CTXL_cons in HC. destruct HC as [HCc1 HC].
  apply CTXL_cons in HC. destruct HC as [HCe2 HC].
  osplit Hg E1. osplit Hg E2. osplit Hg E3. osplit Hg E4. osplit Hg E5.
  tinv E1. hit. tinv E2. hit. pose proof (hd_sym _ _ _ _ E4) as Hh4.
  eapply RT_bind; [eapply R_exp; [exact HR | gd | exact E3 | eassumption | fhd Hh4]|].
  cbv beta. intros x1 p1 Hl_p1 (Q1 & Q2 & Q3 & Q4 & Q5). ssubst. destruct (isnode_facts _ _ Q4) as (Qh & Qn & _).
  prim; rewrite bind_assert by exact Qn. tinv E4. hit.
  destruct r as [|y1 [|y2 [|y3 [|y4 [|y5 [|? ?]]]]]]; try discriminate Hg; try (exfalso; gmatch Hg; fail).
  - (* no step *)
    destruct y1; try discriminate Hg. ctx_split HC. unfold g_dotail in Hg. pose proof Hg as Hg'. osplit Hg' E6.
    pose proof (hd_kw _ _ _ _ E6) as Hh6.
    eapply RT_bind; [eapply R_exp; [exact HR | gd | exact E5 | eassumption | fhd Hh6]|].
    cbv beta. intros x2 p2 Hl_p2 (Q6 & Q7 & Q8 & Q9 & Q10). ssubst. destruct (isnode_facts _ _ Q9) as (Qh2 & Qn2 & _).
    prim; rewrite bind_assert by exact Qn2. assert (Hf1 : follow (anyof [pkw "do"%bs]) mx (SS p2)) by (fhd Hh6). miss.
    eapply RT_conseq; [eapply (for_tail pos p2 mx n y2 y3 y4 s' [Kw fi; Tok i t; Kw i0; x1; Kw i1; x2; PNone] tStatForStep);
                       [gd | exact Hg | eassumption | eassumption | eassumption]|].
    cbv beta. intros tr p' Hl_px (Q11 & Q12 & di & b1 & ei & -> & Q13 & Q14 & -> & ->). unfold QS.
    split; [exact Q11|]. split; [lia|]. split; [|split; reflexivity]. cbn [app opt_tok]. den_side.
  - (* step *)
    ctx_split HC.
    assert (Hg2 : (s <~ sym ","%bs y1 s3 ;; s <~ g_exp n y2 s ;; g_dotail n y3 y4 y5 s) = Some s') by (destruct y1; exact Hg).
    clear Hg. rename Hg2 into Hg. osplit Hg E6. osplit Hg E7. pose proof (hd_sym _ _ _ _ E6) as Hh6.
    eapply RT_bind; [eapply R_exp; [exact HR | gd | exact E5 | eassumption | fhd Hh6]|].
    cbv beta. intros x2 p2 Hl_p2 (Q6 & Q7 & Q8 & Q9 & Q10). ssubst. destruct (isnode_facts _ _ Q9) as (Qh2 & Qn2 & _).
    prim; rewrite bind_assert by exact Qn2. tinv E6. hit. unfold g_dotail in Hg. pose proof Hg as Hg'. osplit Hg' E8.
    pose proof (hd_kw _ _ _ _ E8) as Hh8.
    eapply RT_bind; [eapply R_exp; [exact HR | gd | exact E7 | eassumption | fhd Hh8]|].
    cbv beta. intros x3 p3 Hl_p3 (Q11 & Q12 & Q13 & Q14 & Q15). ssubst. destruct (isnode_facts _ _ Q14) as (Qh3 & Qn3 & _).
    prim; rewrite bind_assert by exact Qn3. prim.
    eapply RT_conseq; [eapply (for_tail pos p3 mx n y3 y4 y5 s' [Kw fi; Tok i t; Kw i0; x1; Kw i1; x2; Kw i2; x3] tStatForStep);
                       [gd | exact Hg | eassumption | eassumption | eassumption]|].
    cbv beta. intros tr p' Hl_px (Q16 & Q17 & di & b1 & ei & -> & Q18 & Q19 & -> & ->). unfold QS.
    split; [exact Q16|]. split; [lia|]. split; [|split; reflexivity]. cbn [app opt_tok]. den_side.
Qed.

Lemma nl_stop_follow mx s : follow (nomatch [psym ","%bs]) mx s -> nl_stop mx s.
Proof.
  unfold follow, nl_stop. destruct (peek mx s) as [[i t]|]; [|intros; exact I]. intros H.
  rewrite (nomatch_in _ _ (psym ","%bs) H (or_introl eq_refl)). exact I.
Qed.

Lemma L_for_in pos fi p mx n a b nl iw el d bk e s' : G' p -> pos <= fi -> fi + 1 = p ->
  (s <~ namelist nl (SS p) ;; s <~ kw "in"%bs iw s ;; s <~ g_explist n el s ;; g_dotail n d bk e s) = Some s' ->
  CTXL [nl; iw; el; d; bk; e] mx ->
  RT ts (for_def ts R pos fi (p, mx)) mx (QS (Node tStatForIn a b false [Kw fi; nl; iw; el; d; bk; e]) s' pos).
Proof.
  intros HG Hpos Hfi Hg HC. destruct HG as [Hp0 HGk]. unfold for_def. prim. ctx_split HC.
  osplit Hg E1. osplit Hg E2. osplit Hg E3. pose proof E1 as E1'.
  apply namelist_open in E1'. destruct E1' as (na & nb & nsh & x & r & s2 & -> & Ex & Er).
  pose proof (hd_kw _ _ _ _ E2) as Hh2.
  assert (Hq : follow (nomatch [psym "="%bs]) mx s2).
  { destruct r as [|c2 [|x2 r2]]; cbn [sep_tail] in Er; [injection Er as <-; fhd Hh2 | discriminate |].
    apply obind_some in Er. destruct Er as (? & Er & _). pose proof (hd_sym _ _ _ _ Er) as Hh. fhd Hh. }
  assert (Hx : exists i t0 t, x = Tok i t0 /\ SS p = (i, t) :: s2 /\ kmatch (kd t) (PClass CName) = true /\ fence_ok mx i = true).
  { apply tokc_inv in Ex. destruct Ex as (i & t0 & t & -> & Hs & Hk). exists i, t0, t. repeat split; try assumption.
    match goal with HCn : ValidDomain1.CTX ts _ (Node tNameList _ _ _ _) mx |- _ =>
      pose proof HCn as HCn'; apply CTX_node in HCn'; ctx_split HCn' end. open_lst.
    match goal with HCt : ValidDomain1.CTX ts _ (Tok i t0) mx |- _ => exact (CTX_tok ts _ _ _ _ HCt) end. }
  destruct Hx as (i & t0 & t & -> & Hs & Hk & Hlim). destruct (spos ts p i t s2 Hp0 Hs) as (Hle & Hlt & Hn). ssubst.
  hit. miss.
  eapply RT_bind; [eapply L_namelist; [exact HR | split; assumption | exact E1 | eassumption | eapply nl_stop_hd; [|exact Hh2]; reflexivity]|].
  cbv beta. intros nl1 p1 Hl_p1 (Q1 & Q2 & Q3 & Q4 & Q5). ssubst. prim; rewrite bind_assert by exact Q4. tinv E2. hit.
  unfold g_dotail in Hg. pose proof Hg as Hg'. osplit Hg' E4. pose proof (hd_kw _ _ _ _ E4) as Hh4.
  eapply RT_bind; [eapply L_explist; [exact HR | gd | exact E3 | eassumption | fhd Hh4]|].
  cbv beta. intros el1 p2 Hl_p2 (Q6 & Q7 & Q8 & Q9 & Q10). ssubst. prim; rewrite bind_assert by exact Q9.
  eapply RT_conseq; [eapply (for_tail pos p2 mx n d bk e s' [Kw fi; nl1; Kw i0; el1] tStatForIn);
                     [gd | exact Hg | eassumption | eassumption | eassumption]|].
  cbv beta. intros tr p' Hl_px (Q11 & Q12 & di & b1 & ei & -> & Q13 & Q14 & -> & ->). unfold QS.
  split; [exact Q11|]. split; [lia|]. split; [|split; reflexivity]. cbn [app]. den_side.
Qed.

(* ---------------------------------------------------------------- local *)
Lemma g_funcbody_head n g s s' : g_funcbody n g s = Some s' -> hd_in [psym "("%bs] s.
Proof.
  destruct n; [discriminate|]. intros H. destruct g as [tag a b sh fs| | | | | | | |]; try discriminate.
  destruct fs as [|o r]; [discriminate|]. cbn [g_funcbody] in H. destruct (tag =? tFunctionBody); [|discriminate].
  cbv beta iota zeta in H. hd_first H.
Qed.

Lemma L_local_fun pos li p mx n a b f nm body s' : G' p -> pos <= li -> li + 1 = p ->
  (s <~ kw "function"%bs f (SS p) ;; s <~ tokc CName nm s ;; g_funcbody n body s) = Some s' ->
  CTXL [f; nm; body] mx ->
  RT ts (local_def ts R pos li (p, mx)) mx (QS (Node tStatLocalFunction a b false [Kw li; f; nm; body]) s' pos).
Proof.
  intros HG Hpos Hli Hg HC. destruct HG as [Hp0 HGk]. ctx_split HC. osplit Hg E1. osplit Hg E2.
  unfold local_def. tinv E1. hit. tinv E2. hit.
  eapply RT_bind; [eapply L_funcbody; [exact HR | gd | exact Hg | eassumption]|].
  cbv beta. intros b1 p1 Hl_p1 (Q1 & Q2 & Q3 & Q4 & Q5). prim; rewrite bind_assert by exact Q4.
  rewrite mk_eq. apply RT_ok; [lia|]. unfold QS. split; [exact Q1|]. split; [lia|]. split; [|split; reflexivity]. den_side.
Qed.

Lemma namelist_head g s s' : namelist g s = Some s' -> hd_in [PClass CName] s.
Proof.
  intros H. apply namelist_open in H. destruct H as (a & b & sh & x & r & s1 & _ & Ex & _). hd_first Ex.
Qed.

Lemma L_local_asg pos li p mx n a b nl tl s' : G' p -> pos <= li -> li + 1 = p ->
  (tl = [PNone] /\ namelist nl (SS p) = Some s' /\ follow fstat mx s') \/
  (exists q el, tl = [q; el] /\ (s <~ namelist nl (SS p) ;; s <~ sym "="%bs q s ;; g_explist n el s) = Some s' /\ follow fstat mx s') ->
  CTXL (nl :: tl) mx ->
  RT ts (local_def ts R pos li (p, mx)) mx (QS (Node tStatLocalAssignment a b false (Kw li :: nl :: tl)) s' pos).
Proof.
  intros HG Hpos Hli Hg HC. destruct HG as [Hp0 HGk]. apply CTXL_cons in HC. destruct HC as [HCnl HC]. unfold local_def.
  destruct Hg as [(-> & Hg & Hf)|(q & el & -> & Hg & Hf)].
  - pose proof (namelist_head _ _ _ Hg) as Hh. assert (Hf0 : follow (anyof [PClass CName]) mx (SS p)) by (fhd Hh). miss.
    eapply RT_bind; [eapply L_namelist; [exact HR | split; assumption | exact Hg | exact HCnl | apply nl_stop_follow; fw]|].
    cbv beta. intros nl1 p1 Hl_p1 (Q1 & Q2 & Q3 & Q4 & Q5). subst s'. prim; rewrite bind_assert by exact Q4. miss.
    rewrite mk_eq. apply RT_ok; [lia|]. unfold QS. split; [reflexivity|]. split; [lia|]. split; [|split; reflexivity]. den_side.
  - osplit Hg E1. osplit Hg E2. ctx_split HC.
    pose proof (namelist_head _ _ _ E1) as Hh. assert (Hf0 : follow (anyof [PClass CName]) mx (SS p)) by (fhd Hh). miss.
    pose proof (hd_sym _ _ _ _ E2) as Hh2.
    eapply RT_bind; [eapply L_namelist; [exact HR | split; assumption | exact E1 | exact HCnl | eapply nl_stop_hd; [|exact Hh2]; reflexivity]|].
    cbv beta. intros nl1 p1 Hl_p1 (Q1 & Q2 & Q3 & Q4 & Q5). ssubst. prim; rewrite bind_assert by exact Q4. tinv E2. hit.
    eapply RT_bind; [eapply L_explist; [exact HR | gd | exact Hg | eassumption | fw]|].
    cbv beta. intros el1 p2 Hl_p2 (Q6 & Q7 & Q8 & Q9 & Q10). prim; rewrite bind_assert by exact Q9.
    rewrite mk_eq. apply RT_ok; [lia|]. unfold QS. split; [exact Q6|]. split; [lia|]. split; [|split; reflexivity]. den_side.
Qed.

(* ---------------------------------------------------------------- statements *)

Definition shortif_stmt : Prop :=
  forall pos ii q tif p mx n a b o c ex bk rest s',
  G p -> pos <= ii -> ii + 1 = p -> 0 <= q -> SS q = (ii, tif) :: SS p ->
  (s <~ g_prefix n (Paren o c ex) (SS p) ;; s <~ g_chunk n bk s ;;
   match rest with
   | [] => Some s
   | [el; Lst [PNone; b2]] => s <~ kw "else"%bs el s ;; g_chunk n b2 s
   | _ => None
   end) = Some s' ->
  CTX (Node tStatIf a b true [Kw ii; Lst (Lst [Paren o c ex; bk] :: rest)]) mx ->
  RT ts (if_def ts R pos ii (p, mx)) mx (QS (Node tStatIf a b true [Kw ii; Lst (Lst [Paren o c ex; bk] :: rest)]) s' pos).

Hypothesis H_shortif : shortif_stmt.

Lemma assign_ops_nt : forallb pat_nontrivia assign_ops = true.
Proof. reflexivity. Qed.

Lemma L_stat p mx n g s' : G' p -> g_stat n g (SS p) = Some s' -> CTX g mx -> follow fstat mx s' ->
  is_tag g tStatBreak = false -> RT ts (stat_def ts R (p, mx)) mx (QS g s' p).
Proof.
  intros HG Hg HC Hf Hnb. destruct HG as [Hp0 HGk]. destruct n; [discriminate|]. cbn [g_stat] in Hg.
  destruct g as [tag a b sh fs| | | | | | | |]; try discriminate.
  gtag Hg tStatAssignment.
  { gmatch Hg. gtag Hg tVarList. open_node. open_node. open_lst.
    osplit Hg E1. osplit Hg E2. apply tokp_inv in E2. destruct E2 as (oi & ot0 & ot & -> & -> & Hu).
    rewrite is_assignop_anyof in Hu. unfold stat_def. prim.
    eapply RT_bind; [eapply L_varlist; [split; assumption | exact E1 | eassumption | apply follow_head; exact Hu]|].
    cbv beta. intros vl p1 Hl_p1 (Q1 & Q2 & tl & -> & Q3). cbn [is_none strip_paren]. prim.
    destruct (spos ts p1 oi ot _ ltac:(lia) Q1) as (Hle & Hlt & Hn). ssubst.
    match goal with HCt : ValidDomain1.CTX ts _ (Tok oi ot0) mx |- _ => pose proof (CTX_tok ts _ _ _ _ HCt) as Hlim end.
    rewrite (bind_accept_first_hit ts assign_ops _ p1 mx oi ot _ assign_ops_nt ltac:(lia) Q1 Hlim
               ltac:(eapply anyof_sub; [|exact Hu]; vm_compute; reflexivity)). cbv beta iota zeta. prim.
    eapply RT_bind; [eapply L_explist; [exact HR | gd | exact Hg | eassumption | fw]|].
    cbv beta. intros el1 p2 Hl_p2 (Q6 & Q7 & Q8 & Q9 & Q10). prim; rewrite bind_assert by exact Q9. prim.
    rewrite ret_eq. apply RT_ok; [lia|]. unfold QS. split; [exact Q6|]. split; [lia|]. split; [|split; reflexivity]. den_side. }
  gtag Hg tStatFunctionCall.
  { gmatch Hg. destruct (is_tag t tFunctionCall || is_tag t tFunctionCallMethod) eqn:Ec; [|discriminate]. open_node.
    destruct (L_prefixexp ts nts R k HR p mx n t s' (conj Hp0 HGk) Hg ltac:(eassumption) ltac:(fw)) as (fc & p1 & E & Hl_p1 & Q1 & Q2 & Q3 & Q4 & Q5 & _).
    assert (Htag : tag_of fc = tFunctionCall \/ tag_of fc = tFunctionCallMethod).
    { destruct t as [tg ta tb tsh tfs| | | | | | | |]; try discriminate Ec. unfold is_tag in Ec.
      destruct (tg =? tFunctionCall) eqn:E1.
      - apply Z.eqb_eq in E1. subst tg. left. eapply den_tag_of; [exact Q3 | reflexivity].
      - destruct (tg =? tFunctionCallMethod) eqn:E2; [|discriminate Ec]. apply Z.eqb_eq in E2. subst tg. right.
        eapply den_tag_of; [exact Q3 | reflexivity]. }
    assert (Hv : is_var fc = false) by (unfold is_var; destruct Htag as [-> | ->]; reflexivity).
    assert (Hcl : is_call fc = true) by (unfold is_call; destruct Htag as [-> | ->]; reflexivity).
    unfold stat_def, varlist_def, var_def, functioncall_def. prim. rewrite (bind_ok _ _ _ _ _ E). rewrite Hv.
    do 3 (prim; cbn [is_none strip_paren negb]). rewrite (bind_ok _ _ _ _ _ E). rewrite Hcl. prim. rewrite Q5. cbn [negb].
    rewrite mk_eq. apply RT_ok; [lia|]. unfold QS. split; [exact Q1|]. split; [lia|]. split; [|split; reflexivity]. den_side. }
  gtag Hg tStatDo.
  { gmatch Hg. open_node. osplit Hg E1. osplit Hg E2. tinv E1. stat_start Hp0. hit. pose proof (hd_kw _ _ _ _ Hg) as Hh.
    eapply RT_bind; [eapply (c_chunk _ _ _ _ HR); [gd | exact E2 | eassumption | fhd Hh]|].
    cbv beta. intros b1 p2 Hl_p2 (Q1 & Q2 & Q3 & fs & ->). ssubst. prim; rewrite bind_assert by reflexivity. tinv Hg. hit.
    rewrite mk_eq. apply RT_ok; [lia|]. unfold QS. split; [reflexivity|]. split; [lia|]. split; [|split; reflexivity]. den_side. }
  gtag Hg tStatWhile.
  { gmatch Hg. open_node. osplit Hg E1. osplit Hg E2. tinv E1. stat_start Hp0. hit.
    assert (Hgt : g_dotail n t1 t2 t3 s0 = Some s') by exact Hg. unfold g_dotail in Hg. osplit Hg E3.
    pose proof (hd_kw _ _ _ _ E3) as Hh.
    eapply RT_bind; [eapply R_exp; [exact HR | gd | exact E2 | eassumption | fhd Hh]|].
    cbv beta. intros x1 p1 Hl_p1 (Q1 & Q2 & Q3 & Q4 & Q5). ssubst. destruct (isnode_facts _ _ Q4) as (Qh & Qn & _).
    prim; rewrite bind_assert by exact Qn.
    eapply RT_conseq; [eapply (for_tail p p1 mx n t1 t2 t3 s' [Kw i; x1] tStatWhile); [gd | exact Hgt | eassumption | eassumption | eassumption]|].
    cbv beta. intros tr p' Hl_px (Q11 & Q12 & di & b1 & ei & -> & Q13 & Q14 & -> & ->). unfold QS.
    split; [exact Q11|]. split; [lia|]. split; [|split; reflexivity]. cbn [app]. den_side. }
  gtag Hg tStatRepeat.
  { gmatch Hg. open_node. osplit Hg E1. osplit Hg E2. osplit Hg E3. tinv E1. stat_start Hp0. hit.
    pose proof (hd_kw _ _ _ _ E3) as Hh.
    eapply RT_bind; [eapply (c_chunk _ _ _ _ HR); [gd | exact E2 | eassumption | fhd Hh]|].
    cbv beta. intros b1 p2 Hl_p2 (Q1 & Q2 & Q3 & fs & ->). ssubst. prim; rewrite bind_assert by reflexivity. tinv E3. hit.
    eapply RT_bind; [eapply R_exp; [exact HR | gd | exact Hg | eassumption | fw]|].
    cbv beta. intros x1 p1 Hl_p1 (Q4 & Q5 & Q6 & Q7 & Q8). destruct (isnode_facts _ _ Q7) as (Qh & Qn & _).
    prim; rewrite bind_assert by exact Qn.
    rewrite mk_eq. apply RT_ok; [lia|]. unfold QS. split; [exact Q4|]. split; [lia|]. split; [|split; reflexivity]. den_side. }
  gtag Hg tStatIf.
  { destruct sh.
    - gmatch Hg; pose proof HC as HC'; apply CTX_node in HC'; ctx_split HC'; osplit Hg E1; tinv E1; stat_start Hp0; hit;
      (eapply H_shortif; [gd | lia | reflexivity | exact Hp0 | eassumption | exact Hg | exact HC]).
    - gmatch Hg. pose proof HC as HC'. apply CTX_node in HC'. ctx_split HC'. open_lst. open_lst.
      osplit Hg E1. tinv E1. stat_start Hp0. hit.
      eapply L_if_long; [gd | lia | reflexivity | exact Hg | | eassumption | eassumption].
      repeat (apply Forall_cons; [eassumption|]). constructor. }
  gtag Hg tStatForStep.
  { open_node. destruct fs as [|f [|nm [|q [|e1 [|c1 [|e2 r]]]]]]; try discriminate Hg.
    osplit Hg E1. apply CTXL_cons in HC. destruct HC as [HCf HC]. tinv E1. stat_start Hp0. hit.
    eapply L_for_step; [gd | lia | reflexivity | exact Hg | exact HC]. }
  gtag Hg tStatForIn.
  { gmatch Hg. open_node. osplit Hg E1. tinv E1. stat_start Hp0. hit.
    eapply L_for_in; [gd | lia | reflexivity | exact Hg |]. repeat (apply Forall_cons; [eassumption|]). constructor. }
  gtag Hg tStatFunction.
  { gmatch Hg; gtag Hg tFunctionName; open_node; osplit Hg E1; osplit Hg E2; osplit Hg E3; try discriminate E3; tinv E1;
      stat_start Hp0; hit; pose proof (g_funcbody_head _ _ _ _ Hg) as Hh.
    all: match goal with HCn : ValidDomain1.CTX ts _ (Node tFunctionName ?fa ?fb ?fsh ?ffs) ?mx0 |- _ =>
           eapply RT_bind; [eapply (L_funcname ts nts R k HR _ mx0 (Node tFunctionName fa fb fsh ffs));
             [gd | unfold g_funcname; change (tFunctionName =? tFunctionName) with true; cbv iota; rewrite E2; exact E3
              | exact HCn | fhd Hh]|] end.
    all: cbv beta; intros fn p1 Hl_p1 (Q1 & Q2 & Q3 & Q4 & Q5); ssubst; (prim; rewrite bind_assert by exact Q4).
    all: (eapply RT_bind; [eapply L_funcbody; [exact HR | gd | exact Hg | eassumption]|]).
    all: cbv beta; intros b1 p2 Hl_p2 (Q6 & Q7 & Q8 & Q9 & Q10); (prim; rewrite bind_assert by exact Q9).
    all: rewrite mk_eq; (apply RT_ok; [lia|]); unfold QS; (split; [exact Q6|]); (split; [lia|]); (split; [|split; reflexivity]); den_side. }
  gtag Hg tStatLocalFunction.
  { gmatch Hg. open_node. osplit Hg E1. tinv E1. stat_start Hp0. hit.
    eapply L_local_fun; [gd | lia | reflexivity | exact Hg |]. repeat (apply Forall_cons; [eassumption|]). constructor. }
  gtag Hg tStatLocalAssignment.
  { open_node. destruct fs as [|l [|nl tl]]; try discriminate Hg; try (exfalso; gmatch Hg; fail).
    apply CTXL_cons in HC. destruct HC as [HCl HC].
    assert (Hl : exists i, l = Kw i /\ exists t, SS p = (i, t) :: SS (i + 1) /\ kmatch (kd t) (pkw "local"%bs) = true /\
                 p <= i /\ i < len /\ fence_ok mx i = true /\
                 ((tl = [PNone] /\ namelist nl (SS (i + 1)) = Some s') \/
                  (exists q el, tl = [q; el] /\ (s <~ namelist nl (SS (i + 1)) ;; s <~ sym "="%bs q s ;; g_explist n el s) = Some s'))).
    { destruct tl as [|x1 [|x2 [|? ?]]]; cbv beta iota in Hg; try discriminate Hg; try (exfalso; gmatch Hg; fail).
      - destruct x1; try discriminate Hg. osplit Hg E1. tinv E1. eexists. split; [reflexivity|]. eexists. split; [eassumption|].
        split; [assumption|]. split; [lia|]. split; [lia|]. split; [assumption|]. left. split; [reflexivity | exact Hg].
      - assert (Hg2 : (s <~ kw "local"%bs l (SS p) ;; s <~ namelist nl s ;; s <~ sym "="%bs x1 s ;; g_explist n x2 s) = Some s')
          by (destruct x1; exact Hg).
        osplit Hg2 E1. tinv E1. eexists. split; [reflexivity|]. eexists. split; [eassumption|].
        split; [assumption|]. split; [lia|]. split; [lia|]. split; [assumption|]. right. eexists _, _. split; [reflexivity | exact Hg2]. }
    destruct Hl as (i & -> & t & Hs & Hk & Hle & Hlt & Hlim & Hcases).
    pose proof (follow_known ts _ mx _ _ _ _ Hs Hk) as Hf0. stat_start Hp0. hit.
    eapply L_local_asg with (n := n); [gd | lia | reflexivity | | exact HC].
    destruct Hcases as [[-> Hn]|(q & el & -> & Hn)]; [left | right; eexists _, _]; repeat split; first [reflexivity | assumption]. }
  gtag Hg tStatGoto.
  { gmatch Hg. open_node. osplit Hg E1. osplit Hg E2. tinv E1. stat_start Hp0. hit.
    match goal with HCh : ValidDomain1.CTX ts _ (Hid (Tok ?j ?tg)) mx |- _ => apply CTX_hid in HCh end.
    apply tokc_inv in E2. destruct E2 as (j & tg & tj & [= <- <-] & Hs2 & Hk2).
    match type of Hs2 with sstream _ ?q = _ =>
      destruct (sstream_cons ts q _ _ _ ltac:(lia) Hs2) as (Hle2 & Hlt2 & Hn2 & Hta & _) end. ssubst.
    match goal with HCt : ValidDomain1.CTX ts _ (Tok ?jj ?tt) mx |- _ =>
      pose proof (CTX_tok ts _ _ _ _ HCt) as Hlim2; pose proof (CTX_tokdata ts _ _ _ _ _ HCt Hta) as Hdata end.
    hit. destruct (zlist_eqb b0 (tdata t0)) eqn:Ez; [|discriminate Hg]. injection Hg as <-.
    rewrite mk_eq. apply RT_ok; [lia|]. unfold QS. split; [reflexivity|]. split; [lia|]. split; [|split; reflexivity].
    rewrite den_node by reflexivity. all2v_tac. rewrite all2v_cons; [exact (all2v_nil ts nts) | | reflexivity].
    apply den_pbytes. rewrite Hdata. exact Ez. }
  gtag Hg tStatLabel.
  { gmatch Hg. open_node. osplit Hg E1.
    match goal with HCh : ValidDomain1.CTX ts _ (Hid (Tok ?j ?tg)) mx |- _ => apply CTX_hid in HCh end.
    apply tokc_inv in E1. destruct E1 as (j & tg & tj & [= <- <-] & Hs2 & Hk2).
    destruct (sstream_cons ts _ _ _ _ Hp0 Hs2) as (Hle2 & Hlt2 & Hn2 & Hta & _). subst s.
    match goal with HCt : ValidDomain1.CTX ts _ (Tok ?jj ?tt) mx |- _ =>
      pose proof (CTX_tok ts _ _ _ _ HCt) as Hlim2; pose proof (CTX_tokdata ts _ _ _ _ _ HCt Hta) as Hdata end.
    pose proof (follow_known ts _ mx _ _ _ _ Hs2 Hk2) as Hf0. stat_start Hp0. hit.
    destruct (zlist_eqb b0 (label_name (tdata t))) eqn:Ez; [|discriminate Hg]. injection Hg as <-.
    rewrite mk_eq. apply RT_ok; [lia|]. unfold QS. split; [reflexivity|]. split; [lia|]. split; [|split; reflexivity].
    rewrite den_node by reflexivity. all2v_tac. rewrite all2v_cons; [exact (all2v_nil ts nts) | | reflexivity].
    apply den_pbytes. rewrite label_slice, Hdata. exact Ez. }
  gtag Hg tStatBreak. unfold is_tag in Hnb. discriminate Hnb.
Qed.

(* ---------------------------------------------------------------- statement lists *)
Definition stats_first : list pat := pkw "return"%bs :: psym "("%bs :: stat_first_np.

Lemma g_stats_head n x r s s' : g_stats n (x :: r) s = Some s' -> is_kwt x = false -> hd_in stats_first s.
Proof.
  intros H Hx. destruct n; [discriminate|]. cbn [g_stats] in H. destruct x; try discriminate Hx.
  all: try (cbn [is_tag] in H; apply obind_some in H; destruct H as (s1 & H & _); destruct n; discriminate H).
  destruct (is_tag (Node tag s0 e short fields) tStatReturn).
  - gmatch H; hd_first H.
  - apply obind_some in H. destruct H as (s1 & H & _). apply g_stat_head in H.
    destruct (starts_paren _); [|destruct (is_tag _ tStatDo)]; (eapply hd_sub; [|exact H]; vm_compute; reflexivity).
Qed.

Lemma all2d_kw_nil ks : forallb is_kwt ks = true -> all2d ks [] = true.
Proof.
  induction ks as [|x ks IH]; [reflexivity|]. cbn [forallb]. intros H. apply andb_true_iff in H. destruct H as [H1 H2].
  destruct x; try discriminate H1. rewrite all2d_cons. cbn [is_hidden]. apply IH, H2.
Qed.

(* VD: lists of semicolon leaves *)
Definition kwsl (l : list tree) : Prop := views l = [] /\ forallb is_kwt l = true.

Lemma all2v_kws_nil a b : kwsl a -> kwsl b -> all2v [] (a ++ [] ++ b) = true.
Proof.
  intros [A1 A2] [B1 B2]. apply all2v_intro.
  - unfold ParserComplete1.all2v. rewrite !views_app, A1, B1. reflexivity.
  - rewrite !forallb_app', (dom_kwl ts _ _ A2), (dom_kwl ts _ _ B2). reflexivity.
Qed.

Lemma all2v_return x y ks sm1 sm2 : den x y = true -> is_hidden y = false -> forallb is_kwt ks = true ->
  kwsl sm1 -> kwsl sm2 -> all2v (x :: ks) (sm1 ++ [y] ++ sm2) = true.
Proof.
  intros Hd Hy Hk [A1 A2] [B1 B2]. apply all2v_intro.
  - unfold ParserComplete1.all2v. rewrite !views_app, A1, views_cons, Hy, views_nil, B1. cbn [app].
    pose proof (den_old _ _ _ _ Hd) as Hd'. rewrite all2d_cons, (denotes_not_hidden _ _ Hd'). unfold ParserComplete1.den in Hd'. rewrite Hd'.
    cbn [andb]. apply all2d_kw_nil, Hk.
  - rewrite !forallb_app', (dom_kwl ts _ _ A2), (dom_kwl ts _ _ B2). cbn [forallb]. rewrite (den_dom _ _ _ _ Hd). reflexivity.
Qed.

Lemma L_semis_stats : semis_stats_ok ts nts G' (semis_def ts R).
Proof.
  intros p mx n l s' HG Hg HC Hf. destruct HG as [Hp0 HGk]. unfold semis_def.
  destruct n; [discriminate|]. destruct l as [|x r].
  - cbn [g_stats] in Hg. injection Hg as <-. miss. rewrite ret_eq. apply RT_ok; [lia|]. split; [lia|]. split; [split; reflexivity|].
    exists [], [], 1%nat. repeat split.
  - destruct (is_kwt x) eqn:Ex.
    + destruct x; try discriminate Ex. cbn [g_stats] in Hg. osplit Hg E. apply CTXL_cons in HC. destruct HC as [HC1 HC].
      tinv E. hit.
      eapply RT_bind; [eapply (c_semis_stats _ _ _ _ HR); [gd | exact Hg | exact HC | exact Hf]|].
      cbv beta. intros tl p' Hl_px (Q1 & Q2 & ks & rest & n' & -> & Q3 & Q4 & Q5). rewrite ret_eq. apply RT_ok; [lia|].
      split; [lia|]. split; [rewrite views_cons; exact Q2|]. exists (Kw i0 :: ks), rest, n'. split; [reflexivity|].
      split; [exact Q3|]. split; assumption.
    + pose proof (g_stats_head _ _ _ _ _ Hg Ex) as Hh. assert (Hf0 : follow (anyof stats_first) mx (SS p)) by (fhd Hh).
      miss. rewrite ret_eq. apply RT_ok; [lia|]. split; [lia|]. split; [split; reflexivity|].
      exists [], (x :: r), (S n). split; [reflexivity|]. split; [reflexivity|]. split; [exact Hg|].
      destruct x; try exact I. discriminate Ex.
Qed.

Lemma pguard_mono l : pguard false l = true -> pguard true l = true.
Proof.
  destruct l as [|x r]; [reflexivity|]. cbn [pguard]. destruct x; try (intros H; exact H);
    cbn [orb]; intros H; apply andb_true_iff in H; apply H.
Qed.

Lemma pguard_kws ks rest : forallb is_kwt ks = true -> pguard true (ks ++ rest) = true -> pguard true rest = true.
Proof.
  induction ks as [|x ks IH]; [intros _ H; exact H|]. cbn [forallb app]. intros H Hp. apply andb_true_iff in H.
  destruct H as [H1 H2]. destruct x; try discriminate H1. cbn [pguard] in Hp. apply IH; assumption.
Qed.

Lemma pguard_tail x r : is_kwt x = false -> pguard true (x :: r) = true -> pguard false r = true.
Proof. intros Hx H. destruct x; try discriminate Hx; cbn [pguard orb andb] in H; exact H. Qed.

Lemma stats_follow m r s1 s' mx : g_stats m r s1 = Some s' -> pguard false r = true -> follow fblock mx s' ->
  follow fstat mx s1.
Proof.
  intros H Hp Hf. destruct m; [discriminate|]. destruct r as [|y r].
  - cbn [g_stats] in H. injection H as <-. fw.
  - destruct (is_kwt y) eqn:Ey.
    + destruct y; try discriminate Ey. cbn [g_stats] in H. apply obind_some in H. destruct H as (? & H & _).
      pose proof (hd_sym _ _ _ _ H) as Hh. fhd Hh.
    + cbn [g_stats] in H. destruct y; try discriminate Ey;
        try (cbn [is_tag] in H; apply obind_some in H; destruct H as (s2 & H & _); destruct m; discriminate H).
      destruct (is_tag (Node tag s e short fields) tStatReturn).
      * assert (Hh : hd_in [pkw "return"%bs] s1) by (gmatch H; hd_first H). fhd Hh.
      * apply obind_some in H. destruct H as (s2 & H & _). cbn [pguard orb] in Hp. apply andb_true_iff in Hp.
        destruct Hp as [Hp _]. apply negb_true_iff in Hp. pose proof (g_stat_head_np _ _ _ _ H Hp) as Hh. fhd Hh.
Qed.

Lemma g_stat_break_inv n a b sh fs s s' : g_stat (S n) (Node tStatBreak a b sh fs) s = Some s' ->
  exists bk, fs = [bk] /\ kw "break"%bs bk s = Some s'.
Proof.
  cbn [g_stat]. repeat match goal with |- context [tStatBreak =? ?x] =>
    let v := eval vm_compute in (tStatBreak =? x) in change (tStatBreak =? x) with v end. cbv beta iota.
  intros H. destruct fs as [|bk [|? ?]]; try discriminate H. exists bk. split; [reflexivity | exact H].
Qed.

Lemma L_stats : stats_ok ts nts G' (stats_loop_def ts R).
Proof.
  intros p mx n l s' HG Hg HC Hpg Hf. pose proof HG as [Hp0 HGk]. unfold stats_loop_def.
  eapply RT_bind; [eapply L_semis_stats; [exact HG | exact Hg | exact HC | fw]|].
  cbv beta. intros sm p1 Hl_p1 (Q1 & (Q2 & Q2k) & ks & rest & n' & -> & Q3 & Q4 & Q5).
  apply CTXL_app in HC. destruct HC as [HCk HCr]. pose proof (pguard_kws _ _ Q3 Hpg) as Hpg'.
  assert (Hsm : all2v ks sm = true).                                                                          (* VD *)
  { apply all2v_intro; [unfold ParserComplete1.all2v; rewrite Q2; apply all2d_kw_nil, Q3 | apply dom_kwl, Q2k]. }
  destruct n'; [discriminate|]. destruct rest as [|x r].
  - cbn [g_stats] in Q4. injection Q4 as <-.
    rewrite (bind_ok _ _ _ _ _ (L_stat_none p1 mx ltac:(lia) ltac:(fw))). cbn [is_none strip_paren]. prim. miss.
    rewrite ret_eq. apply RT_ok; [lia|]. split; [lia|]. exists ks, [], 1%nat. split; [reflexivity|]. split; [exact Hsm|].
    split; [reflexivity | left; reflexivity].
  - assert (Ex : is_kwt x = false) by (destruct x; try reflexivity; contradiction Q5).
    pose proof (pguard_tail _ _ Ex Hpg') as Hpr. apply CTXL_cons in HCr. destruct HCr as [HCx HCr].
    cbn [g_stats] in Q4. destruct x as [tag a b sh fs| | | | | | | |]; try discriminate Ex;
      try (cbn [is_tag] in Q4; apply obind_some in Q4; destruct Q4 as (s2 & Q4 & _); destruct n'; discriminate Q4).
    destruct (is_tag (Node tag a b sh fs) tStatReturn) eqn:Eret.
    + assert (Hh : hd_in [pkw "return"%bs] (SS p1)) by (gmatch Q4; hd_first Q4).
      assert (Hf0 : follow (anyof [pkw "return"%bs]) mx (SS p1)) by (fhd Hh).
      rewrite (bind_ok _ _ _ _ _ (L_stat_none p1 mx ltac:(lia) ltac:(fw))). cbn [is_none strip_paren]. prim. miss.
      rewrite ret_eq. apply RT_ok; [lia|]. split; [lia|]. exists ks, (Node tag a b sh fs :: r), (S n'). split; [reflexivity|].
      split; [exact Hsm|]. split; [cbn [g_stats]; rewrite Eret; exact Q4|]. right. eexists _, _. split; [reflexivity | exact Eret].
    + osplit Q4 E. destruct (is_tag (Node tag a b sh fs) tStatBreak) eqn:Ebr.
      * unfold is_tag in Ebr. apply Z.eqb_eq in Ebr. subst tag. destruct n'; [discriminate|].
        clear Eret. apply g_stat_break_inv in E. destruct E as (bk & -> & E). open_node. tinv E.
        rewrite (bind_ok _ _ _ _ _ (L_stat_none p1 mx ltac:(lia) ltac:(fw))). cbn [is_none strip_paren]. prim. hit.
        eapply RT_bind; [eapply (c_stats _ _ _ _ HR); [gd | exact Q4 | exact HCr | apply pguard_mono, Hpr | exact Hf]|].
        cbv beta. intros tlr p2 Hl_p2 (Q6 & l1 & l2 & n2 & -> & Q7 & Q8 & Q9). rewrite ret_eq. apply RT_ok; [lia|].
        split; [lia|]. exists (ks ++ Node tStatBreak a b false [Kw i] :: l1), l2, n2.
        split; [rewrite <- app_assoc; reflexivity|]. split; [|split; assumption].
        rewrite all2v_app by exact Hsm. rewrite all2v_cons; [exact Q7 | den_side | reflexivity].
      * eapply RT_bind; [eapply L_stat; [gd | exact E | exact HCx | eapply stats_follow; eassumption | exact Ebr]|].
        cbv beta. intros st p2 Hl_p2 (Q6 & Q7 & Q8 & Q9 & Q10). ssubst. rewrite Q9.
        eapply RT_bind; [eapply (c_stats _ _ _ _ HR); [gd | exact Q4 | exact HCr | apply pguard_mono, Hpr | exact Hf]|].
        cbv beta. intros tlr p3 Hl_p3 (Q11 & l1 & l2 & n2 & -> & Q12 & Q13 & Q14). rewrite ret_eq. apply RT_ok; [lia|].
        split; [lia|]. exists (ks ++ Node tag a b sh fs :: l1), l2, n2.
        split; [rewrite <- app_assoc; reflexivity|]. split; [|split; assumption].
        rewrite all2v_app by exact Hsm. rewrite all2v_cons; [exact Q12 | exact Q8 | exact Q10].
Qed.

(* ---------------------------------------------------------------- blocks *)
Lemma g_semis_kws l s s' : g_semis l s = Some s' -> forallb is_kwt l = true.
Proof.
  revert s. induction l as [|x l IH]; intros s H; [reflexivity|]. cbn [g_semis] in H. apply obind_some in H.
  destruct H as (s1 & E & H). apply sym_inv in E. destruct E as (i & t & -> & _). cbn [forallb is_kwt]. eapply IH, H.
Qed.

Lemma g_semis_follow l s s' mx : g_semis l s = Some s' -> follow fblock mx s' -> follow (anyof (psym ";"%bs :: block_end)) mx s.
Proof.
  intros H Hf. destruct l as [|x l]; cbn [g_semis] in H.
  - injection H as <-. fw.
  - apply obind_some in H. destruct H as (s1 & E & _). pose proof (hd_sym _ _ _ _ E) as Hh. fhd Hh.
Qed.

Lemma return_inv n a b sh fs r s s' : is_tag (Node tStatReturn a b sh fs) tStatReturn = true ->
  g_stats (S n) (Node tStatReturn a b sh fs :: r) s = Some s' ->
  exists kr el, fs = [kr; el] /\
    ((el = PNone /\ (s <~ kw "return"%bs kr s ;; g_semis r s) = Some s') \/
     (el <> PNone /\ (s <~ kw "return"%bs kr s ;; s <~ g_explist n el s ;; g_semis r s) = Some s')).
Proof.
  intros Ht H. cbn [g_stats] in H. rewrite Ht in H.
  destruct fs as [|kr [|el [|? ?]]]; try discriminate H; try (destruct el; discriminate H).
  exists kr, el. split; [reflexivity|]. destruct el; first [left; split; [reflexivity | exact H] | right; split; [discriminate | exact H]].
Qed.

Lemma L_chunk : chunk_ok ts nts G' (chunk_def ts R).
Proof.
  intros p mx n g s' HG Hg HC Hf. pose proof HG as [Hp0 HGk]. destruct n; [discriminate|]. cbn [g_chunk] in Hg.
  destruct g as [tag a b sh fs| | | | | | | |]; try discriminate. destruct fs as [|[| |l| | | | | |] [|? ?]]; try discriminate.
  gtag Hg tChunk. pose proof (CTX_old _ _ _ _ HC) as (Hfrag & _). cbn [in_frag] in Hfrag. change (tChunk =? tChunk) with true in Hfrag.
  cbv iota in Hfrag. apply andb_true_iff in Hfrag. destruct Hfrag as [Hfrag _]. apply andb_true_iff in Hfrag.
  destruct Hfrag as [Hfrag _]. apply andb_true_iff in Hfrag. destruct Hfrag as [_ Hpg].
  open_node. open_lst. unfold chunk_def. prim.
  eapply RT_bind; [eapply L_stats; [exact HG | exact Hg | eassumption | exact Hpg | exact Hf]|].
  cbv beta. intros tl p1 Hl_p1 (Q1 & l1 & l2 & n' & -> & Q2 & Q3 & Q4).
  match goal with HCl : ValidDomain1.CTXL ts _ (l1 ++ l2) mx |- _ => apply CTXL_app in HCl; destruct HCl as [HCl1 HCl2] end.
  destruct Q4 as [->|(x & r & -> & Ht)].
  - destruct n'; [discriminate|]. cbn [g_stats] in Q3. injection Q3 as <-.
    eapply RT_bind; [eapply (L_semis ts nts R k HR p1 mx []); [gd | reflexivity | constructor | fw]|].
    cbv beta. intros sm1 p2 Hl_p2 (Q5 & Q6 & Q7). unfold laststat_def. prim.
    assert (Hf2 : follow fblock mx (SS p2)) by (rewrite Q5; exact Hf). miss. miss. prim.
    eapply RT_bind; [eapply (L_semis ts nts R k HR p2 mx []); [gd | reflexivity | constructor | fw]|].
    cbv beta. intros sm2 p3 Hl_p3 (Q8 & Q9 & Q10). cbn [is_none strip_paren]. rewrite mk_eq. apply RT_ok; [lia|].
    split; [congruence|]. split; [lia|]. split; [|eexists; reflexivity].
    rewrite den_node by reflexivity. rewrite all2v_cons; [exact (all2v_nil ts nts) | | reflexivity]. rewrite den_lst.
    rewrite all2v_app by exact Q2. apply all2v_kws_nil; assumption.                                              (* VD *)
  - destruct x as [tag xa xb xsh xfs| | | | | | | |]; try discriminate Ht. pose proof Ht as Ht'. unfold is_tag in Ht'.
    apply Z.eqb_eq in Ht'. subst tag. destruct n'; [discriminate|]. apply (return_inv _ _ _ _ _ _ _ _ Ht) in Q3.
    destruct Q3 as (kr & el & -> & Hcases). apply CTXL_cons in HCl2. destruct HCl2 as [HCx HCr]. open_node.
    assert (Hh : hd_in [pkw "return"%bs] (SS p1)) by (destruct Hcases as [[_ Hc]|[_ Hc]]; hd_first Hc).
    assert (Hf0 : follow (anyof [pkw "return"%bs]) mx (SS p1)) by (fhd Hh).
    eapply RT_bind; [eapply (L_semis ts nts R k HR p1 mx []); [gd | reflexivity | constructor | fw]|].
    cbv beta. intros sm1 p2 Hl_p2 (Q5 & Q6 & Q7). unfold laststat_def. prim.
    assert (Hf2 : follow (anyof [pkw "return"%bs]) mx (SS p2)) by (rewrite Q5; exact Hf0). miss.
    destruct Hcases as [[-> Hc]|[Hne Hc]].
    + osplit Hc E1. rewrite <- Q5 in E1. tinv E1. hit. pose proof (g_semis_follow _ _ _ mx Hc Hf) as Hfs.
      rewrite (bind_ok _ _ _ _ _ (L_explist_none ts nts R k HR (i + 1) mx ltac:(gd) ltac:(fw))). prim.
      cbn [is_none strip_paren].
      eapply RT_bind; [eapply (L_semis ts nts R k HR); [gd | exact Hc | exact HCr | fw]|].
      cbv beta. intros sm2 p3 Hl_p3 (Q8 & Q9 & Q10). rewrite mk_eq. apply RT_ok; [lia|].
      split; [exact Q8|]. split; [lia|]. split; [|eexists; reflexivity].
      rewrite den_node by reflexivity. rewrite all2v_cons; [exact (all2v_nil ts nts) | | reflexivity]. rewrite den_lst.
      rewrite all2v_app by exact Q2.                                                                             (* VD *)
      apply all2v_return; [rewrite den_node by reflexivity; all2v_go | reflexivity | eapply g_semis_kws, Hc | exact Q7 | exact Q10].
    + osplit Hc E1. osplit Hc E2. rewrite <- Q5 in E1. tinv E1. hit. pose proof (g_semis_follow _ _ _ mx Hc Hf) as Hfs.
      eapply RT_bind; [eapply L_explist; [exact HR | gd | exact E2 | eassumption | fw]|].
      cbv beta. intros el1 p3 Hl_p3 (Q8 & Q9 & Q10 & Q11 & Q12). ssubst. prim. cbn [is_none strip_paren].
      eapply RT_bind; [eapply (L_semis ts nts R k HR); [gd | exact Hc | exact HCr | fw]|].
      cbv beta. intros sm2 p4 Hl_p4 (Q13 & Q14 & Q15). rewrite mk_eq. apply RT_ok; [lia|].
      split; [exact Q13|]. split; [lia|]. split; [|eexists; reflexivity].
      rewrite den_node by reflexivity. rewrite all2v_cons; [exact (all2v_nil ts nts) | | reflexivity]. rewrite den_lst.
      rewrite all2v_app by exact Q2.                                                                             (* VD *)
      apply all2v_return; [rewrite den_node by reflexivity; all2v_go | reflexivity | eapply g_semis_kws, Hc | exact Q7 | exact Q15].
Qed.

End Step4.
