(* C14, residual (1) removed: packages whose (echoed) code lacks a final newline.  build.py then puts a separate
   one-byte newline line between the package's last line and `end`; the line list handed to the final parse is no
   longer "every line but the last ends in LF", so LexerChunk.model_lex_chunking does not apply.  With
   Proofs/LexerChunkNl.v (chunk_ok_sep_dialect: after a text of the dialect a line feed may come as a chunk of
   its own) the token-level clause is proved WITHOUT the condition "the last echoed line ends in LF"
   (ReqEmbedSpecTokens.pkg_shape's third conjunct), and the per-entry conditions of an unstripped package without
   the hypothesis "the file is empty or ends in a newline". *)
From PV Require Import Base.Prelude Spec.LuaLex Instances.HoldsC01 Instances.HoldsC06 Generated.T_lexer Generated.T_files_build
  Model.Lexer Model.EchoWriter Proofs.LexerProofs Proofs.LexerChunk Proofs.LexerChunkNl Proofs.EchoProofs
  Model.ReqEmbed Model.ReqEmbedInst Proofs.ReqEmbedProofs Proofs.ReqEmbedInstProofs Proofs.SpecLexChunk
  Proofs.ReqEmbedEchoGood Proofs.LexerView Proofs.EchoStable Proofs.LuaLexFacts Proofs.ReqEmbedSpecTokens.
Close Scope pm_scope.

Notation view := (Z * list Z * Z * Z * Z)%type.
Notation block_now := (block lua ReqEmbedInst.echo_lines header_line_now end_line_now nl_line_now).

(* the wider class of line lists: bytes, and lexing line by line = lexing the whole text *)
Definition good_nl (ls : list bytes) : Prop := Forall byte (concat ls) /\ chunk_ok ls.

Lemma good_lines_nl ls : good_lines ls -> good_nl ls.
Proof. intros [Hlf HB]. split; [exact HB | apply chunk_ok_good, Hlf]. Qed.

Lemma echo_views_nl ls q t :
  good_nl ls -> from_lines ls = Ok q -> sig_views (concat ls) = Some t ->
  sig_views (concat (ReqEmbedInst.echo_lines q)) = Some t.
Proof.
  intros [HB Hck] Hq Ht. unfold from_lines in Hq.
  destruct (model_lex ls) as [ts|e] eqn:Hm; [|discriminate]. cbn [bind] in Hq.
  destruct (ParserInst.lua_parse _) as [[root p]|e]; [|discriminate]. cbn [bind] in Hq. injection Hq as <-.
  unfold ReqEmbedInst.echo_lines. cbn [l_toks]. rewrite echo_toks_concat by reflexivity. cbn [app].
  rewrite (chunk_ok_model_lex ls Hck) in Hm.
  assert (Hs : exists ss, spec_lex (concat ls) = Some ss).
  { unfold sig_views, spec_toks in Ht. destruct (spec_lex (concat ls)) as [ss|]; [eexists; reflexivity | discriminate]. }
  destruct Hs as (ss & Hs).
  pose proof (model_holds_C06 (concat ls) HB) as H06. unfold echo_source in H06. rewrite Hm in H06.
  destruct (echo_crlf_only (concat ls) ss HB Hs) as (lines & Hl & Hcr). unfold echo_source in Hl. rewrite Hm in Hl.
  injection Hl as <-. rewrite echo_concat in H06, Hcr.
  exact (holds_C06_sig_views _ _ _ H06 Hcr Ht).
Qed.

(* ---------- small facts about texts ending in LF *)
Lemma ends_lf_app_r (a b : bytes) : ends_lf b -> ends_lf (a ++ b).
Proof. intros (x & ->). exists (a ++ x). rewrite app_assoc. reflexivity. Qed.

Lemma concat_lines_lf (L : list bytes) : Forall ends_lf L -> concat L = [] \/ ends_lf (concat L).
Proof.
  induction 1 as [|x L Hx _ IH]; [left; reflexivity|]. right. cbn [concat].
  destruct IH as [-> | H]; [rewrite app_nil_r; exact Hx | apply ends_lf_app_r, H].
Qed.

Lemma concat_last_lf (body : list bytes) d : body <> [] -> ends_lf (last body d) -> ends_lf (concat body).
Proof.
  intros Hne Hl. destruct (exists_last Hne) as (pre & z & ->). rewrite last_last in Hl. rewrite concat_app. cbn [concat].
  rewrite app_nil_r. apply ends_lf_app_r, Hl.
Qed.

Lemma ends_lf_last10 a : ends_lf a -> a = [] \/ last a 0 = 10.
Proof. intros (x & ->). right. apply last_last. Qed.

Lemma nil_or_lf_last10 a : a = [] \/ ends_lf a -> a = [] \/ last a 0 = 10.
Proof. intros [-> | H]; [left; reflexivity | apply ends_lf_last10, H]. Qed.

(* ---------- the invariant along the prepended lines *)
Definition Inv (L : list bytes) : Prop :=
  Forall byte (concat L) /\ (concat L = [] \/ ends_lf (concat L)) /\ (exists ta, spec_toks (concat L) = Some ta) /\ chunk_ok L.

Definition entry_ok (e : bytes * lua) : Prop :=
  lexes view sig_views (header_line_now (fst e)) /\ lexes view sig_views (concat (ReqEmbedInst.echo_lines (snd e))) /\
  Forall byte (header_line_now (fst e)) /\ good_lines (ReqEmbedInst.echo_lines (snd e)).

Lemma lexes_spec_toks c : lexes view sig_views c -> exists ta, spec_toks c = Some ta.
Proof.
  unfold lexes, sig_views. destruct (spec_toks c) as [ta|]; [intros _; eexists; reflexivity | intros H; exfalso; apply H; reflexivity].
Qed.

Lemma spec_toks_spec_lex c ta : spec_toks c = Some ta -> spec_lex c <> None.
Proof. unfold spec_toks. destruct (spec_lex c); [discriminate | discriminate]. Qed.

Lemma inv_app_lf L M : Inv L -> Forall ends_lf (removelast M) -> Forall byte (concat M) ->
  (exists tb, spec_toks (concat M) = Some tb) -> (concat M = [] \/ ends_lf (concat M)) -> Inv (L ++ M).
Proof.
  intros (HB & He & (ta & Ha) & Hck) HM HBM (tb & Hb) HeM. unfold Inv. rewrite concat_app. split; [|split; [|split]].
  - apply Forall_app. split; assumption.
  - destruct HeM as [-> | H]; [rewrite app_nil_r; exact He | right; apply ends_lf_app_r, H].
  - eexists. apply (spec_toks_app _ _ _ _ Ha (nil_or_lf_last10 _ He) Hb).
  - apply chunk_ok_app_lf; assumption.
Qed.

Lemma end_line_facts : ends_lf end_line_now /\ Forall byte end_line_now /\ exists t, spec_toks end_line_now = Some t.
Proof.
  split; [apply ends_with_nl_ends_lf; apply constants_nl|]. split; [apply all_bytes_Forall; vm_compute; reflexivity|].
  apply lexes_spec_toks. apply constants_lex.
Qed.

Lemma inv_block L e : Inv L -> entry_ok e -> Inv (L ++ block_now e).
Proof.
  intros HI (Hh & Hbd & HBh & [Hlf HBb]). unfold block. cbn [fst snd].
  set (body := ReqEmbedInst.echo_lines (snd e)) in *. set (hdr := header_line_now (fst e)) in *.
  assert (Hhdr : ends_lf hdr) by (apply ends_with_nl_ends_lf, header_line_now_nl).
  destruct end_line_facts as (Hend & HBend & Htend).
  destruct (lexes_spec_toks _ Hh) as (th & Hth). destruct (lexes_spec_toks _ Hbd) as (tb & Htb).
  (* up to the end of the package's code: lines ending in LF, except possibly the last *)
  assert (I1 : Inv (L ++ [hdr])).
  { apply inv_app_lf; [exact HI | constructor | | |]; cbn [concat]; rewrite app_nil_r;
      [exact HBh | eexists; exact Hth | right; exact Hhdr]. }
  destruct I1 as (B1 & E1 & (t1 & T1) & C1).
  assert (C2 : chunk_ok ((L ++ [hdr]) ++ body)) by (apply chunk_ok_app_lf; assumption).
  assert (B2 : Forall byte (concat ((L ++ [hdr]) ++ body))) by (rewrite concat_app; apply Forall_app; split; assumption).
  assert (T2 : spec_toks (concat ((L ++ [hdr]) ++ body)) = Some (t1 ++ tb)).
  { rewrite concat_app. apply (spec_toks_app _ _ _ _ T1 (nil_or_lf_last10 _ E1) Htb). }
  replace (L ++ hdr :: body ++ (if ends_with_nl (last body hdr) then [] else [nl_line_now]) ++ [end_line_now])
    with (((L ++ [hdr]) ++ body) ++ (if ends_with_nl (last body hdr) then [] else [nl_line_now]) ++ [end_line_now])
    by (rewrite <- !app_assoc; reflexivity).
  destruct Htend as (te & Hte).
  destruct (ends_with_nl (last body hdr)) eqn:Hnl.
  - (* the code ends with a newline: `end` follows directly *)
    cbn [app]. apply inv_app_lf; [| constructor | | |]; cbn [concat]; try rewrite app_nil_r;
      [| exact HBend | eexists; exact Hte | right; exact Hend].
    split; [|split; [|split]]; [exact B2 | | eexists; exact T2 | exact C2].
    right. rewrite concat_app. destruct body as [|b0 body'] eqn:Eb.
    + cbn [concat]. rewrite app_nil_r. destruct E1 as [E1|E1]; [|exact E1].
      exfalso. rewrite concat_app in E1. cbn [concat] in E1. rewrite app_nil_r in E1. apply app_eq_nil in E1.
      destruct E1 as [_ E1]. apply (ends_lf_ne _ Hhdr E1).
    + rewrite <- Eb in *. apply ends_lf_app_r. apply (concat_last_lf body hdr); [rewrite Eb; discriminate|].
      apply ends_with_nl_ends_lf, Hnl.
  - (* it does not: the separate newline line, then `end` *)
    rewrite (proj1 constants_nl). cbn [app]. unfold Inv.
    set (X := (L ++ [hdr]) ++ body) in *. rewrite concat_app. cbn [concat]. rewrite app_nil_r, (app_assoc (concat X)).
    split; [|split; [|split]].
    + apply Forall_app. split; [apply Forall_app; split; [exact B2 | repeat constructor; unfold byte; lia] | exact HBend].
    + right. apply ends_lf_app_r, Hend.
    + eexists. eapply (spec_toks_app _ _ _ _ (spec_toks_final_lf _ _ T2)); [right; apply last_last | exact Hte].
    + apply chunk_ok_sep_dialect; [exact C2 | exact B2 | apply (spec_toks_spec_lex _ _ T2) | constructor].
Qed.

Lemma inv_blocks pk : forall L, Inv L -> Forall entry_ok pk -> Inv (L ++ flat_map block_now pk).
Proof.
  induction pk as [|e pk IH]; intros L HI Hpk; [rewrite app_nil_r; exact HI|].
  inversion Hpk as [|e' pk' He Hpk']; subst. cbn [flat_map]. rewrite app_assoc. apply IH; [apply inv_block; assumption | exact Hpk'].
Qed.

Lemma preamble_toks :
  (exists t, spec_toks (concat require_lua_preamble_package) = Some t) /\
  (exists t, spec_toks (concat require_lua_preamble_require) = Some t).
Proof.
  split.
  - destruct (spec_toks (concat require_lua_preamble_package)) as [t|] eqn:E; [eexists; reflexivity | vm_compute in E; discriminate].
  - destruct (spec_toks (concat require_lua_preamble_require)) as [t|] eqn:E; [eexists; reflexivity | vm_compute in E; discriminate].
Qed.

Lemma inv_preamble : Inv require_lua_preamble_package.
Proof.
  destruct constants_good as (A1 & A2 & _ & _). destruct preamble_toks as (T1 & _). unfold Inv. split; [|split; [|split]].
  - exact A2.
  - apply concat_lines_lf, A1.
  - exact T1.
  - apply chunk_ok_good. clear -A1. induction A1 as [|x l Hx _ IH]; [constructor | apply removelast_cons_good; assumption].
Qed.

(* the line list handed to the final parse, whatever the last lines of the packages *)
Lemma prepend_good_nl m pk :
  Forall entry_ok pk -> good_lines (ReqEmbedInst.echo_lines m) ->
  good_nl (prepend_lines lua ReqEmbedInst.echo_lines require_lua_preamble_package require_lua_preamble_require
                         header_line_now end_line_now nl_line_now m pk).
Proof.
  intros Hpk [Hmlf Hmb]. unfold prepend_lines. destruct constants_good as (_ & _ & C1 & C2).
  pose proof (inv_blocks pk _ inv_preamble Hpk) as (B & E & _ & Ck). rewrite app_assoc. split.
  - rewrite !concat_app in *. apply Forall_app. split; [exact B|]. apply Forall_app. split; assumption.
  - apply chunk_ok_app_lf; [exact Ck | exact E | apply removelast_app_lf; assumption].
Qed.

(* ---------- the token-level clause without the final-newline condition on the entries ---------- *)
Definition pkg_shape_nl (e : bytes * lua) : Prop :=
  Forall byte (header_line_now (fst e)) /\ good_lines (ReqEmbedInst.echo_lines (snd e)).

Lemma build_code_tokens_nl :
  forall cwd fs lua_path fuel main_path main_content out,
  build_code_now cwd fs lua_path fuel main_path main_content = Ok out ->
  exists r pk, build_lua_now cwd fs lua_path fuel main_path main_content = Ok (r, pk) /\
    let toks := toks view sig_views in
    let lexes := lexes view sig_views in
    (lexes main_content -> Forall byte main_content ->
     Forall (fun e => lexes (header_line_now (fst e)) /\ lexes (concat (ReqEmbedInst.echo_lines (snd e))) /\ pkg_shape_nl e) pk ->
     sig_views out = Some match pk with
                          | [] => toks main_content
                          | _ => concat (map toks require_lua_preamble_package)
                                 ++ concat (map (fun e => toks (header_line_now (fst e))
                                                          ++ toks (concat (ReqEmbedInst.echo_lines (snd e))) ++ toks end_line_now) pk)
                                 ++ concat (map toks require_lua_preamble_require) ++ toks main_content
                          end).
Proof.
  intros cwd fs lua_path fuel mp mc out H.
  destruct (build_code_tokens_now view sig_views good_nl sig_views_chunking sig_views_final_lf sig_views_nil
              (fun ls q t Hg Hq Ht => echo_views_nl ls q t Hg Hq Ht)
              cwd fs lua_path fuel mp mc out H) as (r & pk & Hb & Ht).
  exists r, pk. split; [exact Hb|]. cbv zeta in *. intros Hmc HB Hpk.
  destruct constants_lex as (H1 & H2 & H3). apply Ht; try assumption.
  - eapply Forall_impl; [|exact Hpk]. intros e (A & B & _). split; assumption.
  - apply good_lines_nl, file_lines_good, HB.
  - intros m Hm. apply prepend_good_nl; [|eapply file_echo_good; eassumption].
    eapply Forall_impl; [|exact Hpk]. intros e (A & B & C & D). split; [|split; [|split]]; assumption.
Qed.

(* a package embedded with its game loop from ANY byte file of the dialect - with or without a final newline -
   meets the per-entry conditions, and its echoed code has exactly the file's tokens *)
Lemma unstripped_pkg_ok_nl c q :
  Forall byte c -> lexes view sig_views c -> from_lines (file_lines c) = Ok q ->
  lexes view sig_views (concat (ReqEmbedInst.echo_lines q)) /\
  toks view sig_views (concat (ReqEmbedInst.echo_lines q)) = toks view sig_views c /\
  good_lines (ReqEmbedInst.echo_lines q).
Proof.
  intros HB Hl Hq.
  assert (Hv : sig_views (concat (ReqEmbedInst.echo_lines q)) = Some (toks view sig_views c)).
  { apply (echo_views (file_lines c)); [apply file_lines_good, HB | exact Hq|].
    rewrite file_lines_concat. apply lexes_toks, Hl. }
  split; [unfold lexes; rewrite Hv; discriminate|]. split; [unfold toks at 1; rewrite Hv; reflexivity|].
  eapply file_echo_good; eassumption.
Qed.
