(* From the monitor's byte-level relation (Spec/FmtShape.v: same_modulo_line_edges) to the relation on reference tokens that the
   re-indentation theorem of Proofs/FmtRelexReindent.v takes (ref_reindent_equiv).

     sig_ctx_ws       a code token of the reference lexer is read the same way in front of white space, a line end, or nothing
     stretch_agree    two mark lists related by Mrel, both beginning inside a stretch of code bytes: the stretches are the same
     code_tok_same    hence the code tokens the full lexer reads there are the same token
     marks_ref_equiv  Mrel on the marks of two token chains gives ref_reindent_equiv (cut at the significant tokens)
     edges_to_ref_equiv   the bridge *)
From PV Require Import Base.Prelude Spec.LuaLex Instances.HoldsC01 Proofs.LuaLexFacts Proofs.SpecLexChunk Proofs.SpecLexCut Proofs.FmtRelexLex.
From PV Require Import Model.FmtSpaces Proofs.FmtLinesProofs Proofs.FmtShapeBridgeLines Proofs.FmtShapeBridge.
From PV Require Proofs.FmtShapeBridgeStep Proofs.FmtShapeBridgeRun Proofs.FmtShapeBridgeDec.
From PV Require Import Spec.ReindentSpec Proofs.FmtRelexReindent.
From PV Require Proofs.EchoRelexSpec.
From PV Require Spec.FmtShape.
From Coq Require Import Lia ZifyBool.

(* ====================================================================== a code token in front of white space *)
Lemma symbols_safe_tab : forallb (fun x => sym_safe x 9) spec_symbols = true.
Proof. vm_compute. reflexivity. Qed.
Lemma symbols_safe_cr : forallb (fun x => sym_safe x 13) spec_symbols = true.
Proof. vm_compute. reflexivity. Qed.

Lemma ws_byte c : (LuaLex.is_blank c || is_eol c) = true -> c = 32 \/ c = 9 \/ c = 10 \/ c = 13.
Proof. unfold LuaLex.is_blank, is_eol. lia. Qed.

Lemma sig_ctx_ws s t old out : spec_step s = Some (t, old) -> LuaLex.is_trivia t = false -> ws_or_nil out ->
  spec_step (s_raw t ++ out) = Some (t, out).
Proof.
  intros H Ht Hout. pose proof (spec_step_shape _ _ _ H) as Sh.
  destruct (spec_step_split _ _ _ H) as (Hsplit & Hne).
  destruct Sh; try discriminate Ht.
  - (* long string *) cbn [s_raw]. eapply long_string_ctx; eassumption.
  - (* quoted string *)
    pose proof (unescape_tail q (length r) r v raw rest (le_n _) H1 out) as Hu.
    cbn [s_raw app]. destruct H0 as [-> | ->]; unfold spec_step; cbn -[unescape_until app]; rewrite Hu; reflexivity.
  - (* number *)
    destruct (spec_number_ctx _ _ _ H1) as (run & Hraw & Hrun & Hs & Hctx).
    rewrite Hraw. apply Hctx; [|exact H0]. destruct Hout as [->|(c & r & -> & Hc)]; [exact I|].
    cbn [num_stops]. split; [|reflexivity]. destruct (ws_byte c Hc) as [->|[->|[->| ->]]]; reflexivity.
  - (* name / keyword *)
    destruct (word_shape _ _ _ _ H0 H1) as (Hn & Hs & Hst).
    assert (Hraw : s_raw (LuaLex.mk (if mem_bytes a spec_keywords then SKeyword else SName) a a) = a) by reflexivity.
    rewrite Hraw. apply spec_step_word; [exact Hn|]. destruct Hout as [->|(c' & r' & -> & Hc)]; [exact I|].
    cbn [stops]. destruct (ws_byte c' Hc) as [->|[->|[->| ->]]]; reflexivity.
  - (* label *)
    pose proof (LuaLexFacts.span_all _ _ _ _ H0) as Hall.
    cbn [s_raw LuaLex.mk app]. rewrite <- app_assoc. cbn [app].
    apply (spec_step_label (n0 :: a) out). cbn [is_name]. rewrite H1. cbn [forallb] in Hall.
    apply andb_true_iff in Hall. apply Hall.
  - reflexivity.
  - (* symbol *)
    destruct (spec_symbol_inv _ _ _ H0) as (x & Hin & -> & _). cbn [s_raw LuaLex.mk].
    destruct Hout as [->|(c & r' & -> & Hc)]; [rewrite app_nil_r; apply spec_step_symbol_end, Hin|].
    apply spec_step_symbol; [exact Hin|].
    destruct (ws_byte c Hc) as [->|[->|[->| ->]]].
    + pose proof symbols_safe_sp as S. rewrite forallb_forall in S. exact (S x Hin).
    + pose proof symbols_safe_tab as S. rewrite forallb_forall in S. exact (S x Hin).
    + pose proof symbols_safe_lf as S. rewrite forallb_forall in S. exact (S x Hin).
    + pose proof symbols_safe_cr as S. rewrite forallb_forall in S. exact (S x Hin).
Qed.

(* ====================================================================== marks: lists *)
Lemma tr_cb_inj r : forall r' c c' m m', map Tr r ++ Cb c :: m = map Tr r' ++ Cb c' :: m' -> r = r' /\ c = c' /\ m = m'.
Proof.
  induction r as [|x r IH]; intros [|x' r'] c c' m m' H; cbn [map app] in H; try discriminate H.
  - injection H as -> ->. auto.
  - injection H as -> H. destruct (IH _ _ _ _ _ H) as (-> & -> & ->). auto.
Qed.

Lemma tr_not_cb r : forall r' c m, map Tr r = map Tr r' ++ Cb c :: m -> False.
Proof.
  induction r as [|x r IH]; intros [|x' r'] c m H; cbn [map app] in H; try discriminate H.
  injection H as _ H. exact (IH _ _ _ H).
Qed.

Lemma map_Tr_inj r : forall r', map Tr r = map Tr r' -> r = r'.
Proof. induction r as [|x r IH]; intros [|x' r'] H; cbn [map] in H; try discriminate H; [reflexivity|]. injection H as -> H. f_equal. auto. Qed.

Lemma Mrel_inv a M1 M2 : Mrel a M1 M2 ->
  (exists r1 r2, M1 = map Tr r1 /\ M2 = map Tr r2 /\ tnr a true (concat r1) (concat r2) /\ (a = false -> hdok (concat r1) (concat r2))) \/
  (exists r1 r2 c m1 m2, M1 = map Tr r1 ++ Cb c :: m1 /\ M2 = map Tr r2 ++ Cb c :: m2 /\ tnr a false (concat r1) (concat r2) /\
     (a = false -> hdok (concat r1) (concat r2) /\ (r1 = [] <-> r2 = [])) /\ Mrel false m1 m2).
Proof.
  intros H. destruct H as [a r1 r2 Ht Hh|a r1 r2 c m1 m2 Ht Hh Hm]; [left; exists r1, r2; auto | right; exists r1, r2, c, m1, m2; auto 6].
Qed.

Lemma Mrel_cb_inv a r c m M2 : Mrel a (map Tr r ++ Cb c :: m) M2 ->
  exists r2 m2, M2 = map Tr r2 ++ Cb c :: m2 /\ tnr a false (concat r) (concat r2) /\
    (a = false -> hdok (concat r) (concat r2) /\ (r = [] <-> r2 = [])) /\ Mrel false m m2.
Proof.
  intros H. destruct (Mrel_inv _ _ _ H) as [(r1 & r2 & E1 & E2 & Ht & Hh)|(r1 & r2 & c0 & m1 & m2 & E1 & E2 & Ht & Hh & Hm)].
  - exfalso. symmetry in E1. exact (tr_not_cb _ _ _ _ E1).
  - destruct (tr_cb_inj _ _ _ _ _ _ E1) as (-> & -> & ->). exists r2, m2. auto.
Qed.

Lemma Mrel_cb_inv_r a r c m M1 : Mrel a M1 (map Tr r ++ Cb c :: m) ->
  exists r1 m1, M1 = map Tr r1 ++ Cb c :: m1 /\ tnr a false (concat r1) (concat r) /\
    (a = false -> hdok (concat r1) (concat r) /\ (r1 = [] <-> r = [])) /\ Mrel false m1 m.
Proof.
  intros H. destruct (Mrel_inv _ _ _ H) as [(r1 & r2 & E1 & E2 & Ht & Hh)|(r1 & r2 & c0 & m1 & m2 & E1 & E2 & Ht & Hh & Hm)].
  - exfalso. symmetry in E2. exact (tr_not_cb _ _ _ _ E2).
  - destruct (tr_cb_inj _ _ _ _ _ _ E2) as (-> & -> & ->). exists r1, m1. auto.
Qed.

Lemma Mrel_tr_inv a r M2 : Mrel a (map Tr r) M2 ->
  exists r2, M2 = map Tr r2 /\ tnr a true (concat r) (concat r2) /\ (a = false -> hdok (concat r) (concat r2)).
Proof.
  intros H. destruct (Mrel_inv _ _ _ H) as [(r1 & r2 & E1 & E2 & Ht & Hh)|(r1 & r2 & c0 & m1 & m2 & E1 & E2 & Ht & Hh & Hm)].
  - apply map_Tr_inj in E1. subst r1. exists r2. auto.
  - exfalso. exact (tr_not_cb _ _ _ _ E1).
Qed.

(* the text of a list of marks *)
Definition mtxt (M : list mk) : list Z := concat (map (fun m => match m with Cb c => [c] | Tr a => a end) M).

Lemma mtxt_app a b : mtxt (a ++ b) = mtxt a ++ mtxt b.
Proof. unfold mtxt. rewrite map_app, concat_app. reflexivity. Qed.
Lemma mtxt_cb w : mtxt (map Cb w) = w.
Proof. induction w as [|c w IH]; [reflexivity|]. unfold mtxt in *. cbn [map concat app]. rewrite IH. reflexivity. Qed.
Lemma mtxt_tr r : mtxt (map Tr r) = concat r.
Proof. induction r as [|x r IH]; [reflexivity|]. unfold mtxt in *. cbn [map concat]. rewrite IH. reflexivity. Qed.

Lemma smark_trivia t : LuaLex.is_trivia t = true -> smark t = [Tr (s_raw t)].
Proof. unfold smark. intros ->. reflexivity. Qed.
Lemma smark_sig t : LuaLex.is_trivia t = false -> smark t = map Cb (s_raw t).
Proof. unfold smark. intros ->. reflexivity. Qed.

Lemma mtxt_marksS ss : mtxt (marksS ss) = rawtxt ss.
Proof.
  induction ss as [|t ss IH]; [reflexivity|]. unfold marksS. cbn [flat_map]. fold (marksS ss). rewrite mtxt_app, IH.
  unfold rawtxt. cbn [map concat]. f_equal. unfold smark. destruct (LuaLex.is_trivia t); [unfold mtxt; cbn; apply app_nil_r | apply mtxt_cb].
Qed.

Lemma marksS_trivia R : Forall trivial R -> marksS R = map Tr (map s_raw R).
Proof.
  induction 1 as [|t R Ht _ IH]; [reflexivity|]. unfold marksS. cbn [flat_map map]. fold (marksS R). rewrite IH, (smark_trivia t Ht). reflexivity.
Qed.

(* ---------- chains ---------- *)
Lemma chain_txt s ss : chain s ss -> s = rawtxt ss.
Proof.
  induction 1 as [|s t rest ts Hs _ IH]; [reflexivity|]. destruct (spec_step_split _ _ _ Hs) as [E _].
  unfold rawtxt. cbn [map concat]. fold (rawtxt ts). rewrite <- IH. exact E.
Qed.

Lemma chain_raw_ne s ss : chain s ss -> Forall (fun t => s_raw t <> []) ss.
Proof. induction 1 as [|s t rest ts Hs _ IH]; constructor; [apply (spec_step_split _ _ _ Hs) | exact IH]. Qed.

Lemma chain_tail s A B : chain s (A ++ B) -> chain (rawtxt B) B.
Proof. intros H. apply (chain_seg s A B H). Qed.

Lemma split_trivia (ss : list stok) : exists R tl, ss = R ++ tl /\ Forall trivial R /\
  (tl = [] \/ exists t rest, tl = t :: rest /\ LuaLex.is_trivia t = false).
Proof.
  induction ss as [|t ss IH]; [exists [], []; repeat split; [constructor | left; reflexivity]|].
  destruct (LuaLex.is_trivia t) eqn:Et.
  - destruct IH as (R & tl & -> & HR & Htl). exists (t :: R), tl. repeat split; [constructor; assumption | exact Htl].
  - exists [], (t :: ss). repeat split; [constructor|]. right. eauto.
Qed.

Lemma segsS_trivia R : Forall trivial R -> segsS R = (R, []).
Proof. induction 1 as [|t R Ht _ IH]; [reflexivity|]. cbn [segsS]. rewrite IH. unfold trivial in Ht. rewrite Ht. reflexivity. Qed.

Lemma segsS_cut R t rest : Forall trivial R -> LuaLex.is_trivia t = false ->
  segsS (R ++ t :: rest) = (R, (t, fst (segsS rest)) :: snd (segsS rest)).
Proof.
  intros HR Ht. induction HR as [|x R Hx _ IH]; cbn [app segsS].
  - destruct (segsS rest) as [r0 l]. rewrite Ht. reflexivity.
  - rewrite IH. unfold trivial in Hx. rewrite Hx. reflexivity.
Qed.

(* a mark list that is the marks of a chain: reading the chain off the marks *)
Lemma marksS_all_tr ss : Forall (fun t => s_raw t <> []) ss -> forall r, marksS ss = map Tr r -> Forall trivial ss /\ r = map s_raw ss.
Proof.
  induction 1 as [|t ss Hne _ IH]; intros r H.
  - destruct r; [split; [constructor | reflexivity] | discriminate H].
  - unfold marksS in H. cbn [flat_map] in H. fold (marksS ss) in H. destruct (LuaLex.is_trivia t) eqn:Et.
    + rewrite (smark_trivia t Et) in H. destruct r as [|x r]; [discriminate H|]. cbn [app map] in H. injection H as <- H.
      destruct (IH _ H) as (H1 & ->). split; [constructor; assumption | reflexivity].
    + rewrite (smark_sig t Et) in H. destruct (s_raw t) as [|c w]; [congruence|]. destruct r; discriminate H.
Qed.

Lemma marksS_cut ss : Forall (fun t => s_raw t <> []) ss -> forall r c m, marksS ss = map Tr r ++ Cb c :: m ->
  exists R t rest w, ss = R ++ t :: rest /\ Forall trivial R /\ LuaLex.is_trivia t = false /\ r = map s_raw R /\
    s_raw t = c :: w /\ m = map Cb w ++ marksS rest.
Proof.
  induction 1 as [|t ss Hne _ IH]; intros r c m H.
  - destruct r; discriminate H.
  - unfold marksS in H. cbn [flat_map] in H. fold (marksS ss) in H. destruct (LuaLex.is_trivia t) eqn:Et.
    + rewrite (smark_trivia t Et) in H. destruct r as [|x r]; [discriminate H|]. cbn [app map] in H. injection H as <- H.
      destruct (IH _ _ _ H) as (R & t' & rest & w & -> & HR & Ht' & -> & Hw & ->).
      exists (t :: R), t', rest, w. repeat split; try assumption. constructor; assumption.
    + rewrite (smark_sig t Et) in H. destruct (s_raw t) as [|c0 w] eqn:Er; [congruence|].
      destruct r as [|x r]; [|discriminate H]. cbn [app map] in H. injection H as <- <-.
      exists [], t, ss, w. repeat split; try assumption. constructor.
Qed.

Lemma tr_nonempty ss : Forall (fun t => s_raw t <> []) ss -> forall r M, marksS ss = map Tr r ++ M -> Forall (fun x => x <> []) r.
Proof.
  induction 1 as [|t ss Hne _ IH]; intros r M H.
  - destruct r; [constructor | discriminate H].
  - destruct r as [|x r]; [constructor|]. unfold marksS in H. cbn [flat_map] in H. fold (marksS ss) in H. destruct (LuaLex.is_trivia t) eqn:Et.
    + rewrite (smark_trivia t Et) in H. cbn [app map] in H. injection H as <- H. constructor; [exact Hne | eapply IH, H].
    + rewrite (smark_sig t Et) in H. destruct (s_raw t) as [|c0 w]; [congruence | discriminate H].
Qed.

(* ====================================================================== the stretch of code bytes at the head of two related mark lists *)
Lemma stretch_agree : forall w1 w2 N1 N2, Mrel false (map Cb w1 ++ N1) (map Cb w2 ++ N2) ->
  (w1 = w2 /\ Mrel false N1 N2) \/
  (exists d w' m1, w2 = w1 ++ d :: w' /\ N1 = Cb d :: m1) \/
  (exists d w' m2, w1 = w2 ++ d :: w' /\ N2 = Cb d :: m2).
Proof.
  induction w1 as [|d1 w1 IH]; intros [|d2 w2] N1 N2 H; cbn [map app] in H.
  - left. auto.
  - right. left. destruct (Mrel_cb_inv_r false [] d2 _ _ H) as (r1 & m1 & -> & _ & Hs & _).
    destruct (Hs eq_refl) as (_ & Hi). rewrite (proj2 Hi eq_refl). exists d2, w2, m1. auto.
  - right. right. destruct (Mrel_cb_inv false [] d1 _ _ H) as (r2 & m2 & E & _ & Hs & _).
    destruct (Hs eq_refl) as (_ & Hi). rewrite (proj1 Hi eq_refl) in E. exists d1, w1, m2. auto.
  - destruct (Mrel_cb_inv false [] d1 _ _ H) as (r2 & m2 & E & _ & Hs & Hm).
    destruct (Hs eq_refl) as (_ & Hi). rewrite (proj1 Hi eq_refl) in E. cbn [map app] in E. injection E as <- <-.
    destruct (IH _ _ _ Hm) as [(-> & Hr)|[(d & w' & m1 & -> & ->)|(d & w' & m2' & -> & ->)]].
    + left. auto.
    + right. left. exists d, w', m1. auto.
    + right. right. exists d, w', m2'. auto.
Qed.

(* the right contexts of two stretches that end at the same place *)
Definition hdok' (x1 x2 : list Z) : Prop := (exists c r1 r2, x1 = c :: r1 /\ x2 = c :: r2) \/ (ws_or_nil x1 /\ ws_or_nil x2).

Lemma concat_ne (r : list (list Z)) : Forall (fun x => x <> []) r -> r <> [] -> exists c y, concat r = c :: y.
Proof.
  intros H Hn. destruct r as [|x r]; [congruence|]. inversion H; subst. destruct x as [|c x]; [congruence|]. cbn [concat app]. eauto.
Qed.

Lemma hdok_app x1 x2 y1 y2 : hdok x1 x2 -> x1 <> [] -> x2 <> [] -> hdok' (x1 ++ y1) (x2 ++ y2).
Proof.
  intros [(c & r1 & r2 & -> & ->)|[H1 H2]] N1 N2.
  - left. exists c, (r1 ++ y1), (r2 ++ y2). auto.
  - right. split.
    + destruct H1 as [->|(c & r & -> & Hc)]; [congruence|]. right. exists c, (r ++ y1). auto.
    + destruct H2 as [->|(c & r & -> & Hc)]; [congruence|]. right. exists c, (r ++ y2). auto.
Qed.

Lemma Mrel_ctx ss1 ss2 : Forall (fun t => s_raw t <> []) ss1 -> Forall (fun t => s_raw t <> []) ss2 ->
  Mrel false (marksS ss1) (marksS ss2) -> hdok' (rawtxt ss1) (rawtxt ss2).
Proof.
  intros N1 N2 H. rewrite <- !mtxt_marksS.
  destruct (Mrel_inv _ _ _ H) as [(r1 & r2 & E1 & E2 & Ht & Hh)|(r1 & r2 & c0 & m1 & m2 & E1 & E2 & Ht & Hh & Hm)].
  - rewrite E1, E2, !mtxt_tr. destruct (Hh eq_refl) as [Hs|Hw]; [left | right]; assumption.
  - rewrite E1, E2, !mtxt_app, !mtxt_tr. destruct (Hh eq_refl) as (Hd & Hi).
    pose proof (tr_nonempty _ N1 _ _ E1) as F1. pose proof (tr_nonempty _ N2 _ _ E2) as F2.
    destruct r1 as [|x1 r1].
    + rewrite (proj1 Hi eq_refl). cbn [concat app]. left. unfold mtxt. cbn [map concat app]. eauto.
    + destruct r2 as [|x2 r2]; [destruct Hi as [_ Hi]; discriminate (Hi eq_refl)|].
      destruct (concat_ne _ F1 ltac:(discriminate)) as (c1 & y1 & C1). destruct (concat_ne _ F2 ltac:(discriminate)) as (c2 & y2 & C2).
      apply hdok_app; [exact Hd | rewrite C1; discriminate | rewrite C2; discriminate].
Qed.

(* ====================================================================== the same code token *)
Lemma code_tok_same s1 t1 rest1 s2 t2 rest2 c w1 w2 :
  chain s1 (t1 :: rest1) -> chain s2 (t2 :: rest2) -> LuaLex.is_trivia t1 = false -> LuaLex.is_trivia t2 = false ->
  s_raw t1 = c :: w1 -> s_raw t2 = c :: w2 ->
  Mrel false (map Cb w1 ++ marksS rest1) (map Cb w2 ++ marksS rest2) ->
  t1 = t2 /\ Mrel false (marksS rest1) (marksS rest2).
Proof.
  intros C1 C2 T1 T2 R1 R2 H.
  inversion C1 as [|? ? s1' ? St1 Cr1]; subst. inversion C2 as [|? ? s2' ? St2 Cr2]; subst.
  pose proof (chain_txt _ _ Cr1) as X1. pose proof (chain_txt _ _ Cr2) as X2.
  destruct (spec_step_split _ _ _ St1) as (E1 & _). destruct (spec_step_split _ _ _ St2) as (E2 & _).
  pose proof (chain_raw_ne _ _ Cr1) as N1. pose proof (chain_raw_ne _ _ Cr2) as N2.
  destruct (stretch_agree _ _ _ _ H) as [(-> & Hr)|[(d & w' & m1 & -> & Em)|(d & w' & m2 & -> & Em)]].
  - (* both tokens end the stretch *)
    split; [|exact Hr]. pose proof (Mrel_ctx _ _ N1 N2 Hr) as Hc. rewrite <- X1, <- X2 in Hc.
    assert (Hraw : s_raw t2 = s_raw t1) by congruence.
    destruct Hc as [(x & y1 & y2 & -> & ->)|[_ Hw]].
    + pose proof (step_ctx _ _ _ _ y2 St1) as H1. rewrite <- Hraw, <- E2 in H1. rewrite St2 in H1. congruence.
    + pose proof (sig_ctx_ws _ _ _ s2' St1 T1 Hw) as H1. rewrite <- Hraw, <- E2 in H1. rewrite St2 in H1. congruence.
  - (* t2 would be longer: impossible *)
    exfalso. assert (Es1 : s1' = d :: mtxt m1) by (rewrite X1, <- mtxt_marksS, Em; reflexivity).
    rewrite Es1 in St1. pose proof (step_ctx _ _ _ _ (w' ++ s2') St1) as H1.
    assert (E : s_raw t1 ++ d :: w' ++ s2' = s2).
    { rewrite E2, R1, R2. cbn [app]. rewrite <- app_assoc. reflexivity. }
    rewrite E, St2 in H1. injection H1 as H1 _. subst t2. rewrite R1 in R2. injection R2 as R2.
    apply (f_equal (@length Z)) in R2. rewrite app_length in R2. cbn [length] in R2. lia.
  - exfalso. assert (Es2 : s2' = d :: mtxt m2) by (rewrite X2, <- mtxt_marksS, Em; reflexivity).
    rewrite Es2 in St2. pose proof (step_ctx _ _ _ _ (w' ++ s1') St2) as H1.
    assert (E : s_raw t2 ++ d :: w' ++ s1' = s1).
    { rewrite E1, R1, R2. cbn [app]. rewrite <- app_assoc. reflexivity. }
    rewrite E, St1 in H1. injection H1 as H1 _. subst t2. rewrite R1 in R2. injection R2 as R2.
    apply (f_equal (@length Z)) in R2. rewrite app_length in R2. cbn [length] in R2. lia.
Qed.

(* ====================================================================== Mrel on the marks of two chains: ref_reindent_equiv *)
Lemma tnr_text a e x1 x2 : tnr a e x1 x2 -> text_norm_rel a e x1 x2.
Proof. unfold tnr, text_norm_rel, Sc. destruct e; intros H; exact H. Qed.

Lemma marks_ref_equiv : forall n ss1, (length ss1 <= n)%nat -> forall s1 s2 ss2 a, chain s1 ss1 -> chain s2 ss2 ->
  Mrel a (marksS ss1) (marksS ss2) ->
  text_norm_rel a (is_nilb (snd (segsS ss1))) (rawtxt (fst (segsS ss1))) (rawtxt (fst (segsS ss2))) /\
  ref_body_equiv (snd (segsS ss1)) (snd (segsS ss2)).
Proof.
  induction n as [|n IH]; intros ss1 Hlen s1 s2 ss2 a C1 C2 H.
  - destruct ss1; [|cbn in Hlen; lia]. cbn [marksS flat_map] in H. destruct (Mrel_tr_inv a [] _ H) as (r2 & E & Ht & _).
    destruct (marksS_all_tr _ (chain_raw_ne _ _ C2) _ E) as (T2 & ->). rewrite (segsS_trivia _ T2). cbn [segsS fst snd is_nilb ref_body_equiv].
    split; [apply tnr_text; exact Ht | exact I].
  - destruct (split_trivia ss1) as (R1 & tl1 & -> & HR1 & [->|(t1 & rest1 & -> & Ht1)]).
    + rewrite app_nil_r in *. rewrite (marksS_trivia _ HR1) in H. destruct (Mrel_tr_inv a _ _ H) as (r2 & E & Ht & _).
      destruct (marksS_all_tr _ (chain_raw_ne _ _ C2) _ E) as (T2 & ->). rewrite (segsS_trivia _ T2), (segsS_trivia _ HR1).
      cbn [fst snd is_nilb ref_body_equiv]. split; [apply tnr_text; exact Ht | exact I].
    + pose proof (chain_raw_ne _ _ C1) as N1. pose proof (chain_raw_ne _ _ C2) as N2.
      assert (Hne1 : s_raw t1 <> []).
      { rewrite Forall_forall in N1. apply N1, in_or_app. right. left. reflexivity. }
      destruct (s_raw t1) as [|c w1] eqn:Er1; [congruence|].
      rewrite marksS_app, (marksS_trivia _ HR1) in H. unfold marksS at 1 in H. cbn [flat_map] in H. fold (marksS rest1) in H.
      rewrite (smark_sig t1 Ht1), Er1 in H. cbn [map app] in H.
      destruct (Mrel_cb_inv _ _ _ _ _ H) as (r2 & m2 & E2 & Ht & _ & Hm).
      destruct (marksS_cut _ N2 _ _ _ E2) as (R2 & t2 & rest2 & w2 & -> & HR2 & Ht2 & -> & Er2 & ->).
      pose proof (chain_tail _ _ _ C1) as C1'. pose proof (chain_tail _ _ _ C2) as C2'.
      destruct (code_tok_same _ _ _ _ _ _ _ _ _ C1' C2' Ht1 Ht2 Er1 Er2 Hm) as (<- & Hrest).
      rewrite (segsS_cut _ _ _ HR1 Ht1), (segsS_cut _ _ _ HR2 Ht1). cbn [fst snd is_nilb ref_body_equiv].
      split; [apply tnr_text; exact Ht|]. split; [reflexivity|].
      inversion C1' as [|? ? s1' ? St1 Cr1]; subst. inversion C2' as [|? ? s2' ? St2 Cr2]; subst.
      apply (IH rest1) with (s1 := s1') (s2 := s2'); try assumption.
      rewrite app_length in Hlen. cbn [length] in Hlen. lia.
Qed.

(* ====================================================================== the bridge *)
(* two sources of the dialect that the monitor relates (the same reference tokens of Spec/FmtShape.v after dropping the blanks at line
   edges, trailing blanks of end-of-line comments, and writing every line end as LF) have reference token lists (Spec/LuaLex.v) with the
   same code tokens and, between them, runs whose texts agree after canon_ws and the removal of line-edge blanks *)
Theorem edges_to_ref_equiv src1 src2 ss1 ss2 : spec_lex src1 = Some ss1 -> spec_lex src2 = Some ss2 ->
  F.same_modulo_line_edges src1 src2 = Some true -> ref_reindent_equiv (map unpos ss1) (map unpos ss2).
Proof.
  intros S1 S2 H. destruct (EchoRelexSpec.spec_lex_chain _ _ S1) as (Cr1 & C1). destruct (EchoRelexSpec.spec_lex_chain _ _ S2) as (Cr2 & C2).
  unfold F.same_modulo_line_edges in H. destruct (F.lex src1) as [ts1|] eqn:L1; [|discriminate H].
  destruct (F.lex src2) as [ts2|] eqn:L2; [|discriminate H]. injection H as H.
  pose proof (FmtShapeBridgeDec.edges_mrel _ _ _ _ Cr1 Cr2 L1 L2 H) as Hm.
  rewrite (FmtShapeBridgeStep.marks_agree _ _ _ L1 C1), (FmtShapeBridgeStep.marks_agree _ _ _ L2 C2) in Hm.
  unfold ref_reindent_equiv. exact (marks_ref_equiv _ _ (le_n _) _ _ _ _ C1 C2 Hm).
Qed.

