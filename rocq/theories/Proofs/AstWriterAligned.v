(* The writer walk re-emits exactly the leaves of a spanned, shaped tree inside the writer's domain
   (lemmas; the property theorem is in Properties/C09.v).

   walk_aligned: for every tree x with [shaped k x], [span x c c'] and [dom x] (Model/WriterDomain.v), from a
   cursor at c the walk over [view x] succeeds, ends with the cursor exactly at c', and emits one Code chunk per
   leaf of x, in order, with the token's own code; every white-space run it emits is complete (good). *)
From PV Require Import Base.Prelude Base.PySlice Spec.LuaTokens Spec.LuaGrammar Model.Tokens Model.Parser Model.WriterChunks
  Model.AstWriter Model.WriterDomain Proofs.ParserProofs Proofs.TreeShape Proofs.WriterCursor.
From Coq Require Import ZifyBool.
Ltac Zify.zify_post_hook ::= Z.to_euclidean_division_equations.

(* ------------------------------------------------------------------ the Python-visible projection *)
Definition views : list tree -> list tree :=
  fix views (l : list tree) : list tree :=
    match l with
    | [] => []
    | x :: r => if is_hidden x then views r else view x :: views r
    end.

Lemma view_node tag s e sh fs : view (Node tag s e sh fs) = Node tag s e sh (views fs).
Proof. reflexivity. Qed.
Lemma view_lst l : view (Lst l) = Lst (views l).
Proof. reflexivity. Qed.
Lemma view_paren i j x : view (Paren i j x) = view x.
Proof. reflexivity. Qed.
Lemma views_nil : views [] = [].
Proof. reflexivity. Qed.
Lemma views_kw i r : views (Kw i :: r) = views r.
Proof. reflexivity. Qed.
Lemma views_hid x r : views (Hid x :: r) = views r.
Proof. reflexivity. Qed.
Lemma views_vis x r : is_hidden x = false -> views (x :: r) = view x :: views r.
Proof. intros H. cbn [views]. rewrite H. reflexivity. Qed.
Lemma views_tok i t r : views (Tok i t :: r) = Tok i t :: views r.
Proof. reflexivity. Qed.
Lemma views_none r : views (PNone :: r) = PNone :: views r.
Proof. reflexivity. Qed.
Lemma views_bool b r : views (PBool b :: r) = PBool b :: views r.
Proof. reflexivity. Qed.
Lemma views_bytes b r : views (PBytes b :: r) = PBytes b :: views r.
Proof. reflexivity. Qed.
Lemma views_lst l r : views (Lst l :: r) = Lst (views l) :: views r.
Proof. reflexivity. Qed.
Lemma views_paren i j x r : views (Paren i j x :: r) = view x :: views r.
Proof. reflexivity. Qed.
Lemma views_app a b : views (a ++ b) = views a ++ views b.
Proof. induction a as [|x a IH]; [reflexivity|]. cbn [app views]. destruct (is_hidden x); [exact IH | rewrite IH; reflexivity]. Qed.

Lemma tdepth_lst_forall vs n : (tdepth (Lst vs) <= S n)%nat -> Forall (fun v => (tdepth v <= n)%nat) vs.
Proof.
  cbn [tdepth]. induction vs as [|v vs IH]; intros H; [constructor|]. cbn [fold_right] in H.
  constructor; [lia | apply IH; lia].
Qed.

Lemma tdepth_lst_forall' vs n : (tdepth (Lst vs) <= n)%nat -> Forall (fun v => (tdepth v <= n)%nat) vs.
Proof. intros H. destruct n as [|n]; [cbn [tdepth] in H; lia|]. eapply Forall_impl; [|apply tdepth_lst_forall; exact H]. cbv beta. intros; lia. Qed.

Section W.
Variable ts : list token.
Variables binops unops : list pat.
Hypothesis Hplain : plain_tokens ts = true.
(* the operator tables hold keyword / symbol patterns only *)
Definition is_ptok (p : pat) : bool := match p with PTok CSymbol _ | PTok CKeyword _ => true | _ => false end.
Hypothesis Hbin : forallb is_ptok binops = true.
Hypothesis Hun : forallb is_ptok unops = true.

Local Notation sig := (ParserProofs.sig ts).
Local Notation sigb := (ParserProofs.sigb ts).
Local Notation len := (zlen ts).
Local Notation span := (span ts).
Local Notation spans := (spans ts).
Local Notation shaped := (shaped ts binops unops).
Local Notation mtok := (mtok ts).
Local Notation ctok := (ctok ts).
Local Notation optok := (optok ts).
Local Notation okpos := (okpos ts).
Local Notation emitsB := (emitsB ts).
Local Notation tok_at := (AstWriter.tok_at ts).

Definition dom (x : tree) : bool :=
  no_paren_prefix x && no_if_do ts x && strict x.

Definition code_at (i : Z) : list Z := match tok_at i with Some t => tcode t | None => [] end.
Definition lcodes (l : list Z) : list (Z * list Z) := map (fun i => (i, code_at i)) l.

Lemma lcodes_app a b : lcodes (a ++ b) = lcodes a ++ lcodes b.
Proof. apply map_app. Qed.

(* ------------------------------------------------------------------ tokens *)
Lemma plain_at i t : tok_at i = Some t -> plain_token t = true.
Proof.
  unfold AstWriter.tok_at. destruct (i <? 0); [discriminate|]. intros H. apply nth_error_In in H.
  unfold plain_tokens in Hplain. rewrite forallb_forall in Hplain. apply Hplain, H.
Qed.

Lemma tok_eqb_sym_inv t d : tok_eqb t (mkTok CSymbol 0 d d) = true -> tk t = CSymbol /\ tdata t = d.
Proof.
  unfold tok_eqb. cbn [tk tdata]. intros H. apply andb_true_iff in H. destruct H as [H1 H2].
  apply kclass_eqb_eq in H1. rewrite H1 in *. apply zlist_eqb_eq in H2. split; [reflexivity | exact H2].
Qed.

Lemma tok_eqb_kw_inv t d : tok_eqb t (mkTok CKeyword 0 d d) = true -> tk t = CKeyword /\ lower (tdata t) = lower d.
Proof.
  unfold tok_eqb. cbn [tk tdata]. intros H. apply andb_true_iff in H. destruct H as [H1 H2].
  apply kclass_eqb_eq in H1. rewrite H1 in *. apply zlist_eqb_eq in H2. split; [reflexivity | exact H2].
Qed.

(* a leaf accepted as the symbol / keyword d *)
Definition kwleaf (d : list Z) (i : Z) : Prop := mtok (psym d) i \/ (mtok (pkw d) i /\ lower d = d).

Lemma kwleaf_spec d i : kwleaf d i -> exists t, tok_at i = Some t /\ is_kw_or_sym d t = true /\ tcode t = d.
Proof.
  intros [(t & Ht & Hm) | [(t & Ht & Hm) Hl]]; rewrite tok_at_same in Ht; exists t; (split; [exact Ht|]);
    pose proof (plain_at _ _ Ht) as Hp; unfold plain_token in Hp; cbn [matches psym pkw] in Hm.
  - destruct (tok_eqb_sym_inv _ _ Hm) as [Hk Hd]. rewrite Hk in Hp. apply zlist_eqb_eq in Hp.
    split; [unfold is_kw_or_sym; rewrite Hm; apply orb_true_r | congruence].
  - destruct (tok_eqb_kw_inv _ _ Hm) as [Hk Hd]. rewrite Hk in Hp. apply andb_true_iff in Hp. destruct Hp as [Hp1 Hp2].
    apply zlist_eqb_eq in Hp1. apply zlist_eqb_eq in Hp2.
    split; [unfold is_kw_or_sym; rewrite Hm; reflexivity | congruence].
Qed.

Lemma code_at_tok i t : tok_at i = Some t -> code_at i = tcode t.
Proof. intros H. unfold code_at. rewrite H. reflexivity. Qed.

(* _get_text at a keyword / symbol leaf *)
Lemma emits_kw B tag s e sh fs d c i :
  kwleaf d i -> [i] = sig c (i + 1) -> i < e ->
  emitsB B (get_text ts (Node tag s e sh fs) d) c (i + 1) [(i, code_at i)].
Proof.
  intros Hk Hi He. destruct (kwleaf_spec _ _ Hk) as (t & Ht & Hm & Hc).
  rewrite (code_at_tok _ _ Ht), Hc. eapply emitsB_get_text; eassumption.
Qed.

(* _get_name at a name leaf *)
Lemma emits_name B tag s e sh fs c i t :
  ctok CName i t -> [i] = sig c (i + 1) -> i < e ->
  emitsB B (get_name ts (Node tag s e sh fs) t) c (i + 1) [(i, code_at i)].
Proof.
  intros [Ht Hm] Hi He. rewrite tok_at_same in Ht. rewrite (code_at_tok _ _ Ht).
  apply emitsB_get_name; [exact Hi | exact He | exact Hm].
Qed.

(* an operator leaf: _get_text with the code of the tree's token *)
Lemma optok_spec ps i t : forallb is_ptok ps = true -> optok ps i t ->
  tok_at i = Some t /\ is_kw_or_sym (tcode t) t = true.
Proof.
  intros Hps [Ht Hm]. rewrite tok_at_same in Ht. split; [exact Ht|].
  apply existsb_exists in Hm. destruct Hm as (p & Hin & Hm). rewrite forallb_forall in Hps. specialize (Hps p Hin).
  pose proof (plain_at _ _ Ht) as Hp. unfold plain_token in Hp. unfold is_kw_or_sym, tok_eqb. cbn [tk tdata].
  destruct p as [k|k d]; [discriminate|]. cbn [matches] in Hm. unfold tok_eqb in Hm. cbn [tk tdata] in Hm.
  apply andb_true_iff in Hm. destruct Hm as [Hk _]. apply kclass_eqb_eq in Hk. rewrite Hk in *.
  destruct k; try discriminate; cbn [kclass_eqb andb orb].
  - apply andb_true_iff in Hp. destruct Hp as [Hp1 _]. apply zlist_eqb_eq in Hp1. rewrite Hp1.
    assert (E : zlist_eqb (lower (tdata t)) (lower (tdata t)) = true) by (apply zlist_eqb_eq; reflexivity). rewrite E. reflexivity.
  - apply zlist_eqb_eq in Hp. rewrite Hp.
    assert (E : zlist_eqb (tdata t) (tdata t) = true) by (apply zlist_eqb_eq; reflexivity). rewrite E. first [reflexivity | apply orb_true_r].
Qed.

Lemma emits_op B ps tag s e sh fs c i t :
  forallb is_ptok ps = true -> optok ps i t -> [i] = sig c (i + 1) -> i < e ->
  emitsB B (with_code (Tok i t) (get_text ts (Node tag s e sh fs))) c (i + 1) [(i, code_at i)].
Proof.
  intros Hps Ho Hi He. destruct (optok_spec _ _ _ Hps Ho) as [Ht Hm]. cbn [with_code].
  rewrite (code_at_tok _ _ Ht). eapply emitsB_get_text; eassumption.
Qed.

Lemma assign_ops_ptok : forallb is_ptok assign_ops = true.
Proof. reflexivity. Qed.

(* what the token under the cursor is not *)
Lemma mtok_tok p i t : mtok p i -> tok_at i = Some t -> matches t p = true.
Proof. intros (u & Hu & Hm) Ht. rewrite tok_at_same in Hu. congruence. Qed.

Definition lparen : token := mkTok CSymbol 0 "("%bs "("%bs.
Definition semi : token := mkTok CSymbol 0 ";"%bs ";"%bs.

Lemma kw_not_sym t d d' : matches t (pkw d) = true -> tok_eqb t (mkTok CSymbol 0 d' d') = false.
Proof.
  cbn [matches pkw]. intros H. destruct (tok_eqb_kw_inv _ _ H) as [Hk _]. unfold tok_eqb. cbn [tk]. rewrite Hk. reflexivity.
Qed.

Lemma sym_not_sym t d d' : matches t (psym d) = true -> zlist_eqb d d' = false -> tok_eqb t (mkTok CSymbol 0 d' d') = false.
Proof.
  cbn [matches psym]. intros H Hne. destruct (tok_eqb_sym_inv _ _ H) as [Hk Hd]. unfold tok_eqb. cbn [tk tdata].
  rewrite Hk, Hd. cbn [kclass_eqb andb]. exact Hne.
Qed.

Lemma class_not_sym t k d' : matches t (PClass k) = true -> k <> CSymbol -> tok_eqb t (mkTok CSymbol 0 d' d') = false.
Proof.
  cbn [matches]. intros H Hne. apply kclass_eqb_eq in H. unfold tok_eqb. cbn [tk]. rewrite H.
  destruct k; try reflexivity. congruence.
Qed.

(* ------------------------------------------------------------------ positions *)
Lemma span_okpos x c c' : span x c c' -> okpos c -> okpos c'.
Proof.
  revert x c c'.
  apply (span_mind ts (fun x c c' _ => okpos c -> okpos c') (fun l c c' _ => okpos c -> okpos c')); intros; auto;
    try (eapply okpos_leaf; eassumption).
Qed.

Lemma spans_okpos l c c' : spans l c c' -> okpos c -> okpos c'.
Proof. induction 1 as [c|x r c m c' Hx Hr IH]; intros H; [exact H | apply IH; eapply span_okpos; eassumption]. Qed.

Lemma span_node_inv tag s e sh fs c c' : span (Node tag s e sh fs) c c' -> c' = e /\ spans fs c e.
Proof. intros H. inversion H; subst. split; [reflexivity | assumption]. Qed.

(* ------------------------------------------------------------------ the domain, piecewise *)
Lemma dom_node_in tag s e sh fs y : dom (Node tag s e sh fs) = true -> In y fs -> dom y = true.
Proof.
  unfold dom. intros H Hin. repeat (apply andb_true_iff in H; destruct H as [H ?]).
  cbn [no_paren_prefix no_if_do strict] in *.
  repeat match goal with H : _ && _ = true |- _ => apply andb_true_iff in H; destruct H as [? H] end.
  repeat match goal with H : forallb _ fs = true |- _ => rewrite forallb_forall in H; specialize (H y Hin) end.
  repeat (apply andb_true_iff; split); assumption.
Qed.

Lemma dom_lst_in l y : dom (Lst l) = true -> In y l -> dom y = true.
Proof.
  unfold dom. intros H Hin. repeat (apply andb_true_iff in H; destruct H as [H ?]).
  cbn [no_paren_prefix no_if_do strict] in *.
  repeat match goal with H : forallb _ l = true |- _ => rewrite forallb_forall in H; specialize (H y Hin) end.
  repeat (apply andb_true_iff; split); assumption.
Qed.

Lemma dom_paren i j x : dom (Paren i j x) = true -> dom x = true.
Proof. intros H. exact H. Qed.


(* ------------------------------------------------------------------ program equalities up to the state *)
Lemma emitsB_ext B m m' c c' L : (forall st, m st = m' st) -> emitsB B m' c c' L -> emitsB B m c c' L.
Proof. intros He H st Hn. rewrite He. apply H, Hn. Qed.

Lemma seq_assoc a b c st : ((a >> b) >> c) st = (a >> (b >> c)) st.
Proof. unfold seq. destruct (a st); reflexivity. Qed.

Lemma seq_skip_l m st : (skip >> m) st = m st.
Proof. reflexivity. Qed.

Lemma seq_skip_r m st : (m >> skip) st = m st.
Proof. unfold seq, skip. destruct (m st); reflexivity. Qed.

Lemma seq_cong_r a b b' st : (forall s, b s = b' s) -> (a >> b) st = (a >> b') st.
Proof. intros H. unfold seq. destruct (a st); [apply H | reflexivity]. Qed.

Lemma emitsB_assoc B a b c0 c c' L : emitsB B (a >> (b >> c0)) c c' L -> emitsB B ((a >> b) >> c0) c c' L.
Proof. apply emitsB_ext. intros. apply seq_assoc. Qed.
Lemma emitsB_skip_l B m c c' L : emitsB B m c c' L -> emitsB B (skip >> m) c c' L.
Proof. apply emitsB_ext. intros. apply seq_skip_l. Qed.
Lemma emitsB_skip_r B m c c' L : emitsB B m c c' L -> emitsB B (m >> skip) c c' L.
Proof. apply emitsB_ext. intros. apply seq_skip_r. Qed.

(* an action that emits code and may leave the cursor loose (semicolon runs) in front of an action *)
Definition movesL (B B' : Z) (m : WM) (c c1 : Z) (L : list (Z * list Z)) : Prop :=
  forall st, nearB ts c B (w_pos st) ->
  exists st' cs, m st = Ok st' /\ nearB ts c1 B' (w_pos st') /\ c <= c1 /\ w_out st' = rev cs ++ w_out st /\
                 codes_of cs = L /\ Forall (good ts) cs.

Lemma emitsB_afterL B B' m1 m2 c c1 c2 L1 L2 :
  movesL B B' m1 c c1 L1 -> emitsB B' m2 c1 c2 L2 -> emitsB B (m1 >> m2) c c2 (L1 ++ L2).
Proof.
  intros H1 H2 st Hn. destruct (H1 st Hn) as (st1 & cs1 & E1 & N1 & Q1 & O1 & C1 & G1).
  destruct (H2 st1 N1) as (st2 & cs2 & E2 & P2 & Q2 & O2 & C2 & G2).
  exists st2, (cs1 ++ cs2). unfold seq. rewrite E1. split; [exact E2|]. split; [exact P2|]. split; [lia|].
  split; [rewrite O2, O1, rev_app_distr, app_assoc; reflexivity|].
  split; [rewrite codes_of_app, C1, C2; reflexivity | apply Forall_app; split; assumption].
Qed.

(* ------------------------------------------------------------------ semicolons *)
Definition semi_leaf (x : tree) : Prop := exists i, x = Kw i /\ mtok (psym ";"%bs) i.

(* wherever white space with bound e can leave the cursor from c1, the token there is not `;` *)
Definition stopsemi (e c1 : Z) : Prop :=
  forall p t, nearB ts c1 e p -> tok_at p = Some t -> tok_eqb t semi = false.

Lemma get_semis_run tag s e sh fs : okpos e -> forall sm c c1, Forall semi_leaf sm -> spans sm c c1 -> c1 <= e ->
  stopsemi e c1 ->
  forall n B st, B <= e -> nearB ts c B (w_pos st) -> (Z.to_nat (len - w_pos st) < n)%nat ->
  exists st' cs, get_semis ts n (Node tag s e sh fs) st = Ok st' /\ nearB ts c1 e (w_pos st') /\ c <= c1 /\
                 w_out st' = rev cs ++ w_out st /\ codes_of cs = lcodes (flat_map leaves sm) /\ Forall (good ts) cs.
Proof.
  intros He sm. induction sm as [|x sm IH]; intros c c1 Hsm Hsp Hc1 Hstop n B st HB Hn Hfuel.
  - inversion Hsp; subst. destruct n as [|n]; [lia|]. cbn [get_semis].
    destruct (moves_spaces ts B tag s e sh fs He c1 st Hn) as (st1 & cs1 & E1 & N1 & O1 & C1 & G1).
    rewrite Z.max_r in N1 by exact HB.
    exists st1, cs1. unfold seq. rewrite E1. unfold with_peek. cbv beta.
    assert (Hres : forall r, r = Ok st1 -> r = Ok st1 /\ nearB ts c1 e (w_pos st1) /\ c1 <= c1 /\ w_out st1 = rev cs1 ++ w_out st /\
                   codes_of cs1 = lcodes (flat_map leaves []) /\ Forall (good ts) cs1).
    { intros r ->. split; [reflexivity|]. split; [exact N1|]. split; [lia|]. split; [exact O1|]. split; [exact C1 | exact G1]. }
    apply Hres. destruct (tok_at (w_pos st1)) as [t|] eqn:Et; [|reflexivity].
    assert (Hns : tok_eqb t semi = false) by (apply (Hstop (w_pos st1) t); [exact N1 | exact Et]).
    unfold semi in Hns. rewrite Hns. reflexivity.
  - inversion Hsm as [|x0 sm0 Hx Hsm']; subst. destruct Hx as (i & -> & Hi).
    inversion Hsp as [|x0 r0 c0 m0 c0' Hxs Hrs]; subst. inversion Hxs as [i0 c0 Hsig| | | | | | | |]; subst.
    pose proof (spans_le ts _ _ _ Hrs) as Hle. destruct (first_sig_inv ts _ _ Hsig) as (A1 & A2 & A3).
    destruct n as [|n]; [lia|]. cbn [get_semis].
    assert (Hk : kwleaf ";"%bs i) by (left; exact Hi). destruct (kwleaf_spec _ _ Hk) as (t & Ht & Hm & Hcode).
    destruct (spaces_hit ts e c B i st Hsig ltac:(lia) Hn) as (st1 & cs1 & E1 & P1 & _ & O1 & C1 & G1).
    assert (Hsemi : tok_eqb t (mkTok CSymbol 0 ";"%bs ";"%bs) = true).
    { destruct Hi as (u & Hu & Hmu). rewrite tok_at_same in Hu. assert (u = t) by congruence. subst u. exact Hmu. }
    set (st2 := mkW (i + 1) (w_ind st1) (Code i ";"%bs :: w_out st1)).
    assert (Hn2 : nearB ts (i + 1) (i + 1) (w_pos st2)) by (change (nearB ts (i + 1) (i + 1) (i + 1)); apply nearB_exact; destruct Hn; lia).
    pose proof (sigb_range ts _ A2) as Hir. pose proof (nearB_le ts _ _ _ Hn) as Hcp.
    destruct (IH (i + 1) c1 Hsm' Hrs Hc1 Hstop n (i + 1) st2 ltac:(lia) Hn2) as (st3 & cs3 & E3 & N3 & Q3 & O3 & C3 & G3).
    { change (w_pos st2) with (i + 1).
      assert (w_pos st <= i) by (destruct Hn as [_ [Hp|[Hp _]]]; [lia | rewrite (first_sig_unique ts _ _ _ Hp Hsig); lia]). lia. }
    exists st3, (cs1 ++ Code i ";"%bs :: cs3). unfold seq, spaces, bound_of. rewrite E1. unfold with_peek. rewrite P1, Ht, Hsemi.
    unfold seq, advance_emit. rewrite P1. fold st2. split; [exact E3|].
    split; [exact N3|]. split; [lia|].
    split; [rewrite O3; cbn [w_out st2]; rewrite O1, rev_app_distr; cbn [rev]; rewrite <- !app_assoc; reflexivity|].
    split.
    + rewrite codes_of_app, C1. cbn [app codes_of flat_map]. fold (codes_of cs3). rewrite C3. cbn [flat_map leaves app].
      unfold lcodes. cbn [map]. rewrite (code_at_tok _ _ Ht), Hcode. reflexivity.
    + apply Forall_app. split; [exact G1 | constructor; [exact I | exact G3]].
Qed.

Lemma moves_semis B tag s e sh fs sm c c1 : okpos e -> Forall semi_leaf sm -> spans sm c c1 -> c1 <= e -> stopsemi e c1 ->
  B <= e -> movesL B e (semis ts (Node tag s e sh fs)) c c1 (lcodes (flat_map leaves sm)).
Proof.
  intros He Hsm Hsp Hc1 Hstop HB st Hn. unfold semis, with_st.
  eapply get_semis_run; try eassumption. unfold ntok. lia.
Qed.


(* ------------------------------------------------------------------ inversion of spans over concrete field lists *)
Ltac inv_spans :=
  repeat match goal with
  | H : TreeShape.spans _ (_ :: _) _ _ |- _ => inversion H; clear H; subst
  | H : TreeShape.spans _ [] _ _ |- _ => inversion H; clear H; subst
  | H : TreeShape.span _ (Kw _) _ _ |- _ => inversion H; clear H; subst
  | H : TreeShape.span _ (Tok _ _) _ _ |- _ => inversion H; clear H; subst
  | H : TreeShape.span _ (Hid _) _ _ |- _ => inversion H; clear H; subst
  | H : TreeShape.span _ (Lst _) _ _ |- _ => inversion H; clear H; subst
  | H : TreeShape.span _ (Paren _ _ _) _ _ |- _ => inversion H; clear H; subst
  | H : TreeShape.span _ PNone _ _ |- _ => inversion H; clear H; subst
  | H : TreeShape.span _ (PBool _) _ _ |- _ => inversion H; clear H; subst
  | H : TreeShape.span _ (PBytes _) _ _ |- _ => inversion H; clear H; subst
  end.

(* monotonicity facts for lia *)
Ltac pos_facts :=
  repeat match goal with
  | H : [?i] = ParserProofs.sig _ ?c (?i + 1) |- _ =>
      lazymatch goal with _ : c <= i |- _ => fail | _ => pose proof (sig_one_bounds ts _ _ H) end
  | H : TreeShape.span _ ?x ?c ?m |- _ =>
      lazymatch goal with _ : c <= m |- _ => fail | _ => pose proof (span_le ts _ _ _ H) end
  | H : TreeShape.spans _ ?x ?c ?m |- _ =>
      lazymatch goal with _ : c <= m |- _ => fail | _ => pose proof (spans_le ts _ _ _ H) end
  end.

(* end positions along a chain *)
Ltac ok_facts :=
  repeat match goal with
  | H : [?i] = ParserProofs.sig _ ?c (?i + 1) |- _ =>
      lazymatch goal with _ : WriterCursor.okpos _ (i + 1) |- _ => fail | _ => pose proof (okpos_leaf ts _ _ H) end
  | H : TreeShape.span _ ?x ?c ?m, Hc : WriterCursor.okpos _ ?c |- _ =>
      lazymatch goal with _ : WriterCursor.okpos _ m |- _ => fail | _ => pose proof (span_okpos _ _ _ H Hc) end
  | H : TreeShape.spans _ ?x ?c ?m, Hc : WriterCursor.okpos _ ?c |- _ =>
      lazymatch goal with _ : WriterCursor.okpos _ m |- _ => fail | _ => pose proof (spans_okpos _ _ _ H Hc) end
  end.

(* ------------------------------------------------------------------ first tokens *)
Lemma npp_first tag s e sh p r : no_paren_prefix (Node tag s e sh (p :: r)) = true -> is_suffix_tag tag = true -> is_paren p = false.
Proof.
  cbn [no_paren_prefix]. intros H Ht. rewrite Ht in H. apply andb_true_iff in H. destruct H as [H _].
  apply negb_true_iff in H. exact H.
Qed.

Lemma npp_in tag s e sh fs y : no_paren_prefix (Node tag s e sh fs) = true -> In y fs -> no_paren_prefix y = true.
Proof.
  cbn [no_paren_prefix]. intros H Hin. apply andb_true_iff in H. destruct H as [_ H].
  rewrite forallb_forall in H. apply H, Hin.
Qed.

Lemma npp_lst_in l y : no_paren_prefix (Lst l) = true -> In y l -> no_paren_prefix y = true.
Proof. cbn [no_paren_prefix]. intros H Hin. rewrite forallb_forall in H. apply H, Hin. Qed.

Lemma dom_npp x : dom x = true -> no_paren_prefix x = true.
Proof. unfold dom. intros H. repeat (apply andb_true_iff in H; destruct H as [H ?]). exact H. Qed.

(* the first leaf of a prefix expression without a parenthesised prefix is a name *)
Lemma prefix_first : forall m x c c', (tsize x <= m)%nat -> shaped cPrefix x -> no_paren_prefix x = true -> span x c c' ->
  exists i t, [i] = sig c (i + 1) /\ ctok CName i t /\ i < c'.
Proof.
  induction m as [|m IH]; intros x c c' Hsz Hsh Hnp Hsp; [destruct x; cbn [tsize] in Hsz; lia|].
  inversion Hsh; subst; apply span_node_inv in Hsp; destruct Hsp as [-> Hsp].
  - inv_spans. pos_facts. eexists _, _. split; [eassumption|]. split; [eassumption | lia].
  - assert (Hp : is_paren p = false) by (eapply npp_first; [exact Hnp | reflexivity]).
    match goal with H : _ \/ is_paren p = true |- _ => destruct H as [H|H]; [|congruence]; rename H into Hpp end.
    inversion Hsp as [|xx rr cc m0 cc' Hx Hr]; subst. pose proof (spans_le ts _ _ _ Hr).
    destruct (IH p c m0) as (i & t & Ha & Hb & Hc); [cbn [tsize fold_right] in Hsz; lia | exact Hpp | eapply npp_in; [exact Hnp | left; reflexivity] | exact Hx |].
    exists i, t. split; [exact Ha|]. split; [exact Hb | lia].
  - assert (Hp : is_paren p = false) by (eapply npp_first; [exact Hnp | reflexivity]).
    match goal with H : _ \/ is_paren p = true |- _ => destruct H as [H|H]; [|congruence]; rename H into Hpp end.
    inversion Hsp as [|xx rr cc m0 cc' Hx Hr]; subst. pose proof (spans_le ts _ _ _ Hr).
    destruct (IH p c m0) as (i & t & Ha & Hb & Hc); [cbn [tsize fold_right] in Hsz; lia | exact Hpp | eapply npp_in; [exact Hnp | left; reflexivity] | exact Hx |].
    exists i, t. split; [exact Ha|]. split; [exact Hb | lia].
  - assert (Hp : is_paren p = false) by (eapply npp_first; [exact Hnp | reflexivity]).
    match goal with H : _ \/ is_paren p = true |- _ => destruct H as [H|H]; [|congruence]; rename H into Hpp end.
    inversion Hsp as [|xx rr cc m0 cc' Hx Hr]; subst. pose proof (spans_le ts _ _ _ Hr).
    destruct (IH p c m0) as (i & t & Ha & Hb & Hc); [cbn [tsize fold_right] in Hsz; lia | exact Hpp | eapply npp_in; [exact Hnp | left; reflexivity] | exact Hx |].
    exists i, t. split; [exact Ha|]. split; [exact Hb | lia].
  - assert (Hp : is_paren p = false) by (eapply npp_first; [exact Hnp | reflexivity]).
    match goal with H : _ \/ is_paren p = true |- _ => destruct H as [H|H]; [|congruence]; rename H into Hpp end.
    inversion Hsp as [|xx rr cc m0 cc' Hx Hr]; subst. pose proof (spans_le ts _ _ _ Hr).
    destruct (IH p c m0) as (i & t & Ha & Hb & Hc); [cbn [tsize fold_right] in Hsz; lia | exact Hpp | eapply npp_in; [exact Hnp | left; reflexivity] | exact Hx |].
    exists i, t. split; [exact Ha|]. split; [exact Hb | lia].
Qed.


Lemma func_first x c c' : shaped cFunc x -> span x c c' -> exists i, [i] = sig c (i + 1) /\ mtok (pkw "function"%bs) i /\ i < c'.
Proof.
  intros Hsh Hsp. inversion Hsh; subst. apply span_node_inv in Hsp. destruct Hsp as [-> Hsp]. inv_spans. pos_facts.
  eexists. split; [eassumption|]. split; [eassumption | lia].
Qed.

Lemma table_first x c c' : shaped cTable x -> span x c c' -> exists i, [i] = sig c (i + 1) /\ mtok (psym "{"%bs) i /\ i < c'.
Proof.
  intros Hsh Hsp. inversion Hsh; subst. apply span_node_inv in Hsp. destruct Hsp as [-> Hsp].
  inversion Hsp as [|xx rr cc m0 cc' Hx Hr]; subst. inversion Hx; subst. pos_facts.
  eexists. split; [eassumption|]. split; [eassumption | lia].
Qed.

Lemma self_of c i : [i] = sig c (i + 1) -> [i] = sig i (i + 1).
Proof. intros H. apply first_sig_self. apply (first_sig_inv ts _ _ H). Qed.

(* ------------------------------------------------------------------ leaves emitted without _get_text *)
(* numbers, strings: white space, then the code of the tree's token *)
Lemma emits_tokcode B tag s e sh fs c i t :
  ParserProofs.tok_at ts i = Some t -> [i] = sig c (i + 1) -> i < e ->
  emitsB B (spaces ts (Node tag s e sh fs) >> advance_emit (tcode t)) c (i + 1) [(i, code_at i)].
Proof.
  intros Ht Hi He. rewrite tok_at_same in Ht. rewrite (code_at_tok _ _ Ht). unfold spaces, bound_of.
  apply emitsB_spaces_advance; assumption.
Qed.

Lemma tok_eqb_refl t : tok_eqb t t = true.
Proof.
  unfold tok_eqb. assert (E : kclass_eqb (tk t) (tk t) = true) by (apply kclass_eqb_eq; reflexivity). rewrite E.
  destruct (tk t); apply zlist_eqb_eq; reflexivity.
Qed.

(* the string argument of a method call: the tree's token is compared with the token under the cursor *)
Lemma emits_tokcode_checked B tag s e sh fs c i t :
  ParserProofs.tok_at ts i = Some t -> [i] = sig c (i + 1) -> i < e ->
  emitsB B (spaces ts (Node tag s e sh fs) >>
            with_cur ts (fun u => if tok_eqb t u then advance_emit (tcode t) else fail_with AssertionError)) c (i + 1) [(i, code_at i)].
Proof.
  intros Ht Hi He. rewrite tok_at_same in Ht. rewrite (code_at_tok _ _ Ht). unfold spaces, bound_of.
  eapply emitsB_spaces_cur; [exact Hi | exact He | exact Ht|]. rewrite tok_eqb_refl.
  apply emitsX_advance. apply first_sig_inv in Hi. destruct Hi as (_ & Hs & _). apply sigb_range in Hs. lia.
Qed.

(* goto: the name is rebuilt from the label bytes *)
Lemma emits_goto_name B tag s e sh fs c i t :
  ctok CName i t -> [i] = sig c (i + 1) -> i < e ->
  emitsB B (get_name ts (Node tag s e sh fs) (mk_name (tdata t))) c (i + 1) [(i, code_at i)].
Proof.
  intros [Ht Hm] Hi He. rewrite tok_at_same in Ht. rewrite (code_at_tok _ _ Ht).
  pose proof (plain_at _ _ Ht) as Hp. unfold plain_token in Hp. cbn [matches] in Hm. apply kclass_eqb_eq in Hm. rewrite Hm in Hp.
  apply zlist_eqb_eq in Hp. rewrite Hp. apply (emitsB_get_name ts B tag s e sh fs c i (mk_name (tdata t))); [exact Hi | exact He | reflexivity].
Qed.

(* a label: `::`, the name, `::` *)
Lemma emits_label B tag s e sh fs c i t :
  ctok CLabel i t -> [i] = sig c (i + 1) -> i < e -> okpos e ->
  emitsB B (spaces ts (Node tag s e sh fs) >> spaces ts (Node tag s e sh fs) >>
            advance_emit ("::"%bs ++ py_slice (tdata t) 2 (-2) ++ "::"%bs)) c (i + 1) [(i, code_at i)].
Proof.
  intros [Ht Hm] Hi He Hok. rewrite tok_at_same in Ht. rewrite (code_at_tok _ _ Ht).
  pose proof (plain_at _ _ Ht) as Hp. unfold plain_token in Hp. cbn [matches] in Hm. apply kclass_eqb_eq in Hm. rewrite Hm in Hp.
  apply andb_true_iff in Hp. destruct Hp as [Hp1 Hp2]. apply zlist_eqb_eq in Hp1. apply zlist_eqb_eq in Hp2.
  rewrite Hp2, <- Hp1. eapply emitsB_after; [apply moves_spaces; exact Hok|]. unfold spaces, bound_of.
  apply emitsB_spaces_advance; assumption.
Qed.

(* ------------------------------------------------------------------ ExpValue: the parenthesis is decided by the token under the cursor *)
Lemma ev_plain B tag s e sh fs (VALUE : WM) c i t L :
  okpos e -> [i] = sig c (i + 1) -> i < e -> tok_at i = Some t -> tok_eqb t lparen = false ->
  emitsB i VALUE i e L ->
  emitsB B (spaces ts (Node tag s e sh fs) >>
            with_cur ts (fun t => (if tok_eqb t (mkTok CSymbol 0 "("%bs "("%bs) then advance_emit "("%bs >> indent_by 1 else skip) >>
                                  VALUE >>
                                  (if tok_eqb t (mkTok CSymbol 0 "("%bs "("%bs) then indent_by (-1) >> get_text ts (Node tag s e sh fs) ")"%bs else skip)))
    c e L.
Proof.
  intros Hok Hi He Ht Hp Hv. unfold spaces, bound_of.
  eapply emitsB_spaces_cur; [exact Hi | exact He | exact Ht|]. unfold lparen in Hp. rewrite Hp.
  apply emitsB_skip_l. apply (emitsB_ext _ _ (VALUE)); [intros; unfold seq, skip; destruct (VALUE st); reflexivity|]. exact Hv.
Qed.

Lemma ev_paren B tag s e sh fs (VALUE : WM) c i j m L :
  okpos e -> [i] = sig c (i + 1) -> mtok (psym "("%bs) i -> emitsB (i + 1) VALUE (i + 1) m L ->
  [j] = sig m (j + 1) -> mtok (psym ")"%bs) j -> e = j + 1 ->
  emitsB B (spaces ts (Node tag s e sh fs) >>
            with_cur ts (fun t => (if tok_eqb t (mkTok CSymbol 0 "("%bs "("%bs) then advance_emit "("%bs >> indent_by 1 else skip) >>
                                  VALUE >>
                                  (if tok_eqb t (mkTok CSymbol 0 "("%bs "("%bs) then indent_by (-1) >> get_text ts (Node tag s e sh fs) ")"%bs else skip)))
    c e ((i, code_at i) :: L ++ [(j, code_at j)]).
Proof.
  intros Hok Hi Hmi Hv Hj Hmj ->. assert (Hki : kwleaf "("%bs i) by (left; exact Hmi).
  destruct (kwleaf_spec _ _ Hki) as (t & Ht & _ & Hc).
  assert (Hp : tok_eqb t (mkTok CSymbol 0 "("%bs "("%bs) = true) by (exact (mtok_tok _ _ _ Hmi Ht)).
  pose proof (sig_one_bounds ts _ _ Hi). pose proof (sig_one_bounds ts _ _ Hj).
  destruct (first_sig_inv ts _ _ Hi) as (_ & Hsi & _). pose proof (sigb_range ts _ Hsi) as Hri.
  assert (Hle : i + 1 <= m) by (destruct (first_sig_inv ts _ _ Hi) as (_ & Hs & _); apply sigb_range in Hs;
     assert (Hx := Hv (mkW (i + 1) 0 [])); destruct Hx as (? & ? & _ & _ & Hq & _); [change (nearB ts (i + 1) (i + 1) (i + 1)); apply nearB_exact; lia | exact Hq]).
  unfold spaces, bound_of.
  eapply emitsB_spaces_cur; [exact Hi | lia | exact Ht|]. rewrite Hp.
  apply emitsB_assoc.
  change ((i, code_at i) :: L ++ [(j, code_at j)]) with ([(i, code_at i)] ++ (L ++ [(j, code_at j)])).
  eapply emitsB_seq.
  - rewrite (code_at_tok _ _ Ht), Hc. apply emitsX_advance. lia.
  - eapply emitsB_after; [apply moves_indent|]. eapply emitsB_seq; [exact Hv|].
    eapply emitsB_after; [apply moves_indent|]. eapply emits_kw; [left; exact Hmj | exact Hj | lia].
Qed.

(* an action specified from a parser cursor c also runs from the first significant token after c *)
Lemma emitsB_from_first B m c c' L i : 0 <= c -> emitsB B m c c' L -> [i] = sig c (i + 1) -> i < B -> i <= c' -> emitsB i m i c' L.
Proof.
  intros H0 H Hi HB Hle st Hn. pose proof (nearB_tight ts _ _ _ Hn (Z.le_refl i)) as Hp.
  destruct (H st) as (st' & cs & E & P & Q & O & C & G).
  - rewrite Hp. split; [exact H0 | right; split; [exact Hi | exact HB]].
  - exists st', cs. split; [exact E|]. split; [exact P|]. split; [exact Hle|]. split; [exact O|]. split; [exact C | exact G].
Qed.

(* ------------------------------------------------------------------ the statement proved by induction on the tree *)
Definition wok (k : cat) (x : tree) : Prop :=
  forall n c c' B, (tdepth (view x) <= n)%nat -> span x c c' -> okpos c -> (k = cChunk -> B <= c) ->
    emitsB B (walk ts n (view x)) c c' (lcodes (leaves x)).

Lemma view_is_node k x : shaped k x -> exists tag s e sh vfs, view x = Node tag s e sh vfs.
Proof. intros H. destruct (shaped_node _ _ _ _ _ H) as (tag & s & e & sh & fs & ->). rewrite view_node. eexists _, _, _, _, _. reflexivity. Qed.

Ltac view_norm :=
  repeat first [ rewrite view_node in * | rewrite views_kw in * | rewrite views_hid in * | rewrite views_tok in * | rewrite views_none in *
               | rewrite views_bool in * | rewrite views_bytes in * | rewrite views_lst in * | rewrite views_paren in *
               | rewrite views_nil in * | rewrite views_app in *
               | rewrite views_vis in * by (eapply shaped_not_hidden; eassumption) ].

(* unfold one level of the walk on a node with a known class *)
Ltac walk_unfold :=
  cbn [walk];
  repeat match goal with
         | |- context [if ?a =? ?b then _ else _] =>
             let v := eval vm_compute in (a =? b) in
             change (a =? b) with v; cbv iota
         end;
  cbn [field nth].

Ltac kw_tac := first [ assumption | left; assumption | right; split; [assumption | reflexivity] ].

(* one action of a handler *)
Ltac leaf_step :=
  lazymatch goal with
  | |- WriterCursor.emitsB _ _ (get_text _ _ _) ?c _ _ =>
      match goal with Hs : [?i] = ParserProofs.sig _ c (?i + 1) |- _ => eapply (emits_kw _ _ _ _ _ _ _ c i); [kw_tac | exact Hs | lia] end
  | |- WriterCursor.emitsB _ _ (get_name _ _ (mk_name _)) ?c _ _ =>
      match goal with Hs : [?i] = ParserProofs.sig _ c (?i + 1) |- _ => eapply (emits_goto_name _ _ _ _ _ _ c i); [eassumption | exact Hs | lia] end
  | |- WriterCursor.emitsB _ _ (get_name _ _ _) ?c _ _ =>
      match goal with Hs : [?i] = ParserProofs.sig _ c (?i + 1) |- _ => eapply (emits_name _ _ _ _ _ _ c i); [eassumption | exact Hs | lia] end
  | |- WriterCursor.emitsB _ _ (name_tok (Tok _ _) _) ?c _ _ => cbn [name_tok]; leaf_step
  | |- WriterCursor.emitsB _ _ (with_code (Tok _ _) _) ?c _ _ =>
      match goal with Hs : [?i] = ParserProofs.sig _ c (?i + 1), Ho : TreeShape.optok _ ?ps ?i _ |- _ =>
        eapply (emits_op _ ps _ _ _ _ _ c i); [first [exact assign_ops_ptok | exact Hbin | exact Hun] | exact Ho | exact Hs | lia] end
  | |- WriterCursor.emitsB _ _ (walk _ _ (view ?y)) ?c _ _ =>
      match goal with Hy : wok _ y, Hs : TreeShape.span _ y c _ |- _ =>
        eapply Hy; [ cbn [tdepth fold_right] in *; lia | exact Hs | assumption | let H := fresh in intros H; first [discriminate H | lia] ] end
  | |- WriterCursor.emitsB _ _ (spaces _ _ >> advance_emit (tcode _)) ?c _ _ =>
      match goal with Hs : [?i] = ParserProofs.sig _ c (?i + 1), Hc : TreeShape.ctok _ _ ?i _ |- _ =>
        eapply (emits_tokcode _ _ _ _ _ _ c i); [exact (proj1 Hc) | exact Hs | lia] end
  | |- WriterCursor.emitsB _ _ (spaces _ _ >> with_cur _ _) ?c _ _ =>
      match goal with Hs : [?i] = ParserProofs.sig _ c (?i + 1), Hc : TreeShape.ctok _ _ ?i _ |- _ =>
        eapply (emits_tokcode_checked _ _ _ _ _ _ c i); [exact (proj1 Hc) | exact Hs | lia] end
  | |- WriterCursor.emitsB _ _ (get_name _ _ (mk_name _)) ?c _ _ =>
      match goal with Hs : [?i] = ParserProofs.sig _ c (?i + 1) |- _ => eapply (emits_goto_name _ _ _ _ _ _ c i); [eassumption | exact Hs | lia] end
  | |- WriterCursor.emitsB _ _ skip _ _ _ => first [ apply emitsX_skip | apply emitsB_skip; lia ]
  | |- WriterCursor.emitsB _ _ (indent_by _) _ _ _ => apply emitsX_indent
  end.

Ltac chain :=
  lazymatch goal with
  | |- WriterCursor.emitsB _ _ (indent_by _ >> _) _ _ _ => eapply emitsB_after; [apply moves_indent | chain]
  | |- WriterCursor.emitsB _ _ (skip >> _) _ _ _ => apply emitsB_skip_l; chain
  | |- WriterCursor.emitsB _ _ ((_ >> _) >> _) _ _ _ => apply emitsB_assoc; chain
  | |- WriterCursor.emitsB _ _ (spaces _ _ >> advance_emit _) _ _ _ => leaf_step
  | |- WriterCursor.emitsB _ _ (spaces _ _ >> with_cur _ _) _ _ _ => leaf_step
  | |- WriterCursor.emitsB _ _ (if_pairs _ _ _ _ _ _ >> _) _ _ _ => idtac
  | |- WriterCursor.emitsB _ _ (dropped_else _ _ _) _ _ _ => idtac
  | |- WriterCursor.emitsB _ _ (_ >> _) _ _ _ => eapply emitsB_seq; [leaf_step | chain]
  | |- WriterCursor.emitsB _ _ _ _ _ _ => leaf_step
  end.

Ltac codes_eq :=
  cbn [leaves flat_map]; unfold lcodes; repeat rewrite map_app; cbn [map app];
  repeat rewrite app_nil_r; repeat rewrite <- app_assoc; cbn [app]; reflexivity.

(* a handler whose view fields are already explicit *)
Ltac open_views :=
  repeat match goal with
         | |- context [match view ?y with _ => _ end] =>
             let Ev := fresh "Ev" in
             destruct (view_is_node _ y ltac:(eassumption)) as (? & ? & ? & ? & ? & Ev); rewrite Ev; cbv iota; rewrite <- Ev
         end.

Ltac class_tests :=
  repeat match goal with
         | H : TreeShape.ctok _ ?k _ ?t |- context [kclass_eqb (tk ?t) ?k] =>
             let Hm := fresh in pose proof (proj2 H) as Hm; cbn [matches] in Hm; rewrite Hm; clear Hm
         | H : TreeShape.ctok _ ?k _ ?t |- context [match tk ?t with _ => _ end] =>
             let Hm := fresh in pose proof (proj2 H) as Hm; cbn [matches] in Hm; apply kclass_eqb_eq in Hm; rewrite Hm; clear Hm
         end.

Ltac handler :=
  walk_unfold; open_views; class_tests;
  eapply emitsB_conv; [ eapply emitsB_after; [apply moves_spaces; assumption | chain] | codes_eq ].

Ltac start_case :=
  let n := fresh "n" in let c := fresh "c" in let c' := fresh "c'" in let B := fresh "B" in
  intros n c c' B Hdep Hsp Hok HB;
  apply span_node_inv in Hsp; destruct Hsp as [-> Hsp];
  view_norm;
  destruct n as [|n]; [exfalso; cbn [tdepth] in Hdep; lia|];
  inv_spans; pos_facts; ok_facts.

Lemma tsize_in_list y l : In y l -> (tsize y <= fold_right (fun x a => tsize x + a) 0 l)%nat.
Proof. induction l as [|z l IH]; intros H; [destruct H|]. cbn [fold_right]. destruct H as [->|H]; [lia | specialize (IH H); lia]. Qed.

(* ------------------------------------------------------------------ separated lists *)
Lemma name_rest_ok tag s e sh vfs sep : forall r c c', seplist ts (name_leaf ts) (psym sep) r -> spans r c c' -> c' <= e ->
  emitsB c (name_rest ts (Node tag s e sh vfs) sep (views r)) c c' (lcodes (flat_map leaves r)).
Proof.
  intros r c c' Hr. revert c c'. induction Hr as [|cm x r Hcm (i & t & -> & Hx) Hr IH]; intros c c' Hsp Hle.
  - inv_spans. apply emitsX_skip.
  - inv_spans. pos_facts. rewrite views_kw, views_tok. cbn [name_rest].
    eapply emitsB_conv; [eapply emitsB_seq; [leaf_step | eapply emitsB_seq; [leaf_step | apply IH; [eassumption | lia]]] | codes_eq].
Qed.

Lemma sep_rest_ok k n' tag s e sh vfs : k <> cChunk -> forall r c c', seplist ts (shaped k) (psym ","%bs) r ->
  (forall y, In y r -> shaped k y -> wok k y) -> Forall (fun v => (tdepth v <= n')%nat) (views r) ->
  spans r c c' -> c' <= e -> okpos c ->
  emitsB c (sep_rest ts (walk ts n') (Node tag s e sh vfs) ","%bs (views r)) c c' (lcodes (flat_map leaves r)).
Proof.
  intros Hk r c c' Hr. revert c c'. induction Hr as [|cm x r Hcm Hx Hr IH]; intros c c' Hw Hd Hsp Hle Hok.
  - inv_spans. apply emitsX_skip.
  - inv_spans. pos_facts. ok_facts. rewrite views_kw in *. rewrite views_vis in * by (eapply shaped_not_hidden; exact Hx).
    inversion Hd as [|v vs Hv Hvs]; subst. cbn [sep_rest].
    assert (Hwx : wok k x) by (apply Hw; [right; left; reflexivity | exact Hx]).
    eapply emitsB_conv; [eapply emitsB_seq; [leaf_step | eapply emitsB_seq; [|apply IH]] | ].
    + match goal with Hs : TreeShape.span _ x ?c0 _ |- _ => eapply (Hwx n' c0); [exact Hv | exact Hs | assumption | intros Hc; congruence] end.
    + intros y Hy. apply Hw. right. right. exact Hy.
    + exact Hvs.
    + eassumption.
    + lia.
    + assumption.
    + codes_eq.
Qed.

(* ------------------------------------------------------------------ statements and semicolons *)
Lemma movesL_exact B B' m c c1 L : movesL B B' m c c1 L -> B' <= c1 -> emitsB B m c c1 L.
Proof.
  intros H Hle st Hn. destruct (H st Hn) as (st' & cs & E & N & Q & O & C & G).
  exists st', cs. split; [exact E|]. split; [exact (nearB_tight ts _ _ _ N Hle)|]. split; [exact Q|]. split; [exact O|]. split; [exact C | exact G].
Qed.

Lemma trivia_not_semi t : is_trivia t = true -> tok_eqb t semi = false.
Proof. unfold is_trivia, tok_eqb, semi. cbn [tk]. destruct (tk t); try discriminate; reflexivity. Qed.

(* the statement that follows: its first token is not `;` *)
Lemma stopsemi_first e c0 j t : [j] = sig c0 (j + 1) -> tok_at j = Some t -> tok_eqb t semi = false -> stopsemi e c0.
Proof.
  intros Hj Ht Hns p u Hn Hu. destruct (first_sig_inv ts _ _ Hj) as (A1 & A2 & A3).
  destruct Hn as [H0 [->|[Hp _]]].
  - destruct (Z.eq_dec c0 j) as [->|Hne]; [congruence|].
    assert (Hs : sigb c0 = false) by (apply A3; lia). unfold ParserProofs.sigb in Hs. rewrite tok_at_same, Hu in Hs.
    apply negb_false_iff in Hs. apply trivia_not_semi, Hs.
  - rewrite (first_sig_unique ts _ _ _ Hp Hj) in Hu. congruence.
Qed.

Lemma stopsemi_end e : semi_free ts e -> stopsemi e e.
Proof.
  intros Hf p t Hn Ht. rewrite (nearB_tight ts _ _ _ Hn (Z.le_refl e)) in Ht. rewrite <- tok_at_same in Ht. exact (Hf t Ht).
Qed.

Lemma stat_first x c c' : shaped cStat x -> no_paren_prefix x = true -> span x c c' ->
  exists i t, [i] = sig c (i + 1) /\ tok_at i = Some t /\ tok_eqb t semi = false /\ i < c'.
Proof.
  intros Hsh Hnp Hsp. inversion Hsh; subst; apply span_node_inv in Hsp; destruct Hsp as [-> Hsp].
  (* assignment: the first variable *)
  1: { match goal with Hv : shaped cVarList _ |- _ => inversion Hv; subst end.
       inversion Hsp as [|xx rr cc m0 cc' Hx Hr]; subst. apply span_node_inv in Hx. destruct Hx as [-> Hx]. inv_spans.
       match goal with Hv : shaped cPrefix ?v, Hs : TreeShape.span _ ?v c ?m1 |- _ =>
         destruct (prefix_first (tsize v) v c m1 (le_n _) Hv) as (i & t & Hi & Hc & Hlt);
           [eapply npp_lst_in; [eapply npp_in; [eapply npp_in; [exact Hnp | left; reflexivity] | left; reflexivity] | left; reflexivity] | exact Hs |]
       end.
       pos_facts. exists i, t. split; [exact Hi|]. split; [rewrite <- tok_at_same; exact (proj1 Hc)|].
       split; [eapply class_not_sym; [exact (proj2 Hc) | discriminate] | lia]. }
  (* call statement *)
  1: { inv_spans.
       match goal with Hv : shaped cPrefix ?v, Hs : TreeShape.span _ ?v c ?m1 |- _ =>
         destruct (prefix_first (tsize v) v c m1 (le_n _) Hv) as (i & t & Hi & Hc & Hlt);
           [eapply npp_in; [exact Hnp | left; reflexivity] | exact Hs |]
       end.
       exists i, t. split; [exact Hi|]. split; [rewrite <- tok_at_same; exact (proj1 Hc)|].
       split; [eapply class_not_sym; [exact (proj2 Hc) | discriminate] | lia]. }
  (* label *)
  14: { inv_spans. pos_facts. match goal with Hc : ctok CLabel ?i ?t |- _ =>
          exists i, t; split; [eassumption|]; split; [rewrite <- tok_at_same; exact (proj1 Hc)|];
          split; [eapply class_not_sym; [exact (proj2 Hc) | discriminate] | lia] end. }
  (* everything else begins with a keyword *)
  all: inversion Hsp as [|xx rr cc m0 cc' Hx Hr]; subst; inversion Hx; subst; pos_facts;
    repeat match goal with Hm : mtok (pkw _) _ |- _ => destruct Hm as (? & ? & ?) end;
    eexists _, _; split; [eassumption|]; split; [rewrite <- tok_at_same; eassumption|];
    split; [eapply kw_not_sym; eassumption | lia].
Qed.

Lemma semi_leaf_app a i : Forall semi_leaf a -> mtok (psym ";"%bs) i -> Forall semi_leaf (a ++ [Kw i]).
Proof. intros Ha Hi. apply Forall_app. split; [exact Ha | constructor; [exists i; split; [reflexivity | exact Hi] | constructor]]. Qed.

Lemma stats_ok n' tag s e sh vfs : okpos e -> semi_free ts e ->
  forall l, Forall (stat_item ts (shaped cStat)) l ->
  (forall y, In y l -> shaped cStat y -> wok cStat y /\ no_paren_prefix y = true) ->
  Forall (fun v => (tdepth v <= n')%nat) (views l) ->
  forall sm0 c c0 B, Forall semi_leaf sm0 -> spans sm0 c c0 -> spans l c0 e -> B <= e -> okpos c ->
  emitsB B (stats ts (walk ts n') (Node tag s e sh vfs) (views l) >> semis ts (Node tag s e sh vfs)) c e
    (lcodes (flat_map leaves sm0) ++ lcodes (flat_map leaves l)).
Proof.
  intros He Hfree l. induction l as [|x l IH]; intros Hl Hw Hd sm0 c c0 B Hsm Hs0 Hsl HB Hok.
  - inversion Hsl; subst. rewrite views_nil. cbn [stats flat_map]. unfold lcodes at 2. cbn [map]. rewrite app_nil_r.
    apply emitsB_skip_l. apply (movesL_exact B e); [|lia].
    apply moves_semis; [exact He | exact Hsm | exact Hs0 | lia | apply stopsemi_end; exact Hfree | exact HB].
  - inversion Hl as [|x0 l0 Hx Hl']; subst. inversion Hsl as [|xx rr cc m0 cc' Hxs Hrs]; subst.
    pose proof (spans_le ts _ _ _ Hrs) as Hle1. pose proof (span_le ts _ _ _ Hxs) as Hle2.
    assert (Hok0 : okpos c0) by (eapply spans_okpos; eassumption).
    destruct Hx as [i Hi | x Hx].
    + (* a semicolon *)
      rewrite views_kw in *. inversion Hxs; subst.
      eapply emitsB_conv; [apply (IH Hl' ltac:(intros y Hy; apply Hw; right; exact Hy) Hd (sm0 ++ [Kw i]) c (i + 1) B);
        [apply semi_leaf_app; assumption | eapply spans_app; [exact Hs0 | econstructor; [constructor; assumption | constructor]] | exact Hrs | exact HB | exact Hok]|].
      rewrite flat_map_app. cbn [flat_map leaves]. unfold lcodes. rewrite !map_app. cbn [map app]. rewrite <- !app_assoc. reflexivity.
    + (* a statement *)
      destruct (Hw x (or_introl eq_refl) Hx) as [Hwx Hnp].
      rewrite views_vis in * by (eapply shaped_not_hidden; exact Hx). inversion Hd as [|v vs Hv Hvs]; subst.
      cbn [stats]. apply emitsB_assoc.
      destruct (stat_first x c0 m0 Hx Hnp Hxs) as (j & t & Hj & Ht & Hns & Hlt).
      eapply emitsB_conv; [eapply emitsB_afterL; [apply moves_semis; [exact He | exact Hsm | exact Hs0 | lia | eapply stopsemi_first; eassumption | exact HB]|];
        apply emitsB_assoc; eapply emitsB_seq; [apply (Hwx n' c0 m0 e); [exact Hv | exact Hxs | exact Hok0 | intros Hc; discriminate Hc] |
          apply (IH Hl' ltac:(intros y Hy; apply Hw; right; exact Hy) Hvs [] m0 m0 m0); [constructor | constructor | exact Hrs | lia | eapply span_okpos; eassumption]]|].
      cbn [flat_map app]. unfold lcodes at 3. cbn [map app]. unfold lcodes. rewrite !map_app. reflexivity.
Qed.

(* ------------------------------------------------------------------ table fields *)
Lemma emitsB_spaces_cur_then B b k m2 c c' L i t :
  [i] = sig c (i + 1) -> i < b -> tok_at i = Some t -> emitsB i (k t >> m2) i c' L ->
  emitsB B (spaces_to ts b >> (with_cur ts k >> m2)) c c' L.
Proof.
  intros Hi Hb Ht Hk.
  apply (emitsB_ext _ _ (spaces_to ts b >> with_cur ts (fun u => k u >> m2))).
  - intros st. apply seq_cong_r. intros s0. unfold seq, with_cur. destruct (cur ts s0); reflexivity.
  - eapply emitsB_spaces_cur; eassumption.
Qed.

Definition trail_sep (node : tree) : token -> WM := fun t =>
  if tok_eqb t (mkTok CSymbol 0 ","%bs ","%bs) || tok_eqb t (mkTok CSymbol 0 ";"%bs ";"%bs)
  then get_text ts node (tcode t) else skip.

Lemma fsep_spec c0 : fsep ts c0 -> exists t, tok_at c0 = Some t /\ is_kw_or_sym (tcode t) t = true /\
  (tok_eqb t (mkTok CSymbol 0 ","%bs ","%bs) || tok_eqb t (mkTok CSymbol 0 ";"%bs ";"%bs)) = true.
Proof.
  intros [H|H].
  - assert (Hk : kwleaf ","%bs c0) by (left; exact H). destruct (kwleaf_spec _ _ Hk) as (t & Ht & Hm & Hc).
    exists t. split; [exact Ht|]. split; [rewrite Hc; exact Hm|].
    assert (E : tok_eqb t (mkTok CSymbol 0 ","%bs ","%bs) = true) by exact (mtok_tok _ _ _ H Ht). rewrite E. reflexivity.
  - assert (Hk : kwleaf ";"%bs c0) by (left; exact H). destruct (kwleaf_spec _ _ Hk) as (t & Ht & Hm & Hc).
    exists t. split; [exact Ht|]. split; [rewrite Hc; exact Hm|].
    assert (E : tok_eqb t (mkTok CSymbol 0 ";"%bs ";"%bs) = true) by exact (mtok_tok _ _ _ H Ht). rewrite E. apply orb_true_r.
Qed.

Lemma fieldtail_ok n' tag s e sh vfs : okpos e ->
  forall r, fieldtail ts (shaped cField) r -> fields_strict r = true ->
  (forall y, In y r -> shaped cField y -> wok cField y) -> Forall (fun v => (tdepth v <= n')%nat) (views r) ->
  forall c m cl, spans r c m -> [cl] = sig m (cl + 1) -> mtok (psym "}"%bs) cl -> cl < e -> okpos c ->
  emitsB c (field_rest ts (walk ts n') (Node tag s e sh vfs) (views r) >> indent_by (-1) >> spaces ts (Node tag s e sh vfs) >>
            with_cur ts (trail_sep (Node tag s e sh vfs)) >> get_text ts (Node tag s e sh vfs) "}"%bs) c (cl + 1)
         (lcodes (flat_map leaves r) ++ [(cl, code_at cl)]).
Proof.
  intros He r Hr. induction Hr as [|c0 f Hc0 Hf|c0 f r Hc0 Hf Hr IH]; intros Hst Hw Hd c m cl Hsp Hcl Hm Hlt Hok.
  - (* no more fields, no trailing separator *)
    inv_spans. rewrite views_nil. cbn [field_rest flat_map]. unfold lcodes. cbn [map app].
    apply emitsB_skip_l. eapply emitsB_after; [apply moves_indent|]. unfold spaces, bound_of.
    assert (Hk : kwleaf "}"%bs cl) by (left; exact Hm). destruct (kwleaf_spec _ _ Hk) as (t & Ht & Hkm & Hc).
    eapply emitsB_spaces_cur_then; [exact Hcl | exact Hlt | exact Ht|]. unfold trail_sep.
    rewrite (sym_not_sym t "}"%bs ","%bs (mtok_tok _ _ _ Hm Ht) eq_refl), (sym_not_sym t "}"%bs ";"%bs (mtok_tok _ _ _ Hm Ht) eq_refl).
    cbn [orb]. apply emitsB_skip_l. eapply emits_kw; [exact Hk | eapply self_of; exact Hcl | exact Hlt].
  - (* a trailing separator *)
    assert (f = PNone) as -> by (cbn [fields_strict] in Hst; destruct f; try discriminate Hst; reflexivity).
    inv_spans. pos_facts. rewrite views_kw, views_hid, views_nil. cbn [field_rest flat_map leaves app]. unfold lcodes. cbn [map app].
    apply emitsB_skip_l. eapply emitsB_after; [apply moves_indent|]. unfold spaces, bound_of.
    destruct (fsep_spec _ Hc0) as (t & Ht & Hkm & Hor).
    match goal with Hs : [c0] = ParserProofs.sig _ _ _ |- _ => eapply emitsB_spaces_cur_then; [exact Hs | lia | exact Ht|] end.
    unfold trail_sep. rewrite Hor.
    change [(c0, code_at c0); (cl, code_at cl)] with ([(c0, code_at c0)] ++ [(cl, code_at cl)]).
    eapply emitsB_seq.
    + rewrite (code_at_tok _ _ Ht). eapply emitsB_get_text; [eapply self_of; eassumption | lia | exact Ht | exact Hkm].
    + eapply emits_kw; [left; exact Hm | exact Hcl | exact Hlt].
  - (* separator, field, more *)
    cbn [fields_strict] in Hst.
    assert (Hst' : fields_strict r = true) by (destruct (shaped_node _ _ _ _ _ Hf) as (? & ? & ? & ? & ? & ->); exact Hst).
    inv_spans. pos_facts. ok_facts. rewrite views_kw in *. rewrite views_vis in * by (eapply shaped_not_hidden; exact Hf).
    inversion Hd as [|v vs Hv Hvs]; subst. cbn [field_rest].
    apply emitsB_assoc. unfold spaces at 1, bound_of.
    destruct (fsep_spec _ Hc0) as (t & Ht & Hkm & Hor).
    assert (Hwf : wok cField f) by (apply Hw; [right; left; reflexivity | exact Hf]).
    match goal with Hs : [c0] = ParserProofs.sig _ _ _ |- _ => eapply emitsB_spaces_cur_then; [exact Hs | lia | exact Ht|] end.
    apply emitsB_assoc.
    eapply emitsB_conv; [eapply emitsB_seq; [eapply emitsB_get_text; [eapply self_of; eassumption | lia | exact Ht | exact Hkm] |
      apply emitsB_assoc; eapply emitsB_seq; [| eapply (IH Hst' ltac:(intros y Hy; apply Hw; right; right; exact Hy) Hvs); [eassumption | exact Hcl | exact Hm | exact Hlt | ]]]|].
    + match goal with Hs : TreeShape.span _ f ?c1 ?m1 |- _ => apply (Hwf n' c1 m1); [exact Hv | exact Hs | assumption | intros Hc; discriminate Hc] end.
    + assumption.
    + unfold lcodes. cbn [flat_map leaves app map]. rewrite ?map_app. cbn [map app]. rewrite ?(code_at_tok _ _ Ht). rewrite <- ?app_assoc. cbn [app]. reflexivity.
Qed.

(* ------------------------------------------------------------------ elseif / else *)
Lemma then_not_do t : tok_is ts (is_kw "then"%bs) t = true -> mtok (pkw "then"%bs) t \/ mtok (pkw "do"%bs) t -> kwleaf "then"%bs t.
Proof.
  intros Hthen [H|(u & Hu & Hm)]; [right; split; [exact H | reflexivity]|]. exfalso.
  unfold tok_is in Hthen. rewrite tok_at_same in Hu. rewrite Hu in Hthen. unfold is_kw in Hthen.
  apply andb_true_iff in Hthen. destruct Hthen as [_ H1]. apply zlist_eqb_eq in H1.
  cbn [matches pkw] in Hm. apply tok_eqb_kw_inv in Hm. destruct Hm as [_ H2]. rewrite H1 in H2. discriminate H2.
Qed.

Lemma elseifs_ok n' tag s e vfs : okpos e ->
  forall r, elseifs ts (shaped cExp) (shaped cChunk) r -> forallb pair_has_cond r = true ->
  forall ep, elsepart ts (shaped cChunk) ep ->
  (forall l y k, In (Lst l) (r ++ ep) -> In y l -> shaped k y -> wok k y) ->
  Forall (fun v => (tdepth v <= n')%nat) (views r ++ views ep) ->
  forall c m n, spans (r ++ ep) c m -> [n] = sig m (n + 1) -> mtok (pkw "end"%bs) n -> n < e -> okpos c ->
  emitsB c (if_pairs ts (walk ts n') (Node tag s e false vfs) false false (views r ++ views ep) >>
            get_text ts (Node tag s e false vfs) "end"%bs) c (n + 1)
         (lcodes (flat_map leaves (r ++ ep)) ++ [(n, code_at n)]).
Proof.
  intros He r Hr. induction Hr as [|a e0 t0 b0 r Ha He0 Ht0 Hb0 Hr IH]; intros Hc ep Hep Hw Hd c m n Hsp Hn Hmn Hlt Hok.
  - cbn [app views] in *. destruct Hep as [|i0 b0 Hi0 Hb0].
    + inv_spans. cbn [views if_pairs flat_map]. unfold lcodes. cbn [map app].
      apply emitsB_skip_l. eapply emits_kw; [right; split; [exact Hmn | reflexivity] | exact Hn | exact Hlt].
    + assert (Hwb : wok cChunk b0) by (eapply (Hw [PNone; b0] b0); [right; left; reflexivity | right; left; reflexivity | exact Hb0]).
      inv_spans. pos_facts. ok_facts. rewrite views_kw, views_lst, views_none, views_nil in *.
      rewrite views_vis in * by (eapply shaped_not_hidden; exact Hb0). rewrite views_nil in *.
      inversion Hd as [|v vs Hv Hvs]; subst. pose proof (tdepth_lst_forall' _ _ Hv) as Hdl. inversion Hdl as [|? ? _ Hdl']; subst. inversion Hdl'; subst.
      cbn [if_pairs].
      eapply emitsB_conv; [chain | codes_eq].
  - cbn [forallb pair_has_cond] in Hc. apply andb_true_iff in Hc. destruct Hc as [_ Hc]. apply andb_true_iff in Hc. destruct Hc as [Hc1 Hc].
    apply negb_true_iff in Hc1. specialize (He0 Hc1).
    assert (Hwe : wok cExp e0) by (eapply (Hw [e0; Kw t0; b0] e0); [right; left; reflexivity | left; reflexivity | exact He0]).
    assert (Hwb : wok cChunk b0) by (eapply (Hw [e0; Kw t0; b0] b0); [right; left; reflexivity | right; right; left; reflexivity | exact Hb0]).
    cbn [app] in Hsp. inv_spans. pos_facts. ok_facts.
    cbn [app] in *. rewrite views_kw, views_lst in *. rewrite (views_vis e0) in * by (eapply shaped_not_hidden; exact He0).
    rewrite views_kw in *. rewrite (views_vis b0) in * by (eapply shaped_not_hidden; exact Hb0). rewrite views_nil in *.
    cbn [app] in Hd. inversion Hd as [|v vs Hv Hvs]; subst. pose proof (tdepth_lst_forall' _ _ Hv) as Hdl. inversion Hdl as [|? ? ? Hdl']; subst. inversion Hdl'; subst.
    cbn [app if_pairs]. open_views.
    eapply emitsB_conv; [chain; eapply (IH Hc ep Hep); [intros l y k Hl Hy; apply (Hw l y k); [right; right; exact Hl | exact Hy] | exact Hvs | eassumption | exact Hn | exact Hmn | exact Hlt | assumption] |].
    unfold lcodes. cbn [flat_map leaves app map]. rewrite ?app_nil_r. rewrite ?map_app. cbn [map app]. rewrite <- ?app_assoc. cbn [app]. reflexivity.
Qed.

(* ------------------------------------------------------------------ the dropped else of a one-line if *)
Lemma skip_trivia_idx_to l : forall p hi i, 0 <= p -> (forall k, nth_error l k = nth_error ts (Z.to_nat p + k)) ->
  p <= i -> sigb i = true -> (forall j, p <= j < i -> sigb j = false) -> i < hi -> skip_trivia_idx l p hi = i.
Proof.
  induction l as [|t r IH]; intros p hi i Hp Hl Hpi Hs Hn Hhi.
  - exfalso. destruct (sigb_tok ts i Hs) as (u & Hu & _). unfold AstWriter.tok_at in Hu. destruct (i <? 0) eqn:E0; [discriminate|].
    specialize (Hl (Z.to_nat i - Z.to_nat p)%nat). replace (Z.to_nat p + (Z.to_nat i - Z.to_nat p))%nat with (Z.to_nat i) in Hl by lia.
    rewrite Hu in Hl. destruct (Z.to_nat i - Z.to_nat p)%nat; discriminate.
  - assert (Htp : tok_at p = Some t).
    { unfold AstWriter.tok_at. destruct (p <? 0) eqn:E0; [lia|]. rewrite <- (Nat.add_0_r (Z.to_nat p)), <- Hl. reflexivity. }
    cbn [skip_trivia_idx]. destruct (Z.eq_dec p i) as [->|Hne].
    + destruct (sigb_tok ts i Hs) as (u & Hu & Htr). assert (u = t) by congruence. subst u. rewrite Htr, andb_false_r. reflexivity.
    + assert (Hsp : sigb p = false) by (apply Hn; lia).
      unfold ParserProofs.sigb in Hsp. rewrite tok_at_same, Htp in Hsp. apply negb_false_iff in Hsp. rewrite Hsp.
      assert (Hlt : (p <? hi) = true) by lia. rewrite Hlt. cbn [andb].
      apply IH; try lia; try assumption.
      * intros k. replace (Z.to_nat (p + 1) + k)%nat with (Z.to_nat p + S k)%nat by lia. rewrite <- Hl. reflexivity.
      * intros j Hj. apply Hn. lia.
Qed.

Lemma skip_trivia_idx_at l p : skip_trivia_idx l p p = p.
Proof. destruct l; cbn [skip_trivia_idx]; [reflexivity|]. rewrite Z.ltb_irrefl. reflexivity. Qed.

Lemma dropped_none tag s e sh fs pairs vt vs ve vsh vfs b :
  last pairs (Lst []) = Lst [Node vt vs ve vsh vfs; b] ->
  emitsB e (dropped_else ts (Node tag s e sh fs) pairs) e e [].
Proof.
  intros Hl st Hn. pose proof (nearB_tight ts _ _ _ Hn (Z.le_refl e)) as Hp. exists st, [].
  unfold dropped_else. rewrite Hl. unfold with_st. cbn [node_end]. rewrite Hp, skip_trivia_idx_at, Z.ltb_irrefl. cbn [andb].
  split; [destruct (AstWriter.tok_at ts e); reflexivity|]. split; [first [reflexivity | exact Hp]|]. split; [lia|]. split; [reflexivity|]. split; [reflexivity | constructor].
Qed.

Lemma dropped_skip tag s e sh fs pairs b c : last pairs (Lst []) = Lst [PNone; b] ->
  emitsB c (dropped_else ts (Node tag s e sh fs) pairs) c c [].
Proof. intros Hl. unfold dropped_else. rewrite Hl. apply emitsX_skip. Qed.

Lemma dropped_else_ok tag s e sh fs pairs vt vs ve vsh vfs b c i c' L :
  last pairs (Lst []) = Lst [Node vt vs ve vsh vfs; b] ->
  [i] = sig c (i + 1) -> i < e -> mtok (pkw "else"%bs) i ->
  emitsB c (get_text ts (Node tag s e sh fs) "else"%bs >> semis ts (Node tag s e sh fs)) c c' L ->
  emitsB c (dropped_else ts (Node tag s e sh fs) pairs) c c' L.
Proof.
  intros Hl Hi He Hm H st Hn. pose proof (nearB_tight ts _ _ _ Hn (Z.le_refl c)) as Hp.
  destruct (first_sig_inv ts _ _ Hi) as (A1 & A2 & A3). destruct Hm as (t & Ht & Hmt). rewrite tok_at_same in Ht.
  unfold dropped_else. rewrite Hl. unfold with_st. cbn [node_end]. rewrite Hp.
  rewrite (skip_trivia_idx_to (skipn (Z.to_nat c) ts) c e i); try lia; try assumption;
    [| destruct Hn; lia | intros k; apply skipn_nth_ts].
  rewrite Ht. assert (Hlt : (i <? e) = true) by lia. rewrite Hlt.
  assert (Hel : tok_eqb t (mkTok CKeyword 0 "else"%bs "else"%bs) = true) by exact Hmt. rewrite Hel. cbn [andb].
  apply H, Hn.
Qed.

(* a block without statements holds semicolons only *)
Lemma no_stats_semis b : shaped cChunk b -> chunk_has_stats b = false ->
  exists s e l, b = Node tChunk s e false [Lst l] /\ Forall semi_leaf l /\ semi_free ts e.
Proof.
  intros Hb Hn. inversion Hb as [s e l Hl Hf| | | | | | | | | | | | | | | | | | | | | | | | | | | | | | | | | | | | | | | | | | | | | | | | | | | | |]; subst.
  exists s, e, l. split; [reflexivity|]. split; [|exact Hf].
  unfold chunk_has_stats, first_field in Hn. cbn [strip_paren visible filter is_hidden negb] in Hn.
  clear Hb Hf. induction Hl as [|x l Hx Hl IH]; [constructor|].
  cbn [visible filter] in Hn. destruct Hx as [i Hi | x Hx].
  - cbn [is_hidden negb] in Hn. constructor; [exists i; split; [reflexivity | exact Hi] | apply IH; exact Hn].
  - rewrite (shaped_not_hidden _ _ _ _ _ Hx) in Hn. cbn [negb] in Hn. discriminate Hn.
Qed.

Theorem walk_aligned : forall m k x, (tsize x <= m)%nat -> shaped k x -> dom x = true -> wok k x.
Proof.
  induction m as [|m IH]; intros k x Hsz Hsh Hdom; [destruct x; cbn [tsize] in Hsz; lia|].
  assert (IHc : forall k' y tag s e sh fs, x = Node tag s e sh fs -> In y fs -> shaped k' y -> wok k' y).
  { intros k' y tag s e sh fs -> Hin Hy. apply IH; [|exact Hy | eapply dom_node_in; eassumption].
    cbn [tsize] in Hsz. clear -Hsz Hin. induction fs as [|z fs IHf]; [destruct Hin|]. cbn [fold_right] in Hsz.
    destruct Hin as [->|Hin]; [lia | apply IHf; [lia | exact Hin]]. }
  inversion Hsh; subst.
  (* the alternatives the domain excludes, the optional parts *)
  all: repeat match goal with
       | H : TreeShape.shaped _ _ _ cPrefix ?p \/ is_paren ?p = true |- _ =>
           let Hp := fresh "Hp" in
           assert (Hp : is_paren p = false) by (eapply npp_first; [apply dom_npp; exact Hdom | reflexivity]);
           destruct H as [H|H]; [|congruence]
       | H : _ = PNone \/ name_leaf _ _ |- _ =>
           destruct H as [->|(? & ? & -> & ?)];
           [exfalso; unfold dom in Hdom; apply andb_true_iff in Hdom; destruct Hdom as [_ Hdom]; cbn in Hdom; discriminate Hdom|]
       | H : _ = PNone \/ TreeShape.shaped _ _ _ _ _ |- _ => destruct H as [->|H]
       | H : str_leaf _ _ \/ _ \/ _ |- _ => destruct H as [(? & ? & -> & ?)|[H|H]]
       end.
  all: repeat match goal with
       | Hy : TreeShape.shaped _ _ _ ?k' ?y |- _ =>
           lazymatch goal with _ : wok k' y |- _ => fail | _ =>
             assert (wok k' y) by (eapply IHc; [reflexivity | cbn [In]; tauto | exact Hy]) end
       end.
  all: try match goal with
       | Hy : TreeShape.shaped _ _ _ cExp ?y |- wok _ (Node _ _ _ _ [Paren _ _ ?y]) =>
           assert (wok cExp y) by (apply IH; [cbn [tsize fold_right] in Hsz; lia | exact Hy |
             apply (dom_paren _ _ y); eapply dom_node_in; [exact Hdom | left; reflexivity]])
       end.
  all: try solve [start_case; handler].
  (* forms outside the domain *)
  all: try solve [exfalso; unfold dom in Hdom; apply andb_true_iff in Hdom; destruct Hdom as [_ Hdom]; cbn in Hdom; discriminate Hdom].
  (* label *)
  4: { start_case. walk_unfold.
       eapply emitsB_conv; [eapply emitsB_after; [apply moves_spaces; assumption|]; eapply emits_label; [eassumption | eassumption | lia | assumption] | codes_eq]. }
  (* nil false true *)
  4, 5, 6: (start_case; walk_unfold;
       match goal with Hm : TreeShape.mtok _ _ ?i |- _ => pose proof Hm as Hmt; destruct Hm as (t & Ht & Hm) end; rewrite tok_at_same in Ht;
       match goal with Hs : [?i] = ParserProofs.sig _ _ (?i + 1) |- _ =>
         pose proof (self_of _ _ Hs) as Hself;
         eapply emitsB_conv; [eapply emitsB_after; [apply moves_spaces; assumption|];
           eapply (ev_plain _ _ _ _ _ _ _ _ i t); [assumption | exact Hs | lia | exact Ht | eapply kw_not_sym; eassumption | ] | codes_eq];
         eapply (emits_kw _ _ _ _ _ _ _ i i); [right; split; [exact Hmt | reflexivity] | exact Hself | lia]
       end).
  (* numbers, strings *)
  4, 5: (start_case; walk_unfold; class_tests;
       match goal with Hc : TreeShape.ctok _ _ ?i ?t, Hs : [?i] = ParserProofs.sig _ _ (?i + 1) |- _ =>
         pose proof (self_of _ _ Hs) as Hself; pose proof (proj1 Hc) as Ht; rewrite tok_at_same in Ht;
         eapply emitsB_conv; [eapply emitsB_after; [apply moves_spaces; assumption|];
           eapply (ev_plain _ _ _ _ _ _ _ _ i t); [assumption | exact Hs | lia | exact Ht | eapply class_not_sym; [exact (proj2 Hc) | discriminate] | ] | codes_eq];
         eapply (emits_tokcode _ _ _ _ _ _ i i); [exact (proj1 Hc) | exact Hself | lia]
       end).
  (* a function as value *)
  4: { start_case. walk_unfold. open_views.
       match goal with Hf : TreeShape.shaped _ _ _ cFunc ?f, Hs : TreeShape.span _ ?f ?c ?e |- _ =>
         destruct (func_first _ _ _ Hf Hs) as (i & Hi & Hm & Hlt); pose proof Hm as Hmt; destruct Hm as (t & Ht & Hm); rewrite tok_at_same in Ht;
         eapply emitsB_conv; [eapply emitsB_after; [apply moves_spaces; assumption|];
           eapply (ev_plain _ _ _ _ _ _ _ _ i t); [assumption | exact Hi | lia | exact Ht | eapply kw_not_sym; exact Hm | ];
           eapply (emitsB_from_first (i + 1) _ c); [destruct Hok; lia | leaf_step | exact Hi | lia | lia] | codes_eq]
       end. }
  (* a prefix expression as value *)
  4: { start_case. walk_unfold. open_views.
       match goal with Hf : TreeShape.shaped _ _ _ cPrefix ?f, Hs : TreeShape.span _ ?f ?c ?e |- _ =>
         destruct (prefix_first (tsize f) f c e (le_n _) Hf) as (i & t & Hi & Hc & Hlt);
           [eapply npp_in; [apply dom_npp; exact Hdom | left; reflexivity] | exact Hs |];
         pose proof (proj1 Hc) as Ht; rewrite tok_at_same in Ht;
         eapply emitsB_conv; [eapply emitsB_after; [apply moves_spaces; assumption|];
           eapply (ev_plain _ _ _ _ _ _ _ _ i t); [assumption | exact Hi | lia | exact Ht | eapply class_not_sym; [exact (proj2 Hc) | discriminate] | ];
           eapply (emitsB_from_first (i + 1) _ c); [destruct Hok; lia | leaf_step | exact Hi | lia | lia] | codes_eq]
       end. }
  (* a parenthesised expression *)
  4: { match goal with Hy : TreeShape.shaped _ _ _ cExp ?y |- wok _ (Node _ _ _ _ [Paren ?i ?j ?y]) =>
         assert (wok cExp y) by (apply IH; [cbn [tsize fold_right] in Hsz; lia | exact Hy |
           apply (dom_paren i j y); eapply dom_node_in; [exact Hdom | left; reflexivity]]) end.
       start_case. walk_unfold. open_views.
       eapply emitsB_conv; [eapply emitsB_after; [apply moves_spaces; assumption|];
         eapply ev_paren; [assumption | eassumption | eassumption | leaf_step | eassumption | eassumption | reflexivity] | codes_eq]. }
  (* a table as value *)
  4: { start_case. walk_unfold. open_views.
       match goal with Hf : TreeShape.shaped _ _ _ cTable ?f, Hs : TreeShape.span _ ?f ?c ?e |- _ =>
         destruct (table_first _ _ _ Hf Hs) as (i & Hi & Hm & Hlt); pose proof Hm as Hmt; destruct Hm as (u & Ht & Hm); rewrite tok_at_same in Ht;
         eapply emitsB_conv; [eapply emitsB_after; [apply moves_spaces; assumption|];
           eapply (ev_plain _ _ _ _ _ _ _ _ i u); [assumption | exact Hi | lia | exact Ht | eapply sym_not_sym; [exact Hm | reflexivity] | ];
           eapply (emitsB_from_first (i + 1) _ c); [destruct Hok; lia | leaf_step | exact Hi | lia | lia] | codes_eq]
       end. }
  (* name lists *)
  5: { start_case. walk_unfold.
       eapply emitsB_conv; [eapply emitsB_after; [apply moves_spaces; assumption|];
         eapply emitsB_seq; [leaf_step | apply name_rest_ok; [eassumption | eassumption | lia] ] | codes_eq]. }
  5: { start_case. walk_unfold.
       eapply emitsB_conv; [eapply emitsB_after; [apply moves_spaces; assumption|];
         eapply emitsB_seq; [leaf_step | eapply emitsB_seq; [apply name_rest_ok; [eassumption | eassumption | lia] | chain] ] | codes_eq]. }
  5: { start_case. walk_unfold.
       eapply emitsB_conv; [eapply emitsB_after; [apply moves_spaces; assumption|];
         eapply emitsB_seq; [leaf_step | apply emitsB_skip_r; apply name_rest_ok; [eassumption | eassumption | lia] ] | codes_eq]. }
  (* expression lists, variable lists *)
  5, 6: (match goal with
       | Hx : TreeShape.shaped _ _ _ ?k ?x0, Hr : seplist _ _ _ ?r |- wok _ (Node _ _ _ _ [Lst (?x0 :: ?r)]) =>
           assert (Hdl : dom (Lst (x0 :: r)) = true) by (eapply dom_node_in; [exact Hdom | left; reflexivity]);
           assert (Hw0 : wok k x0) by (apply IH; [cbn [tsize fold_right] in Hsz; lia | exact Hx | eapply dom_lst_in; [exact Hdl | left; reflexivity]]);
           assert (Hwr : forall y, In y r -> TreeShape.shaped ts binops unops k y -> wok k y)
             by (intros y Hy Hsy; apply IH; [pose proof (tsize_in_list _ _ Hy); cbn [tsize fold_right] in Hsz; lia | exact Hsy |
                                              eapply dom_lst_in; [exact Hdl | right; exact Hy]])
       end;
       start_case; walk_unfold;
       match goal with |- context [sep_rest _ (walk _ ?n) _ _ (views ?r)] =>
         match goal with |- context [walk _ n (view ?x0)] =>
           assert (Hd : Forall (fun v => (tdepth v <= n)%nat) (view x0 :: views r)) by (apply tdepth_lst_forall'; cbn [tdepth fold_right] in Hdep |- *; lia) end end;
       inversion Hd; subst;
       eapply emitsB_conv; [eapply emitsB_after; [apply moves_spaces; assumption|];
         eapply emitsB_seq; [leaf_step |
           lazymatch goal with Hr : seplist _ (TreeShape.shaped _ _ _ ?k) _ _ |- _ =>
             eapply (sep_rest_ok k); [discriminate | exact Hr | exact Hwr | eassumption | eassumption | lia | assumption] end ] | codes_eq]).
  (* chunk *)
  1: { match goal with Hl : Forall _ ?l |- wok _ (Node _ _ _ _ [Lst ?l]) =>
         assert (Hdl : dom (Lst l) = true) by (eapply dom_node_in; [exact Hdom | left; reflexivity]);
         assert (Hwl : forall y, In y l -> TreeShape.shaped ts binops unops cStat y -> wok cStat y /\ no_paren_prefix y = true)
           by (intros y Hy Hsy; assert (Hdy : dom y = true) by (eapply dom_lst_in; [exact Hdl | exact Hy]);
               split; [apply IH; [pose proof (tsize_in_list _ _ Hy); cbn [tsize fold_right] in Hsz; lia | exact Hsy | exact Hdy] | apply dom_npp; exact Hdy])
       end.
       start_case. walk_unfold.
       match goal with |- context [stats _ (walk _ ?n) _ (views ?l)] =>
         assert (Hd : Forall (fun v => (tdepth v <= n)%nat) (views l)) by (apply tdepth_lst_forall'; cbn [tdepth fold_right] in Hdep |- *; lia) end.
       eapply emitsB_conv; [eapply emitsB_after; [apply moves_spaces; assumption|];
         eapply stats_ok with (sm0 := []) (c0 := c);
           [assumption | assumption | eassumption | exact Hwl | exact Hd | constructor | constructor | eassumption | specialize (HB eq_refl); lia | assumption] |].
       cbn [flat_map leaves]. unfold lcodes at 1. cbn [map app]. rewrite app_nil_r. reflexivity. }
  (* table constructor *)
  3: { match goal with Hl : tfields _ _ ?l |- wok _ (Node _ _ _ _ [Kw _; Lst ?l; Kw _]) =>
         assert (Hdl : dom (Lst l) = true) by (eapply dom_node_in; [exact Hdom | right; left; reflexivity]);
         assert (Hwl : forall y, In y l -> TreeShape.shaped ts binops unops cField y -> wok cField y)
           by (intros y Hy Hsy; apply IH; [pose proof (tsize_in_list _ _ Hy); cbn [tsize fold_right] in Hsz; lia | exact Hsy | eapply dom_lst_in; [exact Hdl | exact Hy]]);
         assert (Hst : fields_strict l = true)
           by (unfold dom in Hdom; apply andb_true_iff in Hdom; destruct Hdom as [_ Hdom]; cbn in Hdom; apply andb_true_iff in Hdom; destruct Hdom as [Hdom _]; exact Hdom);
         inversion Hl as [f r Hf Hr | f r Hf Hr]; subst
       end.
       - (* no first field: the table is empty *)
         assert (f = PNone /\ r = []) as [-> ->].
         { cbn [fields_strict] in Hst. destruct f; try discriminate Hst. destruct r; [split; reflexivity | discriminate Hst]. }
         start_case. walk_unfold.
         eapply emitsB_conv; [eapply emitsB_after; [apply moves_spaces; assumption|];
           eapply emitsB_seq; [leaf_step | eapply emitsB_after; [apply moves_indent|];
             eapply (fieldtail_ok) with (r := []) (n' := O); [assumption | apply ft_nil | reflexivity | intros y [] | constructor | constructor | eassumption | eassumption | lia | assumption] ] | codes_eq].
       - (* a first field *)
         assert (Hst' : fields_strict r = true) by (destruct (shaped_node _ _ _ _ _ Hf) as (? & ? & ? & ? & ? & ->); exact Hst).
         assert (Hwf : wok cField f) by (apply Hwl; [left; reflexivity | exact Hf]).
         start_case. walk_unfold.
         match goal with |- context [field_rest _ (walk _ ?n) _ (views ?r)] =>
           assert (Hd : Forall (fun v => (tdepth v <= n)%nat) (view f :: views r)) by (apply tdepth_lst_forall'; cbn [tdepth fold_right] in Hdep |- *; lia) end.
         inversion Hd; subst.
         eapply emitsB_conv; [eapply emitsB_after; [apply moves_spaces; assumption|];
           eapply emitsB_seq; [leaf_step | eapply emitsB_after; [apply moves_indent|]; apply emitsB_assoc;
             eapply emitsB_seq; [leaf_step |
               eapply fieldtail_ok; [assumption | exact Hr | exact Hst' | intros y Hy; apply Hwl; right; exact Hy | eassumption | eassumption | eassumption | eassumption | lia | assumption] ] ] | codes_eq]. }
  (* if ... then ... elseif ... else ... end *)
  1: { pose proof Hdom as Hd0. unfold dom in Hd0. repeat (apply andb_true_iff in Hd0; destruct Hd0 as [Hd0 ?]).
       match goal with H : strict _ = true |- _ => cbn in H; rename H into Hst end.
       match goal with H : no_if_do _ _ = true |- _ => cbn in H; rename H into Hnd end.
       apply andb_true_iff in Hnd. destruct Hnd as [Hthen _].
       apply andb_true_iff in Hst. destruct Hst as [Hst _]. apply andb_true_iff in Hst. destruct Hst as [Hcn Hpc]. apply negb_true_iff in Hcn.
       rewrite forallb_app in Hpc. apply andb_true_iff in Hpc. destruct Hpc as [Hpc _].
       match goal with H : is_none ?c = false -> _ |- _ => specialize (H Hcn) end.
       match goal with H : _ \/ _ |- _ => pose proof (then_not_do _ Hthen H) as Hkt; clear H end.
       match goal with |- wok _ (Node _ _ _ _ [Kw _; Lst (Lst [?c; Kw ?t; ?b] :: ?r ++ ?ep); Kw _]) =>
         assert (Hdl : dom (Lst (Lst [c; Kw t; b] :: r ++ ep)) = true) by (eapply dom_node_in; [exact Hdom | right; left; reflexivity]);
         assert (Hdp : dom (Lst [c; Kw t; b]) = true) by (eapply dom_lst_in; [exact Hdl | left; reflexivity]);
         assert (Hwc : wok cExp c) by (apply IH; [cbn [tsize fold_right] in Hsz; lia | assumption | eapply dom_lst_in; [exact Hdp | left; reflexivity]]);
         assert (Hwb : wok cChunk b) by (apply IH; [cbn [tsize fold_right] in Hsz; lia | assumption | eapply dom_lst_in; [exact Hdp | right; right; left; reflexivity]]);
         assert (Hwr : forall l y k, In (Lst l) (r ++ ep) -> In y l -> TreeShape.shaped ts binops unops k y -> wok k y)
           by (intros l y k Hl Hy Hs; apply IH;
               [pose proof (tsize_in_list _ _ Hy); pose proof (tsize_in_list _ _ Hl) as Hl2; cbn [tsize] in Hl2; cbn [tsize fold_right] in Hsz; lia
               | exact Hs | eapply dom_lst_in; [eapply dom_lst_in; [exact Hdl | right; exact Hl] | exact Hy]])
       end.
       start_case. walk_unfold. cbn [if_pairs]. open_views.
       match goal with |- context [if_pairs _ (walk _ ?n) _ _ _ (views ?r ++ views ?ep)] =>
         assert (Hd : Forall (fun v => (tdepth v <= n)%nat) (views r ++ views ep))
           by (assert (Hd1 : Forall (fun v => (tdepth v <= n)%nat) (Lst [view c; view b] :: views r ++ views ep))
                 by (apply tdepth_lst_forall'; cbn [tdepth fold_right] in Hdep |- *; lia); inversion Hd1; assumption) end.
       eapply emitsB_conv; [eapply emitsB_after; [apply moves_spaces; assumption|]; chain;
         eapply elseifs_ok; [assumption | eassumption | exact Hpc | eassumption | exact Hwr | exact Hd | eassumption | eassumption | eassumption | lia | assumption] |].
       unfold lcodes. cbn [flat_map leaves app map]. rewrite ?app_nil_r. rewrite ?map_app. cbn [map app]. rewrite <- ?app_assoc. cbn [app]. reflexivity. }
  (* if (c) ... [else ...]  on one line *)
  pose proof Hdom as Hd0. unfold dom in Hd0. repeat (apply andb_true_iff in Hd0; destruct Hd0 as [Hd0 ?]).
  match goal with H : strict _ = true |- _ => cbn in H; rename H into Hst end.
  apply andb_true_iff in Hst. destruct Hst as [Hst _]. apply andb_true_iff in Hst. destruct Hst as [Hcp _].
  destruct cond as [|p [|q cond']]; cbn [app] in *;
    [destruct b; discriminate Hcp | | destruct p; try discriminate Hcp; destruct cond'; discriminate Hcp].
  destruct p; try discriminate Hcp.
  match goal with H : TreeShape.shaped _ _ _ cExp (Node tExpValue _ _ _ [Paren _ _ _]) |- _ =>
    inversion H; subst;
    try match goal with Hn : TreeShape.shaped _ _ _ _ (Paren _ _ _) |- _ => destruct (shaped_node _ _ _ _ _ Hn) as (? & ? & ? & ? & ? & Hn'); discriminate Hn' end
  end.
  match goal with |- wok _ (Node _ _ _ _ [Kw _; Lst (Lst [Paren ?i' ?j ?x0; ?b] :: ?ep)]) =>
    assert (Hdl : dom (Lst (Lst [Paren i' j x0; b] :: ep)) = true) by (eapply dom_node_in; [exact Hdom | right; left; reflexivity]);
    assert (Hdp : dom (Lst [Paren i' j x0; b]) = true) by (eapply dom_lst_in; [exact Hdl | left; reflexivity]);
    assert (Hwx : wok cExp x0) by (apply IH; [cbn [tsize fold_right] in Hsz; lia | assumption |
                                    apply (dom_paren i' j x0); eapply dom_lst_in; [exact Hdp | left; reflexivity]]);
    assert (Hwb : wok cChunk b) by (apply IH; [cbn [tsize fold_right] in Hsz; lia | assumption | eapply dom_lst_in; [exact Hdp | right; left; reflexivity]]);
    destruct (view_is_node _ x0 ltac:(eassumption)) as (vt & vs & ve & vsh & vfs & Evx)
  end.
  match goal with H : shortelse _ _ _ |- _ => inversion H as [|ei eb Hei Heb|ei eb Hei Heb Hns]; subst end.
  - (* no else *)
    start_case. walk_unfold. cbn [if_pairs]. open_views.
    eapply emitsB_conv; [eapply emitsB_after; [apply moves_spaces; assumption|]; chain;
      eapply dropped_none; cbn [last]; rewrite Evx; reflexivity | codes_eq].
  - (* else with statements *)
    assert (Hwb0 : wok cChunk eb).
    { apply IH; [cbn [tsize fold_right] in Hsz; lia | assumption |].
      eapply (dom_lst_in [PNone; eb]); [eapply dom_lst_in; [exact Hdl | right; right; left; reflexivity] | right; left; reflexivity]. }
    start_case. walk_unfold. cbn [if_pairs]. open_views.
    eapply emitsB_conv; [eapply emitsB_after; [apply moves_spaces; assumption|]; chain;
      eapply dropped_skip; cbn [last]; reflexivity | codes_eq].
  - (* else without statements: the parser dropped the pair, the writer finds the token *)
    destruct (no_stats_semis eb Heb Hns) as (s1 & e1 & l1 & -> & Hsm & Hfree).
    start_case. walk_unfold. cbn [if_pairs]. open_views.
    match goal with H : TreeShape.span _ (Node tChunk _ _ _ _) _ _ |- _ => apply span_node_inv in H; destruct H as [-> H]; inv_spans; pos_facts; ok_facts end.
    eapply emitsB_conv; [eapply emitsB_after; [apply moves_spaces; assumption|]; chain;
      eapply dropped_else_ok; [cbn [last]; rewrite Evx; reflexivity | eassumption | lia | eassumption |];
      eapply emitsB_seq; [leaf_step | eapply (movesL_exact _ e1); [|lia];
        apply moves_semis; [assumption | exact Hsm | eassumption | lia | apply stopsemi_end; exact Hfree | lia]] |].
    unfold lcodes. cbn [flat_map leaves app map]. rewrite ?app_nil_r. rewrite ?map_app. cbn [map app]. rewrite <- ?app_assoc. cbn [app]. reflexivity.
Qed.

End W.
