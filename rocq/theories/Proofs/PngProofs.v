(* .p8.png steganography and memory layout against Spec/P8Format.v: byte-level sweeps on the
   regenerated channel expressions of p8png.py, and the slice bounds of the raw reader. *)
From PV Require Import Base.Prelude Base.ListX Base.PySlice Model.HexSection Model.Gfx Model.Gff
  Model.PngStego Generated.K_p8png Spec.P8Format Proofs.RowLemmas.
From Coq Require Import ZifyBool.
Ltac Zify.zify_post_hook ::= Z.to_euclidean_division_equations.

(* ---- reading a pixel ---- *)
Definition unpack_facts (x : Z) : bool :=
  (Z.shiftl (Z.land x 3) (Z.mul 0 2) =? x mod 4) && (Z.shiftl (Z.land x 3) (Z.mul 1 2) =? (x mod 4) * 4) &&
  (Z.shiftl (Z.land x 3) (Z.mul 2 2) =? (x mod 4) * 16) && (Z.shiftl (Z.land x 3) (Z.mul 3 2) =? (x mod 4) * 64).
Lemma unpack_facts_all : forallb unpack_facts (upto 256) = true.
Proof. vm_compute. reflexivity. Qed.

Definition lor4_facts (n : Z) : bool :=
  Z.lor (Z.lor (Z.lor (Z.lor 0 (n mod 4)) ((n / 4) mod 4 * 4)) ((n / 16) mod 4 * 16)) (n / 64 * 64) =? n.
Lemma lor4_facts_all : forallb lor4_facts (upto 256) = true.
Proof. vm_compute. reflexivity. Qed.

Lemma lor4 b g r a : 0 <= b < 4 -> 0 <= g < 4 -> 0 <= r < 4 -> 0 <= a < 4 ->
  Z.lor (Z.lor (Z.lor (Z.lor 0 b) (g * 4)) (r * 16)) (a * 64) = a * 64 + r * 16 + g * 4 + b.
Proof.
  intros Hb Hg Hr Ha. set (n := a * 64 + r * 16 + g * 4 + b).
  assert (Hn : 0 <= n < 256) by (subst n; lia).
  pose proof (sweep_upto _ _ lor4_facts_all n Hn) as H. unfold lor4_facts in H. apply Z.eqb_eq in H.
  replace (n mod 4) with b in H by (subst n; lia). replace ((n / 4) mod 4) with g in H by (subst n; lia).
  replace ((n / 16) mod 4) with r in H by (subst n; lia). replace (n / 64) with a in H by (subst n; lia).
  exact H.
Qed.

(* the byte picotool reads from a pixel is the format's byte, for every pixel and every channel count *)
Lemma pd_pixel_spec row planes col r g b a :
  py_get row (col * planes + 0) = Ok r -> py_get row (col * planes + 1) = Ok g ->
  py_get row (col * planes + 2) = Ok b -> py_get row (col * planes + 3) = Ok a ->
  byte r -> byte g -> byte b -> byte a ->
  pd_pixel row planes col = Ok (spec_pixel_byte r g b a).
Proof.
  intros Gr Gg Gb Ga Hr Hg Hb Ha. unfold pd_pixel. rewrite Gr, Gg, Gb, Ga. cbn [bind]. f_equal.
  unfold pd_val_0, pd_val_1, pd_val_2, pd_val_3.
  rewrite (py_get_ok_arr _ _ _ Gr), (py_get_ok_arr _ _ _ Gg), (py_get_ok_arr _ _ _ Gb), (py_get_ok_arr _ _ _ Ga).
  pose proof (sweep_byte _ unpack_facts_all r Hr) as Fr. pose proof (sweep_byte _ unpack_facts_all g Hg) as Fg.
  pose proof (sweep_byte _ unpack_facts_all b Hb) as Fb. pose proof (sweep_byte _ unpack_facts_all a Ha) as Fa.
  unfold unpack_facts in *.
  repeat match goal with H : (_ && _)%bool = true |- _ => apply andb_true_iff in H; destruct H as [H ?] end.
  repeat match goal with H : (_ =? _) = true |- _ => apply Z.eqb_eq in H end.
  repeat match goal with H : Z.shiftl _ _ = _ |- _ => rewrite H; clear H end.
  unfold spec_pixel_byte, byte in *. rewrite lor4 by lia. lia.
Qed.

(* ---- writing a pixel ---- *)
Definition pack_facts (n : Z) : bool :=
  let c := n mod 256 in let p := n / 256 in
  (Z.lor (Z.land c (Z.lnot 3)) (Z.land p 3) =? c - c mod 4 + p mod 4) &&
  (Z.lor (Z.land c (Z.lnot 3)) (Z.land (Z.shiftr p 2) 3) =? c - c mod 4 + (p / 4) mod 4) &&
  (Z.lor (Z.land c (Z.lnot 3)) (Z.land (Z.shiftr p 4) 3) =? c - c mod 4 + (p / 16) mod 4) &&
  (Z.lor (Z.land c (Z.lnot 3)) (Z.land (Z.shiftr p 6) 3) =? c - c mod 4 + (p / 64) mod 4).
Lemma pack_facts_all : forallb pack_facts (upto_fast 65536) = true.
Proof. vm_compute. reflexivity. Qed.

Lemma pack_byte c p : byte c -> byte p ->
  Z.lor (Z.land c (Z.lnot 3)) (Z.land p 3) = c - c mod 4 + p mod 4 /\
  Z.lor (Z.land c (Z.lnot 3)) (Z.land (Z.shiftr p 2) 3) = c - c mod 4 + (p / 4) mod 4 /\
  Z.lor (Z.land c (Z.lnot 3)) (Z.land (Z.shiftr p 4) 3) = c - c mod 4 + (p / 16) mod 4 /\
  Z.lor (Z.land c (Z.lnot 3)) (Z.land (Z.shiftr p 6) 3) = c - c mod 4 + (p / 64) mod 4.
Proof.
  intros Hc Hp. unfold byte in *.
  assert (Hn : 0 <= c + 256 * p < 65536) by lia.
  pose proof (sweep_upto_fast _ _ pack_facts_all _ Hn) as H. unfold pack_facts in H.
  replace ((c + 256 * p) mod 256) with c in H by lia. replace ((c + 256 * p) / 256) with p in H by lia.
  cbv zeta in H.
  repeat (apply andb_true_iff in H; destruct H as [H ?]).
  repeat match goal with H : (_ =? _) = true |- _ => apply Z.eqb_eq in H end. auto.
Qed.

(* the four channel values picotool stores for a byte are the format's, whatever the pixel was *)
Lemma pn_vals_spec (row : Z -> Z) col planes p :
  let r := row (col * planes + 0) in let g := row (col * planes + 1) in
  let b := row (col * planes + 2) in let a := row (col * planes + 3) in
  byte r -> byte g -> byte b -> byte a -> byte p ->
  (pn_val_2 row col planes p, pn_val_1 row col planes p, pn_val_0 row col planes p, pn_val_3 row col planes p)
  = spec_pixel_hide r g b a p.
Proof.
  intros r g b a Hr Hg Hb Ha Hp. unfold pn_val_0, pn_val_1, pn_val_2, pn_val_3, spec_pixel_hide.
  fold r g b a.
  destruct (pack_byte r p Hr Hp) as (_ & _ & R & _). destruct (pack_byte g p Hg Hp) as (_ & G & _ & _).
  destruct (pack_byte b p Hb Hp) as (B & _ & _ & _). destruct (pack_byte a p Ha Hp) as (_ & _ & _ & A).
  rewrite R, G, B, A. reflexivity.
Qed.

(* reference format: hiding then reading gives the byte back and keeps the upper six bits *)
Lemma spec_pixel_roundtrip r g b a p : byte r -> byte g -> byte b -> byte a -> byte p ->
  let '(r', g', b', a') := spec_pixel_hide r g b a p in
  spec_pixel_byte r' g' b' a' = p /\
  r' / 4 = r / 4 /\ g' / 4 = g / 4 /\ b' / 4 = b / 4 /\ a' / 4 = a / 4 /\
  byte r' /\ byte g' /\ byte b' /\ byte a'.
Proof. unfold spec_pixel_hide, spec_pixel_byte, byte. intros. repeat split; lia. Qed.

(* ---- memory layout: the slices the raw reader takes are the regions, in the format's order ---- *)
Lemma py_slice_mid (pre l post : list Z) :
  py_slice (pre ++ l ++ post) (zlen pre) (zlen pre + zlen l) = l.
Proof.
  replace (zlen pre) with (zlen pre + 0) at 1 by lia.
  rewrite py_slice_app_r by (pose proof (zlen_nonneg l); pose proof (zlen_nonneg post); rewrite ?zlen_app; lia).
  rewrite py_slice_app_l by (pose proof (zlen_nonneg l); lia).
  rewrite py_slice_inrange by (pose proof (zlen_nonneg l); lia).
  cbn [skipn Z.to_nat]. replace (Z.to_nat (zlen l - 0)) with (length l) by (unfold zlen; lia).
  apply firstn_all.
Qed.

Lemma pin_png_layout :
  (raw_gfx_lo, raw_gfx_hi, raw_p8map_lo, raw_p8map_hi, raw_gfx_props_lo, raw_gfx_props_hi,
   raw_song_lo, raw_song_hi, raw_sfx_lo, raw_sfx_hi, raw_codedata_lo, raw_codedata_hi, raw_version_idx)
  = (mem_gfx, mem_map, mem_map, mem_gff, mem_gff, mem_music, mem_music, mem_sfx, mem_sfx, mem_code, mem_code,
     mem_version, mem_version).
Proof. reflexivity. Qed.

Lemma image_slices gfx map_ gff music sfx code v :
  zlen gfx = 8192 -> zlen map_ = 4096 -> zlen gff = 256 -> zlen music = 256 -> zlen sfx = 4352 -> zlen code = 15616 ->
  let img := spec_image_bytes gfx map_ gff music sfx code v in
  py_slice img raw_gfx_lo raw_gfx_hi = gfx /\ py_slice img raw_p8map_lo raw_p8map_hi = map_ /\
  py_slice img raw_gfx_props_lo raw_gfx_props_hi = gff /\ py_slice img raw_song_lo raw_song_hi = music /\
  py_slice img raw_sfx_lo raw_sfx_hi = sfx /\ py_slice img raw_codedata_lo raw_codedata_hi = code /\
  py_get img raw_version_idx = Ok v.
Proof.
  intros H1 H2 H3 H4 H5 H6 img. subst img. unfold spec_image_bytes.
  unfold raw_gfx_lo, raw_gfx_hi, raw_p8map_lo, raw_p8map_hi, raw_gfx_props_lo, raw_gfx_props_hi,
    raw_song_lo, raw_song_hi, raw_sfx_lo, raw_sfx_hi, raw_codedata_lo, raw_codedata_hi, raw_version_idx.
  repeat split.
  - pose proof (py_slice_mid [] gfx (map_ ++ gff ++ music ++ sfx ++ code ++ [v])) as E.
    cbn [app] in E. rewrite zlen_nil, H1 in E. exact E.
  - pose proof (py_slice_mid gfx map_ (gff ++ music ++ sfx ++ code ++ [v])) as E. rewrite H1, H2 in E. exact E.
  - pose proof (py_slice_mid (gfx ++ map_) gff (music ++ sfx ++ code ++ [v])) as E.
    rewrite zlen_app, H1, H2, H3, <- app_assoc in E. exact E.
  - pose proof (py_slice_mid (gfx ++ map_ ++ gff) music (sfx ++ code ++ [v])) as E.
    rewrite !zlen_app, H1, H2, H3, H4, <- !app_assoc in E. exact E.
  - pose proof (py_slice_mid (gfx ++ map_ ++ gff ++ music) sfx (code ++ [v])) as E.
    rewrite !zlen_app, H1, H2, H3, H4, H5, <- !app_assoc in E. exact E.
  - pose proof (py_slice_mid (gfx ++ map_ ++ gff ++ music ++ sfx) code [v]) as E.
    rewrite !zlen_app, H1, H2, H3, H4, H5, H6, <- !app_assoc in E. exact E.
  - pose proof (py_get_mid (gfx ++ map_ ++ gff ++ music ++ sfx ++ code) [] v) as E.
    rewrite !zlen_app, H1, H2, H3, H4, H5, H6, <- !app_assoc in E. exact E.
Qed.
