From PV Require Import Base.Prelude Base.ListX Base.PySlice Base.Hex Model.HexSection Spec.P8Format.
From Coq Require Import ZifyBool.

(* ---- chunking ---- *)
Lemma chunks_fuel_concat n : (1 <= n)%nat -> forall fuel l,
  (length l <= fuel)%nat -> concat (chunks_fuel fuel n l) = l.
Proof.
  intros Hn. induction fuel as [|f IH]; intros l Hl.
  - destruct l; [reflexivity | cbn in Hl; lia].
  - destruct l as [|x l']; [reflexivity|].
    cbn [chunks_fuel concat]. rewrite IH.
    + apply firstn_skipn.
    + rewrite skipn_length. cbn [length] in *. lia.
Qed.

Lemma chunks_concat n l : (1 <= n)%nat -> concat (chunks n l) = l.
Proof. intros Hn. apply chunks_fuel_concat; [exact Hn | lia]. Qed.

Lemma chunks_fuel_len n : (1 <= n)%nat -> forall fuel k l,
  length l = (k * n)%nat -> (length l <= fuel)%nat ->
  Forall (fun c => length c = n) (chunks_fuel fuel n l) /\ length (chunks_fuel fuel n l) = k.
Proof.
  intros Hn. induction fuel as [|f IH]; intros k l Hk Hl.
  - destruct l; [|cbn in Hl; lia]. cbn in Hk. split; [constructor|]. cbn. destruct k; [reflexivity|lia].
  - destruct l as [|x l'].
    + cbn in Hk. split; [constructor|]. cbn. destruct k; [reflexivity|lia].
    + destruct k as [|k]; [cbn in Hk; lia|].
      cbn [chunks_fuel].
      destruct (IH k (skipn n (x :: l'))) as [F L].
      * rewrite skipn_length, Hk. lia.
      * rewrite skipn_length. cbn [length] in *. lia.
      * split.
        -- constructor; [|exact F]. rewrite firstn_length, Hk. lia.
        -- cbn [length]. rewrite L. reflexivity.
Qed.

Lemma chunks_len n k l : (1 <= n)%nat -> length l = (k * n)%nat ->
  Forall (fun c => length c = n) (chunks n l) /\ length (chunks n l) = k.
Proof. intros Hn Hk. apply chunks_fuel_len; [exact Hn | exact Hk | lia]. Qed.

Lemma chunks_fuel_bytes n : forall fuel l,
  Forall byte l -> Forall (Forall byte) (chunks_fuel fuel n l).
Proof.
  induction fuel as [|f IH]; intros l Hl; [constructor|].
  destruct l as [|x l']; [constructor|].
  cbn [chunks_fuel]. constructor.
  - apply Forall_firstn. exact Hl.
  - apply IH. apply Forall_skipn. exact Hl.
Qed.

Lemma chunks_bytes n l : Forall byte l -> Forall (Forall byte) (chunks n l).
Proof. apply chunks_fuel_bytes. Qed.

Lemma rows_chunks n : forall fuel l, rows n fuel l = chunks_fuel fuel n l.
Proof. induction fuel as [|f IH]; intros l; [reflexivity|]. destruct l; [reflexivity|]. cbn. rewrite IH. reflexivity. Qed.

Lemma rows_of_chunks n l : rows_of n l = chunks n l.
Proof. apply rows_chunks. Qed.

(* ---- the code's hex digits are the format's hex digits ---- *)
Lemma hexdigit_hexd n : hexdigit n = hexd n.
Proof. unfold hexdigit, hexd. destruct (n <? 10); lia. Qed.

Lemma hex2_hexbyte b : hex2 b = hexbyte b.
Proof. unfold hex2, hexbyte. rewrite !hexdigit_hexd. reflexivity. Qed.

Lemma to_hex_spec c : to_hex c = flat_map hexbyte c.
Proof. induction c as [|b c IH]; [reflexivity|]. cbn [to_hex flat_map]. fold (to_hex c). rewrite IH, hex2_hexbyte. reflexivity. Qed.

Lemma hex_line_spec c : hex_line c = spec_hex_row c.
Proof. unfold hex_line, spec_hex_row, nl. rewrite to_hex_spec. reflexivity. Qed.

(* ---- reading one written line ---- *)
Lemma line_to_bytes_hex_line c : Forall byte c -> line_to_bytes (hex_line c) = Ok c.
Proof.
  intros Hc. unfold line_to_bytes, hex_line.
  pose proof (to_hex_nospace c Hc) as Hns.
  rewrite rstrip_app_newline.
  - unfold to_ascii. rewrite ascii_ok_hex by exact Hc. cbn [bind]. apply fromhex_to_hex. exact Hc.
  - eapply Forall_impl; [|exact Hns]. cbv beta. intros a [H _]. exact H.
Qed.

Lemma base_from_lines_hex cs : Forall (Forall byte) cs ->
  base_from_lines (map hex_line cs) = Ok (concat cs).
Proof.
  induction 1 as [|c cs Hc Hcs IH]; [reflexivity|].
  cbn [map base_from_lines concat]. rewrite line_to_bytes_hex_line by exact Hc.
  cbn [bind]. rewrite IH. reflexivity.
Qed.

Lemma base_roundtrip n d : 1 <= n -> Forall byte d ->
  base_from_lines (base_to_lines n d) = Ok d.
Proof.
  intros Hn Hd. unfold base_to_lines.
  rewrite base_from_lines_hex by (apply chunks_bytes; exact Hd).
  rewrite chunks_concat by lia. reflexivity.
Qed.

Lemma base_to_lines_spec d : base_to_lines 128 d = spec_hex_lines d.
Proof.
  unfold base_to_lines, spec_hex_lines. rewrite rows_of_chunks.
  change (Z.to_nat 128) with 128%nat.
  apply map_ext. intros c. apply hex_line_spec.
Qed.
