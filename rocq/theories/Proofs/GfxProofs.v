From PV Require Import Base.Prelude Base.ListX Base.PySlice Base.Hex Model.HexSection Model.Gfx
  Generated.K_gfx Spec.P8Format Proofs.HexSectionProofs.
From Coq Require Import ZifyBool.

(* byte-level sweep on the regenerated nibble-swap kernel *)
Definition swap_facts (b : Z) : bool :=
  let s := gfx_to_lines_swap b in
  byteb s && zlist_eqb (hex2 s) [hexd (b mod 16); hexd (b / 16)] && zlist_eqb (hex2 s) (rev (hex2 b)).

Lemma swap_facts_all : forallb swap_facts (upto 256) = true.
Proof. vm_compute. reflexivity. Qed.

Lemma swap_byte b : byte b ->
  byte (gfx_to_lines_swap b) /\
  hex2 (gfx_to_lines_swap b) = [hexd (b mod 16); hexd (b / 16)] /\
  hex2 (gfx_to_lines_swap b) = rev (hex2 b).
Proof.
  intros Hb. pose proof (sweep_byte _ swap_facts_all b Hb) as H. unfold swap_facts in H.
  cbv zeta in H. apply andb_true_iff in H as [H H3]. apply andb_true_iff in H as [H1 H2].
  apply byteb_spec in H1. apply zlist_eqb_eq in H2. apply zlist_eqb_eq in H3. auto.
Qed.

Lemma map_swap_bytes c : Forall byte c -> Forall byte (map gfx_to_lines_swap c).
Proof. induction 1 as [|b c Hb Hc IH]; constructor; [apply swap_byte; exact Hb | exact IH]. Qed.

Lemma pin_gfx_line_bytes : gfx_hex_line_bytes = 64.
Proof. reflexivity. Qed.

Lemma gfx_line_spec c : Forall byte c -> gfx_line c = spec_gfx_row c.
Proof.
  intros Hc. unfold gfx_line, spec_gfx_row, nl. f_equal.
  induction Hc as [|b c Hb Hc IH]; [reflexivity|].
  cbn [map to_hex flat_map]. fold (to_hex (map gfx_to_lines_swap c)). rewrite IH.
  destruct (swap_byte b Hb) as (_ & E & _). rewrite E. reflexivity.
Qed.

Lemma gfx_to_lines_spec d : Forall byte d -> gfx_to_lines d = spec_gfx_lines d.
Proof.
  intros Hd. unfold gfx_to_lines, spec_gfx_lines. rewrite rows_of_chunks, pin_gfx_line_bytes.
  change (Z.to_nat 64) with 64%nat.
  apply map_ext_in. intros c Hc. apply gfx_line_spec.
  pose proof (chunks_bytes 64 d Hd) as F. rewrite Forall_forall in F. apply F. exact Hc.
Qed.

Lemma swap_pairs_hex c : forall rest, Forall byte c ->
  swap_pairs (length c) (to_hex (map gfx_to_lines_swap c) ++ rest) = Ok (to_hex c ++ rest).
Proof.
  induction c as [|b c IH]; intros rest Hc; [reflexivity|].
  inversion Hc as [|b' c' Hb Hc']; subst.
  destruct (swap_byte b Hb) as (_ & _ & E).
  cbn [map to_hex flat_map length]. fold (to_hex (map gfx_to_lines_swap c)). fold (to_hex c).
  rewrite E. unfold hex2. cbn [rev app swap_pairs].
  rewrite IH by exact Hc'. reflexivity.
Qed.

Lemma gfx_line_to_bytes_line c : length c = 64%nat -> Forall byte c ->
  gfx_line_to_bytes (gfx_line c) = Ok c.
Proof.
  intros Hl Hc. unfold gfx_line_to_bytes, gfx_line.
  pose proof (map_swap_bytes c Hc) as Hs.
  rewrite rstrip_app_newline.
  2:{ eapply Forall_impl; [|apply to_hex_nospace; exact Hs]. cbv beta. intros a [H _]. exact H. }
  rewrite <- (app_nil_r (to_hex (map gfx_to_lines_swap c))).
  replace 64%nat with (length c) by exact Hl.
  rewrite swap_pairs_hex by exact Hc. rewrite app_nil_r. cbn [bind].
  unfold to_ascii. rewrite ascii_ok_hex by exact Hc. cbn [bind].
  apply fromhex_to_hex. exact Hc.
Qed.

Lemma gfx_line_zlen c : length c = 64%nat -> zlen (gfx_line c) = 129.
Proof.
  intros Hl. unfold gfx_line, zlen. rewrite app_length, to_hex_length, map_length, Hl. reflexivity.
Qed.

Lemma gfx_from_lines_lines cs :
  Forall (fun c => length c = 64%nat) cs -> Forall (Forall byte) cs ->
  gfx_from_lines (map gfx_line cs) = Ok (concat cs).
Proof.
  induction cs as [|c cs IH]; intros HL HB; [reflexivity|].
  inversion HL as [|c1 cs1 Hl HL']; subst. inversion HB as [|c2 cs2 Hb HB']; subst.
  cbn [map gfx_from_lines concat]. rewrite gfx_line_zlen by exact Hl. cbn [Z.eqb Pos.eqb].
  rewrite gfx_line_to_bytes_line by assumption. cbn [bind]. rewrite IH by assumption. reflexivity.
Qed.

(* any region whose length is a whole number of rows (8192 = 128 rows in particular) *)
Lemma gfx_roundtrip k d : length d = (k * 64)%nat -> Forall byte d ->
  gfx_from_lines (gfx_to_lines d) = Ok d.
Proof.
  intros Hk Hd. unfold gfx_to_lines. rewrite pin_gfx_line_bytes. change (Z.to_nat 64) with 64%nat.
  destruct (chunks_len 64 k d ltac:(lia) Hk) as [F _].
  rewrite gfx_from_lines_lines; [|exact F|apply chunks_bytes; exact Hd].
  rewrite chunks_concat by lia. reflexivity.
Qed.
