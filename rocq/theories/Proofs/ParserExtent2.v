(* Statement extents of the parser model, part 2: what the parser's statement nodes span.

     gl_stat gl s        the test build.py applies to a statement of the root chunk (a StatFunction whose name is one
                         game-loop name, no method); Model/ReqEmbedInst.is_game_loop_stat is the instance
     exposed gl t        t is, or contains at block depth 0 (directly in a chunk, or in the body / else part of a
                         one-line if), a statement that passes that test
     stat_ok t p e       t = Node tag p e ..: the node starts at the cursor where the statement was entered and ends
                         at the cursor behind its last token; the significant tokens of [p, e) are block-balanced
                         (W); unless exposed, no token of them at depth 0 looks like the head of a game-loop
                         definition (Q0); a StatFunction node is `function` ... `end` with a balanced middle (fun_ok)
     tiles l p e         the items of a chunk (statements and `;`) are laid end to end from cursor p to cursor e

   One specification per parse function (same open recursion and weakest-precondition calculus as ParserSpecs.v,
   whose postconditions are reused at every call), then induction over the fuel levels. *)
From PV Require Import Base.Prelude Spec.LuaTokens Spec.LuaGrammar Model.Tokens Model.Parser Model.ReqEmbedInst
  Proofs.ParserProofs Proofs.ParserSpecs Proofs.ParserExtent1.
From Coq Require Import ZifyBool.
Ltac Zify.zify_post_hook ::= idtac.

Definition gl_stat (gl : list (list Z)) (s : tree) : bool :=
  (tag_of s =? tStatFunction) &&
  match vfields s with
  | fname :: _ =>
    match vfields fname with
    | path :: meth :: _ =>
      match items_of path with
      | [Tok _ nt] => is_none meth && existsb (zlist_eqb (tdata nt)) gl
      | _ => false
      end
    | _ => false
    end
  | _ => false
  end.

Section Defs.
Variable ts : list token.
Variable gl : list (list Z).
Local Notation seg := (seg ts).
Local Notation W := (W gl).
Local Notation Q0 := (Q0 gl).
Local Notation S := (S gl).

Fixpoint exposed (t : tree) : bool :=
  let fix exl (l : list tree) : bool := match l with [] => false | x :: r => exposed x || exl r end in
  let fix lastx (l : list tree) : bool :=
    match l with [] => false | x :: r => match r with [] => exposed x | _ => lastx r end end in
  match t with
  | Node tag _ _ sh fs =>
      if tag =? tStatFunction then gl_stat gl t
      else if tag =? tChunk then exl fs
      else if (tag =? tStatIf) && sh then
        match fs with
        | [_; Lst (Lst pr :: ep)] => lastx pr || exl ep
        | _ => false
        end
      else false
  | Lst l => exl l
  | Hid x => exposed x
  | _ => false
  end.

Definition exl (l : list tree) : bool := existsb exposed l.
Fixpoint lastx (l : list tree) : bool :=
  match l with [] => false | x :: r => match r with [] => exposed x | _ => lastx r end end.

Lemma exl_fix l : (fix exl (l : list tree) : bool := match l with [] => false | x :: r => exposed x || exl r end) l = exl l.
Proof. unfold exl. induction l as [|x r IH]; [reflexivity|]. cbn [existsb]. rewrite <- IH. reflexivity. Qed.

Lemma lastx_fix l :
  (fix lastx (l : list tree) : bool :=
     match l with [] => false | x :: r => match r with [] => exposed x | _ => lastx r end end) l = lastx l.
Proof. induction l as [|x r IH]; [reflexivity|]. cbn [lastx]. destruct r; [reflexivity | exact IH]. Qed.

Lemma exposed_lst l : exposed (Lst l) = exl l.
Proof. cbn [exposed]. apply exl_fix. Qed.

Lemma exposed_chunk s e sh l : exposed (Node tChunk s e sh [Lst l]) = exl l.
Proof.
  cbn [exposed]. change (tChunk =? tStatFunction) with false. change (tChunk =? tChunk) with true. cbv iota.
  rewrite exl_fix, orb_false_r. reflexivity.
Qed.

Lemma exposed_shortif s e k pr ep : exposed (Node tStatIf s e true [k; Lst (Lst pr :: ep)]) = lastx pr || exl ep.
Proof.
  cbn [exposed]. change (tStatIf =? tStatFunction) with false. change (tStatIf =? tChunk) with false.
  change (tStatIf =? tStatIf) with true. cbv iota. cbn [andb]. rewrite exl_fix, lastx_fix. reflexivity.
Qed.

Lemma exposed_other tag s e sh fs : (tag =? tStatFunction) = false -> (tag =? tChunk) = false -> ((tag =? tStatIf) && sh) = false ->
  exposed (Node tag s e sh fs) = false.
Proof. intros H1 H2 H3. cbn [exposed]. rewrite H1, H2, H3. reflexivity. Qed.

Lemma exposed_fun s e sh fs : exposed (Node tStatFunction s e sh fs) = gl_stat gl (Node tStatFunction s e sh fs).
Proof. reflexivity. Qed.

Lemma lastx_app2 hs v b : lastx (hs ++ [v; b]) = exposed b.
Proof.
  induction hs as [|h hs IH]; [reflexivity|]. cbn [app lastx]. destruct (hs ++ [v; b]) eqn:E; [destruct hs; discriminate E|].
  exact IH.
Qed.

Lemma exl_app a b : exl (a ++ b) = exl a || exl b.
Proof. unfold exl. apply existsb_app. Qed.

(* ---------- the body of a function: ( ... ) block end ---------- *)
Definition FB (l : list token) : Prop :=
  exists tp body te, l = tp :: body ++ [te] /\ is_sym "("%bs tp = true /\ tfacts tp 0 false false false /\
                     W body /\ tfacts te (-1) false false false.

Lemma FB_S chk d l : FB l -> 0 <= d -> S chk (d + 1) l d.
Proof.
  intros (tp & body & te & -> & _ & [Hd Hf Hl _] & Hb & [Hd2 Hf2 Hl2 _]) H0.
  change (tp :: body ++ [te]) with ([tp] ++ body ++ [te]).
  eapply S_app; [apply S_tok; [exact Hf | exact Hl | lia]|]. rewrite Hd.
  eapply S_app; [apply (W_S_deep gl body chk (d + 1 + 0) Hb); lia|].
  replace d with (d + 1 + 0 + tdelta te) at 2 by lia. apply S_tok; [exact Hf2 | exact Hl2 | lia].
Qed.

Lemma FB_S' chk d l d' : FB l -> 1 <= d -> d' = d - 1 -> S chk d l d'.
Proof. intros H Hd ->. replace d with (d - 1 + 1) at 1 by lia. apply FB_S; [exact H | lia]. Qed.

Lemma S_fun_FB chk d tf l : is_fun tf = true -> FB l -> 0 <= d -> S chk d (tf :: l) d.
Proof.
  intros Hf HB Hd. pose proof (FB_S chk d l HB Hd) as HS.
  destruct HB as (tp & body & te & -> & _ & [_ _ _ Hn] & _). apply S_fun_anon; assumption.
Qed.

(* ---------- function names ---------- *)
Definition FN (t : tree) (l : list token) : Prop :=
  exists s e ni nt r m rest, t = Node tFunctionName s e false (Lst (Tok ni nt :: r) :: m) /\
    l = nt :: rest /\ tfacts nt 0 false false true /\ forallb plain rest = true /\
    ((r = [] /\ m = [PNone] /\ rest = []) \/
     ((exists t2 rest', rest = t2 :: rest' /\ is_sym "("%bs t2 = false) /\
      ((exists di n2 t2 r', r = Kw di :: Tok n2 t2 :: r') \/ (exists ci mi mt, m = [Kw ci; Tok mi mt])))).

(* ---------- statements ---------- *)
Definition fun_ok (t : tree) (p p1 : Z) : Prop :=
  exists fi tf body te, p <= fi /\ [fi] = sig ts p (fi + 1) /\ tok_at ts fi = Some tf /\ is_fun tf = true /\
     fi + 1 < p1 /\ seg (fi + 1) p1 = body ++ [te] /\ W body /\ tfacts te (-1) false false false /\ sigb ts (p1 - 1) = true /\
     (gl_stat gl t = true ->
      exists tn tp rest, body = tn :: tp :: rest /\ is_nm tn = true /\ in_gl gl tn = true /\ is_sym "("%bs tp = true).

Definition stat_ok (t : tree) (p p1 : Z) : Prop :=
  exists tag sh fs, t = Node tag p p1 sh fs /\ W (seg p p1) /\ (exposed t = false -> Q0 (seg p p1)) /\
     (tag = tStatFunction -> fun_ok t p p1).

Fixpoint tiles (l : list tree) (p p' : Z) : Prop :=
  match l with
  | [] => p' = p
  | Kw i :: r => p <= i /\ [i] = sig ts p (i + 1) /\ (exists t, tok_at ts i = Some t /\ tfacts t 0 false false false) /\ tiles r (i + 1) p'
  | x :: r => exists e, stat_ok x p e /\ p < e /\ tiles r e p'
  end.

Definition chunk_ok (t : tree) (p p1 : Z) : Prop := exists l, t = Node tChunk p p1 false [Lst l] /\ tiles l p p1.

Lemma tiles_app l1 : forall l2 p p1 p2, tiles l1 p p1 -> tiles l2 p1 p2 -> tiles (l1 ++ l2) p p2.
Proof.
  induction l1 as [|x r IH]; intros l2 p p1 p2 H1 H2.
  - cbn [tiles] in H1. subst p1. exact H2.
  - cbn [app]. destruct x; cbn [tiles] in *;
      try (destruct H1 as (e' & Ha & Hb & Hc); exists e'; split; [exact Ha|]; split; [exact Hb|]; eapply IH; eassumption).
    destruct H1 as (Ha & Hb & Hc & Hd). split; [exact Ha|]. split; [exact Hb|]. split; [exact Hc|]. eapply IH; eassumption.
Qed.

Lemma tiles_cons_stat x r p e p' : stat_ok x p e -> p < e -> tiles r e p' -> tiles (x :: r) p p'.
Proof.
  intros Hs Hlt Hr. pose proof Hs as (tag & sh & fs & -> & _). cbn [tiles]. exists e. split; [exact Hs|]. split; assumption.
Qed.

Lemma tiles_le l : forall p p1, tiles l p p1 -> p <= p1.
Proof.
  induction l as [|x r IH]; intros p p1 H; [cbn [tiles] in H; lia|].
  destruct x; cbn [tiles] in H; try (destruct H as (e' & _ & Hb & Hc); apply IH in Hc; lia).
Qed.

Lemma tiles_W l : forall p p1, tiles l p p1 -> W (seg p p1) /\ (exl l = false -> Q0 (seg p p1)).
Proof.
  induction l as [|x r IH]; intros p p1 H.
  - cbn [tiles] in H. subst p1. rewrite seg_nil by lia. split; [apply S_nil | intros _; apply S_nil].
  - assert (Hstat : forall e, stat_ok x p e -> p < e -> tiles r e p1 ->
                     W (seg p p1) /\ (exl (x :: r) = false -> Q0 (seg p p1))).
    { intros e (tag & sh & fs & -> & Hw & Hq & _) Hlt Hr. pose proof (tiles_le _ _ _ Hr) as Hle. destruct (IH _ _ Hr) as [IW IQ].
      rewrite (seg_app ts p e p1) by lia. split.
      - eapply S_app; eassumption.
      - cbn [exl existsb]. intros Hx. apply orb_false_iff in Hx. destruct Hx as [Hx1 Hx2].
        eapply S_app; [apply Hq, Hx1 | apply IQ, Hx2]. }
    destruct x; cbn [tiles] in H; try (destruct H as (e' & Ha & Hb & Hc); exact (Hstat e' Ha Hb Hc)).
    destruct H as (Ha & Hb & (t & Ht & [Hd Hf Hl _]) & Hr). pose proof (tiles_le _ _ _ Hr) as Hle. destruct (IH _ _ Hr) as [IW IQ].
    rewrite (seg_app ts p (i + 1) p1) by lia. rewrite (seg_single ts p i t Hb Ht).
    assert (Hp : plain t = true) by (unfold plain; rewrite Hd, Hf, Hl; reflexivity). split.
    + eapply S_app; [apply S_plain; [exact Hp | lia] | exact IW].
    + cbn [exl existsb exposed orb]. intros Hx. eapply S_app; [apply S_plain; [exact Hp | lia] | apply IQ, Hx].
Qed.

Lemma chunk_ok_W t p p1 : chunk_ok t p p1 -> p <= p1 /\ W (seg p p1) /\ (exposed t = false -> Q0 (seg p p1)).
Proof.
  intros (l & -> & H). split; [eapply tiles_le, H|]. destruct (tiles_W _ _ _ H) as [H1 H2]. split; [exact H1|].
  rewrite exposed_chunk. exact H2.
Qed.

(* ---------- list-composition rules without existential depths ---------- *)
Lemma S_cons_tok chk d t dl l d' : tdelta t = dl -> is_fun t = false -> is_loc t = false -> 0 <= d + dl ->
  S chk (d + dl) l d' -> S chk d (t :: l) d'.
Proof.
  intros Hd Hf Hl H0 H. change (t :: l) with ([t] ++ l). eapply S_app; [|exact H]. rewrite <- Hd. apply S_tok; [exact Hf | exact Hl | lia].
Qed.

Lemma S_app_Q0 chk d l1 l2 d' : Q0 l1 -> 0 <= d -> S chk d l2 d' -> S chk d (l1 ++ l2) d'.
Proof. intros H1 Hd H2. eapply S_app; [apply Q0_S; eassumption | exact H2]. Qed.

Lemma S_app_W chk d l1 l2 d' : W l1 -> (chk = false /\ 0 <= d) \/ 1 <= d -> S chk d l2 d' -> S chk d (l1 ++ l2) d'.
Proof.
  intros H1 Hd H2. eapply S_app; [|exact H2]. destruct Hd as [[-> Hd]|Hd]; [apply W_S_false; assumption | apply W_S_deep; assumption].
Qed.

Lemma FB_intro p c tp pe c' te : seg p c = [tp] -> is_sym "("%bs tp = true -> tfacts tp 0 false false false ->
  p <= c -> c <= pe -> pe <= c' -> seg pe c' = [te] -> tfacts te (-1) false false false -> W (seg c pe) -> FB (seg p c').
Proof.
  intros H1 H2 H3 L1 L2 L3 H4 H5 H6. rewrite (seg_app ts p c c'), (seg_app ts c pe c'), H1, H4 by lia.
  exists tp, (seg c pe), te. split; [reflexivity|]. split; [exact H2|]. split; [exact H3|]. split; [exact H6 | exact H5].
Qed.

Lemma stat_ok_Q0 tag p p1 sh fs : Q0 (seg p p1) -> tag <> tStatFunction ->
  (tag =? tChunk) = false -> ((tag =? tStatIf) && sh) = false -> stat_ok (Node tag p p1 sh fs) p p1.
Proof.
  intros HQ Ht H2 H3. exists tag, sh, fs. split; [reflexivity|]. split; [apply Q0_W, HQ|]. split; [intros _; exact HQ|].
  intros E. contradiction.
Qed.

Lemma S_local_ne chk d tl l d' : is_loc tl = true -> 0 <= d -> l <> [] -> S chk d l d' -> S chk d (tl :: l) d'.
Proof. intros Hl Hd Hne H. destruct l as [|t r]; [congruence|]. apply S_local; assumption. Qed.

Lemma seg_ne_app a b c : a <= b -> b <= c -> seg a b <> [] -> seg a c <> [].
Proof. intros H1 H2 Hne. rewrite (seg_app ts a b c) by lia. destruct (seg a b); [congruence | discriminate]. Qed.

Lemma stat_ok_if_short pos e k hs v b ep : W (seg pos e) -> (exposed b = false -> exl ep = false -> Q0 (seg pos e)) ->
  stat_ok (Node tStatIf pos e true [k; Lst (Lst (hs ++ [v; b]) :: ep)]) pos e.
Proof.
  intros HW HQ. eexists _, _, _. split; [reflexivity|]. split; [exact HW|]. split; [|discriminate].
  rewrite exposed_shortif, lastx_app2. intros Hx. apply orb_false_iff in Hx. destruct Hx as [H1 H2]. apply HQ; assumption.
Qed.

(* the test of build.py on a function statement node, by the shape of its name *)
Lemma gl_stat_fun s e sh i s' e' ni nt r m b : is_hidden b = false ->
  gl_stat gl (Node tStatFunction s e sh [Kw i; Node tFunctionName s' e' false (Lst (Tok ni nt :: r) :: m); b]) =
  match r, m with [], [PNone] => in_gl gl nt | _, _ => gl_stat gl (Node tStatFunction s e sh [Kw i; Node tFunctionName s' e' false (Lst (Tok ni nt :: r) :: m); b]) end.
Proof.
  intros Hb. destruct r as [|? ?]; [|reflexivity]. destruct m as [|[] [|? ?]]; try reflexivity.
Qed.

Lemma gl_stat_funB s e sh i s' e' ni nt di n2 t2 r' m b :
  gl_stat gl (Node tStatFunction s e sh [Kw i; Node tFunctionName s' e' false (Lst (Tok ni nt :: Kw di :: Tok n2 t2 :: r') :: m); b]) = false.
Proof.
  unfold gl_stat, vfields, items_of. cbn [tag_of strip_paren visible filter is_hidden negb].
  destruct (negb (is_hidden b)); destruct (filter (fun x => negb (is_hidden x)) m) as [|? ?]; cbn [andb];
    try reflexivity; destruct (filter (fun x => negb (is_hidden x)) r'); rewrite ?andb_false_r; reflexivity.
Qed.

Lemma gl_stat_funC s e sh i s' e' ni nt r ci mi mt b :
  gl_stat gl (Node tStatFunction s e sh [Kw i; Node tFunctionName s' e' false (Lst (Tok ni nt :: r) :: [Kw ci; Tok mi mt]); b]) = false.
Proof.
  unfold gl_stat, vfields, items_of. cbn [tag_of strip_paren visible filter is_hidden negb].
  destruct (negb (is_hidden b)); cbn [andb]; destruct (filter (fun x => negb (is_hidden x)) r) as [|? [|? ?]];
    rewrite ?andb_false_r; try reflexivity; destruct t; rewrite ?andb_false_r; reflexivity.
Qed.

Lemma stat_ok_fun p i tf p0 p2 fnm b : p <= i -> [i] = sig ts p (i + 1) -> tok_at ts i = Some tf -> tfacts tf 1 true false false ->
  i + 1 <= p0 -> p0 < p2 -> FN fnm (seg (i + 1) p0) -> FB (seg p0 p2) -> sigb ts (p2 - 1) = true -> is_hidden b = false ->
  stat_ok (Node tStatFunction p p2 false [Kw i; fnm; b]) p p2.
Proof.
  intros Hpi Hsig Htok [Fd Ff Fl _] H1 H2 HFN HFB Htight Hb.
  destruct HFN as (s & e & ni & nt & r & m & rest & -> & Hrest & [Nd Nf Nl Nn] & Hpl & Hcases).
  pose proof HFB as (tp & body & te & Hbody & Hsym & [Pd Pf Pl Pn] & HWb & Fte).
  set (node := Node tStatFunction p p2 false [Kw i; Node tFunctionName s e false (Lst (Tok ni nt :: r) :: m); b]).
  assert (Eseg : seg (i + 1) p2 = (nt :: rest ++ tp :: body) ++ [te]).
  { rewrite (seg_app ts (i + 1) p0 p2), Hrest, Hbody by lia. cbn [app]. rewrite <- app_assoc. reflexivity. }
  assert (Eall : seg p p2 = tf :: (nt :: rest ++ tp :: body) ++ [te]).
  { rewrite (seg_app ts p (i + 1) p2), (seg_single ts p i tf Hsig Htok), Eseg by lia. reflexivity. }
  assert (HWmid : W (nt :: rest ++ tp :: body)).
  { change (nt :: rest ++ tp :: body) with ([nt] ++ rest ++ [tp] ++ body).
    eapply S_app; [apply S_tok; [exact Nf | exact Nl | lia]|]. rewrite Nd.
    eapply S_app; [apply S_plains; [exact Hpl | lia]|].
    eapply S_app; [apply S_tok; [exact Pf | exact Pl | lia]|]. rewrite Pd. apply (W_S_false gl body); [exact HWb | lia]. }
  (* the scan after `function`, at depth 1 *)
  assert (Hin : forall chk, S chk (0 + 1) ((nt :: rest ++ tp :: body) ++ [te]) 0).
  { intros chk. eapply S_app; [apply (W_S_deep gl _ chk (0 + 1) HWmid); lia|].
    destruct Fte as [Td Tf Tl _]. replace 0 with (0 + 1 + tdelta te) at 2 by lia. apply S_tok; [exact Tf | exact Tl | lia]. }
  exists tStatFunction, false, [Kw i; Node tFunctionName s e false (Lst (Tok ni nt :: r) :: m); b].
  split; [reflexivity|]. split; [|split].
  - rewrite Eall. apply S_fun_stat; [exact Ff | lia | left; reflexivity | apply Hin].
  - intros Hg. change (gl_stat gl node = false) in Hg. rewrite Eall. apply S_fun_stat; [exact Ff | lia | | apply Hin].
    right. right. unfold trig. rewrite Ff. cbn [andb app].
    destruct Hcases as [(-> & -> & ->)|((t2 & rest' & -> & Hns) & _)].
    + cbn [app]. unfold node in Hg. rewrite gl_stat_fun in Hg by exact Hb. rewrite Hg, andb_false_r. reflexivity.
    + cbn [app]. rewrite Hns, andb_false_r. reflexivity.
  - intros _. exists i, tf, (nt :: rest ++ tp :: body), te.
    split; [exact Hpi|]. split; [exact Hsig|]. split; [exact Htok|]. split; [exact Ff|]. split; [lia|]. split; [exact Eseg|].
    split; [exact HWmid|]. split; [exact Fte|]. split; [exact Htight|]. fold node. intros Hg.
    destruct Hcases as [(-> & -> & ->)|(_ & [(di & n2 & t2 & r' & ->)|(ci & mi & mt & ->)])].
    + unfold node in Hg. rewrite gl_stat_fun in Hg by exact Hb. exists nt, tp, body.
      split; [reflexivity|]. split; [exact Nn|]. split; [exact Hg | exact Hsym].
    + unfold node in Hg. rewrite gl_stat_funB in Hg. discriminate Hg.
    + unfold node in Hg. rewrite gl_stat_funC in Hg. discriminate Hg.
Qed.

Lemma S_nil_eq chk d d' : d = d' -> S chk d [] d'.
Proof. intros ->. apply S_nil. Qed.

End Defs.

(* ================================================================== specifications *)
Section S2.
Variable ts : list token.
Variables binops unops : list pat.
Variable gl : list (list Z).
Hypothesis Hbin : forallb pat_nontrivia binops = true.
Hypothesis Hun : forallb pat_nontrivia unops = true.
Hypothesis Hbinp : forallb pat_plain binops = true.
Hypothesis Hunp : forallb pat_plain unops = true.

Local Notation sig := (sig ts).
Local Notation seg := (seg ts).
Local Notation wf := (wf ts).
Local Notation wfl := (wfl ts).
Local Notation lim := (lim ts).
Local Notation tok_at := (tok_at ts).
Local Notation len := (zlen ts).
Local Notation W := (W gl).
Local Notation Q0 := (Q0 gl).
Local Notation S := (S gl).
Local Notation pre := (pre ts).
Local Notation G := (G ts).
Local Notation G' := (G' ts).
Local Notation postT := (postT ts).
Local Notation postP := (postP ts).
Local Notation postE := (postE ts).
Local Notation postL := (postL ts).
Local Notation postF := (postF ts).
Local Notation postFE := (postFE ts).
Local Notation postN := (postN ts).
Local Notation postV := (postV ts).
Local Notation postK := (postK ts).
Local Notation stat_ok := (stat_ok ts gl).
Local Notation tiles := (tiles ts gl).
Local Notation chunk_ok := (chunk_ok ts gl).
Local Notation fun_ok := (fun_ok ts gl).
Local Notation exposed := (exposed gl).
Local Notation FB := (FB gl).

(* the new postconditions *)
Definition nQ {A} (p : Z) : post A := fun _ p1 _ => Q0 (seg p p1).
Definition nQN (p : Z) : post tree := fun t p1 _ => Q0 (seg p p1) /\ (is_none t = false -> seg p p1 <> []).
Definition nFB (p : Z) : post tree := fun t p1 _ => is_none t = false -> FB (seg p p1) /\ sigb ts (p1 - 1) = true.
Definition nFN (p : Z) : post tree := fun t p1 _ => is_none t = false -> FN t (seg p p1).
Definition nFL (p : Z) : post (list tree) := fun l p1 _ =>
  forallb plain (seg p p1) = true /\
  ((l = [] /\ p1 = p) \/
   exists di n2 t2 r' td rest', l = Kw di :: Tok n2 t2 :: r' /\ seg p p1 = td :: rest' /\ is_sym "("%bs td = false).
Definition nS (p : Z) : post tree := fun t p1 _ => is_none t = false -> stat_ok t p p1.
Definition nSL (p : Z) : post (list tree) := fun l p1 _ => tiles l p p1.
Definition nC (p : Z) : post tree := fun t p1 _ => chunk_ok t p p1.
Definition nEI (p : Z) : post (list tree) := fun _ p1 _ => S true 1 (seg p p1) 1.
(* the rest of a statement whose keyword (token i, accepted from cursor pos) is passed in *)
Definition nK (pos : Z) : post tree := fun t p1 _ => stat_ok t pos p1.

Section Step.
Variable R : funs.
Variable k : Z.
Hypothesis H_exp : forall p mx, G k p -> pre p mx -> wpx (r_exp R) (postE p mx) p mx.
Hypothesis H_chunk : forall p mx, G k p -> pre p mx -> wpx (r_chunk R) (postT p mx) p mx.
Hypothesis H_semis : forall p mx, G k p -> pre p mx -> wpx (r_semis R) (postL p mx) p mx.
Hypothesis H_stats_loop : forall p mx, G k p -> pre p mx -> wpx (r_stats_loop R) (postL p mx) p mx.
Hypothesis H_namelist_loop : forall p mx, G k p -> pre p mx -> wpx (r_namelist_loop R) (postL p mx) p mx.
Hypothesis H_funcname_loop : forall p mx, G k p -> pre p mx -> wpx (r_funcname_loop R) (postL p mx) p mx.
Hypothesis H_explist_loop : forall p mx, G k p -> pre p mx -> wpx (r_explist_loop R) (postL p mx) p mx.
Hypothesis H_varlist_loop : forall p mx, G k p -> pre p mx -> wpx (r_varlist_loop R) (postL p mx) p mx.
Hypothesis H_fields_loop : forall p mx, G k p -> pre p mx -> wpx (r_fields_loop R) (postL p mx) p mx.
Hypothesis H_elseif_loop : forall p mx, G k p -> pre p mx -> wpx (r_elseif_loop R) (postL p mx) p mx.
Hypothesis H_precur : forall first p mx, G k p -> pre p mx -> wf p first -> is_hidden first = false ->
  wpx (r_precur R first) (postF first p mx) p mx.
Hypothesis H_binop : forall first p mx, G k p -> pre p mx -> wf p first -> end_ok first p -> exp_shape first ->
  wpx (r_binop R first) (postFE first p mx) p mx.

Hypothesis N_exp : forall p mx, G k p -> pre p mx -> wpx (r_exp R) (nQ p) p mx.
Hypothesis N_chunk : forall p mx, G k p -> pre p mx -> wpx (r_chunk R) (nC p) p mx.
Hypothesis N_semis : forall p mx, G k p -> pre p mx -> wpx (r_semis R) (nSL p) p mx.
Hypothesis N_stats_loop : forall p mx, G k p -> pre p mx -> wpx (r_stats_loop R) (nSL p) p mx.
Hypothesis N_namelist_loop : forall p mx, G k p -> pre p mx -> wpx (r_namelist_loop R) (nQ p) p mx.
Hypothesis N_funcname_loop : forall p mx, G k p -> pre p mx -> wpx (r_funcname_loop R) (nFL p) p mx.
Hypothesis N_explist_loop : forall p mx, G k p -> pre p mx -> wpx (r_explist_loop R) (nQ p) p mx.
Hypothesis N_varlist_loop : forall p mx, G k p -> pre p mx -> wpx (r_varlist_loop R) (nQ p) p mx.
Hypothesis N_fields_loop : forall p mx, G k p -> pre p mx -> wpx (r_fields_loop R) (nQ p) p mx.
Hypothesis N_elseif_loop : forall p mx, G k p -> pre p mx -> wpx (r_elseif_loop R) (nEI p) p mx.
Hypothesis N_precur : forall first p mx, G k p -> pre p mx -> wf p first -> is_hidden first = false ->
  wpx (r_precur R first) (nQ p) p mx.
Hypothesis N_binop : forall first p mx, G k p -> pre p mx -> wf p first -> end_ok first p -> exp_shape first ->
  wpx (r_binop R first) (nQ p) p mx.

(* ---------------------------------------------------------------- tactics (those of ParserSpecs.v, extended) *)
Ltac fence_trivial := let H := fresh in intros _ H; discriminate H.

Ltac wf_tac :=
  lazymatch goal with
  | |- ParserProofs.wf _ _ (Node _ _ _ false _) => apply wf_node; [lia | lia | wfl_tac | fence_trivial]
  | |- ParserProofs.wf _ _ (Lst _) => apply wf_lst; wfl_tac
  | |- ParserProofs.wf _ _ (Paren _ _ _) => cbn [ParserProofs.wf]; wf_tac
  | |- ParserProofs.wf _ _ (Hid _) => cbn [ParserProofs.wf]; wf_tac
  | |- True => exact I
  | |- ParserProofs.wf _ _ (Tok _ _) => exact I
  | |- ParserProofs.wf _ _ (Kw _) => exact I
  | |- ParserProofs.wf _ _ PNone => exact I
  | |- ParserProofs.wf _ _ (PBool _) => exact I
  | |- ParserProofs.wf _ _ (PBytes _) => exact I
  | |- ParserProofs.wf _ _ (opt_tok ?n) => destruct n as [[? ?]|]; exact I
  | |- ParserProofs.wf _ _ (if ?b then _ else _) => destruct b; wf_tac
  | |- ParserProofs.wf _ _ _ => first [eassumption | eapply wf_mono; [eassumption | lia]]
  end
with wfl_tac :=
  lazymatch goal with
  | |- ParserProofs.wfl _ _ [] => exact I
  | |- ParserProofs.wfl _ _ (_ :: _) => apply wfl_cons; [wf_tac | wfl_tac]
  | |- ParserProofs.wfl _ _ (_ ++ _) => apply wfl_app; [wfl_tac | wfl_tac]
  | |- ParserProofs.wfl _ _ (hid_list _) => apply hid_wfl; wf_tac
  | |- ParserProofs.wfl _ _ (if ?b then _ else _) => destruct b; wfl_tac
  | |- ParserProofs.wfl _ _ _ => first [eassumption | eapply wfl_mono; [eassumption | lia]]
  end.

Ltac end_tac :=
  let ee := fresh in let H := fresh in
  first [ assumption
        | apply is_none_end_ok; first [ assumption | apply negb_false_iff; assumption ]
        | intros ee H; first [ cbn [end_of strip_paren] in H; injection H as <-; reflexivity | discriminate H ] ].

Ltac hidden_tac :=
  first [ reflexivity | assumption | apply exp_shape_not_hidden; assumption
        | match goal with |- is_hidden (opt_tok ?n) = false => destruct n as [[? ?]|]; reflexivity end ].

Ltac shape_tac :=
  first [ assumption
        | apply is_none_exp_shape; first [ assumption | apply negb_false_iff; assumption ]
        | cbn [exp_shape]; let H := fresh in intros H;
          first [ discriminate H
                | vm_compute in H; discriminate H
                | lazymatch goal with
                  | |- exists hs v, [?a; ?b] = _ /\ _ => exists [a], b; repeat split; reflexivity
                  | |- exists hs v, [?a] = _ /\ _ => exists [], a; repeat split; hidden_tac
                  | |- exists hs v, hid_list ?p ++ [?t] = _ /\ _ =>
                      exists (hid_list p), t; split; [reflexivity | split; [apply hid_list_hidden | hidden_tac]]
                  end ] ].

Ltac prog_facts :=
  repeat match goal with
         | H : true = false -> _ |- _ => clear H
         | H : false = true -> _ |- _ => clear H
         | H : false = false -> _ |- _ => specialize (H eq_refl)
         | E : is_none ?a = false, Hn : is_none ?a = false -> _ |- _ => specialize (Hn E)
         | E : negb (is_none ?a) = true, Hn : is_none ?a = false -> _ |- _ =>
             let E' := fresh in pose proof (proj1 (negb_true_iff _) E) as E'; specialize (Hn E')
         | H : _ = _ /\ _ < _ |- _ => destruct H
         | H : ParserExtent2.FB _ _ /\ _ |- _ => let Ht := fresh "Htight" in destruct H as [H Ht]
         end.

Ltac side :=
  prog_facts; cbn [ParserProofs.lim] in *;
  lazymatch goal with
  | |- ParserSpecs.G _ _ _ => unfold ParserSpecs.G, ParserSpecs.G' in *; lia
  | |- ParserSpecs.G' _ _ _ => unfold ParserSpecs.G, ParserSpecs.G' in *; lia
  | |- ParserSpecs.pre _ _ _ => unfold ParserSpecs.pre, fence_wf; cbn [ParserProofs.lim]; repeat split; first [lia | assumption]
  | |- ParserProofs.wf _ _ _ => wf_tac
  | |- end_ok _ _ => first [assumption | end_tac]
  | |- exp_shape _ => shape_tac
  | |- is_hidden _ = false => hidden_tac
  | |- ParserExtent1.seg _ _ _ = [_] => eassumption
  | |- tfacts _ _ _ _ _ => eassumption
  | |- _ => first [lia | assumption]
  end.

Ltac open_post H :=
  unfold ParserSpecs.postT, ParserSpecs.postP, ParserSpecs.postE, ParserSpecs.postL, ParserSpecs.postF, ParserSpecs.postFE,
         ParserSpecs.postN, ParserSpecs.postV, ParserSpecs.postK, frame in H;
  cbn [ParserProofs.lim] in H;
  let Hm := fresh "Hm" in destruct H as ((Hm & ? & ? & ?) & H);
  match type of Hm with ?v = _ => subst v end;
  repeat match type of H with _ /\ _ => let H1 := fresh "Hp" in destruct H as [H1 H] end.

(* the new postcondition of a call: unfold it; a chunk result yields its balance facts *)
Ltac open_new H :=
  unfold nQ, nQN, nFB, nFN, nFL, nS, nSL, nC, nEI, nK in H;
  try match type of H with
      | ParserExtent1.Q0 _ _ /\ (_ -> _ <> []) => let Hne := fresh "Hne" in destruct H as [H Hne]
      end;
  try match type of H with
      | ParserExtent2.chunk_ok _ _ ?t ?a ?b =>
          let H1 := fresh "Hck" in pose proof (chunk_ok_W ts gl t a b H) as H1;
          let Hle := fresh "Hcle" in let Hw := fresh "HcW" in let Hq := fresh "HcQ" in destruct H1 as (Hle & Hw & Hq)
      end.

Ltac none_facts :=
  repeat match goal with
         | H : true = false -> _ |- _ => clear H
         | H : false = true -> _ |- _ => clear H
         | H : ?x = ?x -> ?a = PNone /\ ?q = _ |- _ => is_var a; is_var q; destruct (H eq_refl) as [-> ->]; clear H
         | H : ?x = ?x -> ?a = PNone |- _ => is_var a; rewrite (H eq_refl) in *; clear H
         | E : negb (is_none ?a) = false, Hn : is_none ?a = true -> _ /\ _ |- _ =>
             let E' := fresh in pose proof (proj1 (negb_false_iff _) E) as E'; destruct (Hn E') as [-> ->]; clear Hn
         | E : is_none ?a = true, Hn : is_none ?a = true -> _ /\ _ |- _ =>
             destruct (Hn E) as [-> ->]; clear Hn
         | E : negb (is_none ?a) = false, Hn : is_none ?a = true -> ?a = PNone |- _ =>
             let E' := fresh in pose proof (proj1 (negb_false_iff _) E) as E'; rewrite (Hn E') in *; clear Hn
         | E : is_none ?a = true, Hn : is_none ?a = true -> ?a = PNone |- _ =>
             rewrite (Hn E) in *; clear Hn
         end.

(* both specifications of the computation at the head *)
Ltac call2 Lold Lnew :=
  eapply wpx_conseq;
  [ apply wpx_conj; [ eapply Lold; side | eapply Lnew; side ]
  | cbv beta; let H := fresh "Hpost" in let HN := fresh "HN" in intros ? ? ? [H HN]; open_post H; open_new HN ].

Ltac old L :=
  first [ eapply (L ts binops unops R k H_exp H_chunk H_semis H_stats_loop H_namelist_loop H_funcname_loop
                    H_explist_loop H_varlist_loop H_fields_loop H_elseif_loop H_precur H_binop)
        | eapply (L ts binops unops Hbin Hun R k H_exp H_chunk H_semis H_stats_loop H_namelist_loop H_funcname_loop
                    H_explist_loop H_varlist_loop H_fields_loop H_elseif_loop H_precur H_binop)
        | eapply (L ts binops unops Hun R k H_exp H_chunk H_semis H_stats_loop H_namelist_loop H_funcname_loop
                    H_explist_loop H_varlist_loop H_fields_loop H_elseif_loop H_precur H_binop) ].

Ltac callk Lold Lnew :=
  eapply wpx_conseq;
  [ apply wpx_conj; [ old Lold; side | eapply Lnew; side ]
  | cbv beta; let H := fresh "Hpost" in let HN := fresh "HN" in intros ? ? ? [H HN]; open_post H; open_new HN ].

Ltac call_known := fail "no specification for this call".

(* what an accepted token is *)
Ltac tok_facts Hm :=
  let F := fresh "F" in
  lazymatch type of Hm with
  | matches ?t (pkw ?d) = true => pose proof (facts_kw t d Hm) as F; vm_compute in F
  | matches ?t (psym ?d) = true =>
      pose proof (facts_sym t d Hm) as F;
      let Y := fresh "Y" in pose proof (is_sym_paren_of_sym t d _ Hm ltac:(vm_compute; reflexivity)) as Y
  | matches ?t (PClass ?c) = true => pose proof (facts_class t c Hm ltac:(discriminate)) as F; cbn [kclass_eqb] in F
  | existsb (matches ?t) binops = true =>
      let P := fresh "P" in pose proof (existsb_matches_plain t binops Hbinp Hm) as P
  | existsb (matches ?t) unops = true =>
      let P := fresh "P" in pose proof (existsb_matches_plain t unops Hunp Hm) as P
  | existsb (matches ?t) ?ps = true =>
      let P := fresh "P" in
      assert (P : plain t = true) by (apply (existsb_matches_plain t ps); [reflexivity | exact Hm])
  end.

Ltac acc_intro :=
  let i := fresh "i" in let t := fresh "t" in let Hm := fresh "Hm" in let Hs := fresh "Hsig" in let Ht := fresh "Htok" in
  intros i t ? ? ? Hs Ht Hm;
  let Hseg := fresh "Hseg" in pose proof (seg_single ts _ i t Hs Ht) as Hseg;
  tok_facts Hm.

Ltac wprim :=
  lazymatch goal with
  | |- wpx (bindM _ _) _ _ _ => apply wpx_bind
  | |- wpx (ret _) _ _ _ => apply wpx_ret
  | |- wpx (raise _) _ _ _ => apply wpx_raise; discriminate
  | |- wpx get_pos _ _ _ => apply wpx_get_pos
  | |- wpx (set_pos _) _ _ _ => apply wpx_set_pos
  | |- wpx get_max _ _ _ => apply wpx_get_max
  | |- wpx (set_max _) _ _ _ => apply wpx_set_max
  | |- wpx (mk _ _ _) _ _ _ => apply wpx_mk
  | |- wpx (assert_node _) _ _ _ => apply wpx_assert; intros ?; prog_facts
  | |- wpx (accept _ _) _ _ _ => apply (wpx_accept ts); [reflexivity | lia | | acc_intro]
  | |- wpx (expect _ _) _ _ _ => apply (wpx_expect ts); [reflexivity | lia | acc_intro]
  | |- wpx (accept_first _ _) _ _ _ =>
      apply (wpx_accept_first_m ts); [first [exact Hbin | exact Hun | reflexivity] | lia | | acc_intro]
  | |- wpx (r_exp R) _ _ _ => call2 H_exp N_exp
  | |- wpx (r_chunk R) _ _ _ => call2 H_chunk N_chunk
  | |- wpx (r_semis R) _ _ _ => call2 H_semis N_semis
  | |- wpx (r_stats_loop R) _ _ _ => call2 H_stats_loop N_stats_loop
  | |- wpx (r_namelist_loop R) _ _ _ => call2 H_namelist_loop N_namelist_loop
  | |- wpx (r_funcname_loop R) _ _ _ => call2 H_funcname_loop N_funcname_loop
  | |- wpx (r_explist_loop R) _ _ _ => call2 H_explist_loop N_explist_loop
  | |- wpx (r_varlist_loop R) _ _ _ => call2 H_varlist_loop N_varlist_loop
  | |- wpx (r_fields_loop R) _ _ _ => call2 H_fields_loop N_fields_loop
  | |- wpx (r_elseif_loop R) _ _ _ => call2 H_elseif_loop N_elseif_loop
  | |- wpx (r_precur R _) _ _ _ => call2 H_precur N_precur
  | |- wpx (r_binop R _) _ _ _ => call2 H_binop N_binop
  | |- wpx (if ?b then _ else _) _ _ _ => let E := fresh "E" in destruct b eqn:E; none_facts; prog_facts
  | |- wpx (match (if ?b then _ else _) with _ => _ end) _ _ _ =>
      let E := fresh "E" in destruct b eqn:E; none_facts; prog_facts
  | |- wpx (match ?x with _ => _ end) _ _ _ =>
      first [ is_var x; destruct x | let E := fresh "E" in destruct x eqn:E ]
  | |- wpx _ _ _ _ => call_known
  end; cbv beta match zeta.

(* S chk d (seg a b) d' from the pieces in the context: tokens, Q0 / W segments, the elseif chain *)
Ltac seg_solve :=
  lazymatch goal with
  | |- ParserExtent1.S _ ?chk ?d (ParserExtent1.seg _ ?a ?b) ?d' =>
     first
     [ rewrite (seg_nil ts a b) by lia; apply S_nil_eq; lia
     | match goal with
       | Hs : ParserExtent1.seg _ a ?c = [?t], F : tfacts ?t ?dl false false _ |- _ =>
           rewrite (seg_app ts a c b) by lia; rewrite Hs; cbn [app]; clear Hs;
           apply (S_cons_tok gl chk d t dl);
           [exact (tf_delta _ _ _ _ _ F) | exact (tf_fun _ _ _ _ _ F) | exact (tf_loc _ _ _ _ _ F) | lia | seg_solve]
       | Hs : ParserExtent1.seg _ a ?c = [?t], P : plain ?t = true |- _ =>
           rewrite (seg_app ts a c b) by lia; rewrite Hs; clear Hs;
           eapply S_app; [apply S_plain; [exact P | lia] | seg_solve]
       | HQ : ParserExtent1.Q0 _ (ParserExtent1.seg _ a ?c) |- _ =>
           rewrite (seg_app ts a c b) by lia; apply S_app_Q0; [exact HQ | lia | clear HQ; seg_solve]
       | HW : ParserExtent1.W _ (ParserExtent1.seg _ a ?c) |- _ =>
           rewrite (seg_app ts a c b) by lia;
           apply S_app_W; [exact HW | first [left; split; [reflexivity | lia] | right; lia] | clear HW; seg_solve]
       | HE : ParserExtent1.S _ true 1 (ParserExtent1.seg _ a ?c) 1 |- _ =>
           rewrite (seg_app ts a c b) by lia;
           eapply S_app; [first [exact HE | apply S_weaken; exact HE] | clear HE; seg_solve]
       | HF : ParserExtent2.FB _ (ParserExtent1.seg _ a ?c) |- _ =>
           rewrite (seg_app ts a c b) by lia;
           eapply S_app; [apply (FB_S' gl chk d); [exact HF | lia | reflexivity] | clear HF; seg_solve]
       end ]
  end.

Ltac done_tac :=
  unfold nQ, nEI;
  lazymatch goal with
  | |- ParserExtent1.Q0 _ _ => unfold ParserExtent1.Q0; solve [seg_solve]
  | |- ParserExtent1.S _ _ _ _ _ => solve [seg_solve]
  | |- _ => idtac
  end.

Ltac wp := repeat wprim; try done_tac.

(* ( ... ) block end *)
Ltac fb_tac p :=
  intros _;
  match goal with
  | Hs : ParserExtent1.seg _ p ?c = [?tp], Y : is_sym _ ?tp = true, Hs' : ParserExtent1.seg _ ?pe ?c' = [?te], F' : tfacts ?te (-1) false false false |- _ =>
      split;
      [ eapply (FB_intro ts gl p c tp pe c' te);
        [exact Hs | exact Y | assumption | lia | lia | lia | exact Hs' | exact F' | clear Hs Hs'; unfold ParserExtent1.W; solve [seg_solve]]
      | match c' with ?ie + 1 => replace (ie + 1 - 1) with ie by lia; eapply sig_single_sigb; eassumption end ]
  end.
Ltac start := let HG := fresh "HG" in intros HG (Hp0 & Hp1 & Hp2 & Hfw).

Lemma semis_ext p mx : G' k p -> pre p mx -> wpx (semis_def ts R) (nSL p) p mx.
Proof.
  start. unfold semis_def. wp.
  - unfold nSL. cbn [ParserExtent2.tiles]. reflexivity.
  - unfold nSL in *. cbn [ParserExtent2.tiles]. split; [lia|]. split; [assumption|]. split; [eexists; split; eassumption | assumption].
Qed.

Ltac ck1 := callk semis_spec semis_ext.
Ltac call_known ::= ck1.

Lemma namelist_loop_ext p mx : G' k p -> pre p mx -> wpx (namelist_loop_def ts R) (nQ p) p mx.
Proof. start. unfold namelist_loop_def. wp. Qed.
Ltac ck2 := first [ck1 | callk namelist_loop_spec namelist_loop_ext].
Ltac call_known ::= ck2.

Lemma namelist_ext p mx : G' k p -> pre p mx -> wpx (namelist_def ts R) (nQN p) p mx.
Proof.
  start. unfold namelist_def. wp.
  - unfold nQN. split; [unfold ParserExtent1.Q0; solve [seg_solve] | intros H; discriminate H].
  - unfold nQN. split; [unfold ParserExtent1.Q0; solve [seg_solve]|]. intros _.
    rewrite (seg_app ts p (i + 1) p1), Hseg by lia. discriminate.
Qed.
Ltac ck3 := first [ck2 | callk namelist_spec namelist_ext].
Ltac call_known ::= ck3.

Lemma explist_loop_ext p mx : G' k p -> pre p mx -> wpx (explist_loop_def ts R) (nQ p) p mx.
Proof. start. unfold explist_loop_def. wp. Qed.
Ltac ck6 := first [ck3 | callk explist_loop_spec explist_loop_ext].
Ltac call_known ::= ck6.

Lemma explist_ext p mx : G k p -> pre p mx -> wpx (explist_def ts R) (nQ p) p mx.
Proof. start. unfold explist_def. wp. Qed.
Ltac ck7 := first [ck6 | callk explist_spec explist_ext].
Ltac call_known ::= ck7.

Lemma funcname_loop_ext p mx : G' k p -> pre p mx -> wpx (funcname_loop_def ts R) (nFL p) p mx.
Proof.
  start. unfold funcname_loop_def. wp.
  - unfold nFL. rewrite seg_nil by lia. split; [reflexivity | left; split; [reflexivity | lia]].
  - unfold nFL in *. destruct HN as [HNp _].
    rewrite (seg_app ts p (i + 1) p1), (seg_app ts (i + 1) (i0 + 1) p1), Hseg, Hseg0 by lia. cbn [app forallb]. split.
    + rewrite (tfacts_plain _ _ F), (tfacts_plain _ _ F0), HNp. reflexivity.
    + right. exists i, i0, t0, a, t, (t0 :: seg (i0 + 1) p1). split; [reflexivity|]. split; [reflexivity | exact Y].
Qed.
Ltac ck4 := first [ck7 | callk funcname_loop_spec funcname_loop_ext].
Ltac call_known ::= ck4.

Lemma funcname_ext p mx : G' k p -> pre p mx -> wpx (funcname_def ts R) (nFN p) p mx.
Proof.
  start. unfold funcname_def. wp.
  - intros H; discriminate H.
  - intros _. destruct HN as [HNp HNs]. rewrite (seg_app ts p (i + 1) p1), Hseg by lia. cbn [app].
    exists p, p1, i, t, a, [PNone], (seg (i + 1) p1). split; [reflexivity|]. split; [reflexivity|]. split; [exact F|]. split; [exact HNp|].
    destruct HNs as [[-> ->]|(di & n2 & t2 & r' & td & rest' & -> & Hs & Hy)].
    + left. rewrite seg_nil by lia. repeat split; reflexivity.
    + right. split; [exists td, rest'; split; assumption | left; eexists _, _, _, _; reflexivity].
  - intros _. destruct HN as [HNp HNs].
    rewrite (seg_app ts p (i + 1) (i1 + 1)), (seg_app ts (i + 1) p1 (i1 + 1)), (seg_app ts p1 (i0 + 1) (i1 + 1)), Hseg, Hseg0, Hseg1 by lia.
    cbn [app].
    exists p, (i1 + 1), i, t, a, [Kw i0; Tok i1 t1], (seg (i + 1) p1 ++ [t0; t1]).
    split; [reflexivity|]. split; [reflexivity|]. split; [exact F|].
    split; [rewrite forallb_app, HNp; cbn [forallb]; rewrite (tfacts_plain _ _ F0), (tfacts_plain _ _ F1); reflexivity|].
    right. split; [|right; eexists _, _, _; reflexivity].
    destruct HNs as [[-> ->]|(di & n2 & t2 & r' & td & rest' & -> & Hs & Hy)].
    + rewrite seg_nil by lia. exists t0, [t1]. split; [reflexivity | exact Y].
    + rewrite Hs. exists td, (rest' ++ [t0; t1]). split; [reflexivity | exact Hy].
Qed.
Ltac ck5 := first [ck4 | callk funcname_spec funcname_ext].
Ltac call_known ::= ck5.

Lemma field_ext p mx : G k p -> pre p mx -> wpx (field_def ts R) (nQ p) p mx.
Proof. start. unfold field_def. wp. Qed.
Ltac ck8 := first [ck5 | callk field_spec field_ext].
Ltac call_known ::= ck8.

Lemma fields_loop_ext p mx : G' k p -> pre p mx -> wpx (fields_loop_def ts R) (nQ p) p mx.
Proof. start. unfold fields_loop_def. wp. Qed.
Ltac ck9 := first [ck8 | callk fields_loop_spec fields_loop_ext].
Ltac call_known ::= ck9.

Lemma tableconstructor_ext p mx : G' k p -> pre p mx -> wpx (tableconstructor_def ts R) (nQ p) p mx.
Proof. start. unfold tableconstructor_def. wp. Qed.
Ltac ck10 := first [ck9 | callk tableconstructor_spec tableconstructor_ext].
Ltac call_known ::= ck10.

Lemma args_ext p mx : G' k p -> pre p mx -> wpx (args_def ts R) (nQ p) p mx.
Proof. start. unfold args_def. wp. Qed.
Ltac ck11 := first [ck10 | callk args_spec args_ext].
Ltac call_known ::= ck11.

Lemma funcbody_ext p mx : G' k p -> pre p mx -> wpx (funcbody_def ts R) (nFB p) p mx.
Proof.
  start. unfold funcbody_def. wp.
  - intros H; discriminate H.
  - fb_tac p.
  - fb_tac p.
  - fb_tac p.
  - fb_tac p.
Qed.
Ltac ck12 := first [ck11 | callk funcbody_spec funcbody_ext].
Ltac call_known ::= ck12.

Lemma function_ext p mx : G' k p -> pre p mx -> wpx (function_def ts R) (nQ p) p mx.
Proof.
  start. unfold function_def. wp.
  unfold nQ, ParserExtent1.Q0. rewrite (seg_app ts p (i + 1) p1), Hseg by lia. apply S_fun_FB; [exact (tf_fun _ _ _ _ _ F) | exact HN | lia].
Qed.
Ltac ck13 := first [ck12 | callk function_spec function_ext].
Ltac call_known ::= ck13.

Lemma precur_ext first p mx : G' k p -> pre p mx -> wf p first -> is_hidden first = false ->
  wpx (precur_def ts R first) (nQ p) p mx.
Proof. start. intros Hwf Hnh. unfold precur_def. wp. Qed.
Ltac ck14 := first [ck13 | callk precur_spec precur_ext].
Ltac call_known ::= ck14.

Lemma prefixexp_ext p mx : G' k p -> pre p mx -> wpx (prefixexp_def ts R) (nQ p) p mx.
Proof. start. unfold prefixexp_def. wp. Qed.
Ltac ck15 := first [ck14 | callk prefixexp_spec prefixexp_ext].
Ltac call_known ::= ck15.

Lemma exp_term_ext p mx : G' k p -> pre p mx -> wpx (exp_term_def ts unops R) (nQ p) p mx.
Proof. start. unfold exp_term_def. wp. Qed.
Ltac ck16 := first [ck15 | callk exp_term_spec exp_term_ext].
Ltac call_known ::= ck16.

Lemma binop_ext first p mx : G' k p -> pre p mx -> wf p first -> end_ok first p -> exp_shape first ->
  wpx (binop_def ts binops unops R first) (nQ p) p mx.
Proof. start. intros Hwf Hend Hshape. unfold binop_def. wp. Qed.
Ltac ck17 := first [ck16 | callk binop_spec binop_ext].
Ltac call_known ::= ck17.

Lemma exp_ext p mx : G' k p -> pre p mx -> wpx (exp_def ts binops unops R) (nQ p) p mx.
Proof. start. unfold exp_def. wp. Qed.
Ltac ck18 := first [ck17 | callk exp_spec exp_ext].
Ltac call_known ::= ck18.

Lemma var_ext p mx : G' k p -> pre p mx -> wpx (var_def ts R) (nQ p) p mx.
Proof. start. unfold var_def. wp. Qed.
Ltac ck19 := first [ck18 | callk var_spec var_ext].
Ltac call_known ::= ck19.

Lemma varlist_loop_ext p mx : G' k p -> pre p mx -> wpx (varlist_loop_def ts R) (nQ p) p mx.
Proof. start. unfold varlist_loop_def. wp. Qed.
Ltac ck20 := first [ck19 | callk varlist_loop_spec varlist_loop_ext].
Ltac call_known ::= ck20.

Lemma varlist_ext p mx : G' k p -> pre p mx -> wpx (varlist_def ts R) (nQ p) p mx.
Proof. start. unfold varlist_def. wp. Qed.
Ltac ck21 := first [ck20 | callk varlist_spec varlist_ext].
Ltac call_known ::= ck21.

Lemma functioncall_ext p mx : G' k p -> pre p mx -> wpx (functioncall_def ts R) (nQ p) p mx.
Proof. start. unfold functioncall_def. wp. Qed.
Ltac ck22 := first [ck21 | callk functioncall_spec functioncall_ext].
Ltac call_known ::= ck22.

Lemma elseif_loop_ext p mx : G' k p -> pre p mx -> wpx (elseif_loop_def ts R) (nEI p) p mx.
Proof. start. unfold elseif_loop_def. wp. Qed.
Ltac ck23 := first [ck22 | callk elseif_loop_spec elseif_loop_ext].
Ltac call_known ::= ck23.

Ltac stat_tac :=
  unfold nK, nS; try (intros _);
  apply stat_ok_Q0; [unfold ParserExtent1.Q0; solve [seg_solve] | discriminate | reflexivity | reflexivity].

Lemma for_ext pos fi tf p mx : G' k p -> pre p mx -> pos <= fi -> fi + 1 = p -> seg pos p = [tf] -> tfacts tf 0 false false false ->
  wpx (for_def ts R pos fi) (nK pos) p mx.
Proof. start. intros Hpos Hfi Hsf Ff. unfold for_def. wp; stat_tac. Qed.

Lemma laststat_ext p mx : G' k p -> pre p mx -> wpx (laststat_def ts R) (nS p) p mx.
Proof.
  start. unfold laststat_def. wp; try stat_tac.
  intros H; discriminate H.
Qed.
Ltac ck24 := first [ck23 | callk laststat_spec laststat_ext].
Ltac call_known ::= ck24.

Lemma local_ext pos li tl p mx : G' k p -> pre p mx -> pos <= li -> li + 1 = p -> seg pos p = [tl] -> tfacts tl 0 false true false ->
  wpx (local_def ts R pos li) (nK pos) p mx.
Proof.
  start. intros Hpos Hli Hsl Fl. unfold local_def. wp.
  - unfold nK. apply stat_ok_Q0; [|discriminate | reflexivity | reflexivity]. unfold ParserExtent1.Q0.
    rewrite (seg_app ts pos p p1), Hsl by lia. apply S_local_ne; [exact (tf_loc _ _ _ _ _ Fl) | lia | exact Hne | solve [seg_solve]].
  - unfold nK. apply stat_ok_Q0; [|discriminate | reflexivity | reflexivity]. unfold ParserExtent1.Q0.
    rewrite (seg_app ts pos p p0), Hsl by lia.
    apply S_local_ne; [exact (tf_loc _ _ _ _ _ Fl) | lia | apply (seg_ne_app ts p p1 p0); [lia | lia | exact Hne] | solve [seg_solve]].
  - unfold nK. apply stat_ok_Q0; [|discriminate | reflexivity | reflexivity]. unfold ParserExtent1.Q0.
    rewrite (seg_app ts pos p p1), Hsl, (seg_app ts p (i + 1) p1), Hseg by lia. cbn [app].
    apply S_local_fun; [exact (tf_loc _ _ _ _ _ Fl) | exact (tf_fun _ _ _ _ _ F) | lia | solve [seg_solve]].
Qed.

Lemma if_ext pos ii ti p mx : G k p -> pre p mx -> pos <= ii -> ii + 1 = p -> seg pos p = [ti] -> tfacts ti 0 false false false ->
  wpx (if_def ts R pos ii) (nK pos) p mx.
Proof.
  start. intros Hpos Hii Hsi Fi. unfold if_def. wp; try stat_tac.
  assert (z = p1) by (apply Hp4; exact E). subst z.
  destruct (next_newline_spec ts p1) as (Hn1 & Hn2 & _); [lia|].
  assert (Hnn : next_newline ts p1 <= lim mx).
  { destruct mx as [f|]; cbn [ParserProofs.lim] in *; [|lia]. destruct Hfw as [Hf1 Hf2].
    apply next_newline_le; [lia | exact Hf1 | exact Hf2]. }
  change (newline_after ts p1) with (next_newline ts p1).
  remember (next_newline ts p1) as nn eqn:Enn.
  wp.
  all: unfold nK; apply stat_ok_if_short.
  - unfold ParserExtent1.W. solve [seg_solve].
  - intros Hx1 _. specialize (HcQ Hx1). unfold ParserExtent1.Q0. solve [seg_solve].
  - unfold ParserExtent1.W. solve [seg_solve].
  - intros Hx1 Hx2. specialize (HcQ Hx1).
    assert (Hx3 : exposed a1 = false).
    { destruct (chunk_has_stats a1); cbn [ParserExtent2.exl existsb ParserExtent2.exposed] in Hx2; rewrite ?exposed_lst in Hx2;
        cbn [ParserExtent2.exl existsb ParserExtent2.exposed] in Hx2; rewrite ?orb_false_r in Hx2; exact Hx2. }
    specialize (HcQ0 Hx3). unfold ParserExtent1.Q0. solve [seg_solve].
Qed.
Ltac ck25 := first [ck24 | callk if_spec if_ext | callk for_spec for_ext | callk local_spec local_ext].
Ltac call_known ::= ck25.

Lemma stat_ext p mx : G' k p -> pre p mx -> wpx (stat_def ts R) (nS p) p mx.
Proof.
  start. unfold stat_def, assign_ops. wp; try stat_tac; try (unfold nS; intros _; match goal with HS : ParserExtent2.stat_ok _ _ _ _ _ |- _ => exact HS end).
  all: try (unfold nS; intros HH; discriminate HH).
  all: intros _; eapply (stat_ok_fun ts gl p); try eassumption; lia.
Qed.
Ltac ck26 := first [ck25 | callk stat_spec stat_ext].
Ltac call_known ::= ck26.

Lemma stats_loop_ext p mx : G' k p -> pre p mx -> wpx (stats_loop_def ts R) (nSL p) p mx.
Proof.
  start. unfold stats_loop_def. wp.
  - exact HN.
  - unfold nSL in *. eapply tiles_app; [exact HN|]. eapply tiles_cons_stat; [stat_tac | lia | eassumption].
  - unfold nSL in *. eapply tiles_app; [exact HN|]. eapply tiles_cons_stat; [eassumption | lia | eassumption].
Qed.
Ltac ck27 := first [ck26 | callk stats_loop_spec stats_loop_ext].
Ltac call_known ::= ck27.

Lemma chunk_ext p mx : G' k p -> pre p mx -> wpx (chunk_def ts R) (nC p) p mx.
Proof.
  start. unfold chunk_def. wp.
  unfold nC, nSL in *. eexists. split; [reflexivity|].
  eapply tiles_app; [exact HN|]. eapply tiles_app; [exact HN0|].
  destruct (is_none a1) eqn:En.
  - destruct (Hp7 eq_refl) as [-> ->]. exact HN2.
  - cbn [app]. eapply tiles_cons_stat; [apply HN1; reflexivity | apply Hpost1; reflexivity | exact HN2].
Qed.

End Step.

(* ---------------------------------------------------------------- induction over the fuel levels *)
Definition specs2 (k : Z) (R : funs) : Prop :=
  (forall p mx, len - p < k -> pre p mx -> wpx (r_exp R) (nQ p) p mx) /\
  (forall p mx, len - p < k -> pre p mx -> wpx (r_chunk R) (nC p) p mx) /\
  (forall p mx, len - p < k -> pre p mx -> wpx (r_semis R) (nSL p) p mx) /\
  (forall p mx, len - p < k -> pre p mx -> wpx (r_stats_loop R) (nSL p) p mx) /\
  (forall p mx, len - p < k -> pre p mx -> wpx (r_namelist_loop R) (nQ p) p mx) /\
  (forall p mx, len - p < k -> pre p mx -> wpx (r_funcname_loop R) (nFL p) p mx) /\
  (forall p mx, len - p < k -> pre p mx -> wpx (r_explist_loop R) (nQ p) p mx) /\
  (forall p mx, len - p < k -> pre p mx -> wpx (r_varlist_loop R) (nQ p) p mx) /\
  (forall p mx, len - p < k -> pre p mx -> wpx (r_fields_loop R) (nQ p) p mx) /\
  (forall p mx, len - p < k -> pre p mx -> wpx (r_elseif_loop R) (nEI p) p mx) /\
  (forall first p mx, len - p < k -> pre p mx -> wf p first -> is_hidden first = false -> wpx (r_precur R first) (nQ p) p mx) /\
  (forall first p mx, len - p < k -> pre p mx -> wf p first -> end_ok first p -> exp_shape first ->
     wpx (r_binop R first) (nQ p) p mx).

Lemma specs2_bottom : specs2 0 bottom.
Proof.
  unfold specs2. repeat split; intros; exfalso;
    match goal with H : ParserSpecs.pre _ _ _ |- _ => destruct H as (? & ? & _) end; lia.
Qed.

Lemma specs2_step k R : specs ts k R -> specs2 k R -> specs2 (k + 1) (step ts binops unops R).
Proof.
  intros (H1 & H2 & H3 & H4 & H5 & H6 & H7 & H8 & H9 & H10 & H11 & H12)
         (N1 & N2 & N3 & N4 & N5 & N6 & N7 & N8 & N9 & N10 & N11 & N12).
  unfold specs2. cbn [step r_exp r_chunk r_semis r_stats_loop r_namelist_loop r_funcname_loop r_explist_loop
                      r_varlist_loop r_fields_loop r_elseif_loop r_precur r_binop].
  repeat split; intros.
  - eapply (exp_ext R k); try eassumption. unfold ParserSpecs.G'. lia.
  - eapply (chunk_ext R k); try eassumption. unfold ParserSpecs.G'. lia.
  - eapply (semis_ext R k); try eassumption. unfold ParserSpecs.G'. lia.
  - eapply (stats_loop_ext R k); try eassumption. unfold ParserSpecs.G'. lia.
  - eapply (namelist_loop_ext R k); try eassumption. unfold ParserSpecs.G'. lia.
  - eapply (funcname_loop_ext R k); try eassumption. unfold ParserSpecs.G'. lia.
  - eapply (explist_loop_ext R k); try eassumption. unfold ParserSpecs.G'. lia.
  - eapply (varlist_loop_ext R k); try eassumption. unfold ParserSpecs.G'. lia.
  - eapply (fields_loop_ext R k); try eassumption. unfold ParserSpecs.G'. lia.
  - eapply (elseif_loop_ext R k); try eassumption. unfold ParserSpecs.G'. lia.
  - eapply (precur_ext R k); try eassumption. unfold ParserSpecs.G'. lia.
  - eapply (binop_ext R k); try eassumption. unfold ParserSpecs.G'. lia.
Qed.

Lemma specs2_level n : specs2 (Z.of_nat n) (level ts binops unops n).
Proof.
  induction n as [|n IH]; [exact specs2_bottom|].
  replace (Z.of_nat (Datatypes.S n)) with (Z.of_nat n + 1) by lia. cbn [level]. apply specs2_step; [|exact IH].
  apply specs_level; assumption.
Qed.

(* the whole parse: the root is a chunk whose items are laid end to end from 0 to the final cursor *)
Lemma parse_extent root e : parse ts binops unops = Ok (root, e) -> chunk_ok root 0 e.
Proof.
  unfold parse, parse_with_fuel. intros H.
  destruct (specs2_level (fuel_for ts)) as (_ & H2 & _).
  specialize (H2 0 None). unfold wpx in H2.
  destruct (r_chunk (level ts binops unops (fuel_for ts)) (0, None)) as [[t [p1 mx1]]|err]; [|discriminate H].
  destruct (is_none t); [discriminate H|]. cbn [fst] in H. injection H as <- <-. apply H2.
  - unfold fuel_for, zlen. lia.
  - unfold ParserSpecs.pre. cbn [ParserProofs.lim fence_wf]. pose proof (zlen_nonneg ts). repeat split; lia.
Qed.

End S2.
