(* Sfx.to_lines / Sfx.from_lines at the level of whole lines and the whole section,
   lifted from the note-word sweeps of SfxProofs.v. *)
From PV Require Import Base.Prelude Base.ListX Base.PySlice Base.Hex Model.HexSection Model.Gfx Model.Gff
  Model.Sfx Generated.K_sfx Spec.P8Format Proofs.HexSectionProofs Proofs.RowLemmas Proofs.SfxProofs Proofs.MusicProofs.
From Coq Require Import ZifyBool.
Ltac Zify.zify_post_hook ::= Z.to_euclidean_division_equations.

(* ---------- generic: pointwise effect of item reads and writes ---------- *)
Lemma py_get_spec (d : list Z) i : 0 <= i < zlen d ->
  exists v, py_get d i = Ok v /\ nth_error d (Z.to_nat i) = Some v.
Proof.
  intros H. destruct (nth_error d (Z.to_nat i)) as [v|] eqn:E.
  - exists v. split; [apply py_get_nth; [lia | exact E] | reflexivity].
  - apply nth_error_None in E. unfold zlen in H. lia.
Qed.

Lemma Forall_set_nth (P : Z -> Prop) l n v : Forall P l -> P v -> Forall P (set_nth l n v).
Proof.
  intros Hl Hv. revert n. induction Hl as [|x l Hx Hl IH]; intros [|n]; cbn [set_nth]; auto.
Qed.

Lemma py_set_byte_spec (d : list Z) i v : 0 <= i < zlen d -> byte v ->
  exists d', py_set_byte d i v = Ok d' /\ length d' = length d /\
    (forall k, nth_error d' k = if Nat.eqb k (Z.to_nat i) then Some v else nth_error d k) /\
    (Forall byte d -> Forall byte d').
Proof.
  intros Hi Hv. exists (set_nth d (Z.to_nat i) v). repeat split.
  - unfold py_set_byte, py_set. cbv zeta.
    assert (E : (i <? 0) = false) by lia. rewrite E. cbv iota. rewrite E. cbn [orb].
    assert (E2 : (zlen d <=? i) = false) by lia. rewrite E2. cbn [bind].
    apply byteb_spec in Hv. rewrite Hv. reflexivity.
  - apply set_nth_length.
  - intros k. rewrite set_nth_nth_error.
    destruct (Nat.eqb k (Z.to_nat i)); [|reflexivity].
    assert (E : Nat.ltb (Z.to_nat i) (length d) = true) by (apply Nat.ltb_lt; unfold zlen in Hi; lia).
    rewrite E. reflexivity.
  - intros Hd. apply Forall_set_nth; assumption.
Qed.

(* invariant rule for foldM over 0..n-1 *)
Lemma foldM_seq_inv {S} (f : S -> Z -> result S) (Inv : nat -> S -> Prop) n :
  forall s0 start, Inv start s0 ->
  (forall k s, (start <= k < start + n)%nat -> Inv k s -> exists s', f s (Z.of_nat k) = Ok s' /\ Inv (Datatypes.S k) s') ->
  exists s', foldM f (map Z.of_nat (seq start n)) s0 = Ok s' /\ Inv (start + n)%nat s'.
Proof.
  induction n as [|n IH]; intros s0 start H0 Hstep.
  - exists s0. rewrite Nat.add_0_r. split; [reflexivity | exact H0].
  - cbn [seq map foldM].
    destruct (Hstep start s0 ltac:(lia) H0) as (s1 & E1 & I1). rewrite E1. cbn [bind].
    destruct (IH s1 (Datatypes.S start) I1) as (s' & E' & I').
    + intros k s Hk. apply Hstep. lia.
    + exists s'. split; [exact E'|]. replace (start + Datatypes.S n)%nat with (Datatypes.S start + n)%nat by lia. exact I'.
Qed.

Lemma foldM_upto_inv {S} (f : S -> Z -> result S) (Inv : nat -> S -> Prop) (n : nat) s0 :
  Inv 0%nat s0 ->
  (forall k s, (k < n)%nat -> Inv k s -> exists s', f s (Z.of_nat k) = Ok s' /\ Inv (Datatypes.S k) s') ->
  exists s', foldM f (upto (Z.of_nat n)) s0 = Ok s' /\ Inv n s'.
Proof.
  intros H0 Hstep. unfold upto. rewrite Nat2Z.id.
  destruct (foldM_seq_inv f Inv n s0 0%nat H0) as (s' & E & I).
  - intros k s Hk. apply Hstep. lia.
  - exists s'. split; assumption.
Qed.

Lemma nth_error_concat_rows n (rows : list (list Z)) :
  Forall (fun r => length r = n) rows ->
  forall k j, (j < n)%nat ->
  nth_error (concat rows) (k * n + j) = match nth_error rows k with Some r => nth_error r j | None => None end.
Proof.
  induction 1 as [|r0 rows Hr0 Hrows IH]; intros k j Hj.
  - cbn [concat]. destruct k; destruct (_ + _)%nat; reflexivity.
  - destruct k as [|k]; cbn [nth_error concat].
    + rewrite nth_error_app1 by lia. reflexivity.
    + rewrite nth_error_app2 by lia.
      replace (Datatypes.S k * n + j - length r0)%nat with (k * n + j)%nat by lia. apply IH. exact Hj.
Qed.

Lemma length_concat_rows n (rows : list (list Z)) :
  Forall (fun r => length r = n) rows -> length (concat rows) = (length rows * n)%nat.
Proof.
  induction 1 as [|r rows Hr Hrows IH]; [reflexivity|]. cbn [concat length]. rewrite app_length, IH, Hr. lia.
Qed.

(* ---------- the 32 notes of a pattern as (lsb, msb) pairs ---------- *)
Fixpoint pairs (q : list Z) : list (Z * Z) :=
  match q with l :: m :: r => (l, m) :: pairs r | _ => [] end.
Definition note_text (lm : Z * Z) : list Z := spec_note_text (fst lm) (snd lm).

Lemma pairs_facts : forall n q, (length q <= n)%nat ->
  spec_notes q = flat_map note_text (pairs q) /\
  (forall k, length q = (2 * k)%nat -> length (pairs q) = k) /\
  (forall i l m, nth_error (pairs q) i = Some (l, m) ->
     nth_error q (2 * i) = Some l /\ nth_error q (2 * i + 1) = Some m).
Proof.
  induction n as [|n IH]; intros q Hq.
  - destruct q; [|cbn in Hq; lia]. repeat split.
    + intros k Hk. cbn in *. lia.
    + destruct i; discriminate.
    + destruct i; discriminate.
  - destruct q as [|l0 [|m0 r]].
    + repeat split; try (destruct i; discriminate). intros k Hk. cbn in *. lia.
    + repeat split; try (destruct i; discriminate). intros k Hk. cbn in *. lia.
    + destruct (IH r ltac:(cbn in Hq; lia)) as (A & B & C). repeat split.
      * cbn [spec_notes pairs flat_map]. rewrite A. reflexivity.
      * intros k Hk. cbn [pairs length] in *. destruct k as [|k]; [lia|]. f_equal. apply B. lia.
      * destruct i as [|i]; cbn [pairs nth_error] in H.
        -- injection H as <- <-. reflexivity.
        -- replace (2 * Datatypes.S i)%nat with (Datatypes.S (Datatypes.S (2 * i))) by lia.
           cbn [nth_error]. apply (C i l m H).
      * destruct i as [|i]; cbn [pairs nth_error] in H.
        -- injection H as <- <-. reflexivity.
        -- replace (2 * Datatypes.S i + 1)%nat with (Datatypes.S (Datatypes.S (2 * i + 1))) by lia.
           cbn [nth_error]. apply (C i l m H).
Qed.

Lemma spec_notes_pairs q : spec_notes q = flat_map note_text (pairs q).
Proof. apply (pairs_facts (length q) q (le_n _)). Qed.
Lemma pairs_length (q : list Z) k : length q = (2 * k)%nat -> length (pairs q) = k.
Proof. apply (pairs_facts (length q) q (le_n _)). Qed.
Lemma pairs_nth (q : list Z) i l m : nth_error (pairs q) i = Some (l, m) ->
  nth_error q (2 * i) = Some l /\ nth_error q (2 * i + 1) = Some m.
Proof. apply (pairs_facts (length q) q (le_n _)). Qed.

Lemma note_text_zlen lm : zlen (note_text lm) = 5.
Proof. reflexivity. Qed.

(* a 68-byte pattern = 64 note bytes followed by the 4 header bytes *)
Lemma pattern_split (r : list Z) : length r = 68%nat ->
  exists q a b c e, r = q ++ [a; b; c; e] /\ length q = 64%nat.
Proof.
  intros H. exists (firstn 64 r).
  assert (L : length (skipn 64 r) = 4%nat) by (rewrite skipn_length; lia).
  destruct (skipn 64 r) as [|a [|b [|c [|e [|x t]]]]] eqn:E; try (cbn in L; lia).
  exists a, b, c, e. split; [rewrite <- E; symmetry; apply firstn_skipn | rewrite firstn_length; lia].
Qed.

(* ---------- writer ---------- *)
Lemma sfx_note_text_ok d id note lsb msb : byte lsb -> byte msb ->
  py_get d (id * 68 + note * 2) = Ok lsb -> py_get d (id * 68 + note * 2 + 1) = Ok msb ->
  sfx_note_text d id note = Ok (spec_note_text lsb msb).
Proof.
  intros Hl Hm G1 G2. unfold sfx_note_text, sfx_get_note, sfx_gn_lsb_idx, sfx_gn_msb_idx.
  rewrite G1, G2. cbn [bind].
  destruct (note_word_spec lsb msb Hl Hm) as (_ & _ & _ & _ & Rp & Rw & Rv & Re & _ & _ & Bwv & T & _).
  cbv zeta in *.
  rewrite mk_bytes_ok by (repeat constructor; unfold byte in *; lia). cbn [bind].
  rewrite mk_bytes_ok by (repeat constructor; unfold byte in *; lia). cbn [bind].
  rewrite T. reflexivity.
Qed.

Lemma sfx_line_row d id r : length r = 68%nat -> Forall byte r ->
  (forall j, 0 <= j < 68 -> py_get d (id * 68 + j) = py_get r j) ->
  sfx_line d id = Ok (spec_sfx_row r).
Proof.
  intros Hr Hb G.
  destruct (pattern_split r Hr) as (q & a & b & c & e & -> & Hq).
  apply Forall_app in Hb. destruct Hb as [Hbq Hbh].
  assert (Zq : zlen q = 64) by (unfold zlen; lia).
  unfold sfx_line, sfx_get_properties, sfx_gp_idx_0, sfx_gp_idx_1, sfx_gp_idx_2, sfx_gp_idx_3.
  rewrite (G 64), (G 65), (G 66), (G 67) by lia.
  replace 64 with (zlen q + 0) at 1 by lia. replace 65 with (zlen q + 1) by lia.
  replace 66 with (zlen q + 2) by lia. replace 67 with (zlen q + 3) by lia.
  rewrite !py_get_app_r by lia.
  change (py_get [a; b; c; e] 0) with (Ok a : result Z). change (py_get [a; b; c; e] 1) with (Ok b : result Z).
  change (py_get [a; b; c; e] 2) with (Ok c : result Z). change (py_get [a; b; c; e] 3) with (Ok e : result Z).
  cbn [bind].
  assert (Hp : zlen (pairs q) = 32) by (unfold zlen; rewrite (pairs_length q 32) by lia; reflexivity).
  rewrite <- Hp. rewrite (mapM_upto_rows (sfx_note_text d id) note_text (pairs q)).
  - cbn [bind]. unfold spec_sfx_row. rewrite skipn_app, firstn_app.
    rewrite skipn_all2 by lia. rewrite firstn_all2 by lia.
    replace (64 - length q)%nat with 0%nat by lia. cbn [skipn firstn app]. rewrite app_nil_r.
    rewrite spec_notes_pairs, to_hex_spec, !flat_map_concat_map. reflexivity.
  - intros i [l m] Hi. destruct (pairs_nth q i l m Hi) as (N1 & N2).
    assert (Hlq : In l q) by (eapply nth_error_In; exact N1).
    assert (Hmq : In m q) by (eapply nth_error_In; exact N2).
    rewrite Forall_forall in Hbq.
    assert (Hi32 : (i < 32)%nat).
    { assert (X : (2 * i < length q)%nat) by (apply nth_error_Some; congruence). lia. }
    apply sfx_note_text_ok; [apply Hbq, Hlq | apply Hbq, Hmq | |].
    + rewrite (G (Z.of_nat i * 2)) by lia. rewrite py_get_app_l by lia.
      apply py_get_nth; [lia|]. replace (Z.to_nat (Z.of_nat i * 2)) with (2 * i)%nat by lia. exact N1.
    + replace (id * 68 + Z.of_nat i * 2 + 1) with (id * 68 + (Z.of_nat i * 2 + 1)) by lia.
      rewrite (G (Z.of_nat i * 2 + 1)) by lia. rewrite py_get_app_l by lia.
      apply py_get_nth; [lia|]. replace (Z.to_nat (Z.of_nat i * 2 + 1)) with (2 * i + 1)%nat by lia. exact N2.
Qed.

Lemma sfx_to_lines_rows rows : length rows = 64%nat ->
  Forall (fun r => length r = 68%nat) rows -> Forall (Forall byte) rows ->
  sfx_to_lines (concat rows) = Ok (map spec_sfx_row rows).
Proof.
  intros Hn HL HB. unfold sfx_to_lines.
  replace 64 with (zlen rows) by (unfold zlen; lia).
  apply mapM_upto_rows. intros i r Hi.
  assert (Hr : length r = 68%nat) by (rewrite Forall_forall in HL; apply HL; eapply nth_error_In; exact Hi).
  assert (Hb : Forall byte r) by (rewrite Forall_forall in HB; apply HB; eapply nth_error_In; exact Hi).
  apply sfx_line_row; [exact Hr | exact Hb |].
  intros j Hj. apply (py_get_concat_rows 68 rows); [lia | | exact Hi | exact Hj].
  eapply Forall_impl; [|exact HL]. cbv beta. intros a Ha. unfold zlen. lia.
Qed.

(* the whole section *)
Lemma sfx_to_lines_spec d : length d = 4352%nat -> Forall byte d ->
  sfx_to_lines d = Ok (spec_sfx_lines d).
Proof.
  intros Hd Hb. unfold spec_sfx_lines. rewrite rows_of_chunks.
  destruct (chunks_len 68 64 d ltac:(lia) ltac:(lia)) as [F L].
  rewrite <- (chunks_concat 68 d) at 1 by lia.
  apply sfx_to_lines_rows; [exact L | exact F | apply chunks_bytes; exact Hb].
Qed.

(* ---------- reader ---------- *)
Lemma int16_hexbyte p : byte p -> int16 (hexbyte p) = Ok p.
Proof.
  intros Hp. destruct (hex_byte p Hp) as (_ & _ & V1 & V2 & _).
  unfold hexbyte, int16, int16_acc. rewrite <- !hexdigit_hexd, V1, V2. f_equal. unfold byte in Hp. lia.
Qed.
Lemma int16_hexd n : 0 <= n < 16 -> int16 [hexd n] = Ok n.
Proof.
  intros Hn. destruct (nibble_hexval n Hn) as (V & _). unfold int16, int16_acc.
  rewrite <- hexdigit_hexd, V. f_equal.
Qed.

Lemma spec_sfx_row_zlen r : length r = 68%nat -> zlen (spec_sfx_row r) = 169.
Proof.
  intros Hr. destruct (pattern_split r Hr) as (q & a & b & c & e & -> & Hq).
  unfold spec_sfx_row. rewrite skipn_app, firstn_app, skipn_all2, firstn_all2 by lia.
  replace (64 - length q)%nat with 0%nat by lia. cbn [skipn firstn app]. rewrite app_nil_r.
  rewrite spec_notes_pairs, !flat_map_concat_map.
  rewrite !zlen_app.
  rewrite (zlen_concat_rows 5 (map note_text (pairs q))).
  - unfold zlen. rewrite map_length, (pairs_length q 32) by lia. reflexivity.
  - apply Forall_forall. intros x Hx. apply in_map_iff in Hx. destruct Hx as (lm & <- & _). reflexivity.
Qed.

(* the slices the reader takes from a reference line *)
Lemma sfx_row_slices q a b c e : length q = 64%nat ->
  let line := spec_sfx_row (q ++ [a; b; c; e]) in
  sl line 0 2 = hexbyte a /\ sl line 2 4 = hexbyte b /\ sl line 4 6 = hexbyte c /\ sl line 6 8 = hexbyte e /\
  forall i l m, nth_error (pairs q) i = Some (l, m) ->
    let w := note_word l m in let n := Z.of_nat i in
    sl line (8 + 5 * n) (8 + 5 * n + 2) = hexbyte (w_pitch w) /\
    sl line (8 + 5 * n + 2) (8 + 5 * n + 3) = [hexd (w_waveform w)] /\
    sl line (8 + 5 * n + 3) (8 + 5 * n + 4) = [hexd (w_volume w)] /\
    sl line (8 + 5 * n + 4) (8 + 5 * n + 5) = [hexd (w_effect w)].
Proof.
  intros Hq line.
  assert (E : line = (hexbyte a ++ hexbyte b ++ hexbyte c ++ hexbyte e) ++ concat (map note_text (pairs q)) ++ [nl]).
  { subst line. unfold spec_sfx_row. rewrite skipn_app, firstn_app, skipn_all2, firstn_all2 by lia.
    replace (64 - length q)%nat with 0%nat by lia. cbn [skipn firstn app flat_map]. rewrite !app_nil_r.
    rewrite spec_notes_pairs, !flat_map_concat_map. cbn [map concat]. rewrite <- !app_assoc. reflexivity. }
  rewrite E. unfold sl.
  split; [|split; [|split; [|split]]].
  - rewrite py_slice_app_l by (cbn; lia). reflexivity.
  - rewrite py_slice_app_l by (cbn; lia). reflexivity.
  - rewrite py_slice_app_l by (cbn; lia). reflexivity.
  - rewrite py_slice_app_l by (cbn; lia). reflexivity.
  - intros i l m H. set (n := Z.of_nat i).
    set (hdr := hexbyte a ++ hexbyte b ++ hexbyte c ++ hexbyte e).
    assert (Hh : zlen hdr = 8) by reflexivity.
    assert (F5 : Forall (fun r => zlen r = 5) (map note_text (pairs q))).
    { apply Forall_forall. intros x Hx. apply in_map_iff in Hx. destruct Hx as (lm & <- & _). reflexivity. }
    assert (Hi' : nth_error (map note_text (pairs q)) i = Some (note_text (l, m))) by (rewrite nth_error_map, H; reflexivity).
    assert (S : forall x y, 0 <= x <= y -> y <= 5 ->
      py_slice (hdr ++ concat (map note_text (pairs q)) ++ [nl]) (8 + 5 * n + x) (8 + 5 * n + y) =
      py_slice (note_text (l, m)) x y).
    { intros x y Hx Hy.
      replace (8 + 5 * n + x) with (zlen hdr + (Z.of_nat i * 5 + x)) by (subst n; lia).
      replace (8 + 5 * n + y) with (zlen hdr + (Z.of_nat i * 5 + y)) by (subst n; lia).
      assert (Hilt : Z.of_nat i < zlen (map note_text (pairs q))).
      { unfold zlen. apply Nat2Z.inj_lt. apply nth_error_Some. congruence. }
      rewrite py_slice_app_r.
      - apply (py_slice_concat_rows 5 _ [nl] ltac:(lia) F5 i x y _ Hi'); lia.
      - lia.
      - rewrite zlen_app, (zlen_concat_rows 5 _ F5). pose proof (zlen_nonneg [nl]). nia. }
    repeat split.
    + replace (8 + 5 * n) with (8 + 5 * n + 0) at 1 by lia. rewrite S by lia. reflexivity.
    + rewrite S by lia. reflexivity.
    + rewrite S by lia. reflexivity.
    + rewrite S by lia. reflexivity.
Qed.

(* setting all four fields of a note from the text of (l, m) stores exactly l and m *)
Lemma sfx_set_note_full d id note l0 m0 l m : byte l0 -> byte m0 -> byte l -> byte m ->
  py_get d (id * 68 + note * 2) = Ok l0 -> py_get d (id * 68 + note * 2 + 1) = Ok m0 ->
  let w := note_word l m in
  sfx_set_note d id note (Some (w_pitch w)) (Some (w_waveform w)) (Some (w_volume w)) (Some (w_effect w)) =
  (d1 <- py_set_byte d (id * 68 + note * 2) l ;; py_set_byte d1 (id * 68 + note * 2 + 1) m).
Proof.
  intros Hl0 Hm0 Hl Hm G1 G2 w.
  destruct (note_word_spec l m Hl Hm) as (Ep & Ew & Ev & Ee & Rp & Rw & Rv & Re & El & Em & _).
  cbv zeta in *. fold w in Ep, Ew, Ev, Ee. rewrite <- Ep, <- Ew, <- Ev, <- Ee.
  destruct (set_note_bytes l0 m0 _ _ _ _ Hl0 Hm0 Rp Rw Rv Re) as (S1 & S2 & _ & _ & A1 & A2 & A3 & A4).
  unfold sfx_set_note, sfx_sn_lsb_idx, sfx_sn_msb_idx, sfx_sn_store_lsb_idx, sfx_sn_store_msb_idx.
  rewrite G1, G2. cbn [bind is_none oget].
  unfold sfx_sn_if_pitch, sfx_sn_if_waveform, sfx_sn_if_volume, sfx_sn_if_effect. cbn [negb].
  rewrite A1, A2, A3, A4. cbn [assert_ bind].
  rewrite S1, S2, El, Em. reflexivity.
Qed.

(* pointwise description of a region in which the first `done` bytes at offset `off` come from `src`
   and everything else from `base` *)
Definition patched (base src : list Z) (off done : nat) (d : list Z) : Prop :=
  length d = length base /\ Forall byte d /\
  forall k, nth_error d k =
    if (Nat.leb off k && Nat.ltb k (off + done))%bool then nth_error src (k - off) else nth_error base k.

Lemma sfx_read_notes line id d0 q a b c e :
  length q = 64%nat -> Forall byte q -> line = spec_sfx_row (q ++ [a; b; c; e]) ->
  (0 <= id)%Z -> (Z.to_nat id * 68 + 68 <= length d0)%nat -> Forall byte d0 ->
  exists d', foldM (sfx_read_note line id) (upto 32) d0 = Ok d' /\
             patched d0 q (Z.to_nat id * 68) 64 d'.
Proof.
  intros Hq Hbq -> Hid Hlen Hb0.
  set (off := (Z.to_nat id * 68)%nat).
  destruct (foldM_upto_inv (sfx_read_note (spec_sfx_row (q ++ [a; b; c; e])) id)
              (fun k d => patched d0 q off (2 * k) d) 32 d0) as (d' & E & I).
  - repeat split; [exact Hb0|]. intros k. rewrite Nat.add_0_r.
    destruct (Nat.leb off k && Nat.ltb k off)%bool eqn:X; [lia | reflexivity].
  - intros k d Hk (L & B & P).
    destruct (sfx_row_slices q a b c e Hq) as (_ & _ & _ & _ & SN). cbv zeta in SN.
    assert (Hpl : length (pairs q) = 32%nat) by (apply pairs_length; lia).
    destruct (nth_error (pairs q) k) as [[l m]|] eqn:Ek; [|apply nth_error_None in Ek; lia].
    destruct (SN k l m Ek) as (S1 & S2 & S3 & S4).
    destruct (pairs_nth q k l m Ek) as (N1 & N2).
    assert (Hl : byte l) by (rewrite Forall_forall in Hbq; apply Hbq; eapply nth_error_In; exact N1).
    assert (Hm : byte m) by (rewrite Forall_forall in Hbq; apply Hbq; eapply nth_error_In; exact N2).
    destruct (note_word_spec l m Hl Hm) as (_ & _ & _ & _ & Rp & Rw & Rv & Re & _). cbv zeta in Rp, Rw, Rv, Re.
    destruct (note_word_spec l m Hl Hm) as (Ep & Ew & Ev & Ee & _). cbv zeta in Ep, Ew, Ev, Ee.
    rewrite Ep in Rp. rewrite Ew in Rw. rewrite Ev in Rv. rewrite Ee in Re.
    unfold sfx_read_note. cbv zeta.
    rewrite S1, int16_hexbyte by (unfold byte; lia). cbn [bind].
    rewrite S2, int16_hexd by lia. cbn [bind].
    rewrite S3, int16_hexd by lia. cbn [bind].
    rewrite S4, int16_hexd by lia. cbn [bind].
    assert (I1 : 0 <= id * 68 + Z.of_nat k * 2 < zlen d) by (unfold zlen; lia).
    assert (I2 : 0 <= id * 68 + Z.of_nat k * 2 + 1 < zlen d) by (unfold zlen; lia).
    destruct (py_get_spec d _ I1) as (l0 & G1 & N01). destruct (py_get_spec d _ I2) as (m0 & G2 & N02).
    assert (Hl0 : byte l0) by (rewrite Forall_forall in B; apply B; eapply nth_error_In; exact N01).
    assert (Hm0 : byte m0) by (rewrite Forall_forall in B; apply B; eapply nth_error_In; exact N02).
    rewrite (sfx_set_note_full d id (Z.of_nat k) l0 m0 l m Hl0 Hm0 Hl Hm G1 G2).
    destruct (py_set_byte_spec d _ l I1 Hl) as (d1 & W1 & L1 & P1 & B1). rewrite W1. cbn [bind].
    assert (I2' : 0 <= id * 68 + Z.of_nat k * 2 + 1 < zlen d1) by (unfold zlen in *; lia).
    destruct (py_set_byte_spec d1 _ m I2' Hm) as (d2 & W2 & L2 & P2 & B2). rewrite W2.
    exists d2. split; [reflexivity|]. repeat split; [lia | auto |].
    intros j. rewrite P2, P1, P.
    replace (Z.to_nat (id * 68 + Z.of_nat k * 2 + 1)) with (off + 2 * k + 1)%nat by (subst off; lia).
    replace (Z.to_nat (id * 68 + Z.of_nat k * 2)) with (off + 2 * k)%nat by (subst off; lia).
    destruct (Nat.eqb j (off + 2 * k + 1)) eqn:X1.
    { apply Nat.eqb_eq in X1. subst j.
      assert (X : (Nat.leb off (off + 2 * k + 1) && Nat.ltb (off + 2 * k + 1) (off + 2 * Datatypes.S k))%bool = true) by lia.
      rewrite X. replace (off + 2 * k + 1 - off)%nat with (2 * k + 1)%nat by lia. symmetry. exact N2. }
    destruct (Nat.eqb j (off + 2 * k)) eqn:X2.
    { apply Nat.eqb_eq in X2. subst j.
      assert (X : (Nat.leb off (off + 2 * k) && Nat.ltb (off + 2 * k) (off + 2 * Datatypes.S k))%bool = true) by lia.
      rewrite X. replace (off + 2 * k - off)%nat with (2 * k)%nat by lia. symmetry. exact N1. }
    apply Nat.eqb_neq in X1. apply Nat.eqb_neq in X2.
    destruct (Nat.leb off j && Nat.ltb j (off + 2 * k))%bool eqn:Y1;
      destruct (Nat.leb off j && Nat.ltb j (off + 2 * Datatypes.S k))%bool eqn:Y2; try reflexivity; lia.
  - exists d'. split; [exact E | exact I].
Qed.

Lemma set_opt_some d i v : set_opt d i (Some v) = py_set_byte d i v.
Proof. reflexivity. Qed.

(* one reference line read into pattern `id`: that pattern becomes r, nothing else changes *)
Lemma sfx_read_line_row id d0 r : length r = 68%nat -> Forall byte r ->
  0 <= id -> (Z.to_nat id * 68 + 68 <= length d0)%nat -> Forall byte d0 ->
  exists d', sfx_read_line (spec_sfx_row r) id d0 = Ok d' /\ patched d0 r (Z.to_nat id * 68) 68 d'.
Proof.
  intros Hr Hb Hid Hlen Hb0.
  destruct (pattern_split r Hr) as (q & a & b & c & e & -> & Hq).
  apply Forall_app in Hb. destruct Hb as [Hbq Hbh].
  inversion Hbh as [|? ? Ha Hbh1]; subst. inversion Hbh1 as [|? ? Hb' Hbh2]; subst.
  inversion Hbh2 as [|? ? Hc Hbh3]; subst. inversion Hbh3 as [|? ? He _]; subst.
  set (off := (Z.to_nat id * 68)%nat).
  destruct (sfx_row_slices q a b c e Hq) as (S0 & S1 & S2 & S3 & _). cbv zeta in S0, S1, S2, S3.
  unfold sfx_read_line. rewrite S0, S1, S2, S3.
  rewrite !int16_hexbyte by assumption. cbn [bind].
  unfold sfx_set_properties, sfx_sp_idx_0, sfx_sp_idx_1, sfx_sp_idx_2, sfx_sp_idx_3. cbn [set_opt].
  assert (J0 : 0 <= id * 68 + 64 < zlen d0) by (unfold zlen; lia).
  destruct (py_set_byte_spec d0 _ a J0 Ha) as (d1 & W1 & L1 & P1 & B1). rewrite W1. cbn [bind set_opt].
  assert (J1 : 0 <= id * 68 + 65 < zlen d1) by (unfold zlen in *; lia).
  destruct (py_set_byte_spec d1 _ b J1 Hb') as (d2 & W2 & L2 & P2 & B2). rewrite W2. cbn [bind set_opt].
  assert (J2 : 0 <= id * 68 + 66 < zlen d2) by (unfold zlen in *; lia).
  destruct (py_set_byte_spec d2 _ c J2 Hc) as (d3 & W3 & L3 & P3 & B3). rewrite W3. cbn [bind set_opt].
  assert (J3 : 0 <= id * 68 + 67 < zlen d3) by (unfold zlen in *; lia).
  destruct (py_set_byte_spec d3 _ e J3 He) as (d4 & W4 & L4 & P4 & B4). rewrite W4.
  destruct (sfx_read_notes (spec_sfx_row (q ++ [a; b; c; e])) id d4 q a b c e Hq Hbq eq_refl Hid) as (d' & E & (L' & B' & P')).
  - lia.
  - auto.
  - exists d'. split; [exact E|]. repeat split; [lia | exact B' |].
    intros k. rewrite P', P4, P3, P2, P1. fold off.
    replace (Z.to_nat (id * 68 + 64)) with (off + 64)%nat by (subst off; lia).
    replace (Z.to_nat (id * 68 + 65)) with (off + 65)%nat by (subst off; lia).
    replace (Z.to_nat (id * 68 + 66)) with (off + 66)%nat by (subst off; lia).
    replace (Z.to_nat (id * 68 + 67)) with (off + 67)%nat by (subst off; lia).
    destruct (Nat.leb off k && Nat.ltb k (off + 64))%bool eqn:Y1.
    { assert (Y2 : (Nat.leb off k && Nat.ltb k (off + 68))%bool = true) by lia. rewrite Y2.
      rewrite nth_error_app1 by lia. reflexivity. }
    destruct (Nat.eqb k (off + 67)) eqn:X4.
    { apply Nat.eqb_eq in X4. subst k.
      assert (Y2 : (Nat.leb off (off + 67) && Nat.ltb (off + 67) (off + 68))%bool = true) by lia. rewrite Y2.
      rewrite nth_error_app2 by lia. replace (off + 67 - off - length q)%nat with 3%nat by lia. reflexivity. }
    destruct (Nat.eqb k (off + 66)) eqn:X3.
    { apply Nat.eqb_eq in X3. subst k.
      assert (Y2 : (Nat.leb off (off + 66) && Nat.ltb (off + 66) (off + 68))%bool = true) by lia. rewrite Y2.
      rewrite nth_error_app2 by lia. replace (off + 66 - off - length q)%nat with 2%nat by lia. reflexivity. }
    destruct (Nat.eqb k (off + 65)) eqn:X2.
    { apply Nat.eqb_eq in X2. subst k.
      assert (Y2 : (Nat.leb off (off + 65) && Nat.ltb (off + 65) (off + 68))%bool = true) by lia. rewrite Y2.
      rewrite nth_error_app2 by lia. replace (off + 65 - off - length q)%nat with 1%nat by lia. reflexivity. }
    destruct (Nat.eqb k (off + 64)) eqn:X1.
    { apply Nat.eqb_eq in X1. subst k.
      assert (Y2 : (Nat.leb off (off + 64) && Nat.ltb (off + 64) (off + 68))%bool = true) by lia. rewrite Y2.
      rewrite nth_error_app2 by lia. replace (off + 64 - off - length q)%nat with 0%nat by lia. reflexivity. }
    apply Nat.eqb_neq in X1, X2, X3, X4.
    assert (Y2 : (Nat.leb off k && Nat.ltb k (off + 68))%bool = false) by lia. rewrite Y2. reflexivity.
Qed.

(* reading a sequence of reference lines into consecutive patterns *)
Lemma sfx_from_lines_acc_rows : forall rows id d0,
  Forall (fun r => length r = 68%nat) rows -> Forall (Forall byte) rows -> Forall byte d0 ->
  (id * 68 + length rows * 68 <= length d0)%nat ->
  exists d', sfx_from_lines_acc (map spec_sfx_row rows) (Z.of_nat id) d0 = Ok d' /\
             patched d0 (concat rows) (id * 68) (length rows * 68) d'.
Proof.
  induction rows as [|r rows IH]; intros id d0 HL HB Hb0 Hlen.
  - exists d0. split; [reflexivity|]. repeat split; [exact Hb0|]. intros k. cbn [length].
    destruct (Nat.leb (id * 68) k && Nat.ltb k (id * 68 + 0 * 68))%bool eqn:X; [lia | reflexivity].
  - inversion HL as [|? ? Hr HL']; subst. inversion HB as [|? ? Hb HB']; subst.
    cbn [map sfx_from_lines_acc]. rewrite spec_sfx_row_zlen by exact Hr. rewrite Z.eqb_refl.
    cbn [length] in Hlen.
    destruct (sfx_read_line_row (Z.of_nat id) d0 r Hr Hb ltac:(lia) ltac:(lia) Hb0) as (d1 & E1 & (L1 & B1 & P1)).
    rewrite E1. cbn [bind]. rewrite Nat2Z.id in P1.
    replace (Z.of_nat id + 1) with (Z.of_nat (Datatypes.S id)) by lia.
    destruct (IH (Datatypes.S id) d1 HL' HB' B1 ltac:(lia)) as (d' & E' & (L' & B' & P')).
    exists d'. split; [exact E'|]. repeat split; [lia | exact B' |].
    intros k. rewrite P', P1. cbn [length concat].
    destruct (Nat.leb (id * 68) k && Nat.ltb k (id * 68 + 68))%bool eqn:Y1.
    + assert (Y2 : (Nat.leb (Datatypes.S id * 68) k && Nat.ltb k (Datatypes.S id * 68 + length rows * 68))%bool = false) by lia.
      assert (Y3 : (Nat.leb (id * 68) k && Nat.ltb k (id * 68 + Datatypes.S (length rows) * 68))%bool = true) by lia.
      rewrite Y2, Y3. rewrite nth_error_app1 by lia. reflexivity.
    + destruct (Nat.leb (Datatypes.S id * 68) k && Nat.ltb k (Datatypes.S id * 68 + length rows * 68))%bool eqn:Y2.
      * assert (Y3 : (Nat.leb (id * 68) k && Nat.ltb k (id * 68 + Datatypes.S (length rows) * 68))%bool = true) by lia.
        rewrite Y3. rewrite nth_error_app2 by lia. f_equal. lia.
      * assert (Y3 : (Nat.leb (id * 68) k && Nat.ltb k (id * 68 + Datatypes.S (length rows) * 68))%bool = false) by lia.
        rewrite Y3. reflexivity.
Qed.

Lemma pin_sfx_empty : length sfx_empty = 4352%nat /\ all_bytes sfx_empty = true.
Proof. split; vm_compute; reflexivity. Qed.

Lemma sfx_from_lines_rows rows : length rows = 64%nat ->
  Forall (fun r => length r = 68%nat) rows -> Forall (Forall byte) rows ->
  sfx_from_lines (map spec_sfx_row rows) = Ok (concat rows).
Proof.
  intros Hn HL HB. unfold sfx_from_lines. destruct pin_sfx_empty as (Le & Be).
  apply all_bytes_Forall in Be.
  destruct (sfx_from_lines_acc_rows rows 0 sfx_empty HL HB Be ltac:(lia)) as (d' & E & (L & B & P)).
  change (Z.of_nat 0) with 0 in E. rewrite E. f_equal.
  apply nth_error_ext. intros k. rewrite P. rewrite Hn.
  pose proof (length_concat_rows 68 rows HL) as Lc.
  destruct (Nat.leb (0 * 68) k && Nat.ltb k (0 * 68 + 64 * 68))%bool eqn:Y.
  - f_equal. lia.
  - assert (X1 : nth_error sfx_empty k = None) by (apply nth_error_None; lia).
    assert (X2 : nth_error (concat rows) k = None) by (apply nth_error_None; lia).
    rewrite X1, X2. reflexivity.
Qed.

Lemma sfx_roundtrip d : length d = 4352%nat -> Forall byte d ->
  sfx_from_lines (spec_sfx_lines d) = Ok d.
Proof.
  intros Hd Hb. unfold spec_sfx_lines. rewrite rows_of_chunks.
  destruct (chunks_len 68 64 d ltac:(lia) ltac:(lia)) as [F L].
  rewrite sfx_from_lines_rows; [rewrite chunks_concat by lia; reflexivity | exact L | exact F | apply chunks_bytes; exact Hb].
Qed.
