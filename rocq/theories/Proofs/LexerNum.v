(* Numeric literals: the number rows of the matcher table (hand-written scanners for picotool's number
   regexes) read exactly the numeral the reference grammar reads, and the model of TokNumber.value
   computes the reference value. *)
From PV Require Import Base.Prelude Generated.T_lexer Model.Lexer Spec.LuaLex Proofs.LexerProofs.
From Coq Require Import ZifyBool.

(* the number rows of the matcher table, in table order *)
Definition number_rows : list (matcher_id * tok_kind) :=
  [(MNumHex, KNumber); (MNumHexFrac, KNumber); (MNumBin, KNumber); (MNumBinFrac, KNumber);
   (MNumDec, KNumber); (MNumDecFrac, KNumber)].

(* they are rows 6..11 of the regenerated table *)
Lemma number_rows_in_table : firstn 6 (skipn 6 token_matchers) = number_rows.
Proof. reflexivity. Qed.

(* ---------- the model's byte classes / helpers are the reference's *)
Lemma m_digit_eq : m_digit = is_digit. Proof. reflexivity. Qed.
Lemma m_hex_eq : m_hex = is_hex. Proof. reflexivity. Qed.
Lemma m_bin_eq : m_bin = is_bin. Proof. reflexivity. Qed.
Lemma take_while_eq : take_while = span. Proof. reflexivity. Qed.
Lemma dval_eq : dval = digit_val. Proof. reflexivity. Qed.
Lemma digits_value_eq : digits_value = digits_val. Proof. reflexivity. Qed.

(* ---------- generic list facts *)
Definition hdfail (p : Z -> bool) (s : list Z) : Prop :=
  match s with [] => True | c :: _ => p c = false end.

Lemma span_app p a : forall rest, forallb p a = true -> hdfail p rest -> span p (a ++ rest) = (a, rest).
Proof.
  induction a as [|c a IH]; intros rest Ha Hr.
  - cbn [app]. destruct rest as [|c r]; [reflexivity|]. cbn in Hr |- *. rewrite Hr. reflexivity.
  - cbn [forallb] in Ha. apply andb_true_iff in Ha. destruct Ha as [Hc Ha].
    cbn [app span]. rewrite Hc, (IH rest Ha Hr). reflexivity.
Qed.

Lemma span_spec p s : forall a b, span p s = (a, b) -> s = a ++ b /\ forallb p a = true /\ hdfail p b.
Proof.
  induction s as [|c r IH]; intros a b H; cbn [span] in H.
  - inversion H; subst. cbn. auto.
  - destruct (p c) eqn:Hc.
    + destruct (span p r) as [a' b'] eqn:E. inversion H; subst. destruct (IH a' b eq_refl) as (-> & Ha & Hb).
      cbn [forallb app]. rewrite Hc, Ha. auto.
    + inversion H; subst. cbn. auto.
Qed.

Lemma take_while1_app p a rest :
  a <> [] -> forallb p a = true -> hdfail p rest -> take_while1 p (a ++ rest) = Some (a, rest).
Proof.
  intros Hne Ha Hr. unfold take_while1. rewrite take_while_eq, (span_app p a rest Ha Hr).
  destruct a; [congruence | reflexivity].
Qed.

Lemma take_while1_none p s : hdfail p s -> take_while1 p s = None.
Proof.
  intros H. unfold take_while1. destruct s as [|c r]; [reflexivity|]. cbn in H |- *. rewrite H. reflexivity.
Qed.

Lemma forallb_hd (p : Z -> bool) c a : forallb p (c :: a) = true -> p c = true.
Proof. cbn. intros H. apply andb_true_iff in H. tauto. Qed.

Lemma nonempty_true {A} (l : list A) : nonempty l = true <-> l <> [].
Proof. destruct l; cbn; split; congruence. Qed.

(* ---------- where the numeral run ends: at a byte that is neither a hexadecimal digit nor a dot *)
Definition stop (rest : list Z) : Prop :=
  match rest with [] => True | c :: _ => is_hex c = false /\ c <> 46 end.

Lemma num_run_spec h : forall s ae run rest, num_run h ae s = (run, rest) -> s = run ++ rest /\ stop rest.
Proof.
  induction s as [|c r IH]; intros ae run rest H; cbn [num_run] in H.
  - inversion H; subst. cbn. auto.
  - destruct (is_hex c || (c =? 46) || (h && ((c =? 112) || (c =? 80)))) eqn:C.
    + destruct (num_run h _ r) as [a b] eqn:E in H. inversion H; subst.
      destruct (IH _ _ _ E) as (-> & Hs). auto.
    + destruct (ae && ((c =? 43) || (c =? 45))) eqn:C2.
      * destruct (num_run h false r) as [a b] eqn:E. inversion H; subst.
        destruct (IH _ _ _ E) as (-> & Hs). auto.
      * inversion H; subst. cbn. apply orb_false_iff in C. destruct C as [C _].
        apply orb_false_iff in C. destruct C as [C1 C3]. split; [reflexivity|].
        split; [exact C1 | lia].
Qed.

Lemma num_body_spec s run rest : num_body s = (run, rest) -> s = run ++ rest /\ stop rest.
Proof.
  unfold num_body. destruct s as [|z [|x r]]; try apply num_run_spec.
  destruct (is_hex_prefix (z :: x :: r)); [|apply num_run_spec].
  destruct (num_run true false r) as [a b] eqn:E. intros H. inversion H; subst.
  destruct (num_run_spec _ _ _ _ _ E) as (-> & Hs). auto.
Qed.

Lemma num_split_spec s run rest : num_split s = (run, rest) -> s = run ++ rest /\ stop rest.
Proof.
  unfold num_split. destruct s as [|c r]; [intros H; inversion H; subst; cbn; auto|].
  destruct (c =? 46); [|apply num_body_spec].
  destruct (num_body r) as [a b] eqn:E. intros H. inversion H; subst.
  destruct (num_body_spec _ _ _ E) as (-> & Hs). auto.
Qed.

(* 0x / 0b prefix test, with explicit comparisons instead of matching on the literal 48 *)
Definition pfx (l u : Z) (s : list Z) : bool :=
  match s with z :: x :: _ => (z =? 48) && ((x =? l) || (x =? u)) | _ => false end.

Lemma match48 {A} (z : Z) (a b : A) : match z with 48 => a | _ => b end = if z =? 48 then a else b.
Proof.
  destruct (Z.eqb_spec z 48) as [->|N]; [reflexivity|].
  destruct z as [|p|p]; try reflexivity.
  do 6 (destruct p as [p|p|]; try reflexivity). congruence.
Qed.

Lemma is_hex_prefix_pfx s : is_hex_prefix s = pfx 120 88 s.
Proof.
  unfold is_hex_prefix, pfx. destruct s as [|z [|x r]].
  - reflexivity.
  - rewrite match48. destruct (z =? 48); reflexivity.
  - rewrite match48. destruct (z =? 48); reflexivity.
Qed.

Lemma spec_numeral_pfx run : spec_numeral run =
  if pfx 120 88 run then parse_based 16 is_hex (skipn 2 run)
  else if pfx 98 66 run then parse_based 2 is_bin (skipn 2 run)
  else parse_decimal run.
Proof.
  unfold spec_numeral, pfx. destruct run as [|z [|x r]].
  - reflexivity.
  - rewrite match48. destruct (z =? 48); reflexivity.
  - rewrite match48. cbn [skipn]. destruct (z =? 48); cbn [andb]; [|reflexivity].
    destruct ((x =? 120) || (x =? 88)); [reflexivity|]. destruct ((x =? 98) || (x =? 66)); reflexivity.
Qed.

Lemma pfx_shape l u s : pfx l u s = true -> exists x r, s = 48 :: x :: r /\ (x = l \/ x = u).
Proof.
  unfold pfx. destruct s as [|z [|x r]]; try discriminate. intros H. exists x, r.
  split; [f_equal; lia | lia].
Qed.

Lemma num_prefix_pfx l u s : num_prefix l u s = if pfx l u s then Some (firstn 2 s, skipn 2 s) else None.
Proof.
  unfold num_prefix, pfx. destruct s as [|z [|x r]]; try reflexivity.
  destruct ((z =? 48) && ((x =? l) || (x =? u))) eqn:C; [|reflexivity].
  cbn [firstn skipn]. assert (z = 48) by lia. subst. reflexivity.
Qed.

(* the run and the subject have the same prefix kind, because the prefix bytes belong to the run *)
Lemma num_split_len2 l u s run rest : (l = 120 /\ u = 88) \/ (l = 98 /\ u = 66) ->
  pfx l u s = true -> num_split s = (run, rest) -> exists x r, run = 48 :: x :: r.
Proof.
  intros Hlu P H. destruct (pfx_shape _ _ _ P) as (x & r & -> & Hx).
  unfold num_split in H. change (48 =? 46) with false in H. cbv iota in H. unfold num_body in H.
  assert (Eh : is_hex_prefix (48 :: x :: r) = (x =? 120) || (x =? 88)) by reflexivity. rewrite Eh in H.
  destruct ((x =? 120) || (x =? 88)) eqn:Cx.
  - destruct (num_run true false r) as [a b]. inversion H; subst. eauto.
  - assert (Hh : is_hex x = true).
    { unfold is_hex, is_lower_hex, is_upper_hex, is_digit. lia. }
    cbn [num_run] in H. change (is_hex 48) with true in H. rewrite Hh in H. cbn [orb] in H.
    destruct (num_run false _ r) as [a b]. inversion H; subst. eauto.
Qed.

Lemma num_split_pfx l u s run rest : (l = 120 /\ u = 88) \/ (l = 98 /\ u = 66) ->
  num_split s = (run, rest) -> pfx l u s = pfx l u run.
Proof.
  intros Hlu H. destruct (num_split_spec _ _ _ H) as (Hs & _).
  destruct (pfx l u s) eqn:P.
  - destruct (num_split_len2 _ _ _ _ _ Hlu P H) as (x & r & ->). subst s. symmetry. exact P.
  - destruct run as [|z [|x run]]; try reflexivity. subst s. symmetry. exact P.
Qed.

(* ---------- digit strings *)
Lemma fold_digits_nonneg base (f : Z -> Z) ds : 0 <= base -> (forall c, In c ds -> 0 <= f c) ->
  forall acc, 0 <= acc -> 0 <= fold_left (fun a c => a * base + f c) ds acc.
Proof.
  intros Hb. induction ds as [|c ds IH]; intros Hf acc Ha; cbn [fold_left]; [exact Ha|].
  apply IH.
  - intros c' Hc'. apply Hf. right. exact Hc'.
  - pose proof (Hf c (or_introl eq_refl)). pose proof (Z.mul_nonneg_nonneg acc base Ha Hb). lia.
Qed.

Lemma digits_val_nonneg ds : forallb is_digit ds = true -> 0 <= digits_val 10 ds.
Proof.
  intros H. unfold digits_val. apply fold_digits_nonneg; [lia | | lia].
  intros c Hc. rewrite forallb_forall in H. specialize (H c Hc). unfold digit_val. rewrite H.
  unfold is_digit in H. lia.
Qed.

(* ---------- the shape of a numeral the reference accepts, with its value *)
Definition frac_shape (base : Z) (isd : Z -> bool) (ip fpart : list Z) (n d : Z) : Prop :=
  (fpart = [] /\ ip <> [] /\ n = digits_val base ip /\ d = 1) \/
  (exists fp, fpart = 46 :: fp /\ fp <> [] /\ forallb isd fp = true /\
     n = digits_val base ip * base ^ zlen fp + digits_val base fp /\ d = base ^ zlen fp).

Lemma parse_based_shape base isd body n d : parse_based base isd body = Some (n, d) ->
  exists ip fpart, body = ip ++ fpart /\ forallb isd ip = true /\ frac_shape base isd ip fpart n d.
Proof.
  unfold parse_based. destruct (span isd body) as [ip r] eqn:E. apply span_spec in E.
  destruct E as (-> & Hip & Hr). destruct r as [|c r'].
  - destruct (nonempty ip) eqn:Ne; [|discriminate]. intros H; inversion H; subst.
    exists ip, []. split; [reflexivity|]. split; [exact Hip|]. left. apply nonempty_true in Ne. auto.
  - destruct (c =? 46) eqn:C; [|discriminate]. apply Z.eqb_eq in C. subst c.
    destruct (span isd r') as [fp r''] eqn:E2. apply span_spec in E2. destruct E2 as (-> & Hfp & _).
    destruct (nonempty fp && negb (nonempty r'')) eqn:C; [|discriminate].
    apply andb_true_iff in C. destruct C as [C1 C2]. apply nonempty_true in C1.
    destruct r''; [|discriminate]. intros H; inversion H; subst.
    exists ip, (46 :: fp). rewrite app_nil_r. split; [reflexivity|]. split; [exact Hip|].
    right. exists fp. auto.
Qed.

Definition is_e (c : Z) : Prop := c = 101 \/ c = 69.

Definition exp_shape (m dd : Z) (ep : list Z) (n d : Z) : Prop :=
  (ep = [] /\ n = m /\ d = dd) \/
  (exists e ds, is_e e /\ ds <> [] /\ forallb is_digit ds = true /\
     ((ep = e :: ds /\ n = m * 10 ^ digits_val 10 ds /\ d = dd) \/
      (ep = e :: 45 :: ds /\ n = m /\ d = dd * 10 ^ digits_val 10 ds))).

Lemma exp_part_shape m dd r2 n d :
  match r2 with
  | [] => Some (m, dd)
  | e :: r3 =>
    if (e =? 101) || (e =? 69) then
      match parse_exponent r3 with
      | Some x => if 0 <=? x then Some (m * 10 ^ x, dd) else Some (m, dd * 10 ^ (- x))
      | None => None
      end
    else None
  end = Some (n, d) -> exp_shape m dd r2 n d.
Proof.
  destruct r2 as [|e r3].
  - intros H; inversion H; subst. left. auto.
  - destruct ((e =? 101) || (e =? 69)) eqn:Ce; [|discriminate].
    assert (He : is_e e) by (unfold is_e; lia).
    destruct (parse_exponent r3) as [x|] eqn:Px; [|discriminate].
    unfold parse_exponent in Px. destruct r3 as [|c ds]; [discriminate|].
    destruct (c =? 45) eqn:C45.
    + apply Z.eqb_eq in C45. subst c.
      destruct (nonempty ds && forallb is_digit ds) eqn:C; [|discriminate].
      apply andb_true_iff in C. destruct C as [C1 C2]. apply nonempty_true in C1.
      inversion Px; subst x. pose proof (digits_val_nonneg ds C2) as Hnn.
      intros H. right. exists e, ds. split; [exact He|]. split; [exact C1|]. split; [exact C2|]. right.
      split; [reflexivity|].
      destruct (0 <=? - digits_val 10 ds) eqn:C0; inversion H; subst.
      * assert (E0 : digits_val 10 ds = 0) by lia. rewrite E0. cbn. split; lia.
      * rewrite Z.opp_involutive. auto.
    + destruct (c =? 43); [discriminate|].
      destruct (forallb is_digit (c :: ds)) eqn:C; [|discriminate]. inversion Px; subst x.
      pose proof (digits_val_nonneg _ C) as Hnn.
      destruct (0 <=? digits_val 10 (c :: ds)) eqn:C0; [|lia].
      intros H; inversion H; subst. right. exists e, (c :: ds). split; [exact He|].
      split; [discriminate|]. split; [exact C|]. left. auto.
Qed.

Definition dec_shape (run : list Z) (n d : Z) : Prop :=
  exists ip dp fp ep, run = ip ++ dp ++ ep /\ forallb is_digit ip = true /\ forallb is_digit fp = true /\
    ((dp = [] /\ fp = []) \/ dp = 46 :: fp) /\ (ip <> [] \/ fp <> []) /\
    exp_shape (digits_val 10 ip * 10 ^ zlen fp + digits_val 10 fp) (10 ^ zlen fp) ep n d.

Lemma parse_decimal_shape run n d : parse_decimal run = Some (n, d) -> dec_shape run n d.
Proof.
  unfold parse_decimal, dec_shape. destruct (span is_digit run) as [ip r] eqn:E. apply span_spec in E.
  destruct E as (-> & Hip & Hr).
  assert (K : forall dp fp r2, r = dp ++ r2 -> forallb is_digit fp = true -> ((dp = [] /\ fp = []) \/ dp = 46 :: fp) ->
    (if nonempty ip || nonempty fp
     then
      let m := digits_val 10 ip * 10 ^ zlen fp + digits_val 10 fp in
      let d0 := 10 ^ zlen fp in
      match r2 with
      | [] => Some (m, d0)
      | e :: r3 =>
          if (e =? 101) || (e =? 69)
          then
           match parse_exponent r3 with
           | Some x => if 0 <=? x then Some (m * 10 ^ x, d0) else Some (m, d0 * 10 ^ - x)
           | None => None
           end
          else None
      end
     else None) = Some (n, d) ->
    exists ip0 dp0 fp0 ep, ip ++ r = ip0 ++ dp0 ++ ep /\ forallb is_digit ip0 = true /\ forallb is_digit fp0 = true /\
      ((dp0 = [] /\ fp0 = []) \/ dp0 = 46 :: fp0) /\ (ip0 <> [] \/ fp0 <> []) /\
      exp_shape (digits_val 10 ip0 * 10 ^ zlen fp0 + digits_val 10 fp0) (10 ^ zlen fp0) ep n d).
  { intros dp fp r2 -> Hfp Hdp H. destruct (nonempty ip || nonempty fp) eqn:Ne; [|discriminate].
    cbv zeta in H. apply exp_part_shape in H. exists ip, dp, fp, r2. split; [reflexivity|].
    split; [exact Hip|]. split; [exact Hfp|]. split; [exact Hdp|]. split; [|exact H].
    apply orb_true_iff in Ne. rewrite !nonempty_true in Ne. exact Ne. }
  destruct r as [|c r'].
  - apply (K [] [] []); auto.
  - destruct (c =? 46) eqn:C.
    + apply Z.eqb_eq in C. subst c. destruct (span is_digit r') as [fp r2] eqn:E2. apply span_spec in E2.
      destruct E2 as (-> & Hfp & _). apply (K (46 :: fp) fp r2); auto.
    + apply (K [] [] (c :: r')); auto.
Qed.

(* ---------- the scanners stop where the run stops *)
Lemma digit_inhex c : is_digit c = true -> is_hex c = true.
Proof. unfold is_hex, is_digit. lia. Qed.
Lemma hex_inhex c : is_hex c = true -> is_hex c = true.
Proof. exact (fun H => H). Qed.
Lemma bin_inhex c : is_bin c = true -> is_hex c = true.
Proof. unfold is_bin, is_hex, is_digit. lia. Qed.

(* the digit classes of the scanners are inside the hexadecimal digits, at which no run stops *)
Definition hex_class (p : Z -> bool) : Prop := forall c, p c = true -> is_hex c = true.

Lemma hex_class_46 p : hex_class p -> p 46 = false.
Proof. intros H. destruct (p 46) eqn:E; [|reflexivity]. apply H in E. cbn in E. discriminate. Qed.

Lemma stop_hdfail p rest : hex_class p -> stop rest -> hdfail p rest.
Proof.
  intros Hp Hs. destruct rest as [|c r]; [exact I|]. cbn in Hs |- *. destruct Hs as [Ha _].
  destruct (p c) eqn:E; [|reflexivity]. apply Hp in E. congruence.
Qed.

Lemma stop_not46 rest : stop rest -> hd_is 46 rest = false.
Proof. destruct rest as [|c r]; [reflexivity|]. cbn. intros [_ H]. lia. Qed.

Lemma stop_opt_exp rest : stop rest -> opt_exp rest = ([], rest).
Proof.
  destruct rest as [|c r]; [reflexivity|]. cbn [stop opt_exp]. intros [H _].
  assert (E : (c =? 101) || (c =? 69) = false).
  { unfold is_hex, is_lower_hex, is_upper_hex, is_digit in H. lia. }
  rewrite E. reflexivity.
Qed.

Definition frac_syn (p : Z -> bool) (fpart : list Z) : Prop :=
  fpart = [] \/ exists fp, fpart = 46 :: fp /\ fp <> [] /\ forallb p fp = true.

Lemma frac_shape_syn base p ip fpart n d : frac_shape base p ip fpart n d -> frac_syn p fpart.
Proof.
  intros [(-> & _)|(fp & -> & Hfne & Hfp & _)]; [left; reflexivity | right; exists fp; auto].
Qed.

Lemma scan_based_ok l u p x ip fpart rest :
  (x = l \/ x = u) -> hex_class p -> forallb p ip = true -> ip <> [] -> frac_syn p fpart -> stop rest ->
  scan_based l u p (48 :: x :: ip ++ fpart ++ rest) = Some (48 :: x :: ip ++ fpart, rest).
Proof.
  intros Hx Hp Hip Hne Hf Hs. unfold scan_based, num_prefix.
  assert (E : (48 =? 48) && ((x =? l) || (x =? u)) = true) by lia. rewrite E.
  pose proof (hex_class_46 p Hp) as H46.
  assert (Hhd : hdfail p (fpart ++ rest)).
  { destruct Hf as [-> | (fp & -> & _)]; [apply stop_hdfail; assumption | exact H46]. }
  rewrite (take_while1_app p ip (fpart ++ rest) Hne Hip Hhd).
  destruct Hf as [-> | (fp & -> & Hfne & Hfp)].
  - unfold opt_frac. cbn [app]. rewrite (stop_not46 rest Hs). rewrite app_nil_r. reflexivity.
  - unfold opt_frac. cbn [app hd_is tl]. rewrite Z.eqb_refl.
    rewrite (take_while1_app p fp rest Hfne Hfp (stop_hdfail p rest Hp Hs)). reflexivity.
Qed.

Lemma scan_based_nofrac l u p x r : p 46 = false -> scan_based l u p (48 :: x :: 46 :: r) = None.
Proof.
  intros H. unfold scan_based, num_prefix. destruct ((48 =? 48) && ((x =? l) || (x =? u))); [|reflexivity].
  rewrite take_while1_none; [reflexivity | exact H].
Qed.

Lemma scan_based_frac_ok l u p x fp rest :
  (x = l \/ x = u) -> hex_class p -> forallb p fp = true -> fp <> [] -> stop rest ->
  scan_based_frac l u p (48 :: x :: 46 :: fp ++ rest) = Some (48 :: x :: 46 :: fp, rest).
Proof.
  intros Hx Hp Hfp Hne Hs. unfold scan_based_frac, num_prefix.
  assert (E : (48 =? 48) && ((x =? l) || (x =? u)) = true) by lia. rewrite E.
  cbn [hd_is tl]. rewrite Z.eqb_refl.
  rewrite (take_while1_app p fp rest Hne Hfp (stop_hdfail p rest Hp Hs)). reflexivity.
Qed.

Lemma scan_based_no_pfx l u p s : pfx l u s = false -> scan_based l u p s = None.
Proof. intros H. unfold scan_based. rewrite num_prefix_pfx, H. reflexivity. Qed.
Lemma scan_based_frac_no_pfx l u p s : pfx l u s = false -> scan_based_frac l u p s = None.
Proof. intros H. unfold scan_based_frac. rewrite num_prefix_pfx, H. reflexivity. Qed.

(* the two rows of one base, on a numeral of that base *)
Lemma based_rows_ok l u p x body rest n d base :
  (x = l \/ x = u) -> hex_class p -> parse_based base p body = Some (n, d) -> stop rest ->
  match scan_based l u p (48 :: x :: body ++ rest) with
  | Some (a, r) => Some (KNumber, a, r)
  | None =>
    match scan_based_frac l u p (48 :: x :: body ++ rest) with
    | Some (a, r) => Some (KNumber, a, r)
    | None => None
    end
  end = Some (KNumber, 48 :: x :: body, rest).
Proof.
  intros Hx Hp Hb Hs. apply parse_based_shape in Hb. destruct Hb as (ip & fpart & -> & Hip & Hf).
  destruct ip as [|c ip].
  - destruct Hf as [(_ & N & _)|(fp & -> & Hfne & Hfp & _)]; [congruence|]. cbn [app].
    rewrite scan_based_nofrac by (apply hex_class_46; exact Hp).
    rewrite (scan_based_frac_ok l u p x fp rest Hx Hp Hfp Hfne Hs). reflexivity.
  - rewrite <- app_assoc.
    rewrite (scan_based_ok l u p x (c :: ip) fpart rest Hx Hp Hip ltac:(discriminate) (frac_shape_syn _ _ _ _ _ _ Hf) Hs). reflexivity.
Qed.

Lemma opt_exp_ok m dd ep n d rest : exp_shape m dd ep n d -> stop rest -> opt_exp (ep ++ rest) = (ep, rest).
Proof.
  intros He Hs. pose proof (stop_hdfail is_digit rest digit_inhex Hs) as Hd.
  destruct He as [(-> & _)|(e & ds & Hee & Hne & Hds & [(-> & _)|(-> & _)])].
  - apply stop_opt_exp. exact Hs.
  - cbn [app opt_exp]. assert (E : (e =? 101) || (e =? 69) = true) by (unfold is_e in Hee; lia). rewrite E.
    destruct ds as [|c ds]; [congruence|]. pose proof (forallb_hd _ _ _ Hds) as Hc.
    assert (E2 : hd_is 45 ((c :: ds) ++ rest) = false) by (cbn; unfold is_digit in Hc; lia). rewrite E2.
    rewrite m_digit_eq, (take_while1_app is_digit (c :: ds) rest Hne Hds Hd). reflexivity.
  - cbn [app opt_exp hd_is tl]. assert (E : (e =? 101) || (e =? 69) = true) by (unfold is_e in Hee; lia). rewrite E.
    rewrite Z.eqb_refl. rewrite m_digit_eq, (take_while1_app is_digit ds rest Hne Hds Hd). reflexivity.
Qed.

Lemma exp_hd ep m dd n d rest : exp_shape m dd ep n d -> stop rest ->
  hdfail is_digit (ep ++ rest) /\ hd_is 46 (ep ++ rest) = false.
Proof.
  intros He Hs. destruct He as [(-> & _)|(e & ds & Hee & _ & _ & [(-> & _)|(-> & _)])].
  - split; [apply stop_hdfail; [exact digit_inhex | exact Hs] | apply stop_not46; exact Hs].
  - cbn. unfold is_e in Hee. unfold is_digit. split; lia.
  - cbn. unfold is_e in Hee. unfold is_digit. split; lia.
Qed.

Lemma decimal_rows_ok run rest n d : dec_shape run n d -> stop rest ->
  match scan_decimal (run ++ rest) with
  | Some (a, r) => Some (KNumber, a, r)
  | None =>
    match scan_decimal_frac (run ++ rest) with
    | Some (a, r) => Some (KNumber, a, r)
    | None => None
    end
  end = Some (KNumber, run, rest).
Proof.
  intros (ip & dp & fp & ep & -> & Hip & Hfp & Hdp & Hne & He) Hs.
  pose proof (opt_exp_ok _ _ _ _ _ rest He Hs) as Hoe.
  destruct (exp_hd _ _ _ _ _ rest He Hs) as [Hed He46].
  rewrite <- !app_assoc.
  destruct ip as [|c0 ip].
  - (* .digits : the MNumDec row fails, the MNumDecFrac row matches *)
    destruct Hne as [N|Hfne]; [congruence|].
    destruct Hdp as [(-> & ->) | -> ]; [congruence|].
    cbn [app]. unfold scan_decimal. rewrite m_digit_eq, take_while1_none by reflexivity.
    unfold scan_decimal_frac. cbn [hd_is tl]. rewrite Z.eqb_refl.
    rewrite m_digit_eq, (take_while1_app is_digit fp (ep ++ rest) Hfne Hfp Hed), Hoe. reflexivity.
  - unfold scan_decimal.
    assert (Hhd : hdfail is_digit (dp ++ ep ++ rest)).
    { destruct Hdp as [(-> & ->) | -> ]; [exact Hed | reflexivity]. }
    rewrite m_digit_eq, (take_while1_app is_digit (c0 :: ip) _ ltac:(discriminate) Hip Hhd).
    destruct Hdp as [(-> & ->) | -> ].
    + cbn [app]. rewrite He46, Hoe. rewrite app_nil_l. reflexivity.
    + cbn [app hd_is tl]. rewrite Z.eqb_refl.
      assert (E : hd_is 46 (fp ++ ep ++ rest) = false).
      { destruct fp as [|f fp]; [exact He46|]. pose proof (forallb_hd _ _ _ Hfp) as Hf. cbn. unfold is_digit in Hf. lia. }
      rewrite E, take_while_eq, (span_app is_digit fp (ep ++ rest) Hfp Hed), Hoe. reflexivity.
Qed.

(* whenever the reference reads a numeral at the start of s, the first matching number row of the table
   matches exactly the same extent *)
Theorem number_scan_agrees : forall s run rest n d,
  num_split s = (run, rest) ->
  spec_numeral run = Some (n, d) ->
  first_matcher number_rows s = Some (KNumber, run, rest).
Proof.
  intros s run rest n d Hrun Hnum.
  pose proof (num_split_pfx 120 88 _ _ _ (or_introl (conj eq_refl eq_refl)) Hrun) as Px.
  pose proof (num_split_pfx 98 66 _ _ _ (or_intror (conj eq_refl eq_refl)) Hrun) as Pb.
  destruct (num_split_spec _ _ _ Hrun) as (-> & Hs).
  rewrite spec_numeral_pfx in Hnum.
  cbn [first_matcher number_rows run_matcher]. rewrite m_hex_eq, m_bin_eq.
  destruct (pfx 120 88 run) eqn:Cx.
  - destruct (pfx_shape _ _ _ Cx) as (x & body & -> & Hx). cbn [skipn] in Hnum.
    pose proof (based_rows_ok 120 88 is_hex x body rest n d 16 Hx hex_inhex Hnum Hs) as K.
    cbn [app]. destruct (scan_based 120 88 is_hex (48 :: x :: body ++ rest)) as [[a r]|]; [exact K|].
    destruct (scan_based_frac 120 88 is_hex (48 :: x :: body ++ rest)) as [[a r]|]; [exact K | discriminate].
  - rewrite (scan_based_no_pfx _ _ _ _ Px), (scan_based_frac_no_pfx _ _ _ _ Px).
    destruct (pfx 98 66 run) eqn:Cb.
    + destruct (pfx_shape _ _ _ Cb) as (x & body & -> & Hx). cbn [skipn] in Hnum.
      pose proof (based_rows_ok 98 66 is_bin x body rest n d 2 Hx bin_inhex Hnum Hs) as K.
      cbn [app]. destruct (scan_based 98 66 is_bin (48 :: x :: body ++ rest)) as [[a r]|]; [exact K|].
      destruct (scan_based_frac 98 66 is_bin (48 :: x :: body ++ rest)) as [[a r]|]; [exact K | discriminate].
    + rewrite (scan_based_no_pfx _ _ _ _ Pb), (scan_based_frac_no_pfx _ _ _ _ Pb).
      apply parse_decimal_shape in Hnum.
      pose proof (decimal_rows_ok run rest n d Hnum Hs) as K.
      destruct (scan_decimal (run ++ rest)) as [[a r]|]; [exact K|].
      destruct (scan_decimal_frac (run ++ rest)) as [[a r]|]; [exact K | discriminate].
Qed.
Print Assumptions number_scan_agrees.

(* ---------- TokNumber.value *)
Ltac split_ifs := repeat match goal with |- context [if ?b then _ else _] => destruct b eqn:? end.

Lemma mem_byte_app c a b : mem_byte c (a ++ b) = mem_byte c a || mem_byte c b.
Proof. apply existsb_app. Qed.

Lemma mem_byte_2nd c a l : mem_byte c (a :: c :: l) = true.
Proof. unfold mem_byte. cbn [existsb]. rewrite Z.eqb_refl. cbn [orb]. apply orb_true_r. Qed.

Lemma mem_byte_class_false k (p : Z -> bool) l :
  (forall c, p c = true -> c <> k) -> forallb p l = true -> mem_byte k l = false.
Proof.
  intros Hp. induction l as [|c l IH]; intros H; [reflexivity|]. cbn [forallb] in H.
  apply andb_true_iff in H. destruct H as [Hc Hl]. unfold mem_byte in *. cbn [existsb]. rewrite (IH Hl).
  specialize (Hp c Hc). lia.
Qed.

Lemma forallb_map_class (p q : Z -> bool) (f : Z -> Z) l :
  (forall c, p c = true -> q (f c) = true) -> forallb p l = true -> forallb q (map f l) = true.
Proof.
  intros Hp. induction l as [|c l IH]; intros H; [reflexivity|]. cbn [forallb map] in *.
  apply andb_true_iff in H. destruct H as [Hc Hl]. rewrite (Hp c Hc), (IH Hl). reflexivity.
Qed.

Lemma forallb_imp (p q : Z -> bool) l : (forall c, p c = true -> q c = true) -> forallb p l = true -> forallb q l = true.
Proof. intros H Hl. rewrite <- (map_id l). apply (forallb_map_class p q (fun c => c)); assumption. Qed.

Lemma map_lower_id (p : Z -> bool) l : (forall c, p c = true -> lower c = c) -> forallb p l = true -> map lower l = l.
Proof.
  intros Hp. induction l as [|c l IH]; intros H; [reflexivity|]. cbn [forallb map] in *.
  apply andb_true_iff in H. destruct H as [Hc Hl]. rewrite (Hp c Hc), (IH Hl). reflexivity.
Qed.

Lemma zlen_map {A B} (f : A -> B) l : zlen (map f l) = zlen l.
Proof. unfold zlen. rewrite map_length. reflexivity. Qed.

Lemma lower_digit c : is_digit c = true -> lower c = c.
Proof. unfold is_digit, lower. split_ifs; lia. Qed.
Lemma lower_bin c : is_bin c = true -> lower c = c.
Proof. unfold is_bin, lower. split_ifs; lia. Qed.
Lemma bin_hex c : is_bin c = true -> is_hex c = true.
Proof. unfold is_bin, is_hex, is_digit. lia. Qed.
Lemma lower_hex_val c : is_hex c = true -> digit_val (lower c) = digit_val c.
Proof.
  intros H. unfold lower. destruct ((65 <=? c) && (c <=? 90)) eqn:L; [|reflexivity].
  unfold digit_val, is_hex, is_lower_hex, is_upper_hex, is_digit in *. split_ifs; lia.
Qed.
Lemma lower_hex_hex c : is_hex c = true -> is_hex (lower c) = true.
Proof.
  intros H. unfold lower. destruct ((65 <=? c) && (c <=? 90)) eqn:L; [|exact H].
  unfold is_hex, is_digit, is_lower_hex, is_upper_hex in *. lia.
Qed.

Lemma digits_val_lower base l : forallb is_hex l = true -> digits_val base (map lower l) = digits_val base l.
Proof.
  unfold digits_val. generalize 0. induction l as [|c l IH]; intros acc H; [reflexivity|].
  cbn [forallb map fold_left] in *. apply andb_true_iff in H. destruct H as [Hc Hl].
  rewrite (lower_hex_val c Hc). apply IH. exact Hl.
Qed.

(* the two bases with their digit class and (lower-case) prefix letter *)
Definition base_ok (base : Z) (p : Z -> bool) (x : Z) : Prop :=
  (base = 16 /\ p = is_hex /\ x = 120) \/ (base = 2 /\ p = is_bin /\ x = 98).

Lemma valid_not46 base c : valid_in_base base c = true -> negb (c =? 46) = true.
Proof. unfold valid_in_base, m_bin, m_hex, m_digit. split_ifs; lia. Qed.

Lemma py_int_digits base p x l : base_ok base p x -> l <> [] -> forallb p l = true ->
  py_int base l = Ok (digits_val base l).
Proof.
  intros Hb Hne Hl. unfold py_int.
  assert (Hv : forallb (valid_in_base base) l = true).
  { destruct Hb as [(-> & -> & _)|(-> & -> & _)]; exact Hl. }
  assert (Hbody : match l with
    | z :: x0 :: r =>
      if (z =? 48) && (if base =? 16 then (x0 =? 120) || (x0 =? 88) else (x0 =? 98) || (x0 =? 66)) then r else l
    | _ => l end = l).
  { destruct l as [|z [|x0 r]]; try reflexivity.
    assert (Hx0 : p x0 = true).
    { cbn [forallb] in Hl. apply andb_true_iff in Hl. destruct Hl as [_ Hl]. apply andb_true_iff in Hl. tauto. }
    destruct Hb as [(-> & -> & _)|(-> & -> & _)].
    - change (16 =? 16) with true. cbv iota.
      assert (E : (x0 =? 120) || (x0 =? 88) = false).
      { unfold is_hex, is_digit, is_lower_hex, is_upper_hex in Hx0. lia. }
      rewrite E, andb_false_r. reflexivity.
    - change (2 =? 16) with false. cbv iota.
      assert (E : (x0 =? 98) || (x0 =? 66) = false) by (unfold is_bin in Hx0; lia).
      rewrite E, andb_false_r. reflexivity. }
  rewrite Hbody, Hv. destruct l; [congruence|]. reflexivity.
Qed.

Lemma py_int_prefixed base p x l : base_ok base p x -> l <> [] -> forallb p l = true ->
  py_int base (48 :: x :: l) = Ok (digits_val base l).
Proof.
  intros Hb Hne Hl. unfold py_int.
  assert (Hv : forallb (valid_in_base base) l = true).
  { destruct Hb as [(-> & -> & _)|(-> & -> & _)]; exact Hl. }
  assert (E : (48 =? 48) && (if base =? 16 then (x =? 120) || (x =? 88) else (x =? 98) || (x =? 66)) = true).
  { destruct Hb as [(-> & _ & ->)|(-> & _ & ->)]; reflexivity. }
  rewrite E, Hv. destruct l; [congruence|]. reflexivity.
Qed.

Lemma py_int_zero base p x : base_ok base p x -> py_int base [48] = Ok 0.
Proof. intros [(-> & _)|(-> & _)]; reflexivity. Qed.

Lemma class_not46 base p x l : base_ok base p x -> forallb p l = true -> mem_byte 46 l = false.
Proof.
  intros Hb. apply mem_byte_class_false. intros c Hc.
  destruct Hb as [(_ & -> & _)|(_ & -> & _)]; [apply hex_inhex in Hc | apply bin_inhex in Hc]; intros ->; discriminate.
Qed.

Lemma based_value_ok base p x ip fpart n d : base_ok base p x ->
  forallb p ip = true -> frac_shape base p ip fpart n d ->
  based_value base (48 :: x :: ip ++ fpart) = Ok (n, d).
Proof.
  intros Hb Hip Hf. unfold based_value.
  assert (Hx : (46 =? 48) || ((46 =? x) || false) = false).
  { destruct Hb as [(_ & _ & ->)|(_ & _ & ->)]; reflexivity. }
  pose proof (class_not46 _ _ _ _ Hb Hip) as Hip46.
  destruct Hf as [(-> & Hne & -> & ->)|(fp & -> & Hfne & Hfp & -> & ->)].
  - rewrite app_nil_r.
    assert (E : mem_byte 46 (48 :: x :: ip) = false).
    { change (48 :: x :: ip) with ([48; x] ++ ip). rewrite mem_byte_app, Hip46. unfold mem_byte. cbn [existsb].
      rewrite Hx. reflexivity. }
    rewrite E, (py_int_prefixed _ _ _ _ Hb Hne Hip). reflexivity.
  - pose proof (class_not46 _ _ _ _ Hb Hfp) as Hfp46.
    assert (E : mem_byte 46 (48 :: x :: ip ++ 46 :: fp) = true).
    { change (48 :: x :: ip ++ 46 :: fp) with ([48; x] ++ ip ++ 46 :: fp). rewrite !mem_byte_app.
      unfold mem_byte at 3. cbn [existsb]. rewrite Z.eqb_refl. cbn [orb]. rewrite !orb_true_r. reflexivity. }
    rewrite E. cbn [skipn].
    assert (Hv : forallb (fun c => negb (c =? 46)) ip = true).
    { apply (forallb_imp p); [|exact Hip]. intros c Hc.
      destruct Hb as [(_ & -> & _)|(_ & -> & _)]; [apply hex_inhex in Hc | apply bin_inhex in Hc];
        destruct (Z.eqb_spec c 46) as [->|]; try reflexivity; discriminate. }
    rewrite take_while_eq, (span_app _ ip (46 :: fp) Hv) by (cbn; reflexivity).
    rewrite Hfp46.
    assert (Ei : py_int base (if is_nil ip then [48] else ip) = Ok (digits_val base ip)).
    { destruct ip as [|c ip]; [exact (py_int_zero _ _ _ Hb)|]. cbn [is_nil].
      apply (py_int_digits _ _ _ _ Hb); [discriminate | exact Hip]. }
    rewrite Ei, (py_int_digits _ _ _ _ Hb Hfne Hfp). reflexivity.
Qed.

Lemma py_float_ok run n d : dec_shape run n d -> py_float run = Ok (n, d).
Proof.
  intros (ip & dp & fp & ep & -> & Hip & Hfp & Hdp & Hne & He).
  assert (Hs : stop []) by exact I.
  destruct (exp_hd _ _ _ _ _ [] He Hs) as [Hed He46]. rewrite app_nil_r in Hed, He46.
  unfold py_float. rewrite m_digit_eq, take_while_eq, digits_value_eq.
  assert (Hhd : hdfail is_digit (dp ++ ep)).
  { destruct Hdp as [(-> & ->) | -> ]; [exact Hed | reflexivity]. }
  rewrite (span_app is_digit ip (dp ++ ep) Hip Hhd).
  assert (E2 : (if hd_is 46 (dp ++ ep) then span is_digit (tl (dp ++ ep)) else ([], dp ++ ep)) = (fp, ep)).
  { destruct Hdp as [(-> & ->) | -> ].
    - cbn [app]. rewrite He46. reflexivity.
    - cbn [app hd_is tl]. rewrite Z.eqb_refl. apply span_app; assumption. }
  rewrite E2.
  assert (E3 : is_nil ip && is_nil fp = false).
  { destruct ip; [|reflexivity]. destruct fp; [|reflexivity]. destruct Hne; congruence. }
  rewrite E3.
  destruct He as [(-> & -> & ->)|(e & ds & Hee & Hdne & Hds & [(-> & -> & ->)|(-> & -> & ->)])].
  - reflexivity.
  - assert (E : (e =? 101) || (e =? 69) = true) by (unfold is_e in Hee; lia). rewrite E.
    destruct ds as [|c ds]; [congruence|]. pose proof (forallb_hd _ _ _ Hds) as Hc.
    assert (E45 : hd_is 45 (c :: ds) = false) by (cbn; unfold is_digit in Hc; lia).
    assert (E43 : hd_is 43 (c :: ds) = false) by (cbn; unfold is_digit in Hc; lia).
    rewrite E45, E43, Hds. reflexivity.
  - assert (E : (e =? 101) || (e =? 69) = true) by (unfold is_e in Hee; lia). rewrite E.
    cbn [hd_is tl]. rewrite Z.eqb_refl, Hds. destruct ds; [congruence|]. reflexivity.
Qed.

Definition dec_char (c : Z) : bool := is_digit c || (c =? 46) || (c =? 45) || (c =? 101) || (c =? 69).

Definition low_dec_char (c : Z) : bool := is_digit c || (c =? 46) || (c =? 45) || (c =? 101).

Lemma dec_shape_chars run n d : dec_shape run n d -> forallb dec_char run = true.
Proof.
  intros (ip & dp & fp & ep & -> & Hip & Hfp & Hdp & _ & He).
  assert (Hd : forall l, forallb is_digit l = true -> forallb dec_char l = true).
  { intros l. apply forallb_imp. intros c Hc. unfold dec_char. rewrite Hc. reflexivity. }
  rewrite !forallb_app. rewrite (Hd ip Hip).
  assert (E1 : forallb dec_char dp = true).
  { destruct Hdp as [(-> & ->) | -> ]; [reflexivity|]. cbn [forallb]. rewrite (Hd fp Hfp). reflexivity. }
  assert (E2 : forallb dec_char ep = true).
  { assert (Hde : forall e, is_e e -> dec_char e = true) by (intros e [-> | ->]; reflexivity).
    destruct He as [(-> & _)|(e & ds & Hee & _ & Hds & [(-> & _)|(-> & _)])]; [reflexivity| |];
      cbn [forallb]; rewrite (Hd ds Hds), (Hde e Hee); reflexivity. }
  rewrite E1, E2. reflexivity.
Qed.

Lemma dec_shape_lower run n d : dec_shape run n d -> dec_shape (map lower run) n d.
Proof.
  intros (ip & dp & fp & ep & -> & Hip & Hfp & Hdp & Hne & He).
  pose proof (map_lower_id is_digit) as Hid. specialize (Hid) .
  exists ip, dp, fp, (map lower ep). rewrite !map_app.
  rewrite (Hid ip lower_digit Hip).
  assert (Edp : map lower dp = dp).
  { destruct Hdp as [(-> & ->) | -> ]; [reflexivity|]. cbn [map]. rewrite (Hid fp lower_digit Hfp). reflexivity. }
  rewrite Edp. repeat (split; [assumption || reflexivity|]).
  destruct He as [(-> & Hn & Hd)|(e & ds & Hee & Hdne & Hds & [(-> & Hn & Hd)|(-> & Hn & Hd)])].
  - left. auto.
  - right. exists (lower e), ds. split; [destruct Hee as [-> | ->]; left; reflexivity|].
    split; [exact Hdne|]. split; [exact Hds|]. left. cbn [map]. rewrite (Hid ds lower_digit Hds). auto.
  - right. exists (lower e), ds. split; [destruct Hee as [-> | ->]; left; reflexivity|].
    split; [exact Hdne|]. split; [exact Hds|]. right. cbn [map]. rewrite (Hid ds lower_digit Hds). auto.
Qed.

Lemma frac_shape_lower base p x ip fpart n d : base_ok base p x -> forallb p ip = true ->
  frac_shape base p ip fpart n d -> frac_shape base p (map lower ip) (map lower fpart) n d.
Proof.
  intros Hb Hip Hf.
  assert (Hh : forall l, forallb p l = true -> forallb is_hex l = true).
  { intros l. apply forallb_imp. intros c. destruct Hb as [(_ & -> & _)|(_ & -> & _)]; [auto | apply bin_hex]. }
  assert (Hp : forall l, forallb p l = true -> forallb p (map lower l) = true).
  { intros l. apply forallb_map_class. intros c Hc.
    destruct Hb as [(_ & -> & _)|(_ & -> & _)]; [apply lower_hex_hex; exact Hc | rewrite (lower_bin c Hc); exact Hc]. }
  destruct Hf as [(-> & Hne & -> & ->)|(fp & -> & Hfne & Hfp & -> & ->)].
  - left. split; [reflexivity|]. split; [destruct ip; [congruence | discriminate]|].
    rewrite (digits_val_lower base ip (Hh ip Hip)). auto.
  - right. exists (map lower fp). split; [reflexivity|]. split; [destruct fp; [congruence | discriminate]|].
    split; [exact (Hp fp Hfp)|].
    rewrite zlen_map, (digits_val_lower base ip (Hh ip Hip)), (digits_val_lower base fp (Hh fp Hfp)). auto.
Qed.

Lemma pow_pos b k : 0 < b -> 0 <= k -> 0 < b ^ k.
Proof. intros. apply Z.pow_pos_nonneg; assumption. Qed.

Lemma frac_shape_den base p ip fpart n d : 0 < base -> frac_shape base p ip fpart n d -> 0 < d.
Proof.
  intros Hb [(_ & _ & _ & ->)|(fp & _ & _ & _ & _ & ->)]; [lia|]. apply pow_pos; [exact Hb | apply zlen_nonneg].
Qed.

Lemma dec_shape_den run n d : dec_shape run n d -> 0 < d.
Proof.
  intros (ip & dp & fp & ep & _ & _ & _ & _ & _ & He).
  pose proof (pow_pos 10 (zlen fp) ltac:(lia) (zlen_nonneg fp)) as H10.
  destruct He as [(_ & _ & ->)|(e & ds & _ & _ & Hds & [(_ & _ & ->)|(_ & _ & ->)])]; try exact H10.
  apply Z.mul_pos_pos; [exact H10|]. apply pow_pos; [lia | apply digits_val_nonneg; exact Hds].
Qed.

(* the value: TokNumber.value's model on a numeral of the dialect is the reference value, exactly *)
Theorem number_value_agrees : forall run n d,
  spec_numeral run = Some (n, d) -> tok_value run = Ok (n, d) /\ 0 < d.
Proof.
  intros run n d H. rewrite spec_numeral_pfx in H. unfold tok_value.
  destruct (pfx 120 88 run) eqn:Cx.
  - destruct (pfx_shape _ _ _ Cx) as (x & body & -> & Hx). cbn [skipn] in H.
    apply parse_based_shape in H. destruct H as (ip & fpart & -> & Hip & Hf).
    assert (Hb : base_ok 16 is_hex 120) by (left; auto).
    split; [|apply (frac_shape_den 16 _ _ _ _ _ ltac:(lia) Hf)].
    cbn [map]. change (lower 48) with 48. rewrite map_app. assert (El : lower x = 120) by (destruct Hx as [-> | ->]; reflexivity). rewrite El.
    rewrite mem_byte_2nd.
    apply (based_value_ok 16 is_hex 120 _ _ _ _ Hb).
    + apply (forallb_map_class is_hex is_hex lower); [exact lower_hex_hex | exact Hip].
    + apply (frac_shape_lower 16 is_hex 120); assumption.
  - destruct (pfx 98 66 run) eqn:Cb.
    + destruct (pfx_shape _ _ _ Cb) as (x & body & -> & Hx). cbn [skipn] in H.
      apply parse_based_shape in H. destruct H as (ip & fpart & -> & Hip & Hf).
      assert (Hb : base_ok 2 is_bin 98) by (right; auto).
      split; [|apply (frac_shape_den 2 _ _ _ _ _ ltac:(lia) Hf)].
      pose proof (frac_shape_lower 2 is_bin 98 _ _ _ _ Hb Hip Hf) as Hf'.
      assert (Hip' : forallb is_bin (map lower ip) = true).
      { rewrite (map_lower_id is_bin ip lower_bin Hip). exact Hip. }
      cbn [map]. change (lower 48) with 48. rewrite map_app. assert (El : lower x = 98) by (destruct Hx as [-> | ->]; reflexivity). rewrite El.
      assert (E120 : mem_byte 120 (48 :: 98 :: map lower ip ++ map lower fpart) = false).
      { apply (mem_byte_class_false 120 (fun c => is_bin c || (c =? 46) || (c =? 98))).
        - intros c Hc. unfold is_bin in Hc. lia.
        - cbn [forallb]. rewrite forallb_app.
          assert (Hcl : forall l, forallb is_bin l = true -> forallb (fun c => is_bin c || (c =? 46) || (c =? 98)) l = true).
          { intros l. apply forallb_imp. intros c Hc. rewrite Hc. reflexivity. }
          rewrite (Hcl _ Hip').
          destruct Hf' as [(-> & _)|(fp & -> & _ & Hfp & _)]; [reflexivity|]. cbn [forallb]. rewrite (Hcl _ Hfp). reflexivity. }
      rewrite E120, mem_byte_2nd.
      apply (based_value_ok 2 is_bin 98 _ _ _ _ Hb Hip' Hf').
    + apply parse_decimal_shape in H. split; [|apply (dec_shape_den _ _ _ H)].
      pose proof (dec_shape_chars _ _ _ H) as Hch.
      assert (Hl : forallb low_dec_char (map lower run) = true).
      { apply (forallb_map_class dec_char); [|exact Hch]. intros c Hc.
        unfold dec_char, is_digit in Hc. unfold low_dec_char, lower, is_digit. split_ifs; lia. }
      rewrite (mem_byte_class_false 120 low_dec_char _ ltac:(intros c Hc; unfold low_dec_char, is_digit in Hc; lia) Hl).
      rewrite (mem_byte_class_false 98 low_dec_char _ ltac:(intros c Hc; unfold low_dec_char, is_digit in Hc; lia) Hl).
      apply py_float_ok. apply dec_shape_lower. exact H.
Qed.
Print Assumptions number_value_agrees.

(* ---------- corollaries for the caller *)
Corollary spec_number_agrees s t rest : spec_number s = Some (t, rest) ->
  first_matcher number_rows s = Some (KNumber, s_raw t, rest) /\
  s_kind t = SNumber /\ s_text t = s_raw t /\
  tok_value (s_raw t) = Ok (s_num t, s_den t) /\ 0 < s_den t.
Proof.
  unfold spec_number. destruct (num_split s) as [run rest0] eqn:E.
  destruct (spec_numeral run) as [[n d]|] eqn:N; [|discriminate]. intros H; inversion H; subst. cbn.
  destruct (number_value_agrees _ _ _ N) as [V D].
  split; [exact (number_scan_agrees _ _ _ _ _ E N)|]. auto.
Qed.

(* a number row only ever matches at a digit or a dot *)
Lemma number_rows_first_byte : forall c r x,
  first_matcher number_rows (c :: r) = Some x -> is_digit c = true \/ c = 46.
Proof.
  intros c r x. cbn [first_matcher number_rows run_matcher].
  assert (B : forall l u, num_prefix l u (c :: r) <> None -> is_digit c = true).
  { intros l u. unfold num_prefix. destruct r as [|x0 r0]; [congruence|].
    destruct ((c =? 48) && ((x0 =? l) || (x0 =? u))) eqn:C; [|congruence]. intros _. unfold is_digit. lia. }
  assert (B1 : forall l u (p : Z -> bool), scan_based l u p (c :: r) <> None -> is_digit c = true).
  { intros l u p. unfold scan_based. destruct (num_prefix l u (c :: r)) eqn:E; [|congruence].
    intros _. apply (B l u). congruence. }
  assert (B2 : forall l u (p : Z -> bool), scan_based_frac l u p (c :: r) <> None -> is_digit c = true).
  { intros l u p. unfold scan_based_frac. destruct (num_prefix l u (c :: r)) eqn:E; [|congruence].
    intros _. apply (B l u). congruence. }
  destruct (scan_based 120 88 m_hex (c :: r)) eqn:E1; [intros _; left; apply (B1 120 88 m_hex); congruence|].
  destruct (scan_based_frac 120 88 m_hex (c :: r)) eqn:E2; [intros _; left; apply (B2 120 88 m_hex); congruence|].
  destruct (scan_based 98 66 m_bin (c :: r)) eqn:E3; [intros _; left; apply (B1 98 66 m_bin); congruence|].
  destruct (scan_based_frac 98 66 m_bin (c :: r)) eqn:E4; [intros _; left; apply (B2 98 66 m_bin); congruence|].
  destruct (scan_decimal (c :: r)) eqn:E5.
  { intros _. left. unfold scan_decimal, take_while1 in E5. cbn [take_while] in E5.
    destruct (m_digit c) eqn:D; [exact D | discriminate]. }
  destruct (scan_decimal_frac (c :: r)) eqn:E6; [|discriminate].
  intros _. right. unfold scan_decimal_frac in E6. cbn [hd_is] in E6.
  destruct (c =? 46) eqn:D; [lia | discriminate].
Qed.
Print Assumptions spec_number_agrees.
