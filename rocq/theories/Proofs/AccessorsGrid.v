(* C17, cell-level characterisation of the two block writes of the plain model: after
   set_sprite every pixel of the sheet, and after set_rect_tiles every cell of the map, holds
   the block's value if the block covers it (and the value is not TRANSPARENT) and its old
   value otherwise. Read-back, frame, clipping and transparency in one equation; proved once
   for an abstract grid store and instantiated twice. *)
From PV Require Import Base.Prelude Base.ListX Spec.PlainMem
  Proofs.AccessorsBase Proofs.AccessorsSimple Proofs.AccessorsLoops Proofs.AccessorsRectPx Proofs.C17Proofs.
From Coq Require Import ZifyBool.
Ltac Zify.zify_post_hook ::= Z.to_euclidean_division_equations.

(* the value a block of ragged rows holds at offset (dx, dy), if any; tr = "is transparent" *)
Definition row_at (tr : Z -> bool) (row : list Z) (dx : Z) : option Z :=
  if dx <? 0 then None
  else match nth_error row (Z.to_nat dx) with
       | Some v => if tr v then None else Some v
       | None => None
       end.
Definition grid_at (tr : Z -> bool) (rows : list (list Z)) (dx dy : Z) : option Z :=
  if dy <? 0 then None
  else match nth_error rows (Z.to_nat dy) with Some row => row_at tr row dx | None => None end.

Lemma row_at_cons tr v r d :
  row_at tr (v :: r) d = if d =? 0 then (if tr v then None else Some v) else row_at tr r (d - 1).
Proof.
  unfold row_at. destruct (d =? 0) eqn:E0.
  - assert (d = 0) by lia. subst d. reflexivity.
  - destruct (d <? 0) eqn:E1.
    + assert ((d - 1 <? 0) = true) as -> by lia. reflexivity.
    + assert ((d - 1 <? 0) = false) as -> by lia.
      replace (Z.to_nat d) with (S (Z.to_nat (d - 1))) by lia. reflexivity.
Qed.
Lemma row_at_nil tr d : row_at tr [] d = None.
Proof. unfold row_at. destruct (d <? 0); [reflexivity|]. destruct (Z.to_nat d); reflexivity. Qed.
Lemma grid_at_cons tr row rs dx dy :
  grid_at tr (row :: rs) dx dy = if dy =? 0 then row_at tr row dx else grid_at tr rs dx (dy - 1).
Proof.
  unfold grid_at. destruct (dy =? 0) eqn:E0.
  - assert (dy = 0) by lia. subst dy. reflexivity.
  - destruct (dy <? 0) eqn:E1.
    + assert ((dy - 1 <? 0) = true) as -> by lia. reflexivity.
    + assert ((dy - 1 <? 0) = false) as -> by lia.
      replace (Z.to_nat dy) with (S (Z.to_nat (dy - 1))) by lia. reflexivity.
Qed.
Lemma grid_at_nil tr dx dy : grid_at tr [] dx dy = None.
Proof. unfold grid_at. destruct (dy <? 0); [reflexivity|]. destruct (Z.to_nat dy); reflexivity. Qed.

Section Grid.
  Variable (S : Type) (inv : S -> Prop) (rd : S -> Z -> Z -> Z) (step : Z -> S -> Z * Z -> S).
  Variable (W H fx fy : Z) (tr : Z -> bool) (okv : Z -> Prop).
  (* one element of the block, stored at index k of row y: lands on cell (fx + k, fy + y)
     unless transparent; a cell outside W x H is never equal to an in-range (X, Y) *)
  Hypothesis step_rd : forall y s k v, inv s -> 0 <= k -> 0 <= y -> okv v ->
    inv (step y s (k, v)) /\
    forall X Y, 0 <= X < W -> 0 <= Y < H ->
      rd (step y s (k, v)) X Y = if (X =? fx + k) && (Y =? fy + y) && negb (tr v) then v else rd s X Y.

  Lemma row_fold_rd y X Y : 0 <= y -> 0 <= X < W -> 0 <= Y < H ->
    forall row k s, inv s -> 0 <= k -> (forall v, In v row -> okv v) ->
    inv (fold_left (step y) (indexed k row) s) /\
    rd (fold_left (step y) (indexed k row) s) X Y =
      if Y =? fy + y then match row_at tr row (X - fx - k) with Some v => v | None => rd s X Y end else rd s X Y.
  Proof.
    intros Hy HX HY. induction row as [|v r IH]; intros k s Is Hk Hok.
    - cbn [indexed fold_left]. rewrite row_at_nil. split; [exact Is|]. destruct (Y =? fy + y); reflexivity.
    - cbn [indexed fold_left].
      destruct (step_rd y s k v Is Hk Hy (Hok v (or_introl eq_refl))) as (I1 & R1).
      destruct (IH (k + 1) (step y s (k, v)) I1 ltac:(lia) (fun v' Hv' => Hok v' (or_intror Hv'))) as (I2 & R2).
      split; [exact I2|]. rewrite R2, (R1 X Y HX HY), row_at_cons.
      replace (X - fx - k - 1) with (X - fx - (k + 1)) by lia.
      destruct (Y =? fy + y) eqn:EY; destruct (X - fx - k =? 0) eqn:E0.
      + assert ((X =? fx + k) = true) as -> by lia.
        assert (row_at tr r (X - fx - (k + 1)) = None) as ->
          by (unfold row_at; assert ((X - fx - (k + 1) <? 0) = true) as -> by lia; reflexivity).
        cbn [andb]. destruct (tr v); reflexivity.
      + assert ((X =? fx + k) = false) as -> by lia. cbn [andb]. reflexivity.
      + rewrite andb_false_r. reflexivity.
      + rewrite andb_false_r. reflexivity.
  Qed.

  Definition block_fold (rows : list (list Z)) (j : Z) (s : S) : S :=
    fold_left (fun s (yr : Z * list Z) => let '(y, row) := yr in fold_left (step y) (indexed 0 row) s) (indexed j rows) s.

  Lemma block_fold_rd X Y : 0 <= X < W -> 0 <= Y < H ->
    forall rows j s, inv s -> 0 <= j -> (forall row v, In row rows -> In v row -> okv v) ->
    inv (block_fold rows j s) /\
    rd (block_fold rows j s) X Y = match grid_at tr rows (X - fx) (Y - fy - j) with Some v => v | None => rd s X Y end.
  Proof.
    intros HX HY. induction rows as [|row rs IH]; intros j s Is Hj Hok.
    - unfold block_fold. cbn [indexed fold_left]. rewrite grid_at_nil. split; [exact Is | reflexivity].
    - unfold block_fold. cbn [indexed fold_left].
      destruct (row_fold_rd j X Y Hj HX HY row 0 s Is ltac:(lia) (fun v Hv => Hok row v (or_introl eq_refl) Hv)) as (I1 & R1).
      destruct (IH (j + 1) _ I1 ltac:(lia) (fun row' v Hr Hv => Hok row' v (or_intror Hr) Hv)) as (I2 & R2).
      unfold block_fold in I2, R2. split; [exact I2|]. rewrite R2, R1, grid_at_cons.
      replace (Y - fy - j - 1) with (Y - fy - (j + 1)) by lia. replace (X - fx - 0) with (X - fx) by lia.
      destruct (Y - fy - j =? 0) eqn:E0.
      + assert ((Y =? fy + j) = true) as -> by lia.
        assert (grid_at tr rs (X - fx) (Y - fy - (j + 1)) = None) as ->
          by (unfold grid_at; assert ((Y - fy - (j + 1) <? 0) = true) as -> by lia; reflexivity).
        reflexivity.
      + assert ((Y =? fy + j) = false) as -> by lia. reflexivity.
  Qed.
End Grid.

(* ---------- instance: set_sprite on the 128 x 128 pixel sheet ---------- *)
Definition is_transparent (v : Z) : bool := v =? transparent.

Lemma ss_spec_px_rd fx fy : 0 <= fx -> 0 <= fy ->
  forall y g k v, gfx_inv g -> 0 <= k -> 0 <= y -> 0 <= v <= 16 ->
  gfx_inv (ss_spec_px fx fy y g (k, v)) /\
  forall X Y, 0 <= X < 128 -> 0 <= Y < 128 ->
    get_px (ss_spec_px fx fy y g (k, v)) X Y =
    if (X =? fx + k) && (Y =? fy + y) && negb (is_transparent v) then v else get_px g X Y.
Proof.
  intros Hfx Hfy y g k v Ig Hk Hy Hv.
  destruct (ss_pixel_ok fx fy y g k v Ig Hfx Hfy Hk Hy Hv) as (_ & I1). split; [exact I1|].
  intros X Y HX HY. unfold ss_spec_px, is_transparent. destruct Ig as (L & B).
  destruct (v =? transparent) eqn:E1; destruct (127 <? fx + k) eqn:E2; destruct (127 <? fy + y) eqn:E3; cbn [orb negb].
  all: try (rewrite andb_false_r; reflexivity).
  all: try (assert (((X =? fx + k) && (Y =? fy + y)) = false) as -> by lia; reflexivity).
  unfold transparent in E1. rewrite get_px_set_px by (assumption || lia). rewrite andb_true_r. reflexivity.
Qed.

Lemma set_sprite_pixels g id xo yo rows X Y :
  zlen g = 8192 -> Forall byte g -> in_contract (SetSprite id xo yo rows) = true ->
  0 <= X <= 127 -> 0 <= Y <= 127 ->
  get_px (spec_set_sprite g id xo yo rows) X Y =
  match grid_at is_transparent rows (X - (id mod 16 * 8 + xo)) (Y - (id / 16 * 8 + yo)) with
  | Some v => v
  | None => get_px g X Y
  end.
Proof.
  intros L B C HX HY. unfold in_contract in C. apply andb_true_iff in C. destruct C as [C HR]. unfold inr in C.
  pose proof (rows_in_spec _ _ _ HR) as HV.
  set (fx := id mod 16 * 8 + xo). set (fy := id / 16 * 8 + yo).
  assert (Hfx : 0 <= fx) by (subst fx; lia). assert (Hfy : 0 <= fy) by (subst fy; lia).
  destruct (block_fold_rd _ gfx_inv get_px (ss_spec_px fx fy) 128 128 fx fy is_transparent (fun v => 0 <= v <= 16)
              (ss_spec_px_rd fx fy Hfx Hfy) X Y ltac:(lia) ltac:(lia) rows 0 g (conj L B) ltac:(lia) HV) as (_ & R).
  rewrite spec_set_sprite_fold. fold fx fy. unfold block_fold in R. rewrite R.
  replace (Y - fy - 0) with (Y - fy) by lia. reflexivity.
Qed.

(* ---------- instance: set_rect_tiles on the 128 x 64 map (rows 32-63 in sprite memory) ---------- *)
Definition no_transparent (v : Z) : bool := false.
Definition mg_rd (st : list Z * list Z) (X Y : Z) : Z := get_cell (fst st) (snd st) X Y.

Lemma sr_spec_cell_rd x y : 0 <= x -> 0 <= y ->
  forall ty st k v, mg_inv st -> 0 <= k -> 0 <= ty -> 0 <= v <= 255 ->
  mg_inv (sr_spec_cell x y ty st (k, v)) /\
  forall X Y, 0 <= X < 128 -> 0 <= Y < 64 ->
    mg_rd (sr_spec_cell x y ty st (k, v)) X Y =
    if (X =? x + k) && (Y =? y + ty) && negb (no_transparent v) then v else mg_rd st X Y.
Proof.
  intros Hx Hy ty [m g] k v (L1 & L2 & B1 & B2) Hk Hty Hv. cbn [fst snd] in *.
  unfold sr_spec_cell, mg_rd, no_transparent. cbn [negb].
  destruct ((63 <? ty + y) || (127 <? k + x)) eqn:E.
  - split; [unfold mg_inv; cbn [fst snd]; auto|]. intros X Y HX HY.
    assert (((X =? x + k) && (Y =? y + ty)) = false) as -> by lia. reflexivity.
  - destruct (map_set_cell_ok m g (k + x) (ty + y) v) as (_ & A1 & A2 & A3 & A4); try assumption; try lia.
    split; [unfold mg_inv; auto|]. intros X Y HX HY.
    pose proof (get_cell_set_cell m g (k + x) (ty + y) v X Y L1 L2 ltac:(lia) ltac:(lia) ltac:(lia) ltac:(lia)) as G.
    cbv zeta in G. rewrite G. rewrite andb_true_r.
    replace (x + k) with (k + x) by lia. replace (y + ty) with (ty + y) by lia. reflexivity.
Qed.

Lemma set_rect_cells m g x y rows X Y :
  zlen m = 4096 -> zlen g = 8192 -> Forall byte m -> Forall byte g ->
  in_contract (MapSetRect x y rows) = true -> 0 <= X <= 127 -> 0 <= Y <= 63 ->
  let st := spec_set_rect (m, g) x y rows in
  get_cell (fst st) (snd st) X Y =
  match grid_at no_transparent rows (X - x) (Y - y) with Some v => v | None => get_cell m g X Y end.
Proof.
  intros Lm Lg Bm Bg C HX HY. unfold in_contract in C. apply andb_true_iff in C. destruct C as [C HR].
  pose proof (rows_in_spec _ _ _ HR) as HV. cbv zeta.
  assert (I0 : mg_inv (m, g)) by (unfold mg_inv; cbn [fst snd]; auto).
  destruct (block_fold_rd _ mg_inv mg_rd (sr_spec_cell x y) 128 64 x y no_transparent (fun v => 0 <= v <= 255)
              (sr_spec_cell_rd x y ltac:(lia) ltac:(lia)) X Y ltac:(lia) ltac:(lia) rows 0 (m, g) I0 ltac:(lia) HV) as (_ & R).
  rewrite spec_set_rect_fold. unfold block_fold in R. unfold mg_rd in R. rewrite R.
  replace (Y - y - 0) with (Y - y) by lia. reflexivity.
Qed.

(* get_rect_pixels after set_rect_tiles, pixel by pixel: pixel (X, Y) of the picture of the
   rectangle (x0, y0, w, h) is pixel (X mod 8, Y mod 8) of the tile now in cell
   (x0 + X / 8, y0 + Y / 8) - the block's value if the block covers that cell, the old cell
   otherwise, 0 right of column 127 - drawn from the sprite sheet as it is after the write (map
   rows 32-63 share the lower half of the sheet). *)
Lemma rect_pixels_after_set_rect m g x y rows x0 y0 w h X Y :
  zlen m = 4096 -> zlen g = 8192 -> Forall byte m -> Forall byte g ->
  in_contract (MapSetRect x y rows) = true -> in_contract (MapGetRectPx x0 y0 w h) = true ->
  0 <= X < 8 * w -> 0 <= Y < 8 * h ->
  let st := spec_set_rect (m, g) x y rows in
  let cx := x0 + X / 8 in let cy := y0 + Y / 8 in
  nth (Z.to_nat X) (nth (Z.to_nat Y) (spec_get_rect_pixels (fst st) (snd st) x0 y0 w h) []) 0 =
  tile_px (snd st)
    (if 127 <? cx then 0
     else match grid_at no_transparent rows (cx - x) (cy - y) with Some v => v | None => get_cell m g cx cy end)
    (X mod 8) (Y mod 8).
Proof.
  intros Lm Lg Bm Bg C1 C2 HX HY. cbv zeta. pose proof C2 as C2'. unfold in_contract, inr in C2'.
  destruct (rect_pixels_at (fst (spec_set_rect (m, g) x y rows)) (snd (spec_set_rect (m, g) x y rows))
              x0 y0 w h X Y ltac:(lia) ltac:(lia) HX HY) as (_ & _ & E).
  cbv zeta in E. rewrite E. unfold rect_tile.
  assert ((63 <? y0 + Y / 8) = false) as -> by lia. cbn [orb].
  destruct (127 <? x0 + X / 8) eqn:E1; [reflexivity|].
  pose proof (set_rect_cells m g x y rows (x0 + X / 8) (y0 + Y / 8) Lm Lg Bm Bg C1 ltac:(lia) ltac:(lia)) as R.
  cbv zeta in R. rewrite R. reflexivity.
Qed.
