(* Source pins of pico8/game/formatter/p8.py: the .p8 reader / writer and #include (Model/P8File.v, Model/Include.v).
   WRITTEN BY gen/mkpins.py (developer step) from the sources the hand-written model was compared with;
   each lemma fails when the function it names has been edited since (digest of ast.unparse, docstrings
   dropped; regenerated on every run into Generated/T_pins_p8.v). *)
From Coq Require Import ZArith List.
Import ListNotations.
Open Scope Z_scope.
From PV Require Import Generated.T_pins_p8.

Lemma pin__InvalidP8SectionError____init___ok : pin__InvalidP8SectionError____init__ = [63; 250; 91; 219; 96; 206; 55; 151].
Proof. reflexivity. Qed.
Lemma pin__mod___get_raw_data_from_p8_file_ok : pin__mod___get_raw_data_from_p8_file = [180; 136; 154; 255; 157; 67; 235; 85].
Proof. reflexivity. Qed.
Lemma pin__mod__get_root_include_path_ok : pin__mod__get_root_include_path = [255; 211; 50; 177; 46; 222; 239; 219].
Proof. reflexivity. Qed.
Lemma pin__mod__lines_for_tab_ok : pin__mod__lines_for_tab = [166; 153; 96; 242; 198; 134; 186; 183].
Proof. reflexivity. Qed.
Lemma pin__mod__process_includes_ok : pin__mod__process_includes = [101; 53; 46; 41; 221; 106; 209; 232].
Proof. reflexivity. Qed.
Lemma pin__P8Formatter__from_file_ok : pin__P8Formatter__from_file = [198; 99; 162; 166; 220; 249; 239; 94].
Proof. reflexivity. Qed.
Lemma pin__P8Formatter__to_file_ok : pin__P8Formatter__to_file = [1; 144; 55; 120; 150; 63; 219; 49].
Proof. reflexivity. Qed.

(* no function was added to or removed from the pinned classes *)
Lemma pin_names__p8_ok : pin_names__p8 =
  [[112; 105; 110; 95; 95; 73; 110; 118; 97; 108; 105; 100; 80; 56; 83; 101; 99; 116; 105; 111; 110; 69; 114; 114; 111; 114; 95; 95; 95; 95; 105; 110; 105; 116; 95; 95]; [112; 105; 110; 95; 95; 109; 111; 100; 95; 95; 95; 103; 101; 116; 95; 114; 97; 119; 95; 100; 97; 116; 97; 95; 102; 114; 111; 109; 95; 112; 56; 95; 102; 105; 108; 101]; [112; 105; 110; 95; 95; 109; 111; 100; 95; 95; 103; 101; 116; 95; 114; 111; 111; 116; 95; 105; 110; 99; 108; 117; 100; 101; 95; 112; 97; 116; 104]; [112; 105; 110; 95; 95; 109; 111; 100; 95; 95; 108; 105; 110; 101; 115; 95; 102; 111; 114; 95; 116; 97; 98]; [112; 105; 110; 95; 95; 109; 111; 100; 95; 95; 112; 114; 111; 99; 101; 115; 115; 95; 105; 110; 99; 108; 117; 100; 101; 115]; [112; 105; 110; 95; 95; 80; 56; 70; 111; 114; 109; 97; 116; 116; 101; 114; 95; 95; 102; 114; 111; 109; 95; 102; 105; 108; 101]; [112; 105; 110; 95; 95; 80; 56; 70; 111; 114; 109; 97; 116; 116; 101; 114; 95; 95; 116; 111; 95; 102; 105; 108; 101]].
Proof. reflexivity. Qed.
