(* The reader side of the .p8 round trip, part 1: the lines of the written file and what the
   section-collecting loop of _get_raw_data_from_p8_file makes of them. *)
From PV Require Import Base.Prelude Base.ListX Base.PySlice Base.Hex Base.Utf8 Base.Dec Model.HexSection Model.Gfx Model.Gff
  Model.MapSec Model.Sfx Model.Music Model.P8sciiInst Model.P8File Generated.K_p8file Generated.K_gfx
  Spec.P8Format Spec.P8FileSpec
  Proofs.HexSectionProofs Proofs.GfxProofs Proofs.MusicProofs Proofs.SfxProofs Proofs.SfxLines Proofs.C16Proofs
  Proofs.P8FileLines Proofs.P8FileEnc Proofs.P8FileWrite.
From Coq Require Import ZifyBool.
Ltac Zify.zify_post_hook ::= Z.to_euclidean_division_equations.

(* ---------- small list facts ---------- *)
Lemma span_spec (p : Z -> bool) l : forall a b, span p l = (a, b) ->
  l = a ++ b /\ forallb p a = true /\ match b with [] => True | c :: _ => p c = false end.
Proof.
  induction l as [|c l IH]; intros a b H.
  - cbn in H. injection H as <- <-. auto.
  - cbn [span] in H. destruct (p c) eqn:E.
    + destruct (span p l) as [a' b'] eqn:S. injection H as <- <-.
      destruct (IH a' b' eq_refl) as (-> & F & T). cbn [forallb]. rewrite E, F. auto.
    + injection H as <- <-. cbn. rewrite E. auto.
Qed.

Lemma span_all (p : Z -> bool) a b : forallb p a = true ->
  match b with [] => True | c :: _ => p c = false end -> span p (a ++ b) = (a, b).
Proof.
  intros Ha Hb. induction a as [|c a IH]; cbn [app span].
  - destruct b as [|c b]; [reflexivity|]. cbn [span]. rewrite Hb. reflexivity.
  - cbn [forallb] in Ha. apply andb_true_iff in Ha. destruct Ha as [H1 H2]. rewrite H1, IH by exact H2. reflexivity.
Qed.

Lemma Forall_concat_inv {A} (P : A -> Prop) (ls : list (list A)) : Forall P (concat ls) -> Forall (Forall P) ls.
Proof.
  induction ls as [|l ls IH]; intros H; [constructor|]. cbn [concat] in H. apply Forall_app in H.
  destruct H as [H1 H2]. constructor; [exact H1 | apply IH; exact H2].
Qed.

Lemma Forall_concat {A} (P : A -> Prop) (ls : list (list A)) : Forall (Forall P) ls -> Forall P (concat ls).
Proof. induction 1 as [|l ls Hl Hls IH]; [constructor|]. cbn [concat]. apply Forall_app. auto. Qed.

(* ---------- boolean recognisers for concrete lines ---------- *)
Definition nl_lineb (l : list Z) : bool :=
  match rev l with 10 :: b => forallb (fun c => negb (c =? 10)) b | _ => false end.
Lemma nl_lineb_spec l : nl_lineb l = true -> nl_line l.
Proof.
  unfold nl_lineb. intros H. destruct (rev l) as [|c b] eqn:E; [discriminate|].
  assert (L : l = rev b ++ [c]) by (rewrite <- (rev_involutive l), E; reflexivity).
  destruct (Z.eq_dec c 10) as [->|N].
  - exists (rev b). split; [exact L|]. apply Forall_rev. apply Forall_forall. intros x Hx.
    rewrite forallb_forall in H. specialize (H x Hx). lia.
  - destruct c as [|q|q]; try discriminate. repeat (destruct q as [q|q|]; try discriminate). lia.
Qed.

(* hex-ish bytes: what the data sections consist of *)
Definition hexish (c : Z) : bool := is_digit c || ((97 <=? c) && (c <=? 102)) || (c =? 32).
Definition hexline (l : list Z) : Prop := exists b, l = b ++ [10] /\ forallb hexish b = true.

Lemma hexish_facts c : hexish c = true -> plain_byte c = true /\ c <> 10 /\ c <> 95 /\ byte c.
Proof.
  unfold hexish, plain_byte, is_word, is_digit, byte. intros H.
  split; [lia|]. split; [lia|]. split; lia.
Qed.

Lemma hexline_facts l : hexline l ->
  nl_line l /\ Forall byte l /\ forallb plain_byte l = true /\ match_section l = None.
Proof.
  intros (b & -> & H). rewrite forallb_forall in H. repeat split.
  - exists b. split; [reflexivity|]. apply Forall_forall. intros x Hx. apply (hexish_facts x (H x Hx)).
  - apply Forall_app. split; [|repeat constructor; unfold byte; lia].
    apply Forall_forall. intros x Hx. apply (hexish_facts x (H x Hx)).
  - rewrite forallb_app. apply andb_true_iff. split; [|reflexivity].
    apply forallb_forall. intros x Hx. apply (hexish_facts x (H x Hx)).
  - destruct b as [|c b]; [reflexivity|]. cbn [app].
    assert (Hc : c <> 95) by (apply (hexish_facts c); apply H; left; reflexivity).
    cbn [match_section]. destruct c as [|q|q]; try reflexivity.
    repeat (destruct q as [q|q|]; try reflexivity); lia.
Qed.

Lemma hexd_hexish n : 0 <= n < 16 -> hexish (hexd n) = true.
Proof. intros H. unfold hexish, hexd, is_digit. destruct (n <? 10) eqn:E; lia. Qed.
Lemma hexbyte_hexish b : byte b -> forallb hexish (hexbyte b) = true.
Proof.
  intros H. unfold hexbyte, byte in *. cbn [forallb].
  rewrite !hexd_hexish by lia. reflexivity.
Qed.
Lemma flat_hexbyte_hexish l : Forall byte l -> forallb hexish (flat_map hexbyte l) = true.
Proof.
  induction 1 as [|b l Hb Hl IH]; [reflexivity|]. cbn [flat_map]. rewrite forallb_app, hexbyte_hexish, IH by exact Hb. reflexivity.
Qed.

Lemma spec_hex_row_hexline r : Forall byte r -> hexline (spec_hex_row r).
Proof. intros H. exists (flat_map hexbyte r). split; [reflexivity | apply flat_hexbyte_hexish; exact H]. Qed.

Lemma spec_gfx_row_hexline r : Forall byte r -> hexline (spec_gfx_row r).
Proof.
  intros H. eexists. split; [reflexivity|].
  induction H as [|b l Hb Hl IH]; [reflexivity|]. cbn [flat_map]. rewrite forallb_app, IH.
  unfold byte in Hb. cbn [forallb]. rewrite !hexd_hexish by lia. reflexivity.
Qed.

Lemma spec_music_row_hexline b0 b1 b2 b3 : byte b0 -> byte b1 -> byte b2 -> byte b3 ->
  hexline (spec_music_row [b0; b1; b2; b3]).
Proof.
  intros H0 H1 H2 H3. unfold spec_music_row, bit7, nl, byte in *.
  exists (hexbyte (b0 / 128 + 2 * (b1 / 128) + 4 * (b2 / 128)) ++ [32] ++ hexbyte (b0 mod 128) ++
          hexbyte (b1 mod 128) ++ hexbyte (b2 mod 128) ++ hexbyte (b3 mod 128)).
  split; [rewrite <- !app_assoc; reflexivity|].
  rewrite !forallb_app, !hexbyte_hexish by (unfold byte; lia). reflexivity.
Qed.

Lemma note_text_hexish l m : byte l -> byte m -> forallb hexish (spec_note_text l m) = true.
Proof.
  intros Hl Hm. unfold spec_note_text, note_word, w_pitch, w_waveform, w_volume, w_effect, byte in *.
  rewrite forallb_app, hexbyte_hexish by (unfold byte; lia). cbn [forallb].
  rewrite !hexd_hexish by lia. reflexivity.
Qed.

Lemma spec_notes_hexish : forall n q, (length q <= n)%nat -> Forall byte q -> forallb hexish (spec_notes q) = true.
Proof.
  induction n as [|n IH]; intros q Hq Hb.
  - destruct q; [reflexivity | cbn in Hq; lia].
  - destruct q as [|l [|m r]]; try reflexivity.
    inversion Hb as [|? ? Hl Hb1]; subst. inversion Hb1 as [|? ? Hm Hb2]; subst.
    cbn [spec_notes]. rewrite forallb_app, note_text_hexish by assumption.
    apply IH; [cbn in Hq; lia | exact Hb2].
Qed.

Lemma spec_sfx_row_hexline r : Forall byte r -> hexline (spec_sfx_row r).
Proof.
  intros H. unfold spec_sfx_row, nl. eexists. split; [rewrite app_assoc; reflexivity|].
  rewrite forallb_app, flat_hexbyte_hexish by (apply Forall_skipn; exact H).
  apply (spec_notes_hexish (length (firstn 64 r))); [lia | apply Forall_firstn; exact H].
Qed.

(* every line of every data section of a well-formed cart is a hex line *)
Lemma rows_of_bytes n d : Forall byte d -> Forall (Forall byte) (rows_of n d).
Proof. intros H. rewrite rows_of_chunks. apply chunks_bytes. exact H. Qed.

Lemma gfx_lines_hexline d : Forall byte d -> Forall hexline (gfx_to_lines d).
Proof.
  intros H. rewrite gfx_to_lines_spec by exact H. unfold spec_gfx_lines.
  apply Forall_forall. intros l Hl. apply in_map_iff in Hl. destruct Hl as (r & <- & Hr).
  apply spec_gfx_row_hexline. pose proof (rows_of_bytes 64 d H) as F. rewrite Forall_forall in F. apply F. exact Hr.
Qed.
Lemma hex_lines_hexline d : Forall byte d -> Forall hexline (spec_hex_lines d).
Proof.
  intros H. unfold spec_hex_lines. apply Forall_forall. intros l Hl. apply in_map_iff in Hl.
  destruct Hl as (r & <- & Hr). apply spec_hex_row_hexline.
  pose proof (rows_of_bytes 128 d H) as F. rewrite Forall_forall in F. apply F. exact Hr.
Qed.
Lemma sfx_lines_hexline d : Forall byte d -> Forall hexline (spec_sfx_lines d).
Proof.
  intros H. unfold spec_sfx_lines. apply Forall_forall. intros l Hl. apply in_map_iff in Hl.
  destruct Hl as (r & <- & Hr). apply spec_sfx_row_hexline.
  pose proof (rows_of_bytes 68 d H) as F. rewrite Forall_forall in F. apply F. exact Hr.
Qed.
Lemma music_lines_hexline k d : length d = (k * 4)%nat -> Forall byte d -> Forall hexline (spec_music_lines d).
Proof.
  intros Hk H. unfold spec_music_lines. rewrite rows_of_chunks.
  destruct (chunks_len 4 k d ltac:(lia) Hk) as [F _]. pose proof (chunks_bytes 4 d H) as B.
  apply Forall_forall. intros l Hl. apply in_map_iff in Hl. destruct Hl as (r & <- & Hr).
  rewrite Forall_forall in F, B. specialize (F r Hr). specialize (B r Hr).
  destruct r as [|b0 [|b1 [|b2 [|b3 [|x r]]]]]; try (cbn in F; lia).
  inversion B as [|? ? H0 B1]; subst. inversion B1 as [|? ? H1 B2]; subst.
  inversion B2 as [|? ? H2 B3]; subst. inversion B3 as [|? ? H3 _]; subst.
  apply spec_music_row_hexline; assumption.
Qed.

(* ---------- the header-like test of the specification vs the regex matcher ---------- *)
Lemma drop_last2_spec r : forall p, drop_last2 r = Some p -> r = p ++ [95; 95].
Proof.
  induction r as [|c r IH]; intros p H; [discriminate|].
  cbn [drop_last2] in H. destruct r as [|d [|e r']].
  - cbn in H. discriminate.
  - destruct ((c =? 95) && (d =? 95)) eqn:E; [|discriminate]. injection H as <-. cbn [app]. f_equal; [lia|f_equal; lia].
  - destruct (drop_last2 (d :: e :: r')) as [p'|] eqn:D; [|discriminate]. injection H as <-.
    rewrite (IH p' eq_refl). reflexivity.
Qed.

Lemma all_word_then_nl_app r : forallb is_word r = true -> all_word_then_nl (r ++ [10]) = true.
Proof.
  induction r as [|c r IH]; intros H; [reflexivity|]. cbn [forallb] in H. apply andb_true_iff in H. destruct H as [H1 H2].
  cbn [app all_word_then_nl].
  assert (W : word_byte c = true) by (unfold word_byte; unfold is_word, is_digit in H1; lia).
  rewrite W, IH by exact H2. destruct (r ++ [10]) eqn:E; [destruct r; discriminate | reflexivity].
Qed.

Lemma ends_uu_nl_cons c l : (2 < length l)%nat -> ends_uu_nl (c :: l) = ends_uu_nl l.
Proof. intros H. destruct l as [|a [|b [|d t]]]; cbn [length] in H; try lia; reflexivity. Qed.

Lemma ends_uu_nl_app p : ends_uu_nl (p ++ [95; 95; 10]) = true.
Proof.
  induction p as [|c p IH]; [reflexivity|]. cbn [app].
  rewrite ends_uu_nl_cons by (rewrite app_length; cbn [length]; lia). exact IH.
Qed.

Lemma header_like_match l : nl_line l -> header_like l = false -> match_section l = None.
Proof.
  intros (b & -> & Hn) H.
  destruct (match_section (b ++ [10])) as [g|] eqn:M; [exfalso | reflexivity].
  destruct b as [|c0 [|c1 t]]; try discriminate.
  { cbn in M. destruct c0 as [|q|q]; try discriminate. repeat (destruct q as [q|q|]; try discriminate). }
  cbn [app] in M, H.
  assert (c0 = 95 /\ c1 = 95) as [-> ->].
  { cbn [match_section] in M.
    destruct c0 as [|q|q]; try discriminate; repeat (destruct q as [q|q|]; try discriminate).
    destruct c1 as [|q|q]; try discriminate; repeat (destruct q as [q|q|]; try discriminate). auto. }
  cbn [match_section] in M. cbn [header_like] in H.
  assert (Hnt : no_nl t).
  { inversion Hn as [|? ? _ Hn1]; subst. inversion Hn1 as [|? ? _ Hnt]; subst. exact Hnt. }
  destruct (span is_word (t ++ [10])) as [r rest] eqn:S.
  destruct (span_spec _ _ _ _ S) as (E & Fw & Hd).
  destruct rest as [|x rest]; [discriminate|].
  assert (x = 10) as ->.
  { destruct x as [|q|q]; try discriminate; repeat (destruct q as [q|q|]; try discriminate). reflexivity. }
  destruct (drop_last2 r) as [[|c p]|] eqn:D; try discriminate.
  apply drop_last2_spec in D.
  (* r has no newline, t ++ [10] = r ++ 10 :: rest with no newline in t: so r = t, rest = [] *)
  assert (R : t = r /\ rest = []).
  { clear - E Fw Hnt. revert r E Fw. induction t as [|a t IH]; intros r E Fw.
    - destruct r as [|y r]; [cbn in E; injection E as <-; auto|].
      cbn in E. injection E as <- E. cbn [forallb] in Fw. destruct r; discriminate.
    - inversion Hnt as [|? ? Ha Hnt']; subst. destruct r as [|y r].
      + cbn in E. injection E as -> _. lia.
      + cbn in E. injection E as <- E. cbn [forallb] in Fw. apply andb_true_iff in Fw.
        destruct (IH Hnt' r E (proj2 Fw)) as [-> ->]. auto. }
  destruct R as [-> ->].
  assert (X : all_word_then_nl (r ++ [10]) && ends_uu_nl (r ++ [10]) && (4 <=? zlen (r ++ [10])) = true).
  { rewrite all_word_then_nl_app by exact Fw. rewrite D.
    replace (((c :: p) ++ [95; 95]) ++ [10]) with ((c :: p) ++ [95; 95; 10]) by (rewrite <- app_assoc; reflexivity).
    rewrite ends_uu_nl_app. unfold zlen. rewrite app_length. cbn [length]. lia. }
  rewrite X in H. discriminate.
Qed.
