(* C03 with the Lua object instantiated by the lexer model, for carts whose code was lexed from a source of the
   reference dialect: no side condition about carriage returns is left, neither for the written cart nor for the
   re-read one, because the text the echo writer yields for a source of the dialect is again in the dialect
   (EchoRelexSpec.echo_in_dialect, property C06's reference-side re-lex clause) - so the property "came from a
   source of the dialect" is inherited by the re-read cart and the round trip can be iterated. *)
From PV Require Import Base.Prelude Base.ListX Model.P8File Generated.T_lexer Model.Lexer Model.EchoWriter
  Spec.LuaLex Spec.P8Format Spec.P8FileSpec Instances.HoldsC01 Instances.HoldsC06
  Proofs.LuaLexFacts Proofs.SpecLexChunk Proofs.LexerChunk Proofs.EchoProofs Proofs.EchoStable Proofs.EchoRelexSpec
  Proofs.P8FileLines Proofs.P8FileWrite Proofs.P8FileRoundtrip Proofs.P8FileRewrite Proofs.P8FileLua.

(* the cart's Lua object was lexed from a byte text of the reference dialect, split after line feeds *)
Definition from_dialect (c : lex_cart) : Prop :=
  exists ls0, Forall ends_lf (removelast ls0) /\ Forall byte (concat ls0) /\ spec_lex (concat ls0) <> None /\
              model_lex ls0 = Ok (c_lua c).

Lemma from_dialect_lexer c : from_dialect c -> from_lexer c.
Proof. intros (ls0 & HF & _ & _ & HL). exists ls0. split; assumption. Qed.

Lemma from_dialect_no_lone_cr c : from_dialect c -> no_lone_cr_newline (c_lua c).
Proof.
  intros (ls0 & HF & HB & Hs & HL). destruct (spec_lex (concat ls0)) as [ss|] eqn:Es; [|congruence].
  apply (dialect_no_lone_cr ls0 _ ss HF HB Es HL).
Qed.

(* the echoed text of such a cart is a text of the dialect *)
Lemma from_dialect_echo c : from_dialect c -> spec_lex (concat (echo (c_lua c))) <> None.
Proof.
  intros (ls0 & HF & HB & Hs & HL). destruct (spec_lex (concat ls0)) as [ss|] eqn:Es; [|congruence].
  destruct (echo_in_dialect _ ss HB Es) as (lines & ss' & El & Es' & _).
  rewrite <- (echo_source_chunking ls0 HF) in El. unfold echo_source in El. rewrite HL in El. injection El as <-.
  rewrite Es'. discriminate.
Qed.

Lemma spec_lex_supply_nl t : spec_lex t <> None -> spec_lex (supply_nl t) <> None.
Proof.
  intros H. unfold supply_nl. destruct (ends_nl t); [exact H|].
  destruct (spec_toks t) as [ta|] eqn:E.
  - pose proof (spec_toks_final_lf _ _ E) as E2. unfold spec_toks in E2. destruct (spec_lex (t ++ [10])); [discriminate | discriminate].
  - unfold spec_toks in E. destruct (spec_lex t); [discriminate | congruence].
Qed.

Theorem p8_roundtrip_lexer_dialect (c : lex_cart) :
  wf_cart (list tok) echo c -> from_dialect c ->
  code_in_format (concat (echo (c_lua c))) = true ->
  exists file l',
    lex_write c = Ok file /\
    lex_read file = Ok (norm_cart (list tok) c l') /\
    concat (echo l') = supply_nl (concat (echo (c_lua c))) /\
    lex_write (norm_cart (list tok) c l') = Ok file /\
    from_dialect (norm_cart (list tok) c l').
Proof.
  intros W FD Hf. pose proof (from_dialect_lexer c FD) as FL. pose proof (from_dialect_no_lone_cr c FD) as Hn.
  destruct (p8_roundtrip_lexer_full c W FL Hn Hf) as (file & l' & A & B & C & D).
  (* l' was lexed from the lines of the written text, a byte text of the dialect *)
  pose proof W as (_ & _ & _ & _ & _ & _ & _ & _ & _ & _ & _ & _ & Hch).
  destruct (code_lines_facts (list tok) echo c Hch) as (FN & CC & _).
  assert (HF' : Forall ends_lf (removelast (code_lines (list tok) echo c))).
  { apply Forall_removelast. eapply Forall_impl; [|exact FN]. intros a Ha. apply nl_line_ends_lf. exact Ha. }
  destruct FL as (ls0 & HF0 & HL0).
  destruct (sanity_relex ls0 (c_lua c) HF0 HL0 Hn) as (l0 & Hs).
  assert (E0 : echo_source ls0 = Ok (echo (c_lua c))) by (unfold echo_source; rewrite HL0; reflexivity).
  assert (He : ended_flag (echo (c_lua c)) = ends_with_nl (code_text (list tok) echo c)).
  { apply ended_flag_text. apply last_nonempty. apply (echo_chunks_nonempty ls0). exact E0. }
  destruct (p8_roundtrip (list tok) model_lex echo [] c l0 W Hs He Hf) as (file2 & Wf & _ & Rf).
  unfold lex_write in A. rewrite Wf in A. injection A as <-. unfold lex_read in B.
  rewrite Rf in B. destruct (model_lex (code_lines (list tok) echo c)) as [l2|e] eqn:EL; [|discriminate].
  cbn [bind] in B. injection B as B. subst l2.
  pose proof (from_dialect_echo c FD) as Hd.
  assert (Hby : Forall byte (concat (echo (c_lua c)))) by (apply Forall_concat; exact Hch).
  assert (FD' : from_dialect (norm_cart (list tok) c l')).
  { exists (code_lines (list tok) echo c). rewrite CC. split; [exact HF'|]. unfold code_text.
    split; [|split; [apply spec_lex_supply_nl, Hd | exact EL]].
    unfold supply_nl. destruct (ends_nl (concat (echo (c_lua c)))); [exact Hby|]. apply Forall_app. split; [exact Hby|].
    constructor; [unfold byte; lia | constructor]. }
  exists file2, l'. split; [exact Wf|]. split; [unfold lex_read; rewrite Rf; reflexivity|]. split; [exact C|].
  split; [apply D, (from_dialect_no_lone_cr _ FD') | exact FD'].
Qed.
Print Assumptions p8_roundtrip_lexer_dialect.
