(* What the text written by LuaMinifyTokenWriter is, relative to the input tokens (Part 4 of the
   C01 / C19 proofs): no lone carriage return, same views, renaming = the name factory's answers,
   same line groups, same token count, header comments first. *)
From PV Require Import Base.Prelude Base.PySlice Spec.LuaLex Instances.HoldsC02 Instances.HoldsC01 Proofs.LuaLexFacts.
From PV Require Import Generated.T_lexer Generated.T_luanames Generated.T_minifier Model.NameFactory Model.Lexer
  Model.TokWriters Proofs.NameFactoryProofs Proofs.HoldsC02Proofs Proofs.TokWritersProofs Proofs.MinifyRelex.
From Coq Require Import ZifyBool Lia.

(* ---------- carriage returns ---------- *)
Definition cr_ok (c : list Z) : Prop := crlf_only c = true /\ no_final_cr c.
Definition nocr (c : list Z) : bool := forallb (fun x => negb (x =? 13)) c.

Lemma nocr_cr_ok c : nocr c = true -> cr_ok c.
Proof. apply no_cr_crlf. Qed.

Lemma forallb_nocr (p : Z -> bool) a : forallb p a = true -> p 13 = false -> nocr a = true.
Proof.
  intros Ha H13. unfold nocr. apply forallb_forall. intros x Hx. rewrite forallb_forall in Ha. specialize (Ha x Hx).
  apply negb_true_iff. apply Z.eqb_neq. intros ->. congruence.
Qed.

Lemma crlf_txt : forall F : list tchunk, Forall (fun tc => cr_ok (fst tc)) F -> crlf_only (txt F) = true.
Proof.
  induction F as [|[c t] F IH]; intros H; [reflexivity|]. inversion H as [|? ? [Hc Hn] HF]; subst.
  unfold txt. cbn [map fst concat]. apply crlf_only_app; [exact Hc | exact Hn | apply IH, HF].
Qed.

Lemma space_tagged_cr : forall tcs prev, Forall (fun tc => cr_ok (fst tc)) tcs ->
  Forall (fun tc => cr_ok (fst tc)) (space_tagged prev tcs).
Proof.
  induction tcs as [|[c t] r IH]; intros prev H; [constructor|]. inversion H as [|? ? Hc Hr]; subst.
  cbn [space_tagged]. destruct (fuses prev c).
  - constructor; [apply nocr_cr_ok; reflexivity|]. constructor; [exact Hc | apply IH, Hr].
  - constructor; [exact Hc | apply IH, Hr].
Qed.

(* tokens whose source text is written verbatim *)
Definition tok_cr (s : stok) : Prop :=
  match s_kind s with
  | SComment | SKeyword | SNumber | SSymbol => cr_ok (s_raw s)
  | SString => 0 <= s_long s -> cr_ok (s_raw s)
  | _ => True
  end.

Lemma symbols_nocr : forallb nocr spec_symbols = true.
Proof. vm_compute. reflexivity. Qed.

Lemma no_final_cr_closer n x : no_final_cr (x ++ closer n).
Proof.
  unfold closer. change (93 :: repeat 61 n ++ [93]) with ((93 :: repeat 61 n) ++ [93]). rewrite app_assoc.
  apply no_final_cr_last. discriminate.
Qed.

Lemma step_cr s t rest : spec_step s = Some (t, rest) -> crlf_only s = true -> tok_cr t /\ crlf_only rest = true.
Proof.
  intros H Hc. destruct (spec_step_split _ _ _ H) as (Hs & _). rewrite Hs in Hc.
  split; [|eapply crlf_only_suffix, Hc].
  assert (Hpre : no_final_cr (s_raw t) -> cr_ok (s_raw t)).
  { intros Hn. split; [eapply crlf_only_prefix; eassumption | exact Hn]. }
  assert (Hno : nocr (s_raw t) = true -> cr_ok (s_raw t)) by apply nocr_cr_ok.
  apply spec_step_shape in H. unfold tok_cr. destruct H; cbn [s_kind mk s_raw s_long] in *; try exact I.
  - (* block comment *)
    apply Hpre. destruct (long_body_ctx _ _ _ _ _ H0) as (-> & _ & _).
    change (45 :: 45 :: 91 :: 91 :: b ++ closer 0) with ((45 :: 45 :: 91 :: 91 :: b) ++ closer 0). apply no_final_cr_closer.
  - apply Hno. apply span_all in H0. eapply forallb_nocr; [exact H0 | reflexivity].
  - apply Hno. apply span_all in H. eapply forallb_nocr; [exact H | reflexivity].
  - (* long string *)
    intros _. apply Hpre. destruct (long_body_ctx _ _ _ _ _ H0) as (-> & _ & _).
    change (91 :: repeat 61 (Z.to_nat lvl) ++ 91 :: b ++ closer (Z.to_nat lvl))
      with ((91 :: repeat 61 (Z.to_nat lvl)) ++ 91 :: b ++ closer (Z.to_nat lvl)).
    replace ((91 :: repeat 61 (Z.to_nat lvl)) ++ 91 :: b ++ closer (Z.to_nat lvl))
      with (((91 :: repeat 61 (Z.to_nat lvl)) ++ 91 :: b) ++ closer (Z.to_nat lvl)) by (rewrite <- app_assoc; reflexivity).
    apply no_final_cr_closer.
  - (* quoted string *) intros Hl. lia.
  - (* number *)
    pose proof (spec_number_kind _ _ _ H0) as K. rewrite K. apply Hno.
    unfold spec_number in H0. destruct (num_split s) as [run r0] eqn:E.
    destruct (spec_numeral run) as [[n d]|]; [|discriminate]. injection H0 as <- <-. cbn [s_raw].
    eapply forallb_nocr; [eapply num_split_chars, E | reflexivity].
  - (* word *)
    destruct (word_shape _ _ _ _ H H0) as (Hn & _). apply is_name_all in Hn.
    destruct (mem_bytes a spec_keywords); cbn [s_kind mk s_raw]; [|exact I].
    apply Hno. eapply forallb_nocr; [exact Hn | reflexivity].
  - (* symbol *)
    destruct (spec_symbol_inv _ _ _ H) as (x & Hx & -> & _). cbn [s_kind mk s_raw]. apply Hno.
    pose proof symbols_nocr as T. rewrite forallb_forall in T. apply T, Hx.
Qed.

Lemma chain_cr : forall s ts, chain s ts -> crlf_only s = true -> Forall tok_cr ts.
Proof.
  induction 1 as [|s t rest ts Hs Hc IH]; intros Hcr; [constructor|].
  destruct (step_cr _ _ _ Hs Hcr) as (Ht & Hr). constructor; [exact Ht | apply IH, Hr].
Qed.

Lemma chain_shaped : forall s ts, chain s ts -> Forall shaped ts.
Proof.
  induction 1 as [|s t rest ts Hs Hc IH]; [constructor|]. constructor; [|exact IH].
  exists s, rest. apply spec_step_shape, Hs.
Qed.

(* the re-spelled text of a quoted string has no carriage return *)
Lemma table_nocr : forallb (fun kv => nocr (snd kv)) string_reverse_escapes = true.
Proof. vm_compute. reflexivity. Qed.

Lemma nocr_app a b : nocr (a ++ b) = nocr a && nocr b.
Proof. unfold nocr. apply forallb_app. Qed.

Lemma nocr_cons c l : nocr (c :: l) = negb (c =? 13) && nocr l.
Proof. reflexivity. Qed.

Lemma escape_bytes_nocr q : nocr q = true -> forall data, nocr (escape_bytes q data) = true.
Proof.
  intros Hq. induction data as [|c r IH]; [reflexivity|]. cbn [escape_bytes].
  destruct (lookup_bytes string_reverse_escapes [c]) as [e|] eqn:El.
  - assert (He : nocr e = true).
    { apply lookup_bytes_In in El. pose proof table_nocr as T. rewrite forallb_forall in T. apply (T _ El). }
    set (e' := if all_digits e && _ then rjust3 e else e).
    assert (He' : nocr e' = true).
    { unfold e'. destruct (all_digits e && _); [|exact He]. unfold rjust3. rewrite nocr_app, He, andb_true_r.
      unfold nocr. apply forallb_forall. intros x Hx. apply repeat_spec in Hx. subst x. reflexivity. }
    rewrite nocr_cons, nocr_app, He', IH. reflexivity.
  - assert (Hc : (c =? 13) = false).
    { destruct (c =? 13) eqn:E; [|reflexivity]. apply Z.eqb_eq in E. subst c.
      exfalso. apply (lookup_special_some 13); [auto | exact El]. }
    destruct (zlist_eqb [c] q); rewrite !nocr_cons, ?Hc, IH; reflexivity.
Qed.

Lemma name_nocr o : is_name o = true -> nocr o = true.
Proof. intros H. apply is_name_all in H. eapply forallb_nocr; [exact H | reflexivity]. Qed.

Lemma string_code_cr s : shaped s -> s_kind s = SString -> tok_cr s -> cr_ok (spec_code s).
Proof.
  intros (src & rest & H) K Hcr. unfold tok_cr in Hcr. rewrite K in Hcr. unfold spec_code. rewrite K.
  destruct H; try discriminate K.
  - destruct (long_open_spec _ _ _ _ H) as (k & Hk & _). cbn in Hk. cbn [s_long] in *.
    replace (lvl <? 0) with false by lia. apply Hcr. lia.
  - cbn [s_long s_raw s_text firstn]. change (-1 <? 0) with true. cbv iota. apply nocr_cr_ok. unfold reencode.
    assert (Hq : nocr [q] = true) by (destruct H; subst q; reflexivity).
    rewrite !nocr_app, Hq, (escape_bytes_nocr [q] Hq). reflexivity.
  - apply spec_number_kind in H0. congruence.
  - destruct (mem_bytes a spec_keywords); discriminate K.
  - apply spec_symbol_kind in H. congruence.
Qed.

Lemma Forall_tsp (b : bool) (l : list tchunk) :
  Forall (fun tc => cr_ok (fst tc)) l -> Forall (fun tc => cr_ok (fst tc)) (tsp b ++ l).
Proof. intros H. destruct b; cbn [tsp app]; [constructor; [apply nocr_cr_ok; reflexivity | exact H] | exact H]. Qed.

Lemma Forall_one (c : list Z) (t : stok) : cr_ok c -> Forall (fun tc : tchunk => cr_ok (fst tc)) [(c, t)].
Proof. intros H. constructor; [exact H | constructor]. Qed.

Lemma tstep_cr cfg st s st' cs : shaped s -> tok_cr s -> inv cfg (w_fac st) -> tstep cfg st s = Ok (st', cs) ->
  Forall (fun tc => cr_ok (fst tc)) cs /\ inv cfg (w_fac st').
Proof.
  intros Hs Hcr Hinv Et. unfold tstep in Et.
  assert (Hnl : cr_ok [10]) by (apply nocr_cr_ok; reflexivity).
  destruct (negb (w_seen st || negb (is_trivia_kind (kind_of (s_kind s)))) && (w_hdr st <? 2) &&
            is_comment_kind (kind_of (s_kind s))) eqn:Eh.
  - injection Et as <- <-. split; [|exact Hinv].
    assert (K : s_kind s = SComment).
    { apply andb_true_iff in Eh. destruct Eh as [_ Eh]. destruct (s_kind s); try discriminate Eh; reflexivity. }
    unfold tok_cr in Hcr. unfold spec_code. rewrite K in *. constructor; [exact Hcr | apply Forall_one, Hnl].
  - destruct (s_kind s) eqn:K; cbn [kind_of] in Et.
    + injection Et as <- <-. split; [constructor | exact Hinv].
    + injection Et as <- <-. split; [|exact Hinv]. destruct (w_lnl st); [constructor | apply Forall_one, Hnl].
    + injection Et as <- <-. split; [constructor | exact Hinv].
    + injection Et as <- <-. split; [|exact Hinv]. apply Forall_one. apply string_code_cr; assumption.
    + injection Et as <- <-. split; [|exact Hinv]. apply Forall_tsp, Forall_one.
      unfold tok_cr in Hcr. unfold spec_code. rewrite K in *. exact Hcr.
    + assert (Hcode : spec_code s = s_raw s) by (unfold spec_code; rewrite K; reflexivity). rewrite Hcode in *.
      destruct (get_short_name cfg (w_fac st) (s_raw s)) as [[fac o]|e] eqn:Eg; cbn [bind] in Et; [|discriminate].
      injection Et as <- <-. destruct (get_short_name_out _ _ _ _ _ Hinv Eg) as (Hinv' & Ho). split; [|exact Hinv'].
      apply Forall_tsp, Forall_one. apply nocr_cr_ok.
      destruct (shaped_name s Hs K) as [Hq | (Hn & Hk & Hsn)].
      * subst s. cbn [s_raw mk] in *. rewrite (get_short_name_preserved cfg (w_fac st) [63] qmark_preserved) in Eg.
        injection Eg as <- <-. reflexivity.
      * apply name_nocr. destruct Ho as [->|Hg]; [exact Hn | apply generated_name, Hg].
    + assert (Hcode : spec_code s = s_raw s) by (unfold spec_code; rewrite K; reflexivity). rewrite Hcode in *.
      destruct (shaped_label s Hs K) as (n & Hn & Hsn).
      assert (Hraw : s_raw s = 58 :: 58 :: n ++ [58; 58]) by (rewrite Hsn; reflexivity).
      rewrite Hraw, label_name_code in Et.
      destruct (get_short_name cfg (w_fac st) n) as [[fac o]|e] eqn:Eg; cbn [bind] in Et; [|discriminate].
      injection Et as <- <-. destruct (get_short_name_out _ _ _ _ _ Hinv Eg) as (Hinv' & Ho). split; [|exact Hinv'].
      apply Forall_one. apply nocr_cr_ok.
      assert (Hon : nocr o = true). { apply name_nocr. destruct Ho as [->|Hg]; [exact Hn | apply generated_name, Hg]. }
      rewrite !nocr_cons, nocr_app, Hon. reflexivity.
    + injection Et as <- <-. split; [|exact Hinv]. apply Forall_tsp, Forall_one.
      unfold tok_cr in Hcr. unfold spec_code. rewrite K in *. exact Hcr.
    + injection Et as <- <-. split; [|exact Hinv]. apply Forall_one.
      unfold tok_cr in Hcr. unfold spec_code. rewrite K in *. exact Hcr.
Qed.

Lemma tchunks_cr cfg : forall ss st tcs, Forall shaped ss -> Forall tok_cr ss -> inv cfg (w_fac st) ->
  tchunks_from cfg st ss = Ok tcs -> Forall (fun tc => cr_ok (fst tc)) tcs.
Proof.
  induction ss as [|s r IH]; intros st tcs Hsh Hcr Hinv Ht; [injection Ht as <-; constructor|].
  inversion Hsh as [|? ? Hs Hr]; subst. inversion Hcr as [|? ? Hc Hcr']; subst. cbn [tchunks_from] in Ht.
  destruct (tstep cfg st s) as [[st' cs]|e] eqn:Et; cbn [bind] in Ht; [|discriminate].
  destruct (tchunks_from cfg st' r) as [rest|e] eqn:Er; cbn [bind] in Ht; [|discriminate]. injection Ht as <-.
  destruct (tstep_cr _ _ _ _ _ Hs Hc Hinv Et) as (H1 & Hinv'). apply Forall_app. split; [exact H1|].
  eapply IH; eassumption.
Qed.

(* ---------- the written text is a token sequence of the dialect ---------- *)
Lemma minify_gen_tagged cfg ss chunks : minify_gen cfg (map sk ss) = Ok chunks ->
  exists tcs, tchunks_from cfg init_wstate ss = Ok tcs /\ chunks = map fst (space_tagged [] tcs).
Proof.
  unfold minify_gen, minified_chunks. rewrite tchunks_chunks.
  destruct (tchunks_from cfg init_wstate ss) as [tcs|e]; cbn [bind]; [|discriminate].
  intros [= <-]. exists tcs. split; [reflexivity|]. symmetry. apply space_tagged_chunks.
Qed.

Lemma inv_init_w cfg : inv cfg (w_fac init_wstate).
Proof. apply inv_init. Qed.

Lemma relex cfg src ss chunks : spec_toks src = Some ss -> minify_gen cfg (map sk ss) = Ok chunks ->
  exists tcs, tchunks_from cfg init_wstate ss = Ok tcs /\ chunks = map fst (space_tagged [] tcs) /\
    spec_toks (concat chunks) = Some (tks (space_tagged [] tcs)).
Proof.
  intros Hsrc Hm. destruct (spec_toks_chain _ _ Hsrc) as (Hcr & Hch).
  destruct (minify_gen_tagged _ _ _ Hm) as (tcs & Ht & ->). exists tcs. split; [exact Ht|]. split; [reflexivity|].
  pose proof (chain_shaped _ _ Hch) as Hsh. pose proof (chain_cr _ _ Hch Hcr) as Hcrs.
  destruct (relex_from cfg ss init_wstate [] PStart tcs Hsh (inv_init_w cfg) Ht (or_introl eq_refl)) as (_ & HC).
  apply chain_spec_toks; [|exact HC]. apply crlf_txt, space_tagged_cr.
  eapply tchunks_cr; [exact Hsh | exact Hcrs | apply inv_init_w | exact Ht].
Qed.

(* ---------- the significant tokens ---------- *)
Lemma sig_toks_app a b : sig_toks (a ++ b) = sig_toks a ++ sig_toks b.
Proof. unfold sig_toks. apply filter_app. Qed.

Lemma sig_toks_cons t l : sig_toks (t :: l) = (if is_trivia t then [] else [t]) ++ sig_toks l.
Proof. unfold sig_toks. cbn [filter]. destruct (is_trivia t); reflexivity. Qed.

Lemma sig_space_tagged : forall tcs prev, sig_toks (tks (space_tagged prev tcs)) = sig_toks (tks tcs).
Proof.
  induction tcs as [|[c t] r IH]; intros prev; [reflexivity|]. cbn [space_tagged]. destruct (fuses prev c);
    unfold tks in *; cbn [map snd]; rewrite !sig_toks_cons, IH; reflexivity.
Qed.

Lemma sig_tsp b l : sig_toks (tks (tsp b ++ l)) = sig_toks (tks l).
Proof. destruct b; reflexivity. Qed.

Lemma same_view_refl s : s_kind s <> SName -> same_view s s = true.
Proof.
  intros K. unfold same_view, kind_eqb. rewrite Z.eqb_refl. cbn [andb].
  destruct (s_kind s); try apply zlist_eqb_eq; try reflexivity; [apply Z.eqb_refl | congruence].
Qed.

Lemma name_not_qmark n : is_name n = true -> zlist_eqb n [63] = false.
Proof.
  destruct n as [|c r]; [reflexivity|]. cbn [is_name]. intros H. apply andb_true_iff in H. destruct H as [H _].
  cbn [zlist_eqb]. replace (c =? 63) with false; [reflexivity|]. unfold is_name_start, is_alpha in H. lia.
Qed.

(* one step of the writer, seen on the significant tokens and on the name factory *)
Lemma tstep_sig cfg st s st' cs : shaped s -> inv cfg (w_fac st) -> tstep cfg st s = Ok (st', cs) ->
  inv cfg (w_fac st') /\
  ((is_trivia s = true /\ sig_toks (tks cs) = [] /\ w_fac st' = w_fac st) \/
   (is_trivia s = false /\ exists t', sig_toks (tks cs) = [t'] /\ same_view s t' = true /\
      ((is_ident s = true /\ is_ident t' = true /\
        get_short_name cfg (w_fac st) (s_text s) = Ok (w_fac st', s_text t')) \/
       (is_ident s = false /\ is_ident t' = false /\ w_fac st' = w_fac st)))).
Proof.
  intros Hs Hinv Et. unfold tstep in Et.
  destruct (negb (w_seen st || negb (is_trivia_kind (kind_of (s_kind s)))) && (w_hdr st <? 2) &&
            is_comment_kind (kind_of (s_kind s))) eqn:Eh.
  - injection Et as <- <-. split; [exact Hinv|]. left.
    assert (K : s_kind s = SComment).
    { apply andb_true_iff in Eh. destruct Eh as [_ Eh]. destruct (s_kind s); try discriminate Eh; reflexivity. }
    unfold is_trivia, tks, sig_toks. cbn [map snd filter]. unfold is_trivia. rewrite K. auto.
  - destruct (s_kind s) eqn:K; cbn [kind_of] in Et.
    + injection Et as <- <-. split; [exact Hinv|]. left. unfold is_trivia. rewrite K. auto.
    + injection Et as <- <-. split; [exact Hinv|]. left. unfold is_trivia. rewrite K. destruct (w_lnl st); auto.
    + injection Et as <- <-. split; [exact Hinv|]. left. unfold is_trivia. rewrite K. auto.
    + (* string *) injection Et as <- <-. split; [exact Hinv|]. right. unfold is_trivia. rewrite K. split; [reflexivity|].
      exists (out_tok s []). unfold tks, sig_toks. cbn [map snd filter].
      assert (Hk : s_kind (out_tok s []) = SString) by (unfold out_tok; rewrite K; destruct (s_long s <? 0); [reflexivity | exact K]).
      assert (Htx : s_text (out_tok s []) = s_text s) by (unfold out_tok; rewrite K; destruct (s_long s <? 0); reflexivity).
      unfold is_trivia. rewrite Hk. cbn [negb]. split; [reflexivity|]. split.
      * unfold same_view, kind_eqb. rewrite K, Hk, Htx. cbn. apply zlist_eqb_eq. reflexivity.
      * right. unfold is_ident. rewrite K, Hk. auto.
    + (* number *) injection Et as <- <-. split; [exact Hinv|]. right. unfold is_trivia. rewrite K. split; [reflexivity|].
      exists s. rewrite sig_tsp. unfold tks, sig_toks. cbn [map snd filter]. unfold is_trivia. rewrite K. cbn [negb].
      split; [reflexivity|]. split; [apply same_view_refl; congruence|]. right. unfold is_ident. rewrite K. auto.
    + (* name *)
      assert (Hcode : spec_code s = s_raw s) by (unfold spec_code; rewrite K; reflexivity). rewrite Hcode in *.
      destruct (get_short_name cfg (w_fac st) (s_raw s)) as [[fac o]|e] eqn:Eg; cbn [bind] in Et; [|discriminate].
      injection Et as <- <-. destruct (get_short_name_out _ _ _ _ _ Hinv Eg) as (Hinv' & Ho). split; [exact Hinv'|].
      right. unfold is_trivia. rewrite K. split; [reflexivity|]. exists (mk SName o o).
      assert (Hot : out_tok s o = mk SName o o) by (unfold out_tok; rewrite K; reflexivity). rewrite Hot.
      rewrite sig_tsp. split; [reflexivity|].
      destruct (shaped_name s Hs K) as [Hq | (Hn & Hk & Hsn)].
      * subst s. cbn [s_raw mk] in *. rewrite (get_short_name_preserved cfg (w_fac st) [63] qmark_preserved) in Eg.
        injection Eg as <- <-. split; [reflexivity|]. right. auto.
      * assert (Hon : is_name o = true) by (destruct Ho as [->|Hg]; [exact Hn | apply generated_name, Hg]).
        pose proof (name_not_qmark _ Hn) as Q1. pose proof (name_not_qmark _ Hon) as Q2. split.
        -- unfold same_view, kind_eqb, is_qmark. rewrite K. cbn [s_kind mk s_raw]. rewrite Q1, Q2. reflexivity.
        -- left. unfold is_ident, is_qmark. rewrite K. cbn [s_kind mk s_raw s_text]. rewrite Q1, Q2.
           split; [reflexivity|]. split; [reflexivity|]. rewrite Hsn. cbn [s_text mk]. exact Eg.
    + (* label *)
      assert (Hcode : spec_code s = s_raw s) by (unfold spec_code; rewrite K; reflexivity). rewrite Hcode in *.
      destruct (shaped_label s Hs K) as (n & Hn & Hsn).
      assert (Hraw : s_raw s = 58 :: 58 :: n ++ [58; 58]) by (rewrite Hsn; reflexivity).
      rewrite Hraw, label_name_code in Et.
      destruct (get_short_name cfg (w_fac st) n) as [[fac o]|e] eqn:Eg; cbn [bind] in Et; [|discriminate].
      injection Et as <- <-. destruct (get_short_name_out _ _ _ _ _ Hinv Eg) as (Hinv' & Ho). split; [exact Hinv'|].
      right. unfold is_trivia. rewrite K. split; [reflexivity|].
      assert (Hot : out_tok s o = mk SLabel (58 :: 58 :: o ++ [58; 58]) o) by (unfold out_tok; rewrite K; reflexivity).
      rewrite Hot. eexists. split; [reflexivity|]. split.
      * unfold same_view, kind_eqb. rewrite K. reflexivity.
      * left. unfold is_ident. rewrite K. cbn [s_kind mk s_text]. split; [reflexivity|]. split; [reflexivity|].
        rewrite Hsn. cbn [s_text mk]. exact Eg.
    + (* keyword *) injection Et as <- <-. split; [exact Hinv|]. right. unfold is_trivia. rewrite K. split; [reflexivity|].
      exists s. rewrite sig_tsp. unfold tks, sig_toks. cbn [map snd filter]. unfold is_trivia. rewrite K. cbn [negb].
      split; [reflexivity|]. split; [apply same_view_refl; congruence|]. right. unfold is_ident. rewrite K. auto.
    + (* symbol *) injection Et as <- <-. split; [exact Hinv|]. right. unfold is_trivia. rewrite K. split; [reflexivity|].
      assert (Hot : out_tok s [] = s) by (unfold out_tok; rewrite K; reflexivity). rewrite Hot.
      exists s. unfold tks, sig_toks. cbn [map snd filter]. unfold is_trivia. rewrite K. cbn [negb].
      split; [reflexivity|]. split; [apply same_view_refl; congruence|]. right. unfold is_ident. rewrite K. auto.
Qed.

Lemma ident_names_cons t l : ident_names (t :: l) = (if is_ident t then [s_text t] else []) ++ ident_names l.
Proof. unfold ident_names. cbn [filter]. destruct (is_ident t); reflexivity. Qed.

Lemma tchunks_sig cfg : forall ss st tcs, Forall shaped ss -> inv cfg (w_fac st) -> tchunks_from cfg st ss = Ok tcs ->
  all2 same_view (sig_toks ss) (sig_toks (tks tcs)) = true /\
  exists stf, run_from cfg (w_fac st) (ident_names (sig_toks ss)) = Ok (stf, ident_names (sig_toks (tks tcs))).
Proof.
  induction ss as [|s r IH]; intros st tcs Hsh Hinv Ht.
  - injection Ht as <-. split; [reflexivity|]. eexists. reflexivity.
  - inversion Hsh as [|? ? Hs Hr]; subst. cbn [tchunks_from] in Ht.
    destruct (tstep cfg st s) as [[st' cs]|e] eqn:Et; cbn [bind] in Ht; [|discriminate].
    destruct (tchunks_from cfg st' r) as [rest|e] eqn:Er; cbn [bind] in Ht; [|discriminate]. injection Ht as <-.
    destruct (tstep_sig _ _ _ _ _ Hs Hinv Et) as (Hinv' & Hcase).
    destruct (IH st' rest Hr Hinv' Er) as (IHv & stf & IHr).
    rewrite tks_app, sig_toks_app, sig_toks_cons.
    destruct Hcase as [(Htr & Hsig & Hfac) | (Htr & t' & Hsig & Hv & Hid)]; rewrite Htr, Hsig; cbn [app].
    + split; [exact IHv|]. exists stf. rewrite <- Hfac. exact IHr.
    + cbn [all2]. rewrite Hv, IHv. split; [reflexivity|]. rewrite !ident_names_cons.
      destruct Hid as [(Hi & Hi' & Hg) | (Hi & Hi' & Hfac)]; rewrite Hi, Hi'; cbn [app].
      * exists stf. cbn [run_from]. rewrite Hg. cbn [bind]. rewrite IHr. reflexivity.
      * exists stf. rewrite <- Hfac. exact IHr.
Qed.

(* a consistent injection, by the theorems of C02 *)
Lemma renaming_functional cfg names outs : run_factory cfg names = Ok outs ->
  functional (combine names outs) = true /\ functional (combine outs names) = true.
Proof.
  intros H. split; apply functional_iff.
  - intros n o1 o2. apply (consistent _ _ _ _ _ _ H).
  - intros o n1 n2 H1 H2. apply in_combine_swap in H1, H2. apply (injective _ _ _ H _ _ _ H1 H2).
Qed.

(* ---------- flags and emitted tokens of one step ---------- *)
Definition sig_kind (k : skind) : bool := match k with SSpace | SNewline | SComment => false | _ => true end.

Lemma tks_tsp b l : tks (tsp b ++ l) = (if b then [sp_tok] else []) ++ tks l.
Proof. destruct b; reflexivity. Qed.

Lemma tstep_flags cfg st s st' cs : tstep cfg st s = Ok (st', cs) ->
  match s_kind s with
  | SSpace => tks cs = [] /\ w_lnl st' = w_lnl st /\ w_seen st' = w_seen st /\ w_hdr st' = w_hdr st
  | SComment =>
    if negb (w_seen st) && (w_hdr st <? 2)
    then tks cs = [s; nl_tok] /\ cs = [(s_raw s, s); ([10], nl_tok)] /\ w_lnl st' = w_lnl st /\ w_seen st' = w_seen st
         /\ w_hdr st' = w_hdr st + 1
    else tks cs = [] /\ w_lnl st' = w_lnl st /\ w_seen st' = w_seen st /\ w_hdr st' = w_hdr st
  | SNewline => tks cs = (if w_lnl st then [] else [nl_tok]) /\ w_lnl st' = true /\ w_seen st' = w_seen st
                /\ w_hdr st' = w_hdr st
  | _ => exists t' b, s_kind t' = s_kind s /\ tks cs = (if b : bool then [sp_tok] else []) ++ [t']
                      /\ w_lnl st' = false /\ w_seen st' = true
  end.
Proof.
  intros Et. unfold tstep in Et.
  destruct (s_kind s) eqn:K; cbn [kind_of is_trivia_kind is_comment_kind negb] in Et;
    rewrite ?andb_false_r, ?orb_false_r, ?andb_true_r, ?orb_true_r in Et; cbn [andb] in Et.
  - injection Et as <- <-. repeat split; try reflexivity; auto.
  - injection Et as <- <-. destruct (w_lnl st); repeat split; try reflexivity; auto.
  - destruct (negb (w_seen st) && (w_hdr st <? 2)).
    + injection Et as <- <-. unfold spec_code. rewrite K. repeat split; reflexivity.
    + injection Et as <- <-. repeat split; try reflexivity; auto.
  - injection Et as <- <-. exists (out_tok s []), false. split; [|repeat split; try reflexivity; auto].
    unfold out_tok. rewrite K. destruct (s_long s <? 0); [reflexivity | exact K].
  - injection Et as <- <-. exists s, (w_lnk st). rewrite tks_tsp. repeat split; try reflexivity; auto.
  - destruct (get_short_name cfg (w_fac st) (spec_code s)) as [[fac o]|e]; cbn [bind] in Et; [|discriminate].
    injection Et as <- <-. exists (out_tok s o), (w_lnk st). rewrite tks_tsp. split; [|repeat split; try reflexivity; auto]. unfold out_tok. rewrite K. reflexivity.
  - destruct (get_short_name cfg (w_fac st) (label_name (spec_code s))) as [[fac o]|e]; cbn [bind] in Et; [|discriminate].
    injection Et as <- <-. exists (out_tok s o), false. split; [|repeat split; try reflexivity; auto]. unfold out_tok. rewrite K. reflexivity.
  - injection Et as <- <-. exists s, (w_lnk st). rewrite tks_tsp. repeat split; try reflexivity; auto.
  - injection Et as <- <-. exists (out_tok s []), false. split; [|repeat split; try reflexivity; auto]. unfold out_tok. rewrite K. exact K.
Qed.

(* ---------- line groups ---------- *)
Lemma lg_space_tagged : forall tcs prev n,
  line_groups_from n (tks (space_tagged prev tcs)) = line_groups_from n (tks tcs).
Proof.
  induction tcs as [|[c t] r IH]; intros prev n; [reflexivity|]. cbn [space_tagged]. destruct (fuses prev c);
    unfold tks in *; cbn [map snd line_groups_from s_kind sp_tok mk]; destruct (s_kind t); try destruct (0 <? n); rewrite ?IH; reflexivity.
Qed.

Definition ginv (st : wstate) (n : Z) : Prop :=
  0 <= n /\ (w_lnl st = true <-> n = 0) /\ (w_seen st = false -> n = 0).

Lemma lg_sig t l n : sig_kind (s_kind t) = true -> line_groups_from n (t :: l) = line_groups_from (n + 1) l.
Proof. intros H. cbn [line_groups_from]. destruct (s_kind t); try discriminate H; reflexivity. Qed.

Lemma tchunks_groups cfg : forall ss st tcs n, tchunks_from cfg st ss = Ok tcs -> ginv st n ->
  line_groups_from n ss = line_groups_from n (tks tcs).
Proof.
  induction ss as [|s r IH]; intros st tcs n Ht (Hn & Hl & Hsn).
  - injection Ht as <-. reflexivity.
  - cbn [tchunks_from] in Ht.
    destruct (tstep cfg st s) as [[st' cs]|e] eqn:Et; cbn [bind] in Ht; [|discriminate].
    destruct (tchunks_from cfg st' r) as [rest|e] eqn:Er; cbn [bind] in Ht; [|discriminate]. injection Ht as <-.
    pose proof (tstep_flags _ _ _ _ _ Et) as Hf. rewrite tks_app.
    destruct (s_kind s) eqn:K.
    + destruct Hf as (-> & E1 & E2 & _). cbn [line_groups_from app]. rewrite K. apply (IH st'); [exact Er|].
      unfold ginv. rewrite E1, E2. auto.
    + destruct Hf as (-> & E1 & E2 & _). cbn [line_groups_from]. rewrite K. destruct (w_lnl st) eqn:El.
      * assert (n = 0) by (apply Hl; reflexivity). subst n. cbn [app]. change (0 <? 0) with false. cbv iota.
        apply (IH st'); [exact Er|]. unfold ginv. rewrite E1. split; [lia|]. split; [tauto | auto].
      * assert (n <> 0) by (intros E; apply Hl in E; discriminate). cbn [app line_groups_from s_kind nl_tok mk].
        replace (0 <? n) with true by lia. f_equal. apply (IH st'); [exact Er|].
        unfold ginv. rewrite E1. split; [lia|]. split; [tauto | auto].
    + destruct (negb (w_seen st) && (w_hdr st <? 2)) eqn:Eh.
      * destruct Hf as (-> & _ & E1 & E2 & _). apply andb_true_iff in Eh. destruct Eh as [Eh _]. apply negb_true_iff in Eh.
        assert (n = 0) by (apply Hsn, Eh). subst n. cbn [app line_groups_from s_kind nl_tok mk]. rewrite K.
        change (0 <? 0) with false. cbv iota. apply (IH st'); [exact Er|]. unfold ginv. rewrite E1, E2. auto.
      * destruct Hf as (-> & E1 & E2 & _). cbn [line_groups_from app]. rewrite K. apply (IH st'); [exact Er|].
        unfold ginv. rewrite E1, E2. auto.
    + destruct Hf as (t' & b & Kt & -> & E1 & E2). rewrite lg_sig by (rewrite K; reflexivity).
      rewrite <- app_assoc. assert (Hsp : forall l, line_groups_from n ((if b then [sp_tok] else []) ++ l) = line_groups_from n l)
        by (intros l; destruct b; reflexivity).
      rewrite Hsp. cbn [app]. rewrite lg_sig by (rewrite Kt; reflexivity). apply (IH st'); [exact Er|].
      unfold ginv. rewrite E1, E2. split; [lia|]. split; [split; [discriminate | lia] | discriminate].
    + destruct Hf as (t' & b & Kt & -> & E1 & E2). rewrite lg_sig by (rewrite K; reflexivity).
      rewrite <- app_assoc. assert (Hsp : forall l, line_groups_from n ((if b then [sp_tok] else []) ++ l) = line_groups_from n l)
        by (intros l; destruct b; reflexivity).
      rewrite Hsp. cbn [app]. rewrite lg_sig by (rewrite Kt; reflexivity). apply (IH st'); [exact Er|].
      unfold ginv. rewrite E1, E2. split; [lia|]. split; [split; [discriminate | lia] | discriminate].
    + destruct Hf as (t' & b & Kt & -> & E1 & E2). rewrite lg_sig by (rewrite K; reflexivity).
      rewrite <- app_assoc. assert (Hsp : forall l, line_groups_from n ((if b then [sp_tok] else []) ++ l) = line_groups_from n l)
        by (intros l; destruct b; reflexivity).
      rewrite Hsp. cbn [app]. rewrite lg_sig by (rewrite Kt; reflexivity). apply (IH st'); [exact Er|].
      unfold ginv. rewrite E1, E2. split; [lia|]. split; [split; [discriminate | lia] | discriminate].
    + destruct Hf as (t' & b & Kt & -> & E1 & E2). rewrite lg_sig by (rewrite K; reflexivity).
      rewrite <- app_assoc. assert (Hsp : forall l, line_groups_from n ((if b then [sp_tok] else []) ++ l) = line_groups_from n l)
        by (intros l; destruct b; reflexivity).
      rewrite Hsp. cbn [app]. rewrite lg_sig by (rewrite Kt; reflexivity). apply (IH st'); [exact Er|].
      unfold ginv. rewrite E1, E2. split; [lia|]. split; [split; [discriminate | lia] | discriminate].
    + destruct Hf as (t' & b & Kt & -> & E1 & E2). rewrite lg_sig by (rewrite K; reflexivity).
      rewrite <- app_assoc. assert (Hsp : forall l, line_groups_from n ((if b then [sp_tok] else []) ++ l) = line_groups_from n l)
        by (intros l; destruct b; reflexivity).
      rewrite Hsp. cbn [app]. rewrite lg_sig by (rewrite Kt; reflexivity). apply (IH st'); [exact Er|].
      unfold ginv. rewrite E1, E2. split; [lia|]. split; [split; [discriminate | lia] | discriminate].
    + destruct Hf as (t' & b & Kt & -> & E1 & E2). rewrite lg_sig by (rewrite K; reflexivity).
      rewrite <- app_assoc. assert (Hsp : forall l, line_groups_from n ((if b then [sp_tok] else []) ++ l) = line_groups_from n l)
        by (intros l; destruct b; reflexivity).
      rewrite Hsp. cbn [app]. rewrite lg_sig by (rewrite Kt; reflexivity). apply (IH st'); [exact Er|].
      unfold ginv. rewrite E1, E2. split; [lia|]. split; [split; [discriminate | lia] | discriminate].
Qed.

(* ---------- token count ---------- *)
Fixpoint sumw (l : list stok) : Z := match l with [] => 0 | t :: r => spec_weight t + sumw r end.

Lemma fold_weight l : forall a, fold_left (fun a t => a + spec_weight t) l a = a + sumw l.
Proof. induction l as [|t r IH]; intros a; cbn [fold_left sumw]; [lia|]. rewrite IH. lia. Qed.

Lemma trivia_weight t : is_trivia t = true -> spec_weight t = 0.
Proof. unfold is_trivia, spec_weight. destruct (s_kind t); try discriminate; reflexivity. Qed.

Lemma sumw_sig l : sumw l = sumw (sig_toks l).
Proof.
  induction l as [|t r IH]; [reflexivity|]. rewrite sig_toks_cons. cbn [sumw]. destruct (is_trivia t) eqn:E.
  - rewrite (trivia_weight t E). cbn [app]. exact IH.
  - cbn [app sumw]. rewrite IH. reflexivity.
Qed.

Lemma kind_eqb_eq a b : kind_eqb a b = true -> a = b.
Proof. unfold kind_eqb. destruct a, b; cbn; intros H; try reflexivity; discriminate. Qed.

Lemma same_view_weight a b : same_view a b = true -> spec_weight a = spec_weight b.
Proof.
  unfold same_view. intros H. apply andb_true_iff in H. destruct H as [Hk Hv]. apply kind_eqb_eq in Hk.
  unfold spec_weight. rewrite <- Hk. destruct (s_kind a); try reflexivity; apply zlist_eqb_eq in Hv; rewrite Hv; reflexivity.
Qed.

Lemma all2_weight : forall a b, all2 same_view a b = true -> sumw a = sumw b.
Proof.
  induction a as [|x a IH]; intros [|y b] H; try discriminate; [reflexivity|]. cbn [all2] in H.
  apply andb_true_iff in H. destruct H as [H1 H2]. cbn [sumw]. rewrite (same_view_weight _ _ H1), (IH _ H2). reflexivity.
Qed.

Lemma count_of_views ss ss' : views_ok ss ss' = true -> count_ok ss ss' = true.
Proof.
  unfold views_ok, count_ok, spec_count. intros H. rewrite !fold_weight. apply Z.eqb_eq.
  rewrite (sumw_sig ss), (sumw_sig ss'). f_equal. apply all2_weight, H.
Qed.

Lemma all2_length {A} (f : A -> A -> bool) : forall a b, all2 f a b = true -> length a = length b.
Proof.
  induction a as [|x a IH]; intros [|y b] H; try discriminate; [reflexivity|]. cbn [all2] in H.
  apply andb_true_iff in H. cbn [length]. f_equal. apply IH, H.
Qed.

(* ---------- C01, assembled ---------- *)
Theorem luamin_related cfg src ss chunks :
  spec_toks src = Some ss -> minify_gen cfg (map sk ss) = Ok chunks ->
  exists ss', spec_toks (concat chunks) = Some ss' /\ related ss ss' = true /\
    run_factory cfg (ident_names (sig_toks ss)) = Ok (ident_names (sig_toks ss')).
Proof.
  intros Hsrc Hm. destruct (relex cfg src ss chunks Hsrc Hm) as (tcs & Ht & _ & Hout).
  destruct (spec_toks_chain _ _ Hsrc) as (_ & Hch). pose proof (chain_shaped _ _ Hch) as Hsh.
  exists (tks (space_tagged [] tcs)). split; [exact Hout|].
  destruct (tchunks_sig cfg ss init_wstate tcs Hsh (inv_init_w cfg) Ht) as (Hv & stf & Hrun).
  assert (Hviews : views_ok ss (tks (space_tagged [] tcs)) = true).
  { unfold views_ok. rewrite sig_space_tagged. exact Hv. }
  assert (Hfac : run_factory cfg (ident_names (sig_toks ss)) = Ok (ident_names (sig_toks (tks (space_tagged [] tcs))))).
  { rewrite sig_space_tagged. unfold run_factory, run_factory_st. change init_state with (w_fac init_wstate).
    rewrite Hrun. reflexivity. }
  split; [|exact Hfac]. unfold related. rewrite Hviews, (count_of_views _ _ Hviews), andb_true_r. cbn [andb].
  apply andb_true_iff. split.
  - unfold renaming_ok. destruct (renaming_functional _ _ _ Hfac) as (F1 & F2). rewrite F1, F2. reflexivity.
  - unfold groups_ok, line_groups. rewrite lg_space_tagged. apply zlist_eqb_eq.
    apply (tchunks_groups cfg ss init_wstate tcs 0 Ht). unfold ginv. cbn. split; [lia|]. split; [tauto | auto].
Qed.

(* ---------- C19: the header ---------- *)
Lemma no_comments_app a b : no_comments (a ++ b) = no_comments a && no_comments b.
Proof. unfold no_comments. apply forallb_app. Qed.

Lemma nc_space_tagged : forall tcs prev, no_comments (tks (space_tagged prev tcs)) = no_comments (tks tcs).
Proof.
  induction tcs as [|[c t] r IH]; intros prev; [reflexivity|]. cbn [space_tagged]. destruct (fuses prev c);
    unfold tks in *; cbn [map snd no_comments forallb]; fold (no_comments (map snd (space_tagged c r)));
    fold (no_comments (map snd r)); rewrite IH; reflexivity.
Qed.

Lemma nc_sig (b : bool) t' k : s_kind t' = k -> sig_kind k = true ->
  no_comments ((if b then [sp_tok] else []) ++ [t']) = true.
Proof. intros K Hk. destruct b; cbn; unfold is_kind, kind_eqb; rewrite K; destruct k; try discriminate Hk; reflexivity. Qed.

Lemma tchunks_no_comments cfg : forall ss st tcs, tchunks_from cfg st ss = Ok tcs ->
  (w_seen st = true \/ 2 <= w_hdr st) -> no_comments (tks tcs) = true.
Proof.
  induction ss as [|s r IH]; intros st tcs Ht Hoff; [injection Ht as <-; reflexivity|].
  cbn [tchunks_from] in Ht.
  destruct (tstep cfg st s) as [[st' cs]|e] eqn:Et; cbn [bind] in Ht; [|discriminate].
  destruct (tchunks_from cfg st' r) as [rest|e] eqn:Er; cbn [bind] in Ht; [|discriminate]. injection Ht as <-.
  pose proof (tstep_flags _ _ _ _ _ Et) as Hf. rewrite tks_app, no_comments_app.
  destruct (s_kind s) eqn:K.
  - destruct Hf as (-> & _ & E2 & E3). cbn [no_comments forallb andb]. apply (IH st'); [exact Er | rewrite E2, E3; exact Hoff].
  - destruct Hf as (-> & _ & E2 & E3). replace (no_comments (if w_lnl st then [] else [nl_tok])) with true by (destruct (w_lnl st); reflexivity).
    apply (IH st'); [exact Er | rewrite E2, E3; exact Hoff].
  - assert (Hc : negb (w_seen st) && (w_hdr st <? 2) = false).
    { destruct Hoff as [->|H]; [reflexivity|]. replace (w_hdr st <? 2) with false by lia. apply andb_false_r. }
    rewrite Hc in Hf. destruct Hf as (-> & _ & E2 & E3). apply (IH st'); [exact Er | rewrite E2, E3; exact Hoff].
  - destruct Hf as (t' & b & Kt & -> & _ & E2). rewrite (nc_sig b t' _ Kt eq_refl). apply (IH st'); [exact Er | left; exact E2].
  - destruct Hf as (t' & b & Kt & -> & _ & E2). rewrite (nc_sig b t' _ Kt eq_refl). apply (IH st'); [exact Er | left; exact E2].
  - destruct Hf as (t' & b & Kt & -> & _ & E2). rewrite (nc_sig b t' _ Kt eq_refl). apply (IH st'); [exact Er | left; exact E2].
  - destruct Hf as (t' & b & Kt & -> & _ & E2). rewrite (nc_sig b t' _ Kt eq_refl). apply (IH st'); [exact Er | left; exact E2].
  - destruct Hf as (t' & b & Kt & -> & _ & E2). rewrite (nc_sig b t' _ Kt eq_refl). apply (IH st'); [exact Er | left; exact E2].
  - destruct Hf as (t' & b & Kt & -> & _ & E2). rewrite (nc_sig b t' _ Kt eq_refl). apply (IH st'); [exact Er | left; exact E2].
Qed.

Definition header_text (hc : list stok) : list Z := concat (map (fun c => s_raw c ++ [10]) hc).

Lemma fuses_prev_start prev c : prev = [] \/ prev = [10] -> fuses prev c = false.
Proof. intros [->| ->]; [apply fuses_start | apply fuses_after_nl]. Qed.

Lemma tchunks_header cfg : forall ss st tcs prev, tchunks_from cfg st ss = Ok tcs ->
  w_seen st = false -> w_lnl st = true -> 0 <= w_hdr st -> (prev = [] \/ prev = [10]) ->
  let hc := firstn (Z.to_nat (2 - w_hdr st)) (leading_comments ss) in
  exists restF, after_header hc (tks (space_tagged prev tcs)) = Some (tks restF) /\ no_comments (tks restF) = true /\
    txt (space_tagged prev tcs) = header_text hc ++ txt restF.
Proof.
  induction ss as [|s r IH]; intros st tcs prev Ht Hseen Hlnl Hh Hprev; cbv zeta.
  - injection Ht as <-. exists []. rewrite firstn_nil. auto.
  - cbn [tchunks_from] in Ht.
    destruct (tstep cfg st s) as [[st' cs]|e] eqn:Et; cbn [bind] in Ht; [|discriminate].
    destruct (tchunks_from cfg st' r) as [rest|e] eqn:Er; cbn [bind] in Ht; [|discriminate]. injection Ht as <-.
    pose proof (tstep_flags _ _ _ _ _ Et) as Hf.
    assert (Hsig : forall t' (b : bool), sig_kind (s_kind s) = true -> s_kind t' = s_kind s ->
              tks cs = (if b then [sp_tok] else []) ++ [t'] -> w_seen st' = true ->
              exists restF, after_header (firstn (Z.to_nat (2 - w_hdr st)) (leading_comments (s :: r)))
                                         (tks (space_tagged prev (cs ++ rest))) = Some (tks restF) /\
                            no_comments (tks restF) = true /\
                            txt (space_tagged prev (cs ++ rest)) =
                              header_text (firstn (Z.to_nat (2 - w_hdr st)) (leading_comments (s :: r))) ++ txt restF).
    { intros t' b Hk Kt Hcs E2. assert (Hlc : leading_comments (s :: r) = []).
      { cbn [leading_comments]. destruct (s_kind s); try discriminate Hk; reflexivity. }
      rewrite Hlc, firstn_nil. exists (space_tagged prev (cs ++ rest)). split; [reflexivity|]. split; [|reflexivity].
      rewrite nc_space_tagged, tks_app, no_comments_app, Hcs. rewrite (nc_sig b t' _ Kt Hk).
      eapply tchunks_no_comments; [exact Er | left; exact E2]. }
    destruct (s_kind s) eqn:K.
    + destruct Hf as (Hcs & E1 & E2 & E3). assert (cs = []) as -> by (destruct cs; [reflexivity | discriminate Hcs]).
      cbn [app leading_comments]. rewrite K. rewrite <- E3. apply (IH st'); [exact Er | congruence | congruence | lia | exact Hprev].
    + destruct Hf as (Hcs & E1 & E2 & E3). rewrite Hlnl in Hcs. assert (cs = []) as -> by (destruct cs; [reflexivity | discriminate Hcs]).
      cbn [app leading_comments]. rewrite K. rewrite <- E3. apply (IH st'); [exact Er | congruence | exact E1 | lia | exact Hprev].
    + rewrite Hseen in Hf. cbn [negb andb] in Hf. destruct (w_hdr st <? 2) eqn:Eh.
      * destruct Hf as (_ & -> & E1 & E2 & E3). cbn [leading_comments]. rewrite K.
        replace (Z.to_nat (2 - w_hdr st)) with (S (Z.to_nat (2 - w_hdr st'))) by lia. cbn [firstn].
        destruct (IH st' rest [10] Er ltac:(congruence) ltac:(congruence) ltac:(lia) (or_intror eq_refl)) as (restF & Ha & Hn & Htx).
        exists restF. cbn [app space_tagged]. rewrite (fuses_prev_start prev _ Hprev), fuses_nl.
        unfold tks at 1. cbn [map snd after_header]. fold (tks (space_tagged [10] rest)).
        unfold is_kind, kind_eqb. rewrite K. cbn [skind_code s_kind nl_tok mk Z.eqb Pos.eqb andb].
        replace (zlist_eqb (s_raw s) (s_raw s)) with true by (symmetry; apply zlist_eqb_eq; reflexivity).
        cbn [andb]. split; [exact Ha|]. split; [exact Hn|].
        unfold txt at 1. cbn [map fst concat]. fold (txt (space_tagged [10] rest)). rewrite Htx.
        unfold header_text. cbn [map concat]. rewrite <- !app_assoc. reflexivity.
      * destruct Hf as (Hcs & E1 & E2 & E3). assert (cs = []) as -> by (destruct cs; [reflexivity | discriminate Hcs]).
        replace (Z.to_nat (2 - w_hdr st)) with O by lia. cbn [firstn app].
        exists (space_tagged prev rest). split; [reflexivity|]. split; [|reflexivity].
        rewrite nc_space_tagged. eapply tchunks_no_comments; [exact Er | right; lia].
    + destruct Hf as (t' & b & Kt & Hcs & _ & E2). eapply Hsig; eauto.
    + destruct Hf as (t' & b & Kt & Hcs & _ & E2). eapply Hsig; eauto.
    + destruct Hf as (t' & b & Kt & Hcs & _ & E2). eapply Hsig; eauto.
    + destruct Hf as (t' & b & Kt & Hcs & _ & E2). eapply Hsig; eauto.
    + destruct Hf as (t' & b & Kt & Hcs & _ & E2). eapply Hsig; eauto.
    + destruct Hf as (t' & b & Kt & Hcs & _ & E2). eapply Hsig; eauto.
Qed.

Lemma after_header_titles hc out rest : after_header hc out = Some rest ->
  match hc with
  | [] => True
  | [c1] => stats_title out = Some (comment_text c1)
  | c1 :: c2 :: _ => stats_title out = Some (comment_text c1) /\ stats_byline out = Some (comment_text c2)
  end.
Proof.
  destruct hc as [|c1 hc]; [trivial|]. cbn [after_header]. destruct out as [|o [|n out']]; try discriminate.
  destruct (is_kind SComment o && zlist_eqb (s_raw o) (s_raw c1) && is_kind SNewline n) eqn:E; [|discriminate].
  apply andb_true_iff in E. destruct E as [E _]. apply andb_true_iff in E. destruct E as [Ek Er].
  apply zlist_eqb_eq in Er. intros H.
  assert (T1 : stats_title (o :: n :: out') = Some (comment_text c1)).
  { cbn [stats_title]. rewrite Ek. unfold comment_text. rewrite Er. reflexivity. }
  destruct hc as [|c2 hc]; [exact T1|]. split; [exact T1|].
  cbn [after_header] in H. destruct out' as [|o2 [|n2 out'']]; try discriminate.
  destruct (is_kind SComment o2 && zlist_eqb (s_raw o2) (s_raw c2) && is_kind SNewline n2) eqn:E2; [|discriminate].
  apply andb_true_iff in E2. destruct E2 as [E2 _]. apply andb_true_iff in E2. destruct E2 as [Ek2 Er2].
  apply zlist_eqb_eq in Er2. cbn [stats_byline]. rewrite Ek2. unfold comment_text. rewrite Er2. reflexivity.
Qed.

Lemma opt_bytes_eqb_refl a : opt_bytes_eqb (Some a) (Some a) = true.
Proof. cbn. apply zlist_eqb_eq. reflexivity. Qed.

(* ---------- C19, assembled ---------- *)
Theorem luamin_header cfg src ss chunks :
  spec_toks src = Some ss -> minify_gen cfg (map sk ss) = Ok chunks ->
  exists ss', spec_toks (concat chunks) = Some ss' /\
    header_ok ss ss' = true /\ titles_ok ss ss' = true /\ sig_count_ok ss ss' = true /\
    exists body, concat chunks = header_text (header_of ss) ++ body.
Proof.
  intros Hsrc Hm. destruct (relex cfg src ss chunks Hsrc Hm) as (tcs & Ht & Hchunks & Hout).
  exists (tks (space_tagged [] tcs)). split; [exact Hout|].
  destruct (tchunks_header cfg ss init_wstate tcs [] Ht eq_refl eq_refl ltac:(cbn; lia) (or_introl eq_refl))
    as (restF & Ha & Hn & Htx).
  change (firstn (Z.to_nat (2 - w_hdr init_wstate)) (leading_comments ss)) with (header_of ss) in *.
  split; [unfold header_ok; rewrite Ha; exact Hn|]. split.
  - unfold titles_ok. pose proof (after_header_titles _ _ _ Ha) as T.
    destruct (header_of ss) as [|c1 [|c2 hc]]; [reflexivity | rewrite T; apply opt_bytes_eqb_refl|].
    destruct T as [T1 T2]. rewrite T1, T2, !opt_bytes_eqb_refl. reflexivity.
  - split.
    + destruct (luamin_related cfg src ss chunks Hsrc Hm) as (ss' & Hout' & Hrel & _).
      rewrite Hout in Hout'. injection Hout' as <-. unfold related in Hrel.
      apply andb_true_iff in Hrel. destruct Hrel as [Hrel _]. apply andb_true_iff in Hrel. destruct Hrel as [Hrel _].
      apply andb_true_iff in Hrel. destruct Hrel as [Hv _]. unfold sig_count_ok. apply Nat.eqb_eq.
      eapply all2_length, Hv.
    + exists (txt restF). rewrite Hchunks. exact Htx.
Qed.

(* ---------- the two instance predicates on the model's output ---------- *)
Theorem holds_C01_luamin cfg src ss chunks :
  spec_toks src = Some ss -> minify_gen cfg (map sk ss) = Ok chunks -> holds_C01 src (concat chunks) = true.
Proof.
  intros Hsrc Hm. destruct (luamin_related cfg src ss chunks Hsrc Hm) as (ss' & Hout & Hrel & _).
  unfold holds_C01. rewrite Hsrc, Hout. exact Hrel.
Qed.

Theorem holds_C19_luamin cfg src ss chunks :
  spec_toks src = Some ss -> minify_gen cfg (map sk ss) = Ok chunks -> holds_C19 src (concat chunks) = true.
Proof.
  intros Hsrc Hm. destruct (luamin_header cfg src ss chunks Hsrc Hm) as (ss' & Hout & H1 & H2 & H3 & _).
  unfold holds_C19. rewrite Hsrc, Hout, H1, H2, H3. reflexivity.
Qed.

(* through picotool's own tokens: ts are the lexer's tokens for src, agreeing with the reference
   tokens in class and code (what C07 states) *)
Definition lexer_agrees (ss : list stok) (ts : list tok) : Prop := map mtok_of_tok ts = map sk ss.

Theorem holds_C01_minify cfg src ss ts chunks :
  spec_toks src = Some ss -> lexer_agrees ss ts -> minify cfg ts = Ok chunks -> holds_C01 src (concat chunks) = true.
Proof. unfold lexer_agrees, minify. intros Hsrc -> Hm. eapply holds_C01_luamin; eassumption. Qed.

Theorem holds_C19_minify cfg src ss ts chunks :
  spec_toks src = Some ss -> lexer_agrees ss ts -> minify cfg ts = Ok chunks -> holds_C19 src (concat chunks) = true.
Proof. unfold lexer_agrees, minify. intros Hsrc -> Hm. eapply holds_C19_luamin; eassumption. Qed.

(* ---------- statements in the form Properties/C01.v and C19.v show them ---------- *)
Lemma luamin_preserves cfg src ss ts chunks :
  spec_toks src = Some ss -> lexer_agrees ss ts -> minify cfg ts = Ok chunks ->
  exists ss', spec_toks (concat chunks) = Some ss'
    /\ all2 same_view (sig_toks ss) (sig_toks ss') = true
    /\ run_factory cfg (ident_names (sig_toks ss)) = Ok (ident_names (sig_toks ss'))
    /\ line_groups ss' = line_groups ss
    /\ spec_count ss' = spec_count ss.
Proof.
  unfold lexer_agrees, minify. intros Hsrc -> Hm.
  destruct (luamin_related cfg src ss chunks Hsrc Hm) as (ss' & Hout & Hrel & Hfac). exists ss'.
  unfold related in Hrel. apply andb_true_iff in Hrel. destruct Hrel as [Hrel Hc].
  apply andb_true_iff in Hrel. destruct Hrel as [Hrel Hg]. apply andb_true_iff in Hrel. destruct Hrel as [Hv _].
  split; [exact Hout|]. split; [exact Hv|]. split; [exact Hfac|]. split.
  - symmetry. apply zlist_eqb_eq, Hg.
  - symmetry. apply Z.eqb_eq, Hc.
Qed.

Lemma luamin_total cfg src ss ts : spec_toks src = Some ss -> lexer_agrees ss ts ->
  exists chunks, minify cfg ts = Ok chunks /\ holds_C01 src (concat chunks) = true /\ holds_C19 src (concat chunks) = true.
Proof.
  intros Hsrc Ha. destruct (minify_total cfg ts) as (chunks & Hm). exists chunks. split; [exact Hm|]. split.
  - eapply holds_C01_minify; eassumption.
  - eapply holds_C19_minify; eassumption.
Qed.

Lemma luamin_header_text cfg src ss ts chunks :
  spec_toks src = Some ss -> lexer_agrees ss ts -> minify cfg ts = Ok chunks ->
  exists ss' rest body, spec_toks (concat chunks) = Some ss'
    /\ concat chunks = header_text (firstn 2 (leading_comments ss)) ++ body
    /\ after_header (firstn 2 (leading_comments ss)) ss' = Some rest /\ no_comments rest = true
    /\ titles_ok ss ss' = true
    /\ length (sig_toks ss') = length (sig_toks ss).
Proof.
  unfold lexer_agrees, minify. intros Hsrc -> Hm.
  destruct (luamin_header cfg src ss chunks Hsrc Hm) as (ss' & Hout & H1 & H2 & H3 & body & Hb).
  unfold header_ok, header_of in H1. destruct (after_header (firstn 2 (leading_comments ss)) ss') as [rest|] eqn:Ea; [|discriminate].
  exists ss', rest, body. repeat split; try assumption. unfold sig_count_ok in H3. symmetry. apply Nat.eqb_eq, H3.
Qed.

(* the symbol sweep, as a statement about the reference lexer: whenever to_lines puts no space
   between a symbol and a chunk starting with the byte c, the symbol is read back alone *)
Lemma glue_free_symbols x c r R : In x spec_symbols -> 0 <= c < 256 -> fuses x (c :: r) = false ->
  spec_step (x ++ c :: R) = Some (mk SSymbol x x, c :: R).
Proof. intros Hx Hc Hf. apply spec_step_symbol; [exact Hx | eapply sym_fuse_safe; eassumption]. Qed.

Lemma string_reencode q data R : q = 34 \/ q = 39 ->
  spec_step (reencode [q] data ++ R) = Some (mk_stok SString (reencode [q] data) data 0 1 (-1) 0 0, R).
Proof.
  intros Hq. unfold reencode. cbn [app]. rewrite <- !app_assoc. cbn [app].
  pose proof (unescape_reencode q Hq data R) as Hu.
  destruct Hq; subst q; unfold spec_step; cbn -[unescape_until escape_bytes]; rewrite Hu; reflexivity.
Qed.

(* ---------- with the final line break the .p8 writer supplies ---------- *)
Lemma crlf_txt_tail : forall (F : list tchunk) tail, Forall (fun tc => cr_ok (fst tc)) F -> crlf_only tail = true ->
  crlf_only (txt F ++ tail) = true.
Proof.
  induction F as [|[c t] F IH]; intros tail H Ht; [exact Ht|]. inversion H as [|? ? [Hc Hn] HF]; subst.
  unfold txt. cbn [map fst concat]. rewrite <- app_assoc. apply crlf_only_app; [exact Hc | exact Hn | apply IH; assumption].
Qed.

Lemma relex_nl cfg src ss chunks : spec_toks src = Some ss -> minify_gen cfg (map sk ss) = Ok chunks ->
  exists tcs, tchunks_from cfg init_wstate ss = Ok tcs /\ chunks = map fst (space_tagged [] tcs) /\
    spec_toks (concat chunks ++ [10]) = Some (tks (space_tagged [] tcs) ++ [nl_tok]).
Proof.
  intros Hsrc Hm. destruct (spec_toks_chain _ _ Hsrc) as (Hcr & Hch).
  destruct (minify_gen_tagged _ _ _ Hm) as (tcs & Ht & ->). exists tcs. split; [exact Ht|]. split; [reflexivity|].
  pose proof (chain_shaped _ _ Hch) as Hsh. pose proof (chain_cr _ _ Hch Hcr) as Hcrs.
  pose proof (relex_from_nl cfg ss init_wstate [] PStart tcs Hsh (inv_init_w cfg) Ht (or_introl eq_refl)) as HC.
  apply chain_spec_toks; [|exact HC]. apply crlf_txt_tail; [|reflexivity]. apply space_tagged_cr.
  eapply tchunks_cr; [exact Hsh | exact Hcrs | apply inv_init_w | exact Ht].
Qed.

Lemma sig_toks_snoc_nl l : sig_toks (l ++ [nl_tok]) = sig_toks l.
Proof. rewrite sig_toks_app. cbn. apply app_nil_r. Qed.

Lemma line_groups_snoc_nl : forall l n, line_groups_from n (l ++ [nl_tok]) = line_groups_from n l.
Proof.
  induction l as [|t r IH]; intros n; cbn [app line_groups_from s_kind nl_tok mk].
  - destruct (0 <? n); reflexivity.
  - destruct (s_kind t); try destruct (0 <? n); rewrite ?IH; reflexivity.
Qed.

Lemma spec_count_snoc_nl l : spec_count (l ++ [nl_tok]) = spec_count l.
Proof. unfold spec_count. rewrite fold_left_app. cbn. lia. Qed.

Lemma related_snoc_nl ss ss' : related ss ss' = true -> related ss (ss' ++ [nl_tok]) = true.
Proof.
  unfold related, views_ok, renaming_ok, groups_ok, count_ok, line_groups.
  rewrite sig_toks_snoc_nl, line_groups_snoc_nl, spec_count_snoc_nl. auto.
Qed.

Lemma after_header_app : forall hc out rest x, after_header hc out = Some rest -> after_header hc (out ++ x) = Some (rest ++ x).
Proof.
  induction hc as [|c hc IH]; intros out rest x H; cbn [after_header] in *; [injection H as <-; reflexivity|].
  destruct out as [|o [|n out']]; try discriminate. cbn [app].
  destruct (is_kind SComment o && zlist_eqb (s_raw o) (s_raw c) && is_kind SNewline n); [|discriminate]. apply IH, H.
Qed.

Theorem luamin_nl cfg src ss chunks : spec_toks src = Some ss -> minify_gen cfg (map sk ss) = Ok chunks ->
  holds_C01 src (concat chunks ++ [10]) = true /\ holds_C19 src (concat chunks ++ [10]) = true.
Proof.
  intros Hsrc Hm. destruct (relex cfg src ss chunks Hsrc Hm) as (tcs & Ht & Hch & Hout).
  destruct (relex_nl cfg src ss chunks Hsrc Hm) as (tcs' & Ht' & _ & Hout'). rewrite Ht in Ht'. injection Ht' as <-.
  destruct (luamin_related cfg src ss chunks Hsrc Hm) as (ss' & Ho & Hrel & _). rewrite Hout in Ho. injection Ho as <-.
  destruct (luamin_header cfg src ss chunks Hsrc Hm) as (ss' & Ho & H1 & H2 & H3 & _). rewrite Hout in Ho. injection Ho as <-.
  split.
  - unfold holds_C01. rewrite Hsrc, Hout'. apply related_snoc_nl, Hrel.
  - unfold holds_C19. rewrite Hsrc, Hout'. unfold header_ok in *.
    destruct (after_header (header_of ss) (tks (space_tagged [] tcs))) as [rest|] eqn:Ea; [|discriminate].
    rewrite (after_header_app _ _ _ [nl_tok] Ea). rewrite no_comments_app, H1. cbn [no_comments forallb andb].
    assert (T : titles_ok ss (tks (space_tagged [] tcs) ++ [nl_tok]) = true).
    { unfold titles_ok. pose proof (after_header_titles _ _ _ (after_header_app _ _ _ [nl_tok] Ea)) as T.
      destruct (header_of ss) as [|c1 [|c2 hc]]; [reflexivity | rewrite T; apply opt_bytes_eqb_refl|].
      destruct T as [T1 T2]. rewrite T1, T2, !opt_bytes_eqb_refl. reflexivity. }
    rewrite T. unfold sig_count_ok in *. rewrite sig_toks_snoc_nl, H3. reflexivity.
Qed.
