(* Cursor calculus for the AST writer walk (Model/AstWriter.v) on a token list: how _get_code_for_spaces,
   _get_text and _get_name move the cursor when the next significant token is known.  No trees here.

   sig c c'          (ParserProofs.v) indices of the significant tokens in [c, c')
   okpos b           b is 0 or one past a significant token, 0 <= b <= len: the end position of every node
   nearB c B p       the writer's cursor p is at c, or has been moved by an earlier white-space call (with a bound
                     <= B) to the first significant token after c
   emitsB B m c c' L from a cursor near c the action m succeeds, leaves the cursor exactly at c', emits chunks
                     whose code part is L and whose white-space runs are never cut short (good) *)
From PV Require Import Base.Prelude Spec.LuaTokens Spec.LuaGrammar Model.Tokens Model.WriterChunks Model.AstWriter
  Model.WriterDomain Proofs.ParserProofs.
From Coq Require Import ZifyBool.
Ltac Zify.zify_post_hook ::= Z.to_euclidean_division_equations.

Section C.
Variable ts : list token.

Local Notation sig := (ParserProofs.sig ts).
Local Notation sigb := (ParserProofs.sigb ts).
Local Notation len := (zlen ts).

Lemma tok_at_same i : ParserProofs.tok_at ts i = AstWriter.tok_at ts i.
Proof. reflexivity. Qed.

(* ------------------------------------------------------------------ significant tokens *)
Lemma sigb_tok i : sigb i = true -> exists t, AstWriter.tok_at ts i = Some t /\ is_trivia t = false.
Proof.
  unfold ParserProofs.sigb. rewrite tok_at_same. destruct (AstWriter.tok_at ts i) as [t|]; [|discriminate].
  intros H. exists t. split; [reflexivity|]. apply negb_true_iff in H. exact H.
Qed.

Lemma sigb_range i : sigb i = true -> 0 <= i < len.
Proof.
  intros H. destruct (sigb_tok i H) as (t & Ht & _). rewrite <- tok_at_same in Ht. exact (tok_at_lt ts i t Ht).
Qed.

Lemma sig_cons_inv a b : a < b -> sig a b = (if sigb a then [a] else []) ++ sig (a + 1) b.
Proof.
  intros H. rewrite <- (sig_app ts a (a + 1) b) by lia. f_equal.
  unfold ParserProofs.sig. replace (Z.to_nat (a + 1 - a)) with 1%nat by lia. cbn [zrange filter]. reflexivity.
Qed.

(* [i] = sig c (i+1): i is the first significant token at or after c *)
Lemma first_sig_inv c i : [i] = sig c (i + 1) ->
  c <= i /\ sigb i = true /\ (forall j, c <= j < i -> sigb j = false).
Proof.
  intros H. pose proof (sig_bounds ts c (i + 1) i) as Hb. rewrite <- H in Hb. specialize (Hb (or_introl eq_refl)).
  assert (Hi : In i (sig c (i + 1))) by (rewrite <- H; left; reflexivity).
  unfold ParserProofs.sig in Hi. apply filter_In in Hi. destruct Hi as [_ Hs].
  split; [lia|]. split; [exact Hs|]. intros j Hj. destruct (sigb j) eqn:E; [|reflexivity]. exfalso.
  assert (Hin : In j (sig c (i + 1))).
  { rewrite <- (sig_app ts c j (i + 1)) by lia. apply in_or_app. right.
    rewrite sig_cons_inv by lia. rewrite E. left. reflexivity. }
  rewrite <- H in Hin. destruct Hin as [Hin|[]]. lia.
Qed.

Lemma first_sig_intro c i : c <= i -> sigb i = true -> (forall j, c <= j < i -> sigb j = false) -> [i] = sig c (i + 1).
Proof. intros H1 H2 H3. symmetry. apply sig_single; assumption. Qed.

Lemma first_sig_unique c i j : [i] = sig c (i + 1) -> [j] = sig c (j + 1) -> i = j.
Proof.
  intros Hi Hj. destruct (first_sig_inv _ _ Hi) as (A1 & A2 & A3). destruct (first_sig_inv _ _ Hj) as (B1 & B2 & B3).
  destruct (Z.lt_trichotomy i j) as [H|[H|H]]; [|exact H|].
  - rewrite (B3 i) in A2 by lia. discriminate.
  - rewrite (A3 j) in B2 by lia. discriminate.
Qed.

Lemma first_sig_self i : sigb i = true -> [i] = sig i (i + 1).
Proof. intros H. apply first_sig_intro; [lia | exact H | intros; lia]. Qed.

Lemma first_sig_from c i p : [i] = sig c (i + 1) -> c <= p <= i -> [i] = sig p (i + 1).
Proof.
  intros H Hp. destruct (first_sig_inv _ _ H) as (A1 & A2 & A3).
  apply first_sig_intro; [lia | exact A2 | intros j Hj; apply A3; lia].
Qed.

(* ------------------------------------------------------------------ end positions *)
Definition okpos (b : Z) : Prop := 0 <= b <= len /\ (b = 0 \/ sigb (b - 1) = true).

Lemma okpos_leaf c i : [i] = sig c (i + 1) -> okpos (i + 1).
Proof.
  intros H. destruct (first_sig_inv _ _ H) as (_ & A2 & _). pose proof (sigb_range _ A2).
  split; [lia|]. right. replace (i + 1 - 1) with i by lia. exact A2.
Qed.

Lemma okpos_0 : okpos 0.
Proof. split; [pose proof (zlen_nonneg ts); lia | left; reflexivity]. Qed.

(* no significant token in [c, b) and b an end position: b <= c *)
Lemma okpos_below c b : okpos b -> 0 <= c -> (forall j, c <= j < b -> sigb j = false) -> b <= c.
Proof.
  intros [Hb [->|Hs]] Hc Hn; [lia|]. destruct (Z_le_gt_dec b c) as [H|H]; [exact H|].
  rewrite (Hn (b - 1)) in Hs by lia. discriminate.
Qed.

(* ------------------------------------------------------------------ the run of white space under the cursor *)
Lemma trivia_run_nil l : trivia_run l 0 = [].
Proof. destruct l; reflexivity. Qed.

Lemma trivia_run_nil_l n : trivia_run [] n = [].
Proof. destruct n; reflexivity. Qed.

(* from p, with at most n tokens: the run stops at the first significant token i if i - p <= n *)
Lemma trivia_run_to l : forall p n i,
  0 <= p -> (forall k, nth_error l k = nth_error ts (Z.to_nat p + k)) ->
  p <= i -> sigb i = true -> (forall j, p <= j < i -> sigb j = false) -> (Z.to_nat (i - p) < n)%nat ->
  zlen (trivia_run l n) = i - p.
Proof.
  induction l as [|t r IH]; intros p n i Hp Hl Hpi Hs Hn Hlim.
  - exfalso. destruct (sigb_tok i Hs) as (u & Hu & _). unfold AstWriter.tok_at in Hu.
    destruct (i <? 0) eqn:E0; [discriminate|].
    specialize (Hl (Z.to_nat i - Z.to_nat p)%nat). replace (Z.to_nat p + (Z.to_nat i - Z.to_nat p))%nat with (Z.to_nat i) in Hl by lia.
    rewrite Hu in Hl. destruct (Z.to_nat i - Z.to_nat p)%nat; discriminate.
  - assert (Htp : AstWriter.tok_at ts p = Some t).
    { unfold AstWriter.tok_at. destruct (p <? 0) eqn:E0; [lia|]. rewrite <- (Nat.add_0_r (Z.to_nat p)), <- Hl. reflexivity. }
    destruct n as [|n]; [lia|]. cbn [trivia_run].
    destruct (Z.eq_dec p i) as [->|Hne].
    + destruct (sigb_tok i Hs) as (u & Hu & Htr). assert (u = t) by congruence. subst u. rewrite Htr.
      rewrite zlen_nil. lia.
    + assert (Hsp : sigb p = false) by (apply Hn; lia).
      unfold ParserProofs.sigb in Hsp. rewrite tok_at_same, Htp in Hsp. apply negb_false_iff in Hsp. rewrite Hsp.
      rewrite zlen_cons. rewrite (IH (p + 1) n i); try lia; try assumption.
      * intros k. replace (Z.to_nat (p + 1) + k)%nat with (Z.to_nat p + S k)%nat by lia. rewrite <- Hl. reflexivity.
      * intros j Hj. apply Hn. lia.
Qed.

(* whatever the bound: the tokens passed are not significant, and the run stops at a significant token, at the
   bound, or at the end of the list *)
Lemma trivia_run_stop l : forall p n,
  0 <= p -> (forall k, nth_error l k = nth_error ts (Z.to_nat p + k)) -> zlen l = len - p ->
  let q := p + zlen (trivia_run l n) in
  (forall j, p <= j < q -> sigb j = false) /\ q <= p + Z.of_nat n /\ q <= len /\
  (sigb q = true \/ q = p + Z.of_nat n \/ q = len).
Proof.
  induction l as [|t r IH]; intros p n Hp Hl Hlen; cbv zeta.
  - rewrite zlen_nil in Hlen. destruct n; cbn [trivia_run]; rewrite zlen_nil; (split; [intros; lia|]); (split; [lia|]); split; try lia; right; right; lia.
  - rewrite zlen_cons in Hlen. pose proof (zlen_nonneg r) as Hr.
    assert (Htp : AstWriter.tok_at ts p = Some t).
    { unfold AstWriter.tok_at. destruct (p <? 0) eqn:E0; [lia|]. rewrite <- (Nat.add_0_r (Z.to_nat p)), <- Hl. reflexivity. }
    destruct n as [|n]; cbn [trivia_run].
    + rewrite zlen_nil. split; [intros; lia|]. split; [lia|]. split; [lia|]. right. left. lia.
    + destruct (is_trivia t) eqn:Et.
      * rewrite zlen_cons. specialize (IH (p + 1) n). cbv zeta in IH. destruct IH as (A & B & C & D); [lia | | lia |].
        { intros k. replace (Z.to_nat (p + 1) + k)%nat with (Z.to_nat p + S k)%nat by lia. rewrite <- Hl. reflexivity. }
        replace (p + (1 + zlen (trivia_run r n))) with (p + 1 + zlen (trivia_run r n)) by lia.
        split; [|split; [lia | split; [lia|]]].
        -- intros j Hj. destruct (Z.eq_dec j p) as [->|Hne]; [|apply A; lia].
           unfold ParserProofs.sigb. rewrite tok_at_same, Htp, Et. reflexivity.
        -- destruct D as [D|[D|D]]; [left; exact D | right; left; lia | right; right; exact D].
      * rewrite zlen_nil. split; [intros; lia|]. split; [lia|]. split; [lia|]. left.
        replace (p + 0) with p by lia. unfold ParserProofs.sigb. rewrite tok_at_same, Htp, Et. reflexivity.
Qed.

Lemma skipn_nth_ts p k : nth_error (skipn (Z.to_nat p) ts) k = nth_error ts (Z.to_nat p + k).
Proof. apply nth_error_skipn. Qed.

(* ------------------------------------------------------------------ chunks *)
Definition good (c : chunk) : Prop :=
  match c with
  | Trivia s _ _ run => run = [] \/ sigb (s + zlen run) = true
  | Code _ _ => True
  end.

(* a complete run: empty, or up to a significant token, or up to the end of the list *)
Definition good_end (c : chunk) : Prop :=
  match c with
  | Trivia s _ _ run => run = [] \/ sigb (s + zlen run) = true \/ s + zlen run = len
  | Code _ _ => True
  end.

Lemma good_good_end c : good c -> good_end c.
Proof. destruct c as [s ind e run|i text]; cbn; [intros [H|H]; [left; exact H | right; left; exact H] | auto]. Qed.

Lemma codes_of_app a b : codes_of (a ++ b) = codes_of a ++ codes_of b.
Proof. unfold codes_of. apply flat_map_app. Qed.

(* ------------------------------------------------------------------ the cursor relative to a parser cursor *)
Definition nearB (c B p : Z) : Prop := 0 <= c /\ (p = c \/ ([p] = sig c (p + 1) /\ p < B)).

Lemma nearB_exact c B : 0 <= c -> nearB c B c.
Proof. intros H. split; [exact H | left; reflexivity]. Qed.

Lemma nearB_mono c B B' p : nearB c B p -> B <= B' -> nearB c B' p.
Proof. intros [H0 [H|[H1 H2]]] Hle; (split; [exact H0|]); [left; exact H | right; split; [exact H1 | lia]]. Qed.

Lemma nearB_le c B p : nearB c B p -> c <= p.
Proof. intros [H0 [->|[H1 _]]]; [lia|]. apply first_sig_inv in H1. lia. Qed.

(* at or below the bound the cursor has not moved *)
Lemma nearB_tight c B p : nearB c B p -> B <= c -> p = c.
Proof. intros [H0 [H|[H1 H2]]] Hle; [exact H|]. apply first_sig_inv in H1. lia. Qed.

Definition emitsB (B : Z) (m : WM) (c c' : Z) (L : list (Z * list Z)) : Prop :=
  forall st, nearB c B (w_pos st) ->
  exists st' cs, m st = Ok st' /\ w_pos st' = c' /\ c <= c' /\ w_out st' = rev cs ++ w_out st /\
                 codes_of cs = L /\ Forall good cs.

Lemma emitsB_mono B B' m c c' L : emitsB B m c c' L -> B' <= B -> emitsB B' m c c' L.
Proof. intros H Hle st Hn. apply H. eapply nearB_mono; eassumption. Qed.

Lemma emitsB_conv B m c c' L L' : emitsB B m c c' L -> L = L' -> emitsB B m c c' L'.
Proof. intros H <-. exact H. Qed.

Lemma emitsB_skip B c : B <= c -> emitsB B skip c c [].
Proof.
  intros Hle st Hn. exists st, []. pose proof (nearB_tight _ _ _ Hn Hle) as Hp.
  split; [reflexivity|]. split; [exact Hp|]. split; [lia|]. split; [reflexivity|]. split; [reflexivity | constructor].
Qed.

Lemma emitsX_skip c : emitsB c skip c c [].
Proof. apply emitsB_skip. lia. Qed.

Lemma emitsX_indent d c : emitsB c (indent_by d) c c [].
Proof.
  intros st Hn. eexists _, []. pose proof (nearB_tight _ _ _ Hn (Z.le_refl c)) as Hp.
  split; [reflexivity|]. cbn [w_pos w_out]. split; [exact Hp|]. split; [lia|]. split; [reflexivity|]. split; [reflexivity | constructor].
Qed.

(* sequencing: the first action may start from a loose cursor, what follows starts where it ended *)
Lemma emitsB_seq B m1 m2 c c1 c2 L1 L2 :
  emitsB B m1 c c1 L1 -> emitsB c1 m2 c1 c2 L2 -> emitsB B (m1 >> m2) c c2 (L1 ++ L2).
Proof.
  intros H1 H2 st Hn. destruct (H1 st Hn) as (st1 & cs1 & E1 & P1 & Q1 & O1 & C1 & G1).
  assert (Hn1 : nearB c1 c1 (w_pos st1)) by (rewrite P1; apply nearB_exact; destruct Hn; lia).
  destruct (H2 st1 Hn1) as (st2 & cs2 & E2 & P2 & Q2 & O2 & C2 & G2).
  exists st2, (cs1 ++ cs2). unfold seq. rewrite E1. split; [exact E2|]. split; [exact P2|]. split; [lia|].
  split; [rewrite O2, O1, rev_app_distr, app_assoc; reflexivity|].
  split; [rewrite codes_of_app, C1, C2; reflexivity | apply Forall_app; split; assumption].
Qed.

(* an action that leaves a loose cursor (white space, indentation bookkeeping) in front of an action *)
Definition movesB (B B' : Z) (m : WM) : Prop :=
  forall c st, nearB c B (w_pos st) ->
  exists st' cs, m st = Ok st' /\ nearB c B' (w_pos st') /\ w_out st' = rev cs ++ w_out st /\ codes_of cs = [] /\ Forall good cs.

Lemma emitsB_after B B' m1 m2 c c' L : movesB B B' m1 -> emitsB B' m2 c c' L -> emitsB B (m1 >> m2) c c' L.
Proof.
  intros H1 H2 st Hn. destruct (H1 c st Hn) as (st1 & cs1 & E1 & N1 & O1 & C1 & G1).
  destruct (H2 st1 N1) as (st2 & cs2 & E2 & P2 & Q2 & O2 & C2 & G2).
  exists st2, (cs1 ++ cs2). unfold seq. rewrite E1. split; [exact E2|]. split; [exact P2|]. split; [exact Q2|].
  split; [rewrite O2, O1, rev_app_distr, app_assoc; reflexivity|].
  split; [rewrite codes_of_app, C1, C2; reflexivity | apply Forall_app; split; assumption].
Qed.

Lemma moves_indent B d : movesB B B (indent_by d).
Proof.
  intros c st Hn. eexists _, []. split; [reflexivity|]. cbn [w_pos w_out].
  repeat split; try reflexivity; try apply Hn; constructor.
Qed.

(* _get_code_for_spaces with an end position as bound *)
Lemma moves_spaces_to B b : okpos b -> movesB B (Z.max B b) (spaces_to ts b).
Proof.
  intros Hb c st Hn. unfold spaces_to.
  set (p := w_pos st) in *. set (run := trivia_run (skipn (Z.to_nat p) ts) (Z.to_nat (b - p))).
  exists (mkW (p + zlen run) (w_ind st) (Trivia p (w_ind st) (p + zlen run =? ntok ts) run :: w_out st)),
         [Trivia p (w_ind st) (p + zlen run =? ntok ts) run].
  split; [reflexivity|]. cbn [w_pos w_out].
  assert (Hp0 : 0 <= p) by (pose proof (nearB_le _ _ _ Hn); destruct Hn; lia).
  split; [|split; [reflexivity | split; [reflexivity|]]].
  - destruct Hn as [H0 [Hpc|[Hps HpB]]].
    + (* the cursor is at c *)
      destruct (Z_le_gt_dec len p) as [Hlen|Hlen].
      { (* at or past the end of the list: nothing to read *)
        assert (run = []) as ->.
        { unfold run. rewrite skipn_all2 by (unfold zlen in Hlen; lia). apply trivia_run_nil_l. }
        rewrite zlen_nil. replace (p + 0) with p by lia. split; [exact H0 | left; exact Hpc]. }
      destruct (trivia_run_stop (skipn (Z.to_nat p) ts) p (Z.to_nat (b - p))) as (A & Bd & Cd & D);
        [lia | intros k; apply skipn_nth_ts | rewrite zlen_skipn by (unfold zlen in Hlen; lia); lia |].
      fold run in A, Bd, Cd, D. split; [exact H0|].
      destruct (Z.eq_dec (zlen run) 0) as [Hz|Hz]; [left; lia|]. right. pose proof (zlen_nonneg run).
      assert (Hq : sigb (p + zlen run) = true).
      { destruct D as [D|[D|D]]; [exact D | |].
        - (* stopped by the bound: the token before an end position is significant *)
          exfalso. destruct Hb as [Hb1 [Hb2|Hb2]]; [lia|]. rewrite (A (b - 1)) in Hb2 by lia. discriminate.
        - exfalso. destruct Hb as [Hb1 [Hb2|Hb2]]; [lia|].
          assert (b = len) by lia. subst b. rewrite (A (len - 1)) in Hb2 by lia. discriminate. }
      assert (Hqb : p + zlen run < b).
      { destruct (Z_lt_ge_dec (p + zlen run) b) as [Hlt|Hge]; [exact Hlt|]. exfalso.
        destruct Hb as [Hb1 [Hb2|Hb2]]; [lia|]. rewrite (A (b - 1)) in Hb2 by lia. discriminate. }
      split; [|lia]. subst p. rewrite <- Hpc. apply first_sig_intro; [lia | exact Hq | exact A].
    + (* already at a significant token *)
      destruct (first_sig_inv _ _ Hps) as (A1 & A2 & A3). destruct (sigb_tok _ A2) as (t & Ht & Htr).
      assert (run = []) as ->.
      { unfold run. destruct (Z.to_nat (b - p)) as [|n]; [apply trivia_run_nil|].
        unfold AstWriter.tok_at in Ht. destruct (p <? 0); [discriminate|].
        rewrite <- (Nat.add_0_r (Z.to_nat p)), <- skipn_nth_ts in Ht.
        destruct (skipn (Z.to_nat p) ts) as [|u r]; [discriminate|]. cbn [nth_error] in Ht. injection Ht as ->.
        cbn [trivia_run]. rewrite Htr. reflexivity. }
      rewrite zlen_nil. replace (p + 0) with p by lia. split; [exact H0 | right; split; [exact Hps | lia]].
  - apply Forall_cons; [|apply Forall_nil]. cbn [good].
    destruct (Z_le_gt_dec len p) as [Hlen|Hlen].
    { left. unfold run. rewrite skipn_all2 by (unfold zlen in Hlen; lia). apply trivia_run_nil_l. }
    destruct (trivia_run_stop (skipn (Z.to_nat p) ts) p (Z.to_nat (b - p))) as (A & Bd & Cd & D);
      [lia | intros k; apply skipn_nth_ts | rewrite zlen_skipn by (unfold zlen in Hlen; lia); lia |].
    fold run in A, Bd, Cd, D. destruct run as [|t0 r0] eqn:Er; [left; reflexivity | right].
    rewrite <- Er in *. pose proof (zlen_nonneg run). assert (0 < zlen run) by (rewrite Er, zlen_cons; pose proof (zlen_nonneg r0); lia).
    destruct D as [D|[D|D]]; [exact D | |].
    + exfalso. destruct Hb as [Hb1 [Hb2|Hb2]]; [lia|]. rewrite (A (b - 1)) in Hb2 by lia. discriminate.
    + exfalso. destruct Hb as [Hb1 [Hb2|Hb2]]; [lia|].
      assert (b = len) by lia. subst b. rewrite (A (len - 1)) in Hb2 by lia. discriminate.
Qed.

Lemma moves_spaces B tag s e sh fs : okpos e -> movesB B (Z.max B e) (spaces ts (Node tag s e sh fs)).
Proof. intros H. unfold spaces, bound_of. apply moves_spaces_to, H. Qed.

(* white space when the next significant token i lies before the bound: the cursor ends exactly at i *)
Lemma spaces_hit b c B i st : [i] = sig c (i + 1) -> i < b -> nearB c B (w_pos st) ->
  exists st' cs, spaces_to ts b st = Ok st' /\ w_pos st' = i /\ w_ind st' = w_ind st /\
                 w_out st' = rev cs ++ w_out st /\ codes_of cs = [] /\ Forall good cs.
Proof.
  intros Hi Hb Hn. unfold spaces_to.
  set (p := w_pos st) in *. set (run := trivia_run (skipn (Z.to_nat p) ts) (Z.to_nat (b - p))).
  exists (mkW (p + zlen run) (w_ind st) (Trivia p (w_ind st) (p + zlen run =? ntok ts) run :: w_out st)),
         [Trivia p (w_ind st) (p + zlen run =? ntok ts) run].
  split; [reflexivity|]. cbn [w_pos w_ind w_out].
  destruct (first_sig_inv _ _ Hi) as (A1 & A2 & A3).
  assert (Hp : c <= p <= i).
  { destruct Hn as [H0 [->|[Hps _]]]; [lia|]. rewrite (first_sig_unique _ _ _ Hps Hi). lia. }
  assert (Hlen : zlen run = i - p).
  { apply (trivia_run_to _ p _ i); try lia; try assumption; [destruct Hn; lia | intros k; apply skipn_nth_ts | intros j Hj; apply A3; lia]. }
  split; [lia|]. split; [reflexivity|]. split; [reflexivity|]. split; [reflexivity|].
  apply Forall_cons; [|apply Forall_nil]. cbn [good]. right. rewrite Hlen. replace (p + (i - p)) with i by lia. exact A2.
Qed.

Lemma with_cur_at k st t : AstWriter.tok_at ts (w_pos st) = Some t -> with_cur ts k st = k t st.
Proof. intros H. unfold with_cur, cur. rewrite H. reflexivity. Qed.

(* white space, then a decision on the token under the cursor, which is the next significant token i *)
Lemma emitsB_spaces_cur B b k c c' L i t :
  [i] = sig c (i + 1) -> i < b -> AstWriter.tok_at ts i = Some t ->
  emitsB i (k t) i c' L -> emitsB B (spaces_to ts b >> with_cur ts k) c c' L.
Proof.
  intros Hi Hb Ht Hk st Hn. destruct (spaces_hit b c B i st Hi Hb Hn) as (st1 & cs1 & E1 & P1 & _ & O1 & C1 & G1).
  assert (Hn1 : nearB i i (w_pos st1)).
  { rewrite P1. apply nearB_exact. destruct Hn as [H0 _]. apply first_sig_inv in Hi. lia. }
  destruct (Hk st1 Hn1) as (st2 & cs2 & E2 & P2 & Q2 & O2 & C2 & G2).
  exists st2, (cs1 ++ cs2). unfold seq. rewrite E1. rewrite (with_cur_at k st1 t) by (rewrite P1; exact Ht).
  split; [exact E2|]. split; [exact P2|]. split; [apply first_sig_inv in Hi; lia|].
  split; [rewrite O2, O1, rev_app_distr, app_assoc; reflexivity|].
  split; [rewrite codes_of_app, C1, C2; reflexivity | apply Forall_app; split; assumption].
Qed.

Lemma emitsX_advance i text : 0 <= i -> emitsB i (advance_emit text) i (i + 1) [(i, text)].
Proof.
  intros H0 st Hn. pose proof (nearB_tight _ _ _ Hn (Z.le_refl i)) as Hp.
  eexists _, [Code (w_pos st) text]. split; [reflexivity|]. cbn [w_pos w_out]. rewrite Hp.
  split; [reflexivity|]. split; [lia|]. split; [reflexivity|]. split; [reflexivity | repeat constructor].
Qed.

(* _get_text at a leaf *)
Lemma emitsB_get_text B tag s e sh fs kw c i t :
  [i] = sig c (i + 1) -> i < e -> AstWriter.tok_at ts i = Some t -> is_kw_or_sym kw t = true ->
  emitsB B (get_text ts (Node tag s e sh fs) kw) c (i + 1) [(i, kw)].
Proof.
  intros Hi He Ht Hk. unfold get_text, spaces, bound_of.
  eapply emitsB_spaces_cur; [exact Hi | exact He | exact Ht|]. rewrite Hk.
  apply emitsX_advance. apply first_sig_inv in Hi. intros. destruct Hi as (Hi & Hs & _). apply sigb_range in Hs. lia.
Qed.

(* _get_name at a leaf: the token comes from the tree *)
Lemma emitsB_get_name B tag s e sh fs c i t :
  [i] = sig c (i + 1) -> i < e -> kclass_eqb (tk t) CName = true ->
  emitsB B (get_name ts (Node tag s e sh fs) t) c (i + 1) [(i, tcode t)].
Proof.
  intros Hi He Hk. unfold get_name, spaces, bound_of. rewrite Hk. intros st Hn.
  destruct (spaces_hit e c B i st Hi He Hn) as (st1 & cs1 & E1 & P1 & _ & O1 & C1 & G1).
  eexists _, (cs1 ++ [Code i (tcode t)]). unfold seq. rewrite E1. unfold advance_emit. split; [reflexivity|].
  cbn [w_pos w_out]. rewrite P1. split; [reflexivity|]. split; [apply first_sig_inv in Hi; lia|].
  split; [rewrite O1, rev_app_distr; reflexivity|].
  split; [rewrite codes_of_app, C1; reflexivity | apply Forall_app; split; [exact G1 | repeat constructor]].
Qed.

(* white space, then the code of the tree's token, without looking at the cursor (numbers, strings) *)
Lemma emitsB_spaces_advance B b c i text :
  [i] = sig c (i + 1) -> i < b -> emitsB B (spaces_to ts b >> advance_emit text) c (i + 1) [(i, text)].
Proof.
  intros Hi Hb st Hn.
  destruct (spaces_hit b c B i st Hi Hb Hn) as (st1 & cs1 & E1 & P1 & _ & O1 & C1 & G1).
  eexists _, (cs1 ++ [Code i text]). unfold seq. rewrite E1. unfold advance_emit. split; [reflexivity|].
  cbn [w_pos w_out]. rewrite P1. split; [reflexivity|]. split; [apply first_sig_inv in Hi; lia|].
  split; [rewrite O1, rev_app_distr; reflexivity|].
  split; [rewrite codes_of_app, C1; reflexivity | apply Forall_app; split; [exact G1 | repeat constructor]].
Qed.

End C.
