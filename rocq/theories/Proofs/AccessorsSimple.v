(* C17, the 14 accessor operations without loops: sprite flags, sfx notes and properties,
   music channels and flags, single map cells. For every in-contract call on a well-formed
   memory the model of the code returns exactly what the plain model (Spec/PlainMem.v)
   predicts, never raises, and leaves a well-formed memory. Bit-level facts are complete
   vm_compute sweeps over the regenerated kernels' finite domains. *)
From PV Require Import Base.Prelude Base.ListX Base.PySlice Model.HexSection Model.Gfx Model.Gff Model.MapSec
  Model.Sfx Model.Music Model.Accessors Generated.K_gff Generated.K_map Generated.K_sfx Generated.K_music
  Spec.P8Format Spec.PlainMem Proofs.RowLemmas Proofs.SfxProofs Proofs.AccessorsBase.
From Coq Require Import ZifyBool.
Ltac Zify.zify_post_hook ::= Z.to_euclidean_division_equations.

Definition op_ok (s : mem) (o : op) : Prop :=
  step_model true s o = Ok (spec_step s o) /\ wf_mem (fst (spec_step s o)).

Lemma wf_mem_mk g m f mu sf :
  zlen g = 8192 -> zlen m = 4096 -> zlen f = 256 -> zlen mu = 256 -> zlen sf = 4352 ->
  Forall byte g -> Forall byte m -> Forall byte f -> Forall byte mu -> Forall byte sf ->
  wf_mem {| m_gfx := g; m_map := m; m_gff := f; m_music := mu; m_sfx := sf |}.
Proof. intros. unfold wf_mem. cbn. repeat split; assumption. Qed.

Ltac wf_destruct H :=
  let Lg := fresh "Lg" in let Lm := fresh "Lm" in let Lf := fresh "Lf" in let Lmu := fresh "Lmu" in
  let Ls := fresh "Ls" in let Bg := fresh "Bg" in let Bm := fresh "Bm" in let Bf := fresh "Bf" in
  let Bmu := fresh "Bmu" in let Bs := fresh "Bs" in
  pose proof H as (Lg & Lm & Lf & Lmu & Ls & Bg & Bm & Bf & Bmu & Bs).

(* ================= sprite flags ================= *)
Definition flag_facts (a b : Z) : bool :=
  byteb (Z.lor a b) && byteb (Z.land a (Z.land (Z.lnot b) 255)) && (Z.land (Z.lnot b) 255 =? 255 - b).
Lemma flag_facts_all : forallb (fun a => forallb (fun b => flag_facts a b) (upto 256)) (upto 256) = true.
Proof. vm_compute. reflexivity. Qed.
Lemma flag_spec a b : byte a -> byte b ->
  byte (Z.lor a b) /\ byte (Z.land a (Z.land (Z.lnot b) 255)) /\ Z.land (Z.lnot b) 255 = 255 - b.
Proof.
  intros Ha Hb. pose proof (sweep_upto _ _ (sweep_upto _ _ flag_facts_all a Ha) b Hb) as H.
  cbv beta in H. unfold flag_facts in H.
  apply andb_true_iff in H. destruct H as [H H3]. apply andb_true_iff in H. destruct H as [H1 H2].
  apply byteb_spec in H1, H2. apply Z.eqb_eq in H3. split; [|split]; assumption.
Qed.

Lemma flagget_ok s id fl : wf_mem s -> in_contract (FlagGet id fl) = true -> op_ok s (FlagGet id fl).
Proof.
  intros W C. wf_destruct W. unfold in_contract, inr in C. split; [|exact W].
  unfold step_model, spec_step. cbv beta iota zeta. unfold gff_get_flags.
  rewrite assert_true by (unfold gff_get_assert; lia). cbn [bind].
  rewrite py_get_at by lia. cbn [bind]. unfold gff_get. rewrite arr_at by lia. reflexivity.
Qed.

Lemma flagset_ok s id fl : wf_mem s -> in_contract (FlagSet id fl) = true -> op_ok s (FlagSet id fl).
Proof.
  intros W C. wf_destruct W. unfold in_contract, inr in C.
  assert (Ha : byte (at_ (m_gff s) id)) by (apply at_byte; [assumption | lia]).
  assert (Hb : byte fl) by (unfold byte; lia).
  destruct (flag_spec _ _ Ha Hb) as (F1 & F2 & F3). destruct (nib_spec fl Hb) as (_ & _ & _ & N & _).
  split.
  - unfold step_model, spec_step. cbv beta iota zeta. unfold gff_set_flags.
    rewrite assert_true by (unfold gff_set_assert; lia). cbn [bind]. unfold gff_set_idx, gff_set_new.
    rewrite py_get_at by lia. cbn [bind]. rewrite arr_at by lia. rewrite N.
    rewrite py_set_byte_put by (assumption || lia). reflexivity.
  - unfold spec_step. cbn [fst]. apply wf_mem_mk; try assumption; [rewrite zlen_put; assumption | apply Forall_put; assumption].
Qed.

Lemma flagclear_ok s id fl : wf_mem s -> in_contract (FlagClear id fl) = true -> op_ok s (FlagClear id fl).
Proof.
  intros W C. wf_destruct W. unfold in_contract, inr in C.
  assert (Ha : byte (at_ (m_gff s) id)) by (apply at_byte; [assumption | lia]).
  assert (Hb : byte fl) by (unfold byte; lia).
  destruct (flag_spec _ _ Ha Hb) as (F1 & F2 & F3).
  split.
  - unfold step_model, spec_step. cbv beta iota zeta. unfold gff_clear_flags.
    rewrite assert_true by (unfold gff_clear_assert; lia). cbn [bind]. unfold gff_clear_idx, gff_clear_new.
    rewrite py_get_at by lia. cbn [bind]. rewrite arr_at by lia.
    rewrite py_set_byte_put by (assumption || lia). rewrite F3. reflexivity.
  - unfold spec_step. cbn [fst]. rewrite <- F3.
    apply wf_mem_mk; try assumption; [rewrite zlen_put; assumption | apply Forall_put; assumption].
Qed.

Lemma flagreset_ok s id fl : wf_mem s -> in_contract (FlagReset id fl) = true -> op_ok s (FlagReset id fl).
Proof.
  intros W C. wf_destruct W. unfold in_contract, inr in C.
  assert (Hb : byte fl) by (unfold byte; lia).
  destruct (nib_spec fl Hb) as (_ & _ & _ & N & _).
  split.
  - unfold step_model, spec_step. cbv beta iota zeta. unfold gff_reset_flags.
    rewrite assert_true by (unfold gff_reset_assert; lia). cbn [bind]. unfold gff_reset_idx, gff_reset_val.
    rewrite N. rewrite py_set_byte_put by (assumption || lia). reflexivity.
  - unfold spec_step. cbn [fst].
    apply wf_mem_mk; try assumption; [rewrite zlen_put; assumption | apply Forall_put; assumption].
Qed.

(* ================= sfx notes ================= *)
(* every byte pair is (enc_lsb P W, enc_msb W V E) of its own fields (note_word_spec), so the
   per-field updates can be swept over the fields: 64 x 16 x 8 x 8 *)
Definition sn_pitch_facts (P W p : Z) : bool := sfx_sn_lsb_pitch (enc_lsb P W) p =? enc_lsb p W.
Lemma sn_pitch_facts_all :
  forallb (fun P => forallb (fun W => forallb (fun p => sn_pitch_facts P W p) (upto 64)) (upto 16)) (upto 64) = true.
Proof. vm_compute. reflexivity. Qed.
Definition sn_wave_facts (P W V E w : Z) : bool :=
  (sfx_sn_lsb_waveform (enc_lsb P W) w =? enc_lsb P w) && (sfx_sn_msb_waveform (enc_msb W V E) w =? enc_msb w V E).
Lemma sn_wave_facts_all :
  forallb (fun P => forallb (fun W => forallb (fun V => forallb (fun E => forallb (fun w => sn_wave_facts P W V E w)
    (upto 16)) (upto 8)) (upto 8)) (upto 16)) (upto 64) = true.
Proof. vm_compute. reflexivity. Qed.
Definition sn_ve_facts (W V E x : Z) : bool :=
  (sfx_sn_msb_volume (enc_msb W V E) x =? enc_msb W x E) && (sfx_sn_msb_effect (enc_msb W V E) x =? enc_msb W V x).
Lemma sn_ve_facts_all :
  forallb (fun W => forallb (fun V => forallb (fun E => forallb (fun x => sn_ve_facts W V E x)
    (upto 8)) (upto 8)) (upto 8)) (upto 16) = true.
Proof. vm_compute. reflexivity. Qed.

Lemma sn_pitch P W p : 0 <= P < 64 -> 0 <= W < 16 -> 0 <= p < 64 ->
  sfx_sn_lsb_pitch (enc_lsb P W) p = enc_lsb p W.
Proof.
  intros HP HW Hp.
  pose proof (sweep_upto _ _ (sweep_upto _ _ (sweep_upto _ _ sn_pitch_facts_all P HP) W HW) p Hp) as H.
  cbv beta in H. unfold sn_pitch_facts in H. apply Z.eqb_eq. exact H.
Qed.
Lemma sn_wave P W V E w : 0 <= P < 64 -> 0 <= W < 16 -> 0 <= V < 8 -> 0 <= E < 8 -> 0 <= w < 16 ->
  sfx_sn_lsb_waveform (enc_lsb P W) w = enc_lsb P w /\ sfx_sn_msb_waveform (enc_msb W V E) w = enc_msb w V E.
Proof.
  intros HP HW HV HE Hw.
  pose proof (sweep_upto _ _ (sweep_upto _ _ (sweep_upto _ _ (sweep_upto _ _ (sweep_upto _ _
    sn_wave_facts_all P HP) W HW) V HV) E HE) w Hw) as H.
  cbv beta in H. unfold sn_wave_facts in H. apply andb_true_iff in H. destruct H as [H1 H2].
  split; apply Z.eqb_eq; assumption.
Qed.
Lemma sn_ve W V E x : 0 <= W < 16 -> 0 <= V < 8 -> 0 <= E < 8 -> 0 <= x < 8 ->
  sfx_sn_msb_volume (enc_msb W V E) x = enc_msb W x E /\ sfx_sn_msb_effect (enc_msb W V E) x = enc_msb W V x.
Proof.
  intros HW HV HE Hx.
  pose proof (sweep_upto _ _ (sweep_upto _ _ (sweep_upto _ _ (sweep_upto _ _ sn_ve_facts_all W HW) V HV) E HE) x Hx) as H.
  cbv beta in H. unfold sn_ve_facts in H. apply andb_true_iff in H. destruct H as [H1 H2].
  split; apply Z.eqb_eq; assumption.
Qed.

Lemma enc_bytes p w v e : 0 <= p < 64 -> 0 <= w < 16 -> 0 <= v < 8 -> 0 <= e < 8 ->
  byte (enc_lsb p w) /\ byte (enc_msb w v e).
Proof. intros. unfold enc_lsb, enc_msb, byte. lia. Qed.

Lemma word_split p w v e : 0 <= p < 64 -> 0 <= w < 16 -> 0 <= v < 8 -> 0 <= e < 8 ->
  let word := p + 64 * (w mod 8) + 512 * v + 4096 * e + 32768 * (w / 8) in
  word mod 256 = enc_lsb p w /\ word / 256 = enc_msb w v e.
Proof. intros Hp Hw Hv He word. subst word. unfold enc_lsb, enc_msb. lia. Qed.

(* the four fields of the note at (id, n), named *)
Definition nP (d : list Z) (i : Z) := sfx_gn_pitch (at_ d i).
Definition nW (d : list Z) (i : Z) := sfx_gn_waveform (at_ d (i + 1)) (at_ d i).
Definition nV (d : list Z) (i : Z) := sfx_gn_volume (at_ d (i + 1)).
Definition nE (d : list Z) (i : Z) := sfx_gn_effect (at_ d (i + 1)).

Lemma note_get_fields d id n : zlen d = 4352 -> Forall byte d -> 0 <= id <= 63 -> 0 <= n <= 31 ->
  let i := id * 68 + n * 2 in
  note_get d id n = [nP d i; nW d i; nV d i; nE d i] /\
  0 <= nP d i < 64 /\ 0 <= nW d i < 16 /\ 0 <= nV d i < 8 /\ 0 <= nE d i < 8 /\
  enc_lsb (nP d i) (nW d i) = at_ d i /\ enc_msb (nW d i) (nV d i) (nE d i) = at_ d (i + 1).
Proof.
  intros L B Hid Hn i.
  assert (Hl : byte (at_ d i)) by (apply at_byte; [assumption | subst i; lia]).
  assert (Hm : byte (at_ d (i + 1))) by (apply at_byte; [assumption | subst i; lia]).
  pose proof (note_word_spec _ _ Hl Hm) as H. cbv zeta in H.
  destruct H as (H1 & H2 & H3 & H4 & R1 & R2 & R3 & R4 & E1 & E2 & _).
  unfold nP, nW, nV, nE. repeat split; try assumption; try lia.
  unfold note_get. fold i. rewrite <- H1, <- H2, <- H3, <- H4. reflexivity.
Qed.

Lemma noteget_ok s id n : wf_mem s -> in_contract (NoteGet id n) = true -> op_ok s (NoteGet id n).
Proof.
  intros W C. wf_destruct W. unfold in_contract, inr in C. split; [|exact W].
  destruct (note_get_fields (m_sfx s) id n Ls Bs ltac:(lia) ltac:(lia)) as (G & _).
  unfold step_model, spec_step. cbv beta iota zeta. rewrite G. unfold sfx_get_note.
  unfold sfx_gn_lsb_idx, sfx_gn_msb_idx.
  rewrite py_get_at by lia. cbn [bind]. rewrite py_get_at by lia. cbn [bind]. reflexivity.
Qed.

Lemma sfx_set_note_ok d id n p w v e :
  zlen d = 4352 -> Forall byte d -> 0 <= id <= 63 -> 0 <= n <= 31 ->
  oinr 0 p 63 = true -> oinr 0 w 15 = true -> oinr 0 v 7 = true -> oinr 0 e 7 = true ->
  sfx_set_note d id n p w v e = Ok (note_set d id n p w v e) /\
  zlen (note_set d id n p w v e) = 4352 /\ Forall byte (note_set d id n p w v e).
Proof.
  intros L B Hid Hn Cp Cw Cv Ce.
  destruct (note_get_fields d id n L B Hid Hn) as (G & RP & RW & RV & RE & EL & EM). cbv zeta in *.
  set (i := id * 68 + n * 2) in *.
  assert (Hi : 0 <= i /\ i + 1 < 4352) by (subst i; lia).
  (* the spec side *)
  unfold note_set. rewrite G.
  set (p1 := odef p (nP d i)). set (w1 := odef w (nW d i)). set (v1 := odef v (nV d i)). set (e1 := odef e (nE d i)).
  assert (Rp1 : 0 <= p1 < 64) by (subst p1; destruct p; cbn [odef oinr] in *; unfold inr in *; lia).
  assert (Rw1 : 0 <= w1 < 16) by (subst w1; destruct w; cbn [odef oinr] in *; unfold inr in *; lia).
  assert (Rv1 : 0 <= v1 < 8) by (subst v1; destruct v; cbn [odef oinr] in *; unfold inr in *; lia).
  assert (Re1 : 0 <= e1 < 8) by (subst e1; destruct e; cbn [odef oinr] in *; unfold inr in *; lia).
  destruct (word_split p1 w1 v1 e1 Rp1 Rw1 Rv1 Re1) as (WS1 & WS2). cbv zeta in WS1, WS2.
  cbv zeta. fold i. rewrite WS1, WS2.
  destruct (enc_bytes p1 w1 v1 e1 Rp1 Rw1 Rv1 Re1) as (BL & BM).
  split; [|split; [rewrite !zlen_put; exact L | repeat apply Forall_put; assumption]].
  (* the code side *)
  unfold sfx_set_note. unfold sfx_sn_lsb_idx, sfx_sn_msb_idx, sfx_sn_store_lsb_idx, sfx_sn_store_msb_idx. fold i.
  rewrite py_get_at by lia. cbn [bind]. rewrite py_get_at by lia. cbn [bind].
  rewrite <- EL, <- EM.
  assert (S1 : (if sfx_sn_if_pitch (is_none p)
                then _ <- assert_ (sfx_sn_assert_pitch (oget p)) ;; Ok (sfx_sn_lsb_pitch (enc_lsb (nP d i) (nW d i)) (oget p))
                else Ok (enc_lsb (nP d i) (nW d i))) = Ok (enc_lsb p1 (nW d i))).
  { subst p1. destruct p as [p|]; cbn [is_none oget odef sfx_sn_if_pitch negb oinr] in *; [|reflexivity].
    unfold inr in Cp. rewrite assert_true by (unfold sfx_sn_assert_pitch; lia). cbn [bind].
    rewrite sn_pitch by lia. reflexivity. }
  rewrite S1. cbn [bind].
  assert (S2 : (if sfx_sn_if_waveform (is_none w)
                then _ <- assert_ (sfx_sn_assert_waveform (oget w)) ;;
                     Ok (sfx_sn_lsb_waveform (enc_lsb p1 (nW d i)) (oget w),
                         sfx_sn_msb_waveform (enc_msb (nW d i) (nV d i) (nE d i)) (oget w))
                else Ok (enc_lsb p1 (nW d i), enc_msb (nW d i) (nV d i) (nE d i)))
               = Ok (enc_lsb p1 w1, enc_msb w1 (nV d i) (nE d i))).
  { subst w1. destruct w as [w|]; cbn [is_none oget odef sfx_sn_if_waveform negb oinr] in *; [|reflexivity].
    unfold inr in Cw. rewrite assert_true by (unfold sfx_sn_assert_waveform; lia). cbn [bind].
    destruct (sn_wave p1 (nW d i) (nV d i) (nE d i) w) as (A1 & A2); try lia. rewrite A1, A2. reflexivity. }
  rewrite S2. cbn [bind].
  assert (S3 : (if sfx_sn_if_volume (is_none v)
                then _ <- assert_ (sfx_sn_assert_volume (oget v)) ;;
                     Ok (sfx_sn_msb_volume (enc_msb w1 (nV d i) (nE d i)) (oget v))
                else Ok (enc_msb w1 (nV d i) (nE d i))) = Ok (enc_msb w1 v1 (nE d i))).
  { subst v1. destruct v as [v|]; cbn [is_none oget odef sfx_sn_if_volume negb oinr] in *; [|reflexivity].
    unfold inr in Cv. rewrite assert_true by (unfold sfx_sn_assert_volume; lia). cbn [bind].
    destruct (sn_ve w1 (nV d i) (nE d i) v) as (A1 & _); try lia. rewrite A1. reflexivity. }
  rewrite S3. cbn [bind].
  assert (S4 : (if sfx_sn_if_effect (is_none e)
                then _ <- assert_ (sfx_sn_assert_effect (oget e)) ;;
                     Ok (sfx_sn_msb_effect (enc_msb w1 v1 (nE d i)) (oget e))
                else Ok (enc_msb w1 v1 (nE d i))) = Ok (enc_msb w1 v1 e1)).
  { subst e1. destruct e as [e|]; cbn [is_none oget odef sfx_sn_if_effect negb oinr] in *; [|reflexivity].
    unfold inr in Ce. rewrite assert_true by (unfold sfx_sn_assert_effect; lia). cbn [bind].
    destruct (sn_ve w1 v1 (nE d i) e) as (_ & A2); try lia. rewrite A2. reflexivity. }
  rewrite S4. cbn [bind].
  rewrite py_set_byte_put by (assumption || lia). cbn [bind].
  rewrite py_set_byte_put by (try assumption; rewrite zlen_put; lia). reflexivity.
Qed.

Lemma noteset_ok s id n p w v e :
  wf_mem s -> in_contract (NoteSet id n p w v e) = true -> op_ok s (NoteSet id n p w v e).
Proof.
  intros W C. wf_destruct W. unfold in_contract in C.
  repeat (apply andb_true_iff in C; destruct C as [C ?]). unfold inr in C.
  match goal with H : inr 0 n 31 = true |- _ => unfold inr in H end.
  destruct (sfx_set_note_ok (m_sfx s) id n p w v e Ls Bs) as (E & L' & B'); try assumption; try lia.
  split.
  - unfold step_model, spec_step. cbv beta iota zeta. rewrite E. reflexivity.
  - unfold spec_step. cbn [fst]. apply wf_mem_mk; assumption.
Qed.

(* ================= sfx properties ================= *)
Lemma sfxpropget_ok s id : wf_mem s -> in_contract (SfxPropGet id) = true -> op_ok s (SfxPropGet id).
Proof.
  intros W C. wf_destruct W. unfold in_contract, inr in C. split; [|exact W].
  unfold step_model, spec_step. cbv beta iota zeta. unfold sfx_get_properties.
  unfold sfx_gp_idx_0, sfx_gp_idx_1, sfx_gp_idx_2, sfx_gp_idx_3.
  rewrite !py_get_at by lia. reflexivity.
Qed.

Lemma set_opt_ok d i o : 0 <= i < zlen d -> oinr 0 o 255 = true -> Forall byte d ->
  set_opt d i o = Ok (put_opt d i o) /\ zlen (put_opt d i o) = zlen d /\ Forall byte (put_opt d i o).
Proof.
  intros Hi Ho B. destruct o as [v|]; cbn [set_opt put_opt oinr] in *; [|auto].
  unfold inr in Ho. assert (Hv : byte v) by (unfold byte; lia).
  rewrite py_set_byte_put by assumption. split; [reflexivity|]. split; [apply zlen_put | apply Forall_put; assumption].
Qed.

Lemma sfxpropset_ok s id a b c d :
  wf_mem s -> in_contract (SfxPropSet id a b c d) = true -> op_ok s (SfxPropSet id a b c d).
Proof.
  intros W C. wf_destruct W. unfold in_contract in C.
  repeat (apply andb_true_iff in C; destruct C as [C ?]). unfold inr in C.
  destruct (set_opt_ok (m_sfx s) (id * 68 + 64) a) as (E1 & L1 & B1); try assumption; try lia.
  destruct (set_opt_ok (put_opt (m_sfx s) (id * 68 + 64) a) (id * 68 + 65) b) as (E2 & L2 & B2); try assumption; try lia.
  destruct (set_opt_ok (put_opt (put_opt (m_sfx s) (id * 68 + 64) a) (id * 68 + 65) b) (id * 68 + 66) c)
    as (E3 & L3 & B3); try assumption; try lia.
  destruct (set_opt_ok (put_opt (put_opt (put_opt (m_sfx s) (id * 68 + 64) a) (id * 68 + 65) b) (id * 68 + 66) c)
                       (id * 68 + 67) d) as (E4 & L4 & B4); try assumption; try lia.
  split.
  - unfold step_model, spec_step. cbv beta iota zeta. unfold sfx_set_properties.
    unfold sfx_sp_idx_0, sfx_sp_idx_1, sfx_sp_idx_2, sfx_sp_idx_3.
    rewrite E1. cbn [bind]. rewrite E2. cbn [bind]. rewrite E3. cbn [bind]. rewrite E4. reflexivity.
  - unfold spec_step. cbn [fst]. apply wf_mem_mk; try assumption. lia.
Qed.

(* ================= music ================= *)
Definition chan_facts (b p : Z) : bool :=
  (Z.lor (Z.land b 128) p =? (b / 128) * 128 + p) && byteb ((b / 128) * 128 + p).
Lemma chan_facts_all : forallb (fun b => forallb (fun p => chan_facts b p) (upto 128)) (upto 256) = true.
Proof. vm_compute. reflexivity. Qed.
Lemma chan_spec b p : byte b -> 0 <= p < 128 ->
  Z.lor (Z.land b 128) p = (b / 128) * 128 + p /\ byte ((b / 128) * 128 + p).
Proof.
  intros Hb Hp. pose proof (sweep_upto _ _ (sweep_upto _ _ chan_facts_all b Hb) p Hp) as H.
  cbv beta in H. unfold chan_facts in H. apply andb_true_iff in H. destruct H as [H1 H2].
  split; [apply Z.eqb_eq; assumption | apply byteb_spec; assumption].
Qed.

Definition mflag_facts (b : Z) : bool :=
  (Z.lor (Z.land b 127) 128 =? b mod 128 + 128) && (Z.lor (Z.land b 127) 0 =? b mod 128 + 0).
Lemma mflag_facts_all : forallb mflag_facts (upto 256) = true.
Proof. vm_compute. reflexivity. Qed.
Lemma mflag_spec b (x : bool) : byte b ->
  Z.lor (Z.land b 127) (if x then 128 else 0) = b mod 128 + (if x then 128 else 0) /\
  byte (b mod 128 + (if x then 128 else 0)).
Proof.
  intros Hb. pose proof (sweep_byte _ mflag_facts_all b Hb) as H. unfold mflag_facts in H.
  apply andb_true_iff in H. destruct H as [H1 H2]. apply Z.eqb_eq in H1, H2.
  unfold byte in *. destruct x; split; try assumption; lia.
Qed.

Lemma changet_ok s id ch : wf_mem s -> in_contract (ChanGet id ch) = true -> op_ok s (ChanGet id ch).
Proof.
  intros W C. wf_destruct W. unfold in_contract, inr in C. split; [|exact W].
  assert (Hb : byte (at_ (m_music s) (id * 4 + ch))) by (apply at_byte; [assumption | lia]).
  destruct (nib_spec _ Hb) as (_ & _ & _ & _ & N & _).
  unfold step_model, spec_step. cbv beta iota zeta. unfold music_get_channel.
  rewrite assert_true by (unfold mus_gc_assert_id; lia). cbn [bind].
  rewrite assert_true by (unfold mus_gc_assert_ch; lia). cbn [bind].
  rewrite py_get_at by lia. cbn [bind]. unfold mus_gc_pattern, mus_gc_silent, chan_get.
  rewrite arr_at by lia. rewrite N. rewrite Z.gtb_ltb. reflexivity.
Qed.

Lemma chanset_ok s id ch pat : wf_mem s -> in_contract (ChanSet id ch pat) = true -> op_ok s (ChanSet id ch pat).
Proof.
  intros W C. wf_destruct W. unfold in_contract in C.
  repeat (apply andb_true_iff in C; destruct C as [C ?]). unfold inr in C.
  match goal with H : inr 0 ch 3 = true |- _ => unfold inr in H end.
  assert (Hb : byte (at_ (m_music s) (id * 4 + ch))) by (apply at_byte; [assumption | lia]).
  set (p := odef pat (65 + ch)).
  assert (Hp : 0 <= p < 128) by (subst p; destruct pat; cbn [odef oinr] in *; unfold inr in *; lia).
  destruct (chan_spec _ p Hb Hp) as (F1 & F2).
  split.
  - unfold step_model, spec_step. cbv beta iota zeta. unfold music_set_channel.
    rewrite assert_true by (unfold mus_sc_assert_id; lia). cbn [bind].
    rewrite assert_true by (unfold mus_sc_assert_ch; lia). cbn [bind].
    rewrite assert_true by (unfold mus_sc_assert_pat; destruct pat; cbn [oinr] in *; unfold inr in *; lia). cbn [bind].
    unfold mus_sc_idx, mus_sc_val, mus_sc_silent.
    rewrite py_get_at by lia. cbn [bind]. rewrite arr_at by lia.
    replace (match pat with Some p0 => p0 | None => 64 + ch + 1 end) with p
      by (subst p; destruct pat; cbn [odef]; lia).
    rewrite F1. rewrite py_set_byte_put by (assumption || lia). reflexivity.
  - unfold spec_step. cbn [fst]. unfold chan_set. fold p.
    apply wf_mem_mk; try assumption; [rewrite zlen_put; assumption | apply Forall_put; assumption].
Qed.

Lemma muspropget_ok s id : wf_mem s -> in_contract (MusPropGet id) = true -> op_ok s (MusPropGet id).
Proof.
  intros W C. wf_destruct W. unfold in_contract, inr in C. split; [|exact W].
  assert (H0 : byte (at_ (m_music s) (id * 4))) by (apply at_byte; [assumption | lia]).
  assert (H1 : byte (at_ (m_music s) (id * 4 + 1))) by (apply at_byte; [assumption | lia]).
  assert (H2 : byte (at_ (m_music s) (id * 4 + 2))) by (apply at_byte; [assumption | lia]).
  destruct (nib_spec _ H0) as (_ & _ & _ & _ & _ & _ & N0).
  destruct (nib_spec _ H1) as (_ & _ & _ & _ & _ & _ & N1).
  destruct (nib_spec _ H2) as (_ & _ & _ & _ & _ & _ & N2).
  unfold step_model, spec_step. cbv beta iota zeta. unfold music_get_properties.
  rewrite assert_true by (unfold mus_gp_assert; lia). cbn [bind].
  rewrite !py_get_at by lia. cbn [bind]. unfold mus_gp_begin, mus_gp_end, mus_gp_stop, flag7.
  rewrite !arr_at by lia. rewrite N0, N1, N2. reflexivity.
Qed.

Lemma set_flag_ok d i o (f : (Z -> Z) -> Z -> bool -> Z) id :
  0 <= i < zlen d -> Forall byte d ->
  (forall x, f (arr d) id x = Z.lor (Z.land (at_ d i) 127) (if x then 128 else 0)) ->
  set_flag d i o f id = Ok (set7 d i o) /\ zlen (set7 d i o) = zlen d /\ Forall byte (set7 d i o).
Proof.
  intros Hi B Hf. destruct o as [x|]; cbn [set_flag set7]; [|auto].
  assert (Hb : byte (at_ d i)) by (apply at_byte; assumption).
  destruct (mflag_spec _ x Hb) as (F1 & F2).
  rewrite py_get_at by lia. cbn [bind]. rewrite Hf, F1.
  rewrite py_set_byte_put by assumption. split; [reflexivity|]. split; [apply zlen_put | apply Forall_put; assumption].
Qed.

Lemma muspropset_ok s id b e st : wf_mem s -> in_contract (MusPropSet id b e st) = true -> op_ok s (MusPropSet id b e st).
Proof.
  intros W C. wf_destruct W. unfold in_contract, inr in C.
  destruct (set_flag_ok (m_music s) (id * 4) b mus_sp_val_0 id) as (E1 & L1 & B1); try assumption; try lia.
  { intros x. unfold mus_sp_val_0. rewrite arr_at by lia. reflexivity. }
  destruct (set_flag_ok (set7 (m_music s) (id * 4) b) (id * 4 + 1) e mus_sp_val_1 id) as (E2 & L2 & B2);
    try assumption; try lia.
  { intros x. unfold mus_sp_val_1. rewrite arr_at by lia. reflexivity. }
  destruct (set_flag_ok (set7 (set7 (m_music s) (id * 4) b) (id * 4 + 1) e) (id * 4 + 2) st mus_sp_val_2 id)
    as (E3 & L3 & B3); try assumption; try lia.
  { intros x. unfold mus_sp_val_2. rewrite arr_at by lia. reflexivity. }
  split.
  - unfold step_model, spec_step. cbv beta iota zeta. unfold music_set_properties.
    unfold mus_sp_idx_0, mus_sp_idx_1, mus_sp_idx_2.
    rewrite E1. cbn [bind]. rewrite E2. cbn [bind]. rewrite E3. reflexivity.
  - unfold spec_step. cbn [fst]. apply wf_mem_mk; try assumption. lia.
Qed.

(* ================= single map cells (rows 32-63 live in gfx bytes 4096..8191) ================= *)
(* hg: whether the Map has its Gfx attached; without it only rows 0-31 are accessible *)
Lemma map_get_cell_gen m g hg x y : zlen m = 4096 -> zlen g = 8192 -> 0 <= x <= 127 -> 0 <= y <= 63 ->
  hg = true \/ y <= 31 ->
  map_get_cell m g hg x y = Ok (get_cell m g x y).
Proof.
  intros Lm Lg Hx Hy Hg. unfold map_get_cell, get_cell.
  rewrite assert_true by (unfold map_get_assert_x; lia). cbn [bind].
  rewrite assert_true by (unfold map_get_assert_y; destruct Hg as [-> | Hg]; [cbn [negb]|destruct hg; cbn [negb]]; lia).
  cbn [bind]. unfold map_get_upper, map_get_idx_map, map_get_idx_gfx.
  destruct (y <=? 31) eqn:E1; destruct (y <? 32) eqn:E2; try lia; rewrite py_get_at by lia; reflexivity.
Qed.

Lemma map_get_cell_ok m g x y : zlen m = 4096 -> zlen g = 8192 -> 0 <= x <= 127 -> 0 <= y <= 63 ->
  map_get_cell m g true x y = Ok (get_cell m g x y).
Proof. intros. apply map_get_cell_gen; auto. Qed.

Lemma map_get_cell_nogfx m g x y : 32 <= y -> map_get_cell m g false x y = Err AssertionError.
Proof.
  intros Hy. unfold map_get_cell. destruct (map_get_assert_x x); [|reflexivity]. cbn [assert_ bind].
  assert (map_get_assert_y y (negb false) = false) as -> by (unfold map_get_assert_y; cbn [negb]; lia). reflexivity.
Qed.

Lemma map_set_cell_gen m g hg x y v : zlen m = 4096 -> zlen g = 8192 -> Forall byte m -> Forall byte g ->
  0 <= x <= 127 -> 0 <= y <= 63 -> 0 <= v <= 255 -> hg = true \/ y <= 31 ->
  map_set_cell m g hg x y v = Ok (set_cell (m, g) x y v) /\
  zlen (fst (set_cell (m, g) x y v)) = 4096 /\ zlen (snd (set_cell (m, g) x y v)) = 8192 /\
  Forall byte (fst (set_cell (m, g) x y v)) /\ Forall byte (snd (set_cell (m, g) x y v)).
Proof.
  intros Lm Lg Bm Bg Hx Hy Hv Hg. assert (Bv : byte v) by (unfold byte; lia). unfold map_set_cell, set_cell.
  rewrite assert_true by (unfold map_set_assert_x; lia). cbn [bind].
  rewrite assert_true by (unfold map_set_assert_y; destruct Hg as [-> | Hg]; [cbn [negb]|destruct hg; cbn [negb]]; lia).
  cbn [bind].
  rewrite assert_true by (unfold map_set_assert_v; lia). cbn [bind].
  unfold map_set_upper, map_set_idx_map, map_set_idx_gfx.
  destruct (y <=? 31) eqn:E1; destruct (y <? 32) eqn:E2; try lia;
    rewrite py_set_byte_put by (assumption || lia); cbn [bind fst snd]; rewrite ?zlen_put;
    repeat split; try assumption; apply Forall_put; assumption.
Qed.

Lemma map_set_cell_ok m g x y v : zlen m = 4096 -> zlen g = 8192 -> Forall byte m -> Forall byte g ->
  0 <= x <= 127 -> 0 <= y <= 63 -> 0 <= v <= 255 ->
  map_set_cell m g true x y v = Ok (set_cell (m, g) x y v) /\
  zlen (fst (set_cell (m, g) x y v)) = 4096 /\ zlen (snd (set_cell (m, g) x y v)) = 8192 /\
  Forall byte (fst (set_cell (m, g) x y v)) /\ Forall byte (snd (set_cell (m, g) x y v)).
Proof. intros. apply map_set_cell_gen; auto. Qed.

Lemma map_set_cell_nogfx m g x y v : 32 <= y -> map_set_cell m g false x y v = Err AssertionError.
Proof.
  intros Hy. unfold map_set_cell. destruct (map_set_assert_x x); [|reflexivity]. cbn [assert_ bind].
  assert (map_set_assert_y y (negb false) = false) as -> by (unfold map_set_assert_y; cbn [negb]; lia). reflexivity.
Qed.

Lemma mapget_ok s x y : wf_mem s -> in_contract (MapGet x y) = true -> op_ok s (MapGet x y).
Proof.
  intros W C. wf_destruct W. unfold in_contract, inr in C. split; [|exact W].
  unfold step_model, spec_step. cbv beta iota zeta.
  rewrite map_get_cell_ok by (assumption || lia). reflexivity.
Qed.

Lemma mapset_ok s x y v : wf_mem s -> in_contract (MapSet x y v) = true -> op_ok s (MapSet x y v).
Proof.
  intros W C. wf_destruct W. unfold in_contract, inr in C.
  destruct (map_set_cell_ok (m_map s) (m_gfx s) x y v) as (E & L1 & L2 & B1 & B2); try assumption; try lia.
  unfold op_ok, step_model, spec_step. cbv beta iota zeta. rewrite E.
  destruct (set_cell (m_map s, m_gfx s) x y v) as [m' g']. cbn [bind fst snd] in *.
  split; [reflexivity|]. apply wf_mem_mk; assumption.
Qed.
