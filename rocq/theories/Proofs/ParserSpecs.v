(* Part 2 of the parser proofs: one specification lemma per parse function of Model/Parser.v,
   then induction over the fuel levels.  Every specification says, for a run from cursor p:
     - the run does not end in OutOfFuel (given enough levels for the remaining input);
     - the fence is restored, the cursor does not move backwards and stays within the limit;
     - the leaves of the result are exactly the significant token indices of [p, final cursor);
     - the result is well-formed (positions nested, short-ifs fenced). *)
From PV Require Import Base.Prelude Spec.LuaTokens Spec.LuaGrammar Model.Tokens Model.Parser Proofs.ParserProofs.
From Coq Require Import ZifyBool.
Ltac Zify.zify_post_hook ::= Z.to_euclidean_division_equations.

Section S.
Variable ts : list token.
Variables binops unops : list pat.
Hypothesis Hbin : forallb pat_nontrivia binops = true.
Hypothesis Hun : forallb pat_nontrivia unops = true.

Local Notation sig := (sig ts).
Local Notation wf := (wf ts).
Local Notation wfl := (wfl ts).
Local Notation lim := (lim ts).
Local Notation tok_at := (tok_at ts).
Local Notation len := (zlen ts).

Lemma hid_leaves a : flat_map leaves (hid_list a) = leaves a.
Proof. destruct a; cbn [hid_list flat_map leaves]; rewrite ?app_nil_r; reflexivity. Qed.

Lemma hid_wfl hi a : wf hi a -> wfl hi (hid_list a).
Proof. intros H. destruct a; cbn [hid_list ParserProofs.wfl]; first [exact I | split; [exact H | exact I]]. Qed.

Lemma is_none_end_ok a q : is_none a = true -> end_ok a q.
Proof.
  unfold is_none, end_ok, end_of. destruct (strip_paren a); intros H0 ee H; first [discriminate H0 | discriminate H].
Qed.

Lemma is_var_not_none a : is_var a = true -> is_none a = false.
Proof. unfold is_var, tag_of, is_none. destruct (strip_paren a); try reflexivity. discriminate. Qed.

Lemma is_call_not_none a : is_call a = true -> is_none a = false.
Proof. unfold is_call, tag_of, is_none. destruct (strip_paren a); try reflexivity. discriminate. Qed.

Definition fence_wf (mx : option Z) : Prop :=
  match mx with Some f => f <= len /\ nl_or_end ts f | None => True end.

Definition pre (p : Z) (mx : option Z) : Prop := 0 <= p /\ p <= len /\ p <= lim mx /\ fence_wf mx.

(* common part of every postcondition *)
Definition frame (p : Z) (mx : option Z) (p1 : Z) (mx1 : option Z) : Prop :=
  mx1 = mx /\ p <= p1 /\ p1 <= len /\ p1 <= lim mx.

Definition postT (p : Z) (mx : option Z) : post tree := fun t p1 mx1 =>
  frame p mx p1 mx1 /\ leaves t = sig p p1 /\ wf p1 t.
(* with progress: a result that is not None consumed at least one token *)
Definition postP (p : Z) (mx : option Z) : post tree := fun t p1 mx1 =>
  frame p mx p1 mx1 /\ leaves t = sig p p1 /\ wf p1 t /\ (is_none t = false -> p < p1).
Definition postE (p : Z) (mx : option Z) : post tree := fun t p1 mx1 =>
  frame p mx p1 mx1 /\ leaves t = sig p p1 /\ wf p1 t /\ end_ok t p1 /\ (is_none t = false -> p < p1).
Definition postL (p : Z) (mx : option Z) : post (list tree) := fun l p1 mx1 =>
  frame p mx p1 mx1 /\ flat_map leaves l = sig p p1 /\ wfl p1 l.
Definition postF (first : tree) (p : Z) (mx : option Z) : post tree := fun t p1 mx1 =>
  frame p mx p1 mx1 /\ leaves t = leaves first ++ sig p p1 /\ wf p1 t.
Definition postFE (first : tree) (p : Z) (mx : option Z) : post tree := fun t p1 mx1 =>
  frame p mx p1 mx1 /\ leaves t = leaves first ++ sig p p1 /\ wf p1 t /\ end_ok t p1.
(* functions whose "None" is literally None, returned with the cursor where it was *)
Definition postN (p : Z) (mx : option Z) : post tree := fun t p1 mx1 =>
  frame p mx p1 mx1 /\ leaves t = sig p p1 /\ wf p1 t /\ (is_none t = true -> t = PNone /\ p1 = p) /\
  (is_none t = false -> p < p1).
(* _var / _varlist: None is returned without resetting the cursor (the caller resets it) *)
Definition postV (p : Z) (mx : option Z) : post tree := fun t p1 mx1 =>
  frame p mx p1 mx1 /\ wf p1 t /\ (is_none t = false -> leaves t = sig p p1 /\ p < p1) /\ (is_none t = true -> t = PNone).
Section Step.
Variable R : funs.
Variable k : Z.
(* G p: the functions one level down may be called at cursor p *)
Definition G (p : Z) : Prop := len - p < k.
Hypothesis H_exp : forall p mx, G p -> pre p mx -> wpx (r_exp R) (postE p mx) p mx.
Hypothesis H_chunk : forall p mx, G p -> pre p mx -> wpx (r_chunk R) (postT p mx) p mx.
Hypothesis H_semis : forall p mx, G p -> pre p mx -> wpx (r_semis R) (postL p mx) p mx.
Hypothesis H_stats_loop : forall p mx, G p -> pre p mx -> wpx (r_stats_loop R) (postL p mx) p mx.
Hypothesis H_namelist_loop : forall p mx, G p -> pre p mx -> wpx (r_namelist_loop R) (postL p mx) p mx.
Hypothesis H_funcname_loop : forall p mx, G p -> pre p mx -> wpx (r_funcname_loop R) (postL p mx) p mx.
Hypothesis H_explist_loop : forall p mx, G p -> pre p mx -> wpx (r_explist_loop R) (postL p mx) p mx.
Hypothesis H_varlist_loop : forall p mx, G p -> pre p mx -> wpx (r_varlist_loop R) (postL p mx) p mx.
Hypothesis H_fields_loop : forall p mx, G p -> pre p mx -> wpx (r_fields_loop R) (postL p mx) p mx.
Hypothesis H_elseif_loop : forall p mx, G p -> pre p mx -> wpx (r_elseif_loop R) (postL p mx) p mx.
Hypothesis H_precur : forall first p mx, G p -> pre p mx -> wf p first ->
  wpx (r_precur R first) (postF first p mx) p mx.
Hypothesis H_binop : forall first p mx, G p -> pre p mx -> wf p first -> end_ok first p ->
  wpx (r_binop R first) (postFE first p mx) p mx.

(* G' p: a function of this level may be entered at cursor p *)
Definition G' (p : Z) : Prop := len - p <= k.

(* ---------------------------------------------------------------- tactics *)
Ltac fence_trivial := let H := fresh in intros _ H; discriminate H.

Ltac wf_tac :=
  lazymatch goal with
  | |- wf _ (Node _ _ _ false _) => apply wf_node; [lia | lia | wfl_tac | fence_trivial]
  | |- wf _ (Lst _) => apply wf_lst; wfl_tac
  | |- wf _ (Paren _ _ _) => cbn [ParserProofs.wf]; wf_tac
  | |- wf _ (Hid _) => cbn [ParserProofs.wf]; wf_tac
  | |- wf _ (Tok _ _) => exact I
  | |- wf _ (Kw _) => exact I
  | |- wf _ PNone => exact I
  | |- wf _ (PBool _) => exact I
  | |- wf _ (PBytes _) => exact I
  | |- wf _ (opt_tok ?n) => destruct n as [[? ?]|]; exact I
  | |- wf _ (if ?b then _ else _) => destruct b; wf_tac
  | |- wf _ _ => first [eassumption | eapply wf_mono; [eassumption | lia]]
  end
with wfl_tac :=
  lazymatch goal with
  | |- wfl _ [] => exact I
  | |- wfl _ (_ :: _) => apply wfl_cons; [wf_tac | wfl_tac]
  | |- wfl _ (_ ++ _) => apply wfl_app; [wfl_tac | wfl_tac]
  | |- wfl _ (hid_list _) => apply hid_wfl; wf_tac
  | |- wfl _ (if ?b then _ else _) => destruct b; wfl_tac
  | |- wfl _ _ => first [eassumption | eapply wfl_mono; [eassumption | lia]]
  end.

Ltac end_tac :=
  let ee := fresh in let H := fresh in
  first [ assumption
        | apply is_none_end_ok; first [ assumption | apply negb_false_iff; assumption ]
        | intros ee H; first [ cbn [end_of strip_paren] in H; injection H as <-; reflexivity | discriminate H ] ].

(* turn "not None -> progress" facts into plain inequalities where the result is known not to be None *)
Ltac prog_facts :=
  repeat match goal with
         | H : true = false -> _ |- _ => clear H
         | H : false = true -> _ |- _ => clear H
         | H : false = false -> _ |- _ => specialize (H eq_refl)
         | E : is_none ?a = false, Hn : is_none ?a = false -> _ |- _ => specialize (Hn E)
         | E : negb (is_none ?a) = true, Hn : is_none ?a = false -> _ |- _ =>
             let E' := fresh in pose proof (proj1 (negb_true_iff _) E) as E'; specialize (Hn E')
         | H : _ = _ /\ _ < _ |- _ => destruct H
         end.

Ltac side :=
  prog_facts;
  lazymatch goal with
  | |- G _ => unfold G, G' in *; lia
  | |- G' _ => unfold G, G' in *; lia
  | |- pre _ _ => unfold pre; repeat split; first [lia | assumption]
  | |- wf _ _ => wf_tac
  | |- end_ok _ _ => first [assumption | end_tac]
  | |- _ => first [lia | assumption]
  end.

Ltac open_post H :=
  unfold postT, postP, postE, postL, postF, postFE, postN, postV, frame in H;
  let Hm := fresh "Hm" in destruct H as ((Hm & ? & ? & ?) & H); subst;
  repeat match type of H with _ /\ _ => let H1 := fresh "Hp" in destruct H as [H1 H] end.

(* use a specification lemma for the computation at the head *)
Ltac call L :=
  eapply wpx_conseq; [ eapply L; side | cbv beta; let H := fresh "Hpost" in intros ? ? ? H; open_post H ].

Ltac call_known := fail "no specification for this call".

(* a dropped None result is literally None and left the cursor alone *)
Ltac none_facts :=
  repeat match goal with
         | H : true = false -> _ |- _ => clear H
         | H : false = true -> _ |- _ => clear H
         | H : ?x = ?x -> ?a = PNone /\ ?q = _ |- _ => is_var a; is_var q; destruct (H eq_refl) as [-> ->]; clear H
         | H : ?x = ?x -> ?a = PNone |- _ => is_var a; rewrite (H eq_refl) in *; clear H
         | E : negb (is_none ?a) = false, Hn : is_none ?a = true -> _ /\ _ |- _ =>
             let E' := fresh in pose proof (proj1 (negb_false_iff _) E) as E'; destruct (Hn E') as [-> ->]; clear Hn
         | E : is_none ?a = true, Hn : is_none ?a = true -> _ /\ _ |- _ =>
             destruct (Hn E) as [-> ->]; clear Hn
         | E : negb (is_none ?a) = false, Hn : is_none ?a = true -> ?a = PNone |- _ =>
             let E' := fresh in pose proof (proj1 (negb_false_iff _) E) as E'; rewrite (Hn E') in *; clear Hn
         | E : is_none ?a = true, Hn : is_none ?a = true -> ?a = PNone |- _ =>
             rewrite (Hn E) in *; clear Hn
         end.

Ltac wprim :=
  lazymatch goal with
  | |- wpx (bindM _ _) _ _ _ => apply wpx_bind
  | |- wpx (ret _) _ _ _ => apply wpx_ret
  | |- wpx (raise _) _ _ _ => apply wpx_raise; discriminate
  | |- wpx get_pos _ _ _ => apply wpx_get_pos
  | |- wpx (set_pos _) _ _ _ => apply wpx_set_pos
  | |- wpx get_max _ _ _ => apply wpx_get_max
  | |- wpx (set_max _) _ _ _ => apply wpx_set_max
  | |- wpx (mk _ _ _) _ _ _ => apply wpx_mk
  | |- wpx (assert_node _) _ _ _ => apply wpx_assert; intros ?; prog_facts
  | |- wpx (accept _ _) _ _ _ => apply (wpx_accept ts); [reflexivity | lia | | intros ? ? ? ? ? ? ? ?]
  | |- wpx (expect _ _) _ _ _ => apply (wpx_expect ts); [reflexivity | lia | intros ? ? ? ? ? ? ? ?]
  | |- wpx (accept_first _ _) _ _ _ =>
      apply (wpx_accept_first ts); [first [exact Hbin | exact Hun | reflexivity] | lia | | intros ? ? ? ? ? ? ?]
  | |- wpx (r_exp R) _ _ _ => call H_exp
  | |- wpx (r_chunk R) _ _ _ => call H_chunk
  | |- wpx (r_semis R) _ _ _ => call H_semis
  | |- wpx (r_stats_loop R) _ _ _ => call H_stats_loop
  | |- wpx (r_namelist_loop R) _ _ _ => call H_namelist_loop
  | |- wpx (r_funcname_loop R) _ _ _ => call H_funcname_loop
  | |- wpx (r_explist_loop R) _ _ _ => call H_explist_loop
  | |- wpx (r_varlist_loop R) _ _ _ => call H_varlist_loop
  | |- wpx (r_fields_loop R) _ _ _ => call H_fields_loop
  | |- wpx (r_elseif_loop R) _ _ _ => call H_elseif_loop
  | |- wpx (r_precur R _) _ _ _ => call H_precur
  | |- wpx (r_binop R _) _ _ _ => call H_binop
  | |- wpx (if ?b then _ else _) _ _ _ => let E := fresh "E" in destruct b eqn:E; none_facts; prog_facts
  | |- wpx (match ?x with _ => _ end) _ _ _ => destruct x
  | |- wpx _ _ _ _ => call_known
  end; cbv beta match zeta.

(* leaves goals:  leaves (...) = [prefix ++] sig p pN *)
Ltac leaves_tac :=
  repeat match goal with
         | |- context [if ?b then _ else _] =>
             lazymatch b with true => fail | false => fail | _ => destruct b end
         end;
  repeat match goal with |- context [opt_tok ?n] => is_var n; destruct n as [[? ?]|] end;
  cbn [leaves flat_map opt_tok];
  repeat rewrite flat_map_app; repeat rewrite hid_leaves; cbn [leaves flat_map];
  repeat (match goal with
          | H : leaves _ = _ |- _ => rewrite H; clear H
          | H : flat_map leaves _ = _ |- _ => rewrite H; clear H
          | H : [_] = sig _ _ |- _ => rewrite H; clear H
          end; cbn [leaves flat_map]; repeat rewrite flat_map_app; repeat rewrite hid_leaves);
  repeat rewrite <- app_assoc; repeat rewrite app_nil_r; cbn [app];
  repeat first [ rewrite sig_app_r by lia | rewrite sig_app by lia ];
  first [ reflexivity | rewrite sig_nil by lia; rewrite ?app_nil_r; reflexivity | symmetry; apply sig_nil; lia ].

Ltac none_goal :=
  let H := fresh in
  intros H;
  first [ discriminate H
        | congruence
        | cbn in H; discriminate H
        | split; [reflexivity | lia]
        | reflexivity
        | match goal with E : negb (is_none ?a) = true |- _ => rewrite H in E; discriminate E end
        | match goal with E : negb (is_none ?a) = false |- _ => rewrite H in E; discriminate E end
        | match goal with E : is_var ?a = true |- _ => rewrite (is_var_not_none _ E) in H; discriminate H end
        | match goal with E : is_call ?a = true |- _ => rewrite (is_call_not_none _ E) in H; discriminate H end
        | match goal with E : is_none ?a = false |- _ => rewrite H in E; discriminate E end
        | match goal with Hn : is_none ?a = true -> _ |- _ => destruct (Hn H); split; [assumption | lia] end
        | match goal with |- context [opt_tok ?n] => destruct n as [[? ?]|]; [discriminate H | split; [reflexivity | lia]] end ].

(* the final goal of a branch: a postcondition *)
Ltac done_tac :=
  unfold postT, postP, postE, postL, postF, postFE, postN, postV, frame;
  repeat match goal with
         | |- _ /\ _ => split
         | |- ?x = ?x => reflexivity
         | |- _ <= _ => lia
         | |- _ < _ => lia
         | |- leaves _ = _ => leaves_tac
         | |- flat_map leaves _ = _ => leaves_tac
         | |- wf _ _ => wf_tac
         | |- wfl _ _ => wfl_tac
         | |- end_ok _ _ => end_tac
         | |- is_none _ = true -> _ => none_goal
         | |- is_none _ = false -> _ < _ => first [ let H := fresh in intros H; prog_facts; lia | none_goal ]
         | |- is_none _ = false -> _ /\ _ =>
             first [ let H := fresh in intros H; prog_facts; split; [leaves_tac | lia] | none_goal ]
         end.

Ltac wp := repeat wprim; try done_tac.

(* ---------------------------------------------------------------- specifications *)
Ltac start := let HG := fresh "HG" in intros HG (Hp0 & Hp1 & Hp2 & Hfw).

Lemma semis_spec p mx : G' p -> pre p mx -> wpx (semis_def ts R) (postL p mx) p mx.
Proof. start. unfold semis_def. wp. Qed.
Ltac ck1 := call semis_spec.
Ltac call_known ::= ck1.

Lemma namelist_loop_spec p mx : G' p -> pre p mx -> wpx (namelist_loop_def ts R) (postL p mx) p mx.
Proof. start. unfold namelist_loop_def. wp. Qed.
Ltac ck2 := first [ck1 | call namelist_loop_spec].
Ltac call_known ::= ck2.

Lemma namelist_spec p mx : G' p -> pre p mx -> wpx (namelist_def ts R) (postN p mx) p mx.
Proof. start. unfold namelist_def. wp. Qed.
Ltac ck3 := first [ck2 | call namelist_spec].
Ltac call_known ::= ck3.

Lemma funcname_loop_spec p mx : G' p -> pre p mx -> wpx (funcname_loop_def ts R) (postL p mx) p mx.
Proof. start. unfold funcname_loop_def. wp. Qed.
Ltac ck4 := first [ck3 | call funcname_loop_spec].
Ltac call_known ::= ck4.

Lemma funcname_spec p mx : G' p -> pre p mx -> wpx (funcname_def ts R) (postN p mx) p mx.
Proof. start. unfold funcname_def. wp. Qed.
Ltac ck5 := first [ck4 | call funcname_spec].
Ltac call_known ::= ck5.

Lemma explist_loop_spec p mx : G' p -> pre p mx -> wpx (explist_loop_def ts R) (postL p mx) p mx.
Proof. start. unfold explist_loop_def. wp. Qed.
Ltac ck6 := first [ck5 | call explist_loop_spec].
Ltac call_known ::= ck6.

(* calls r_exp at its own entry position: needs the strict guard *)
Lemma explist_spec p mx : G p -> pre p mx -> wpx (explist_def ts R) (postN p mx) p mx.
Proof. start. unfold explist_def. wp. Qed.
Ltac ck7 := first [ck6 | call explist_spec].
Ltac call_known ::= ck7.

Lemma field_spec p mx : G p -> pre p mx -> wpx (field_def ts R) (postP p mx) p mx.
Proof. start. unfold field_def. wp. Qed.
Ltac ck8 := first [ck7 | call field_spec].
Ltac call_known ::= ck8.

Lemma fields_loop_spec p mx : G' p -> pre p mx -> wpx (fields_loop_def ts R) (postL p mx) p mx.
Proof. start. unfold fields_loop_def. wp. Qed.
Ltac ck9 := first [ck8 | call fields_loop_spec].
Ltac call_known ::= ck9.

Lemma tableconstructor_spec p mx : G' p -> pre p mx -> wpx (tableconstructor_def ts R) (postN p mx) p mx.
Proof. start. unfold tableconstructor_def. wp. Qed.
Ltac ck10 := first [ck9 | call tableconstructor_spec].
Ltac call_known ::= ck10.

Lemma args_spec p mx : G' p -> pre p mx -> wpx (args_def ts R) (postN p mx) p mx.
Proof. start. unfold args_def. wp. Qed.
Ltac ck11 := first [ck10 | call args_spec].
Ltac call_known ::= ck11.

Lemma funcbody_spec p mx : G' p -> pre p mx -> wpx (funcbody_def ts R) (postN p mx) p mx.
Proof. start. unfold funcbody_def. wp. Qed.
Ltac ck12 := first [ck11 | call funcbody_spec].
Ltac call_known ::= ck12.

Lemma function_spec p mx : G' p -> pre p mx -> wpx (function_def ts R) (postN p mx) p mx.
Proof. start. unfold function_def. wp. Qed.
Ltac ck13 := first [ck12 | call function_spec].
Ltac call_known ::= ck13.

Lemma precur_spec first p mx : G' p -> pre p mx -> wf p first ->
  wpx (precur_def ts R first) (postF first p mx) p mx.
Proof. start. intros Hwf. unfold precur_def. wp. Qed.
Ltac ck14 := first [ck13 | call precur_spec].
Ltac call_known ::= ck14.

Lemma prefixexp_spec p mx : G' p -> pre p mx -> wpx (prefixexp_def ts R) (postP p mx) p mx.
Proof. start. unfold prefixexp_def. wp. Qed.
Ltac ck15 := first [ck14 | call prefixexp_spec].
Ltac call_known ::= ck15.

Lemma exp_term_spec p mx : G' p -> pre p mx -> wpx (exp_term_def ts unops R) (postE p mx) p mx.
Proof. start. unfold exp_term_def. wp. Qed.
Ltac ck16 := first [ck15 | call exp_term_spec].
Ltac call_known ::= ck16.

Lemma binop_spec first p mx : G' p -> pre p mx -> wf p first -> end_ok first p ->
  wpx (binop_def ts binops unops R first) (postFE first p mx) p mx.
Proof. start. intros Hwf Hend. unfold binop_def. wp. Qed.
Ltac ck17 := first [ck16 | call binop_spec].
Ltac call_known ::= ck17.

Lemma exp_spec p mx : G' p -> pre p mx -> wpx (exp_def ts binops unops R) (postE p mx) p mx.
Proof. start. unfold exp_def. wp. Qed.
Ltac ck18 := first [ck17 | call exp_spec].
Ltac call_known ::= ck18.

Lemma var_spec p mx : G' p -> pre p mx -> wpx (var_def ts R) (postV p mx) p mx.
Proof. start. unfold var_def. wp. Qed.
Ltac ck19 := first [ck18 | call var_spec].
Ltac call_known ::= ck19.

Lemma varlist_loop_spec p mx : G' p -> pre p mx -> wpx (varlist_loop_def ts R) (postL p mx) p mx.
Proof. start. unfold varlist_loop_def. wp. Qed.
Ltac ck20 := first [ck19 | call varlist_loop_spec].
Ltac call_known ::= ck20.

Lemma varlist_spec p mx : G' p -> pre p mx -> wpx (varlist_def ts R) (postV p mx) p mx.
Proof. start. unfold varlist_def. wp. Qed.
Ltac ck21 := first [ck20 | call varlist_spec].
Ltac call_known ::= ck21.

Lemma functioncall_spec p mx : G' p -> pre p mx -> wpx (functioncall_def ts R) (postN p mx) p mx.
Proof. start. unfold functioncall_def. wp. Qed.
Ltac ck22 := first [ck21 | call functioncall_spec].
Ltac call_known ::= ck22.

End Step.
End S.
