(* Part 2 of the parser proofs: one specification lemma per parse function of Model/Parser.v,
   then induction over the fuel levels.  Every specification says, for a run from cursor p:
     - the run does not end in OutOfFuel (given enough levels for the remaining input);
     - the fence is restored, the cursor does not move backwards and stays within the limit;
     - the leaves of the result are exactly the significant token indices of [p, final cursor);
     - the result is well-formed (positions nested, short-ifs fenced). *)
From PV Require Import Base.Prelude Spec.LuaTokens Spec.LuaGrammar Model.Tokens Model.Parser Proofs.ParserProofs.
From Coq Require Import ZifyBool.
Ltac Zify.zify_post_hook ::= Z.to_euclidean_division_equations.

Section S.
Variable ts : list token.
Variables binops unops : list pat.
Hypothesis Hbin : forallb pat_nontrivia binops = true.
Hypothesis Hun : forallb pat_nontrivia unops = true.

Local Notation sig := (sig ts).
Local Notation wf := (wf ts).
Local Notation wfl := (wfl ts).
Local Notation lim := (lim ts).
Local Notation tok_at := (tok_at ts).
Local Notation len := (zlen ts).

Lemma hid_leaves a : flat_map leaves (hid_list a) = leaves a.
Proof. destruct a; cbn [hid_list flat_map leaves]; rewrite ?app_nil_r; reflexivity. Qed.

Lemma hid_wfl hi a : wf hi a -> wfl hi (hid_list a).
Proof. intros H. destruct a; cbn [hid_list ParserProofs.wfl]; first [exact I | split; [exact H | exact I]]. Qed.

Lemma is_none_end_ok a q : is_none a = true -> end_ok a q.
Proof.
  unfold is_none, end_ok, end_of. destruct (strip_paren a); intros H0 ee H; first [discriminate H0 | discriminate H].
Qed.

Lemma is_var_not_none a : is_var a = true -> is_none a = false.
Proof. unfold is_var, tag_of, is_none. destruct (strip_paren a); try reflexivity. discriminate. Qed.

Lemma is_call_not_none a : is_call a = true -> is_none a = false.
Proof. unfold is_call, tag_of, is_none. destruct (strip_paren a); try reflexivity. discriminate. Qed.

(* top-level shape of an expression result: a node or None; an ExpValue has exactly one Python field,
   which comes last *)
Definition exp_shape (t : tree) : Prop :=
  match t with
  | Node tag _ _ _ fs =>
      tag = tExpValue -> exists hs v, fs = hs ++ [v] /\ forallb is_hidden hs = true /\ is_hidden v = false
  | _ => is_none t = true
  end.

Lemma is_none_exp_shape a : is_none a = true -> exp_shape a.
Proof. destruct a; cbn [exp_shape]; intros H; try exact H. discriminate H. Qed.

Lemma exp_shape_not_hidden a : exp_shape a -> is_hidden a = false.
Proof. destruct a; cbn [exp_shape is_hidden]; intros H; try reflexivity; discriminate H. Qed.

Lemma hid_list_hidden a : forallb is_hidden (hid_list a) = true.
Proof. destruct a; reflexivity. Qed.

Lemma filter_hidden_all hs : forallb is_hidden hs = true -> filter is_hidden hs = hs.
Proof.
  induction hs as [|x r IH]; [reflexivity|]. cbn [forallb filter]. intros H.
  apply andb_true_iff in H. destruct H as [H1 H2]. rewrite H1, IH by exact H2. reflexivity.
Qed.

Lemma visible_hidden_all hs : forallb is_hidden hs = true -> visible hs = [].
Proof.
  unfold visible. induction hs as [|x r IH]; [reflexivity|]. cbn [forallb filter]. intros H.
  apply andb_true_iff in H. destruct H as [H1 H2]. rewrite H1, IH by exact H2. reflexivity.
Qed.

(* the condition of a short-if: exp.value and the hidden entries of exp, together all of exp *)
Lemma cond_parts a : exp_shape a -> (tag_of a =? tExpValue) = true ->
  exists s e sh hs v, a = Node tExpValue s e sh (hs ++ [v]) /\ hidden_of a = hs /\ first_field a = v.
Proof.
  intros Hs Ht. destruct a as [tag s e sh fs| | | | | | | |]; cbn [exp_shape] in Hs;
    try (unfold tag_of in Ht; unfold is_none in Hs; destruct (strip_paren _); discriminate).
  unfold tag_of in Ht. cbn [strip_paren] in Ht. apply Z.eqb_eq in Ht. subst tag.
  destruct (Hs eq_refl) as (hs & v & -> & Hh & Hv). exists s, e, sh, hs, v. split; [reflexivity|].
  unfold hidden_of, first_field, visible. cbn [strip_paren]. rewrite !filter_app. cbn [filter].
  rewrite Hv. cbn [negb]. rewrite filter_hidden_all by exact Hh. fold (visible hs).
  rewrite visible_hidden_all by exact Hh. rewrite app_nil_r. split; reflexivity.
Qed.

Lemma wfl_app_inv hi a b : wfl hi (a ++ b) -> wfl hi a /\ wfl hi b.
Proof.
  induction a as [|x a IH]; cbn [app ParserProofs.wfl]; [intros H; split; [exact I | exact H]|].
  intros [H1 H2]. destruct (IH H2) as [H3 H4]. repeat split; assumption.
Qed.

Lemma sig_last a b d : a < b -> sigb ts (b - 1) = true -> last (sig a b) d = b - 1.
Proof.
  intros Hab Hs. rewrite <- (sig_app ts a (b - 1) b) by lia.
  assert (E : sig (b - 1) b = [b - 1]).
  { replace b with (b - 1 + 1) at 2 by lia. apply sig_single; [lia | intros; lia | exact Hs]. }
  rewrite E. apply last_last.
Qed.

Definition fence_wf (mx : option Z) : Prop :=
  match mx with Some f => f <= len /\ nl_or_end ts f | None => True end.

Definition pre (p : Z) (mx : option Z) : Prop := 0 <= p /\ p <= len /\ p <= lim mx /\ fence_wf mx.

(* common part of every postcondition *)
Definition frame (p : Z) (mx : option Z) (p1 : Z) (mx1 : option Z) : Prop :=
  mx1 = mx /\ p <= p1 /\ p1 <= len /\ p1 <= lim mx.

(* _chunk: always a Chunk node spanning [p, final cursor) *)
Definition postT (p : Z) (mx : option Z) : post tree := fun t p1 mx1 =>
  frame p mx p1 mx1 /\ leaves t = sig p p1 /\ wf p1 t /\ (exists fs, t = Node tChunk p p1 false [Lst fs]).
(* with progress: a result that is not None consumed at least one token *)
Definition postP (p : Z) (mx : option Z) : post tree := fun t p1 mx1 =>
  frame p mx p1 mx1 /\ leaves t = sig p p1 /\ wf p1 t /\ is_hidden t = false /\ (is_none t = false -> p < p1).
Definition postE (p : Z) (mx : option Z) : post tree := fun t p1 mx1 =>
  frame p mx p1 mx1 /\ leaves t = sig p p1 /\ wf p1 t /\ end_ok t p1 /\ exp_shape t /\ (is_none t = false -> p < p1).
Definition postL (p : Z) (mx : option Z) : post (list tree) := fun l p1 mx1 =>
  frame p mx p1 mx1 /\ flat_map leaves l = sig p p1 /\ wfl p1 l.
Definition postF (first : tree) (p : Z) (mx : option Z) : post tree := fun t p1 mx1 =>
  frame p mx p1 mx1 /\ leaves t = leaves first ++ sig p p1 /\ wf p1 t /\ is_hidden t = false.
Definition postFE (first : tree) (p : Z) (mx : option Z) : post tree := fun t p1 mx1 =>
  frame p mx p1 mx1 /\ leaves t = leaves first ++ sig p p1 /\ wf p1 t /\ end_ok t p1 /\ exp_shape t.
(* functions whose "None" is literally None, returned with the cursor where it was *)
Definition postN (p : Z) (mx : option Z) : post tree := fun t p1 mx1 =>
  frame p mx p1 mx1 /\ leaves t = sig p p1 /\ wf p1 t /\ is_hidden t = false /\
  (is_none t = true -> t = PNone /\ p1 = p) /\ (is_none t = false -> p < p1).
(* _var / _varlist: None is returned without resetting the cursor (the caller resets it) *)
Definition postV (p : Z) (mx : option Z) : post tree := fun t p1 mx1 =>
  frame p mx p1 mx1 /\ wf p1 t /\ (is_none t = false -> leaves t = sig p p1 /\ p < p1) /\ (is_none t = true -> t = PNone).
(* the rest of a statement whose first keyword (token i, accepted just before p) is passed in *)
Definition postK (i : Z) (p : Z) (mx : option Z) : post tree := fun t p1 mx1 =>
  frame p mx p1 mx1 /\ leaves t = [i] ++ sig p p1 /\ wf p1 t /\ is_hidden t = false /\ is_none t = false.

Section Step.
Variable R : funs.
Variable k : Z.
(* G p: the functions one level down may be called at cursor p *)
Definition G (p : Z) : Prop := len - p < k.
Hypothesis H_exp : forall p mx, G p -> pre p mx -> wpx (r_exp R) (postE p mx) p mx.
Hypothesis H_chunk : forall p mx, G p -> pre p mx -> wpx (r_chunk R) (postT p mx) p mx.
Hypothesis H_semis : forall p mx, G p -> pre p mx -> wpx (r_semis R) (postL p mx) p mx.
Hypothesis H_stats_loop : forall p mx, G p -> pre p mx -> wpx (r_stats_loop R) (postL p mx) p mx.
Hypothesis H_namelist_loop : forall p mx, G p -> pre p mx -> wpx (r_namelist_loop R) (postL p mx) p mx.
Hypothesis H_funcname_loop : forall p mx, G p -> pre p mx -> wpx (r_funcname_loop R) (postL p mx) p mx.
Hypothesis H_explist_loop : forall p mx, G p -> pre p mx -> wpx (r_explist_loop R) (postL p mx) p mx.
Hypothesis H_varlist_loop : forall p mx, G p -> pre p mx -> wpx (r_varlist_loop R) (postL p mx) p mx.
Hypothesis H_fields_loop : forall p mx, G p -> pre p mx -> wpx (r_fields_loop R) (postL p mx) p mx.
Hypothesis H_elseif_loop : forall p mx, G p -> pre p mx -> wpx (r_elseif_loop R) (postL p mx) p mx.
Hypothesis H_precur : forall first p mx, G p -> pre p mx -> wf p first -> is_hidden first = false ->
  wpx (r_precur R first) (postF first p mx) p mx.
Hypothesis H_binop : forall first p mx, G p -> pre p mx -> wf p first -> end_ok first p -> exp_shape first ->
  wpx (r_binop R first) (postFE first p mx) p mx.

(* G' p: a function of this level may be entered at cursor p *)
Definition G' (p : Z) : Prop := len - p <= k.

(* ---------------------------------------------------------------- tactics *)
Ltac fence_trivial := let H := fresh in intros _ H; discriminate H.

Ltac wf_tac :=
  lazymatch goal with
  | |- wf _ (Node _ _ _ false _) => apply wf_node; [lia | lia | wfl_tac | fence_trivial]
  | |- wf _ (Lst _) => apply wf_lst; wfl_tac
  | |- wf _ (Paren _ _ _) => cbn [ParserProofs.wf]; wf_tac
  | |- wf _ (Hid _) => cbn [ParserProofs.wf]; wf_tac
  | |- True => exact I
  | |- wf _ (Tok _ _) => exact I
  | |- wf _ (Kw _) => exact I
  | |- wf _ PNone => exact I
  | |- wf _ (PBool _) => exact I
  | |- wf _ (PBytes _) => exact I
  | |- wf _ (opt_tok ?n) => destruct n as [[? ?]|]; exact I
  | |- wf _ (if ?b then _ else _) => destruct b; wf_tac
  | |- wf _ _ => first [eassumption | eapply wf_mono; [eassumption | lia]]
  end
with wfl_tac :=
  lazymatch goal with
  | |- wfl _ [] => exact I
  | |- wfl _ (_ :: _) => apply wfl_cons; [wf_tac | wfl_tac]
  | |- wfl _ (_ ++ _) => apply wfl_app; [wfl_tac | wfl_tac]
  | |- wfl _ (hid_list _) => apply hid_wfl; wf_tac
  | |- wfl _ (if ?b then _ else _) => destruct b; wfl_tac
  | |- wfl _ _ => first [eassumption | eapply wfl_mono; [eassumption | lia]]
  end.

Ltac end_tac :=
  let ee := fresh in let H := fresh in
  first [ assumption
        | apply is_none_end_ok; first [ assumption | apply negb_false_iff; assumption ]
        | intros ee H; first [ cbn [end_of strip_paren] in H; injection H as <-; reflexivity | discriminate H ] ].

Ltac hidden_tac :=
  first [ reflexivity | assumption | apply exp_shape_not_hidden; assumption
        | match goal with |- is_hidden (opt_tok ?n) = false => destruct n as [[? ?]|]; reflexivity end ].

Ltac shape_tac :=
  first [ assumption
        | apply is_none_exp_shape; first [ assumption | apply negb_false_iff; assumption ]
        | cbn [exp_shape]; let H := fresh in intros H;
          first [ discriminate H
                | vm_compute in H; discriminate H
                | lazymatch goal with
                  | |- exists hs v, [?a; ?b] = _ /\ _ => exists [a], b; repeat split; reflexivity
                  | |- exists hs v, [?a] = _ /\ _ => exists [], a; repeat split; hidden_tac
                  | |- exists hs v, hid_list ?p ++ [?t] = _ /\ _ =>
                      exists (hid_list p), t; split; [reflexivity | split; [apply hid_list_hidden | hidden_tac]]
                  end ] ].

(* turn "not None -> progress" facts into plain inequalities where the result is known not to be None *)
Ltac prog_facts :=
  repeat match goal with
         | H : true = false -> _ |- _ => clear H
         | H : false = true -> _ |- _ => clear H
         | H : false = false -> _ |- _ => specialize (H eq_refl)
         | E : is_none ?a = false, Hn : is_none ?a = false -> _ |- _ => specialize (Hn E)
         | E : negb (is_none ?a) = true, Hn : is_none ?a = false -> _ |- _ =>
             let E' := fresh in pose proof (proj1 (negb_true_iff _) E) as E'; specialize (Hn E')
         | H : _ = _ /\ _ < _ |- _ => destruct H
         end.

Ltac side :=
  prog_facts; cbn [ParserProofs.lim] in *;
  lazymatch goal with
  | |- G _ => unfold G, G' in *; lia
  | |- G' _ => unfold G, G' in *; lia
  | |- pre _ _ => unfold pre, fence_wf; cbn [ParserProofs.lim]; repeat split; first [lia | assumption]
  | |- wf _ _ => wf_tac
  | |- end_ok _ _ => first [assumption | end_tac]
  | |- exp_shape _ => shape_tac
  | |- is_hidden _ = false => hidden_tac
  | |- _ => first [lia | assumption]
  end.

Ltac open_post H :=
  unfold postT, postP, postE, postL, postF, postFE, postN, postV, postK, frame in H;
  cbn [ParserProofs.lim] in H;
  let Hm := fresh "Hm" in destruct H as ((Hm & ? & ? & ?) & H);
  match type of Hm with ?v = _ => subst v end;
  repeat match type of H with _ /\ _ => let H1 := fresh "Hp" in destruct H as [H1 H] end.

(* use a specification lemma for the computation at the head *)
Ltac call L :=
  eapply wpx_conseq; [ eapply L; side | cbv beta; let H := fresh "Hpost" in intros ? ? ? H; open_post H ].

(* a dropped None result is literally None and left the cursor alone *)
Ltac none_facts :=
  repeat match goal with
         | H : true = false -> _ |- _ => clear H
         | H : false = true -> _ |- _ => clear H
         | H : ?x = ?x -> ?a = PNone /\ ?q = _ |- _ => is_var a; is_var q; destruct (H eq_refl) as [-> ->]; clear H
         | H : ?x = ?x -> ?a = PNone |- _ => is_var a; rewrite (H eq_refl) in *; clear H
         | E : negb (is_none ?a) = false, Hn : is_none ?a = true -> _ /\ _ |- _ =>
             let E' := fresh in pose proof (proj1 (negb_false_iff _) E) as E'; destruct (Hn E') as [-> ->]; clear Hn
         | E : is_none ?a = true, Hn : is_none ?a = true -> _ /\ _ |- _ =>
             destruct (Hn E) as [-> ->]; clear Hn
         | E : negb (is_none ?a) = false, Hn : is_none ?a = true -> ?a = PNone |- _ =>
             let E' := fresh in pose proof (proj1 (negb_false_iff _) E) as E'; rewrite (Hn E') in *; clear Hn
         | E : is_none ?a = true, Hn : is_none ?a = true -> ?a = PNone |- _ =>
             rewrite (Hn E) in *; clear Hn
         end.

Ltac call_known := fail "no specification for this call".

Ltac wprim :=
  lazymatch goal with
  | |- wpx (bindM _ _) _ _ _ => apply wpx_bind
  | |- wpx (ret _) _ _ _ => apply wpx_ret
  | |- wpx (raise _) _ _ _ => apply wpx_raise; discriminate
  | |- wpx get_pos _ _ _ => apply wpx_get_pos
  | |- wpx (set_pos _) _ _ _ => apply wpx_set_pos
  | |- wpx get_max _ _ _ => apply wpx_get_max
  | |- wpx (set_max _) _ _ _ => apply wpx_set_max
  | |- wpx (mk _ _ _) _ _ _ => apply wpx_mk
  | |- wpx (assert_node _) _ _ _ => apply wpx_assert; intros ?; prog_facts
  | |- wpx (accept _ _) _ _ _ => apply (wpx_accept ts); [reflexivity | lia | | intros ? ? ? ? ? ? ? ?]
  | |- wpx (expect _ _) _ _ _ => apply (wpx_expect ts); [reflexivity | lia | intros ? ? ? ? ? ? ? ?]
  | |- wpx (accept_first _ _) _ _ _ =>
      apply (wpx_accept_first ts); [first [exact Hbin | exact Hun | reflexivity] | lia | | intros ? ? ? ? ? ? ?]
  | |- wpx (r_exp R) _ _ _ => call H_exp
  | |- wpx (r_chunk R) _ _ _ => call H_chunk
  | |- wpx (r_semis R) _ _ _ => call H_semis
  | |- wpx (r_stats_loop R) _ _ _ => call H_stats_loop
  | |- wpx (r_namelist_loop R) _ _ _ => call H_namelist_loop
  | |- wpx (r_funcname_loop R) _ _ _ => call H_funcname_loop
  | |- wpx (r_explist_loop R) _ _ _ => call H_explist_loop
  | |- wpx (r_varlist_loop R) _ _ _ => call H_varlist_loop
  | |- wpx (r_fields_loop R) _ _ _ => call H_fields_loop
  | |- wpx (r_elseif_loop R) _ _ _ => call H_elseif_loop
  | |- wpx (r_precur R _) _ _ _ => call H_precur
  | |- wpx (r_binop R _) _ _ _ => call H_binop
  | |- wpx (if ?b then _ else _) _ _ _ => let E := fresh "E" in destruct b eqn:E; none_facts; prog_facts
  | |- wpx (match (if ?b then _ else _) with _ => _ end) _ _ _ =>
      let E := fresh "E" in destruct b eqn:E; none_facts; prog_facts
  | |- wpx (match ?x with _ => _ end) _ _ _ =>
      first [ is_var x; destruct x | let E := fresh "E" in destruct x eqn:E ]
  | |- wpx _ _ _ _ => call_known
  end; cbv beta match zeta.

(* leaves goals:  leaves (...) = [prefix ++] sig p pN *)
Ltac leaves_tac :=
  repeat match goal with
         | |- context [if ?b then _ else _] =>
             lazymatch b with true => fail | false => fail
             | _ => let E := fresh "E" in destruct b eqn:E; none_facts end
         end;
  repeat match goal with |- context [opt_tok ?n] => is_var n; destruct n as [[? ?]|] end;
  cbn [leaves flat_map opt_tok];
  repeat rewrite flat_map_app; repeat rewrite hid_leaves; cbn [leaves flat_map];
  repeat (match goal with
          | H : leaves _ = _ |- _ => rewrite H; clear H
          | H : flat_map leaves _ = _ |- _ => rewrite H; clear H
          | H : [_] = sig _ _ |- _ => rewrite H; clear H
          end; cbn [leaves flat_map]; repeat rewrite flat_map_app; repeat rewrite hid_leaves);
  repeat rewrite <- app_assoc; repeat rewrite app_nil_r; cbn [app];
  repeat first [ rewrite sig_app_r by lia | rewrite sig_app by lia ];
  first [ reflexivity | rewrite sig_nil by lia; rewrite ?app_nil_r; reflexivity | symmetry; apply sig_nil; lia ].

Ltac none_goal :=
  let H := fresh in
  intros H;
  first [ discriminate H
        | congruence
        | cbn in H; discriminate H
        | split; [reflexivity | lia]
        | reflexivity
        | match goal with E : negb (is_none ?a) = true |- _ => rewrite H in E; discriminate E end
        | match goal with E : negb (is_none ?a) = false |- _ => rewrite H in E; discriminate E end
        | match goal with E : is_var ?a = true |- _ => rewrite (is_var_not_none _ E) in H; discriminate H end
        | match goal with E : is_call ?a = true |- _ => rewrite (is_call_not_none _ E) in H; discriminate H end
        | match goal with E : is_none ?a = false |- _ => rewrite H in E; discriminate E end
        | match goal with Hn : is_none ?a = true -> _ |- _ => destruct (Hn H); split; [assumption | lia] end
        | match goal with |- context [opt_tok ?n] => destruct n as [[? ?]|]; [discriminate H | split; [reflexivity | lia]] end ].

(* the final goal of a branch: a postcondition *)
Ltac done_tac :=
  unfold postT, postP, postE, postL, postF, postFE, postN, postV, postK, frame;
  repeat match goal with
         | |- _ /\ _ => split
         | |- ?x = ?x => reflexivity
         | |- _ <= _ => lia
         | |- _ < _ => lia
         | |- leaves _ = _ => leaves_tac
         | |- flat_map leaves _ = _ => leaves_tac
         | |- wf _ _ => wf_tac
         | |- wfl _ _ => wfl_tac
         | |- end_ok _ _ => end_tac
         | |- exists fs, Node _ _ _ _ _ = Node _ _ _ _ _ => eexists; reflexivity
         | |- exp_shape _ => shape_tac
         | |- is_none (Node _ _ _ _ _) = false => reflexivity
         | |- is_hidden _ = false => first [ reflexivity | assumption | hidden_tac ]
         | |- is_none _ = true -> _ => none_goal
         | |- is_none _ = false -> _ < _ => first [ let H := fresh in intros H; prog_facts; lia | none_goal ]
         | |- is_none _ = false -> _ /\ _ =>
             first [ let H := fresh in intros H; prog_facts; split; [leaves_tac | lia] | none_goal ]
         end.

Ltac wp := repeat wprim; try done_tac.

(* ---------------------------------------------------------------- specifications *)
Ltac start := let HG := fresh "HG" in intros HG (Hp0 & Hp1 & Hp2 & Hfw).

Lemma semis_spec p mx : G' p -> pre p mx -> wpx (semis_def ts R) (postL p mx) p mx.
Proof. start. unfold semis_def. wp. Qed.
Ltac ck1 := call semis_spec.
Ltac call_known ::= ck1.

Lemma namelist_loop_spec p mx : G' p -> pre p mx -> wpx (namelist_loop_def ts R) (postL p mx) p mx.
Proof. start. unfold namelist_loop_def. wp. Qed.
Ltac ck2 := first [ck1 | call namelist_loop_spec].
Ltac call_known ::= ck2.

Lemma namelist_spec p mx : G' p -> pre p mx -> wpx (namelist_def ts R) (postN p mx) p mx.
Proof. start. unfold namelist_def. wp. Qed.
Ltac ck3 := first [ck2 | call namelist_spec].
Ltac call_known ::= ck3.

Lemma funcname_loop_spec p mx : G' p -> pre p mx -> wpx (funcname_loop_def ts R) (postL p mx) p mx.
Proof. start. unfold funcname_loop_def. wp. Qed.
Ltac ck4 := first [ck3 | call funcname_loop_spec].
Ltac call_known ::= ck4.

Lemma funcname_spec p mx : G' p -> pre p mx -> wpx (funcname_def ts R) (postN p mx) p mx.
Proof. start. unfold funcname_def. wp. Qed.
Ltac ck5 := first [ck4 | call funcname_spec].
Ltac call_known ::= ck5.

Lemma explist_loop_spec p mx : G' p -> pre p mx -> wpx (explist_loop_def ts R) (postL p mx) p mx.
Proof. start. unfold explist_loop_def. wp. Qed.
Ltac ck6 := first [ck5 | call explist_loop_spec].
Ltac call_known ::= ck6.

(* calls r_exp at its own entry position: needs the strict guard *)
Lemma explist_spec p mx : G p -> pre p mx -> wpx (explist_def ts R) (postN p mx) p mx.
Proof. start. unfold explist_def. wp. Qed.
Ltac ck7 := first [ck6 | call explist_spec].
Ltac call_known ::= ck7.

Lemma field_spec p mx : G p -> pre p mx -> wpx (field_def ts R) (postP p mx) p mx.
Proof. start. unfold field_def. wp. Qed.
Ltac ck8 := first [ck7 | call field_spec].
Ltac call_known ::= ck8.

Lemma fields_loop_spec p mx : G' p -> pre p mx -> wpx (fields_loop_def ts R) (postL p mx) p mx.
Proof. start. unfold fields_loop_def. wp. Qed.
Ltac ck9 := first [ck8 | call fields_loop_spec].
Ltac call_known ::= ck9.

Lemma tableconstructor_spec p mx : G' p -> pre p mx -> wpx (tableconstructor_def ts R) (postN p mx) p mx.
Proof. start. unfold tableconstructor_def. wp. Qed.
Ltac ck10 := first [ck9 | call tableconstructor_spec].
Ltac call_known ::= ck10.

Lemma args_spec p mx : G' p -> pre p mx -> wpx (args_def ts R) (postN p mx) p mx.
Proof. start. unfold args_def. wp. Qed.
Ltac ck11 := first [ck10 | call args_spec].
Ltac call_known ::= ck11.

Lemma funcbody_spec p mx : G' p -> pre p mx -> wpx (funcbody_def ts R) (postN p mx) p mx.
Proof. start. unfold funcbody_def. wp. Qed.
Ltac ck12 := first [ck11 | call funcbody_spec].
Ltac call_known ::= ck12.

Lemma function_spec p mx : G' p -> pre p mx -> wpx (function_def ts R) (postN p mx) p mx.
Proof. start. unfold function_def. wp. Qed.
Ltac ck13 := first [ck12 | call function_spec].
Ltac call_known ::= ck13.

Lemma precur_spec first p mx : G' p -> pre p mx -> wf p first -> is_hidden first = false ->
  wpx (precur_def ts R first) (postF first p mx) p mx.
Proof. start. intros Hwf Hnh. unfold precur_def. wp. Qed.
Ltac ck14 := first [ck13 | call precur_spec].
Ltac call_known ::= ck14.

Lemma prefixexp_spec p mx : G' p -> pre p mx -> wpx (prefixexp_def ts R) (postP p mx) p mx.
Proof. start. unfold prefixexp_def. wp. Qed.
Ltac ck15 := first [ck14 | call prefixexp_spec].
Ltac call_known ::= ck15.

Lemma exp_term_spec p mx : G' p -> pre p mx -> wpx (exp_term_def ts unops R) (postE p mx) p mx.
Proof. start. unfold exp_term_def. wp. Qed.
Ltac ck16 := first [ck15 | call exp_term_spec].
Ltac call_known ::= ck16.

Lemma binop_spec first p mx : G' p -> pre p mx -> wf p first -> end_ok first p -> exp_shape first ->
  wpx (binop_def ts binops unops R first) (postFE first p mx) p mx.
Proof. start. intros Hwf Hend Hshape. unfold binop_def. wp. Qed.
Ltac ck17 := first [ck16 | call binop_spec].
Ltac call_known ::= ck17.

Lemma exp_spec p mx : G' p -> pre p mx -> wpx (exp_def ts binops unops R) (postE p mx) p mx.
Proof. start. unfold exp_def. wp. Qed.
Ltac ck18 := first [ck17 | call exp_spec].
Ltac call_known ::= ck18.

Lemma var_spec p mx : G' p -> pre p mx -> wpx (var_def ts R) (postV p mx) p mx.
Proof. start. unfold var_def. wp. Qed.
Ltac ck19 := first [ck18 | call var_spec].
Ltac call_known ::= ck19.

Lemma varlist_loop_spec p mx : G' p -> pre p mx -> wpx (varlist_loop_def ts R) (postL p mx) p mx.
Proof. start. unfold varlist_loop_def. wp. Qed.
Ltac ck20 := first [ck19 | call varlist_loop_spec].
Ltac call_known ::= ck20.

Lemma varlist_spec p mx : G' p -> pre p mx -> wpx (varlist_def ts R) (postV p mx) p mx.
Proof. start. unfold varlist_def. wp. Qed.
Ltac ck21 := first [ck20 | call varlist_spec].
Ltac call_known ::= ck21.

Lemma functioncall_spec p mx : G' p -> pre p mx -> wpx (functioncall_def ts R) (postN p mx) p mx.
Proof. start. unfold functioncall_def. wp. Qed.
Ltac ck22 := first [ck21 | call functioncall_spec].
Ltac call_known ::= ck22.

Lemma elseif_loop_spec p mx : G' p -> pre p mx -> wpx (elseif_loop_def ts R) (postL p mx) p mx.
Proof. start. unfold elseif_loop_def. wp. Qed.
Ltac ck23 := first [ck22 | call elseif_loop_spec].
Ltac call_known ::= ck23.

Lemma for_spec pos fi p mx : G' p -> pre p mx -> pos <= fi -> fi + 1 = p ->
  wpx (for_def ts R pos fi) (postK fi p mx) p mx.
Proof. start. intros Hpos Hfi. unfold for_def. wp. Qed.

Lemma local_spec pos li p mx : G' p -> pre p mx -> pos <= li -> li + 1 = p ->
  wpx (local_def ts R pos li) (postK li p mx) p mx.
Proof. start. intros Hpos Hli. unfold local_def. wp. Qed.

Lemma laststat_spec p mx : G' p -> pre p mx -> wpx (laststat_def ts R) (postN p mx) p mx.
Proof. start. unfold laststat_def. wp. Qed.
Ltac ck24 := first [ck23 | call laststat_spec].
Ltac call_known ::= ck24.

Lemma if_spec pos ii p mx : G p -> pre p mx -> pos <= ii -> ii + 1 = p ->
  wpx (if_def ts R pos ii) (postK ii p mx) p mx.
Proof.
  start. intros Hpos Hii. unfold if_def. wp.
  (* what remains is the short form: the fence is the first newline after the condition *)
  assert (z = p1) by (apply Hp4; exact E). subst z.
  destruct (next_newline_spec ts p1) as (Hn1 & Hn2 & _); [lia|].
  assert (Hnn : next_newline ts p1 <= lim mx).
  { destruct mx as [f|]; cbn [ParserProofs.lim] in *; [|lia]. destruct Hfw as [Hf1 Hf2].
    apply next_newline_le; [lia | exact Hf1 | exact Hf2]. }
  assert (Hsig : sigb ts (p1 - 1) = true).
  { unfold sigb, ParserProofs.tok_at. rewrite E0, E1. unfold tok_eqb in E2. apply andb_true_iff in E2.
    destruct E2 as [E2 _]. apply kclass_eqb_eq in E2. cbn [tk] in E2. unfold is_trivia. rewrite E2. reflexivity. }
  change (newline_after ts p1) with (next_newline ts p1).
  remember (next_newline ts p1) as nn eqn:Enn.
  wp.
  all: match goal with Ht : (tag_of ?x =? tExpValue) = true, Hsh : exp_shape ?x |- _ =>
         destruct (cond_parts x Hsh Ht) as (s0 & e0 & sh0 & hs & v & -> & Hh & Hv); rewrite Hh, Hv;
         match goal with |- context [hs ++ [v; ?b]] =>
           replace (hs ++ [v; b]) with ((hs ++ [v]) ++ [b]) by (rewrite <- app_assoc; reflexivity) end;
         match goal with
         | Hl : leaves (Node _ _ _ _ _) = _, Hw : wf _ (Node _ _ _ _ _), Hpr : is_none (Node _ _ _ _ _) = false -> _ |- _ =>
             cbn [leaves] in Hl; apply wf_node_inv in Hw; destruct Hw as (Hs1 & Hs2 & HX & _);
             apply (wfl_mono ts _ e0 p1) in HX; [|exact Hs2];
             assert (Hprog : p < p1) by (apply Hpr; reflexivity);
             remember (hs ++ [v]) as X eqn:EX;
             first [ leaves_tac
                   | apply wf_node; [lia | lia | wfl_tac |];
                     intros _ _; eexists _, _, _; split; [reflexivity|]; unfold cond_close; rewrite removelast_last, Hl;
                     rewrite sig_last by (first [lia | exact Hsig]); replace (p1 - 1 + 1) with p1 by lia; rewrite <- Enn; lia ]
         end
       end.
Qed.

Ltac ck25 := first [ck24 | call if_spec | call for_spec | call local_spec].
Ltac call_known ::= ck25.

Lemma stat_spec p mx : G' p -> pre p mx -> wpx (stat_def ts R) (postN p mx) p mx.
Proof. start. unfold stat_def, assign_ops. wp. Qed.
Ltac ck26 := first [ck25 | call stat_spec].
Ltac call_known ::= ck26.

Lemma stats_loop_spec p mx : G' p -> pre p mx -> wpx (stats_loop_def ts R) (postL p mx) p mx.
Proof. start. unfold stats_loop_def. wp. Qed.
Ltac ck27 := first [ck26 | call stats_loop_spec].
Ltac call_known ::= ck27.

Lemma chunk_spec p mx : G' p -> pre p mx -> wpx (chunk_def ts R) (postT p mx) p mx.
Proof. start. unfold chunk_def. wp. Qed.

End Step.

(* ---------------------------------------------------------------- induction over the fuel levels *)
Definition specs (k : Z) (R : funs) : Prop :=
  (forall p mx, len - p < k -> pre p mx -> wpx (r_exp R) (postE p mx) p mx) /\
  (forall p mx, len - p < k -> pre p mx -> wpx (r_chunk R) (postT p mx) p mx) /\
  (forall p mx, len - p < k -> pre p mx -> wpx (r_semis R) (postL p mx) p mx) /\
  (forall p mx, len - p < k -> pre p mx -> wpx (r_stats_loop R) (postL p mx) p mx) /\
  (forall p mx, len - p < k -> pre p mx -> wpx (r_namelist_loop R) (postL p mx) p mx) /\
  (forall p mx, len - p < k -> pre p mx -> wpx (r_funcname_loop R) (postL p mx) p mx) /\
  (forall p mx, len - p < k -> pre p mx -> wpx (r_explist_loop R) (postL p mx) p mx) /\
  (forall p mx, len - p < k -> pre p mx -> wpx (r_varlist_loop R) (postL p mx) p mx) /\
  (forall p mx, len - p < k -> pre p mx -> wpx (r_fields_loop R) (postL p mx) p mx) /\
  (forall p mx, len - p < k -> pre p mx -> wpx (r_elseif_loop R) (postL p mx) p mx) /\
  (forall first p mx, len - p < k -> pre p mx -> wf p first -> is_hidden first = false ->
     wpx (r_precur R first) (postF first p mx) p mx) /\
  (forall first p mx, len - p < k -> pre p mx -> wf p first -> end_ok first p -> exp_shape first ->
     wpx (r_binop R first) (postFE first p mx) p mx).

Lemma specs_bottom : specs 0 bottom.
Proof.
  unfold specs. repeat split; intros; exfalso;
    match goal with H : pre _ _ |- _ => destruct H as (? & ? & _) end; lia.
Qed.

Lemma specs_step k R : specs k R -> specs (k + 1) (step ts binops unops R).
Proof.
  intros (H1 & H2 & H3 & H4 & H5 & H6 & H7 & H8 & H9 & H10 & H11 & H12).
  unfold specs. cbn [step r_exp r_chunk r_semis r_stats_loop r_namelist_loop r_funcname_loop r_explist_loop
                     r_varlist_loop r_fields_loop r_elseif_loop r_precur r_binop].
  repeat split; intros.
  - eapply exp_spec; try eassumption. unfold G'. lia.
  - eapply chunk_spec; try eassumption. unfold G'. lia.
  - eapply semis_spec; try eassumption. unfold G'. lia.
  - eapply stats_loop_spec; try eassumption. unfold G'. lia.
  - eapply namelist_loop_spec; try eassumption. unfold G'. lia.
  - eapply funcname_loop_spec; try eassumption. unfold G'. lia.
  - eapply explist_loop_spec; try eassumption. unfold G'. lia.
  - eapply varlist_loop_spec; try eassumption. unfold G'. lia.
  - eapply fields_loop_spec; try eassumption. unfold G'. lia.
  - eapply elseif_loop_spec; try eassumption. unfold G'. lia.
  - eapply precur_spec; try eassumption. unfold G'. lia.
  - eapply binop_spec; try eassumption. unfold G'. lia.
Qed.

Lemma specs_level n : specs (Z.of_nat n) (level ts binops unops n).
Proof.
  induction n as [|n IH]; [exact specs_bottom|].
  replace (Z.of_nat (S n)) with (Z.of_nat n + 1) by lia. cbn [level]. apply specs_step, IH.
Qed.

(* the whole parse: process_tokens *)
Lemma parse_spec :
  match parse ts binops unops with
  | Ok (root, e) => 0 <= e <= len /\ leaves root = sig 0 e /\ wf e root /\ exists fs, root = Node tChunk 0 e false [Lst fs]
  | Err err => err <> OutOfFuel
  end.
Proof.
  unfold parse, parse_with_fuel.
  destruct (specs_level (fuel_for ts)) as (_ & H2 & _).
  specialize (H2 0 None). unfold wpx in H2.
  destruct (r_chunk (level ts binops unops (fuel_for ts)) (0, None)) as [[t [p1 mx1]]|e].
  - destruct H2 as ((_ & Ha & Hb & _) & Hl & Hw & Hs).
    + unfold fuel_for, zlen. lia.
    + unfold pre. cbn [ParserProofs.lim fence_wf]. pose proof (zlen_nonneg ts). repeat split; lia.
    + destruct (is_none t); [discriminate|]. cbn [fst]. repeat split; assumption.
  - apply H2.
    + unfold fuel_for, zlen. lia.
    + unfold pre. cbn [ParserProofs.lim fence_wf]. pose proof (zlen_nonneg ts). repeat split; lia.
Qed.

End S.
