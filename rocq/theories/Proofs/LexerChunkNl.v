(* Chunking beyond C07_chunking: a line that does NOT end with a line feed, followed by a separate one-byte line
   feed chunk (build.py's _prepend_package_lua does that for a package file without a final newline).
   model_lex_chunking (LexerChunk.v) needs every chunk but the last to end with LF.  Here: if the lexer is back in
   the Normal state at the end of a text that does not end with a carriage return, then lexing the line feed as a
   chunk of its own gives exactly the same state as lexing it glued to the text (pl_split_lf) - built on the
   "append a line feed" lemmas of LexerAppendLf.v.  For texts of the reference dialect both conditions hold, which
   gives model_lex_sep_newline and the compositional chunk_ok lemmas used by C14. *)
From PV Require Import Base.Prelude Generated.T_lexer Model.Lexer Spec.LuaLex Instances.HoldsC07 Proofs.LexerProofs Proofs.LexerInv
  Proofs.LexerSpec Proofs.LexerAgree Proofs.LexerMain Proofs.LexerChunk Proofs.LexerAppendLf.
From Coq Require Import ZifyBool.

(* ---------- the quote invariant along lines and chunks *)
Lemma process_line_q fuel : forall st s st', state_q (l_state st) -> process_line fuel st s = Ok st' -> state_q (l_state st').
Proof.
  induction fuel as [|f IH]; intros st s st' Hq H; [discriminate|]. rewrite process_line_S in H.
  destruct (process_token (l_state st) (l_line st) (l_col st) s) as [[[[[ms ot] piece] rest]|]|e] eqn:E; [| |discriminate].
  - destruct (is_nil piece).
    + destruct (is_nil s); [|discriminate]. inversion H; subst. exact Hq.
    + destruct (advance (l_line st, l_col st) piece) as [l' c']. apply IH in H; [exact H|].
      cbn [l_state]. apply (process_token_q _ _ _ _ _ _ _ _ Hq E).
  - destruct (is_nil s); [|discriminate]. inversion H; subst. exact Hq.
Qed.

Lemma pl_lf st s st' : state_lf (l_state st) -> pl st s = Ok st' -> state_lf (l_state st').
Proof. apply process_line_lf. Qed.

Lemma pl_q st s st' : state_q (l_state st) -> pl st s = Ok st' -> state_q (l_state st').
Proof. apply process_line_q. Qed.

Lemma removelast_cons_lf0 (x : list Z) l : ends_lf x -> Forall ends_lf (removelast l) -> Forall ends_lf (removelast (x :: l)).
Proof. intros Hx Hl. destruct l; [constructor|]. change (removelast (x :: l :: l0)) with (x :: removelast (l :: l0)). constructor; assumption. Qed.

Lemma last_suffix (a b : list Z) : b <> [] -> last (a ++ b) 0 = last b 0.
Proof.
  intros Hb. destruct (exists_last Hb) as (b' & z & ->). rewrite app_assoc, !last_last. reflexivity.
Qed.

(* ---------- a line feed after a text at whose end the lexer is in the Normal state *)
Theorem pl_split_lf_n n : forall s st st', (length s <= n)%nat ->
  state_lf (l_state st) -> state_q (l_state st) ->
  pl st s = Ok st' -> l_state st' = Normal -> last s 0 <> 13 ->
  pl st (s ++ [10]) = pl st' [10].
Proof.
  induction n as [|n IH]; intros s st st' Hn Hl Hq H Hfin H13.
  - destruct s as [|x s]; [|cbn in Hn; lia]. rewrite pl_nil in H. inversion H; subst st'. reflexivity.
  - destruct s as [|x s0].
    { rewrite pl_nil in H. inversion H; subst st'. reflexivity. }
    remember (x :: s0) as s eqn:Es. assert (N0 : s <> []) by (subst s; discriminate).
    assert (N13 : l_state st = Normal -> s <> [13]) by (intros _ E; rewrite E in H13; apply H13; reflexivity).
    rewrite pl_step in H.
    destruct (process_token (l_state st) (l_line st) (l_col st) s) as [[[[[ms ot] piece] rest]|]|e] eqn:E.
    + destruct (is_nil piece) eqn:Np; [rewrite (is_nil_ne _ N0) in H; discriminate|].
      assert (Hr : rest = [] -> ms = Normal).
      { intros ->. rewrite pl_nil in H. inversion H; subst st'. rewrite step_state_state in Hfin. exact Hfin. }
      pose proof (process_token_lf1 _ _ _ _ _ _ _ _ Hl Hq N0 N13 E Hr) as E2.
      rewrite (pl_step st (s ++ [10])), E2, Np.
      pose proof (process_token_split _ _ _ _ _ _ _ _ E) as Hs.
      apply (IH rest _ st').
      * apply is_nil_false in Np.
        assert (length s = (length piece + length rest)%nat) by (rewrite Hs; apply app_length). lia.
      * rewrite step_state_state. apply (process_token_lf _ _ _ _ _ _ _ _ Hl E).
      * rewrite step_state_state. apply (process_token_q _ _ _ _ _ _ _ _ Hq E).
      * exact H.
      * exact Hfin.
      * destruct rest as [|r0 r1]; [cbn; lia|]. rewrite Hs, last_suffix in H13 by discriminate. exact H13.
    + rewrite (is_nil_ne _ N0) in H. discriminate.
    + discriminate.
Qed.

Theorem pl_split_lf s st st' :
  state_lf (l_state st) -> state_q (l_state st) ->
  pl st s = Ok st' -> l_state st' = Normal -> last s 0 <> 13 ->
  pl st (s ++ [10]) = pl st' [10].
Proof. apply (pl_split_lf_n (length s)). apply Nat.le_refl. Qed.

(* ---------- chunk lists *)
Lemma process_chunks_app L : forall st M,
  process_chunks st (L ++ M) = bindL (process_chunks st L) (fun st1 => process_chunks st1 M).
Proof.
  induction L as [|c L IH]; intros st M; [reflexivity|]. cbn [app]. rewrite !process_chunks_cons.
  destruct (pl st c) as [st1|e]; cbn [bindL]; [apply IH | reflexivity].
Qed.

Lemma process_chunks_lf L : forall st st', state_lf (l_state st) -> process_chunks st L = Ok st' -> state_lf (l_state st').
Proof.
  induction L as [|c L IH]; intros st st' Hl H; [inversion H; subst; exact Hl|]. rewrite process_chunks_cons in H.
  destruct (pl st c) as [st1|e] eqn:P; [|discriminate]. cbn [bindL] in H. apply (IH st1 st'); [apply (pl_lf _ _ _ Hl P) | exact H].
Qed.

Lemma process_chunks_q L : forall st st', state_q (l_state st) -> process_chunks st L = Ok st' -> state_q (l_state st').
Proof.
  induction L as [|c L IH]; intros st st' Hl H; [inversion H; subst; exact Hl|]. rewrite process_chunks_cons in H.
  destruct (pl st c) as [st1|e] eqn:P; [|discriminate]. cbn [bindL] in H. apply (IH st1 st'); [apply (pl_q _ _ _ Hl P) | exact H].
Qed.

(* a chunk list is [chunk_ok] when lexing it chunk by chunk reaches the very state (tokens, positions, mode) that
   lexing its concatenation as one chunk reaches *)
Definition chunk_ok (ls : list (list Z)) : Prop := process_chunks init_lexst ls = pl init_lexst (concat ls).

Lemma chunk_ok_model_lex ls : chunk_ok ls -> model_lex ls = model_lex [concat ls].
Proof. unfold chunk_ok, model_lex. intros H. rewrite process_chunks_one, H. reflexivity. Qed.

Lemma chunk_ok_good ls : Forall ends_lf (removelast ls) -> chunk_ok ls.
Proof. intros H. unfold chunk_ok. rewrite (process_chunks_concat ls init_lexst H I). apply process_chunks_one. Qed.

Lemma chunks_good_any st ls : Forall ends_lf (removelast ls) -> state_lf (l_state st) -> process_chunks st ls = pl st (concat ls).
Proof. intros H Hl. rewrite (process_chunks_concat ls st H Hl). apply process_chunks_one. Qed.

Lemma pl_split_any c r st : c = [] \/ ends_lf c -> state_lf (l_state st) -> pl st (c ++ r) = bindL (pl st c) (fun st2 => pl st2 r).
Proof.
  intros [-> | He] Hl; [rewrite pl_nil; reflexivity|]. apply (pl_split (length c)); [apply Nat.le_refl | exact He | exact Hl].
Qed.

(* after a chunk_ok list whose text is empty or ends with LF, any list of LF-terminated lines (last one free) *)
Lemma chunk_ok_app_lf L M : chunk_ok L -> concat L = [] \/ ends_lf (concat L) -> Forall ends_lf (removelast M) ->
  chunk_ok (L ++ M).
Proof.
  unfold chunk_ok. intros HL He HM. rewrite process_chunks_app, HL, concat_app, (pl_split_any _ _ init_lexst He I).
  destruct (pl init_lexst (concat L)) as [st1|e] eqn:P; cbn [bindL]; [|reflexivity].
  apply chunks_good_any; [exact HM | apply (pl_lf init_lexst _ _ I P)].
Qed.

(* after a chunk_ok list whose text is lexed completely (the lexer is back in the Normal state) and does not end
   with a carriage return: a separate line feed chunk, then any list of LF-terminated lines *)
Lemma chunk_ok_sep L M ts : chunk_ok L -> model_lex [concat L] = Ok ts -> last (concat L) 0 <> 13 ->
  Forall ends_lf (removelast M) -> chunk_ok (L ++ [10] :: M).
Proof.
  unfold chunk_ok. intros HL Hm H13 HM. rewrite process_chunks_app, HL, concat_app.
  unfold model_lex in Hm. rewrite process_chunks_one in Hm.
  destruct (pl init_lexst (concat L)) as [st1|e] eqn:P; [|discriminate]. cbn [bindL].
  destruct (l_state st1) eqn:Est; try discriminate.
  assert (HM' : Forall ends_lf (removelast ([10] :: M))) by (apply removelast_cons_lf0; [exists []; reflexivity | exact HM]).
  rewrite (chunks_good_any st1 _ HM'); [|rewrite Est; exact I].
  change (concat ([10] :: M)) with ([10] ++ concat M). rewrite app_assoc.
  rewrite (pl_split_any (concat L ++ [10]) (concat M) init_lexst); [|right; eexists; reflexivity | exact I].
  rewrite (pl_split_lf _ init_lexst _ I I P Est H13).
  apply pl_split_any; [right; exists []; reflexivity | rewrite Est; exact I].
Qed.

(* ---------- texts of the reference dialect *)
Lemma dialect_no_final_cr src : spec_lex src <> None -> last src 0 <> 13.
Proof.
  unfold spec_lex. destruct (crlf_only src) eqn:Hcr; [|congruence]. intros _. revert Hcr.
  induction src as [|c r IH]; [cbn; lia|]. intros H. cbn [crlf_only] in H. apply andb_true_iff in H. destruct H as [H1 H2].
  destruct r as [|d r'].
  - cbn [last]. destruct (c =? 13) eqn:E; [discriminate | lia].
  - change (last (c :: d :: r') 0) with (last (d :: r') 0). apply IH, H2.
Qed.

Lemma chunk_ok_sep_dialect L M : chunk_ok L -> Forall byte (concat L) -> spec_lex (concat L) <> None ->
  Forall ends_lf (removelast M) -> chunk_ok (L ++ [10] :: M).
Proof.
  intros HL HB Hs HM. destruct (spec_lex (concat L)) as [ss|] eqn:Es; [|congruence].
  destruct (lex_agrees _ _ HB Es) as (ts & Hm & _).
  apply (chunk_ok_sep L M ts HL Hm); [|exact HM]. apply dialect_no_final_cr. rewrite Es. discriminate.
Qed.

(* THE chunking statement for a separate newline line: [A] lines ending with LF, [x] any line such that the text
   up to its end is in the dialect: the line feed may come as a chunk of its own *)
Theorem model_lex_sep_newline A x B : Forall ends_lf A -> Forall byte (concat A ++ x) -> spec_lex (concat A ++ x) <> None ->
  model_lex (A ++ x :: [10] :: B) = model_lex (A ++ (x ++ [10]) :: B).
Proof.
  intros HA HB Hs.
  assert (Hrl : forall y, Forall ends_lf (removelast (A ++ [y]))) by (intros y; rewrite removelast_last; exact HA).
  assert (Ec : forall y, concat (A ++ [y]) = concat A ++ y) by (intros y; rewrite concat_app; cbn [concat]; rewrite app_nil_r; reflexivity).
  pose proof (chunk_ok_good _ (Hrl x)) as Hx.
  assert (H1 : process_chunks init_lexst (A ++ [x; [10]]) = pl init_lexst (concat A ++ x ++ [10])).
  { assert (H : chunk_ok ((A ++ [x]) ++ [10] :: [])).
    { apply chunk_ok_sep_dialect; [exact Hx | rewrite Ec; exact HB | rewrite Ec; exact Hs | constructor]. }
    unfold chunk_ok in H. rewrite <- app_assoc in H. cbn [app] in H. rewrite H. f_equal.
    rewrite concat_app. cbn [concat]. rewrite app_nil_r. reflexivity. }
  assert (H2 : process_chunks init_lexst (A ++ [x ++ [10]]) = pl init_lexst (concat A ++ x ++ [10])).
  { pose proof (chunk_ok_good _ (Hrl (x ++ [10]))) as H. unfold chunk_ok in H. rewrite H, Ec. reflexivity. }
  unfold model_lex.
  replace (A ++ x :: [10] :: B) with ((A ++ [x; [10]]) ++ B) by (rewrite <- app_assoc; reflexivity).
  replace (A ++ (x ++ [10]) :: B) with ((A ++ [x ++ [10]]) ++ B) by (rewrite <- app_assoc; reflexivity).
  rewrite (process_chunks_app (A ++ [x; [10]])), (process_chunks_app (A ++ [x ++ [10]])), H1, H2. reflexivity.
Qed.
Print Assumptions model_lex_sep_newline.
