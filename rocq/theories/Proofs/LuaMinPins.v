(* Source pins of pico8/lua/lua.py: the token-stream writers, the name factory and the module functions of lua.py (Model/Minifier.v, Model/Names.v, Model/P8scii.v, Model/Header.v).
   WRITTEN BY gen/mkpins.py (developer step) from the sources the hand-written model was compared with;
   each lemma fails when the function it names has been edited since (digest of ast.unparse, docstrings
   dropped; regenerated on every run into Generated/T_pins_luamin.v). *)
From Coq Require Import ZArith List.
Import ListNotations.
Open Scope Z_scope.
From PV Require Import Generated.T_pins_luamin.

Lemma pin__mod__unicode_to_p8scii_ok : pin__mod__unicode_to_p8scii = [195; 201; 66; 108; 99; 7; 199; 202].
Proof. reflexivity. Qed.
Lemma pin__mod__p8scii_to_unicode_ok : pin__mod__p8scii_to_unicode = [146; 108; 50; 130; 8; 249; 237; 74].
Proof. reflexivity. Qed.
Lemma pin__mod___default_node_handler_ok : pin__mod___default_node_handler = [65; 125; 214; 47; 32; 158; 237; 106].
Proof. reflexivity. Qed.
Lemma pin__PureLuaWriter__to_lines_ok : pin__PureLuaWriter__to_lines = [59; 165; 9; 47; 184; 167; 247; 199].
Proof. reflexivity. Qed.
Lemma pin__PureLuaWriter___find_tok_ok : pin__PureLuaWriter___find_tok = [78; 237; 152; 198; 4; 161; 103; 194].
Proof. reflexivity. Qed.
Lemma pin__PureLuaWriter___next_nonspace_tok_ok : pin__PureLuaWriter___next_nonspace_tok = [159; 58; 2; 141; 209; 127; 196; 59].
Proof. reflexivity. Qed.
Lemma pin__PureLuaWriter__line_to_pure_lua_ok : pin__PureLuaWriter__line_to_pure_lua = [128; 42; 19; 231; 15; 15; 210; 165].
Proof. reflexivity. Qed.
Lemma pin__MinifyNameFactory____init___ok : pin__MinifyNameFactory____init__ = [144; 229; 71; 163; 221; 73; 68; 208].
Proof. reflexivity. Qed.
Lemma pin__MinifyNameFactory___name_for_id_ok : pin__MinifyNameFactory___name_for_id = [11; 114; 160; 28; 146; 42; 30; 144].
Proof. reflexivity. Qed.
Lemma pin__MinifyNameFactory__read_names_file_ok : pin__MinifyNameFactory__read_names_file = [79; 101; 60; 46; 148; 141; 21; 73].
Proof. reflexivity. Qed.
Lemma pin__MinifyNameFactory__get_short_name_ok : pin__MinifyNameFactory__get_short_name = [137; 96; 54; 100; 238; 136; 83; 10].
Proof. reflexivity. Qed.
Lemma pin__LuaMinifyWriter____init___ok : pin__LuaMinifyWriter____init__ = [209; 252; 228; 72; 234; 194; 51; 188].
Proof. reflexivity. Qed.
Lemma pin__LuaMinifyWriter___get_name_ok : pin__LuaMinifyWriter___get_name = [193; 69; 196; 33; 171; 47; 228; 135].
Proof. reflexivity. Qed.
Lemma pin__LuaMinifyWriter___get_code_for_spaces_ok : pin__LuaMinifyWriter___get_code_for_spaces = [147; 87; 234; 80; 21; 132; 95; 198].
Proof. reflexivity. Qed.
Lemma pin__LuaMinifyWriter___get_semis_ok : pin__LuaMinifyWriter___get_semis = [66; 52; 32; 161; 237; 28; 70; 63].
Proof. reflexivity. Qed.
Lemma pin__LuaMinifyTokenWriter____init___ok : pin__LuaMinifyTokenWriter____init__ = [41; 51; 70; 210; 148; 53; 96; 207].
Proof. reflexivity. Qed.
Lemma pin__LuaMinifyTokenWriter___fuses_ok : pin__LuaMinifyTokenWriter___fuses = [93; 104; 28; 72; 109; 206; 216; 210].
Proof. reflexivity. Qed.
Lemma pin__LuaMinifyTokenWriter__to_lines_ok : pin__LuaMinifyTokenWriter__to_lines = [181; 95; 225; 4; 167; 168; 129; 113].
Proof. reflexivity. Qed.
Lemma pin__LuaMinifyTokenWriter___minified_chunks_ok : pin__LuaMinifyTokenWriter___minified_chunks = [171; 12; 73; 253; 138; 9; 76; 138].
Proof. reflexivity. Qed.
Lemma pin__LuaFormatterTokenWriter____init___ok : pin__LuaFormatterTokenWriter____init__ = [40; 211; 99; 220; 4; 162; 153; 168].
Proof. reflexivity. Qed.
Lemma pin__LuaFormatterTokenWriter__to_lines_ok : pin__LuaFormatterTokenWriter__to_lines = [56; 195; 38; 193; 178; 100; 80; 24].
Proof. reflexivity. Qed.

(* no function was added to or removed from the pinned classes *)
Lemma pin_names__luamin_ok : pin_names__luamin =
  [[112; 105; 110; 95; 95; 109; 111; 100; 95; 95; 117; 110; 105; 99; 111; 100; 101; 95; 116; 111; 95; 112; 56; 115; 99; 105; 105]; [112; 105; 110; 95; 95; 109; 111; 100; 95; 95; 112; 56; 115; 99; 105; 105; 95; 116; 111; 95; 117; 110; 105; 99; 111; 100; 101]; [112; 105; 110; 95; 95; 109; 111; 100; 95; 95; 95; 100; 101; 102; 97; 117; 108; 116; 95; 110; 111; 100; 101; 95; 104; 97; 110; 100; 108; 101; 114]; [112; 105; 110; 95; 95; 80; 117; 114; 101; 76; 117; 97; 87; 114; 105; 116; 101; 114; 95; 95; 116; 111; 95; 108; 105; 110; 101; 115]; [112; 105; 110; 95; 95; 80; 117; 114; 101; 76; 117; 97; 87; 114; 105; 116; 101; 114; 95; 95; 95; 102; 105; 110; 100; 95; 116; 111; 107]; [112; 105; 110; 95; 95; 80; 117; 114; 101; 76; 117; 97; 87; 114; 105; 116; 101; 114; 95; 95; 95; 110; 101; 120; 116; 95; 110; 111; 110; 115; 112; 97; 99; 101; 95; 116; 111; 107]; [112; 105; 110; 95; 95; 80; 117; 114; 101; 76; 117; 97; 87; 114; 105; 116; 101; 114; 95; 95; 108; 105; 110; 101; 95; 116; 111; 95; 112; 117; 114; 101; 95; 108; 117; 97]; [112; 105; 110; 95; 95; 77; 105; 110; 105; 102; 121; 78; 97; 109; 101; 70; 97; 99; 116; 111; 114; 121; 95; 95; 95; 95; 105; 110; 105; 116; 95; 95]; [112; 105; 110; 95; 95; 77; 105; 110; 105; 102; 121; 78; 97; 109; 101; 70; 97; 99; 116; 111; 114; 121; 95; 95; 95; 110; 97; 109; 101; 95; 102; 111; 114; 95; 105; 100]; [112; 105; 110; 95; 95; 77; 105; 110; 105; 102; 121; 78; 97; 109; 101; 70; 97; 99; 116; 111; 114; 121; 95; 95; 114; 101; 97; 100; 95; 110; 97; 109; 101; 115; 95; 102; 105; 108; 101]; [112; 105; 110; 95; 95; 77; 105; 110; 105; 102; 121; 78; 97; 109; 101; 70; 97; 99; 116; 111; 114; 121; 95; 95; 103; 101; 116; 95; 115; 104; 111; 114; 116; 95; 110; 97; 109; 101]; [112; 105; 110; 95; 95; 76; 117; 97; 77; 105; 110; 105; 102; 121; 87; 114; 105; 116; 101; 114; 95; 95; 95; 95; 105; 110; 105; 116; 95; 95]; [112; 105; 110; 95; 95; 76; 117; 97; 77; 105; 110; 105; 102; 121; 87; 114; 105; 116; 101; 114; 95; 95; 95; 103; 101; 116; 95; 110; 97; 109; 101]; [112; 105; 110; 95; 95; 76; 117; 97; 77; 105; 110; 105; 102; 121; 87; 114; 105; 116; 101; 114; 95; 95; 95; 103; 101; 116; 95; 99; 111; 100; 101; 95; 102; 111; 114; 95; 115; 112; 97; 99; 101; 115]; [112; 105; 110; 95; 95; 76; 117; 97; 77; 105; 110; 105; 102; 121; 87; 114; 105; 116; 101; 114; 95; 95; 95; 103; 101; 116; 95; 115; 101; 109; 105; 115]; [112; 105; 110; 95; 95; 76; 117; 97; 77; 105; 110; 105; 102; 121; 84; 111; 107; 101; 110; 87; 114; 105; 116; 101; 114; 95; 95; 95; 95; 105; 110; 105; 116; 95; 95]; [112; 105; 110; 95; 95; 76; 117; 97; 77; 105; 110; 105; 102; 121; 84; 111; 107; 101; 110; 87; 114; 105; 116; 101; 114; 95; 95; 95; 102; 117; 115; 101; 115]; [112; 105; 110; 95; 95; 76; 117; 97; 77; 105; 110; 105; 102; 121; 84; 111; 107; 101; 110; 87; 114; 105; 116; 101; 114; 95; 95; 116; 111; 95; 108; 105; 110; 101; 115]; [112; 105; 110; 95; 95; 76; 117; 97; 77; 105; 110; 105; 102; 121; 84; 111; 107; 101; 110; 87; 114; 105; 116; 101; 114; 95; 95; 95; 109; 105; 110; 105; 102; 105; 101; 100; 95; 99; 104; 117; 110; 107; 115]; [112; 105; 110; 95; 95; 76; 117; 97; 70; 111; 114; 109; 97; 116; 116; 101; 114; 84; 111; 107; 101; 110; 87; 114; 105; 116; 101; 114; 95; 95; 95; 95; 105; 110; 105; 116; 95; 95]; [112; 105; 110; 95; 95; 76; 117; 97; 70; 111; 114; 109; 97; 116; 116; 101; 114; 84; 111; 107; 101; 110; 87; 114; 105; 116; 101; 114; 95; 95; 116; 111; 95; 108; 105; 110; 101; 115]].
Proof. reflexivity. Qed.
