(* Bridge between the coarse reader Spec/FmtShape.v and the reference lexer Spec/LuaLex.v:
   the pieces of the two readers that read long brackets, quoted strings and numerals agree. *)
From PV Require Import Base.Prelude Spec.LuaLex Proofs.LuaLexFacts Proofs.SpecLexChunk.
From PV Require Spec.FmtShape.
From Coq Require Import Lia ZifyBool.

(* ---------- span ---------- *)
Lemma span_same p s : FmtShape.span p s = LuaLex.span p s.
Proof.
  induction s as [|c r IH]; [reflexivity|]. cbn [FmtShape.span LuaLex.span]. rewrite IH. reflexivity.
Qed.

(* ---------- opening long bracket ---------- *)
Lemma all61_repeat l : forallb (fun x => x =? 61) l = true -> l = repeat 61 (length l).
Proof.
  induction l as [|c l IH]; [reflexivity|]. cbn [forallb length repeat]. intros H.
  apply andb_true_iff in H. destruct H as [Hc Hl]. apply Z.eqb_eq in Hc. subst c. f_equal. apply IH, Hl.
Qed.

Lemma repeat61_all k : forallb (fun x => x =? 61) (repeat 61 k) = true.
Proof. induction k as [|k IH]; [reflexivity|]. cbn [repeat forallb]. rewrite IH. reflexivity. Qed.

Lemma long_open_rel r :
  FmtShape.long_open (91 :: r) =
  match LuaLex.long_open r 0 with
  | Some (n, t) => Some (Z.to_nat n, 91 :: repeat 61 (Z.to_nat n) ++ [91], t)
  | None => None
  end.
Proof.
  unfold FmtShape.long_open, FmtShape.cLBR, FmtShape.cEQ. change (91 =? 91) with true. cbv iota.
  rewrite span_same. destruct (LuaLex.long_open r 0) as [[n t]|] eqn:E.
  - destruct (long_open_spec _ _ _ _ E) as (k & -> & ->). cbn [Z.add]. rewrite Nat2Z.id.
    rewrite (span_ctx (fun x => x =? 61) (repeat 61 k) (91 :: t) (repeat61_all k) eq_refl).
    change (91 =? 91) with true. cbv iota. rewrite repeat_length. reflexivity.
  - destruct (LuaLex.span (fun x => x =? 61) r) as [eqs t] eqn:Es.
    pose proof (span_split _ _ _ _ Es) as Hr. pose proof (span_all _ _ _ _ Es) as Ha.
    destruct t as [|d t']; [reflexivity|]. destruct (d =? 91) eqn:Ed; [|reflexivity].
    exfalso. apply Z.eqb_eq in Ed. subst d. rewrite (all61_repeat eqs Ha) in Hr. subst r.
    rewrite long_open_build in E. discriminate.
Qed.

Lemma long_open_not_bracket c r : (c =? 91) = false -> FmtShape.long_open (c :: r) = None.
Proof. intros H. unfold FmtShape.long_open, FmtShape.cLBR. rewrite H. reflexivity. Qed.

(* ---------- closing long bracket ---------- *)
Lemma sw_close_here : forall n r,
  starts_with (repeat 61 n ++ [93]) r = match long_close_here n r with Some _ => true | None => false end.
Proof.
  induction n as [|n IH]; intros r; rewrite long_close_here_eq; destruct r as [|c r]; try reflexivity;
    cbn [repeat app starts_with].
  - rewrite (Z.eqb_sym 93 c). destruct (c =? 93); [|reflexivity]. destruct r; reflexivity.
  - rewrite (Z.eqb_sym 61 c). destruct (c =? 61); [|reflexivity]. cbn [andb]. apply IH.
Qed.

Lemma skipn_length_app {A} (a b : list A) : skipn (length a) (a ++ b) = b.
Proof. induction a as [|x a IH]; [reflexivity|]. cbn [length app skipn]. exact IH. Qed.

Lemma long_close_rel n s b cl rest : LuaLex.long_body n s = Some (b, cl, rest) ->
  FmtShape.find_long_close (FmtShape.long_closer n) s = Some (b ++ cl, rest).
Proof.
  unfold FmtShape.long_closer, FmtShape.cRBR, FmtShape.cEQ.
  revert b cl rest. induction s as [|c r IH]; intros b cl rest H; [discriminate|].
  cbn [long_body] in H. cbn [FmtShape.find_long_close].
  assert (Hsw : starts_with (93 :: repeat 61 n ++ [93]) (c :: r) =
                (c =? 93) && match long_close_here n r with Some _ => true | None => false end).
  { cbn [starts_with]. rewrite (Z.eqb_sym 93 c), sw_close_here. reflexivity. }
  rewrite Hsw. destruct (c =? 93) eqn:Ec.
  - destruct (long_close_here n r) as [r0|] eqn:El.
    + injection H as <- <- <-. apply Z.eqb_eq in Ec. subst c. cbn [andb app].
      apply long_close_here_spec in El. subst r. f_equal. f_equal.
      change (93 :: repeat 61 n ++ 93 :: r0) with ((93 :: repeat 61 n) ++ [93] ++ r0).
      rewrite app_assoc. change ((93 :: repeat 61 n) ++ [93]) with (93 :: repeat 61 n ++ [93]).
      apply skipn_length_app.
    + cbn [andb]. destruct (long_body n r) as [[[b' cl'] rest0]|] eqn:Eb; [|discriminate].
      injection H as <- <- <-. rewrite (IH _ _ _ eq_refl). reflexivity.
  - cbn [andb]. destruct (long_body n r) as [[[b' cl'] rest0]|] eqn:Eb; [|discriminate].
    injection H as <- <- <-. rewrite (IH _ _ _ eq_refl). reflexivity.
Qed.

(* ---------- numerals ---------- *)
Fixpoint okrun (a : list Z) : bool :=
  match a with
  | [] => true
  | c :: r => (FmtShape.is_num_char c || ((c =? 45) && match r with d :: _ => FmtShape.is_digit d | [] => false end)) && okrun r
  end.

Lemma forallb_imp {A} (p q : A -> bool) l : (forall c, p c = true -> q c = true) ->
  forallb p l = true -> forallb q l = true.
Proof.
  intros Hpq. induction l as [|c l IH]; [reflexivity|]. cbn [forallb]. intros H.
  apply andb_true_iff in H. destruct H as [Hc Hl]. rewrite (Hpq c Hc), (IH Hl). reflexivity.
Qed.

Lemma okrun_app_num x y : forallb FmtShape.is_num_char x = true -> okrun (x ++ y) = okrun y.
Proof.
  induction x as [|c x IH]; [reflexivity|]. cbn [forallb app okrun]. intros H.
  apply andb_true_iff in H. destruct H as [Hc Hx]. rewrite Hc. cbn [orb andb]. apply IH, Hx.
Qed.

Lemma okrun_all x : forallb FmtShape.is_num_char x = true -> okrun x = true.
Proof. intros H. rewrite <- (app_nil_r x). rewrite okrun_app_num by exact H. reflexivity. Qed.

Lemma digit_num_char c : LuaLex.is_digit c = true -> FmtShape.is_num_char c = true.
Proof.
  unfold LuaLex.is_digit, FmtShape.is_num_char, FmtShape.is_name_char, FmtShape.is_name_start, FmtShape.is_alpha,
    FmtShape.is_digit, FmtShape.cDOT. lia.
Qed.

Lemma hex_num_char c : is_hex c = true -> FmtShape.is_num_char c = true.
Proof.
  unfold is_hex, LuaLex.is_digit, is_lower_hex, is_upper_hex, FmtShape.is_num_char, FmtShape.is_name_char,
    FmtShape.is_name_start, FmtShape.is_alpha, FmtShape.is_digit, FmtShape.cDOT. lia.
Qed.

Lemma bin_num_char c : is_bin c = true -> FmtShape.is_num_char c = true.
Proof.
  unfold is_bin, FmtShape.is_num_char, FmtShape.is_name_char,
    FmtShape.is_name_start, FmtShape.is_alpha, FmtShape.is_digit, FmtShape.cDOT. lia.
Qed.

Lemma digits_num_chars l : forallb LuaLex.is_digit l = true -> forallb FmtShape.is_num_char l = true.
Proof. apply forallb_imp, digit_num_char. Qed.

Lemma exponent_okrun r x : parse_exponent r = Some x -> okrun r = true.
Proof.
  unfold parse_exponent. destruct r as [|c ds]; [discriminate|]. intros H.
  destruct (c =? 45) eqn:E1.
  - destruct (nonempty ds) eqn:En; [|discriminate]. destruct (forallb LuaLex.is_digit ds) eqn:Ea; [|discriminate].
    cbn [okrun]. rewrite E1. rewrite (okrun_all ds (digits_num_chars ds Ea)).
    destruct ds as [|d ds]; [discriminate|]. cbn [forallb] in Ea. apply andb_true_iff in Ea. destruct Ea as [Hd _].
    change (FmtShape.is_digit d) with (LuaLex.is_digit d). rewrite Hd. cbn [andb]. rewrite orb_true_r. reflexivity.
  - destruct (c =? 43); [discriminate|]. destruct (forallb LuaLex.is_digit (c :: ds)) eqn:Ea; [|discriminate].
    apply okrun_all, digits_num_chars, Ea.
Qed.

Lemma expo_tail_okrun e r3 (res : option (Z * Z)) :
  (if (e =? 101) || (e =? 69) then
     match parse_exponent r3 with Some x => res | None => None end
   else None) <> None -> okrun (e :: r3) = true.
Proof.
  intros H. destruct ((e =? 101) || (e =? 69)) eqn:Ee; [|congruence].
  destruct (parse_exponent r3) as [x|] eqn:Ex; [|congruence].
  cbn [okrun]. rewrite (exponent_okrun _ _ Ex).
  assert (FmtShape.is_num_char e = true) as ->.
  { unfold FmtShape.is_num_char, FmtShape.is_name_char, FmtShape.is_name_start, FmtShape.is_alpha. lia. }
  reflexivity.
Qed.

Lemma decimal_okrun a v : parse_decimal a = Some v -> okrun a = true.
Proof.
  unfold parse_decimal. intros H. destruct (LuaLex.span LuaLex.is_digit a) as [ip r] eqn:E.
  pose proof (span_split _ _ _ _ E) as ->. pose proof (span_all _ _ _ _ E) as Hip.
  rewrite okrun_app_num by (apply digits_num_chars, Hip).
  destruct r as [|c r'].
  - reflexivity.
  - destruct (c =? 46) eqn:Ec.
    + apply Z.eqb_eq in Ec. subst c. destruct (LuaLex.span LuaLex.is_digit r') as [fp r2] eqn:E2.
      pose proof (span_split _ _ _ _ E2) as ->. pose proof (span_all _ _ _ _ E2) as Hfp.
      change (46 :: fp ++ r2) with ((46 :: fp) ++ r2).
      rewrite okrun_app_num by (cbn [forallb]; rewrite (digits_num_chars fp Hfp); reflexivity).
      destruct (nonempty ip || nonempty fp); [|discriminate].
      destruct r2 as [|e r3]; [reflexivity|].
      destruct ((e =? 101) || (e =? 69)) eqn:Ee; [|discriminate].
      destruct (parse_exponent r3) as [x|] eqn:Ex; [|discriminate].
      eapply (expo_tail_okrun e r3 (Some (0, 0))). rewrite Ee, Ex. discriminate.
    + destruct (nonempty ip || nonempty []); [|discriminate].
      destruct ((c =? 101) || (c =? 69)) eqn:Ee; [|discriminate].
      destruct (parse_exponent r') as [x|] eqn:Ex; [|discriminate].
      eapply (expo_tail_okrun c r' (Some (0, 0))). rewrite Ee, Ex. discriminate.
Qed.

Lemma based_num_chars base isd r v : (forall c, isd c = true -> FmtShape.is_num_char c = true) ->
  parse_based base isd r = Some v -> forallb FmtShape.is_num_char r = true.
Proof.
  intros Hg H. unfold parse_based in H. destruct (LuaLex.span isd r) as [ip r1] eqn:E.
  pose proof (span_split _ _ _ _ E) as ->. pose proof (span_all _ _ _ _ E) as Hip.
  rewrite forallb_app, (forallb_imp _ _ ip Hg Hip). cbn [andb].
  destruct r1 as [|c r']; [reflexivity|].
  destruct (c =? 46) eqn:Ec; [|discriminate]. destruct (LuaLex.span isd r') as [fp r''] eqn:E2.
  pose proof (span_split _ _ _ _ E2) as ->. pose proof (span_all _ _ _ _ E2) as Hfp.
  destruct (nonempty fp); [|discriminate]. destruct r'' as [|? ?]; [|discriminate].
  rewrite app_nil_r. cbn [forallb]. rewrite (forallb_imp _ _ fp Hg Hfp).
  apply Z.eqb_eq in Ec. subst c. reflexivity.
Qed.

Lemma numeral_okrun run v : LuaLex.spec_numeral run = Some v -> okrun run = true.
Proof.
  rewrite spec_numeral_eq. destruct run as [|c [|x r]]; try apply decimal_okrun.
  destruct (c =? 48) eqn:Ec; [|apply decimal_okrun].
  destruct ((x =? 120) || (x =? 88)) eqn:Ex.
  - intros H. apply okrun_all. cbn [forallb]. rewrite (based_num_chars _ _ _ _ hex_num_char H).
    unfold FmtShape.is_num_char, FmtShape.is_name_char, FmtShape.is_name_start, FmtShape.is_alpha, FmtShape.is_digit. lia.
  - destruct ((x =? 98) || (x =? 66)) eqn:Eb; [|apply decimal_okrun].
    intros H. apply okrun_all. cbn [forallb]. rewrite (based_num_chars _ _ _ _ bin_num_char H).
    unfold FmtShape.is_num_char, FmtShape.is_name_char, FmtShape.is_name_start, FmtShape.is_alpha, FmtShape.is_digit. lia.
Qed.

(* ---------- quoted strings ---------- *)
Lemma scan_bs q e r :
  FmtShape.scan_quoted q (92 :: e :: r) =
  match FmtShape.scan_quoted q r with Some (a, b) => Some (92 :: e :: a, b) | None => None end.
Proof. reflexivity. Qed.

Lemma scan_plain q c r : (c =? 92) = false -> (c =? q) = false -> is_eol c = false ->
  FmtShape.scan_quoted q (c :: r) =
  match FmtShape.scan_quoted q r with Some (a, b) => Some (c :: a, b) | None => None end.
Proof.
  intros H1 H2 H3. cbn [FmtShape.scan_quoted]. unfold FmtShape.cBSL, FmtShape.cNL, FmtShape.cCR.
  unfold is_eol in H3. rewrite H1, H2, H3. reflexivity.
Qed.

Lemma scan_eol q c r : (c =? 92) = false -> (c =? q) = false -> is_eol c = true ->
  FmtShape.scan_quoted q (c :: r) = None.
Proof.
  intros H1 H2 H3. cbn [FmtShape.scan_quoted]. unfold FmtShape.cBSL, FmtShape.cNL, FmtShape.cCR.
  unfold is_eol in H3. rewrite H1, H2, H3. reflexivity.
Qed.

Lemma scan_close q r : (q =? 92) = false -> FmtShape.scan_quoted q (q :: r) = Some ([q], r).
Proof.
  intros H1. cbn [FmtShape.scan_quoted]. unfold FmtShape.cBSL. rewrite H1, Z.eqb_refl. reflexivity.
Qed.

(* the common last step: the consumed prefix is the same, then the induction hypothesis *)
Lemma quoted_fin q pre x r' v raw rest a b :
  (forall v raw rest a b, unescape_until q r' = Some (v, raw, rest) ->
     FmtShape.scan_quoted q r' = Some (a, b) -> a = raw /\ b = rest) ->
  ucons pre x (unescape_until q r') = Some (v, raw, rest) ->
  match FmtShape.scan_quoted q r' with Some (a', b') => Some (pre ++ a', b') | None => None end = Some (a, b) ->
  a = raw /\ b = rest.
Proof.
  intros IH Hu Hs. apply ucons_inv in Hu. destruct Hu as (v' & raw' & Hu & _ & ->).
  destruct (FmtShape.scan_quoted q r') as [[a' b']|] eqn:E; [|discriminate]. injection Hs as <- <-.
  destruct (IH _ _ _ _ _ Hu eq_refl) as [-> ->]. split; reflexivity.
Qed.

Lemma digit_plain q c : (q = 34 \/ q = 39) -> LuaLex.is_digit c = true ->
  (c =? 92) = false /\ (c =? q) = false /\ is_eol c = false.
Proof. unfold LuaLex.is_digit, is_eol. intros Hq H. repeat split; lia. Qed.

Lemma hex_plain q c : (q = 34 \/ q = 39) -> is_hex c = true ->
  (c =? 92) = false /\ (c =? q) = false /\ is_eol c = false.
Proof. unfold is_hex, LuaLex.is_digit, is_lower_hex, is_upper_hex, is_eol. intros Hq H. repeat split; lia. Qed.

Lemma quoted_extent_n q : (q = 34 \/ q = 39) -> forall n s v raw rest a b, (length s <= n)%nat ->
  unescape_until q s = Some (v, raw, rest) ->
  FmtShape.scan_quoted q s = Some (a, b) -> a = raw /\ b = rest.
Proof.
  intros Hq. assert (Hq92 : (q =? 92) = false) by lia.
  induction n as [|n IH]; intros s v raw rest a b Hl H1 H2.
  - destruct s; [discriminate | cbn in Hl; lia].
  - destruct s as [|c r]; [discriminate|]. cbn [length] in Hl.
    assert (IH' : forall r', (length r' <= n)%nat -> forall v raw rest a b,
              unescape_until q r' = Some (v, raw, rest) ->
              FmtShape.scan_quoted q r' = Some (a, b) -> a = raw /\ b = rest).
    { intros r' Hr' v0 raw0 rest0 a0 b0. apply IH, Hr'. }
    rewrite unescape_eq in H1.
    destruct (c =? q) eqn:Ecq.
    { apply Z.eqb_eq in Ecq. subst c. injection H1 as _ <- <-. rewrite scan_close in H2 by exact Hq92.
      injection H2 as <- <-. split; reflexivity. }
    destruct (is_eol c) eqn:Eeol; [discriminate|].
    destruct (c =? 92) eqn:Ebs.
    2:{ rewrite (scan_plain q c r Ebs Ecq Eeol) in H2.
        eapply (quoted_fin q [c] c r); [apply IH'; lia | exact H1 | exact H2]. }
    apply Z.eqb_eq in Ebs. subst c.
    destruct r as [|e r1]; [discriminate|]. cbn [length] in *. rewrite scan_bs in H2.
    destruct (LuaLex.is_digit e) eqn:Ed1.
    { destruct r1 as [|e2 r2]; [cbn in H1; discriminate|]. cbn [length] in *.
      destruct (LuaLex.is_digit e2) eqn:Ed2.
      2:{ eapply (quoted_fin q [92; e] _ (e2 :: r2)); [apply IH'; cbn [length]; lia | exact H1 | exact H2]. }
      destruct (digit_plain q e2 Hq Ed2) as (P1 & P2 & P3). rewrite (scan_plain q e2 r2 P1 P2 P3) in H2.
      destruct r2 as [|e3 r3]; [cbn in H1; discriminate|]. cbn [length] in *.
      destruct (LuaLex.is_digit e3) eqn:Ed3.
      2:{ eapply (quoted_fin q [92; e; e2] _ (e3 :: r3)); [apply IH'; cbn [length]; lia | exact H1 |].
          destruct (FmtShape.scan_quoted q (e3 :: r3)) as [[a' b']|]; exact H2. }
      destruct (digit_plain q e3 Hq Ed3) as (Q1 & Q2 & Q3). rewrite (scan_plain q e3 r3 Q1 Q2 Q3) in H2.
      cbv zeta in H1. destruct (_ <=? 255) eqn:Ev; [|discriminate].
      eapply (quoted_fin q [92; e; e2; e3] _ r3); [apply IH'; lia | exact H1 |].
      destruct (FmtShape.scan_quoted q r3) as [[a' b']|]; exact H2. }
    destruct (e =? 120) eqn:Ex.
    { destruct r1 as [|h1 [|h2 r3]]; try discriminate. cbn [length] in *.
      destruct (is_hex h1 && is_hex h2) eqn:Eh; [|discriminate].
      apply andb_true_iff in Eh. destruct Eh as [Eh1 Eh2].
      destruct (hex_plain q h1 Hq Eh1) as (P1 & P2 & P3). rewrite (scan_plain q h1 _ P1 P2 P3) in H2.
      destruct (hex_plain q h2 Hq Eh2) as (Q1 & Q2 & Q3). rewrite (scan_plain q h2 _ Q1 Q2 Q3) in H2.
      eapply (quoted_fin q [92; e; h1; h2] _ r3); [apply IH'; lia | exact H1 |].
      destruct (FmtShape.scan_quoted q r3) as [[a' b']|]; exact H2. }
    destruct (e =? 10) eqn:E10.
    { destruct r1 as [|e2 r2]; [cbn in H1; discriminate|]. cbn [length] in *.
      destruct (e2 =? 13) eqn:E13.
      - exfalso. rewrite (scan_eol q e2 r2) in H2; [discriminate | lia | lia | unfold is_eol; lia].
      - eapply (quoted_fin q [92; e] _ (e2 :: r2)); [apply IH'; cbn [length]; lia | exact H1 | exact H2]. }
    destruct (e =? 13) eqn:E13.
    { destruct r1 as [|e2 r2]; [cbn in H1; discriminate|]. cbn [length] in *.
      destruct (e2 =? 10) eqn:E10'.
      - exfalso. rewrite (scan_eol q e2 r2) in H2; [discriminate | lia | lia | unfold is_eol; lia].
      - eapply (quoted_fin q [92; e] _ (e2 :: r2)); [apply IH'; cbn [length]; lia | exact H1 | exact H2]. }
    destruct (simple_escape e) as [sv|] eqn:Ese; [|discriminate].
    eapply (quoted_fin q [92; e] _ r1); [apply IH'; lia | exact H1 | exact H2].
Qed.

(* quoted strings: when both scans succeed they stop at the same place.
   The hypothesis on q is needed: with q = 49 ("1") and s = \11A1 the reference lexer reads the
   decimal escape \11 and goes on to the final 1, the coarse scan stops at the first 1 after the
   backslash-escaped byte. *)
Lemma quoted_extent q : (q = 34 \/ q = 39) -> forall s v raw rest a b,
  LuaLex.unescape_until q s = Some (v, raw, rest) ->
  FmtShape.scan_quoted q s = Some (a, b) -> a = raw /\ b = rest.
Proof. intros Hq s v raw rest a b. apply (quoted_extent_n q Hq (length s)), le_n. Qed.

(* the statement without the hypothesis on q is false *)
Lemma quoted_extent_needs_quote :
  unescape_until 49 [92; 49; 49; 65; 49] = Some ([11; 65], [92; 49; 49; 65; 49], []) /\
  FmtShape.scan_quoted 49 [92; 49; 49; 65; 49] = Some ([92; 49; 49], [65; 49]).
Proof. split; reflexivity. Qed.
