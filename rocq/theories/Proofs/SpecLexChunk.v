(* Chunking of the reference tokenizer Spec/LuaLex.v (used by C14's token-level theorem):
   a token that does not reach the end of the text is read the same way whatever follows the text
   ([step_local]); a text that ends in a line feed and lexes, followed by a text that lexes, lexes to
   the concatenation of the two token lists ([spec_toks_app]); a final line feed adds one newline
   token ([spec_toks_final_lf]).  Built on the inversion and context lemmas of Proofs/LuaLexFacts.v. *)
From PV Require Import Base.Prelude Spec.LuaLex Instances.HoldsC02 Instances.HoldsC01 Proofs.LuaLexFacts.
From Coq Require Import ZifyBool Lia.

(* ---------- pieces ---------- *)
Lemma long_open_none_ctx : forall x n c y0 y, (c =? 61) = false -> (c =? 91) = false ->
  long_open (x ++ c :: y0) n = None -> long_open (x ++ c :: y) n = None.
Proof.
  induction x as [|d x IH]; intros n c y0 y H1 H2 H; cbn [app] in *; rewrite long_open_eq.
  - rewrite H1, H2. reflexivity.
  - rewrite long_open_eq in H. destruct (d =? 61); [eapply IH; eassumption|].
    destruct (d =? 91); [discriminate | reflexivity].
Qed.

Lemma is_eol_not_bracket c : is_eol c = true -> (c =? 61) = false /\ (c =? 91) = false.
Proof. unfold is_eol. intros H. split; lia. Qed.

Lemma unescape_raw_end q : forall n s v raw rest, (length s <= n)%nat ->
  unescape_until q s = Some (v, raw, rest) -> exists raw', raw = raw' ++ [q].
Proof.
  induction n as [|n IH]; intros s v raw rest Hl H.
  - destruct s; [discriminate | cbn in Hl; lia].
  - destruct s as [|c r]; [discriminate|]. cbn [unescape_until] in H. cbn [length] in Hl.
    destruct (c =? q) eqn:Ecq.
    { apply Z.eqb_eq in Ecq. subst c. injection H as _ <- _. exists []. reflexivity. }
    break_match H.
    all: apply ucons_inv in H; destruct H as (v' & raw' & H & _ & ->).
    all: apply IH in H; [|cbn [length] in *; lia].
    all: destruct H as (raw'' & ->); eexists; rewrite app_assoc; reflexivity.
Qed.

(* one unfolding of unescape_until (as in Proofs/MinifyRelex.v) *)
Lemma unescape_eq q c r :
  unescape_until q (c :: r) =
    if c =? q then Some ([], [c], r)
    else if is_eol c then None
    else if c =? 92 then
      match r with
      | [] => None
      | e :: r1 =>
        if is_digit e then
          match r1 with
          | e2 :: r2 =>
            if is_digit e2 then
              match r2 with
              | e3 :: r3 =>
                if is_digit e3 then
                  let v := (e - 48) * 100 + (e2 - 48) * 10 + (e3 - 48) in
                  if v <=? 255 then ucons [c; e; e2; e3] v (unescape_until q r3) else None
                else ucons [c; e; e2] ((e - 48) * 10 + (e2 - 48)) (unescape_until q r2)
              | [] => ucons [c; e; e2] ((e - 48) * 10 + (e2 - 48)) (unescape_until q r2)
              end
            else ucons [c; e] (e - 48) (unescape_until q r1)
          | [] => ucons [c; e] (e - 48) (unescape_until q r1)
          end
        else if e =? 120 then
          match r1 with
          | h1 :: h2 :: r3 =>
            if is_hex h1 && is_hex h2 then ucons [c; e; h1; h2] (digit_val h1 * 16 + digit_val h2) (unescape_until q r3) else None
          | _ => None
          end
        else if e =? 10 then
          match r1 with
          | e2 :: r2 => if e2 =? 13 then ucons [c; e; 13] 10 (unescape_until q r2)
                        else ucons [c; e] 10 (unescape_until q r1)
          | [] => ucons [c; e] 10 (unescape_until q r1)
          end
        else if e =? 13 then
          match r1 with
          | e2 :: r2 => if e2 =? 10 then ucons [c; e; 10] 10 (unescape_until q r2)
                        else ucons [c; e] 10 (unescape_until q r1)
          | [] => ucons [c; e] 10 (unescape_until q r1)
          end
        else
          match simple_escape e with
          | Some v => ucons [c; e] v (unescape_until q r1)
          | None => None
          end
      end
    else ucons [c] c (unescape_until q r).
Proof. reflexivity. Qed.

Lemma unescape_raw_head q x r v raw rest :
  unescape_until q (x :: r) = Some (v, raw, rest) -> exists raw', raw = x :: raw'.
Proof.
  intros H. pose proof (unescape_split q _ _ _ _ _ (le_n _) H) as Hsp.
  destruct (unescape_raw_end q _ _ _ _ _ (le_n _) H) as (raw0 & ->).
  destruct raw0 as [|y raw0]; cbn [app] in Hsp; injection Hsp as -> _; eexists; reflexivity.
Qed.

(* a quoted string is read up to its closing quote; what follows the quote does not matter *)
Lemma unescape_tail q : forall n s v raw rest, (length s <= n)%nat ->
  unescape_until q s = Some (v, raw, rest) ->
  forall R, unescape_until q (raw ++ R) = Some (v, raw, R).
Proof.
  induction n as [|n IH]; intros s v raw rest Hl H R.
  - destruct s; [discriminate | cbn in Hl; lia].
  - destruct s as [|c r]; [discriminate|]. cbn [length] in Hl.
    (* the recursive call, for the text r' that follows the consumed prefix *)
    assert (IH' : forall pre x r', (length r' <= n)%nat ->
              ucons pre x (unescape_until q r') = Some (v, raw, rest) ->
              exists v' raw', v = x :: v' /\ raw = pre ++ raw' /\ unescape_until q r' = Some (v', raw', rest) /\
                              unescape_until q (raw' ++ R) = Some (v', raw', R)).
    { intros pre x r' Hr' Hu. apply ucons_inv in Hu. destruct Hu as (v' & raw' & Hu & -> & ->).
      exists v', raw'. repeat split; try assumption. eapply IH; eassumption. }
    cbn [unescape_until] in H.
    destruct (c =? q) eqn:Ecq.
    { injection H as <- <- <-. cbn [app]. rewrite unescape_eq. cbv beta iota zeta. rewrite Ecq. reflexivity. }
    destruct (is_eol c) eqn:Eeol; [discriminate|].
    destruct (c =? 92) eqn:Ebs.
    2:{ destruct (IH' _ _ r ltac:(lia) H) as (v' & raw' & -> & -> & _ & Hu).
        cbn [app]. rewrite unescape_eq. cbv beta iota zeta. rewrite Ecq, Eeol, Ebs, Hu. reflexivity. }
    destruct r as [|e r1]; [discriminate|]. cbn [length] in *.
    destruct (is_digit e) eqn:Ed1.
    { destruct r1 as [|e2 r2]; [cbn in H; discriminate|]. cbn [length] in *.
      destruct (is_digit e2) eqn:Ed2.
      2:{ destruct (IH' _ _ (e2 :: r2) ltac:(cbn [length]; lia) H) as (v' & raw' & -> & -> & Hu0 & Hu).
          destruct (unescape_raw_head _ _ _ _ _ _ Hu0) as (raw'' & ->).
          cbn [app]. rewrite unescape_eq. cbv beta iota zeta. rewrite Ecq, Eeol, Ebs, Ed1, Ed2. cbn [app] in Hu. rewrite Hu. reflexivity. }
      destruct r2 as [|e3 r3]; [cbn in H; discriminate|]. cbn [length] in *.
      destruct (is_digit e3) eqn:Ed3.
      2:{ destruct (IH' _ _ (e3 :: r3) ltac:(cbn [length]; lia) H) as (v' & raw' & -> & -> & Hu0 & Hu).
          destruct (unescape_raw_head _ _ _ _ _ _ Hu0) as (raw'' & ->).
          cbn [app]. rewrite unescape_eq. cbv beta iota zeta. rewrite Ecq, Eeol, Ebs, Ed1, Ed2, Ed3. cbn [app] in Hu. rewrite Hu. reflexivity. }
      destruct (_ <=? 255) eqn:Ev; [|discriminate].
      destruct (IH' _ _ r3 ltac:(lia) H) as (v' & raw' & -> & -> & _ & Hu).
      cbn [app]. rewrite unescape_eq. cbv beta iota zeta. rewrite Ecq, Eeol, Ebs, Ed1, Ed2, Ed3, Ev, Hu. reflexivity. }
    destruct (e =? 120) eqn:Ex.
    { destruct r1 as [|h1 [|h2 r3]]; try discriminate. cbn [length] in *.
      destruct (is_hex h1 && is_hex h2) eqn:Eh; [|discriminate].
      destruct (IH' _ _ r3 ltac:(lia) H) as (v' & raw' & -> & -> & _ & Hu).
      cbn [app]. rewrite unescape_eq. cbv beta iota zeta. rewrite Ecq, Eeol, Ebs, Ed1, Ex, Eh, Hu. reflexivity. }
    destruct (e =? 10) eqn:E10.
    { destruct r1 as [|e2 r2]; [cbn in H; discriminate|]. cbn [length] in *.
      destruct (e2 =? 13) eqn:E13.
      - destruct (IH' _ _ r2 ltac:(lia) H) as (v' & raw' & -> & -> & _ & Hu).
        apply Z.eqb_eq in E13. subst e2.
        cbn [app]. rewrite unescape_eq. cbv beta iota zeta. rewrite Ecq, Eeol, Ebs, Ed1, Ex, E10. cbn [Z.eqb Pos.eqb]. rewrite Hu. reflexivity.
      - destruct (IH' _ _ (e2 :: r2) ltac:(cbn [length]; lia) H) as (v' & raw' & -> & -> & Hu0 & Hu).
        destruct (unescape_raw_head _ _ _ _ _ _ Hu0) as (raw'' & ->).
        cbn [app]. rewrite unescape_eq. cbv beta iota zeta. rewrite Ecq, Eeol, Ebs, Ed1, Ex, E10, E13. cbn [app] in Hu. rewrite Hu. reflexivity. }
    destruct (e =? 13) eqn:E13.
    { destruct r1 as [|e2 r2]; [cbn in H; discriminate|]. cbn [length] in *.
      destruct (e2 =? 10) eqn:E10'.
      - destruct (IH' _ _ r2 ltac:(lia) H) as (v' & raw' & -> & -> & _ & Hu).
        apply Z.eqb_eq in E10'. subst e2.
        cbn [app]. rewrite unescape_eq. cbv beta iota zeta. rewrite Ecq, Eeol, Ebs, Ed1, Ex, E10, E13. cbn [Z.eqb Pos.eqb]. rewrite Hu. reflexivity.
      - destruct (IH' _ _ (e2 :: r2) ltac:(cbn [length]; lia) H) as (v' & raw' & -> & -> & Hu0 & Hu).
        destruct (unescape_raw_head _ _ _ _ _ _ Hu0) as (raw'' & ->).
        cbn [app]. rewrite unescape_eq. cbv beta iota zeta. rewrite Ecq, Eeol, Ebs, Ed1, Ex, E10, E13, E10'. cbn [app] in Hu. rewrite Hu. reflexivity. }
    destruct (simple_escape e) as [sv|] eqn:Ese; [|discriminate].
    destruct (IH' _ _ r1 ltac:(lia) H) as (v' & raw' & -> & -> & _ & Hu).
    cbn [app]. rewrite unescape_eq. cbv beta iota zeta. rewrite Ecq, Eeol, Ebs, Ed1, Ex, E10, E13, Ese, Hu. reflexivity.
Qed.

Lemma unescape_ctx q n s v raw rest : (length s <= n)%nat ->
  unescape_until q s = Some (v, raw, rest) ->
  forall b, unescape_until q (s ++ b) = Some (v, raw, rest ++ b).
Proof.
  intros Hl H b. rewrite (unescape_split q _ _ _ _ _ Hl H), <- app_assoc. eapply unescape_tail; eassumption.
Qed.

(* white space *)
Lemma spec_step_space a rest : a <> [] -> forallb is_blank a = true -> stops is_blank rest ->
  spec_step (a ++ rest) = Some (mk SSpace a a, rest).
Proof.
  intros Hne Ha Hr. destruct a as [|c a']; [congruence|]. pose proof Ha as Hall.
  cbn [forallb] in Ha. apply andb_true_iff in Ha. destruct Ha as [Hc _].
  cbn [app]. unfold spec_step. rewrite Hc.
  change (c :: a' ++ rest) with ((c :: a') ++ rest). rewrite (span_ctx is_blank (c :: a') rest Hall Hr).
  reflexivity.
Qed.

(* every proper prefix of length >= 2 of a symbol is a symbol *)
Definition prefixes_ok (y : list Z) : bool :=
  forallb (fun k => mem_bytes (firstn k y) spec_symbols) (seq 2 (length y - 2)).

Lemma symbols_prefix_closed : forallb prefixes_ok spec_symbols = true.
Proof. vm_compute. reflexivity. Qed.

Lemma symbol_prefix y k : In y spec_symbols -> (2 <= k < length y)%nat -> In (firstn k y) spec_symbols.
Proof.
  intros Hy Hk. pose proof symbols_prefix_closed as H. rewrite forallb_forall in H. specialize (H y Hy).
  unfold prefixes_ok in H. rewrite forallb_forall in H. specialize (H k).
  assert (Hin : In k (seq 2 (length y - 2))) by (apply in_seq; lia).
  specialize (H Hin). unfold mem_bytes in H. apply existsb_exists in H. destruct H as (z & Hz & E).
  apply zlist_eqb_eq in E. rewrite E. exact Hz.
Qed.

Lemma starts_with_shorter y s b : starts_with y (s ++ b) = true -> (length y <= length s)%nat ->
  starts_with y s = true.
Proof.
  intros H Hl. apply starts_with_app in H. destruct H as (r & E). apply starts_with_app.
  exists (skipn (length y) s).
  assert (E1 : firstn (length y) (s ++ b) = y) by (rewrite E, firstn_app, Nat.sub_diag, firstn_all; cbn; apply app_nil_r).
  rewrite firstn_app in E1. replace (length y - length s)%nat with O in E1 by lia. cbn in E1. rewrite app_nil_r in E1.
  rewrite <- E1 at 1. symmetry. apply firstn_skipn.
Qed.

Lemma starts_with_longer y s b : starts_with y (s ++ b) = true -> (length s <= length y)%nat ->
  s = firstn (length s) y.
Proof.
  intros H Hl. apply starts_with_app in H. destruct H as (r & E).
  assert (E1 : firstn (length s) (s ++ b) = firstn (length s) (y ++ r)) by (rewrite E; reflexivity).
  rewrite firstn_app, Nat.sub_diag, firstn_all in E1. cbn in E1. rewrite app_nil_r in E1.
  rewrite firstn_app in E1. replace (length s - length y)%nat with O in E1 by lia. cbn in E1. rewrite app_nil_r in E1.
  exact E1.
Qed.

(* spec_step on an opening bracket / on two colons, as equations *)
Lemma bracket_eq r :
  spec_step (91 :: r) =
  match long_open r 0 with
  | Some (lvl, r2) =>
    match long_body (Z.to_nat lvl) r2 with
    | Some (b, cl, rest) =>
      Some (mk_stok SString (91 :: repeat 61 (Z.to_nat lvl) ++ 91 :: b ++ cl) (long_string_value b) 0 1 lvl 0 0, rest)
    | None => None
    end
  | None => match r with 61 :: _ => None | _ => spec_symbol (91 :: r) end
  end.
Proof. reflexivity. Qed.

Lemma colons_eq r2 :
  spec_step (58 :: 58 :: r2) =
  let '(a, b) := span is_name_char r2 in
  match a, strip_prefix [58; 58] b with
  | n0 :: _, Some rest =>
    if is_name_start n0 then Some (mk SLabel (58 :: 58 :: a ++ [58; 58]) a, rest) else None
  | _, _ => None
  end.
Proof. reflexivity. Qed.

(* ---------- a token that does not reach the end of the text is read the same way whatever follows ---------- *)
Lemma symbol_ctx s t c r0 R :
  spec_step s = Some (t, c :: r0) -> spec_symbol s = Some (t, c :: r0) ->
  spec_step (s_raw t ++ c :: R) = Some (t, c :: R).
Proof.
  intros H Hs. destruct (spec_symbol_inv _ _ _ Hs) as (x & Hin & -> & ->). cbn [s_raw mk].
  assert (Hx : x <> []).
  { intros ->. unfold spec_symbols, bs_ in Hin. cbn in Hin. repeat (destruct Hin as [Hin|Hin]; [discriminate|]). exact Hin. }
  (* x is the longest symbol at the head of the source text *)
  assert (Hlong : forall y, In y spec_symbols -> starts_with y (x ++ c :: r0) = true -> (length y <= length x)%nat).
  { unfold spec_symbol in Hs.
    destruct (longest_match spec_symbols (x ++ c :: r0)) as [x'|] eqn:E; [|discriminate].
    destruct (lm_some _ _ _ E) as (Hx' & Hx's & Hx'max).
    assert (x' = x).
    { destruct (strip_prefix x' (x ++ c :: r0)) as [r|] eqn:Es; [|discriminate].
      rewrite match61 in Hs.
      assert (Et : mk SSymbol x' x' = mk SSymbol x x)
        by (destruct (hd61 r); [destruct (mem_bytes x' later_compound_bases); [discriminate|]|]; congruence).
      apply (f_equal s_raw) in Et. exact Et. }
    subst x'. exact Hx'max. }
  (* hence also at the head of the new text: a longer symbol would make x ++ [c] a symbol *)
  assert (Hmax : forall y, In y spec_symbols -> starts_with y (x ++ c :: R) = true -> (length y <= length x)%nat).
  { intros y Hy Hsw. destruct (Nat.le_gt_cases (length y) (length x)) as [Hle|Hgt]; [exact Hle|]. exfalso.
    assert (Hpre : x ++ [c] = firstn (length (x ++ [c])) y).
    { replace (x ++ c :: R) with ((x ++ [c]) ++ R) in Hsw by (rewrite <- app_assoc; reflexivity).
      apply (starts_with_longer _ _ _ Hsw). rewrite app_length. cbn [length]. lia. }
    assert (Hsym : In (x ++ [c]) spec_symbols).
    { destruct (Nat.eq_dec (length (x ++ [c])) (length y)) as [El|Nl].
      - rewrite Hpre, El, firstn_all. exact Hy.
      - rewrite Hpre. apply symbol_prefix; [exact Hy|]. rewrite app_length in *. cbn [length] in *.
        destruct x; [congruence|]. cbn [length] in *. lia. }
    assert (Hsw' : starts_with (x ++ [c]) (x ++ c :: r0) = true).
    { apply starts_with_app. exists r0. rewrite <- app_assoc. reflexivity. }
    specialize (Hlong _ Hsym Hsw'). rewrite app_length in Hlong. cbn [length] in Hlong. lia. }
  (* the later-compound test looks at c only *)
  assert (Hl : (mem_bytes x later_compound_bases && hd61 (c :: R)) = false).
  { unfold spec_symbol in Hs.
    destruct (longest_match spec_symbols (x ++ c :: r0)) as [x'|] eqn:E; [|discriminate].
    destruct (strip_prefix x' (x ++ c :: r0)) as [r|] eqn:Es; [|discriminate].
    rewrite match61 in Hs. apply strip_prefix_split in Es.
    destruct (hd61 r) eqn:Eh.
    - destruct (mem_bytes x' later_compound_bases) eqn:Em; [discriminate|].
      assert (Et : mk SSymbol x' x' = mk SSymbol x x) by congruence. apply (f_equal s_raw) in Et. cbn in Et.
      subst x'. rewrite Em. reflexivity.
    - assert (Er : r = c :: r0) by congruence. subst r. cbn [hd61] in Eh. cbn [hd61]. rewrite Eh. apply andb_false_r. }
  (* the dispatch of spec_step looks at c only *)
  destruct (disp_ok x c) eqn:Ed.
  - rewrite spec_step_sym_dispatch; [|exact Hin | exact Ed]. apply spec_symbol_at; assumption.
  - exfalso. unfold disp_ok in Ed.
    repeat (apply andb_false_iff in Ed; destruct Ed as [Ed|Ed]); apply negb_false_iff in Ed;
      apply andb_true_iff in Ed; destruct Ed as [Ex Ec]; apply zlist_eqb_eq in Ex; subst x; cbn [app] in H.
    + apply Z.eqb_eq in Ec. subst c. rewrite dash_eq in H. unfold line_comment in H. break_match H; injection H as Ht _; discriminate Ht.
    + apply Z.eqb_eq in Ec. subst c. unfold spec_step, line_comment in H. cbn -[span] in H.
      destruct (span _ _) in H. injection H as Ht _. discriminate Ht.
    + rewrite bracket_eq in H. apply orb_true_iff in Ec. destruct Ec as [Ec|Ec]; apply Z.eqb_eq in Ec; subst c.
      * rewrite long_open_eq in H. cbn [Z.eqb Pos.eqb] in H. cbv iota in H.
        destruct (long_body _ _) as [[[b0 cl] rs]|] in H; [|discriminate]. injection H as Ht _. discriminate Ht.
      * destruct (long_open (61 :: r0) 0) as [[lvl r2]|]; [|discriminate].
        destruct (long_body _ _) as [[[b0 cl] rs]|] in H; [|discriminate]. injection H as Ht _. discriminate Ht.
    + rewrite spec_step_number in H by (cbn [num_start]; rewrite Ec; reflexivity).
      unfold spec_number in H. destruct (num_split _) as [run rs] in H.
      destruct (spec_numeral run) as [[n d]|]; [|discriminate]. injection H as Ht _. discriminate Ht.
    + apply Z.eqb_eq in Ec. subst c. rewrite colons_eq in H. destruct (span is_name_char r0) as [a0 b0] in H.
      break_match H; injection H as Ht _; discriminate Ht.
Qed.

Lemma not_eol_eol c : negb (is_eol c) = false -> is_eol c = true.
Proof. destruct (is_eol c); [reflexivity | discriminate]. Qed.

(* a token that does not reach the end of the text is read the same way in front of ANY text that
   starts with the same byte as the text that followed it *)
Theorem step_ctx s t c r0 R :
  spec_step s = Some (t, c :: r0) -> spec_step (s_raw t ++ c :: R) = Some (t, c :: R).
Proof.
  intros H. pose proof (spec_step_shape _ _ _ H) as Sh.
  destruct (spec_step_split _ _ _ H) as (Hsplit & Hne).
  remember (c :: r0) as rest0 eqn:Erest. destruct Sh.
  - (* white space *)
    pose proof (span_all _ _ _ _ H1) as Hall. pose proof (span_stop _ _ _ _ H1) as Hst.
    cbn [s_raw mk]. apply spec_step_space; [exact Hne | exact Hall |]. subst rest. exact Hst.
  - reflexivity.
  - reflexivity.
  - (* block comment *)
    destruct (long_open_spec _ _ _ _ H0) as (k & Hk & ->). assert (k = O) by lia. subst k. cbn [repeat app].
    destruct (long_body_ctx _ _ _ _ _ H1) as (_ & Hr4 & Hctx). subst r4.
    cbn [s_raw mk]. cbn [app]. rewrite dash_eq. cbn [Z.eqb Pos.eqb]. rewrite long_open_eq. cbn [Z.eqb Pos.eqb].
    rewrite <- !app_assoc. rewrite Hctx. reflexivity.
  - (* -- line comment *)
    fold not_eol in H1. pose proof (span_all _ _ _ _ H1) as Hall. pose proof (span_stop _ _ _ _ H1) as Hst.
    subst rest. cbn [stops] in Hst.
    assert (Heol : is_eol c = true) by (apply not_eol_eol, Hst).
    destruct (is_eol_not_bracket c Heol) as (Hc1 & Hc2).
    cbn [span] in H1. change (not_eol 45) with true in H1. cbv iota in H1.
    destruct (span not_eol r2) as [a' b'] eqn:E. injection H1 as <- ->.
    pose proof (span_split _ _ _ _ E) as Hr2. subst r2.
    cbn [s_raw mk app]. rewrite dash_eq.
    assert (Hn : match a' ++ c :: R with d :: r3 => if d =? 91 then long_open r3 0 else None | [] => None end = None).
    { destruct a' as [|d a'']; cbn [app].
      - replace (c =? 91) with false. reflexivity.
      - destruct (d =? 91) eqn:Ed; [|reflexivity]. apply Z.eqb_eq in Ed. subst d. cbn [app] in H0.
        eapply long_open_none_ctx; eassumption. }
    rewrite Hn. unfold line_comment. fold not_eol.
    change (45 :: 45 :: a' ++ c :: R) with ((45 :: 45 :: a') ++ c :: R).
    rewrite (span_ctx not_eol (45 :: 45 :: a') (c :: R) Hall Hst). reflexivity.
  - (* // line comment *)
    fold not_eol in H0. pose proof (span_all _ _ _ _ H0) as Hall. pose proof (span_stop _ _ _ _ H0) as Hst.
    subst rest. cbn [stops] in Hst.
    destruct a as [|a1 [|a2 a']]; cbn [span] in H0; change (not_eol 47) with true in H0; cbv iota in H0;
      destruct (span not_eol r2) as [a'' b''] in H0; try discriminate H0.
    injection H0 as <- <- _ _. cbn [s_raw mk app].
    change (spec_step (47 :: 47 :: a' ++ c :: R)) with (line_comment ((47 :: 47 :: a') ++ c :: R)).
    unfold line_comment. fold not_eol.
    rewrite (span_ctx not_eol (47 :: 47 :: a') (c :: R) Hall Hst). reflexivity.
  - (* long string *)
    cbn [s_raw]. eapply long_string_ctx; eassumption.
  - (* quoted string *)
    pose proof (unescape_tail q (length r) r v raw rest (le_n _) H1 (c :: R)) as Hu.
    cbn [s_raw app]. destruct H0 as [-> | ->]; unfold spec_step; cbn -[unescape_until app]; rewrite Hu; reflexivity.
  - (* number *)
    subst rest. eapply spec_number_local; eassumption.
  - (* name / keyword *)
    destruct (word_shape _ _ _ _ H0 H1) as (Hn & Hs & Hst).
    assert (Hraw : s_raw (mk (if mem_bytes a spec_keywords then SKeyword else SName) a a) = a) by reflexivity.
    rewrite Hraw. apply spec_step_word; [exact Hn|]. subst rest. exact Hst.
  - (* label *)
    pose proof (span_all _ _ _ _ H0) as Hall.
    cbn [s_raw mk app]. rewrite <- app_assoc. cbn [app].
    apply (spec_step_label (n0 :: a) (c :: R)). cbn [is_name]. rewrite H1. cbn [forallb] in Hall.
    apply andb_true_iff in Hall. apply Hall.
  - reflexivity.
  - (* symbol *)
    subst rest. eapply symbol_ctx; eassumption.
Qed.

Theorem step_local s t c r0 b :
  spec_step s = Some (t, c :: r0) -> spec_step (s ++ b) = Some (t, (c :: r0) ++ b).
Proof.
  intros H. destruct (spec_step_split _ _ _ H) as (Hsplit & _).
  rewrite Hsplit at 1. rewrite <- app_assoc. cbn [app]. eapply step_ctx, H.
Qed.

(* ---------- a token that reaches the end of the text ---------- *)
Lemma all_last (p : Z -> bool) l d : l <> [] -> forallb p l = true -> p (last l d) = true.
Proof.
  intros Hne Hall. destruct (forallb_last p l) as (q & c & -> & Hc); [destruct l; [congruence | reflexivity] | exact Hall|].
  rewrite last_last. exact Hc.
Qed.

Lemma symbols_no_lf : forallb (fun x => negb (last x 0 =? 10)) spec_symbols = true.
Proof. vm_compute. reflexivity. Qed.

Lemma symbols_safe_lf : forallb (fun x => sym_safe x 10) spec_symbols = true.
Proof. vm_compute. reflexivity. Qed.

Lemma last_app_ne {A} (x y : list A) d : y <> [] -> last (x ++ y) d = last y d.
Proof.
  intros Hy. induction x as [|a x IH]; [reflexivity|]. cbn [app].
  destruct (x ++ y) as [|a0 l] eqn:E; [destruct x; cbn in E; congruence|].
  change (last (a :: a0 :: l) d) with (last (a0 :: l) d). exact IH.
Qed.

Lemma last_closer n : last (closer n) 0 = 93.
Proof. unfold closer. change (93 :: repeat 61 n ++ [93]) with ((93 :: repeat 61 n) ++ [93]). apply last_last. Qed.

Lemma closer_ne n : closer n <> [].
Proof. discriminate. Qed.

(* the last token of a text that ends in a line feed is the line feed (or CR LF) *)
Lemma step_end_lf s t : spec_step s = Some (t, []) -> last s 0 = 10 -> s = [10] \/ s = [13; 10].
Proof.
  intros H Hlast. pose proof (spec_step_shape _ _ _ H) as Sh.
  destruct (spec_step_split _ _ _ H) as (Hsplit & Hne). rewrite app_nil_r in Hsplit.
  remember (@nil Z) as rest0 eqn:Erest. destruct Sh; try subst rest.
  - (* white space *) exfalso. pose proof (span_all _ _ _ _ H1) as Hall. pose proof (span_split _ _ _ _ H1) as Hsp.
    rewrite app_nil_r in Hsp. rewrite Hsp in Hlast. cbn [s_raw mk] in Hne.
    pose proof (all_last is_blank a 0 Hne Hall) as Hb. rewrite Hlast in Hb. discriminate.
  - left. reflexivity.
  - right. reflexivity.
  - (* block comment *) exfalso. destruct (long_body_ctx _ _ _ _ _ H1) as (Hcl & _ & _). cbn [s_raw mk] in Hsplit.
    rewrite Hsplit, Hcl in Hlast.
    change (45 :: 45 :: 91 :: 91 :: b ++ closer 0) with ((45 :: 45 :: 91 :: 91 :: b) ++ closer 0) in Hlast.
    rewrite last_app_ne, last_closer in Hlast by apply closer_ne. discriminate.
  - (* -- comment *) exfalso. pose proof (span_all _ _ _ _ H1) as Hall. pose proof (span_split _ _ _ _ H1) as Hsp.
    rewrite app_nil_r in Hsp. rewrite Hsp in Hlast. cbn [s_raw mk] in Hne.
    pose proof (all_last _ a 0 Hne Hall) as Hb. cbv beta in Hb. rewrite Hlast in Hb. discriminate.
  - (* // comment *) exfalso. pose proof (span_all _ _ _ _ H0) as Hall. pose proof (span_split _ _ _ _ H0) as Hsp.
    rewrite app_nil_r in Hsp. rewrite Hsp in Hlast. cbn [s_raw mk] in Hne.
    pose proof (all_last _ a 0 Hne Hall) as Hb. cbv beta in Hb. rewrite Hlast in Hb. discriminate.
  - (* long string *) exfalso. destruct (long_body_ctx _ _ _ _ _ H1) as (Hcl & _ & _). cbn [s_raw] in Hsplit.
    rewrite Hsplit, Hcl in Hlast.
    change (91 :: repeat 61 (Z.to_nat lvl) ++ 91 :: b ++ closer (Z.to_nat lvl))
      with ((91 :: repeat 61 (Z.to_nat lvl)) ++ (91 :: b) ++ closer (Z.to_nat lvl)) in Hlast.
    rewrite last_app_ne in Hlast by discriminate.
    rewrite last_app_ne, last_closer in Hlast by apply closer_ne. discriminate.
  - (* quoted *) exfalso. destruct (unescape_raw_end q _ _ _ _ _ (le_n _) H1) as (raw' & ->).
    pose proof (unescape_split q _ _ _ _ _ (le_n _) H1) as Hr. rewrite app_nil_r in Hr. subst r.
    change (q :: raw' ++ [q]) with ((q :: raw') ++ [q]) in Hlast. rewrite last_last in Hlast.
    destruct H0; subst q; discriminate.
  - (* number *) exfalso. unfold spec_number in H1. destruct (num_split _) as [run rs] eqn:En.
    destruct (spec_numeral run) as [[n d]|]; [|discriminate]. injection H1 as <- ->.
    pose proof (num_split_chars _ _ _ En) as Hall. cbn [s_raw] in Hsplit, Hne. subst s.
    pose proof (all_last _ run 0 Hne Hall) as Hb. cbv beta in Hb. rewrite Hlast in Hb. discriminate.
  - (* word *) exfalso. pose proof (span_all _ _ _ _ H1) as Hall. pose proof (span_split _ _ _ _ H1) as Hsp.
    rewrite app_nil_r in Hsp. rewrite Hsp in Hlast.
    assert (Hne' : a <> []) by (destruct (mem_bytes a spec_keywords); exact Hne).
    pose proof (all_last _ a 0 Hne' Hall) as Hb. rewrite Hlast in Hb. discriminate.
  - (* label *) exfalso. pose proof (span_split _ _ _ _ H0) as Hsp. subst r2.
    change (58 :: 58 :: (n0 :: a) ++ [58; 58]) with ((58 :: 58 :: n0 :: a) ++ [58; 58]) in Hlast.
    rewrite last_app_ne in Hlast by discriminate. discriminate.
  - (* ? *) discriminate Hlast.
  - (* symbol *) exfalso. destruct (spec_symbol_inv _ _ _ H0) as (x & Hin & _ & Hs). rewrite app_nil_r in Hs.
    pose proof symbols_no_lf as Hno. rewrite forallb_forall in Hno. specialize (Hno x Hin).
    rewrite Hs in Hlast. rewrite Hlast in Hno. discriminate.
Qed.

(* a token that reaches the end of the text is read the same way when a line feed follows *)
Theorem step_then_lf s t R : spec_step s = Some (t, []) -> spec_step (s ++ 10 :: R) = Some (t, 10 :: R).
Proof.
  intros H. pose proof (spec_step_shape _ _ _ H) as Sh.
  destruct (spec_step_split _ _ _ H) as (Hsplit & Hne). rewrite app_nil_r in Hsplit.
  pose proof (comment_ctx _ _ _ Sh) as Hcom.
  remember (@nil Z) as rest0 eqn:Erest. destruct Sh; try subst rest.
  - (* white space *)
    pose proof (span_all _ _ _ _ H1) as Hall. pose proof (span_split _ _ _ _ H1) as Hsp. rewrite app_nil_r in Hsp.
    rewrite Hsp. apply spec_step_space; [exact Hne | exact Hall | reflexivity].
  - reflexivity.
  - reflexivity.
  - rewrite Hsplit. apply Hcom. reflexivity.
  - rewrite Hsplit. apply Hcom. reflexivity.
  - rewrite Hsplit. apply Hcom. reflexivity.
  - (* long string *) cbn [s_raw] in Hsplit. rewrite Hsplit. eapply long_string_ctx; eassumption.
  - (* quoted string *)
    cbn [app]. pose proof (unescape_ctx q (length r) r v raw [] (le_n _) H1 (10 :: R)) as Hu. cbn [app] in Hu.
    destruct H0 as [-> | ->]; unfold spec_step; cbn -[unescape_until app]; rewrite Hu; reflexivity.
  - (* number *)
    destruct (spec_number_ctx _ _ _ H1) as (run & Hraw & Hrun & Hs & Hctx). rewrite app_nil_r in Hs.
    rewrite Hs. apply Hctx; [split; reflexivity | exact H0].
  - (* name / keyword *)
    destruct (word_shape _ _ _ _ H0 H1) as (Hn & Hs & _). rewrite app_nil_r in Hs. rewrite Hs.
    apply spec_step_word; [exact Hn | reflexivity].
  - (* label *)
    pose proof (span_all _ _ _ _ H0) as Hall. pose proof (span_split _ _ _ _ H0) as Hsp. subst r2.
    cbn [app]. rewrite <- app_assoc. cbn [app].
    apply (spec_step_label (n0 :: a) (10 :: R)). cbn [is_name]. rewrite H1. cbn [forallb] in Hall.
    apply andb_true_iff in Hall. apply Hall.
  - reflexivity.
  - (* symbol *)
    destruct (spec_symbol_inv _ _ _ H0) as (x & Hin & -> & Hs). rewrite app_nil_r in Hs. subst s.
    apply spec_step_symbol; [exact Hin|]. pose proof symbols_safe_lf as Hsafe. rewrite forallb_forall in Hsafe.
    apply Hsafe, Hin.
Qed.

(* ---------- whole texts ---------- *)
Lemma chain_nil_inv ts : chain [] ts -> ts = [].
Proof. intros H. inversion H; subst; [reflexivity | discriminate]. Qed.

Definition nl_tok10 : stok := mk SNewline [10] [10].

(* a text ending in a line feed, followed by another text *)
Theorem chain_app a ta : chain a ta -> (a = [] \/ last a 0 = 10) -> forall b tb, chain b tb ->
  chain (a ++ b) (ta ++ tb).
Proof.
  induction 1 as [|s t rest ts Hs Hc IH]; intros Hlf b tb Hb; [exact Hb|].
  destruct (spec_step_split _ _ _ Hs) as (Hsplit & Hne).
  assert (Hlast : last s 0 = 10).
  { destruct Hlf as [->|Hl]; [|exact Hl]. destruct (s_raw t); [congruence | discriminate Hsplit]. }
  destruct rest as [|c r0].
  - (* the last token: it is the line feed *)
    apply chain_nil_inv in Hc. subst ts. cbn [app].
    destruct (step_end_lf _ _ Hs Hlast) as [-> | ->]; cbn in Hs; injection Hs as <-;
      (econstructor; [reflexivity | exact Hb]).
  - cbn [app]. econstructor; [apply step_local, Hs|]. apply IH; [|exact Hb]. right.
    rewrite Hsplit, last_app_ne in Hlast by discriminate. exact Hlast.
Qed.

(* a final line feed adds a newline token *)
Theorem chain_final_lf a ta : chain a ta -> chain (a ++ [10]) (ta ++ [nl_tok10]).
Proof.
  induction 1 as [|s t rest ts Hs Hc IH].
  - econstructor; [reflexivity | constructor].
  - destruct rest as [|c r0].
    + apply chain_nil_inv in Hc. subst ts. cbn [app]. econstructor; [apply step_then_lf, Hs|].
      econstructor; [reflexivity | constructor].
    + cbn [app]. econstructor; [apply step_local, Hs | exact IH].
Qed.

Lemma crlf_only_no_final_cr a : crlf_only a = true -> no_final_cr a.
Proof.
  intros H p E. subst a. induction p as [|c p IH]; cbn [app] in H.
  - cbn in H. discriminate.
  - rewrite crlf_only_cons in H. apply andb_true_iff in H. apply IH, H.
Qed.

Theorem spec_toks_app a b ta tb :
  spec_toks a = Some ta -> (a = [] \/ last a 0 = 10) -> spec_toks b = Some tb ->
  spec_toks (a ++ b) = Some (ta ++ tb).
Proof.
  intros Ha Hlf Hb. destruct (spec_toks_chain _ _ Ha) as (Hca & Cha). destruct (spec_toks_chain _ _ Hb) as (Hcb & Chb).
  apply chain_spec_toks; [|apply chain_app; assumption].
  apply crlf_only_app; [exact Hca | apply crlf_only_no_final_cr, Hca | exact Hcb].
Qed.

Theorem spec_toks_final_lf a ta : spec_toks a = Some ta -> spec_toks (a ++ [10]) = Some (ta ++ [nl_tok10]).
Proof.
  intros Ha. destruct (spec_toks_chain _ _ Ha) as (Hca & Cha).
  apply chain_spec_toks; [|apply chain_final_lf, Cha].
  apply crlf_only_app; [exact Hca | apply crlf_only_no_final_cr, Hca | reflexivity].
Qed.

(* ---------- significant tokens as views: kind, text (strings: the denoted bytes), numeric value, long
   bracket level - neither positions nor the spelling of a quoted string.  This is the tokenizer of
   C14's token-level theorem. ---------- *)
Definition tview (t : stok) : Z * list Z * Z * Z * Z :=
  (skind_code (s_kind t), s_text t, s_num t, s_den t, s_long t).

Definition sig_views (src : list Z) : option (list (Z * list Z * Z * Z * Z)) :=
  match spec_toks src with
  | Some ts => Some (map tview (filter (fun t => negb (is_trivia t)) ts))
  | None => None
  end.

Theorem sig_views_nil : sig_views [] = Some [].
Proof. reflexivity. Qed.

Theorem sig_views_app a b ta tb :
  (a = [] \/ last a 0 = 10) -> sig_views a = Some ta -> sig_views b = Some tb ->
  sig_views (a ++ b) = Some (ta ++ tb).
Proof.
  unfold sig_views. intros Hlf Ha Hb.
  destruct (spec_toks a) as [ta'|] eqn:Ea; [|discriminate]. destruct (spec_toks b) as [tb'|] eqn:Eb; [|discriminate].
  injection Ha as <-. injection Hb as <-.
  rewrite (spec_toks_app _ _ _ _ Ea Hlf Eb), filter_app, map_app. reflexivity.
Qed.

Theorem sig_views_final_lf a ta : sig_views a = Some ta -> sig_views (a ++ [10]) = Some ta.
Proof.
  unfold sig_views. intros Ha. destruct (spec_toks a) as [ta'|] eqn:Ea; [|discriminate]. injection Ha as <-.
  rewrite (spec_toks_final_lf _ _ Ea), filter_app. cbn. rewrite app_nil_r. reflexivity.
Qed.

(* ---------- C06's echo predicate implies that the echoed text re-lexes to the same token views ---------- *)
From PV Require Import Instances.HoldsC06.

Lemma quoted_shape s t rest : spec_step s = Some (t, rest) -> is_quoted t = true ->
  exists q raw v, (q = 34 \/ q = 39) /\ t = mk_stok SString (q :: raw) v 0 1 (-1) 0 0.
Proof.
  intros H Q. pose proof (spec_step_shape _ _ _ H) as Sh. destruct Sh; try discriminate Q.
  - (* long string: level >= 0 *) exfalso. destruct (long_open_spec _ _ _ _ H0) as (k & Hk & _).
    unfold is_quoted in Q. cbn [s_kind s_long] in Q. lia.
  - exists q, raw, v. split; [assumption | reflexivity].
  - exfalso. unfold spec_number in H1. destruct (num_split _) as [run rs]. destruct (spec_numeral run) as [[n d]|]; [|discriminate].
    injection H1 as <- _. discriminate Q.
  - destruct (mem_bytes a spec_keywords); discriminate Q.
  - exfalso. destruct (spec_symbol_inv _ _ _ H0) as (x & _ & -> & _). discriminate Q.
Qed.

Lemma walk_head t ts c r0 rest2 o k :
  spec_step (c :: r0) = Some (t, rest2) -> walk (t :: ts) o k = None -> exists R, o = c :: R.
Proof.
  intros Hs Hw. destruct (spec_step_split _ _ _ Hs) as (Hsplit & Hne).
  destruct (s_raw t) as [|x raw'] eqn:Er; [congruence|]. cbn [app] in Hsplit. injection Hsplit as <- _.
  cbn [walk] in Hw. destruct (is_quoted t).
  - destruct o as [|q o1]; [discriminate|]. rewrite Er in Hw. cbn [firstn] in Hw.
    destruct (zlist_eqb [q] [c]) eqn:E; [|discriminate]. apply zlist_eqb_eq in E. injection E as ->. eexists; reflexivity.
  - rewrite Er in Hw. destruct (strip_prefix (c :: raw') o) as [o'|] eqn:E; [|discriminate].
    apply strip_prefix_split in E. subst o. eexists; reflexivity.
Qed.

Theorem walk_chain src ss : chain src ss -> forall out k, walk ss out k = None ->
  exists ss2, chain out ss2 /\ map tview ss2 = map tview ss.
Proof.
  induction 1 as [|s t rest ts Hs Hc IH]; intros out k Hw.
  - cbn in Hw. destruct out; [|discriminate]. exists []. split; [constructor | reflexivity].
  - cbn [walk] in Hw. destruct (is_quoted t) eqn:Q.
    + destruct (quoted_shape _ _ _ Hs Q) as (q0 & raw0 & v0 & Hq0 & ->). cbn [s_raw s_text firstn] in Hw.
      destruct out as [|q o1]; [discriminate|].
      destruct (zlist_eqb [q] [q0]) eqn:Eq; [|discriminate]. apply zlist_eqb_eq in Eq. injection Eq as ->.
      destruct (unescape_until q0 o1) as [[[v raw2] o2]|] eqn:Eu; [|discriminate].
      destruct (zlist_eqb v v0) eqn:Ev; [|discriminate]. apply zlist_eqb_eq in Ev. subst v.
      destruct (IH _ _ Hw) as (ss2 & Hc2 & Hv2).
      exists (mk_stok SString (q0 :: raw2) v0 0 1 (-1) 0 0 :: ss2). split.
      * econstructor; [|exact Hc2].
        destruct Hq0 as [-> | ->]; unfold spec_step; cbn -[unescape_until]; rewrite Eu; reflexivity.
      * cbn [map]. rewrite Hv2. reflexivity.
    + destruct (strip_prefix (s_raw t) out) as [o|] eqn:Es; [|discriminate]. apply strip_prefix_split in Es. subst out.
      destruct (IH _ _ Hw) as (ss2 & Hc2 & Hv2). exists (t :: ss2). split; [|cbn [map]; rewrite Hv2; reflexivity].
      econstructor; [|exact Hc2]. destruct (spec_step_split _ _ _ Hs) as (Hsplit & _).
      destruct rest as [|c r0].
      * pose proof (chain_nil_inv _ Hc) as Ets. subst ts. cbn in Hw. destruct o; [|discriminate].
        rewrite app_nil_r in *. rewrite <- Hsplit. exact Hs.
      * inversion Hc as [|s' t2 rest2 ts' Hs2 Hc' E1 E2]; subst.
        destruct (walk_head _ _ _ _ _ _ _ Hs2 Hw) as (R & ->). eapply step_ctx, Hs.
Qed.

Lemma walk_unpos ss : forall out k, walk (map unpos ss) out k = walk ss out k.
Proof.
  induction ss as [|s ss IH]; intros out k; [reflexivity|]. cbn [map walk].
  change (is_quoted (unpos s)) with (is_quoted s). change (s_raw (unpos s)) with (s_raw s).
  change (s_text (unpos s)) with (s_text s).
  destruct (is_quoted s).
  - destruct out as [|q o1]; [reflexivity|]. destruct (zlist_eqb [q] (firstn 1 (s_raw s))); [|reflexivity].
    destruct (unescape_until q o1) as [[[v r] o2]|]; [|reflexivity]. destruct (zlist_eqb v (s_text s)); [apply IH | reflexivity].
  - destruct (strip_prefix (s_raw s) out); [apply IH | reflexivity].
Qed.

Lemma tview_kind a b : tview a = tview b -> is_trivia a = is_trivia b.
Proof. unfold tview, is_trivia. intros H. injection H as Hk _ _ _ _. destruct (s_kind a), (s_kind b); cbn in Hk; try discriminate; reflexivity. Qed.

Lemma views_filter : forall a b, map tview a = map tview b ->
  map tview (filter (fun t => negb (is_trivia t)) a) = map tview (filter (fun t => negb (is_trivia t)) b).
Proof.
  induction a as [|x a IH]; intros [|y b] H; try discriminate; [reflexivity|]. cbn [map] in H.
  assert (Hxy : tview x = tview y) by (apply (f_equal (hd (tview x))) in H; exact H).
  assert (Hab : map tview a = map tview b) by (apply (f_equal (@tl _)) in H; exact H).
  cbn [filter]. rewrite (tview_kind _ _ Hxy). destruct (negb (is_trivia y)); [cbn [map]; rewrite Hxy|]; rewrite (IH _ Hab); reflexivity.
Qed.

(* if C06's predicate holds of (source, echoed text) and the echoed text has no lone carriage return, then
   the echoed text is in the dialect whenever the source is, with the same significant token views *)
Theorem holds_C06_sig_views src out t :
  holds_C06 src out = true -> crlf_only out = true -> sig_views src = Some t -> sig_views out = Some t.
Proof.
  unfold holds_C06, diff_C06, sig_views. intros Hh Hcr Hs.
  destruct (spec_toks src) as [ss|] eqn:Es; [|discriminate]. injection Hs as <-.
  destruct (spec_toks_chain _ _ Es) as (_ & Hc). unfold spec_toks in Es.
  destruct (spec_lex src) as [ss0|]; [|discriminate]. injection Es as <-.
  destruct (walk ss0 out 0) eqn:Ew; [discriminate|]. rewrite <- walk_unpos in Ew.
  destruct (walk_chain _ _ Hc _ _ Ew) as (ss2 & Hc2 & Hv).
  rewrite (chain_spec_toks _ _ Hcr Hc2). f_equal. apply views_filter, Hv.
Qed.
