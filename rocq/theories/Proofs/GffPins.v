(* Source pins of pico8/gff/gff.py: the sprite flags section.
   WRITTEN BY gen/mkpins.py (developer step) from the sources the hand-written model was compared with;
   each lemma fails when the function it names has been edited since (digest of ast.unparse, docstrings
   dropped; regenerated on every run into Generated/T_pins_gff.v). *)
From Coq Require Import ZArith List.
Import ListNotations.
Open Scope Z_scope.
From PV Require Import Generated.T_pins_gff.

Lemma pin__Gff__empty_ok : pin__Gff__empty = [99; 190; 69; 22; 48; 14; 76; 193].
Proof. reflexivity. Qed.
Lemma pin__Gff__get_flags_ok : pin__Gff__get_flags = [80; 16; 46; 129; 237; 105; 150; 177].
Proof. reflexivity. Qed.
Lemma pin__Gff__set_flags_ok : pin__Gff__set_flags = [42; 95; 170; 245; 68; 38; 52; 24].
Proof. reflexivity. Qed.
Lemma pin__Gff__clear_flags_ok : pin__Gff__clear_flags = [7; 126; 208; 53; 183; 114; 225; 130].
Proof. reflexivity. Qed.
Lemma pin__Gff__reset_flags_ok : pin__Gff__reset_flags = [14; 23; 12; 135; 170; 244; 130; 40].
Proof. reflexivity. Qed.

(* no function was added to or removed from the pinned classes *)
Lemma pin_names__gff_ok : pin_names__gff =
  [[112; 105; 110; 95; 95; 71; 102; 102; 95; 95; 101; 109; 112; 116; 121]; [112; 105; 110; 95; 95; 71; 102; 102; 95; 95; 103; 101; 116; 95; 102; 108; 97; 103; 115]; [112; 105; 110; 95; 95; 71; 102; 102; 95; 95; 115; 101; 116; 95; 102; 108; 97; 103; 115]; [112; 105; 110; 95; 95; 71; 102; 102; 95; 95; 99; 108; 101; 97; 114; 95; 102; 108; 97; 103; 115]; [112; 105; 110; 95; 95; 71; 102; 102; 95; 95; 114; 101; 115; 101; 116; 95; 102; 108; 97; 103; 115]].
Proof. reflexivity. Qed.
