(* Completeness of the parser model, part 3: the statements proved about each parse function, one level of
   the recursion (section Step), for terminals, name lists and expressions. *)
From PV Require Import Base.Prelude Spec.LuaTokens Spec.LuaGrammar Model.Tokens Model.Parser Model.ParserInst
  Model.AstWriter Proofs.ParserProofs Proofs.ParserSpecs Proofs.ParserTheorems Proofs.ParserComplete1 Proofs.ParserComplete2.
From Coq Require Import ZifyBool.
Ltac Zify.zify_post_hook ::= Z.to_euclidean_division_equations.

(* result of a run: normal return with the fence restored *)
Definition RT {A} (r : result (A * pst)) (mx : option Z) (Q : A -> Z -> Prop) : Prop :=
  exists a p', r = Ok (a, (p', mx)) /\ Q a p'.

Lemma RT_ok {A} (a : A) p' mx (Q : A -> Z -> Prop) : Q a p' -> RT (Ok (a, (p', mx))) mx Q.
Proof. intros H. exists a, p'. split; [reflexivity | exact H]. Qed.

Lemma RT_bind {A B} (m : M A) (f : A -> M B) st mx (Q : A -> Z -> Prop) (Q' : B -> Z -> Prop) :
  RT (m st) mx Q -> (forall a p', Q a p' -> RT (f a (p', mx)) mx Q') -> RT (bindM m f st) mx Q'.
Proof.
  intros (a & p' & E & H) Hf. rewrite (bind_ok _ _ _ _ _ E). apply Hf, H.
Qed.

Definition isnode (t : tree) (p' : Z) : Prop := exists tag s fs, t = Node tag s p' false fs.

Lemma isnode_facts t p' : isnode t p' -> is_hidden t = false /\ is_none t = false /\ end_of t = Some p'.
Proof. intros (tag & s & fs & ->). repeat split. Qed.

Lemma lua_binops_nt : forallb pat_nontrivia lua_binops = true.
Proof. vm_compute. reflexivity. Qed.
Lemma lua_unops_nt : forallb pat_nontrivia lua_unops = true.
Proof. vm_compute. reflexivity. Qed.

(* name list continuation: the parser stops before a comma that is not followed by a name *)
Definition nl_stop (mx : option Z) (s : stream) : Prop :=
  match peek mx s with
  | None => True
  | Some (_, t) =>
      if kmatch (kd t) (psym ","%bs)
      then match s with _ :: s2 => follow (nomatch [PClass CName]) mx s2 | [] => True end
      else True
  end.

(* what remains of a field list after a field *)
Definition g_ftail (n : nat) (r : list tree) (s : stream) : option stream :=
  match r with
  | [] => Some s
  | c :: r' =>
      s <~ (match sym ","%bs c s with Some s => Some s | None => sym ";"%bs c s end) ;;
      g_fields n r' s
  end.

Definition nosemi (l : list tree) : Prop := match l with Kw _ :: _ => False | _ => True end.

Definition sfx_ok (ts : list token) (mx : option Z) (x : nat * sfx) : Prop :=
  let '(_, (tag, _, _, sh, rest)) := x in CTXL ts rest mx /\ sh = false.

Section Acc.
Variable ts : list token.
Local Notation SS := (sstream ts).
Local Notation lim := (lim ts).
Local Notation len := (zlen ts).
(* ---------------------------------------------------------------- accept on a known stream *)
Lemma bind_accept_hit {B} pat (f : option (Z * token) -> M B) p mx i t r :
  pat_nontrivia pat = true -> 0 <= p -> SS p = (i, t) :: r -> kmatch (kd t) pat = true -> i < lim mx ->
  bindM (accept ts pat) f (p, mx) = f (Some (i, t)) (i + 1, mx).
Proof. intros. apply bind_ok. eapply accept_hit; eassumption. Qed.

Lemma bind_expect_hit {B} pat (f : Z * token -> M B) p mx i t r :
  pat_nontrivia pat = true -> 0 <= p -> SS p = (i, t) :: r -> kmatch (kd t) pat = true -> i < lim mx ->
  bindM (expect ts pat) f (p, mx) = f (i, t) (i + 1, mx).
Proof.
  intros. apply bind_ok. unfold expect. erewrite bind_ok by (eapply accept_hit; eassumption). reflexivity.
Qed.

Lemma bind_accept_miss {B} P pat (f : option (Z * token) -> M B) p mx :
  pat_nontrivia pat = true -> 0 <= p -> follow P mx (SS p) -> (forall k0, P k0 = true -> kmatch k0 pat = false) ->
  bindM (accept ts pat) f (p, mx) = f None (p, mx).
Proof.
  intros Hp Hq Hf HP. apply bind_ok. apply accept_miss; [exact Hp | exact Hq|].
  unfold follow in Hf. destruct (peek mx (SS p)) as [[i t]|]; [apply HP, Hf | exact I].
Qed.

Lemma follow_known (q : pat) mx p i t r : SS p = (i, t) :: r -> kmatch (kd t) q = true -> follow (anyof [q]) mx (SS p).
Proof. intros Hs Hk. rewrite Hs. apply follow_head. unfold anyof. cbn [existsb]. rewrite Hk. reflexivity. Qed.

Lemma spos p i t r : 0 <= p -> SS p = (i, t) :: r -> p <= i /\ i < len /\ SS (i + 1) = r.
Proof. intros Hp Hs. destruct (sstream_cons ts p i t r Hp Hs) as (H1 & H2 & H3 & _). repeat split; assumption. Qed.


Lemma CTX_sh tag a b sh fs mx : CTX ts (Node tag a b sh fs) mx -> (tag =? tStatIf) = false -> sh = false.
Proof.
  intros (H & _) E. cbn [in_frag] in H. rewrite E in H. destruct sh; [discriminate H | reflexivity].
Qed.
End Acc.

(* ---------------------------------------------------------------- tactics *)
Ltac prim :=
  repeat (first [ rewrite bind_get_pos | rewrite bind_set_pos | rewrite bind_ret | rewrite bind_mk
                | rewrite bind_get_max | rewrite bind_set_max ]; cbv beta iota zeta).

Ltac lim_tac := first [assumption | lia].

Ltac pmiss :=
  let k0 := fresh in let H := fresh in intros k0 H;
  first [ eapply anyof_miss; [|exact H]; vm_compute; reflexivity
        | eapply nomatch_miss; [|exact H]; vm_compute; reflexivity
        | apply negb_true_iff in H; exact H ].

(* follow P' from a hypothesis follow P on the same stream *)
Ltac fw :=
  match goal with
  | Hf : follow ?P ?mx ?s |- follow ?P' ?mx ?s =>
      apply (follow_weaken P P' mx s); [|exact Hf];
      let k0 := fresh in let H := fresh in intros k0 H;
      first [ exact H
            | eapply anyof_sub; [|exact H]; vm_compute; reflexivity
            | eapply anyof_nomatch; [|exact H]; vm_compute; reflexivity
            | eapply nomatch_sub; [|exact H]; vm_compute; reflexivity ]
  end.

(* follow from the first token of the next construct *)
Ltac fhd H :=
  first [ eapply hd_follow_nomatch; [|exact H]; vm_compute; reflexivity
        | eapply hd_follow_anyof; [|exact H]; vm_compute; reflexivity ].

(* open the pattern matches of a grammar equation *)
Ltac gmatch H :=
  repeat (cbv beta iota in H;
          match type of H with
          | context [match ?x with _ => _ end] => is_var x; destruct x; try discriminate H
          end);
  cbv beta iota in H.

Ltac gtag H tg :=
  match type of H with
  | context [?tag =? tg] =>
      let E := fresh "Et" in destruct (tag =? tg) eqn:E; [apply Z.eqb_eq in E; try subst tag | try discriminate H]
  end.

Ltac hit :=
  lazymatch goal with
  | |- context [bindM (accept ?ts ?pat) ?f (?p, ?mx)] =>
      match goal with
      | Hs : sstream ts p = (?i, ?t) :: ?r, Hk : kmatch (kd ?t) pat = true |- _ =>
          rewrite (bind_accept_hit ts pat f p mx i t r eq_refl ltac:(lia) Hs Hk ltac:(lim_tac)); cbv beta iota zeta
      end
  | |- context [bindM (expect ?ts ?pat) ?f (?p, ?mx)] =>
      match goal with
      | Hs : sstream ts p = (?i, ?t) :: ?r, Hk : kmatch (kd ?t) pat = true |- _ =>
          rewrite (bind_expect_hit ts pat f p mx i t r eq_refl ltac:(lia) Hs Hk ltac:(lim_tac)); cbv beta iota zeta
      end
  end.

Ltac miss :=
  lazymatch goal with
  | |- context [bindM (accept ?ts ?pat) ?f (?p, ?mx)] =>
      match goal with
      | Hf : follow ?P mx (sstream ts p) |- _ =>
          rewrite (bind_accept_miss ts P pat f p mx eq_refl ltac:(lia) Hf ltac:(pmiss)); cbv beta iota zeta
      end
  end.

(* after a terminal has been inverted to  Hs : SS p = (i, t) :: s1  *)
Ltac after_term i t Hs Hk :=
  match type of Hs with
  | sstream ?ts ?p = (_, _) :: ?s1 =>
      let Hle := fresh "Hle" in let Hlt := fresh "Hlt" in let Hn := fresh "Hn" in
      destruct (spos ts p i t s1 ltac:(lia) Hs) as (Hle & Hlt & Hn);
      try (is_var s1; subst s1);
      match goal with
      | HC : ParserComplete2.CTX ts (Kw i) ?mx |- _ =>
          pose proof (CTX_kw ts i mx HC); pose proof (follow_known ts _ mx _ i t _ Hs Hk)
      | HC : ParserComplete2.CTX ts (Tok i ?t0) ?mx |- _ =>
          pose proof (CTX_tok ts i t0 mx HC); pose proof (follow_known ts _ mx _ i t _ Hs Hk)
      | _ => idtac
      end
  end.

Ltac tinv H :=
  let i := fresh "i" in let t := fresh "t" in let t0 := fresh "t0" in
  let Eg := fresh "Eg" in let Hs := fresh "Hs" in let Hk := fresh "Hk" in
  first [ apply kw_inv in H; destruct H as (i & t & Eg & Hs & Hk)
        | apply sym_inv in H; destruct H as (i & t & Eg & Hs & Hk)
        | apply tokc_inv in H; destruct H as (i & t0 & t & Eg & Hs & Hk) ];
  match type of Eg with ?w = _ => first [is_var w; subst w | injection Eg as Eg; try subst] end;
  after_term i t Hs Hk.

(* split  H : obind o f = Some s'  into the first step E and the rest H *)
Ltac osplit H E :=
  let s1 := fresh "s" in
  apply obind_some in H; destruct H as (s1 & E & H).

Ltac den_side :=
  first [ assumption | reflexivity | apply den_tok | apply den_pnone | apply den_pbool
        | rewrite den_lst; all2v_go
        | rewrite den_node by reflexivity; all2v_go ]
with all2v_go :=
  repeat first [ rewrite all2v_kw_l | rewrite all2v_kw_r | rewrite all2v_hid_r | rewrite all2v_hid_l
               | rewrite all2v_cons by den_side ];
  first [ exact all2v_nil | assumption ].

Ltac all2v_tac :=
  repeat first [ rewrite all2v_kw_l | rewrite all2v_kw_r | rewrite all2v_hid_r | rewrite all2v_hid_l
               | rewrite all2v_cons by den_side ];
  try exact all2v_nil.

Ltac rt_call L :=
  eapply RT_bind; [ eapply L | cbv beta; intros ? ? ? ].

Section Step.
Variable ts : list token.
Local Notation SS := (sstream ts).
Local Notation lim := (lim ts).
Local Notation len := (zlen ts).
Local Notation CTX := (CTX ts).
Local Notation CTXL := (CTXL ts).

(* ---------------------------------------------------------------- the statements *)
Definition exp_ok (Gd : Z -> Prop) (m : M tree) : Prop :=
  forall p mx n items s', Gd p -> g_chain n true true items (SS p) = Some s' -> CTXL items mx -> follow fexp mx s' ->
  RT (m (p, mx)) mx (fun t p' => SS p' = s' /\ p < p' /\ ditems items t = true /\
                                  (forall x, items = [x] -> den x t = true) /\ isnode t p' /\ exp_shape t).

Definition exp_none (Gd : Z -> Prop) (m : M tree) : Prop :=
  forall p mx, Gd p -> follow fstop mx (SS p) -> m (p, mx) = Ok (PNone, (p, mx)).

Definition binop_ok (Gd : Z -> Prop) (m : tree -> M tree) : Prop :=
  forall first p mx n items s', Gd p -> g_chain n false true items (SS p) = Some s' -> CTXL items mx ->
  follow fexp mx s' -> isnode first p -> exp_shape first ->
  RT (m first (p, mx)) mx (fun t p' => SS p' = s' /\ p <= p' /\
       (exists ys, flat_exp (view t) = flat_exp (view first) ++ ys /\ all2d items ys = true) /\
       (items = [] -> t = first) /\ isnode t p' /\ exp_shape t).

Definition chunk_ok (Gd : Z -> Prop) (m : M tree) : Prop :=
  forall p mx n g s', Gd p -> g_chunk n g (SS p) = Some s' -> CTX g mx -> follow fblock mx s' ->
  RT (m (p, mx)) mx (fun t p' => SS p' = s' /\ p <= p' /\ den g t = true /\
                                  exists fs, t = Node tChunk p p' false [Lst fs]).

Definition semis_ok (Gd : Z -> Prop) (m : M (list tree)) : Prop :=
  forall p mx l s', Gd p -> g_semis l (SS p) = Some s' -> CTXL l mx -> follow (nomatch [psym ";"%bs]) mx s' ->
  RT (m (p, mx)) mx (fun tl p' => SS p' = s' /\ p <= p' /\ views tl = []).

Definition semis_stats_ok (Gd : Z -> Prop) (m : M (list tree)) : Prop :=
  forall p mx n l s', Gd p -> g_stats n l (SS p) = Some s' -> CTXL l mx -> follow (nomatch [psym ";"%bs]) mx s' ->
  RT (m (p, mx)) mx (fun tl p' => p <= p' /\ views tl = [] /\
       exists ks rest n', l = ks ++ rest /\ forallb is_hidden ks = true /\
                          g_stats n' rest (SS p') = Some s' /\ nosemi rest).

Definition stats_ok (Gd : Z -> Prop) (m : M (list tree)) : Prop :=
  forall p mx n l s', Gd p -> g_stats n l (SS p) = Some s' -> CTXL l mx -> pguard true l = true ->
  follow fblock mx s' ->
  RT (m (p, mx)) mx (fun tl p' => p <= p' /\
       exists l1 l2 n', l = l1 ++ l2 /\ all2v l1 tl = true /\ g_stats n' l2 (SS p') = Some s' /\
                        (l2 = [] \/ exists x r, l2 = x :: r /\ is_tag x tStatReturn = true)).

Definition namelist_loop_ok (Gd : Z -> Prop) (m : M (list tree)) : Prop :=
  forall p mx l s', Gd p -> sep_tail (tokc CName) (sym ","%bs) l (SS p) = Some s' -> CTXL l mx -> nl_stop mx s' ->
  RT (m (p, mx)) mx (fun tl p' => SS p' = s' /\ p <= p' /\ all2v l tl = true).

Definition funcname_loop_ok (Gd : Z -> Prop) (m : M (list tree)) : Prop :=
  forall p mx l s', Gd p -> sep_tail (tokc CName) (sym "."%bs) l (SS p) = Some s' -> CTXL l mx ->
  follow (nomatch [psym "."%bs]) mx s' ->
  RT (m (p, mx)) mx (fun tl p' => SS p' = s' /\ p <= p' /\ all2v l tl = true).

Definition explist_loop_ok (Gd : Z -> Prop) (m : M (list tree)) : Prop :=
  forall p mx n l s', Gd p -> sep_tail (g_exp n) (sym ","%bs) l (SS p) = Some s' -> CTXL l mx -> follow fexpl mx s' ->
  RT (m (p, mx)) mx (fun tl p' => SS p' = s' /\ p <= p' /\ all2v l tl = true).

Definition varlist_loop_ok (Gd : Z -> Prop) (m : M (list tree)) : Prop :=
  forall p mx n l s', Gd p -> sep_tail (g_var n) (sym ","%bs) l (SS p) = Some s' -> CTXL l mx ->
  follow (anyof gassign) mx s' ->
  RT (m (p, mx)) mx (fun tl p' => SS p' = s' /\ p <= p' /\ all2v l tl = true).

Definition fields_loop_ok (Gd : Z -> Prop) (m : M (list tree)) : Prop :=
  forall p mx n l s', Gd p -> g_ftail n l (SS p) = Some s' -> CTXL l mx -> follow (anyof [psym "}"%bs]) mx s' ->
  RT (m (p, mx)) mx (fun tl p' => SS p' = s' /\ p <= p' /\ all2v l tl = true).

Definition elseif_loop_ok (Gd : Z -> Prop) (m : M (list tree)) : Prop :=
  forall p mx n l s', Gd p -> g_elseifs n l (SS p) = Some s' -> CTXL l mx ->
  RT (m (p, mx)) mx (fun tl p' => p <= p' /\
       exists l1 l2 n', l = l1 ++ l2 /\ all2v l1 tl = true /\ g_elseifs n' l2 (SS p') = Some s' /\
                        (l2 = [] \/ exists el b, l2 = [el; Lst [PNone; b]])).

Definition precur_ok (Gd : Z -> Prop) (m : tree -> M tree) : Prop :=
  forall l first gfirst p mx s', Gd p -> g_sufs l (SS p) = Some s' -> Forall (sfx_ok ts mx) l -> follow fcont mx s' ->
  den gfirst first = true -> is_hidden first = false -> is_none first = false ->
  RT (m first (p, mx)) mx (fun t p' => SS p' = s' /\ p <= p' /\ den (wraps gfirst l) t = true /\
                                       (l = [] -> t = first) /\ is_hidden t = false /\ is_none t = false).

Record comp (Gd : Z -> Prop) (R : funs) : Prop := mkComp {
  c_exp : exp_ok Gd (r_exp R);
  c_exp_none : exp_none Gd (r_exp R);
  c_binop : binop_ok Gd (r_binop R);
  c_chunk : chunk_ok Gd (r_chunk R);
  c_semis : semis_ok Gd (r_semis R);
  c_semis_stats : semis_stats_ok Gd (r_semis R);
  c_stats : stats_ok Gd (r_stats_loop R);
  c_namelist_loop : namelist_loop_ok Gd (r_namelist_loop R);
  c_funcname_loop : funcname_loop_ok Gd (r_funcname_loop R);
  c_explist_loop : explist_loop_ok Gd (r_explist_loop R);
  c_varlist_loop : varlist_loop_ok Gd (r_varlist_loop R);
  c_fields_loop : fields_loop_ok Gd (r_fields_loop R);
  c_elseif_loop : elseif_loop_ok Gd (r_elseif_loop R);
  c_precur : precur_ok Gd (r_precur R)
}.

Variable R : funs.
Variable k : Z.
Definition G (p : Z) : Prop := 0 <= p /\ len - p < k.
Definition G' (p : Z) : Prop := 0 <= p /\ len - p <= k.
Hypothesis HR : comp G R.

Ltac gd := unfold G, G' in *; lia.

(* ---------------------------------------------------------------- semicolons *)
Lemma L_semis : semis_ok G' (semis_def ts R).
Proof.
  intros p mx l s' HG Hg HC Hf. destruct HG as [Hp0 HGk]. unfold semis_def. destruct l as [|c r]; cbn [g_semis] in Hg.
  - injection Hg as <-. miss. rewrite ret_eq. apply RT_ok. repeat split; first [lia | reflexivity].
  - osplit Hg E. apply CTXL_cons in HC. destruct HC as [HC1 HC2]. tinv E. hit.
    eapply RT_bind; [eapply (c_semis _ _ HR); [gd | exact Hg | exact HC2 | exact Hf]|].
    cbv beta. intros tl p' (Q1 & Q2 & Q3). rewrite ret_eq. apply RT_ok. split; [exact Q1|]. split; [lia|].
    rewrite views_cons. exact Q3.
Qed.

(* ---------------------------------------------------------------- name lists *)
Lemma L_namelist_loop : namelist_loop_ok G' (namelist_loop_def ts R).
Proof.
  intros p mx l s' HG Hg HC Hnl. destruct HG as [Hp0 HGk]. unfold namelist_loop_def. prim.
  destruct l as [|c [|x r]]; cbn [sep_tail] in Hg; [|discriminate|].
  - injection Hg as <-. unfold bindM at 1. rewrite accept_peek by first [reflexivity | lia].
    unfold nl_stop in Hnl. destruct (peek mx (SS p)) as [[i t]|] eqn:Epk.
    + rewrite matches_kd. destruct (kmatch (kd t) (psym ","%bs)) eqn:Ek.
      * destruct (peek_some _ _ _ _ Epk) as (r2 & Hs & Hfo). rewrite Hs in Hnl.
        destruct (spos ts p i t r2 Hp0 Hs) as (Hle & Hlt & Hn). rewrite <- Hn in Hnl.
        cbv beta iota zeta. miss. prim. rewrite ret_eq. apply RT_ok. repeat split; first [lia | reflexivity].
      * cbv beta iota zeta. rewrite ret_eq. apply RT_ok. repeat split; first [lia | reflexivity].
    + cbv beta iota zeta. rewrite ret_eq. apply RT_ok. repeat split; first [lia | reflexivity].
  - osplit Hg E1. osplit Hg E2. apply CTXL_cons in HC. destruct HC as [HC1 HC]. apply CTXL_cons in HC. destruct HC as [HC2 HC].
    tinv E1. tinv E2. hit. hit.
    eapply RT_bind; [eapply (c_namelist_loop _ _ HR); [gd | exact Hg | exact HC | exact Hnl]|].
    cbv beta. intros tl p' (Q1 & Q2 & Q3). rewrite ret_eq. apply RT_ok. split; [exact Q1|]. split; [lia|].
    all2v_tac. exact Q3.
Qed.

Lemma L_namelist p mx g s' : G' p -> namelist g (SS p) = Some s' -> CTX g mx -> nl_stop mx s' ->
  RT (namelist_def ts R (p, mx)) mx (fun t p' => SS p' = s' /\ p < p' /\ den g t = true /\ is_none t = false /\ is_hidden t = false).
Proof.
  intros HG Hg HC Hnl. destruct HG as [Hp0 HGk]. unfold namelist in Hg.
  destruct g as [tag a b sh fs| | | | | | | |]; try discriminate. destruct fs as [|[| |l| | | | | |] [|? ?]]; try discriminate.
  destruct (tag =? tNameList) eqn:Et; [|discriminate]. apply Z.eqb_eq in Et. subst tag.
  pose proof (CTX_sh ts _ _ _ _ _ _ HC eq_refl) as ->.
  apply CTX_node in HC. apply CTXL_cons in HC. destruct HC as [HC _]. apply CTX_lst in HC.
  destruct l as [|x r]; cbn [sep_list] in Hg; [discriminate|]. osplit Hg E. apply CTXL_cons in HC. destruct HC as [HC1 HC].
  tinv E. unfold namelist_def. prim. hit.
  eapply RT_bind; [eapply L_namelist_loop; [gd | exact Hg | exact HC | exact Hnl]|].
  cbv beta. intros tl p' (Q1 & Q2 & Q3). rewrite mk_eq. apply RT_ok. split; [exact Q1|]. split; [lia|].
  split; [|split; reflexivity]. den_side.
Qed.

(* ---------------------------------------------------------------- function names *)
Lemma L_funcname_loop : funcname_loop_ok G' (funcname_loop_def ts R).
Proof.
  intros p mx l s' HG Hg HC Hf. destruct HG as [Hp0 HGk]. unfold funcname_loop_def.
  destruct l as [|c [|x r]]; cbn [sep_tail] in Hg; [|discriminate|].
  - injection Hg as <-. miss. rewrite ret_eq. apply RT_ok. repeat split; first [lia | reflexivity].
  - osplit Hg E1. osplit Hg E2. apply CTXL_cons in HC. destruct HC as [HC1 HC]. apply CTXL_cons in HC. destruct HC as [HC2 HC].
    tinv E1. tinv E2. hit. hit.
    eapply RT_bind; [eapply (c_funcname_loop _ _ HR); [gd | exact Hg | exact HC | exact Hf]|].
    cbv beta. intros tl p' (Q1 & Q2 & Q3). rewrite ret_eq. apply RT_ok. split; [exact Q1|]. split; [lia|].
    all2v_tac. exact Q3.
Qed.

Definition g_funcname (g : tree) (s : stream) : option stream :=
  match g with
  | Node t2 _ _ _ (Lst path :: m) =>
      if t2 =? tFunctionName then
        s <~ sep_list (tokc CName) (sym "."%bs) path s ;;
        match m with
        | [PNone] => Some s
        | [c; nm] => s <~ sym ":"%bs c s ;; tokc CName nm s
        | _ => None end
      else None
  | _ => None
  end.

Lemma L_funcname p mx g s' : G' p -> g_funcname g (SS p) = Some s' -> CTX g mx -> follow (anyof [psym "("%bs]) mx s' ->
  RT (funcname_def ts R (p, mx)) mx (fun t p' => SS p' = s' /\ p < p' /\ den g t = true /\ is_none t = false /\ is_hidden t = false).
Proof.
  intros HG Hg HC Hf. destruct HG as [Hp0 HGk]. unfold g_funcname in Hg.
  destruct g as [tag a b sh fs| | | | | | | |]; try discriminate. destruct fs as [|[| |path| | | | | |] m]; try discriminate.
  gtag Hg tFunctionName. pose proof (CTX_sh ts _ _ _ _ _ _ HC eq_refl) as ->.
  apply CTX_node in HC. apply CTXL_cons in HC. destruct HC as [HCp HCm]. apply CTX_lst in HCp.
  osplit Hg E. destruct path as [|x r]; cbn [sep_list] in E; [discriminate|]. osplit E E1.
  apply CTXL_cons in HCp. destruct HCp as [HC1 HCp]. tinv E1. unfold funcname_def. prim. hit.
  destruct m as [|c [|nm [|? ?]]]; try discriminate.
  - destruct c; try discriminate. injection Hg as <-.
    eapply RT_bind; [eapply L_funcname_loop; [gd | exact E | exact HCp | fw]|].
    cbv beta. intros tl p' (Q1 & Q2 & Q3). subst s. miss. rewrite mk_eq. apply RT_ok.
    split; [reflexivity|]. split; [lia|]. split; [|split; reflexivity]. den_side.
  - assert (Hc : exists ci, c = Kw ci) by (destruct c; try discriminate; eexists; reflexivity).
    destruct Hc as (ci & ->). osplit Hg E2. pose proof (hd_sym _ _ _ _ E2) as Hh.
    eapply RT_bind; [eapply L_funcname_loop; [gd | exact E | exact HCp | fhd Hh]|].
    cbv beta. intros tl p' (Q1 & Q2 & Q3). subst s. ctx_split HCm. tinv E2. tinv Hg. hit. hit.
    rewrite mk_eq. apply RT_ok.
    split; [reflexivity|]. split; [lia|]. split; [|split; reflexivity]. den_side.
  - exfalso. gmatch Hg.
Qed.

(* ---------------------------------------------------------------- expression lists *)
Lemma R_exp p mx n g s' : G p -> g_exp n g (SS p) = Some s' -> CTX g mx -> follow fexp mx s' ->
  RT (r_exp R (p, mx)) mx (fun t p' => SS p' = s' /\ p < p' /\ den g t = true /\ isnode t p' /\ exp_shape t).
Proof.
  intros HG Hg HC Hf. destruct (g_exp_items _ _ _ _ Hg) as (m & Hm).
  destruct (c_exp _ _ HR p mx m (items_of g) s' HG Hm (CTX_items ts g mx HC) Hf) as (t & p' & E & Q1 & Q2 & Q3 & Q4 & Q5 & Q6).
  exists t, p'. split; [exact E|]. repeat split; try assumption.
  apply den_of_items; try assumption. eexists _, _, _. exact Hg.
Qed.

Lemma sep_tail_follow (item : tree -> stream -> option stream) mx r s2 s' :
  sep_tail item (sym ","%bs) r s2 = Some s' -> follow fexpl mx s' -> follow fexp mx s2.
Proof.
  intros H Hf. destruct r as [|c [|x r]]; cbn [sep_tail] in H; [|discriminate|].
  - injection H as <-. fw.
  - apply obind_some in H. destruct H as (s3 & E & _). pose proof (hd_sym _ _ _ _ E) as Hh. fhd Hh.
Qed.

Lemma L_explist_loop : explist_loop_ok G' (explist_loop_def ts R).
Proof.
  intros p mx n l s' HG Hg HC Hf. destruct HG as [Hp0 HGk]. unfold explist_loop_def.
  destruct l as [|c [|x r]]; cbn [sep_tail] in Hg; [|discriminate|].
  - injection Hg as <-. miss. rewrite ret_eq. apply RT_ok. repeat split; first [lia | reflexivity].
  - osplit Hg E1. osplit Hg E2. apply CTXL_cons in HC. destruct HC as [HC1 HC]. apply CTXL_cons in HC. destruct HC as [HC2 HC].
    tinv E1. hit.
    eapply RT_bind; [eapply R_exp; [gd | exact E2 | exact HC2 | eapply sep_tail_follow; eassumption]|].
    cbv beta. intros e p1 (Q1 & Q2 & Q3 & Q4 & Q5). subst s0.
    destruct (isnode_facts _ _ Q4) as (Qh & Qn & _). rewrite bind_assert by exact Qn.
    eapply RT_bind; [eapply (c_explist_loop _ _ HR); [gd | exact Hg | exact HC | exact Hf]|].
    cbv beta. intros tl p' (Q6 & Q7 & Q8). rewrite ret_eq. apply RT_ok. split; [exact Q6|]. split; [lia|].
    all2v_tac. exact Q8.
Qed.

Lemma L_explist p mx n g s' : G p -> g_explist n g (SS p) = Some s' -> CTX g mx -> follow fexpl mx s' ->
  RT (explist_def ts R (p, mx)) mx (fun t p' => SS p' = s' /\ p < p' /\ den g t = true /\ is_none t = false /\ is_hidden t = false).
Proof.
  intros HG Hg HC Hf. destruct HG as [Hp0 HGk]. destruct n; [discriminate|]. cbn [g_explist] in Hg.
  destruct g as [tag a b sh fs| | | | | | | |]; try discriminate. destruct fs as [|[| |l| | | | | |] [|? ?]]; try discriminate.
  gtag Hg tExpList. pose proof (CTX_sh ts _ _ _ _ _ _ HC eq_refl) as ->.
  apply CTX_node in HC. apply CTXL_cons in HC. destruct HC as [HC _]. apply CTX_lst in HC.
  destruct l as [|x r]; cbn [sep_list] in Hg; [discriminate|]. osplit Hg E. apply CTXL_cons in HC. destruct HC as [HC1 HC].
  unfold explist_def. prim.
  eapply RT_bind; [eapply R_exp; [split; lia | exact E | exact HC1 | eapply sep_tail_follow; eassumption]|].
  cbv beta. intros e p1 (Q1 & Q2 & Q3 & Q4 & Q5). subst s.
  destruct (isnode_facts _ _ Q4) as (Qh & Qn & _). rewrite Qn.
  eapply RT_bind; [eapply L_explist_loop; [gd | exact Hg | exact HC | exact Hf]|].
  cbv beta. intros tl p' (Q6 & Q7 & Q8). rewrite mk_eq. apply RT_ok. split; [exact Q6|]. split; [lia|].
  split; [|split; reflexivity]. den_side.
Qed.

Lemma L_explist_none p mx : G p -> follow fstop mx (SS p) -> explist_def ts R (p, mx) = Ok (PNone, (p, mx)).
Proof.
  intros HG Hf. unfold explist_def. prim. rewrite (bind_ok _ _ _ _ _ (c_exp_none _ _ HR p mx HG Hf)).
  cbn [is_none strip_paren]. prim. reflexivity.
Qed.

End Step.
