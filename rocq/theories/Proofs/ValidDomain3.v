(* Valid programs lie inside the writer domain, part 3: copy of Proofs/ParserComplete3.v (terminals, name lists,
   expressions; one level of the recursion) with the relations of Proofs/ValidDomain1.v - den / all2v / ditems
   now also say that the tree built is inside the writer domain (dom), CTX also carries g_no_paren_suffix.
   Differences to the original are marked (* VD *). *)
From PV Require Import Base.Prelude Spec.LuaTokens Spec.LuaGrammar Model.Tokens Model.Parser Model.ParserInst
  Model.AstWriter Model.WriterDomain Proofs.ParserProofs Proofs.ParserSpecs Proofs.ParserTheorems Proofs.ParserComplete1 Proofs.ParserComplete2
  Proofs.ValidDomain1.
From Coq Require Import ZifyBool.
Ltac Zify.zify_post_hook ::= Z.to_euclidean_division_equations.

(* result of a run: normal return with the fence restored *)
Definition RT {A} (ts : list token) (r : result (A * pst)) (mx : option Z) (Q : A -> Z -> Prop) : Prop :=
  exists a p', r = Ok (a, (p', mx)) /\ p' <= zlen ts /\ Q a p'.

Lemma RT_ok {A} ts (a : A) p' mx (Q : A -> Z -> Prop) : p' <= zlen ts -> Q a p' -> RT ts (Ok (a, (p', mx))) mx Q.
Proof. intros Hl H. exists a, p'. split; [reflexivity | split; [exact Hl | exact H]]. Qed.

Lemma RT_bind {A B} ts (m : M A) (f : A -> M B) st mx (Q : A -> Z -> Prop) (Q' : B -> Z -> Prop) :
  RT ts (m st) mx Q -> (forall a p', p' <= zlen ts -> Q a p' -> RT ts (f a (p', mx)) mx Q') -> RT ts (bindM m f st) mx Q'.
Proof.
  intros (a & p' & E & Hl & H) Hf. rewrite (bind_ok _ _ _ _ _ E). apply Hf; assumption.
Qed.

Lemma RT_conseq {A} ts (r : result (A * pst)) mx (Q Q' : A -> Z -> Prop) :
  RT ts r mx Q -> (forall a p', p' <= zlen ts -> Q a p' -> Q' a p') -> RT ts r mx Q'.
Proof. intros (a & p' & E & Hl & H) HQ. exists a, p'. split; [exact E | split; [exact Hl | apply HQ; assumption]]. Qed.

Definition isnode (t : tree) (p' : Z) : Prop := exists tag s fs, t = Node tag s p' false fs.

Lemma isnode_facts t p' : isnode t p' -> is_hidden t = false /\ is_none t = false /\ end_of t = Some p'.
Proof. intros (tag & s & fs & ->). repeat split. Qed.

Lemma lua_binops_nt : forallb pat_nontrivia lua_binops = true.
Proof. vm_compute. reflexivity. Qed.
Lemma lua_unops_nt : forallb pat_nontrivia lua_unops = true.
Proof. vm_compute. reflexivity. Qed.

(* name list continuation: the parser stops before a comma that is not followed by a name *)
Definition nl_stop (mx : option Z) (s : stream) : Prop :=
  match peek mx s with
  | None => True
  | Some (_, t) =>
      if kmatch (kd t) (psym ","%bs)
      then match s with _ :: s2 => follow (nomatch [PClass CName]) mx s2 | [] => True end
      else True
  end.

(* what remains of a field list after a field *)
Definition g_ftail (n : nat) (r : list tree) (s : stream) : option stream :=
  match r with
  | [] => Some s
  | c :: r' =>
      s <~ (match sym ","%bs c s with Some s => Some s | None => sym ";"%bs c s end) ;;
      g_fields n r' s
  end.

Definition is_kwt (x : tree) : bool := match x with Kw _ => true | _ => false end.

Definition nosemi (l : list tree) : Prop := match l with Kw _ :: _ => False | _ => True end.

Definition sfx_ok (ts : list token) (nts : bool) (mx : option Z) (x : nat * sfx) : Prop :=
  let '(_, (tag, _, _, sh, rest)) := x in CTXL ts nts rest mx /\ sh = false.

Section Acc.
Variable ts : list token.
Local Notation SS := (sstream ts).
Local Notation lim := (lim ts).
Local Notation len := (zlen ts).
(* ---------------------------------------------------------------- accept on a known stream *)
Lemma bind_accept_hit {B} pat (f : option (Z * token) -> M B) p mx i t r :
  pat_nontrivia pat = true -> 0 <= p -> SS p = (i, t) :: r -> kmatch (kd t) pat = true -> fence_ok mx i = true ->
  bindM (accept ts pat) f (p, mx) = f (Some (i, t)) (i + 1, mx).
Proof. intros. apply bind_ok. eapply accept_hit; eassumption. Qed.

Lemma bind_expect_hit {B} pat (f : Z * token -> M B) p mx i t r :
  pat_nontrivia pat = true -> 0 <= p -> SS p = (i, t) :: r -> kmatch (kd t) pat = true -> fence_ok mx i = true ->
  bindM (expect ts pat) f (p, mx) = f (i, t) (i + 1, mx).
Proof.
  intros. apply bind_ok. unfold expect. erewrite bind_ok by (eapply accept_hit; eassumption). reflexivity.
Qed.

Lemma bind_accept_miss {B} P pat (f : option (Z * token) -> M B) p mx :
  pat_nontrivia pat = true -> 0 <= p -> follow P mx (SS p) -> (forall k0, P k0 = true -> kmatch k0 pat = false) ->
  bindM (accept ts pat) f (p, mx) = f None (p, mx).
Proof.
  intros Hp Hq Hf HP. apply bind_ok. apply accept_miss; [exact Hp | exact Hq|].
  unfold follow in Hf. destruct (peek mx (SS p)) as [[i t]|]; [apply HP, Hf | exact I].
Qed.

Lemma bind_accept_first_hit {B} ps (f : option (Z * token) -> M B) p mx i t r :
  forallb pat_nontrivia ps = true -> 0 <= p -> SS p = (i, t) :: r -> fence_ok mx i = true -> anyof ps (kd t) = true ->
  bindM (accept_first ts ps) f (p, mx) = f (Some (i, t)) (i + 1, mx).
Proof. intros. apply bind_ok. eapply accept_first_hit; eassumption. Qed.

Lemma bind_accept_first_miss {B} P ps (f : option (Z * token) -> M B) p mx :
  forallb pat_nontrivia ps = true -> 0 <= p -> follow P mx (SS p) -> (forall k0, P k0 = true -> nomatch ps k0 = true) ->
  bindM (accept_first ts ps) f (p, mx) = f None (p, mx).
Proof.
  intros Hp Hq Hf HP. apply bind_ok. apply accept_first_miss; [exact Hp | exact Hq|].
  unfold follow in Hf. destruct (peek mx (SS p)) as [[i t]|]; [apply HP, Hf | exact I].
Qed.

Lemma tok_is_kw p i t r d : 0 <= p -> SS p = (i, t) :: r -> kmatch (kd t) (pkw d) = true -> tok_is ts (is_kw d) i = true.   (* VD *)
Proof.
  intros Hp Hs Hk. destruct (sstream_cons ts p i t r Hp Hs) as (_ & _ & _ & Hta & _). unfold tok_is.
  change (AstWriter.tok_at ts i) with (ParserProofs.tok_at ts i). rewrite Hta, is_kw_kmatch. exact Hk.
Qed.

Lemma follow_known (q : pat) mx p i t r : SS p = (i, t) :: r -> kmatch (kd t) q = true -> follow (anyof [q]) mx (SS p).
Proof. intros Hs Hk. rewrite Hs. apply follow_head. unfold anyof. cbn [existsb]. rewrite Hk. reflexivity. Qed.

Lemma spos p i t r : 0 <= p -> SS p = (i, t) :: r -> p <= i /\ i < len /\ SS (i + 1) = r.
Proof. intros Hp Hs. destruct (sstream_cons ts p i t r Hp Hs) as (H1 & H2 & H3 & _). repeat split; assumption. Qed.


End Acc.

(* ---------------------------------------------------------------- tactics *)
Ltac prim :=
  repeat (first [ rewrite bind_get_pos | rewrite bind_set_pos | rewrite bind_ret | rewrite bind_mk
                | rewrite bind_get_max | rewrite bind_set_max | rewrite bind_assoc ]; cbv beta iota zeta).

Ltac lim_tac := first [assumption | lia].

Ltac pmiss :=
  let k0 := fresh in let H := fresh in intros k0 H;
  first [ eapply anyof_miss; [|exact H]; vm_compute; reflexivity
        | eapply nomatch_miss; [|exact H]; vm_compute; reflexivity
        | apply negb_true_iff in H; exact H ].

(* follow P' from a hypothesis follow P on the same stream *)
Ltac fw :=
  match goal with
  | Hf : follow ?P ?mx ?s |- follow ?P' ?mx ?s =>
      apply (follow_weaken P P' mx s); [|exact Hf];
      let k0 := fresh in let H := fresh in intros k0 H;
      first [ exact H
            | eapply anyof_sub; [|exact H]; vm_compute; reflexivity
            | eapply anyof_nomatch; [|exact H]; vm_compute; reflexivity
            | eapply nomatch_sub; [|exact H]; vm_compute; reflexivity ]
  end.

(* follow from the first token of the next construct *)
Ltac fhd H :=
  first [ eapply hd_follow_nomatch; [|exact H]; vm_compute; reflexivity
        | eapply hd_follow_anyof; [|exact H]; vm_compute; reflexivity ].

Ltac hit :=
  lazymatch goal with
  | |- context [bindM (accept ?ts ?pat) ?f (?p, ?mx)] =>
      match goal with
      | Hs : sstream ts p = (?i, ?t) :: ?r, Hk : kmatch (kd ?t) pat = true |- _ =>
          rewrite (bind_accept_hit ts pat f p mx i t r eq_refl ltac:(lia) Hs Hk ltac:(lim_tac)); cbv beta iota zeta; prim
      end
  | |- context [bindM (expect ?ts ?pat) ?f (?p, ?mx)] =>
      match goal with
      | Hs : sstream ts p = (?i, ?t) :: ?r, Hk : kmatch (kd ?t) pat = true |- _ =>
          rewrite (bind_expect_hit ts pat f p mx i t r eq_refl ltac:(lia) Hs Hk ltac:(lim_tac)); cbv beta iota zeta; prim
      end
  end.

Ltac miss :=
  lazymatch goal with
  | |- context [bindM (accept ?ts ?pat) ?f (?p, ?mx)] =>
      match goal with
      | Hf : follow ?P mx (sstream ts p) |- _ =>
          rewrite (bind_accept_miss ts P pat f p mx eq_refl ltac:(lia) Hf ltac:(pmiss)); cbv beta iota zeta; prim
      end
  end.

(* after a terminal has been inverted to  Hs : SS p = (i, t) :: s1  *)
Ltac after_term i t Hs Hk :=
  match type of Hs with
  | sstream ?ts ?p = (_, _) :: ?s1 =>
      let Hle := fresh "Hle" in let Hlt := fresh "Hlt" in let Hn := fresh "Hn" in
      destruct (spos ts p i t s1 ltac:(lia) Hs) as (Hle & Hlt & Hn);
      try (is_var s1; subst s1);
      match goal with
      | HC : ValidDomain1.CTX ts _ (Kw i) ?mx |- _ =>
          pose proof (CTX_kw ts _ i mx HC); pose proof (follow_known ts _ mx _ i t _ Hs Hk)
      | HC : ValidDomain1.CTX ts _ (Tok i ?t0) ?mx |- _ =>
          pose proof (CTX_tok ts _ i t0 mx HC); pose proof (follow_known ts _ mx _ i t _ Hs Hk)
      | _ => idtac
      end
  end.

Ltac tinv H :=
  let i := fresh "i" in let t := fresh "t" in let t0 := fresh "t0" in
  let Eg := fresh "Eg" in let Hs := fresh "Hs" in let Hk := fresh "Hk" in
  first [ apply kw_inv in H; destruct H as (i & t & Eg & Hs & Hk)
        | apply sym_inv in H; destruct H as (i & t & Eg & Hs & Hk)
        | apply tokc_inv in H; destruct H as (i & t0 & t & Eg & Hs & Hk) ];
  match type of Eg with ?w = _ => first [is_var w; subst w | injection Eg as Eg; try subst] end;
  after_term i t Hs Hk.

(* split  H : obind o f = Some s'  into the first step E and the rest H *)
Ltac osplit H E :=
  let s1 := fresh "s" in
  apply obind_some in H; destruct H as (s1 & E & H).

Ltac den_side :=
  first [ assumption | reflexivity | apply den_tok | apply den_pnone | apply den_pbool
        | rewrite den_lst; all2v_go
        | rewrite den_node by reflexivity; all2v_go ]
with all2v_go :=
  repeat first [ rewrite all2v_kw_l | rewrite all2v_kw_r | rewrite all2v_hid_r by reflexivity | rewrite all2v_hid_l
               | rewrite all2v_cons by den_side ];
  first [ apply all2v_nil | assumption ].

(* VD: an ExpValue node whose fields are visible *)
Ltac den_ev :=
  rewrite den_node; [all2v_go | reflexivity | apply loc_expvalue; cbn [existsb]; rewrite ?not_hidden_not_hid by assumption; reflexivity].

Ltac all2v_tac :=
  repeat first [ rewrite all2v_kw_l | rewrite all2v_kw_r | rewrite all2v_hid_r by reflexivity | rewrite all2v_hid_l
               | rewrite all2v_cons by den_side ];
  try apply all2v_nil.

Ltac open_node :=
  match goal with
  | HC : ValidDomain1.CTX ?ts _ (Node ?tag ?a ?b ?sh ?fs) ?mx |- _ =>
      is_var sh; pose proof (CTX_sh ts _ tag a b sh fs mx HC eq_refl); subst sh; apply CTX_node in HC; ctx_split HC
  end.

Ltac shape_ev :=
  cbn [exp_shape]; intros _;
  match goal with
  | |- exists hs v, [?a] = hs ++ [v] /\ _ => exists [], a
  | |- exists hs v, [?a; ?b] = hs ++ [v] /\ _ => exists [a], b
  end; repeat split; first [reflexivity | assumption].

Ltac shape_no := cbn [exp_shape]; let H := fresh in intros H; vm_compute in H; discriminate H.

Ltac rt_call L :=
  eapply RT_bind; [ eapply L | cbv beta; intros ? ? ? ].

Section Step.
Variable ts : list token.
Variable nts : bool.
Local Notation SS := (sstream ts).
Local Notation lim := (lim ts).
Local Notation len := (zlen ts).
Local Notation CTX := (CTX ts nts).
Local Notation CTXL := (CTXL ts nts).
Local Notation den := (den ts nts).
Local Notation all2v := (all2v ts nts).
Local Notation ditems := (ditems ts nts).
Local Notation dom := (dom ts nts).

(* ---------------------------------------------------------------- the statements *)
Definition exp_ok (Gd : Z -> Prop) (m : M tree) : Prop :=
  forall p mx n items s', Gd p -> g_chain n true true items (SS p) = Some s' -> CTXL items mx -> follow fexp mx s' ->
  RT ts (m (p, mx)) mx (fun t p' => SS p' = s' /\ p < p' /\ ditems items t = true /\
                                  (forall x, items = [x] -> den x t = true) /\ isnode t p' /\ exp_shape t /\
                                  (forall a b sh i j x, items = [Node tExpValue a b sh [Paren i j x]] ->
                                     p' = j + 1 /\ exists s0 e0 x', t = Node tExpValue s0 e0 false [Paren i j x'])).   (* VD *)

Definition exp_none (Gd : Z -> Prop) (m : M tree) : Prop :=
  forall p mx, Gd p -> follow fstop mx (SS p) -> m (p, mx) = Ok (PNone, (p, mx)).

Definition binop_ok (Gd : Z -> Prop) (m : tree -> M tree) : Prop :=
  forall first p mx n items s', Gd p -> g_chain n false true items (SS p) = Some s' -> CTXL items mx ->
  follow fexp mx s' -> isnode first p -> exp_shape first -> dom first = true ->                                    (* VD *)
  RT ts (m first (p, mx)) mx (fun t p' => SS p' = s' /\ p <= p' /\
       (exists ys, flat_exp (view t) = flat_exp (view first) ++ ys /\ all2d items ys = true) /\
       (items = [] -> t = first /\ p' = p) /\ isnode t p' /\ exp_shape t /\ dom t = true).

Definition chunk_ok (Gd : Z -> Prop) (m : M tree) : Prop :=
  forall p mx n g s', Gd p -> g_chunk n g (SS p) = Some s' -> CTX g mx -> follow fblock mx s' ->
  RT ts (m (p, mx)) mx (fun t p' => SS p' = s' /\ p <= p' /\ den g t = true /\
                                  exists fs, t = Node tChunk p p' false [Lst fs]).

Definition semis_ok (Gd : Z -> Prop) (m : M (list tree)) : Prop :=
  forall p mx l s', Gd p -> g_semis l (SS p) = Some s' -> CTXL l mx -> follow (nomatch [psym ";"%bs]) mx s' ->
  RT ts (m (p, mx)) mx (fun tl p' => SS p' = s' /\ p <= p' /\ (views tl = [] /\ forallb is_kwt tl = true)).   (* VD *)

Definition semis_stats_ok (Gd : Z -> Prop) (m : M (list tree)) : Prop :=
  forall p mx n l s', Gd p -> g_stats n l (SS p) = Some s' -> CTXL l mx -> follow (nomatch [psym ";"%bs]) mx s' ->
  RT ts (m (p, mx)) mx (fun tl p' => p <= p' /\ (views tl = [] /\ forallb is_kwt tl = true) /\      (* VD *)
       exists ks rest n', l = ks ++ rest /\ forallb is_kwt ks = true /\
                          g_stats n' rest (SS p') = Some s' /\ nosemi rest).

Definition stats_ok (Gd : Z -> Prop) (m : M (list tree)) : Prop :=
  forall p mx n l s', Gd p -> g_stats n l (SS p) = Some s' -> CTXL l mx -> pguard true l = true ->
  follow fblock mx s' ->
  RT ts (m (p, mx)) mx (fun tl p' => p <= p' /\
       exists l1 l2 n', l = l1 ++ l2 /\ all2v l1 tl = true /\ g_stats n' l2 (SS p') = Some s' /\
                        (l2 = [] \/ exists x r, l2 = x :: r /\ is_tag x tStatReturn = true)).

Definition namelist_loop_ok (Gd : Z -> Prop) (m : M (list tree)) : Prop :=
  forall p mx l s', Gd p -> sep_tail (tokc CName) (sym ","%bs) l (SS p) = Some s' -> CTXL l mx -> nl_stop mx s' ->
  RT ts (m (p, mx)) mx (fun tl p' => SS p' = s' /\ p <= p' /\ all2v l tl = true).

Definition funcname_loop_ok (Gd : Z -> Prop) (m : M (list tree)) : Prop :=
  forall p mx l s', Gd p -> sep_tail (tokc CName) (sym "."%bs) l (SS p) = Some s' -> CTXL l mx ->
  follow (nomatch [psym "."%bs]) mx s' ->
  RT ts (m (p, mx)) mx (fun tl p' => SS p' = s' /\ p <= p' /\ all2v l tl = true).

Definition explist_loop_ok (Gd : Z -> Prop) (m : M (list tree)) : Prop :=
  forall p mx n l s', Gd p -> sep_tail (g_exp n) (sym ","%bs) l (SS p) = Some s' -> CTXL l mx -> follow fexpl mx s' ->
  RT ts (m (p, mx)) mx (fun tl p' => SS p' = s' /\ p <= p' /\ all2v l tl = true).

Definition varlist_loop_ok (Gd : Z -> Prop) (m : M (list tree)) : Prop :=
  forall p mx n l s', Gd p -> sep_tail (g_var n) (sym ","%bs) l (SS p) = Some s' -> CTXL l mx ->
  follow (anyof gassign) mx s' ->
  RT ts (m (p, mx)) mx (fun tl p' => SS p' = s' /\ p <= p' /\ all2v l tl = true).

Definition fields_loop_ok (Gd : Z -> Prop) (m : M (list tree)) : Prop :=
  forall p mx n l s', Gd p -> g_ftail n l (SS p) = Some s' -> CTXL l mx -> follow (anyof [psym "}"%bs]) mx s' ->
  (nts = true -> Nat.even (length l) = true) ->                                                                (* VD *)
  RT ts (m (p, mx)) mx (fun tl p' => SS p' = s' /\ p <= p' /\
                          (all2v l tl = true /\ fields_strict tl = true /\ (l = [] -> tl = []) /\
                           (nts = true -> last_hid tl = false))).                                              (* VD *)

Definition elseif_loop_ok (Gd : Z -> Prop) (m : M (list tree)) : Prop :=
  forall p mx n l s', Gd p -> g_elseifs n l (SS p) = Some s' -> CTXL l mx -> follow (anyof [pkw "end"%bs]) mx s' ->
  RT ts (m (p, mx)) mx (fun tl p' => p <= p' /\
       exists l1 l2 n', l = l1 ++ l2 /\ (all2v l1 tl = true /\ forallb pair_has_cond tl = true) /\                (* VD *)
                        g_elseifs n' l2 (SS p') = Some s' /\
                        (l2 = [] \/ exists el b, l2 = [el; Lst [PNone; b]])).

Definition precur_ok (Gd : Z -> Prop) (m : tree -> M tree) : Prop :=
  forall l first gfirst p mx s', Gd p -> g_sufs l (SS p) = Some s' -> Forall (sfx_ok ts nts mx) l -> follow fcont mx s' ->
  den gfirst first = true -> is_hidden first = false -> is_none first = false ->
  (l <> [] -> is_paren first = false) ->                                                                       (* VD *)
  RT ts (m first (p, mx)) mx (fun t p' => SS p' = s' /\ p <= p' /\ den (wraps gfirst l) t = true /\
                                       (l = [] -> t = first /\ p' = p) /\ is_hidden t = false /\ is_none t = false).

Record comp (Gd : Z -> Prop) (R : funs) : Prop := mkComp {
  c_exp : exp_ok Gd (r_exp R);
  c_exp_none : exp_none Gd (r_exp R);
  c_binop : binop_ok Gd (r_binop R);
  c_chunk : chunk_ok Gd (r_chunk R);
  c_semis : semis_ok Gd (r_semis R);
  c_semis_stats : semis_stats_ok Gd (r_semis R);
  c_stats : stats_ok Gd (r_stats_loop R);
  c_namelist_loop : namelist_loop_ok Gd (r_namelist_loop R);
  c_funcname_loop : funcname_loop_ok Gd (r_funcname_loop R);
  c_explist_loop : explist_loop_ok Gd (r_explist_loop R);
  c_varlist_loop : varlist_loop_ok Gd (r_varlist_loop R);
  c_fields_loop : fields_loop_ok Gd (r_fields_loop R);
  c_elseif_loop : elseif_loop_ok Gd (r_elseif_loop R);
  c_precur : precur_ok Gd (r_precur R)
}.

Variable R : funs.
Variable k : Z.
Definition G (p : Z) : Prop := 0 <= p /\ (len - p < k /\ p <= len).
Definition G' (p : Z) : Prop := 0 <= p /\ (len - p <= k /\ p <= len).
Hypothesis HR : comp G R.

Ltac gd := unfold G, G' in *; lia.

(* ---------------------------------------------------------------- semicolons *)
Lemma L_semis : semis_ok G' (semis_def ts R).
Proof.
  intros p mx l s' HG Hg HC Hf. destruct HG as [Hp0 HGk]. unfold semis_def. destruct l as [|c r]; cbn [g_semis] in Hg.
  - injection Hg as <-. miss. rewrite ret_eq. apply RT_ok; [lia|]. repeat split; first [lia | reflexivity].
  - osplit Hg E. apply CTXL_cons in HC. destruct HC as [HC1 HC2]. tinv E. hit.
    eapply RT_bind; [eapply (c_semis _ _ HR); [gd | exact Hg | exact HC2 | exact Hf]|].
    cbv beta. intros tl p' Hl_px (Q1 & Q2 & Q3). rewrite ret_eq. apply RT_ok; [lia|]. split; [exact Q1|]. split; [lia|].
    rewrite views_cons. exact Q3.
Qed.

(* ---------------------------------------------------------------- name lists *)
Lemma L_namelist_loop : namelist_loop_ok G' (namelist_loop_def ts R).
Proof.
  intros p mx l s' HG Hg HC Hnl. destruct HG as [Hp0 HGk]. unfold namelist_loop_def. prim.
  destruct l as [|c [|x r]]; cbn [sep_tail] in Hg; [|discriminate|].
  - injection Hg as <-. unfold bindM at 1. rewrite accept_peek by first [reflexivity | lia].
    unfold nl_stop in Hnl. destruct (peek mx (SS p)) as [[i t]|] eqn:Epk.
    + rewrite matches_kd. destruct (kmatch (kd t) (psym ","%bs)) eqn:Ek.
      * destruct (peek_some _ _ _ _ Epk) as (r2 & Hs & Hfo). rewrite Hs in Hnl.
        destruct (spos ts p i t r2 Hp0 Hs) as (Hle & Hlt & Hn). rewrite <- Hn in Hnl.
        cbv beta iota zeta. miss. prim. rewrite ret_eq. apply RT_ok; [lia|]. repeat split; first [lia | reflexivity].
      * cbv beta iota zeta. rewrite ret_eq. apply RT_ok; [lia|]. repeat split; first [lia | reflexivity].
    + cbv beta iota zeta. rewrite ret_eq. apply RT_ok; [lia|]. repeat split; first [lia | reflexivity].
  - osplit Hg E1. osplit Hg E2. apply CTXL_cons in HC. destruct HC as [HC1 HC]. apply CTXL_cons in HC. destruct HC as [HC2 HC].
    tinv E1. tinv E2. hit. hit.
    eapply RT_bind; [eapply (c_namelist_loop _ _ HR); [gd | exact Hg | exact HC | exact Hnl]|].
    cbv beta. intros tl p' Hl_px (Q1 & Q2 & Q3). rewrite ret_eq. apply RT_ok; [lia|]. split; [exact Q1|]. split; [lia|].
    all2v_tac. exact Q3.
Qed.

Lemma L_namelist p mx g s' : G' p -> namelist g (SS p) = Some s' -> CTX g mx -> nl_stop mx s' ->
  RT ts (namelist_def ts R (p, mx)) mx (fun t p' => SS p' = s' /\ p < p' /\ den g t = true /\ is_none t = false /\ is_hidden t = false).
Proof.
  intros HG Hg HC Hnl. destruct HG as [Hp0 HGk]. unfold namelist in Hg.
  destruct g as [tag a b sh fs| | | | | | | |]; try discriminate. destruct fs as [|[| |l| | | | | |] [|? ?]]; try discriminate.
  destruct (tag =? tNameList) eqn:Et; [|discriminate]. apply Z.eqb_eq in Et. subst tag.
  pose proof (CTX_sh ts _ _ _ _ _ _ _ HC eq_refl) as ->.
  apply CTX_node in HC. apply CTXL_cons in HC. destruct HC as [HC _]. apply CTX_lst in HC.
  destruct l as [|x r]; cbn [sep_list] in Hg; [discriminate|]. osplit Hg E. apply CTXL_cons in HC. destruct HC as [HC1 HC].
  tinv E. unfold namelist_def. prim. hit.
  eapply RT_bind; [eapply L_namelist_loop; [gd | exact Hg | exact HC | exact Hnl]|].
  cbv beta. intros tl p' Hl_px (Q1 & Q2 & Q3). rewrite mk_eq. apply RT_ok; [lia|]. split; [exact Q1|]. split; [lia|].
  split; [|split; reflexivity]. den_side.
Qed.

(* ---------------------------------------------------------------- function names *)
Lemma L_funcname_loop : funcname_loop_ok G' (funcname_loop_def ts R).
Proof.
  intros p mx l s' HG Hg HC Hf. destruct HG as [Hp0 HGk]. unfold funcname_loop_def.
  destruct l as [|c [|x r]]; cbn [sep_tail] in Hg; [|discriminate|].
  - injection Hg as <-. miss. rewrite ret_eq. apply RT_ok; [lia|]. repeat split; first [lia | reflexivity].
  - osplit Hg E1. osplit Hg E2. apply CTXL_cons in HC. destruct HC as [HC1 HC]. apply CTXL_cons in HC. destruct HC as [HC2 HC].
    tinv E1. tinv E2. hit. hit.
    eapply RT_bind; [eapply (c_funcname_loop _ _ HR); [gd | exact Hg | exact HC | exact Hf]|].
    cbv beta. intros tl p' Hl_px (Q1 & Q2 & Q3). rewrite ret_eq. apply RT_ok; [lia|]. split; [exact Q1|]. split; [lia|].
    all2v_tac. exact Q3.
Qed.

Definition g_funcname (g : tree) (s : stream) : option stream :=
  match g with
  | Node t2 _ _ _ (Lst path :: m) =>
      if t2 =? tFunctionName then
        s <~ sep_list (tokc CName) (sym "."%bs) path s ;;
        match m with
        | [PNone] => Some s
        | [c; nm] => s <~ sym ":"%bs c s ;; tokc CName nm s
        | _ => None end
      else None
  | _ => None
  end.

Lemma L_funcname p mx g s' : G' p -> g_funcname g (SS p) = Some s' -> CTX g mx -> follow (anyof [psym "("%bs]) mx s' ->
  RT ts (funcname_def ts R (p, mx)) mx (fun t p' => SS p' = s' /\ p < p' /\ den g t = true /\ is_none t = false /\ is_hidden t = false).
Proof.
  intros HG Hg HC Hf. destruct HG as [Hp0 HGk]. unfold g_funcname in Hg.
  destruct g as [tag a b sh fs| | | | | | | |]; try discriminate. destruct fs as [|[| |path| | | | | |] m]; try discriminate.
  gtag Hg tFunctionName. pose proof (CTX_sh ts _ _ _ _ _ _ _ HC eq_refl) as ->.
  apply CTX_node in HC. apply CTXL_cons in HC. destruct HC as [HCp HCm]. apply CTX_lst in HCp.
  osplit Hg E. destruct path as [|x r]; cbn [sep_list] in E; [discriminate|]. osplit E E1.
  apply CTXL_cons in HCp. destruct HCp as [HC1 HCp]. tinv E1. unfold funcname_def. prim. hit.
  destruct m as [|c [|nm [|? ?]]]; try discriminate.
  - destruct c; try discriminate. injection Hg as <-.
    eapply RT_bind; [eapply L_funcname_loop; [gd | exact E | exact HCp | fw]|].
    cbv beta. intros tl p' Hl_px (Q1 & Q2 & Q3). subst s. miss. rewrite mk_eq. apply RT_ok; [lia|].
    split; [reflexivity|]. split; [lia|]. split; [|split; reflexivity]. den_side.
  - assert (Hc : exists ci, c = Kw ci) by (destruct c; try discriminate; eexists; reflexivity).
    destruct Hc as (ci & ->). osplit Hg E2. pose proof (hd_sym _ _ _ _ E2) as Hh.
    eapply RT_bind; [eapply L_funcname_loop; [gd | exact E | exact HCp | fhd Hh]|].
    cbv beta. intros tl p' Hl_px (Q1 & Q2 & Q3). subst s. ctx_split HCm. tinv E2. tinv Hg. hit. hit.
    rewrite mk_eq. apply RT_ok; [lia|].
    split; [reflexivity|]. split; [lia|]. split; [|split; reflexivity]. den_side.
  - exfalso. gmatch Hg.
Qed.

(* ---------------------------------------------------------------- expression lists *)
Lemma R_exp p mx n g s' : G p -> g_exp n g (SS p) = Some s' -> CTX g mx -> follow fexp mx s' ->
  RT ts (r_exp R (p, mx)) mx (fun t p' => SS p' = s' /\ p < p' /\ den g t = true /\ isnode t p' /\ exp_shape t).
Proof.
  intros HG Hg HC Hf. destruct (g_exp_items _ _ _ _ Hg) as (m & Hm).
  destruct (c_exp _ _ HR p mx m (items_of g) s' HG Hm (CTX_items ts _ g mx HC) Hf) as (t & p' & E & Hl' & Q1 & Q2 & Q3 & Q4 & Q5 & Q6 & Q7).
  exists t, p'. split; [exact E|]. split; [exact Hl'|]. repeat split; try assumption.
  apply den_of_items; try assumption. eexists _, _, _. exact Hg.
Qed.

(* the condition of a one-line if: the cursor ends right after the closing parenthesis *)
Lemma R_exp_paren p mx n i j x s' : G p -> g_prefix n (Paren i j x) (SS p) = Some s' -> CTX (Paren i j x) mx -> follow fexp mx s' ->
  RT ts (r_exp R (p, mx)) mx (fun t p' => SS p' = s' /\ p < p' /\ den (Node tExpValue 0 0 false [Paren i j x]) t = true /\
                                        isnode t p' /\ exp_shape t /\
                                        (p' = j + 1 /\ exists s0 e0 x', t = Node tExpValue s0 e0 false [Paren i j x'])).   (* VD *)
Proof.
  intros HG Hg HC Hf.
  assert (Hm : g_chain (S (S n)) true true [Node tExpValue 0 0 false [Paren i j x]] (SS p) = Some s').
  { cbn [g_chain]. change (g_operand (S n) (Node tExpValue 0 0 false [Paren i j x]) (SS p)) with (g_prefix n (Paren i j x) (SS p)).
    rewrite Hg. reflexivity. }
  assert (HCi : CTXL [Node tExpValue 0 0 false [Paren i j x]] mx).
  { constructor; [|constructor]. destruct HC as (H1 & H2 & H3 & H4). apply andb_true_iff in H1. destruct H1 as [H1 H1g].   (* VD *)
    split; [|split; [|split]].
    - apply andb_true_iff. split.
      + cbn [in_frag forallb]. change (in_frag (Paren i j x)) with (in_frag x). cbn [in_frag] in H1. rewrite H1. reflexivity.
      + apply gcond_expvalue, H1g.
    - cbn [tokdata_ok forallb]. cbn [tokdata_ok] in H2. rewrite H2. reflexivity.
    - intros y Hy. apply H3. cbn [short_ifs flat_map app] in Hy. rewrite app_nil_r in Hy. exact Hy.
    - intros y Hy. apply H4. rewrite leaves_node1 in Hy. exact Hy. }
  destruct (c_exp _ _ HR p mx _ _ s' HG Hm HCi Hf) as (t & p' & E & Hl' & Q1 & Q2 & Q3 & Q4 & Q5 & Q6 & Q7).
  exists t, p'. split; [exact E|]. split; [exact Hl'|]. split; [exact Q1|]. split; [exact Q2|].
  split; [apply Q4; reflexivity|]. split; [exact Q5|]. split; [exact Q6|]. eapply Q7. reflexivity.
Qed.

Lemma sep_tail_follow (item : tree -> stream -> option stream) mx r s2 s' :
  sep_tail item (sym ","%bs) r s2 = Some s' -> follow fexpl mx s' -> follow fexp mx s2.
Proof.
  intros H Hf. destruct r as [|c [|x r]]; cbn [sep_tail] in H; [|discriminate|].
  - injection H as <-. fw.
  - apply obind_some in H. destruct H as (s3 & E & _). pose proof (hd_sym _ _ _ _ E) as Hh. fhd Hh.
Qed.

Lemma L_explist_loop : explist_loop_ok G' (explist_loop_def ts R).
Proof.
  intros p mx n l s' HG Hg HC Hf. destruct HG as [Hp0 HGk]. unfold explist_loop_def.
  destruct l as [|c [|x r]]; cbn [sep_tail] in Hg; [|discriminate|].
  - injection Hg as <-. miss. rewrite ret_eq. apply RT_ok; [lia|]. repeat split; first [lia | reflexivity].
  - osplit Hg E1. osplit Hg E2. apply CTXL_cons in HC. destruct HC as [HC1 HC]. apply CTXL_cons in HC. destruct HC as [HC2 HC].
    tinv E1. hit.
    eapply RT_bind; [eapply R_exp; [gd | exact E2 | exact HC2 | eapply sep_tail_follow; eassumption]|].
    cbv beta. intros e p1 Hl_p1 (Q1 & Q2 & Q3 & Q4 & Q5). subst s0.
    destruct (isnode_facts _ _ Q4) as (Qh & Qn & _). rewrite bind_assert by exact Qn.
    eapply RT_bind; [eapply (c_explist_loop _ _ HR); [gd | exact Hg | exact HC | exact Hf]|].
    cbv beta. intros tl p' Hl_px (Q6 & Q7 & Q8). rewrite ret_eq. apply RT_ok; [lia|]. split; [exact Q6|]. split; [lia|].
    all2v_tac. exact Q8.
Qed.

Lemma L_explist p mx n g s' : G p -> g_explist n g (SS p) = Some s' -> CTX g mx -> follow fexpl mx s' ->
  RT ts (explist_def ts R (p, mx)) mx (fun t p' => SS p' = s' /\ p < p' /\ den g t = true /\ is_none t = false /\ is_hidden t = false).
Proof.
  intros HG Hg HC Hf. destruct HG as [Hp0 HGk]. destruct n; [discriminate|]. cbn [g_explist] in Hg.
  destruct g as [tag a b sh fs| | | | | | | |]; try discriminate. destruct fs as [|[| |l| | | | | |] [|? ?]]; try discriminate.
  gtag Hg tExpList. pose proof (CTX_sh ts _ _ _ _ _ _ _ HC eq_refl) as ->.
  apply CTX_node in HC. apply CTXL_cons in HC. destruct HC as [HC _]. apply CTX_lst in HC.
  destruct l as [|x r]; cbn [sep_list] in Hg; [discriminate|]. osplit Hg E. apply CTXL_cons in HC. destruct HC as [HC1 HC].
  unfold explist_def. prim.
  eapply RT_bind; [eapply R_exp; [split; lia | exact E | exact HC1 | eapply sep_tail_follow; eassumption]|].
  cbv beta. intros e p1 Hl_p1 (Q1 & Q2 & Q3 & Q4 & Q5). subst s.
  destruct (isnode_facts _ _ Q4) as (Qh & Qn & _). rewrite Qn.
  eapply RT_bind; [eapply L_explist_loop; [gd | exact Hg | exact HC | exact Hf]|].
  cbv beta. intros tl p' Hl_px (Q6 & Q7 & Q8). rewrite mk_eq. apply RT_ok; [lia|]. split; [exact Q6|]. split; [lia|].
  split; [|split; reflexivity]. den_side.
Qed.

Lemma L_explist_none p mx : G p -> follow fstop mx (SS p) -> explist_def ts R (p, mx) = Ok (PNone, (p, mx)).
Proof.
  intros HG Hf. unfold explist_def. prim. rewrite (bind_ok _ _ _ _ _ (c_exp_none _ _ HR p mx HG Hf)).
  cbn [is_none strip_paren]. prim. reflexivity.
Qed.

(* ---------------------------------------------------------------- things that are not there *)
Lemma L_table_none p mx : 0 <= p -> follow (nomatch [psym "{"%bs]) mx (SS p) ->
  tableconstructor_def ts R (p, mx) = Ok (PNone, (p, mx)).
Proof. intros Hp Hf. unfold tableconstructor_def. prim. miss. reflexivity. Qed.

Lemma L_args_none p mx : 0 <= p -> follow (nomatch args_first) mx (SS p) -> args_def ts R (p, mx) = Ok (PNone, (p, mx)).
Proof.
  intros Hp Hf. unfold args_def. prim. miss.
  rewrite (bind_ok _ _ _ _ _ (L_table_none p mx Hp ltac:(fw))). cbn [is_none strip_paren negb]. miss. reflexivity.
Qed.

Lemma L_function_none p mx : 0 <= p -> follow (nomatch [pkw "function"%bs]) mx (SS p) ->
  function_def ts R (p, mx) = Ok (PNone, (p, mx)).
Proof. intros Hp Hf. unfold function_def. prim. miss. reflexivity. Qed.

Lemma L_prefix_none p mx : 0 <= p -> follow (nomatch prefix_first) mx (SS p) -> prefixexp_def ts R (p, mx) = Ok (PNone, (p, mx)).
Proof. intros Hp Hf. unfold prefixexp_def. prim. miss. miss. reflexivity. Qed.

Lemma L_field_none p mx : G p -> follow (anyof [psym "}"%bs]) mx (SS p) -> field_def ts R (p, mx) = Ok (PNone, (p, mx)).
Proof.
  intros HG Hf. destruct HG as [Hp0 HGk]. unfold field_def. prim. miss. miss. prim.
  rewrite (bind_ok _ _ _ _ _ (c_exp_none _ _ HR p mx (conj Hp0 HGk) ltac:(fw))). reflexivity.
Qed.

(* ---------------------------------------------------------------- table constructors *)
Definition field_end : list pat := [psym ","%bs; psym ";"%bs; psym "}"%bs].

Lemma L_field p mx n g s' : G p -> g_field n g (SS p) = Some s' -> CTX g mx -> follow (anyof field_end) mx s' ->
  RT ts (field_def ts R (p, mx)) mx (fun t p' => SS p' = s' /\ p < p' /\ den g t = true /\ is_none t = false /\ is_hidden t = false).
Proof.
  intros HG Hg HC Hf. destruct HG as [Hp0 HGk]. destruct n; [discriminate|]. cbn [g_field] in Hg.
  destruct g as [tag a b sh fs| | | | | | | |]; try discriminate. unfold field_def. prim.
  gtag Hg tFieldExpKey.
  { gmatch Hg. pose proof (CTX_sh ts _ _ _ _ _ _ _ HC eq_refl) as ->. apply CTX_node in HC. ctx_split HC.
    osplit Hg E1. osplit Hg E2. osplit Hg E3. osplit Hg E4. tinv E1. hit.
    pose proof (hd_sym _ _ _ _ E3) as Hh.
    eapply RT_bind; [eapply R_exp; [gd | exact E2 | eassumption | fhd Hh]|].
    cbv beta. intros e1 p1 Hl_p1 (Q1 & Q2 & Q3 & Q4 & Q5). subst s0.
    destruct (isnode_facts _ _ Q4) as (Qh & Qn & _). rewrite bind_assert by exact Qn.
    tinv E3. hit. tinv E4. hit.
    eapply RT_bind; [eapply R_exp; [gd | exact Hg | eassumption | fw]|].
    cbv beta. intros e2 p2 Hl_p2 (Q6 & Q7 & Q8 & Q9 & Q10).
    destruct (isnode_facts _ _ Q9) as (Qh2 & Qn2 & _). rewrite bind_assert by exact Qn2.
    rewrite mk_eq. apply RT_ok; [lia|]. split; [exact Q6|]. split; [lia|]. split; [|split; reflexivity]. den_side. }
  gtag Hg tFieldNamedKey.
  { gmatch Hg. pose proof (CTX_sh ts _ _ _ _ _ _ _ HC eq_refl) as ->. apply CTX_node in HC. ctx_split HC.
    osplit Hg E1. osplit Hg E2. tinv E1. miss. hit. tinv E2. hit.
    eapply RT_bind; [eapply R_exp; [gd | exact Hg | eassumption | fw]|].
    cbv beta. intros e2 p2 Hl_p2 (Q6 & Q7 & Q8 & Q9 & Q10).
    destruct (isnode_facts _ _ Q9) as (Qh2 & Qn2 & _). rewrite bind_assert by exact Qn2.
    rewrite mk_eq. apply RT_ok; [lia|]. split; [exact Q6|]. split; [lia|]. split; [|split; reflexivity]. den_side. }
  gtag Hg tFieldExp. gmatch Hg. match type of Hg with g_exp _ ?x _ = _ => rename x into ge end.
  pose proof (CTX_sh ts _ _ _ _ _ _ _ HC eq_refl) as ->. apply CTX_node in HC. ctx_split HC.
  pose proof (g_exp_head _ _ _ _ Hg) as Hh. pose proof Hh as (hi & ht & r0 & Hs & Ha).
  assert (Hf1 : follow (nomatch [psym "["%bs]) mx (SS p)) by (fhd Hh). miss.
  assert (Hrest : RT ts ((_ <- set_pos p;; e <- r_exp R;; (if is_none e then ret e else mk tFieldExp p [e])) (p, mx)) mx
            (fun t1 p' => SS p' = s' /\ p < p' /\ den (Node tFieldExp a b false [ge]) t1 = true /\ is_none t1 = false /\ is_hidden t1 = false)).
  { prim. eapply RT_bind; [eapply R_exp; [split; lia | exact Hg | eassumption | fw]|].
    cbv beta. intros e2 p2 Hl_p2 (Q6 & Q7 & Q8 & Q9 & Q10).
    destruct (isnode_facts _ _ Q9) as (Qh2 & Qn2 & _). rewrite Qn2.
    rewrite mk_eq. apply RT_ok; [lia|]. split; [exact Q6|]. split; [lia|]. split; [|split; reflexivity]. den_side. }
  destruct (kmatch (kd ht) (PClass CName)) eqn:Ek.
  - destruct (spos ts p hi ht r0 Hp0 Hs) as (Hle & Hlt & Hn). rewrite Hs in Hg.
    assert (Hil : fence_ok mx hi = true).
    { destruct HC0 as (_ & _ & _ & Hfen). apply Hfen. eapply name_exp_leaf; eassumption. }
    hit. assert (Hf2 : follow (nomatch [psym "="%bs]) mx (SS (hi + 1))).
    { rewrite Hn. eapply name_exp_second; eassumption. }
    miss. rewrite <- Hs in Hg. exact Hrest.
  - assert (Hf2 : follow (fun k0 => negb (kmatch k0 (PClass CName))) mx (SS p)).
    { rewrite Hs. apply follow_head. rewrite Ek. reflexivity. }
    miss. prim. exact Hrest.
Qed.

Lemma ftail_follow n r s1 s' mx : g_ftail n r s1 = Some s' -> follow (anyof [psym "}"%bs]) mx s' -> follow (anyof field_end) mx s1.
Proof.
  intros H Hf. destruct r as [|c r']; cbn [g_ftail] in H.
  - injection H as <-. fw.
  - apply obind_some in H. destruct H as (s2 & H & _). destruct (sym ","%bs c s1) eqn:E.
    + pose proof (hd_sym _ _ _ _ E) as Hh. fhd Hh.
    + pose proof (hd_sym _ _ _ _ H) as Hh. fhd Hh.
Qed.

Lemma g_fields_unfold n l s :
  g_fields (S n) l s = match l with [] => Some s | f :: r => s <~ g_field n f s ;; g_ftail n r s end.
Proof. reflexivity. Qed.

Lemma L_fields_loop : fields_loop_ok G' (fields_loop_def ts R).
Proof.
  intros p mx n l s' HG Hg HC Hf Hev. destruct HG as [Hp0 HGk].
  destruct l as [|c r']; cbn [g_ftail] in Hg.
  - unfold fields_loop_def. injection Hg as <-. miss. miss. rewrite ret_eq. apply RT_ok; [lia|]. repeat split; first [lia | reflexivity].
  - osplit Hg E. apply CTXL_cons in HC. destruct HC as [HC1 HC].
    assert (Hsep : exists i t, c = Kw i /\ SS p = (i, t) :: s /\
              fields_loop_def ts R (p, mx) =
              (f <- field_def ts R;; (if is_none f then ret [Kw i; Hid f] else r <- r_fields_loop R;; ret (Kw i :: f :: r))) (i + 1, mx)).
    { unfold fields_loop_def. destruct (sym ","%bs c (SS p)) eqn:E1.
      - injection E as <-. tinv E1. exists i, t. split; [reflexivity|]. split; [assumption|].
        hit. prim. reflexivity.
      - tinv E. exists i, t. split; [reflexivity|]. split; [assumption|].
        miss. hit. reflexivity. }
    destruct Hsep as (i & t & -> & Hs & ->). destruct (spos ts p i t s Hp0 Hs) as (Hle & Hlt & Hn). subst s.
    destruct n; [discriminate|]. rewrite g_fields_unfold in Hg. destruct r' as [|f r''].
    + injection Hg as <-. rewrite (bind_ok _ _ _ _ _ (L_field_none (i + 1) mx ltac:(gd) Hf)).
      cbn [is_none strip_paren]. rewrite ret_eq. apply RT_ok; [lia|]. split; [reflexivity|]. split; [lia|].
      split; [reflexivity|]. split; [reflexivity|]. split; [discriminate|]. intros Hn. discriminate (Hev Hn).    (* VD *)
    + osplit Hg E2. apply CTXL_cons in HC. destruct HC as [HC2 HC].
      eapply RT_bind; [eapply L_field; [gd | exact E2 | exact HC2 | eapply ftail_follow; eassumption]|].
      cbv beta. intros f1 p1 Hl_p1 (Q1 & Q2 & Q3 & Q4 & Q5). subst s. rewrite Q4.
      eapply RT_bind; [eapply (c_fields_loop _ _ HR); [gd | exact Hg | exact HC | exact Hf | exact Hev]|].
      cbv beta. intros tl p' Hl_px (Q6 & Q7 & Q8 & Q8s & _ & Q8h). rewrite ret_eq. apply RT_ok; [lia|]. split; [exact Q6|]. split; [lia|].
      split; [all2v_tac; exact Q8|]. split; [|split; [discriminate|]].                                          (* VD *)
      * change (fields_strict (Kw i :: f1 :: tl)) with (fields_strict (f1 :: tl)). rewrite fields_strict_cons by exact Q5. exact Q8s.
      * intros Hn. apply last_hid_cons2; [exact Q5 | exact (Q8h Hn)].
Qed.

Lemma L_table p mx n g s' : G' p -> g_table n g (SS p) = Some s' -> CTX g mx ->
  RT ts (tableconstructor_def ts R (p, mx)) mx (fun t p' => SS p' = s' /\ p < p' /\ den g t = true /\ is_none t = false /\ is_hidden t = false).
Proof.
  intros HG Hg HC. destruct HG as [Hp0 HGk]. destruct n; [discriminate|]. cbn [g_table] in Hg.
  destruct g as [tag a b sh fs| | | | | | | |]; try discriminate. gmatch Hg. gtag Hg tTableConstructor.
  pose proof (CTX_sh ts _ _ _ _ _ _ _ HC eq_refl) as ->. pose proof (CTX_gnts _ _ _ _ HC) as Hgn. apply CTX_node in HC. ctx_split HC. apply CTX_lst in HC1.
  osplit Hg E1. osplit Hg E2. tinv E1. unfold tableconstructor_def. prim. hit.
  pose proof (hd_sym _ _ _ _ Hg) as Hh.
  assert (Hfe : follow (anyof [psym "}"%bs]) mx s0) by (fhd Hh).
  destruct n; [discriminate|]. rewrite g_fields_unfold in E2. destruct l as [|f r].
  - injection E2 as <-. rewrite (bind_ok _ _ _ _ _ (L_field_none (i + 1) mx ltac:(gd) Hfe)).
    eapply RT_bind; [eapply (L_fields_loop (i + 1) mx n []); [gd | reflexivity | constructor | exact Hfe | reflexivity]|].
    cbv beta. intros tl p1 Hl_p1 (Q1 & Q2 & Q3 & _ & Q3e & _). rewrite (Q3e eq_refl). rewrite <- Q1 in Hg. tinv Hg. hit. rewrite mk_eq. apply RT_ok; [lia|].   (* VD *)
    split; [reflexivity|]. split; [lia|]. split; [|split; reflexivity]. cbn [is_none strip_paren app]. den_side.
  - osplit E2 E3. apply CTXL_cons in HC1. destruct HC1 as [HCf HCr].
    eapply RT_bind; [eapply L_field; [gd | exact E3 | exact HCf | eapply ftail_follow; eassumption]|].
    cbv beta. intros f1 p1 Hl_p1 (Q1 & Q2 & Q3 & Q4 & Q5). subst s.
    eapply RT_bind; [eapply L_fields_loop; [gd | exact E2 | exact HCr | exact Hfe | intros Hn; exact (gnts_table_tail _ _ _ _ _ _ _ (Hgn Hn))]|].
    cbv beta. intros tl p2 Hl_p2 (Q6 & Q7 & Q8 & Q8s & _ & Q8h). subst s0. tinv Hg. hit. rewrite mk_eq. apply RT_ok; [lia|].   (* VD *)
    split; [reflexivity|]. split; [lia|]. split; [|split; reflexivity]. rewrite Q4. cbn [app].
    rewrite den_node; [all2v_go | reflexivity |]. apply loc_table; [rewrite fields_strict_cons by exact Q5; exact Q8s | exact Q8h].
Qed.

(* ---------------------------------------------------------------- arguments *)
Lemma args_paren_inv n a b sh o el c s s' :
  g_args (S n) (Node tFunctionArgs a b sh [o; el; c]) s = Some s' ->
  (el = PNone /\ (s <~ sym "("%bs o s ;; sym ")"%bs c s) = Some s') \/
  (el <> PNone /\ (s <~ sym "("%bs o s ;; s <~ g_explist n el s ;; sym ")"%bs c s) = Some s').
Proof.
  cbn [g_args]. change (tFunctionArgs =? tFunctionArgs) with true. cbv beta iota.
  destruct el; intros H; first [left; split; [reflexivity | exact H] | right; split; [discriminate | exact H]].
Qed.

Lemma L_args p mx n g s' : G' p -> g_args n g (SS p) = Some s' -> CTX g mx ->
  RT ts (args_def ts R (p, mx)) mx (fun t p' => SS p' = s' /\ p < p' /\ den g t = true /\ is_none t = false /\ is_hidden t = false).
Proof.
  intros HG Hg HC. destruct HG as [Hp0 HGk]. destruct n; [discriminate|]. unfold args_def. prim.
  destruct g as [tag a b sh fs|i0 t0| | | | | | |]; try discriminate.
  - cbn [g_args] in Hg. gtag Hg tFunctionArgs.
    + pose proof (CTX_sh ts _ _ _ _ _ _ _ HC eq_refl) as ->. apply CTX_node in HC.
      destruct fs as [|o [|el [|c [|? ?]]]]; try discriminate; try (exfalso; gmatch Hg; fail).
      ctx_split HC. change (g_args (S n) (Node tFunctionArgs a b false [o; el; c]) (SS p) = Some s') in Hg.
      apply args_paren_inv in Hg. destruct Hg as [[-> Hg]|[Hne Hg]].
      * osplit Hg E1. tinv E1. hit. pose proof (hd_sym _ _ _ _ Hg) as Hh.
        rewrite (bind_ok _ _ _ _ _ (L_explist_none (i + 1) mx ltac:(gd) ltac:(fhd Hh))).
        tinv Hg. hit. rewrite mk_eq. apply RT_ok; [lia|]. split; [reflexivity|]. split; [lia|]. split; [|split; reflexivity]. den_side.
      * osplit Hg E1. osplit Hg E2. tinv E1. hit. pose proof (hd_sym _ _ _ _ Hg) as Hh.
        eapply RT_bind; [eapply L_explist; [gd | exact E2 | eassumption | fhd Hh]|].
        cbv beta. intros el1 p1 Hl_p1 (Q1 & Q2 & Q3 & Q4 & Q5). subst s0. tinv Hg. hit. rewrite mk_eq. apply RT_ok; [lia|].
        split; [reflexivity|]. split; [lia|]. split; [|split; reflexivity]. den_side.
    + gtag Hg tTableConstructor. change (g_table n (Node tTableConstructor a b sh fs) (SS p) = Some s') in Hg.
      pose proof (g_table_head _ _ _ _ Hg) as Hh. assert (Hf1 : follow (nomatch [psym "("%bs]) mx (SS p)) by (fhd Hh). miss.
      eapply RT_bind; [eapply L_table; [split; assumption | exact Hg | exact HC]|].
      cbv beta. intros t1 p1 Hl_p1 (Q1 & Q2 & Q3 & Q4 & Q5). rewrite Q4. cbn [negb]. rewrite ret_eq. apply RT_ok; [lia|].
      repeat split; assumption.
  - cbn [g_args] in Hg. tinv Hg. miss. rewrite (bind_ok _ _ _ _ _ (L_table_none p mx Hp0 ltac:(fw))).
    cbn [is_none strip_paren negb]. hit. rewrite ret_eq. apply RT_ok; [lia|]. cbn [opt_tok].
    split; [reflexivity|]. split; [lia|]. split; [apply den_tok|]. split; reflexivity.
Qed.

(* ---------------------------------------------------------------- function bodies *)
Lemma L_namelist_none p mx : 0 <= p -> follow (nomatch [PClass CName]) mx (SS p) -> namelist_def ts R (p, mx) = Ok (PNone, (p, mx)).
Proof. intros Hp Hf. unfold namelist_def. prim. miss. reflexivity. Qed.

Lemma nl_stop_hd ps mx s : forallb (fun q => pdisj q (psym ","%bs)) ps = true -> hd_in ps s -> nl_stop mx s.
Proof.
  intros Hd (i & t & r & -> & Ha). unfold nl_stop, peek. destruct (fence_ok mx i); [|exact I].
  rewrite (anyof_miss ps _ _ Hd Ha). exact I.
Qed.

Definition g_dots (d : tree) (s : stream) : option stream :=
  match d with
  | Node t2 _ _ _ [k] => if t2 =? tVarargDots then sym "..."%bs k s else None
  | _ => None
  end.

Lemma funcbody_inv n a b sh o r s s' : g_funcbody (S n) (Node tFunctionBody a b sh (o :: r)) s = Some s' ->
  exists s1, sym "("%bs o s = Some s1 /\
  exists nl dd c bd e tl, r = nl :: tl ++ [c; bd; e] /\
    ((nl = PNone /\ tl = [PNone] /\ dd = PNone /\ (s <~ sym ")"%bs c s1 ;; s <~ g_chunk n bd s ;; kw "end"%bs e s) = Some s') \/
     (nl = PNone /\ tl = [dd] /\ dd <> PNone /\ (s <~ g_dots dd s1 ;; s <~ sym ")"%bs c s ;; s <~ g_chunk n bd s ;; kw "end"%bs e s) = Some s') \/
     (nl <> PNone /\ tl = [PNone] /\ dd = PNone /\ (s <~ namelist nl s1 ;; s <~ sym ")"%bs c s ;; s <~ g_chunk n bd s ;; kw "end"%bs e s) = Some s') \/
     (nl <> PNone /\ (exists cm, tl = [cm; dd]) /\
       exists cm, tl = [cm; dd] /\ (s <~ namelist nl s1 ;; s <~ sym ","%bs cm s ;; s <~ g_dots dd s ;; s <~ sym ")"%bs c s ;; s <~ g_chunk n bd s ;; kw "end"%bs e s) = Some s')).
Proof.
  cbn [g_funcbody]. change (tFunctionBody =? tFunctionBody) with true. cbv beta iota zeta. intros H.
  apply obind_some in H. destruct H as (s1 & E & H). exists s1. split; [exact E|].
  destruct r as [|nl r]; [discriminate H|].
  destruct r as [|x2 r]; [destruct nl; cbv beta iota in H; discriminate H|].
  destruct r as [|x3 r]; [destruct nl, x2; cbv beta iota in H; discriminate H|].
  destruct r as [|x4 r]; [destruct nl, x2; cbv beta iota in H; discriminate H|].
  destruct r as [|x5 r]; [destruct nl, x2; cbv beta iota in H; discriminate H|].
  destruct r as [|x6 r].
  - (* five fields *)
    exists nl, x2, x3, x4, x5, [x2]. split; [reflexivity|].
    destruct nl, x2; cbv beta iota in H; try discriminate H;
      first [ left; repeat split; exact H
            | right; left; repeat split; first [discriminate | exact H]
            | right; right; left; repeat split; first [discriminate | exact H] ].
  - destruct r as [|? ?]; [|destruct nl, x2; cbv beta iota in H; discriminate H].
    exists nl, x3, x4, x5, x6, [x2; x3]. split; [reflexivity|].
    right; right; right. split; [destruct nl; cbv beta iota in H; try discriminate; try discriminate H;
                                   exfalso; destruct x2; cbn [namelist obind] in H; discriminate H|].
    split; [eexists; reflexivity|]. exists x2. split; [reflexivity|].
    destruct nl, x2; cbv beta iota in H; first [exact H | cbn [namelist obind] in H; discriminate H].
Qed.

Lemma funcbody_tail pos oi nl dots p1 mx n c bd e s' :
  G p1 -> (s <~ sym ")"%bs c (SS p1) ;; s <~ g_chunk n bd s ;; kw "end"%bs e s) = Some s' ->
  CTX c mx -> CTX bd mx -> CTX e mx ->
  RT ts ((fun dots => '(ci, _) <- expect ts (psym ")"%bs) ;; b <- r_chunk R ;; b <- assert_node b ;;
                   '(ei, _) <- expect ts (pkw "end"%bs) ;;
                   mk tFunctionBody pos ([Kw oi; nl] ++ dots ++ [Kw ci; b; Kw ei])) dots (p1, mx)) mx
     (fun t p' => SS p' = s' /\ p1 < p' /\
        exists ci b1 ei, t = Node tFunctionBody pos p' false ([Kw oi; nl] ++ dots ++ [Kw ci; b1; Kw ei]) /\
                         den bd b1 = true /\ is_hidden b1 = false /\ c = Kw ci /\ e = Kw ei).
Proof.
  intros HG Hg HC1 HC2 HC3. destruct HG as [Hp0 HGk]. cbv beta.
  osplit Hg E1. osplit Hg E2. tinv E1. hit. pose proof (hd_kw _ _ _ _ Hg) as Hh.
  eapply RT_bind; [eapply (c_chunk _ _ HR); [gd | exact E2 | eassumption | fhd Hh]|].
  cbv beta. intros b1 p2 Hl_p2 (Q1 & Q2 & Q3 & fs & ->). subst s0. rewrite bind_assert by reflexivity.
  tinv Hg. hit. rewrite mk_eq. apply RT_ok; [lia|]. split; [reflexivity|]. split; [lia|].
  eexists _, _, _. split; [reflexivity|]. split; [exact Q3|]. repeat split.
Qed.

Lemma L_funcbody p mx n g s' : G' p -> g_funcbody n g (SS p) = Some s' -> CTX g mx ->
  RT ts (funcbody_def ts R (p, mx)) mx (fun t p' => SS p' = s' /\ p < p' /\ den g t = true /\ is_none t = false /\ is_hidden t = false).
Proof.
  intros HG Hg HC. destruct HG as [Hp0 HGk]. destruct n; [discriminate|].
  destruct g as [tag a b sh fs| | | | | | | |]; try discriminate. destruct fs as [|o r]; [discriminate|].
  assert (Ht : tag = tFunctionBody).
  { cbn [g_funcbody] in Hg. destruct (tag =? tFunctionBody) eqn:E; [apply Z.eqb_eq in E; exact E | discriminate]. }
  subst tag. pose proof (CTX_sh ts _ _ _ _ _ _ _ HC eq_refl) as ->. apply CTX_node in HC.
  apply funcbody_inv in Hg. destruct Hg as (s1 & E0 & nl & dd & c & bd & e & tl & -> & Hcases).
  apply CTXL_cons in HC. destruct HC as [HCo HC]. apply CTXL_cons in HC. destruct HC as [HCnl HC].
  apply CTXL_app in HC. destruct HC as [HCtl HC]. ctx_split HC.
  tinv E0. unfold funcbody_def. prim. hit.
  destruct Hcases as [(-> & -> & -> & Hg)|[(-> & -> & Hdd & Hg)|[(Hnl & -> & -> & Hg)|(Hnl & _ & cm & -> & Hg)]]].
  - pose proof Hg as Hg'. osplit Hg' E1. pose proof (hd_sym _ _ _ _ E1) as Hh.
    rewrite (bind_ok _ _ _ _ _ (L_namelist_none (i + 1) mx ltac:(lia) ltac:(fhd Hh))).
    cbn [is_none strip_paren negb]. prim. assert (Hf1 : follow (nomatch [psym "..."%bs]) mx (SS (i + 1))) by (fhd Hh).
    miss. prim.
    eapply RT_conseq; [eapply (funcbody_tail p i PNone [PNone]); [gd | exact Hg | eassumption | eassumption | eassumption]|].
    cbv beta. intros tr p' Hl_px (Q1 & Q2 & ci & b1 & ei & -> & Q3 & Q4 & -> & ->).
    split; [exact Q1|]. split; [lia|]. split; [|split; reflexivity]. cbn [app]. den_side.
  - osplit Hg E1. unfold g_dots in E1. destruct dd as [t2 da db dsh dfs| | | | | | | |]; try discriminate.
    gmatch E1. gtag E1 tVarargDots. ctx_split HCtl. open_node.
    pose proof (hd_sym _ _ _ _ E1) as Hh.
    rewrite (bind_ok _ _ _ _ _ (L_namelist_none (i + 1) mx ltac:(lia) ltac:(fhd Hh))).
    cbn [is_none strip_paren negb]. prim. tinv E1. hit. prim.
    eapply RT_conseq; [eapply (funcbody_tail p i PNone [Node tVarargDots (i + 1) (i0 + 1) false [Kw i0]]); [gd | exact Hg | eassumption | eassumption | eassumption]|].
    cbv beta. intros tr p' Hl_px (Q1 & Q2 & ci & b1 & ei & -> & Q3 & Q4 & -> & ->).
    split; [exact Q1|]. split; [lia|]. split; [|split; reflexivity]. cbn [app]. den_side.
  - osplit Hg E1. pose proof Hg as Hg'. osplit Hg' E2. pose proof (hd_sym _ _ _ _ E2) as Hh.
    eapply RT_bind; [eapply L_namelist; [gd | exact E1 | exact HCnl | eapply nl_stop_hd; [|exact Hh]; reflexivity]|].
    cbv beta. intros nl1 p1 Hl_p1 (Q1 & Q2 & Q3 & Q4 & Q5). subst s. rewrite Q4. cbn [negb]. prim.
    assert (Hf1 : follow (nomatch [psym ","%bs]) mx (SS p1)) by (fhd Hh). miss. prim.
    eapply RT_conseq; [eapply (funcbody_tail p i nl1 [PNone]); [gd | exact Hg | eassumption | eassumption | eassumption]|].
    cbv beta. intros tr p' Hl_px (Q6 & Q7 & ci & b1 & ei & -> & Q8 & Q9 & -> & ->).
    split; [exact Q6|]. split; [lia|]. split; [|split; reflexivity]. cbn [app]. den_side.
  - osplit Hg E1. osplit Hg E2. osplit Hg E3.
    unfold g_dots in E3. destruct dd as [t2 da db dsh dfs| | | | | | | |]; try discriminate.
    gmatch E3. gtag E3 tVarargDots. ctx_split HCtl. open_node.
    assert (Hnls : nl_stop mx s).
    { apply sym_inv in E2. destruct E2 as (j & u & _ & -> & Hku). unfold nl_stop, peek. destruct (fence_ok mx j); [|exact I].
      rewrite Hku. pose proof (hd_sym _ _ _ _ E3) as Hh. fhd Hh. }
    eapply RT_bind; [eapply L_namelist; [gd | exact E1 | exact HCnl | exact Hnls]|].
    cbv beta. intros nl1 p1 Hl_p1 (Q1 & Q2 & Q3 & Q4 & Q5). subst s. rewrite Q4. cbn [negb]. prim.
    tinv E2. hit. prim. tinv E3. hit. prim.
    eapply RT_conseq; [eapply (funcbody_tail p i nl1 [Kw i0; Node tVarargDots (i0 + 1) (i1 + 1) false [Kw i1]]); [gd | exact Hg | eassumption | eassumption | eassumption]|].
    cbv beta. intros tr p' Hl_px (Q6 & Q7 & ci & b1 & ei & -> & Q8 & Q9 & -> & ->).
    split; [exact Q6|]. split; [lia|]. split; [|split; reflexivity]. cbn [app]. den_side.
Qed.

Lemma L_function p mx n a b sh f body s' : G' p ->
  (s <~ kw "function"%bs f (SS p) ;; g_funcbody n body s) = Some s' -> CTX (Node tFunction a b sh [f; body]) mx ->
  RT ts (function_def ts R (p, mx)) mx (fun t p' => SS p' = s' /\ p < p' /\ den (Node tFunction a b sh [f; body]) t = true /\
                                                 is_none t = false /\ is_hidden t = false).
Proof.
  intros HG Hg HC. destruct HG as [Hp0 HGk]. pose proof (CTX_sh ts _ _ _ _ _ _ _ HC eq_refl) as ->.
  apply CTX_node in HC. ctx_split HC. osplit Hg E1. tinv E1. unfold function_def. prim. hit.
  eapply RT_bind; [eapply L_funcbody; [gd | exact Hg | eassumption]|].
  cbv beta. intros b1 p1 Hl_p1 (Q1 & Q2 & Q3 & Q4 & Q5). rewrite bind_assert by exact Q4.
  rewrite mk_eq. apply RT_ok; [lia|]. split; [exact Q1|]. split; [lia|]. split; [|split; reflexivity]. den_side.
Qed.

(* ---------------------------------------------------------------- prefix expressions *)
Lemma den_wrap1 tag a b rest gfirst first s e tfs :
  (tag =? tChain) = false -> is_suffix_tag tag = true -> is_paren first = false ->                           (* VD *)
  den gfirst first = true -> is_hidden first = false -> all2v rest tfs = true ->
  den (wrap1 (tag, a, b, false, rest) gfirst) (Node tag s e false (first :: tfs)) = true.
Proof.
  intros Ht Hs Hp Hd Hh Hr. cbn [wrap1]. rewrite den_node; [|exact Ht | apply loc_suffix; assumption].
  rewrite all2v_cons by assumption. exact Hr.
Qed.

Lemma L_precur : precur_ok G' (precur_def ts R).
Proof.
  intros l first gfirst p mx s' HG Hg HS Hf Hd Hh Hn Hnp. destruct HG as [Hp0 HGk]. unfold precur_def. prim.
  destruct l as [|[n [[[[tag a] b] sh] rest]] r]; cbn [g_sufs] in Hg.
  - injection Hg as <-. miss. miss. rewrite (bind_ok _ _ _ _ _ (L_args_none p mx Hp0 ltac:(fw))).
    cbn [is_none strip_paren negb]. miss. rewrite ret_eq. apply RT_ok; [lia|].
    split; [reflexivity|]. split; [lia|]. split; [exact Hd|]. split; [intros _; split; reflexivity|]. split; assumption.
  - osplit Hg E. apply Forall_cons_iff in HS. destruct HS as [HS0 HS']. unfold sfx_ok in HS0. cbv beta iota in HS0.
    destruct HS0 as [HCr ->]. unfold g_suf in E.
    gtag E tVarIndex.
    { gmatch E. ctx_split HCr. osplit E E1. osplit E E2. tinv E1. hit. pose proof (hd_sym _ _ _ _ E) as Hhd.
      eapply RT_bind; [eapply R_exp; [gd | exact E2 | eassumption | fhd Hhd]|].
      cbv beta. intros e1 p1 Hl_p1 (Q1 & Q2 & Q3 & Q4 & Q5). subst s1.
      destruct (isnode_facts _ _ Q4) as (Qh & Qn & _). rewrite bind_assert by exact Qn. tinv E. hit. prim.
      match goal with |- context [wraps gfirst ((_, ?x) :: r)] =>
        eapply RT_conseq; [eapply (c_precur _ _ HR r _ (wrap1 x gfirst)); [gd | exact Hg | exact HS' | exact Hf | | reflexivity | reflexivity | intros _; reflexivity]|] end.
      - apply den_wrap1; [reflexivity | reflexivity | apply Hnp; discriminate | assumption | assumption | all2v_go].
      - cbv beta. intros tr p' Hl_px (Q6 & Q7 & Q8 & Q9 & Q10 & Q11). split; [exact Q6|]. split; [lia|].
        split; [exact Q8|]. split; [discriminate|]. split; assumption. }
    gtag E tVarAttribute.
    { gmatch E. ctx_split HCr. osplit E E1. tinv E1. miss. hit. tinv E. hit. prim.
      match goal with |- context [wraps gfirst ((_, ?x) :: r)] =>
        eapply RT_conseq; [eapply (c_precur _ _ HR r _ (wrap1 x gfirst)); [gd | exact Hg | exact HS' | exact Hf | | reflexivity | reflexivity | intros _; reflexivity]|] end.
      - apply den_wrap1; [reflexivity | reflexivity | apply Hnp; discriminate | assumption | assumption | all2v_go].
      - cbv beta. intros tr p' Hl_px (Q6 & Q7 & Q8 & Q9 & Q10 & Q11). split; [exact Q6|]. split; [lia|].
        split; [exact Q8|]. split; [discriminate|]. split; assumption. }
    gtag E tFunctionCall.
    { gmatch E. ctx_split HCr. pose proof (g_args_head _ _ _ _ E) as Hhd.
      assert (Hf1 : follow (nomatch [psym "["%bs; psym "."%bs]) mx (SS p)) by (fhd Hhd). miss. miss.
      eapply RT_bind; [eapply L_args; [split; assumption | exact E | eassumption]|].
      cbv beta. intros a1 p1 Hl_p1 (Q1 & Q2 & Q3 & Q4 & Q5). subst s. rewrite Q4. cbn [negb]. prim.
      match goal with |- context [wraps gfirst ((_, ?x) :: r)] =>
        eapply RT_conseq; [eapply (c_precur _ _ HR r _ (wrap1 x gfirst)); [gd | exact Hg | exact HS' | exact Hf | | reflexivity | reflexivity | intros _; reflexivity]|] end.
      - apply den_wrap1; [reflexivity | reflexivity | apply Hnp; discriminate | assumption | assumption | all2v_go].
      - cbv beta. intros tr p' Hl_px (Q6 & Q7 & Q8 & Q9 & Q10 & Q11). split; [exact Q6|]. split; [lia|].
        split; [exact Q8|]. split; [discriminate|]. split; assumption. }
    gtag E tFunctionCallMethod. gmatch E. ctx_split HCr. osplit E E1. osplit E E2. tinv E1. miss. miss.
    rewrite (bind_ok _ _ _ _ _ (L_args_none p mx Hp0 ltac:(fw))). cbn [is_none strip_paren negb]. hit. tinv E2. hit.
    eapply RT_bind; [eapply L_args; [gd | exact E | eassumption]|].
    cbv beta. intros a1 p1 Hl_p1 (Q1 & Q2 & Q3 & Q4 & Q5). subst s. rewrite bind_assert by exact Q4. prim.
    match goal with |- context [wraps gfirst ((_, ?x) :: r)] =>
        eapply RT_conseq; [eapply (c_precur _ _ HR r _ (wrap1 x gfirst)); [gd | exact Hg | exact HS' | exact Hf | | reflexivity | reflexivity | intros _; reflexivity]|] end.
    + apply den_wrap1; [reflexivity | reflexivity | apply Hnp; discriminate | assumption | assumption | all2v_go].
    + cbv beta. intros tr p' Hl_px (Q6 & Q7 & Q8 & Q9 & Q10 & Q11). split; [exact Q6|]. split; [lia|].
      split; [exact Q8|]. split; [discriminate|]. split; assumption.
Qed.

Lemma g_suf_tag n x s s' : g_suf n x s = Some s' -> (sfx_tag (n, x) =? tStatIf) = false.
Proof.
  destruct x as [[[[tag a] b] sh] rest]. unfold g_suf, sfx_tag.
  destruct (tag =? tVarIndex) eqn:E1; [apply Z.eqb_eq in E1; subst; reflexivity|].
  destruct (tag =? tVarAttribute) eqn:E2; [apply Z.eqb_eq in E2; subst; reflexivity|].
  destruct (tag =? tFunctionCall) eqn:E3; [apply Z.eqb_eq in E3; subst; reflexivity|].
  destruct (tag =? tFunctionCallMethod) eqn:E4; [apply Z.eqb_eq in E4; subst; reflexivity | discriminate].
Qed.

Lemma CTX_wraps_ok mx : forall l base s0 s', CTX (wraps base l) mx -> g_sufs l s0 = Some s' ->
  CTX base mx /\ Forall (sfx_ok ts nts mx) l.
Proof.
  induction l as [|[n [[[[tag a] b] sh] rest]] l IH]; intros base s0 s' HC Hg; cbn [wraps g_sufs] in *.
  - split; [exact HC | constructor].
  - apply obind_some in Hg. destruct Hg as (s1 & E & Hg). destruct (IH _ _ _ HC Hg) as [HC1 HF].
    cbn [wrap1] in HC1. pose proof (g_suf_tag _ _ _ _ E) as Ht. cbn [sfx_tag] in Ht.
    pose proof (CTX_sh ts _ _ _ _ _ _ _ HC1 Ht) as ->. apply CTX_node in HC1. apply CTXL_cons in HC1.
    destruct HC1 as [HCb HCr]. split; [exact HCb|]. constructor; [split; [exact HCr | reflexivity] | exact HF].
Qed.

Lemma wraps_not_paren : forall l tag a b sh fs i j x, wraps (Node tag a b sh fs) l <> Paren i j x.
Proof.
  induction l as [|[n [[[[tg a0] b0] sh0] rest]] l IH]; intros tag a b sh fs i j x; cbn [wraps wrap1]; [discriminate | apply IH].
Qed.

Lemma g_suf_suffix n x s s' : g_suf n x s = Some s' -> is_suffix_tag (sfx_tag (n, x)) = true.           (* VD *)
Proof.
  destruct x as [[[[tag a] b] sh] rest]. unfold g_suf, sfx_tag, is_suffix_tag.
  destruct (tag =? tVarIndex) eqn:E1; [reflexivity|].
  destruct (tag =? tVarAttribute) eqn:E2; [reflexivity|].
  destruct (tag =? tFunctionCall) eqn:E3; [reflexivity|].
  destruct (tag =? tFunctionCallMethod) eqn:E4; [reflexivity | discriminate].
Qed.

Lemma gnp_wraps_base : forall l base, g_no_paren_suffix (wraps base l) = true -> g_no_paren_suffix base = true.
Proof.
  induction l as [|[n [[[[tag a] b] sh] rest]] l IH]; intros base H; cbn [wraps] in H; [exact H|].
  apply IH in H. cbn [wrap1 g_no_paren_suffix forallb] in H. apply andb_true_iff in H. destruct H as [_ H].
  apply andb_true_iff in H. apply H.
Qed.

Lemma gnp_wraps_paren l i j x s0 s' : g_no_paren_suffix (wraps (Paren i j x) l) = true -> g_sufs l s0 = Some s' -> l = [].
Proof.
  destruct l as [|[n [[[[tag a] b] sh] rest]] l]; [reflexivity|]. intros H Hg. exfalso. cbn [wraps] in H.
  apply gnp_wraps_base in H. cbn [g_sufs] in Hg. apply obind_some in Hg. destruct Hg as (s1 & E & _).
  apply g_suf_suffix in E. cbn [sfx_tag] in E. cbn [wrap1 g_no_paren_suffix] in H. rewrite E in H. discriminate H.
Qed.

Lemma L_prefixexp p mx n g s' : G' p -> g_prefix n g (SS p) = Some s' -> CTX g mx -> follow fcont mx s' ->
  RT ts (prefixexp_def ts R (p, mx)) mx (fun t p' => SS p' = s' /\ p < p' /\ den g t = true /\ is_hidden t = false /\ is_none t = false /\
                                                    (forall i j x, g = Paren i j x -> p' = j + 1 /\ exists x', t = Paren i j x')).   (* VD *)
Proof.
  intros HG Hg HC Hf. destruct HG as [Hp0 HGk]. apply spine in Hg. destruct Hg as (nb & base & l & s0 & -> & Hb & Hl).
  destruct (CTX_wraps_ok mx _ _ _ _ HC Hl) as [HCb HS]. unfold prefixexp_def. prim. unfold g_base in Hb.
  destruct base as [tag a b sh fs| | | | | | |oi oj x|]; try discriminate.
  - gmatch Hb. gtag Hb tVarName. open_node. tinv Hb. hit. prim.
    match goal with |- context [wraps ?gb l] =>
      eapply RT_conseq; [eapply (L_precur l _ gb); [gd | exact Hl | exact HS | exact Hf | | reflexivity | reflexivity | intros _; reflexivity]|] end.
    + den_side.
    + cbv beta. intros tr p' Hl_px (Q6 & Q7 & Q8 & Q9 & Q10 & Q11). split; [exact Q6|]. split; [lia|].
      split; [exact Q8|]. split; [assumption|]. split; [assumption|]. intros i1 j1 x1 Hx. exfalso. eapply wraps_not_paren, Hx.
  - apply CTX_paren in HCb. destruct HCb as (HCx & Hl1 & Hl2). osplit Hb E1. osplit Hb E2.
    apply eat_sym_inv in E1. destruct E1 as (t & Hs & Hk). destruct (spos ts p oi t s Hp0 Hs) as (Hle & Hlt & Hn). subst s.
    pose proof (follow_known ts _ mx _ _ _ _ Hs Hk) as Hf0. miss. hit.
    pose proof (hd_eat_sym _ _ _ _ Hb) as Hhd.
    eapply RT_bind; [eapply R_exp; [gd | exact E2 | exact HCx | fhd Hhd]|].
    cbv beta. intros e1 p1 Hl_p1 (Q1 & Q2 & Q3 & Q4 & Q5). subst s1.
    apply eat_sym_inv in Hb. destruct Hb as (t2 & Hs2 & Hk2). destruct (spos ts p1 oj t2 s0 ltac:(lia) Hs2) as (Hle2 & Hlt2 & Hn2). subst s0.
    hit. destruct (isnode_facts _ _ Q4) as (Qh & Qn & _).
    assert (Hl0 : l = []) by (eapply gnp_wraps_paren; [exact (CTX_gnp _ _ _ _ HC) | exact Hl]).                 (* VD *)
    eapply RT_conseq; [eapply (L_precur l _ (Paren oi oj x)); [gd | exact Hl | exact HS | exact Hf | | reflexivity | exact Qn | intros Hne; contradiction]|].
    + exact Q3.
    + cbv beta. intros tr p' Hl_px (Q6 & Q7 & Q8 & Q9 & Q10 & Q11). split; [exact Q6|]. split; [lia|].
      split; [exact Q8|]. split; [assumption|]. split; [assumption|]. intros i1 j1 x1 Hx.
      destruct l as [|[n1 [[[[tg a0] b0] sh0] rest]] l]; [|exfalso; cbn [wraps wrap1] in Hx; eapply wraps_not_paren, Hx].
      cbn [wraps] in Hx. injection Hx as <- <- _. destruct (Q9 eq_refl) as [-> ->]. split; [reflexivity | eexists; reflexivity].
Qed.

(* ---------------------------------------------------------------- operands *)
Local Notation exp_term := (exp_term_def ts lua_unops R).

Lemma L_exp_term_operand p mx n g s' : G' p -> g_operand n g (SS p) = Some s' -> CTX g mx -> follow fcont mx s' ->
  RT ts (exp_term (p, mx)) mx (fun t p' => SS p' = s' /\ p < p' /\ den g t = true /\ isnode t p' /\ exp_shape t /\
                                       flat_exp (view t) = [view t] /\
                                       (forall a0 b0 sh0 i j x, g = Node tExpValue a0 b0 sh0 [Paren i j x] ->
                                          p' = j + 1 /\ exists s0 e0 x', t = Node tExpValue s0 e0 false [Paren i j x'])).   (* VD *)
Proof.
  intros HG Hg HC Hf. destruct HG as [Hp0 HGk]. destruct n; [discriminate|]. cbn [g_operand] in Hg.
  destruct g as [tag a b sh fs| | | | | | | |]; try discriminate. unfold exp_term_def. prim.
  assert (Hpre : forall x, g_prefix n x (SS p) = Some s' -> CTX x mx -> sh = false -> fs = [x] -> tag = tExpValue ->
    RT ts ((' a0 <- accept ts (pkw "nil"%bs);;
      match a0 with
      | Some (i, _) => mk tExpValue p [Kw i; PNone]
      | None => ' a1 <- accept ts (pkw "false"%bs);;
          match a1 with
          | Some (i, _) => mk tExpValue p [Kw i; PBool false]
          | None => ' a2 <- accept ts (pkw "true"%bs);;
              match a2 with
              | Some (i, _) => mk tExpValue p [Kw i; PBool true]
              | None => ' a3 <- accept ts (PClass CNumber);;
                  match a3 with
                  | Some (i, t) => mk tExpValue p [Tok i t]
                  | None => ' a4 <- accept ts (PClass CString);;
                      match a4 with
                      | Some (i, t) => mk tExpValue p [Tok i t]
                      | None => ' a5 <- accept ts (psym "..."%bs);;
                          match a5 with
                          | Some (i, _) => mk tVarargDots p [Kw i]
                          | None => ' f <- function_def ts R;;
                              (if negb (is_none f) then mk tExpValue p [f]
                               else ' p0 <- prefixexp_def ts R;;
                                 (if negb (is_none p0) then mk tExpValue p [p0]
                                  else ' t <- tableconstructor_def ts R;;
                                    (if negb (is_none t) then mk tExpValue p (hid_list p0 ++ [t])
                                     else ' u <- accept_first ts lua_unops;;
                                       match u with
                                       | Some (ui, ut) => ' e <- r_exp R;; ' e0 <- assert_node e;; mk tExpUnOp p (hid_list p0 ++ [Tok ui ut; e0])
                                       | None => ret p0
                                       end)))
                          end end end end end end) (p, mx)) mx
     (fun t p' => SS p' = s' /\ p < p' /\ den (Node tag a b sh fs) t = true /\ isnode t p' /\ exp_shape t /\ flat_exp (view t) = [view t] /\
        (forall a0 b0 sh0 i j x, Node tag a b sh fs = Node tExpValue a0 b0 sh0 [Paren i j x] ->
           p' = j + 1 /\ exists s0 e0 x', t = Node tExpValue s0 e0 false [Paren i j x']))).                         (* VD *)
  { intros x Hx HCx -> -> ->. pose proof (g_prefix_head _ _ _ _ Hx) as Hh.
    assert (Hf0 : follow (anyof prefix_first) mx (SS p)) by (fhd Hh). repeat miss.
    rewrite (bind_ok _ _ _ _ _ (L_function_none p mx Hp0 ltac:(fw))). cbn [is_none strip_paren negb].
    eapply RT_bind; [eapply L_prefixexp; [split; assumption | exact Hx | exact HCx | exact Hf]|].
    cbv beta. intros p1 q1 Hl_q1 (Q1 & Q2 & Q3 & Q4 & Q5 & Qp). rewrite Q5. cbn [negb]. rewrite mk_eq. apply RT_ok; [lia|].
    split; [exact Q1|]. split; [lia|]. split; [den_ev|]. split; [eexists _, _, _; reflexivity|].
    split; [shape_ev|]. split; [rewrite view_node; apply flat_exp_other; reflexivity|].
    intros a0 b0 sh0 i j x0 Hx0. injection Hx0 as _ _ _ Hx0. destruct (Qp _ _ _ Hx0) as [-> (x' & ->)].           (* VD *)
    split; [reflexivity | eexists _, _, _; reflexivity]. }
  gtag Hg tVarargDots.
  { gmatch Hg. open_node. tinv Hg. repeat miss. hit. rewrite mk_eq. apply RT_ok; [lia|].
    split; [reflexivity|]. split; [lia|]. split; [den_side|]. split; [eexists _, _, _; reflexivity|].
    split; [shape_no|]. split; [rewrite view_node; apply flat_exp_other; reflexivity|]. intros a0 b0 sh0 i1 j1 x1 Hx1; discriminate Hx1. }
  gtag Hg tExpValue. destruct fs as [|x [|y [|? ?]]]; try discriminate; try (exfalso; gmatch Hg; fail).
  - destruct x as [t2 xa xb xsh xfs|i0 t0| | | | | |oi oj x|]; try discriminate.
    + pose proof (CTX_sh ts _ _ _ _ _ _ _ HC eq_refl) as ->. pose proof HC as HC'. apply CTX_node in HC'. ctx_split HC'.
      gtag Hg tFunction.
      { gmatch Hg. pose proof Hg as Hg'. osplit Hg' E. pose proof (hd_kw _ _ _ _ E) as Hh.
        assert (Hf0 : follow (anyof [pkw "function"%bs]) mx (SS p)) by (fhd Hh). repeat miss.
        eapply RT_bind; [eapply L_function; [split; assumption | exact Hg | eassumption]|].
        cbv beta. intros f1 q1 Hl_q1 (Q1 & Q2 & Q3 & Q4 & Q5). rewrite Q4. cbn [negb]. rewrite mk_eq. apply RT_ok; [lia|].
        split; [exact Q1|]. split; [lia|]. split; [den_ev|]. split; [eexists _, _, _; reflexivity|].
        split; [shape_ev|]. split; [rewrite view_node; apply flat_exp_other; reflexivity|]. intros a0 b0 sh0 i1 j1 x1 Hx1; discriminate Hx1. }
      gtag Hg tTableConstructor.
      { pose proof (g_table_head _ _ _ _ Hg) as Hh.
        assert (Hf0 : follow (anyof [psym "{"%bs]) mx (SS p)) by (fhd Hh). repeat miss.
        rewrite (bind_ok _ _ _ _ _ (L_function_none p mx Hp0 ltac:(fw))). cbn [is_none strip_paren negb].
        rewrite (bind_ok _ _ _ _ _ (L_prefix_none p mx Hp0 ltac:(fw))). cbn [is_none strip_paren negb hid_list app].
        eapply RT_bind; [eapply L_table; [split; assumption | exact Hg | eassumption]|].
        cbv beta. intros f1 q1 Hl_q1 (Q1 & Q2 & Q3 & Q4 & Q5). rewrite Q4. cbn [negb]. rewrite mk_eq. apply RT_ok; [lia|].
        split; [exact Q1|]. split; [lia|]. split; [den_ev|]. split; [eexists _, _, _; reflexivity|].
        split; [shape_ev|]. split; [rewrite view_node; apply flat_exp_other; reflexivity|]. intros a0 b0 sh0 i1 j1 x1 Hx1; discriminate Hx1. }
      eapply Hpre; [exact Hg | eassumption | reflexivity | reflexivity | reflexivity].
    + open_node. destruct (tokc CNumber (Tok i0 t0) (SS p)) eqn:E.
      * injection Hg as <-. tinv E. repeat miss. hit. rewrite mk_eq. apply RT_ok; [lia|].
        split; [reflexivity|]. split; [lia|]. split; [den_side|]. split; [eexists _, _, _; reflexivity|].
        split; [shape_ev|]. split; [rewrite view_node; apply flat_exp_other; reflexivity|]. intros a0 b0 sh0 i1 j1 x1 Hx1; discriminate Hx1.
      * tinv Hg. repeat miss. hit. rewrite mk_eq. apply RT_ok; [lia|].
        split; [reflexivity|]. split; [lia|]. split; [den_side|]. split; [eexists _, _, _; reflexivity|].
        split; [shape_ev|]. split; [rewrite view_node; apply flat_exp_other; reflexivity|]. intros a0 b0 sh0 i1 j1 x1 Hx1; discriminate Hx1.
    + pose proof (CTX_sh ts _ _ _ _ _ _ _ HC eq_refl) as ->. pose proof HC as HC'. apply CTX_node in HC'. ctx_split HC'.
      eapply Hpre; [exact Hg | eassumption | reflexivity | reflexivity | reflexivity].
  - open_node. gmatch Hg; tinv Hg; repeat miss; hit; rewrite mk_eq; (apply RT_ok; [lia|]);
      (split; [reflexivity|]; split; [lia|]; split; [den_side|]; split; [eexists _, _, _; reflexivity|];
       split; [shape_ev|]; split; [rewrite view_node; apply flat_exp_other; reflexivity|]; intros a0 b0 sh0 i1 j1 x1 Hx1; discriminate Hx1).
Qed.

(* ---------------------------------------------------------------- operator chains *)
Lemma chain_rest_follow n r s1 s' mx : g_chain n false true r s1 = Some s' -> follow fexp mx s' -> follow fcont mx s1.
Proof.
  intros H Hf. destruct n; [discriminate|]. cbn [g_chain] in H. destruct r as [|b r].
  - injection H as <-. fw.
  - apply obind_some in H. destruct H as (s2 & H & _). apply tokp_inv in H. destruct H as (j & u0 & u & _ & -> & Hu).
    rewrite is_binop_anyof in Hu. apply follow_head. eapply anyof_nomatch; [|exact Hu]. vm_compute. reflexivity.
Qed.

Lemma views3 a i o b : is_hidden a = false -> is_hidden b = false -> views [a; Tok i o; b] = [view a; Tok i o; view b].
Proof. intros Ha Hb. rewrite !views_cons, Ha, Hb. reflexivity. Qed.
Lemma views2 i o b : is_hidden b = false -> views [Tok i o; b] = [Tok i o; view b].
Proof. intros Hb. rewrite !views_cons, Hb. reflexivity. Qed.

Lemma L_exp_term_chain p mx n items s' : G' p -> g_chain n true true items (SS p) = Some s' -> CTXL items mx ->
  follow fexp mx s' ->
  RT ts (exp_term (p, mx)) mx (fun t p' => p < p' /\ isnode t p' /\ exp_shape t /\
       (forall x, items = [x] -> den x t = true) /\
       (forall a b sh i j x, items = [Node tExpValue a b sh [Paren i j x]] ->
          p' = j + 1 /\ exists s0 e0 x', t = Node tExpValue s0 e0 false [Paren i j x']) /\                          (* VD *)
       exists items1 items2 m, items = items1 ++ items2 /\ items1 <> [] /\ all2d items1 (flat_exp (view t)) = true /\
                               dom t = true /\ g_chain m false true items2 (SS p') = Some s').
Proof.
  intros HG Hg HC Hf. destruct n; [discriminate|]. cbn [g_chain] in Hg. destruct items as [|x r]; [discriminate|].
  apply CTXL_cons in HC. destruct HC as [HCx HCr].
  assert (Hop : (s <~ g_operand n x (SS p) ;; g_chain n false true r s) = Some s' ->
    RT ts (exp_term (p, mx)) mx (fun t p' => p < p' /\ isnode t p' /\ exp_shape t /\
       (forall x0, x :: r = [x0] -> den x0 t = true) /\
       (forall a b sh i j x1, x :: r = [Node tExpValue a b sh [Paren i j x1]] ->
          p' = j + 1 /\ exists s0 e0 x', t = Node tExpValue s0 e0 false [Paren i j x']) /\
       exists items1 items2 m, x :: r = items1 ++ items2 /\ items1 <> [] /\ all2d items1 (flat_exp (view t)) = true /\
                               dom t = true /\ g_chain m false true items2 (SS p') = Some s')).
  { clear Hg. intros Hg. osplit Hg E.
    eapply RT_conseq; [eapply L_exp_term_operand; [exact HG | exact E | exact HCx | eapply chain_rest_follow; eassumption]|].
    cbv beta. intros t1 p1 Hl_p1 (Q1 & Q2 & Q3 & Q4 & Q5 & Q6 & Qp). subst s. split; [exact Q2|]. split; [exact Q4|]. split; [exact Q5|].
    split; [intros x0 [= <- _]; exact Q3|]. split; [intros a0 b0 sh0 i0 j0 x0 [= -> _]; eapply Qp; reflexivity|]. exists [x], r, n. split; [reflexivity|]. split; [discriminate|].
    split; [|split; [exact (den_dom _ _ _ _ Q3) | exact Hg]]. pose proof (den_old _ _ _ _ Q3) as Q3o.                 (* VD *)
    rewrite Q6. rewrite all2d_cons. rewrite (denotes_not_hidden _ _ Q3o). unfold ParserComplete1.den in Q3o. rewrite Q3o. reflexivity. }
  destruct x as [| i0 t0 | | | | | | |]; try (apply Hop, Hg). clear Hop.
  destruct (tokp is_unop (Tok i0 t0) (SS p)) eqn:E; [|discriminate]. destruct HG as [Hp0 HGk].
  apply tokp_inv in E. destruct E as (i & t00 & t & [= <- <-] & Hs & Hu). rewrite is_unop_anyof in Hu.
  destruct (spos ts p i0 t s Hp0 Hs) as (Hle & Hlt & Hn). subst s.
  pose proof (CTX_tok ts _ _ _ _ HCx) as Hlim.
  assert (Hf0 : follow (anyof gunops) mx (SS p)). { rewrite Hs. apply follow_head. exact Hu. }
  unfold exp_term_def. prim. repeat miss.
  rewrite (bind_ok _ _ _ _ _ (L_function_none p mx Hp0 ltac:(fw))). cbn [is_none strip_paren negb].
  rewrite (bind_ok _ _ _ _ _ (L_prefix_none p mx Hp0 ltac:(fw))). cbn [is_none strip_paren negb hid_list app].
  rewrite (bind_ok _ _ _ _ _ (L_table_none p mx Hp0 ltac:(fw))). cbn [is_none strip_paren negb].
  rewrite (bind_accept_first_hit ts lua_unops _ p mx i0 t _ lua_unops_nt Hp0 Hs Hlim
             ltac:(eapply anyof_sub; [|exact Hu]; vm_compute; reflexivity)). cbv beta iota zeta.
  eapply RT_bind; [eapply (c_exp _ _ HR); [gd | exact Hg | exact HCr | exact Hf]|].
  cbv beta. intros e p1 Hl_p1 (Q1 & Q2 & Q3 & Q4 & Q5 & Q6). destruct (isnode_facts _ _ Q5) as (Qh & Qn & _).
  rewrite bind_assert by exact Qn. rewrite mk_eq. apply RT_ok; [lia|].
  split; [lia|]. split; [eexists _, _, _; reflexivity|]. split; [shape_no|].
  split; [intros x0 [= <- E0]; subst r; destruct n; discriminate Hg|].
  split; [intros a0 b0 sh0 i1 j1 x1 Hx1; discriminate Hx1|].
  exists (Tok i0 t0 :: r), [], 1%nat. split; [rewrite app_nil_r; reflexivity|]. split; [discriminate|].
  unfold ValidDomain1.ditems in Q3. apply andb_true_iff in Q3. destruct Q3 as [Q3 Q3d].                            (* VD *)
  split; [|split; [|rewrite Q1; reflexivity]].
  - rewrite view_node, views2 by exact Qh. rewrite flat_exp_unop, all2d_cons. cbn [is_hidden denotes].
    rewrite Z.eqb_refl. exact Q3.
  - cbn [ValidDomain1.dom forallb]. rewrite Q3d, loc_unop; [reflexivity|]. cbn [existsb is_hid]. rewrite (not_hidden_not_hid _ Qh). reflexivity.
Qed.

Local Notation binop := (binop_def ts lua_binops lua_unops R).

Lemma L_binop : binop_ok G' binop.
Proof.
  intros first p mx n items s' HG Hg HC Hf Hnode Hshape Hdom. destruct HG as [Hp0 HGk].
  destruct n; [discriminate|]. cbn [g_chain] in Hg. unfold binop_def. prim. destruct items as [|b r].
  - injection Hg as <-.
    rewrite (bind_accept_first_miss ts fexp lua_binops _ p mx lua_binops_nt Hp0 Hf
               ltac:(intros k0 H0; eapply nomatch_sub; [|exact H0]; vm_compute; reflexivity)). cbv beta iota zeta.
    prim. rewrite ret_eq. apply RT_ok; [lia|]. split; [reflexivity|]. split; [lia|].
    split; [exists []; split; [rewrite app_nil_r; reflexivity | reflexivity]|]. split; [intros _; split; reflexivity|]. split; [assumption | split; assumption].
  - osplit Hg E. apply CTXL_cons in HC. destruct HC as [HCb HCr].
    apply tokp_inv in E. destruct E as (i & t0 & t & -> & Hs & Hu). rewrite is_binop_anyof in Hu.
    destruct (spos ts p i t s Hp0 Hs) as (Hle & Hlt & Hn). subst s. pose proof (CTX_tok ts _ _ _ _ HCb) as Hlim.
    rewrite (bind_accept_first_hit ts lua_binops _ p mx i t _ lua_binops_nt Hp0 Hs Hlim
               ltac:(eapply anyof_sub; [|exact Hu]; vm_compute; reflexivity)). cbv beta iota zeta.
    eapply RT_bind; [eapply L_exp_term_chain; [gd | exact Hg | exact HCr | exact Hf]|].
    cbv beta. intros t1 p1 Hl_p1 (Q1 & Q2 & Q3 & Q4 & Qp & items1 & items2 & m & -> & Q5 & Q6 & Q6d & Q7).
    destruct (isnode_facts _ _ Q2) as (Qh & Qn & _). rewrite bind_assert by exact Qn. prim.
    apply CTXL_app in HCr. destruct HCr as [HC1 HC2]. destruct (isnode_facts _ _ Hnode) as (Fh & Fn & _).
    eapply RT_conseq; [eapply (c_binop _ _ HR (Node tExpBinOp p p1 false [first; Tok i t; t1])); [gd | exact Q7 | exact HC2 | exact Hf | eexists _, _, _; reflexivity | shape_no
                            | cbn [ValidDomain1.dom forallb]; rewrite Hdom, Q6d; reflexivity]|].                                     (* VD *)
    cbv beta. intros t2 p2 Hl_p2 (Q8 & Q9 & (ys & Q10 & Q11) & Q12 & Q13 & Q14 & Q15).
    split; [exact Q8|]. split; [lia|]. split; [|split; [discriminate | split; [assumption | split; assumption]]].
    rewrite view_node, views3, flat_exp_binop in Q10 by assumption.
    exists (Tok i t :: flat_exp (view t1) ++ ys). split; [rewrite Q10, <- app_assoc; reflexivity|].
    rewrite all2d_cons. cbn [is_hidden denotes]. rewrite Z.eqb_refl. cbn [andb]. apply all2d_app; assumption.
Qed.

Lemma app_single {A} (l1 l2 : list A) x : l1 ++ l2 = [x] -> l1 <> [] -> l2 = [].
Proof.
  destruct l1 as [|a [|b l1]]; intros H Hn; [contradiction | | discriminate H].
  cbn [app] in H. injection H as _ H. exact H.
Qed.

Lemma L_exp : exp_ok G' (exp_def ts lua_binops lua_unops R).
Proof.
  intros p mx n items s' HG Hg HC Hf. unfold exp_def.
  eapply RT_bind; [eapply L_exp_term_chain; [exact HG | exact Hg | exact HC | exact Hf]|].
  cbv beta. intros t1 p1 Hl_p1 (Q1 & Q2 & Q3 & Q4 & Qp & items1 & items2 & m & -> & Q5 & Q6 & Q6d & Q7).
  destruct (isnode_facts _ _ Q2) as (Qh & Qn & _). rewrite Qn.
  apply CTXL_app in HC. destruct HC as [HC1 HC2]. destruct HG as [Hp0 HGk].
  eapply RT_conseq; [eapply (L_binop t1); [gd | exact Q7 | exact HC2 | exact Hf | exact Q2 | exact Q3 | exact Q6d]|].
  cbv beta. intros t2 p2 Hl_p2 (Q8 & Q9 & (ys & Q10 & Q11) & Q12 & Q13 & Q14 & Q15).
  split; [exact Q8|]. split; [lia|].
  split; [unfold ValidDomain1.ditems, ParserComplete2.ditems; rewrite Q10, Q15, andb_true_r; apply all2d_app; assumption|].   (* VD *)
  split; [intros x Hx; pose proof (app_single _ _ _ Hx Q5) as ->; destruct (Q12 eq_refl) as [-> _]; apply Q4; exact Hx|].
  split; [assumption|]. split; [assumption|].
  intros a0 b0 sh0 i0 j0 x0 Hx. pose proof (app_single _ _ _ Hx Q5) as ->. destruct (Q12 eq_refl) as [-> ->].
  eapply Qp. exact Hx.
Qed.

Lemma L_exp_none : exp_none G' (exp_def ts lua_binops lua_unops R).
Proof.
  intros p mx HG Hf. destruct HG as [Hp0 HGk]. unfold exp_def, exp_term_def. prim. repeat (miss; prim).
  rewrite (bind_ok _ _ _ _ _ (L_function_none p mx Hp0 ltac:(fw))). cbn [is_none strip_paren negb]. prim.
  rewrite (bind_ok _ _ _ _ _ (L_prefix_none p mx Hp0 ltac:(fw))). cbn [is_none strip_paren negb hid_list app]. prim.
  rewrite (bind_ok _ _ _ _ _ (L_table_none p mx Hp0 ltac:(fw))). cbn [is_none strip_paren negb]. prim.
  rewrite (bind_accept_first_miss ts fstop lua_unops _ p mx lua_unops_nt Hp0 Hf
             ltac:(intros k0 H0; eapply anyof_nomatch; [|exact H0]; vm_compute; reflexivity)). cbv beta iota zeta.
  prim. reflexivity.
Qed.

End Step.
