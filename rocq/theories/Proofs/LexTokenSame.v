(* Model/LexToken.v lex_token is ReqEmbedInst.token_of_tok *)
From PV Require Import Base.Prelude Spec.LuaTokens Generated.T_lexer Model.Lexer Model.LexToken Model.ReqEmbedInst.

Lemma lex_token_same t : lex_token t = token_of_tok t.
Proof. unfold lex_token, token_of_tok. destruct (t_kind t); reflexivity. Qed.

Lemma lex_tokens_same ts : map lex_token ts = map token_of_tok ts.
Proof. apply map_ext, lex_token_same. Qed.
