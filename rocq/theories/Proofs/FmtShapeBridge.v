(* The two reference readers agree on where the white space, the line ends, the comments and the strings are.

   Spec/FmtShape.v (the coarse reader of the shape clauses: one-byte symbols, numerals as runs of name / number characters) and
   Spec/LuaLex.v (the full lexer) cut a text differently inside a stretch of code, but both refine one SKELETON: the text read
   with FmtShape.lex1 where every code token that is not a string is cut down to its first byte.

     sk1 / sks          the skeleton reader (one step / a stretch of steps)
     marksF / marksS    a token list as a list of marks: one [Tr raw] per white-space / newline / comment token, one [Cb c] per
                        byte of a code token (strings included)
     lex_marks          FmtShape.lex s = Some ts -> the skeleton reads s, with the marks of ts
     chain_marks        chain s ss (the token chain of LuaLex.spec_lex) and a skeleton reading of s have the same marks
     marks_agree        hence marksF ts = marksS ss *)
From PV Require Import Base.Prelude Spec.LuaLex Instances.HoldsC01 Proofs.LuaLexFacts Proofs.SpecLexChunk Proofs.FmtRelexLex.
From PV Require Import Model.FmtSpaces Proofs.FmtLinesProofs Proofs.FmtShapeBridgeLines.
From PV Require Spec.FmtShape.
From Coq Require Import Lia ZifyBool.

Module F := FmtShape.

Inductive mk : Set := Cb (c : Z) | Tr (a : list Z).

Definition ftok : Set := F.stok.

Definition is_codek (k : F.tkind) : bool := match k with F.KNum | F.KName | F.KKw | F.KSym => true | _ => false end.

Definition plain (c : Z) : ftok := (F.KSym, [c]).

Definition sk1 (s : list Z) : option (ftok * list Z) :=
  match F.lex1 s with
  | Some ((k, a), r) =>
    if is_codek k then match s with c :: s' => Some (plain c, s') | [] => None end else Some ((k, a), r)
  | None => None
  end.

Inductive sks : list Z -> list ftok -> list Z -> Prop :=
| sks_nil s : sks s [] s
| sks_cons s t s' K r : sk1 s = Some (t, s') -> sks s' K r -> sks s (t :: K) r.

Lemma sks_app s A s1 B r : sks s A s1 -> sks s1 B r -> sks s (A ++ B) r.
Proof. induction 1; intros H2; [exact H2|]. cbn [app]. econstructor; [eassumption | auto]. Qed.

Lemma sk1_nil : sk1 [] = None.
Proof. reflexivity. Qed.

(* a reading of a prefix is a prefix of the reading of the whole *)
Lemma sks_prefix s A r : sks s A r -> forall K, sks s K [] -> exists K', K = A ++ K' /\ sks r K' [].
Proof.
  induction 1 as [s|s t s' A r Hs _ IH]; intros K HK; [exists K; split; [reflexivity | exact HK]|].
  inversion HK as [|s0 t0 s0' K0 r0 Hs0 HK0]; subst; [rewrite sk1_nil in Hs; discriminate Hs|].
  rewrite Hs in Hs0. injection Hs0 as <- <-. destruct (IH _ HK0) as (K' & -> & H'). exists K'. split; [reflexivity | exact H'].
Qed.

Definition fmark (t : ftok) : list mk := if F.is_code t then map Cb (snd t) else [Tr (snd t)].
Definition marksF (ts : list ftok) : list mk := flat_map fmark ts.
Definition smark (t : stok) : list mk := if is_trivia t then [Tr (s_raw t)] else map Cb (s_raw t).
Definition marksS (ss : list stok) : list mk := flat_map smark ss.

Lemma marksF_app a b : marksF (a ++ b) = marksF a ++ marksF b.
Proof. unfold marksF. apply flat_map_app. Qed.
Lemma marksS_app a b : marksS (a ++ b) = marksS a ++ marksS b.
Proof. unfold marksS. apply flat_map_app. Qed.

Lemma marksF_plain a : marksF (map plain a) = map Cb a.
Proof. induction a as [|c a IH]; [reflexivity|]. cbn [map marksF flat_map]. fold (marksF (map plain a)). rewrite IH. reflexivity. Qed.

(* ====================================================================== bytes that are always read as plain code *)
Lemma fspan_split p s : forall a b, F.span p s = (a, b) -> s = a ++ b.
Proof.
  induction s as [|c r IH]; intros a b H; cbn [F.span] in H; [injection H as <- <-; reflexivity|].
  destruct (p c); [|injection H as <- <-; reflexivity].
  destruct (F.span p r) as [a' b'] eqn:E. injection H as <- <-. cbn [app]. f_equal. apply IH. reflexivity.
Qed.

Lemma fspan_all p s : forall a b, F.span p s = (a, b) -> forallb p a = true.
Proof.
  induction s as [|c r IH]; intros a b H; cbn [F.span] in H; [injection H as <- <-; reflexivity|].
  destruct (p c) eqn:Ec; [|injection H as <- <-; reflexivity].
  destruct (F.span p r) as [a' b'] eqn:E. injection H as <- <-. cbn [forallb]. rewrite Ec. apply (IH _ _ eq_refl).
Qed.

Lemma name_char_num c : F.is_name_char c = true -> F.is_num_char c = true.
Proof. unfold F.is_num_char. intros ->. reflexivity. Qed.

Lemma forallb_impl {A} (p q : A -> bool) l : (forall x, p x = true -> q x = true) -> forallb p l = true -> forallb q l = true.
Proof. intros H. induction l as [|x l IH]; [reflexivity|]. cbn [forallb]. rewrite !andb_true_iff. intros [H1 H2]. split; auto. Qed.

(* the first byte class: bytes at which the skeleton may read something else than one plain byte *)
Definition special (c : Z) : bool :=
  F.is_blank c || (c =? 10) || (c =? 13) || (c =? 45) || (c =? 47) || (c =? 34) || (c =? 39) || (c =? 91).

Lemma num_char_not_special c : F.is_num_char c = true -> special c = false.
Proof.
  unfold F.is_num_char, F.is_name_char, F.is_name_start, F.is_alpha, F.is_digit, F.cDOT, special, F.is_blank, F.cSP, F.cTAB. lia.
Qed.

(* what lex1 does at a byte that is not special: a code token that is not a string *)
Lemma lex1_unspecial c r : special c = false -> exists k a b, F.lex1 (c :: r) = Some ((k, a), b) /\ is_codek k = true.
Proof.
  intros H. unfold special in H. do 7 (apply orb_false_iff in H; destruct H as [H ?]).
  unfold F.lex1. rewrite H. unfold F.cNL, F.cCR, F.cDASH, F.cSLASH, F.cLBR.
  repeat match goal with E : (_ =? _) = false |- _ => rewrite E; clear E end. cbn [andb orb].
  destruct (F.is_name_start c).
  - destruct (F.span F.is_name_char (c :: r)) as [a b]. destruct (F.is_keyword a); eexists _, _, _; split; reflexivity.
  - destruct (F.is_digit c || _).
    + destruct (F.span F.is_num_char (c :: r)) as [a b]. eexists _, _, _; split; reflexivity.
    + eexists _, _, _; split; reflexivity.
Qed.

Lemma sk1_code s k a r : F.lex1 s = Some ((k, a), r) -> is_codek k = true ->
  exists c s', s = c :: s' /\ sk1 s = Some (plain c, s').
Proof.
  intros H Hk. destruct s as [|c s']; [discriminate H|]. exists c, s'. split; [reflexivity|]. unfold sk1. rewrite H, Hk. reflexivity.
Qed.

Lemma sk1_unspecial c r : special c = false -> sk1 (c :: r) = Some (plain c, r).
Proof.
  intros H. destruct (lex1_unspecial c r H) as (k & a & b & Hl & Hk).
  destruct (sk1_code _ _ _ _ Hl Hk) as (c' & s' & E & Hs). injection E as <- <-. exact Hs.
Qed.

Lemma sks_unspecial a r : forallb (fun c => negb (special c)) a = true -> sks (a ++ r) (map plain a) r.
Proof.
  induction a as [|c a IH]; intros H; [constructor|]. cbn [forallb] in H. apply andb_true_iff in H. destruct H as [Hc Ha].
  apply negb_true_iff in Hc. cbn [app map]. econstructor; [apply sk1_unspecial, Hc | apply IH, Ha].
Qed.

Lemma sks_numchars a r : forallb F.is_num_char a = true -> sks (a ++ r) (map plain a) r.
Proof.
  intros H. apply sks_unspecial. revert H. apply forallb_impl. intros x Hx. rewrite (num_char_not_special x Hx). reflexivity.
Qed.

(* ====================================================================== FmtShape.lex1 against the skeleton *)
Lemma lex1_code_shape s k a r : F.lex1 s = Some ((k, a), r) -> is_codek k = true ->
  s = a ++ r /\ ((exists c, a = [c]) \/ forallb F.is_num_char a = true).
Proof.
  intros H Hk. unfold F.lex1 in H. destruct s as [|c s']; [discriminate H|].
  destruct (F.is_blank c). { destruct (F.span F.is_blank (c :: s')). injection H as <- <- <-. discriminate Hk. }
  destruct (c =? F.cNL). { injection H as <- <- <-. discriminate Hk. }
  destruct (c =? F.cCR). { destruct s' as [|d r']; [discriminate H|]. destruct (d =? F.cNL); [|discriminate H]. injection H as <- <- <-. discriminate Hk. }
  destruct ((c =? F.cDASH) && starts_with [F.cDASH; F.cDASH] (c :: s')).
  { destruct (F.long_open (skipn 2 (c :: s'))) as [[[n op] t]|].
    - destruct n; [|discriminate H]. destruct (F.find_long_close (F.long_closer 0) t) as [[x y]|]; [|discriminate H].
      injection H as <- <- <-. discriminate Hk.
    - destruct (F.span F.not_eol (c :: s')). injection H as <- <- <-. discriminate Hk. }
  destruct ((c =? F.cSLASH) && starts_with [F.cSLASH; F.cSLASH] (c :: s')).
  { destruct (F.span F.not_eol (c :: s')). injection H as <- <- <-. discriminate Hk. }
  destruct ((c =? 34) || (c =? 39)).
  { destruct (F.scan_quoted c s') as [[x y]|]; [|discriminate H]. injection H as <- <- <-. discriminate Hk. }
  destruct (c =? F.cLBR).
  { destruct (F.long_open (c :: s')) as [[[n op] t]|].
    - destruct (F.find_long_close (F.long_closer n) t) as [[x y]|]; [|discriminate H]. injection H as <- <- <-. discriminate Hk.
    - injection H as <- <- <-. split; [reflexivity | left; eauto]. }
  destruct (F.is_name_start c).
  { destruct (F.span F.is_name_char (c :: s')) as [x y] eqn:E. injection H as _ <- <-.
    split; [apply (fspan_split _ _ _ _ E)|]. right. apply (forallb_impl _ _ _ name_char_num), (fspan_all _ _ _ _ E). }
  destruct (F.is_digit c || _).
  { destruct (F.span F.is_num_char (c :: s')) as [x y] eqn:E. injection H as _ <- <-.
    split; [apply (fspan_split _ _ _ _ E)|]. right. apply (fspan_all _ _ _ _ E). }
  injection H as <- <- <-. split; [reflexivity | left; eauto].
Qed.

Lemma lex1_sks s t r : F.lex1 s = Some (t, r) -> exists K, sks s K r /\ marksF K = fmark t.
Proof.
  intros H. destruct t as [k a]. destruct (is_codek k) eqn:Hk.
  - destruct (lex1_code_shape _ _ _ _ H Hk) as (E & Hs). exists (map plain a). split.
    + destruct Hs as [(c & ->)|Hs].
      * destruct (sk1_code _ _ _ _ H Hk) as (c' & s' & E' & Hs'). rewrite E in E'. cbn [app] in E'. injection E' as <- <-.
        cbn [map]. econstructor; [exact Hs' | constructor].
      * rewrite E. apply sks_numchars, Hs.
    + rewrite marksF_plain. unfold fmark, F.is_code. cbn [fst snd]. destruct k; try discriminate Hk; reflexivity.
  - exists [(k, a)]. split.
    + econstructor; [|constructor]. unfold sk1. rewrite H, Hk. reflexivity.
    + unfold marksF. cbn [flat_map]. apply app_nil_r.
Qed.

Lemma lex_fuel_sks : forall f s ts, F.lex_fuel f s = Some ts -> exists K, sks s K [] /\ marksF K = marksF ts.
Proof.
  induction f as [|f IH]; intros s ts H.
  - destruct s; [|discriminate H]. injection H as <-. exists []. split; [constructor | reflexivity].
  - destruct s as [|c s']; [injection H as <-; exists []; split; [constructor | reflexivity]|].
    cbn [F.lex_fuel] in H. destruct (F.lex1 (c :: s')) as [[t r]|] eqn:E; [|discriminate H].
    destruct (F.lex_fuel f r) as [ts'|] eqn:E2; [|discriminate H]. injection H as <-.
    destruct (lex1_sks _ _ _ E) as (K1 & H1 & M1). destruct (IH _ _ E2) as (K2 & H2 & M2).
    exists (K1 ++ K2). split; [eapply sks_app; eassumption|]. rewrite marksF_app, M1, M2. reflexivity.
Qed.

Theorem lex_marks s ts : F.lex s = Some ts -> exists K, sks s K [] /\ marksF K = marksF ts.
Proof. apply lex_fuel_sks. Qed.

(* ====================================================================== the relation between the marks of two layouts
   tnr a e x1 x2: the texts of two white-space / comment runs agree after the tab / line-end normalisation and the removal of blanks
   at line edges (a: the run begins the file, e: it ends the file) - text_norm_rel of Proofs/FmtRelexReindent.v *)
Definition tnr (a e : bool) (x1 x2 : list Z) : Prop := Sc a e (canon_ws x1) = Sc a e (canon_ws x2).

Definition ws_or_nil (x : list Z) : Prop := x = [] \/ exists c r, x = c :: r /\ (LuaLex.is_blank c || is_eol c) = true.
Definition hdok (x1 x2 : list Z) : Prop := (exists c r1 r2, x1 = c :: r1 /\ x2 = c :: r2) \/ (ws_or_nil x1 /\ ws_or_nil x2).

Inductive Mrel : bool -> list mk -> list mk -> Prop :=
| Mrel_end a r1 r2 : tnr a true (concat r1) (concat r2) -> (a = false -> hdok (concat r1) (concat r2)) ->
    Mrel a (map Tr r1) (map Tr r2)
| Mrel_code a r1 r2 c m1 m2 : tnr a false (concat r1) (concat r2) ->
    (a = false -> hdok (concat r1) (concat r2) /\ (r1 = [] <-> r2 = [])) ->
    Mrel false m1 m2 -> Mrel a (map Tr r1 ++ Cb c :: m1) (map Tr r2 ++ Cb c :: m2).

(* ---------- runs of FmtShape trivia tokens ---------- *)
Definition txt (r : list ftok) : list Z := concat (map snd r).

Definition is_nlt (t : ftok) : bool := match fst t with F.KNl => true | _ => false end.
Definition is_blankt (t : ftok) : bool := match fst t with F.KBlank => true | _ => false end.

(* FmtShape.edge_norm on a run of white-space / comment tokens; e: the run ends the file (what follows a run that does not is a code token) *)
Fixpoint enr (e at_bol : bool) (r : list ftok) : list ftok :=
  match r with
  | [] => []
  | t :: r' =>
    match fst t with
    | F.KBlank =>
      let at_eol := match r' with [] => e | n :: _ => is_nlt n end in
      if at_bol || at_eol then enr e at_bol r' else t :: enr e false r'
    | F.KNl => (F.KNl, [F.cNL]) :: enr e true r'
    | F.KLineComment => (F.KLineComment, F.rstrip_blank (snd t)) :: enr e false r'
    | _ => t :: enr e false r'
    end
  end.

(* what FmtShape.lex guarantees of a white-space / comment token *)
Definition wftok (t : ftok) : Prop :=
  match fst t with
  | F.KBlank => snd t <> [] /\ forallb F.is_blank (snd t) = true
  | F.KNl => snd t = [10] \/ snd t = [13; 10]
  | F.KLineComment => (starts2 45 (snd t) = true \/ starts2 47 (snd t) = true) /\ forallb F.not_eol (snd t) = true
  | F.KBlockComment => (exists b, snd t = 45 :: 45 :: 91 :: 91 :: b ++ [93]) /\ crlf_only (snd t) = true
  | _ => False
  end.

(* ... and of a run: blank tokens are maximal, an end-of-line comment is followed by a line end or ends the file *)
Fixpoint wfrun (e : bool) (r : list ftok) : Prop :=
  match r with
  | [] => True
  | t :: r' =>
    wftok t /\
    match fst t with
    | F.KBlank => match r' with n :: _ => is_blankt n = false | [] => True end
    | F.KLineComment => match r' with n :: _ => is_nlt n = true | [] => e = true end
    | _ => True
    end /\ wfrun e r'
  end.
