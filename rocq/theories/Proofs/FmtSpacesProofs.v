(* Lemmas about Model/FmtSpaces.v: source pins, and the run-level facts behind Properties/C10.v. *)
From PV Require Import Base.Prelude Model.FmtSpaces Generated.T_fmtspaces.
From Coq Require Import Lia.

(* ====================================================================== pins
   The scanners of Model/FmtSpaces.v stand for these re.sub calls, in this order, under these guards,
   with these replacement expressions; and the rest of the two functions is this text.  Any edit of
   lua.py that touches them breaks these lemmas (broken obligation), it cannot drift silently. *)
Lemma pin_fmtw_resubs : step_sources fmt_steps = fmtw_resubs.
Proof. vm_compute. reflexivity. Qed.

Lemma pin_minw_resubs : step_sources min_steps = minw_resubs.
Proof. vm_compute. reflexivity. Qed.

Lemma pin_fmtw_indent_attr :
  fmt_indent_attr_src = unBS "self._args.get('indentwidth', LuaFormatterWriter.DEFAULT_INDENT_WIDTH)"%bs.
Proof. vm_compute. reflexivity. Qed.

Definition fmtw_fn_expected : bstr := "def _get_code_for_spaces(self, node):
    start_pos = self._pos
    strs = []
    while (node is None and self._pos < len(self._tokens) or (node is not None and self._pos < node.end_pos)) and (isinstance(self._tokens[self._pos], lexer.TokSpace) or isinstance(self._tokens[self._pos], lexer.TokNewline) or isinstance(self._tokens[self._pos], lexer.TokComment)):
        strs.append(self._tokens[self._pos].code)
        self._pos += 1
    spaces = b''.join(strs)
    spaces = re.sub(b'\\t', b' ', spaces)
    spaces = re.sub(b'\\r\\n', b'\n', spaces)
    spaces = re.sub(b'\\n\\r', b'\n', spaces)
    spaces = re.sub(b'\\r', b'\n', spaces)
    spaces = re.sub(b' +\\n', b'\n', spaces)
    if start_pos != 0:
        spaces = re.sub(b'^ *--', b'  --', spaces)
    spaces = re.sub(b'\\n *--', b'\n' + b' ' * self._indent_mult * self._indent + b'--', spaces)
    spaces = re.sub(b'\\n *//', b'\n' + b' ' * self._indent_mult * self._indent + b'//', spaces)
    if start_pos == 0:
        spaces = re.sub(b'^ *--', b'--', spaces)
        spaces = re.sub(b'^ *//', b'//', spaces)
    spaces = re.sub(b'\\n *\\Z', b'\n' + b' ' * self._indent_mult * self._indent, spaces)
    if start_pos == 0:
        spaces = re.sub(b'^ *$', b'', spaces)
    spaces = re.sub(b'\\n\\n+', b'\n\n', spaces)
    if self._pos == len(self._tokens):
        spaces = re.sub(b'[ \\n]*\\n[ \\n]*\\Z', b'\n', spaces)
        spaces = re.sub(b' +\\Z', b'', spaces)
    return spaces"%bs.

Definition minw_fn_expected : bstr := "def _get_code_for_spaces(self, node):
    start_pos = self._pos
    strs = []
    while (node is None and self._pos < len(self._tokens) or (node is not None and self._pos < node.end_pos)) and (isinstance(self._tokens[self._pos], lexer.TokSpace) or isinstance(self._tokens[self._pos], lexer.TokNewline) or isinstance(self._tokens[self._pos], lexer.TokComment)):
        if not isinstance(self._tokens[self._pos], lexer.TokComment):
            strs.append(self._tokens[self._pos].code)
        self._pos += 1
    if start_pos == 0 or self._pos == len(self._tokens):
        return b''
    spaces = b''.join(strs)
    spaces = re.sub(b'\\t', b' ', spaces)
    spaces = re.sub(b'\\n +', b'\n', spaces)
    spaces = re.sub(b' +\\n', b'\n', spaces)
    spaces = re.sub(b'  +', b' ', spaces)
    spaces = re.sub(b'\\n\\n+', b'\n', spaces)
    return spaces"%bs.

Lemma pin_fmtw_fn_src : fmtw_fn_src = unBS fmtw_fn_expected.
Proof. vm_compute. reflexivity. Qed.

Lemma pin_minw_fn_src : minw_fn_src = unBS minw_fn_expected.
Proof. vm_compute. reflexivity. Qed.

(* ====================================================================== basic facts *)
Lemma span_p_spec p s : forall n t, span_p p s = (n, t) ->
  s = firstn n s ++ t /\ forallb p (firstn n s) = true /\ length (firstn n s) = n /\
  match t with c :: _ => p c = false | [] => True end.
Proof.
  induction s as [|c r IH]; intros n t H; cbn in H.
  - inversion H; subst. cbn. auto.
  - destruct (p c) eqn:Hc.
    + destruct (span_p p r) as [n' t'] eqn:E. inversion H; subst.
      destruct (IH _ _ eq_refl) as (H1 & H2 & H3 & H4). cbn [firstn]. repeat split.
      * cbn. f_equal. exact H1.
      * cbn. rewrite Hc. exact H2.
      * cbn. f_equal. exact H3.
      * exact H4.
    + inversion H; subst. cbn. auto.
Qed.

Lemma span_p_skipn p s n t : span_p p s = (n, t) -> skipn n s = t.
Proof.
  intros H. destruct (span_p_spec _ _ _ _ H) as (H1 & _ & H3 & _).
  rewrite H1 at 1. rewrite <- H3 at 1. rewrite skipn_app, skipn_all, Nat.sub_diag. reflexivity.
Qed.

(* what a substitution does to the bytes that are not white space: nothing *)
Definition is_ws (c : Z) : bool := (c =? SP) || (c =? TAB) || (c =? NL) || (c =? CR).
Definition nonws (s : list Z) : list Z := filter (fun c => negb (is_ws c)) s.

Lemma nonws_app a b : nonws (a ++ b) = nonws a ++ nonws b.
Proof. apply filter_app. Qed.

Lemma nonws_all_ws s : forallb is_ws s = true -> nonws s = [].
Proof.
  induction s as [|c r IH]; cbn; [reflexivity|]. rewrite andb_true_iff. intros [H1 H2].
  rewrite H1. cbn. auto.
Qed.

Lemma nonws_repeat_sp n : nonws (repeat SP n) = [].
Proof. induction n; cbn; auto. Qed.

Lemma forallb_impl {A} (p q : A -> bool) l :
  (forall x, p x = true -> q x = true) -> forallb p l = true -> forallb q l = true.
Proof. intros H. induction l; cbn; [auto|]. rewrite !andb_true_iff. intros [? ?]; split; auto. Qed.

(* a matcher that only moves white space around *)
Definition ws_only (m : matcher) : Prop :=
  forall s rep k, m s = Some (rep, k) -> (k <= length s)%nat /\ nonws rep = nonws (firstn k s).

Lemma resub_nonws m : ws_only m -> forall s skip, nonws (resub m skip s) = nonws (skipn skip s).
Proof.
  intros Hm. induction s as [|c r IH]; intros skip.
  - destruct skip; reflexivity.
  - cbn [resub]. destruct skip as [|k].
    + destruct (m (c :: r)) as [[rep [|k]]|] eqn:E.
      * cbn [skipn]. cbn. destruct (is_ws c); cbn; rewrite IH; reflexivity.
      * destruct (Hm _ _ _ E) as [Hk Hn]. rewrite nonws_app, IH, Hn.
        cbn [skipn]. rewrite <- nonws_app. f_equal. cbn [firstn]. cbn. f_equal.
        apply firstn_skipn.
      * cbn [skipn]. cbn. destruct (is_ws c); cbn; rewrite IH; reflexivity.
    + cbn [skipn]. apply IH.
Qed.

Lemma is_sp_ws l : forallb is_sp l = true -> forallb is_ws l = true.
Proof. apply forallb_impl. unfold is_sp, is_ws. intros x ->. reflexivity. Qed.
Lemma is_nl_ws l : forallb is_nl l = true -> forallb is_ws l = true.
Proof. apply forallb_impl. unfold is_nl, is_ws. intros x ->. rewrite !orb_true_r. reflexivity. Qed.
Lemma is_sp_nl_ws l : forallb is_sp_nl l = true -> forallb is_ws l = true.
Proof.
  apply forallb_impl. unfold is_sp_nl, is_ws. intros x. rewrite orb_true_iff. intros [-> | ->]; auto.
  rewrite !orb_true_r. reflexivity.
Qed.

Lemma ws_only_byte a b : is_ws a = true -> is_ws b = true -> ws_only (m_byte a b).
Proof.
  intros Ha Hb s rep k H. unfold m_byte in H. destruct s as [|c r]; [discriminate|].
  destruct (c =? a) eqn:E; [|discriminate]. inversion H; subst. apply Z.eqb_eq in E. subst c.
  split; [cbn; lia|]. cbn. rewrite Ha, Hb. reflexivity.
Qed.

Lemma ws_only_pair a b r : is_ws a = true -> is_ws b = true -> is_ws r = true -> ws_only (m_pair a b r).
Proof.
  intros Ha Hb Hr s rep k H. unfold m_pair in H. destruct s as [|c [|d t]]; try discriminate.
  destruct ((c =? a) && (d =? b)) eqn:E; [|discriminate]. inversion H; subst.
  apply andb_true_iff in E. destruct E as [E1 E2]. apply Z.eqb_eq in E1, E2. subst.
  split; [cbn; lia|]. cbn. rewrite Ha, Hb, Hr. reflexivity.
Qed.

(* firstn over a known span *)
Lemma firstn_span p s n t : span_p p s = (n, t) -> forall j, firstn (n + j) s = firstn n s ++ firstn j t.
Proof.
  intros H j. destruct (span_p_spec _ _ _ _ H) as (H1 & _ & H3 & _).
  rewrite H1 at 1. rewrite firstn_app, H3.
  replace (n + j - n)%nat with j by lia. f_equal.
  rewrite firstn_all2; [reflexivity | lia].
Qed.

Lemma span_len p s n t : span_p p s = (n, t) -> (n + length t = length s)%nat.
Proof.
  intros H. destruct (span_p_spec _ _ _ _ H) as (H1 & _ & H3 & _).
  rewrite H1 at 1. rewrite app_length, H3. reflexivity.
Qed.

Lemma ws_only_sp1_nl : ws_only m_sp1_nl.
Proof.
  intros s rep k H. unfold m_sp1_nl in H. destruct s as [|c r]; [discriminate|].
  destruct (c =? SP) eqn:Ec; [|discriminate].
  destruct (span_p is_sp r) as [n t] eqn:E. destruct t as [|d t']; [discriminate|].
  destruct (d =? NL) eqn:Ed; [|discriminate]. inversion H; subst.
  apply Z.eqb_eq in Ec, Ed. subst.
  pose proof (span_len _ _ _ _ E) as HL. cbn in HL.
  split; [cbn; lia|].
  destruct (span_p_spec _ _ _ _ E) as (_ & H2 & _ & _).
  rewrite firstn_cons. replace (S n) with (n + 1)%nat by lia. rewrite (firstn_span _ _ _ _ E).
  cbn [firstn]. change (SP :: firstn n r ++ [NL]) with ([SP] ++ firstn n r ++ [NL]).
  rewrite !nonws_app, (nonws_all_ws _ (is_sp_ws _ H2)). reflexivity.
Qed.

Lemma ws_only_nl_sp_xx x n0 : ws_only (m_nl_sp_xx x (repeat SP n0)).
Proof.
  intros s rep k H. unfold m_nl_sp_xx in H. destruct s as [|c r]; [discriminate|].
  destruct (c =? NL) eqn:Ec; [|discriminate].
  destruct (span_p is_sp r) as [n t] eqn:E. destruct t as [|a [|b t']]; try discriminate.
  destruct ((a =? x) && (b =? x)) eqn:Ex; [|discriminate]. inversion H; subst.
  apply andb_true_iff in Ex. destruct Ex as [E1 E2]. apply Z.eqb_eq in Ec, E1, E2. subst.
  pose proof (span_len _ _ _ _ E) as HL. cbn in HL.
  split; [cbn; lia|].
  destruct (span_p_spec _ _ _ _ E) as (_ & H2 & _ & _).
  rewrite firstn_cons. replace (S (S n)) with (n + 2)%nat by lia. rewrite (firstn_span _ _ _ _ E).
  cbn [firstn]. change (NL :: repeat SP n0 ++ [x; x]) with ([NL] ++ repeat SP n0 ++ [x; x]).
  change (NL :: firstn n r ++ [x; x]) with ([NL] ++ firstn n r ++ [x; x]).
  rewrite !nonws_app, (nonws_all_ws _ (is_sp_ws _ H2)), nonws_repeat_sp. reflexivity.
Qed.

Lemma ws_only_nl_sp_end n0 : ws_only (m_nl_sp_end (repeat SP n0)).
Proof.
  intros s rep k H. unfold m_nl_sp_end in H. destruct s as [|c r]; [discriminate|].
  destruct (c =? NL) eqn:Ec; [|discriminate].
  destruct (span_p is_sp r) as [n t] eqn:E. destruct t as [|a t']; [|discriminate].
  inversion H; subst. apply Z.eqb_eq in Ec. subst.
  pose proof (span_len _ _ _ _ E) as HL. cbn in HL.
  split; [cbn; lia|].
  destruct (span_p_spec _ _ _ _ E) as (_ & H2 & _ & _).
  rewrite firstn_cons. change (NL :: repeat SP n0) with ([NL] ++ repeat SP n0).
  change (NL :: firstn n r) with ([NL] ++ firstn n r).
  rewrite !nonws_app, (nonws_all_ws _ (is_sp_ws _ H2)), nonws_repeat_sp. reflexivity.
Qed.

Lemma ws_only_nl_nl1 rep0 : forallb is_ws rep0 = true -> ws_only (m_nl_nl1 rep0).
Proof.
  intros Hr s rep k H. unfold m_nl_nl1 in H. destruct s as [|c r]; [discriminate|].
  destruct (c =? NL) eqn:Ec; [|discriminate].
  destruct (span_p is_nl r) as [n t] eqn:E. destruct n as [|n]; [discriminate|].
  inversion H; subst. apply Z.eqb_eq in Ec. subst.
  pose proof (span_len _ _ _ _ E) as HL.
  split; [cbn; lia|].
  destruct (span_p_spec _ _ _ _ E) as (_ & H2 & _ & _).
  rewrite firstn_cons. change (NL :: firstn (S n) r) with ([NL] ++ firstn (S n) r).
  rewrite nonws_app, (nonws_all_ws _ (is_nl_ws _ H2)), (nonws_all_ws _ Hr). reflexivity.
Qed.

Lemma ws_only_spnl_nl_end : ws_only m_spnl_nl_end.
Proof.
  intros s rep k H. unfold m_spnl_nl_end in H. destruct s as [|c r]; [discriminate|].
  destruct (is_sp_nl c) eqn:Ec; [|discriminate].
  destruct (span_p is_sp_nl (c :: r)) as [n t] eqn:E. destruct t; [|discriminate].
  destruct (existsb is_nl (c :: r)); [|discriminate].
  inversion H; subst.
  pose proof (span_len _ _ _ _ E) as HL.
  split; [cbn in *; lia|].
  destruct (span_p_spec _ _ _ _ E) as (_ & H2 & _ & _).
  rewrite (nonws_all_ws _ (is_sp_nl_ws _ H2)). reflexivity.
Qed.

Lemma ws_only_sp1_end : ws_only m_sp1_end.
Proof.
  intros s rep k H. unfold m_sp1_end in H. destruct s as [|c r]; [discriminate|].
  destruct (c =? SP) eqn:Ec; [|discriminate].
  destruct (span_p is_sp (c :: r)) as [n t] eqn:E. destruct t; [|discriminate].
  inversion H; subst.
  pose proof (span_len _ _ _ _ E) as HL.
  split; [cbn in *; lia|].
  destruct (span_p_spec _ _ _ _ E) as (_ & H2 & _ & _).
  rewrite (nonws_all_ws _ (is_sp_ws _ H2)). reflexivity.
Qed.

Lemma ws_only_nl_sp1 : ws_only m_nl_sp1.
Proof.
  intros s rep k H. unfold m_nl_sp1 in H. destruct s as [|c r]; [discriminate|].
  destruct (c =? NL) eqn:Ec; [|discriminate].
  destruct (span_p is_sp r) as [n t] eqn:E. destruct n as [|n]; [discriminate|].
  inversion H; subst. apply Z.eqb_eq in Ec. subst.
  pose proof (span_len _ _ _ _ E) as HL.
  split; [cbn; lia|].
  destruct (span_p_spec _ _ _ _ E) as (_ & H2 & _ & _).
  rewrite firstn_cons. change (NL :: firstn (S n) r) with ([NL] ++ firstn (S n) r).
  rewrite nonws_app, (nonws_all_ws _ (is_sp_ws _ H2)). reflexivity.
Qed.

Lemma ws_only_sp2 : ws_only m_sp2.
Proof.
  intros s rep k H. unfold m_sp2 in H.
  destruct (span_p is_sp s) as [n t] eqn:E. destruct n as [|[|n]]; try discriminate.
  inversion H; subst.
  pose proof (span_len _ _ _ _ E) as HL.
  split; [lia|].
  destruct (span_p_spec _ _ _ _ E) as (_ & H2 & _ & _).
  rewrite (nonws_all_ws _ (is_sp_ws _ H2)). reflexivity.
Qed.

Lemma sub_head_sp_xx_nonws x rep0 s :
  nonws rep0 = nonws [x; x] -> nonws (sub_head_sp_xx x rep0 s) = nonws s.
Proof.
  intros Hr. unfold sub_head_sp_xx. destruct (span_p is_sp s) as [n t] eqn:E.
  destruct t as [|a [|b t']]; try reflexivity.
  destruct ((a =? x) && (b =? x)) eqn:Ex; [|reflexivity].
  apply andb_true_iff in Ex. destruct Ex as [E1 E2]. apply Z.eqb_eq in E1, E2. subst.
  destruct (span_p_spec _ _ _ _ E) as (H1 & H2 & _ & _).
  rewrite H1 at 1. rewrite !nonws_app, (nonws_all_ws _ (is_sp_ws _ H2)), Hr.
  change (x :: x :: t') with ([x; x] ++ t'). rewrite nonws_app. reflexivity.
Qed.

Lemma sub_head_sp_dollar_nonws s : nonws (sub_head_sp_dollar s) = nonws s.
Proof.
  unfold sub_head_sp_dollar. destruct (span_p is_sp s) as [n t] eqn:E.
  destruct (span_p_spec _ _ _ _ E) as (H1 & H2 & _ & _).
  destruct t as [|c [|d t']]; try reflexivity.
  - rewrite H1, app_nil_r, (nonws_all_ws _ (is_sp_ws _ H2)). reflexivity.
  - destruct (c =? NL) eqn:Ec; [|reflexivity]. apply Z.eqb_eq in Ec. subst.
    rewrite H1 at 1. rewrite nonws_app, (nonws_all_ws _ (is_sp_ws _ H2)). reflexivity.
Qed.

(* the formatter pipeline, written out *)
Definition fmt_run_unfolded (cfg : fcfg) (r : list Z) : list Z :=
  let ind := indent_bytes cfg in
  let s := resub (m_byte TAB SP) 0 r in
  let s := resub (m_pair CR NL NL) 0 s in
  let s := resub (m_pair NL CR NL) 0 s in
  let s := resub (m_byte CR NL) 0 s in
  let s := resub m_sp1_nl 0 s in
  let s := if negb (f_at_start cfg) then sub_head_sp_xx DASH [SP; SP; DASH; DASH] s else s in
  let s := resub (m_nl_sp_xx DASH ind) 0 s in
  let s := resub (m_nl_sp_xx SLASH ind) 0 s in
  let s := if f_at_start cfg then sub_head_sp_xx DASH [DASH; DASH] s else s in
  let s := if f_at_start cfg then sub_head_sp_xx SLASH [SLASH; SLASH] s else s in
  let s := resub (m_nl_sp_end ind) 0 s in
  let s := if f_at_start cfg then sub_head_sp_dollar s else s in
  let s := resub (m_nl_nl1 [NL; NL]) 0 s in
  if f_at_end cfg then resub m_sp1_end 0 (resub m_spnl_nl_end 0 s) else s.

Lemma fmt_run_eq cfg r : fmt_run cfg r = fmt_run_unfolded cfg r.
Proof. destruct cfg as [a [|] w d]; reflexivity. Qed.

Theorem fmt_run_nonws cfg r : nonws (fmt_run cfg r) = nonws r.
Proof.
  rewrite fmt_run_eq. unfold fmt_run_unfolded, indent_bytes.
  repeat match goal with
  | |- context [if ?b then _ else _] => destruct b
  end;
  repeat first
    [ rewrite sub_head_sp_dollar_nonws
    | rewrite sub_head_sp_xx_nonws by reflexivity
    | rewrite resub_nonws; [cbn [skipn] | first
        [ apply ws_only_byte; reflexivity | apply ws_only_pair; reflexivity | apply ws_only_sp1_nl
        | apply ws_only_nl_sp_xx | apply ws_only_nl_sp_end | apply ws_only_nl_nl1; reflexivity
        | apply ws_only_spnl_nl_end | apply ws_only_sp1_end ] ] ];
  reflexivity.
Qed.

Theorem min_run_nonws edge r : nonws (min_run edge r) = if edge then [] else nonws r.
Proof.
  unfold min_run. destruct edge; [reflexivity|].
  change (run_steps min_steps min_cfg r) with
    (resub (m_nl_nl1 [NL]) 0 (resub m_sp2 0 (resub m_sp1_nl 0 (resub m_nl_sp1 0 (resub (m_byte TAB SP) 0 r))))).
  repeat (rewrite resub_nonws; [cbn [skipn] | first
        [ apply ws_only_byte; reflexivity | apply ws_only_sp1_nl | apply ws_only_nl_sp1 | apply ws_only_sp2
        | apply ws_only_nl_nl1; reflexivity ] ]).
  reflexivity.
Qed.
