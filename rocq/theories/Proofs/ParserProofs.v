(* Lemmas about Model/Parser.v (no property theorems here). *)
From PV Require Import Base.Prelude Model.Tokens Model.Parser.
From Coq Require Import ZifyBool.
Ltac Zify.zify_post_hook ::= Z.to_euclidean_division_equations.

Section P.
Variable ts : list token.

Lemma accept_fence p st i t st' :
  accept ts p st = Ok (Some (i, t), st') -> fence_ok (snd st) i = true /\ fst st' = i + 1.
Proof.
  unfold accept. destruct (skip_ws p (skipn (Z.to_nat (fst st)) ts) (fst st)) as [j cur].
  destruct cur as [u|]; [|discriminate].
  destruct (matches u p && fence_ok (snd st) j) eqn:E; [|discriminate].
  intros [= -> -> <-]. apply andb_true_iff in E. cbn. tauto.
Qed.
End P.
