(* Lemmas about Model/Parser.v (no property theorems here).

   Part 1: significant-token index lists, the accept lemma, a weakest-precondition calculus for
   the parser monad that also tracks "never out of fuel".
   Part 2: one specification lemma per parse function; induction over the fuel levels. *)
From PV Require Import Base.Prelude Spec.LuaTokens Spec.LuaGrammar Model.Tokens Model.Parser.
From Coq Require Import ZifyBool.
Ltac Zify.zify_post_hook ::= Z.to_euclidean_division_equations.

Section P.
Variable ts : list token.

(* ------------------------------------------------------------------ token access, significant indices *)
Definition tok_at (i : Z) : option token :=
  if i <? 0 then None else nth_error ts (Z.to_nat i).

Definition sigb (i : Z) : bool :=
  match tok_at i with Some t => negb (is_trivia t) | None => false end.

Fixpoint zrange (a : Z) (n : nat) : list Z :=
  match n with O => [] | S k => a :: zrange (a + 1) k end.

(* indices of the significant tokens in [a, b) *)
Definition sig (a b : Z) : list Z := filter sigb (zrange a (Z.to_nat (b - a))).

Lemma zrange_app a n m : zrange a (n + m) = zrange a n ++ zrange (a + Z.of_nat n) m.
Proof.
  revert a; induction n as [|n IH]; intros a; cbn [zrange Nat.add app].
  - f_equal. lia.
  - rewrite IH. do 3 f_equal. lia.
Qed.

Lemma sig_app a b c : a <= b -> b <= c -> sig a b ++ sig b c = sig a c.
Proof.
  intros H1 H2. unfold sig. rewrite <- filter_app.
  replace (Z.to_nat (c - a)) with (Z.to_nat (b - a) + Z.to_nat (c - b))%nat by lia.
  rewrite zrange_app. do 3 f_equal. lia.
Qed.

Lemma sig_nil a b : b <= a -> sig a b = [].
Proof. intros H. unfold sig. replace (Z.to_nat (b - a)) with O by lia. reflexivity. Qed.

Lemma sig_all_trivia a b : (forall j, a <= j < b -> sigb j = false) -> sig a b = [].
Proof.
  unfold sig. remember (Z.to_nat (b - a)) as n eqn:E.
  assert (Hn : Z.of_nat n <= Z.max 0 (b - a)) by lia. clear E.
  revert a Hn; induction n as [|n IH]; intros a Hn H; cbn [zrange filter]; [reflexivity|].
  rewrite H by lia. apply IH; [lia|]. intros j Hj. apply H. lia.
Qed.

Lemma sig_single a i : a <= i -> (forall j, a <= j < i -> sigb j = false) -> sigb i = true ->
  sig a (i + 1) = [i].
Proof.
  intros Ha Htr Hs. rewrite <- (sig_app a i (i + 1)) by lia.
  rewrite (sig_all_trivia a i Htr). unfold sig. replace (Z.to_nat (i + 1 - i)) with 1%nat by lia.
  cbn [zrange filter app]. rewrite Hs. reflexivity.
Qed.

Lemma sig_bounds a b i : In i (sig a b) -> a <= i < b.
Proof.
  unfold sig. rewrite filter_In. intros [H _]. remember (Z.to_nat (b - a)) as n eqn:E.
  assert (Hn : Z.of_nat n <= Z.max 0 (b - a)) by lia. clear E.
  revert a Hn H; induction n as [|n IH]; intros a Hn H; cbn [zrange In] in H; [tauto|].
  destruct H as [<-|H]; [lia|]. apply IH in H; lia.
Qed.

(* ------------------------------------------------------------------ _accept *)
Definition pat_nontrivia (p : pat) : bool :=
  match p with
  | PClass k | PTok k _ => match k with CSpace | CNewline | CComment => false | _ => true end
  end.

Lemma matches_nontrivia t p : pat_nontrivia p = true -> matches t p = true -> is_trivia t = false.
Proof.
  unfold matches, is_trivia, tok_eqb. destruct p as [k|k d]; cbn [pat_nontrivia tk]; intros Hp Hm.
  - apply kclass_eqb_eq in Hm. rewrite Hm. destruct k; try reflexivity; discriminate.
  - apply andb_true_iff in Hm. destruct Hm as [Hm _]. apply kclass_eqb_eq in Hm. cbn [tk] in Hm.
    rewrite Hm. destruct k; try reflexivity; discriminate.
Qed.

Lemma skip_ws_spec p l a i cur :
  0 <= a -> (forall k, nth_error l k = nth_error ts (Z.to_nat a + k)) ->
  skip_ws p l a = (i, cur) ->
  a <= i /\ (forall j, a <= j < i -> sigb j = false) /\
  match cur with
  | Some t => tok_at i = Some t /\ (matches t p = true \/ is_trivia t = false)
  | None => True
  end.
Proof.
  revert a; induction l as [|t r IH]; intros a Ha Hl; cbn [skip_ws].
  - intros [= <- <-]. split; [lia|]. split; [intros; lia | exact I].
  - destruct (matches t p || negb (is_trivia t)) eqn:E.
    + intros [= <- <-]. split; [lia|]. split; [intros; lia|].
      split.
      * unfold tok_at. destruct (a <? 0) eqn:E0; [lia|]. rewrite <- (Nat.add_0_r (Z.to_nat a)), <- Hl. reflexivity.
      * apply orb_true_iff in E. destruct E as [E|E]; [left; exact E | right].
        apply negb_true_iff in E. exact E.
    + intros H. apply IH in H; [|lia|].
      * destruct H as (H1 & H2 & H3). split; [lia|]. split; [|exact H3].
        intros j Hj. destruct (Z.eq_dec j a) as [->|Hne]; [|apply H2; lia].
        unfold sigb, tok_at. destruct (a <? 0) eqn:E0; [lia|].
        rewrite <- (Nat.add_0_r (Z.to_nat a)), <- Hl. cbn [nth_error].
        apply orb_false_iff in E. destruct E as [_ E]. apply negb_false_iff in E. rewrite E. reflexivity.
      * intros k. replace (Z.to_nat (a + 1) + k)%nat with (Z.to_nat a + S k)%nat by lia.
        rewrite <- Hl. reflexivity.
Qed.

Lemma nth_error_skipn {A} (l : list A) n k : nth_error (skipn n l) k = nth_error l (n + k).
Proof.
  revert l; induction n as [|n IH]; intros l; [reflexivity|].
  destruct l as [|x l]; cbn [skipn Nat.add nth_error]; [destruct k; reflexivity | apply IH].
Qed.

Lemma tok_at_lt i t : tok_at i = Some t -> 0 <= i < zlen ts.
Proof.
  unfold tok_at. destruct (i <? 0) eqn:E; [discriminate|]. intros H.
  assert (nth_error ts (Z.to_nat i) <> None) as Hn by congruence.
  apply nth_error_Some in Hn. unfold zlen. lia.
Qed.

(* the limit the cursor may not pass: the short-if fence, or the end of the input *)
Definition lim (mx : option Z) : Z := match mx with Some f => f | None => zlen ts end.

Lemma accept_spec p q mx :
  pat_nontrivia p = true -> 0 <= q ->
  match accept ts p (q, mx) with
  | Ok (None, st) => st = (q, mx)
  | Ok (Some (i, t), st) =>
      st = (i + 1, mx) /\ q <= i /\ i < zlen ts /\ i < lim mx /\ [i] = sig q (i + 1) /\
      tok_at i = Some t /\ matches t p = true
  | Err _ => False
  end.
Proof.
  intros Hp Hq. unfold accept. cbn [fst snd].
  destruct (skip_ws p (skipn (Z.to_nat q) ts) q) as [i cur] eqn:E.
  apply skip_ws_spec in E; [|exact Hq | intros k; apply nth_error_skipn].
  destruct E as (H1 & H2 & H3). destruct cur as [t|]; [|reflexivity].
  destruct H3 as [Ht Hm]. destruct (matches t p && fence_ok mx i) eqn:E2; [|reflexivity].
  apply andb_true_iff in E2. destruct E2 as [Em Ef].
  split; [reflexivity|]. split; [exact H1|]. pose proof (tok_at_lt _ _ Ht) as Hlt.
  split; [lia|]. split.
  - unfold lim, fence_ok in *. destruct mx; lia.
  - split; [|split; assumption]. symmetry. apply sig_single; [exact H1 | exact H2|].
    unfold sigb. rewrite Ht. rewrite (matches_nontrivia _ _ Hp Em). reflexivity.
Qed.

(* ------------------------------------------------------------------ weakest preconditions *)
(* [wpx m Q p mx]: run from cursor p with fence mx, m does not run out of fuel, and if it returns
   normally the result, final cursor and final fence satisfy Q *)
Definition post (A : Type) : Type := A -> Z -> option Z -> Prop.

Definition wpx {A} (m : M A) (Q : post A) (p : Z) (mx : option Z) : Prop :=
  match m (p, mx) with
  | Ok (a, (p1, mx1)) => Q a p1 mx1
  | Err e => e <> OutOfFuel
  end.

Lemma wpx_ret {A} (a : A) (Q : post A) p mx : Q a p mx -> wpx (ret a) Q p mx.
Proof. intros H. exact H. Qed.

Lemma wpx_bind {A B} (m : M A) (f : A -> M B) (Q : post B) p mx :
  wpx m (fun a p1 mx1 => wpx (f a) Q p1 mx1) p mx -> wpx (bindM m f) Q p mx.
Proof.
  unfold wpx, bindM. destruct (m (p, mx)) as [[a [p1 mx1]]|e]; intros H; exact H.
Qed.

Lemma wpx_conseq {A} (m : M A) (Q Q' : post A) p mx :
  wpx m Q' p mx -> (forall a p1 mx1, Q' a p1 mx1 -> Q a p1 mx1) -> wpx m Q p mx.
Proof.
  unfold wpx. destruct (m (p, mx)) as [[a [p1 mx1]]|e]; intros H HQ; [apply HQ, H | exact H].
Qed.

Lemma wpx_raise {A} e (Q : post A) p mx : e <> OutOfFuel -> wpx (raise e) Q p mx.
Proof. intros H. exact H. Qed.

Lemma wpx_get_pos (Q : post Z) p mx : Q p p mx -> wpx get_pos Q p mx.
Proof. intros H. exact H. Qed.

Lemma wpx_set_pos q (Q : post unit) p mx : Q tt q mx -> wpx (set_pos q) Q p mx.
Proof. intros H. exact H. Qed.

Lemma wpx_get_max (Q : post (option Z)) p mx : Q mx p mx -> wpx get_max Q p mx.
Proof. intros H. exact H. Qed.

Lemma wpx_set_max m (Q : post unit) p mx : Q tt p m -> wpx (set_max m) Q p mx.
Proof. intros H. exact H. Qed.

Lemma wpx_mk tag s fs (Q : post tree) p mx : Q (Node tag s p false fs) p mx -> wpx (mk tag s fs) Q p mx.
Proof. intros H. exact H. Qed.

Lemma wpx_accept pat (Q : post (option (Z * token))) p mx :
  pat_nontrivia pat = true -> 0 <= p ->
  Q None p mx ->
  (forall i t, p <= i -> i < zlen ts -> i < lim mx -> [i] = sig p (i + 1) -> tok_at i = Some t ->
               matches t pat = true -> Q (Some (i, t)) (i + 1) mx) ->
  wpx (accept ts pat) Q p mx.
Proof.
  intros Hp Hq Hn Hs. unfold wpx. pose proof (accept_spec pat p mx Hp Hq) as H.
  destruct (accept ts pat (p, mx)) as [[[[i t]|] [p1 mx1]]|e]; [| |contradiction].
  - destruct H as ([= -> ->] & H1 & H2 & H3 & H4 & H5 & H6). apply Hs; assumption.
  - injection H as -> ->. exact Hn.
Qed.

Lemma wpx_expect pat (Q : post (Z * token)) p mx :
  pat_nontrivia pat = true -> 0 <= p ->
  (forall i t, p <= i -> i < zlen ts -> i < lim mx -> [i] = sig p (i + 1) -> tok_at i = Some t ->
               matches t pat = true -> Q (i, t) (i + 1) mx) ->
  wpx (expect ts pat) Q p mx.
Proof.
  intros Hp Hq Hs. unfold expect. apply wpx_bind. apply wpx_accept; [exact Hp | exact Hq | |].
  - apply wpx_raise. discriminate.
  - intros i t H1 H2 H3 H4 H5 H6. apply wpx_ret. apply Hs; assumption.
Qed.

Lemma wpx_assert v (Q : post tree) p mx : (is_none v = false -> Q v p mx) -> wpx (assert_node v) Q p mx.
Proof.
  intros H. unfold assert_node. destruct (is_none v); [apply wpx_raise; discriminate | apply wpx_ret, H; reflexivity].
Qed.

Lemma wpx_accept_first ps (Q : post (option (Z * token))) p mx :
  forallb pat_nontrivia ps = true -> 0 <= p ->
  Q None p mx ->
  (forall i t, p <= i -> i < zlen ts -> i < lim mx -> [i] = sig p (i + 1) -> tok_at i = Some t ->
               Q (Some (i, t)) (i + 1) mx) ->
  wpx (accept_first ts ps) Q p mx.
Proof.
  intros Hps Hq Hn Hs. induction ps as [|pt r IH]; cbn [accept_first].
  - apply wpx_ret, Hn.
  - cbn [forallb] in Hps. apply andb_true_iff in Hps. destruct Hps as [Hp Hr].
    apply wpx_bind. apply wpx_accept; [exact Hp | exact Hq | apply IH, Hr |].
    intros i t H1 H2 H3 H4 H5 _. apply wpx_ret. apply Hs; assumption.
Qed.

(* ------------------------------------------------------------------ newline search *)
Definition next_newline (q : Z) : Z := newline_after ts q.

Definition nl_or_end (f : Z) : Prop :=
  f = zlen ts \/ exists t, tok_at f = Some t /\ is_newline t = true.

Lemma find_newline_spec l a :
  0 <= a -> (forall k, nth_error l k = nth_error ts (Z.to_nat a + k)) -> zlen l = zlen ts - a ->
  let f := find_newline l a in
  a <= f <= zlen ts /\ nl_or_end f /\
  (forall j t, a <= j < f -> tok_at j = Some t -> is_newline t = false).
Proof.
  revert a; induction l as [|t r IH]; intros a Ha Hl Hlen; cbn [find_newline]; cbv zeta.
  - rewrite zlen_nil in Hlen. split; [lia|]. split; [left; lia | intros; lia].
  - rewrite zlen_cons in Hlen. pose proof (zlen_nonneg r) as Hr0.
    assert (Hta : tok_at a = Some t).
    { unfold tok_at. destruct (a <? 0) eqn:E0; [lia|]. rewrite <- (Nat.add_0_r (Z.to_nat a)), <- Hl. reflexivity. }
    destruct (is_newline t) eqn:E.
    + split; [lia|]. split; [right; exists t; split; assumption | intros; lia].
    + specialize (IH (a + 1)). cbv zeta in IH. destruct IH as (H1 & H2 & H3); [lia | | lia |].
      * intros k. replace (Z.to_nat (a + 1) + k)%nat with (Z.to_nat a + S k)%nat by lia. rewrite <- Hl. reflexivity.
      * split; [lia|]. split; [exact H2|]. intros j u Hj Hu.
        destruct (Z.eq_dec j a) as [->|Hne]; [congruence | apply (H3 j); [lia | exact Hu]].
Qed.

Lemma zlen_skipn {A} (l : list A) n : (n <= length l)%nat -> zlen (skipn n l) = zlen l - Z.of_nat n.
Proof. intros H. unfold zlen. rewrite skipn_length. lia. Qed.

Lemma next_newline_spec q :
  0 <= q <= zlen ts ->
  q <= next_newline q <= zlen ts /\ nl_or_end (next_newline q) /\
  (forall j t, q <= j < next_newline q -> tok_at j = Some t -> is_newline t = false).
Proof.
  intros Hq. unfold next_newline, newline_after. apply find_newline_spec; [lia | intros k; apply nth_error_skipn|].
  rewrite zlen_skipn; unfold zlen in *; lia.
Qed.

(* a fence that is a newline (or the end) at or after q bounds the next newline from q *)
Lemma next_newline_le q f : 0 <= q <= f -> f <= zlen ts -> nl_or_end f -> next_newline q <= f.
Proof.
  intros Hq Hf Hn. destruct (next_newline_spec q) as (H1 & _ & H3); [lia|].
  destruct (Z_le_gt_dec (next_newline q) f) as [H|H]; [exact H|]. exfalso.
  destruct Hn as [->|(t & Ht & Hnl)]; [lia|].
  rewrite (H3 f t) in Hnl; [discriminate | lia | exact Ht].
Qed.

(* ------------------------------------------------------------------ well-formed trees *)
(* index of the last token of the condition of a short-if: last leaf of the (condition, block) pair
   without its block *)
Definition cond_close (pr : list tree) : Z := last (flat_map leaves (removelast pr)) (-1).

(* a short-if node ends no later than the first newline token after its condition *)
Definition fence_cond (tag : Z) (sh : bool) (e : Z) (fs : list tree) : Prop :=
  tag = tStatIf -> sh = true ->
  exists k pr ep, fs = [k; Lst (Lst pr :: ep)] /\ e <= next_newline (cond_close pr + 1).

(* positions nested (start <= end <= end of the enclosing node) and every short-if fenced *)
Fixpoint wf (hi : Z) (t : tree) {struct t} : Prop :=
  match t with
  | Node tag s e sh fs =>
      s <= e /\ e <= hi /\
      (fix go (l : list tree) : Prop := match l with [] => True | x :: r => wf e x /\ go r end) fs /\
      fence_cond tag sh e fs
  | Lst l => (fix go (l : list tree) : Prop := match l with [] => True | x :: r => wf hi x /\ go r end) l
  | Paren _ _ x => wf hi x
  | Hid x => wf hi x
  | _ => True
  end.

Fixpoint wfl (hi : Z) (l : list tree) : Prop :=
  match l with [] => True | x :: r => wf hi x /\ wfl hi r end.

Lemma wf_node hi tag s e sh fs :
  s <= e -> e <= hi -> wfl e fs -> fence_cond tag sh e fs -> wf hi (Node tag s e sh fs).
Proof.
  intros H1 H2 H3 H4. cbn [wf]. split; [exact H1|]. split; [exact H2|]. split; [|exact H4].
  clear H4. induction fs as [|x r IH]; [exact I|]. cbn [wfl] in H3. split; [apply H3 | apply IH, H3].
Qed.

Lemma wf_node_inv hi tag s e sh fs :
  wf hi (Node tag s e sh fs) -> s <= e /\ e <= hi /\ wfl e fs /\ fence_cond tag sh e fs.
Proof.
  cbn [wf]. intros (H1 & H2 & H3 & H4). split; [exact H1|]. split; [exact H2|]. split; [|exact H4].
  clear H4. induction fs as [|x r IH]; [exact I|]. cbn [wfl]. split; [apply H3 | apply IH, H3].
Qed.

Lemma wf_lst hi l : wfl hi l -> wf hi (Lst l).
Proof. cbn [wf]. induction l as [|x r IH]; [intros; exact I|]. cbn [wfl]. intros [H1 H2]. split; [exact H1 | apply IH, H2]. Qed.

Lemma wf_lst_inv hi l : wf hi (Lst l) -> wfl hi l.
Proof. cbn [wf]. induction l as [|x r IH]; [intros; exact I|]. cbn [wfl]. intros [H1 H2]. split; [exact H1 | apply IH, H2]. Qed.

Lemma wfl_cons hi x r : wf hi x -> wfl hi r -> wfl hi (x :: r).
Proof. intros; split; assumption. Qed.

Lemma wfl_app hi a b : wfl hi a -> wfl hi b -> wfl hi (a ++ b).
Proof. induction a as [|x a IH]; cbn [wfl app]; [intros; assumption|]. intros [H1 H2] H3. split; [exact H1 | apply IH; assumption]. Qed.

Lemma wf_mono t : forall hi hi', wf hi t -> hi <= hi' -> wf hi' t.
Proof.
  induction t as [tag s e sh fs IH| | l IH| | | | |i j x IH|x IH] using tree_ind'; intros hi hi' H Hle; try exact I.
  - apply wf_node_inv in H. destruct H as (H1 & H2 & H3 & H4). apply wf_node; try assumption. lia.
  - apply wf_lst. apply wf_lst_inv in H. induction IH as [|x r Hx Hr IH2]; [exact I|].
    cbn [wfl] in *. split; [eapply Hx; [apply H | exact Hle] | apply IH2, H].
  - cbn [wf] in *. eapply IH; eassumption.
  - cbn [wf] in *. eapply IH; eassumption.
Qed.

Lemma wfl_mono l : forall hi hi', wfl hi l -> hi <= hi' -> wfl hi' l.
Proof.
  induction l as [|x r IH]; intros hi hi' H Hle; [exact I|]. cbn [wfl] in *.
  split; [eapply wf_mono; [apply H | exact Hle] | eapply IH; [apply H | exact Hle]].
Qed.

Lemma sig_app_r a b c l : a <= b -> b <= c -> sig a b ++ sig b c ++ l = sig a c ++ l.
Proof. intros. rewrite app_assoc, sig_app by assumption. reflexivity. Qed.

(* node end = cursor, for expression results *)
Definition end_ok (t : tree) (p1 : Z) : Prop := forall ee, end_of t = Some ee -> ee = p1.

End P.
