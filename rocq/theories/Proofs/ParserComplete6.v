(* Completeness of the parser model, part 6: induction over the recursion levels and the theorem about lua_parse. *)
From PV Require Import Base.Prelude Spec.LuaTokens Spec.LuaGrammar Model.Tokens Model.Parser Model.ParserInst
  Model.AstWriter Proofs.ParserProofs Proofs.ParserSpecs Proofs.ParserTheorems Proofs.ParserComplete1 Proofs.ParserComplete2
  Proofs.ParserComplete3 Proofs.ParserComplete4 Proofs.ParserComplete5.
From Coq Require Import ZifyBool.
Ltac Zify.zify_post_hook ::= Z.to_euclidean_division_equations.

Section Levels.
Variable ts : list token.
Local Notation len := (zlen ts).

Lemma G_step k p : G ts (k + 1) p -> G' ts k p.
Proof. unfold G, G'. lia. Qed.

Lemma comp_bottom : comp ts (G ts 0) bottom.
Proof.
  assert (H0 : forall p, G ts 0 p -> False) by (unfold G; intros; lia).
  constructor; repeat intro; exfalso; eapply H0; eassumption.
Qed.

Lemma comp_step k R : comp ts (G ts k) R -> comp ts (G ts (k + 1)) (step ts lua_binops lua_unops R).
Proof.
  intros HR. pose proof (L_shortif ts R k HR) as HS.
  constructor; cbn [step r_exp r_chunk r_semis r_stats_loop r_namelist_loop r_funcname_loop r_explist_loop
                     r_varlist_loop r_fields_loop r_elseif_loop r_precur r_binop].
  - intros p mx n items s' HG. apply (L_exp ts R k HR). apply G_step, HG.
  - intros p mx HG. apply (L_exp_none ts R k). apply G_step, HG.
  - intros first p mx n items s' HG. apply (L_binop ts R k HR). apply G_step, HG.
  - intros p mx n g s' HG. apply (L_chunk ts R k HR HS). apply G_step, HG.
  - intros p mx l s' HG. apply (L_semis ts R k HR). apply G_step, HG.
  - intros p mx n l s' HG. apply (L_semis_stats ts R k HR). apply G_step, HG.
  - intros p mx n l s' HG. apply (L_stats ts R k HR HS). apply G_step, HG.
  - intros p mx l s' HG. apply (L_namelist_loop ts R k HR). apply G_step, HG.
  - intros p mx l s' HG. apply (L_funcname_loop ts R k HR). apply G_step, HG.
  - intros p mx n l s' HG. apply (L_explist_loop ts R k HR). apply G_step, HG.
  - intros p mx n l s' HG. apply (L_varlist_loop ts R k HR). apply G_step, HG.
  - intros p mx n l s' HG. apply (L_fields_loop ts R k HR). apply G_step, HG.
  - intros p mx n l s' HG. apply (L_elseif_loop ts R k HR). apply G_step, HG.
  - intros l first gfirst p mx s' HG. apply (L_precur ts R k HR). apply G_step, HG.
Qed.

Lemma comp_level n : comp ts (G ts (Z.of_nat n)) (level ts lua_binops lua_unops n).
Proof.
  induction n as [|n IH]; [exact comp_bottom|].
  replace (Z.of_nat (S n)) with (Z.of_nat n + 1) by lia. cbn [level]. apply comp_step, IH.
Qed.

Lemma sstream_0 : sstream ts 0 = sig_stream ts 0.
Proof. reflexivity. Qed.

Lemma parse_complete g : derives ts g = true -> line_scoped ts g = true -> excl g = true ->
  exists root e, lua_parse ts = Ok (root, e) /\ consumed ts e = true /\ denotes g (view root) = true.
Proof.
  intros Hd Hls Hex. unfold derives in Hd. apply andb_true_iff in Hd. destruct Hd as [Hwf Hd].
  apply andb_true_iff in Hwf. destruct Hwf as [Hfl Hlv].
  pose proof (in_frag_of_excl g Hex Hfl) as Hfr. pose proof (tokdata_of_leaves_ok ts g Hlv) as Htd.
  destruct (g_chunk (2 * tsize g + 8) g (sig_stream ts 0)) as [[|? ?]|] eqn:Hg; try discriminate Hd.
  assert (HC : CTX ts g None).
  { split; [exact Hfr|]. split; [exact Htd|]. split; [|intros; reflexivity].
    rewrite line_scoped_LS in Hls. rewrite forallb_forall in Hls. exact Hls. }
  pose proof (zlen_nonneg ts) as Hlen.
  destruct (c_chunk _ _ _ (comp_level (fuel_for ts)) 0 None _ g [] ltac:(unfold G, fuel_for, zlen; lia) Hg HC (follow_nil _ _))
    as (t & p' & E & Hl & Q1 & Q2 & Q3 & fs & ->).
  unfold lua_parse, parse, parse_with_fuel. rewrite E. cbn [is_none strip_paren fst].
  eexists _, _. split; [reflexivity|]. split; [|exact Q3].
  unfold consumed. apply andb_true_iff. split; [apply andb_true_iff; split; lia|].
  apply sstream_nil_trivia; [lia | exact Q1].
Qed.

End Levels.

(* ------------------------------------------------------------------ from the model's tree to a derivation *)
(* Used only to state non-vacuity examples: the model's tree of a program, with every operator nest flattened into
   a chain node, is a derivation tree of the reference grammar (checked by computation on the example). *)
Fixpoint to_deriv (n : nat) (t : tree) : tree :=
  match n with
  | O => t
  | S n =>
      let fix flat (m : nat) (t : tree) : list tree :=
        match m with
        | O => [to_deriv n t]
        | S m =>
            match t with
            | Node tag _ _ _ [a; Tok i o; b] => if tag =? tExpBinOp then flat m a ++ Tok i o :: flat m b else [to_deriv n t]
            | Node tag _ _ _ [Tok i o; a] => if tag =? tExpUnOp then Tok i o :: flat m a else [to_deriv n t]
            | _ => [to_deriv n t]
            end
        end in
      match t with
      | Node tag s e sh fs =>
          if (tag =? tExpBinOp) || (tag =? tExpUnOp) then Node tChain 0 0 false (flat n t)
          else Node tag s e sh (map (to_deriv n) fs)
      | Lst l => Lst (map (to_deriv n) l)
      | Paren i j x => Paren i j (to_deriv n x)
      | Hid x => Hid (to_deriv n x)
      | _ => t
      end
  end.

(* the program of the non-vacuity example of C08_complete (Properties/C08.v) *)
Definition c08_example_ts : list token :=
  let sp := mkTok CSpace 0 " "%bs " "%bs in
  let nl := mkTok CNewline 0 [10] [10] in
  let nm c := mkTok CName 0 c c in
  let sy c := mkTok CSymbol 0 c c in
  let kw c := mkTok CKeyword 0 c c in
  let nu c := mkTok CNumber 0 c c in
  [kw "local"%bs; sp; nm "t"%bs; sy "="%bs; sy "{"%bs; nu "1"%bs; sy ","%bs; nm "x"%bs; sy "="%bs; nu "2"%bs; sy "}"%bs; nl;
   kw "if"%bs; sp; sy "("%bs; nm "t"%bs; sy "."%bs; nm "x"%bs; sy ")"%bs; sp; nm "f"%bs; sy "("%bs; nm "t"%bs; sy ")"%bs; sp;
   kw "else"%bs; sp; nm "y"%bs; sy "="%bs; sy "-"%bs; nm "t"%bs; sy "["%bs; nu "1"%bs; sy "]"%bs; sy "+"%bs; nu "2"%bs; nl;
   kw "for"%bs; sp; nm "i"%bs; sy "="%bs; nu "1"%bs; sy ","%bs; nu "3"%bs; sp; kw "do"%bs; sp; nm "t"%bs; sy "."%bs; nm "x"%bs;
   sy "+="%bs; nm "i"%bs; sp; kw "end"%bs; nl; kw "return"%bs; sp; nm "t"%bs; nl].

