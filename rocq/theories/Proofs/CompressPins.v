(* Source pins of pico8/game/compress.py: code compression (Model/Compress.v).
   WRITTEN BY gen/mkpins.py (developer step) from the sources the hand-written model was compared with;
   each lemma fails when the function it names has been edited since (digest of ast.unparse, docstrings
   dropped; regenerated on every run into Generated/T_pins_compress.v). *)
From Coq Require Import ZArith List.
Import ListNotations.
Open Scope Z_scope.
From PV Require Import Generated.T_pins_compress.

Lemma pin__mod___find_repeatable_block_ok : pin__mod___find_repeatable_block = [53; 35; 9; 76; 218; 49; 21; 172].
Proof. reflexivity. Qed.
Lemma pin__mod__compress_code_ok : pin__mod__compress_code = [141; 247; 159; 244; 14; 186; 90; 216].
Proof. reflexivity. Qed.
Lemma pin__mod__decompress_code_ok : pin__mod__decompress_code = [215; 49; 110; 54; 4; 146; 61; 252].
Proof. reflexivity. Qed.

(* no function was added to or removed from the pinned classes *)
Lemma pin_names__compress_ok : pin_names__compress =
  [[112; 105; 110; 95; 95; 109; 111; 100; 95; 95; 95; 102; 105; 110; 100; 95; 114; 101; 112; 101; 97; 116; 97; 98; 108; 101; 95; 98; 108; 111; 99; 107]; [112; 105; 110; 95; 95; 109; 111; 100; 95; 95; 99; 111; 109; 112; 114; 101; 115; 115; 95; 99; 111; 100; 101]; [112; 105; 110; 95; 95; 109; 111; 100; 95; 95; 100; 101; 99; 111; 109; 112; 114; 101; 115; 115; 95; 99; 111; 100; 101]].
Proof. reflexivity. Qed.
