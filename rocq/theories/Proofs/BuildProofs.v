(* C13 - the do_build model obeys the selection rule, for every argument configuration, every
   file-system world and every (abstract) section content. *)
From PV Require Import Base.Prelude Spec.BuildSpec Model.Build Model.BuildInst Instances.HoldsC13
  Generated.T_file_proto Generated.T_build_do.

(* ---------- pins: the regenerated shape facts the model relies on ---------- *)
(* the tuple of the section loop names each of the six sections exactly once - in ANY order *)
Fixpoint names_to_sections (names : list bytes) : option (list section) :=
  match names with
  | [] => Some []
  | n :: r => match section_of_name n, names_to_sections r with
              | Some s, Some l => Some (s :: l)
              | _, _ => None
              end
  end.

Definition count_section (s : section) (l : list section) : nat :=
  length (filter (section_eqb s) l).

Definition sections_once (names : list bytes) : bool :=
  match names_to_sections names with
  | Some l => forallb (fun s => Nat.eqb (count_section s l) 1) all_sections
  | None => false
  end.

Lemma pin_build_sections : sections_once build_sections = true.
Proof. vm_compute. reflexivity. Qed.

Lemma pin_build_endswith_consts :
  build_endswith_consts = [".p8"%bs : bytes; ".p8.png"%bs : bytes; ".p8"%bs : bytes; ".p8.png"%bs : bytes;
                           ".lua"%bs : bytes; ".lua"%bs : bytes].
Proof. reflexivity. Qed.

Lemma pin_build_empty_prefixes : build_empty_prefixes = ["empty_"%bs : bytes; "empty_"%bs : bytes].
Proof. reflexivity. Qed.

Lemma pin_section_eq_consts : do_build_section_eq_consts = ["lua"%bs : bytes; "lua"%bs : bytes].
Proof. reflexivity. Qed.

(* the four optional attributes the model reads with a default are read that way by do_build *)
Lemma pin_getattr_names :
  forallb (fun n => existsb (zlist_eqb n) do_build_getattr_names)
          ["lua_path"%bs : bytes; "optimize_tokens"%bs : bytes; "lua_format"%bs : bytes; "lua_minify"%bs : bytes] = true.
Proof. vm_compute. reflexivity. Qed.

Lemma pin_formatters_order : formatters_order = [".p8.png"%bs : bytes; ".p8"%bs : bytes; ".rom"%bs : bytes].
Proof. reflexivity. Qed.

(* order of the calls / returns of do_build that matter to the model: one optional read of OUT, the
   loop with its four early returns, one from_file per source, two setattr, one to_file as the last action *)
Lemma pin_do_build_skeleton :
  do_build_skeleton =
  ["return"%bs : bytes; "Game.make_empty_game"%bs : bytes; "path.exists"%bs : bytes; "file.from_file"%bs : bytes;
   "Game.make_empty_game"%bs : bytes; "for"%bs : bytes; "return"%bs : bytes; "path.exists"%bs : bytes;
   "return"%bs : bytes; "return"%bs : bytes; "with"%bs : bytes; "open"%bs : bytes; "Lua.from_lines"%bs : bytes;
   "_evaluate_require"%bs : bytes; "raise"%bs : bytes; "_prepend_package_lua"%bs : bytes; "file.from_file"%bs : bytes;
   "setattr"%bs : bytes; "setattr"%bs : bytes; "file.to_file"%bs : bytes; "return"%bs : bytes].
Proof. reflexivity. Qed.

(* every section of the loop is an argparse destination taking a file name, and 'empty_'+section a flag *)
Lemma pin_build_dests :
  forallb (fun s => existsb (fun d => zlist_eqb (fst d) (section_name s) && (snd d =? 0)) build_arg_dests
                    && existsb (fun d => zlist_eqb (fst d) ("empty_"%bs ++ section_name s) && (snd d =? 1)) build_arg_dests)
          all_sections = true.
Proof. vm_compute. reflexivity. Qed.

(* ---------- small facts ---------- *)
Lemma section_of_name_name s : section_of_name (section_name s) = Some s.
Proof. destruct s; reflexivity. Qed.

Lemma name_is_lua s : zlist_eqb (section_name s) "lua"%bs = section_eqb s SLua.
Proof. destruct s; reflexivity. Qed.

Lemma sec_set_get_same {A} s (x : secs A) : sec_set s (sec_get s x) x = x.
Proof. destruct x, s; reflexivity. Qed.

Lemma sec_get_set_same {A} s (a : A) x : sec_get s (sec_set s a x) = a.
Proof. destruct s; reflexivity. Qed.

Lemma sec_get_set_other {A} s t (a : A) x : section_eqb s t = false -> sec_get s (sec_set t a x) = sec_get s x.
Proof. destruct s, t; cbn; intros H; try discriminate H; reflexivity. Qed.

Lemma cart_eta {A} (c : cart A) : mkCart (c_secs c) (c_label c) (c_version c) = c.
Proof. destruct c; reflexivity. Qed.

Lemma ends_with_iff s suffix : ends_with s suffix = true <-> exists r, s = r ++ suffix.
Proof.
  unfold ends_with. rewrite starts_with_app. split.
  - intros (r & H). exists (rev r).
    rewrite <- (rev_involutive s), H, rev_app_distr, rev_involutive. reflexivity.
  - intros (r & ->). exists (rev r). apply rev_app_distr.
Qed.

(* ---------- the Namespace argparse builds ---------- *)
Section WithArgs.
Variable args : build_args.
Let ns := namespace_now args.

Lemma ns_filename : ns_get ns "filename"%bs = Some (VStr (b_out args)).
Proof. vm_compute. reflexivity. Qed.

Lemma ns_src s :
  getattr_d ns (section_name s) VNone = match b_src args s with Some fn => VStr fn | None => VNone end.
Proof. destruct s; vm_compute; reflexivity. Qed.

Lemma ns_empty s :
  getattr_d ns ("empty_"%bs ++ section_name s) (VBool false) = VBool (b_empty args s).
Proof. destruct s; vm_compute; reflexivity. Qed.

Lemma ns_lua_path :
  getattr_d ns "lua_path"%bs VNone = match b_lua_path args with Some p => VStr p | None => VNone end.
Proof. vm_compute. reflexivity. Qed.

Lemma ns_optimize_tokens : getattr_d ns "optimize_tokens"%bs (VBool false) = VBool false.
Proof. vm_compute. reflexivity. Qed.

Lemma ns_lua_format : getattr_d ns "lua_format"%bs (VBool false) = VBool false.
Proof. vm_compute. reflexivity. Qed.

Lemma ns_lua_minify : getattr_d ns "lua_minify"%bs (VBool false) = VBool false.
Proof. vm_compute. reflexivity. Qed.

End WithArgs.

(* ---------- one loop iteration = the rule for that section ---------- *)
Definition not_wrote {A} (o : outcome A) : Prop :=
  match o with Wrote _ _ _ => False | _ => True end.

Section Step.
Context {A : Type}.
Variable w : world A.
Variable args : build_args.
Let ns := namespace_now args.

(* [chosen] with the current value of the section made explicit *)
Definition chosen_cur (cur : A) (s : section) : result A :=
  match b_src args s with
  | Some fn =>
    if b_empty args s then Err ValueError
    else if negb (w_exists w fn) then Err ValueError
    else if negb (source_name_ok s fn) then Err ValueError
    else if section_eqb s SLua && is_luafile fn then w_luafile w fn (b_lua_path args)
    else match w_cart w fn with
         | Ok src => Ok (sec_get s (c_secs src))
         | Err e => Err e
         end
  | None =>
    if b_empty args s then Ok (sec_get s (c_secs (w_empty w)))
    else Ok cur
  end.

Lemma chosen_is_chosen_cur prev s : chosen w args prev s = chosen_cur (sec_get s (c_secs prev)) s.
Proof. reflexivity. Qed.

Definition step_now (sn : bytes) (result : cart A) : step A :=
  build_step build_endswith_consts build_empty_prefixes do_build_section_eq_consts w ns (w_empty w) sn result.

Lemma build_step_spec s (result : cart A) :
  match chosen_cur (sec_get s (c_secs result)) s with
  | Ok v => step_now (section_name s) result
            = Continue (mkCart (sec_set s v (c_secs result)) (c_label result) (c_version result))
  | Err _ => exists o, step_now (section_name s) result = Stop o /\ not_wrote o
  end.
Proof.
  unfold step_now, build_step, chosen_cur.
  change (prefc build_empty_prefixes 0) with ("empty_"%bs : bytes).
  change (prefc build_empty_prefixes 1) with ("empty_"%bs : bytes).
  change (endc build_endswith_consts 2) with (".p8"%bs : bytes).
  change (endc build_endswith_consts 3) with (".p8.png"%bs : bytes).
  change (endc build_endswith_consts 4) with (".lua"%bs : bytes).
  change (endc build_endswith_consts 5) with (".lua"%bs : bytes).
  change (eqc do_build_section_eq_consts 0) with ("lua"%bs : bytes).
  change (eqc do_build_section_eq_consts 1) with ("lua"%bs : bytes).
  unfold ns.
  rewrite (ns_src args s), (ns_empty args s), (ns_lua_path args), (ns_optimize_tokens args), (name_is_lua s).
  unfold cart_getattr, cart_setattr. rewrite (section_of_name_name s).
  unfold source_name_ok, is_p8, is_p8png, is_luafile.
  assert (Hlp : match match b_lua_path args with Some p => VStr p | None => VNone end with
                | VStr p => Some p | _ => None end = b_lua_path args)
    by (destruct (b_lua_path args); reflexivity).
  rewrite Hlp; clear Hlp.
  destruct (b_src args s) as [fn|].
  - cbn [truthy].
    destruct (b_empty args s).
    { eexists; split; [reflexivity | exact I]. }
    destruct (w_exists w fn); cbn [negb].
    2:{ eexists; split; [reflexivity | exact I]. }
    destruct (ends_with fn ".p8"%bs) eqn:E1, (ends_with fn ".p8.png"%bs) eqn:E2,
             (section_eqb s SLua) eqn:E3, (ends_with fn ".lua"%bs) eqn:E4; cbn [negb andb orb];
      try (eexists; split; [reflexivity | exact I]);
      try (destruct (w_luafile w fn (b_lua_path args)) as [code|e];
           [ assert (Hs : s = SLua) by (destruct s; (reflexivity || discriminate E3)); subst s; reflexivity
           | eexists; split; [reflexivity | exact I] ]);
      try (destruct (w_cart w fn) as [src|e]; [reflexivity | eexists; split; [reflexivity | exact I]]).
  - cbn [truthy].
    destruct (b_empty args s).
    + reflexivity.
    + rewrite sec_set_get_same, cart_eta. reflexivity.
Qed.

End Step.

(* ---------- the loop over any list of distinct sections ---------- *)
Lemma section_eqb_eq a b : section_eqb a b = true <-> a = b.
Proof. destruct a, b; cbn; split; intros H; try reflexivity; try discriminate H. Qed.

Lemma section_eqb_refl a : section_eqb a a = true.
Proof. destruct a; reflexivity. Qed.

Lemma section_of_name_inv n s : section_of_name n = Some s -> n = section_name s.
Proof.
  unfold section_of_name.
  repeat match goal with
         | |- context [if zlist_eqb n ?c then _ else _] =>
           let E := fresh "E" in destruct (zlist_eqb n c) eqn:E;
           [apply zlist_eqb_eq in E; intros [= <-]; exact E|]
         end.
  discriminate.
Qed.

Lemma names_to_sections_map names l : names_to_sections names = Some l -> names = map section_name l.
Proof.
  revert l. induction names as [|n names IH]; intros l; cbn.
  - intros [= <-]. reflexivity.
  - destruct (section_of_name n) as [s|] eqn:E; [|discriminate].
    destruct (names_to_sections names) as [l'|]; [|discriminate].
    intros [= <-]. cbn. f_equal; [apply section_of_name_inv; exact E | apply IH; reflexivity].
Qed.

Lemma count_in s l : In s l <-> (count_section s l > 0)%nat.
Proof.
  unfold count_section. induction l as [|x l IH]; cbn.
  - split; [tauto | lia].
  - destruct (section_eqb s x) eqn:E; cbn [length].
    + apply section_eqb_eq in E. subst. split; [lia | auto].
    + rewrite <- IH. split; [intros [H | H]; [subst; rewrite section_eqb_refl in E; discriminate | exact H] | auto].
Qed.

Lemma count_one_nodup l : (forall s, (count_section s l <= 1)%nat) -> NoDup l.
Proof.
  induction l as [|x l IH]; intros H; constructor.
  - intros Hin. apply count_in in Hin. specialize (H x). unfold count_section in *. cbn in H.
    rewrite section_eqb_refl in H. cbn [length] in H. lia.
  - apply IH. intros s. specialize (H s). unfold count_section in *. cbn in H.
    destruct (section_eqb s x); cbn [length] in H; lia.
Qed.

Lemma sections_once_spec names :
  sections_once names = true ->
  exists l, names = map section_name l /\ NoDup l /\ forall s, In s l.
Proof.
  unfold sections_once. destruct (names_to_sections names) as [l|] eqn:E; [|discriminate].
  intros H. exists l. split; [apply names_to_sections_map; exact E|].
  rewrite forallb_forall in H.
  assert (Hc : forall s, count_section s l = 1%nat).
  { intros s. apply Nat.eqb_eq, H. destruct s; cbn; tauto. }
  split.
  - apply count_one_nodup. intros s. rewrite Hc. lia.
  - intros s. apply count_in. rewrite Hc. lia.
Qed.

Lemma secs_ext {A} (x y : secs A) : (forall s, sec_get s x = sec_get s y) -> x = y.
Proof.
  intros H. destruct x, y.
  pose proof (H SLua); pose proof (H SGfx); pose proof (H SGff); pose proof (H SMap); pose proof (H SSfx); pose proof (H SMusic).
  cbn in *. congruence.
Qed.

Section Loop.
Context {A : Type}.
Variable w : world A.
Variable args : build_args.

Definition set_section (s : section) (v : A) (c : cart A) : cart A :=
  mkCart (sec_set s v (c_secs c)) (c_label c) (c_version c).

(* the loop as a fold of the rule over a list of sections *)
Fixpoint fold_chosen (ss : list section) (acc : cart A) : option (cart A) :=
  match ss with
  | [] => Some acc
  | s :: r =>
    match chosen_cur w args (sec_get s (c_secs acc)) s with
    | Ok v => fold_chosen r (set_section s v acc)
    | Err _ => None
    end
  end.

Definition loop_now (names : list bytes) (result : cart A) : step A :=
  build_loop build_endswith_consts build_empty_prefixes do_build_section_eq_consts w (namespace_now args)
             (w_empty w) names result.

Lemma loop_fold ss : forall acc,
  match fold_chosen ss acc with
  | Some c => loop_now (map section_name ss) acc = Continue c
  | None => exists o, loop_now (map section_name ss) acc = Stop o /\ not_wrote o
  end.
Proof.
  induction ss as [|s ss IH]; intros acc; cbn [fold_chosen map].
  - reflexivity.
  - unfold loop_now. cbn [build_loop].
    pose proof (build_step_spec w args s acc) as H. unfold step_now in H.
    destruct (chosen_cur w args (sec_get s (c_secs acc)) s) as [v|e].
    + rewrite H. apply IH.
    + destruct H as (o & -> & Ho). exists o. split; [reflexivity | exact Ho].
Qed.

(* what the fold computes, for distinct sections whose current values are still the previous ones *)
Lemma fold_result prev ss : NoDup ss -> forall acc,
  (forall s, In s ss -> sec_get s (c_secs acc) = sec_get s (c_secs prev)) ->
  match fold_chosen ss acc with
  | Some c => (forall s, In s ss -> chosen w args prev s = Ok (sec_get s (c_secs c)))
              /\ (forall s, ~ In s ss -> sec_get s (c_secs c) = sec_get s (c_secs acc))
              /\ c_label c = c_label acc /\ c_version c = c_version acc
  | None => exists s e, In s ss /\ chosen w args prev s = Err e
  end.
Proof.
  induction 1 as [|s ss Hnotin Hnd IH]; intros acc Hacc; cbn [fold_chosen].
  - split; [intros s []|]. split; [reflexivity|]. split; reflexivity.
  - assert (Hc : chosen w args prev s = chosen_cur w args (sec_get s (c_secs acc)) s).
    { rewrite chosen_is_chosen_cur, (Hacc s (or_introl eq_refl)). reflexivity. }
    destruct (chosen_cur w args (sec_get s (c_secs acc)) s) as [v|e] eqn:E.
    + specialize (IH (set_section s v acc)).
      assert (Hacc' : forall t, In t ss -> sec_get t (c_secs (set_section s v acc)) = sec_get t (c_secs prev)).
      { intros t Ht. cbn. rewrite sec_get_set_other; [apply Hacc; right; exact Ht|].
        destruct (section_eqb t s) eqn:Ets; [|reflexivity]. apply section_eqb_eq in Ets. subst. contradiction. }
      specialize (IH Hacc').
      destruct (fold_chosen ss (set_section s v acc)) as [c|].
      * destruct IH as (I1 & I2 & I3 & I4). split; [|split; [|split]].
        -- intros t [<- | Ht]; [|apply I1; exact Ht].
           rewrite Hc. f_equal. rewrite (I2 s Hnotin). cbn. rewrite sec_get_set_same. reflexivity.
        -- intros t Ht. rewrite I2 by (intros Hin; apply Ht; right; exact Hin).
           cbn. apply sec_get_set_other.
           destruct (section_eqb t s) eqn:Ets; [|reflexivity]. apply section_eqb_eq in Ets. subst.
           exfalso. apply Ht. left. reflexivity.
        -- rewrite I3. reflexivity.
        -- rewrite I4. reflexivity.
      * destruct IH as (t & e & Ht & He). exists t, e. split; [right; exact Ht | exact He].
    + exists s, e. split; [left; reflexivity | exact Hc].
Qed.

End Loop.

(* ---------- the whole command ---------- *)
Theorem build_select {A} (w : world A) (args : build_args) :
  spec_view_now w (b_out args) (do_build_now w (namespace_now args)) = build_spec w args.
Proof.
  unfold do_build_now, do_build, build_spec.
  rewrite (ns_filename args).
  change (endc build_endswith_consts 0) with (".p8"%bs : bytes).
  change (endc build_endswith_consts 1) with (".p8.png"%bs : bytes).
  unfold out_name_ok, is_p8, is_p8png, previous.
  rewrite negb_orb.
  destruct (negb (ends_with (b_out args) ".p8"%bs) && negb (ends_with (b_out args) ".p8.png"%bs)) eqn:Eout.
  { reflexivity. }
  destruct (if w_exists w (b_out args) then w_cart w (b_out args) else Ok (w_empty w)) as [prev|e].
  2:{ reflexivity. }
  destruct (sections_once_spec _ pin_build_sections) as (ss & -> & Hnd & Hall).
  change (build_loop build_endswith_consts build_empty_prefixes do_build_section_eq_consts w (namespace_now args)
                     (w_empty w) (map section_name ss) prev) with (loop_now w args (map section_name ss) prev).
  pose proof (loop_fold w args ss prev) as HL.
  pose proof (fold_result w args prev ss Hnd prev (fun s _ => eq_refl)) as HF.
  destruct (fold_chosen w args ss prev) as [c|].
  - rewrite HL. destruct HF as (F1 & F2 & F3 & F4).
    rewrite (F1 SLua (Hall _)), (F1 SGfx (Hall _)), (F1 SGff (Hall _)), (F1 SMap (Hall _)),
            (F1 SSfx (Hall _)), (F1 SMusic (Hall _)).
    rewrite (ns_lua_format args), (ns_lua_minify args). cbn [truthy].
    unfold spec_view_now, spec_view, stored_label, previous_label, is_p8png.
    rewrite pin_formatters_order. cbn [formatter_for].
    assert (Hs : mkSecs (sec_get SLua (c_secs c)) (sec_get SGfx (c_secs c)) (sec_get SGff (c_secs c))
                        (sec_get SMap (c_secs c)) (sec_get SSfx (c_secs c)) (sec_get SMusic (c_secs c)) = c_secs c).
    { apply secs_ext. intros s. destruct s; reflexivity. }
    rewrite Hs.
    apply andb_false_iff in Eout.
    destruct (ends_with (b_out args) ".p8.png"%bs) eqn:E2.
    + cbn. destruct (w_exists w (b_out args)); reflexivity.
    + destruct (ends_with (b_out args) ".p8"%bs) eqn:E1.
      * cbn. rewrite F3. destruct (w_exists w (b_out args)); reflexivity.
      * destruct Eout as [Eo | Eo]; discriminate Eo.
  - destruct HL as (o & -> & Ho).
    destruct HF as (s & e & _ & He).
    assert (Hnone : match chosen w args prev SLua, chosen w args prev SGfx, chosen w args prev SGff,
                          chosen w args prev SMap, chosen w args prev SSfx, chosen w args prev SMusic with
                    | Ok a, Ok b, Ok c, Ok d, Ok e, Ok f => Some (mkSecs a b c d e f, previous_label w args prev)
                    | _, _, _, _, _, _ => None
                    end = None).
    { destruct s; rewrite He;
        repeat match goal with |- context [match chosen w args prev ?t with _ => _ end] =>
                 destruct (chosen w args prev t) end; reflexivity. }
    rewrite Hnone. destruct o; [reflexivity | reflexivity | destruct Ho].
Qed.

(* ---------- a loop iteration that stops never writes (for every namespace, also with flags) ---------- *)
Lemma build_step_stop_not_wrote {A} ends prefixes eqconsts (w : world A) ns e sn r o :
  build_step ends prefixes eqconsts w ns e sn r = Stop o -> not_wrote o.
Proof.
  unfold build_step.
  repeat match goal with
         | |- context [match ?x with _ => _ end] => destruct x
         end; intros H; inversion H; exact I.
Qed.

Lemma build_loop_stop_not_wrote {A} ends prefixes eqconsts (w : world A) ns e names r o :
  build_loop ends prefixes eqconsts w ns e names r = Stop o -> not_wrote o.
Proof.
  revert r. induction names as [|sn names IH]; intros r; cbn [build_loop].
  - discriminate.
  - destruct (build_step ends prefixes eqconsts w ns e sn r) as [r'|o'] eqn:E.
    + apply IH.
    + intros H. inversion H; subst. eapply build_step_stop_not_wrote; eassumption.
Qed.

(* the loop never touches the label section or the version *)
Lemma build_step_keeps_label {A} ends prefixes eqconsts (w : world A) ns e sn r r' :
  build_step ends prefixes eqconsts w ns e sn r = Continue r' ->
  c_label r' = c_label r /\ c_version r' = c_version r.
Proof.
  unfold build_step, cart_setattr.
  repeat match goal with
         | |- context [match ?x with _ => _ end] => destruct x
         end; intros H; inversion H; subst; split; reflexivity.
Qed.

Lemma build_loop_keeps_label {A} ends prefixes eqconsts (w : world A) ns e names r r' :
  build_loop ends prefixes eqconsts w ns e names r = Continue r' ->
  c_label r' = c_label r /\ c_version r' = c_version r.
Proof.
  revert r. induction names as [|sn names IH]; intros r; cbn [build_loop].
  - intros H. inversion H; subst. split; reflexivity.
  - destruct (build_step ends prefixes eqconsts w ns e sn r) as [r1|o1] eqn:E; [|discriminate].
    intros H. apply IH in H. apply build_step_keeps_label in E.
    destruct H as [H1 H2], E as [E1 E2]. split; congruence.
Qed.

(* for EVERY namespace (any flags): do_build calls to_file at most once, as its last action, for the
   name in args.filename, which then ends in .p8 or .p8.png; the label flag is os.path.exists(OUT);
   the label section and version written are those of OUT's previous contents (or the defaults) *)
Theorem do_build_write_shape {A} (w : world A) (ns : namespace) c wr l :
  do_build_now w ns = Wrote c wr l ->
  exists filename prev,
    ns_get ns "filename"%bs = Some (VStr filename) /\ out_name_ok filename = true /\
    l = w_exists w filename /\
    (if w_exists w filename then w_cart w filename else Ok (w_empty w)) = Ok prev /\
    c_label c = c_label prev /\ c_version c = c_version prev.
Proof.
  unfold do_build_now, do_build.
  destruct (ns_get ns "filename"%bs) as [[| filename | b]|]; try discriminate.
  change (endc build_endswith_consts 0) with (".p8"%bs : bytes).
  change (endc build_endswith_consts 1) with (".p8.png"%bs : bytes).
  destruct (negb (ends_with filename ".p8"%bs) && negb (ends_with filename ".p8.png"%bs)) eqn:Eo; [discriminate|].
  destruct (if w_exists w filename then w_cart w filename else Ok (w_empty w)) as [prev|e] eqn:Ep; [|discriminate].
  destruct (build_loop _ _ _ w ns (w_empty w) build_sections prev) as [r|o] eqn:El.
  - apply build_loop_keeps_label in El. destruct El as [L1 L2].
    intros H. exists filename, prev.
    assert (Hok : out_name_ok filename = true).
    { unfold out_name_ok, is_p8, is_p8png. rewrite <- negb_orb in Eo. apply negb_false_iff in Eo. exact Eo. }
    revert H. cbv zeta.
    destruct (truthy (getattr_d ns "lua_format"%bs (VBool false))).
    + match goal with |- context [forallb ?f do_build_format_attrs] => destruct (forallb f do_build_format_attrs) end; [|discriminate]. intros H; inversion H; subst; repeat split; auto.
    + destruct (truthy (getattr_d ns "lua_minify"%bs (VBool false))).
      * match goal with |- context [forallb ?f do_build_minify_attrs] => destruct (forallb f do_build_minify_attrs) end; [|discriminate]. intros H; inversion H; subst; repeat split; auto.
      * intros H; inversion H; subst; repeat split; auto.
  - intros H. subst o. apply build_loop_stop_not_wrote in El. destruct El.
Qed.

Lemma do_build_now_wrote_default {A} (w : world A) (args : build_args) c wr l :
  do_build_now w (namespace_now args) = Wrote c wr l -> wr = WDefault.
Proof.
  unfold do_build_now, do_build.
  rewrite (ns_filename args), (ns_lua_format args), (ns_lua_minify args). cbn [truthy].
  destruct (negb _ && negb _); [discriminate|].
  destruct (if w_exists w (b_out args) then w_cart w (b_out args) else Ok (w_empty w)); [|discriminate].
  destruct (build_loop _ _ _ _ _ _ _ _) as [r|o] eqn:El.
  - intros H. inversion H. reflexivity.
  - intros H. subst o. apply build_loop_stop_not_wrote in El. destruct El.
Qed.

(* when the rule says "fail", do_build performs no to_file call at all: OUT is not even opened *)
Theorem build_fail_no_write {A} (w : world A) (args : build_args) :
  build_spec w args = None -> not_wrote (do_build_now w (namespace_now args)).
Proof.
  intros H. rewrite <- build_select in H.
  destruct (do_build_now w (namespace_now args)) as [r|e|c wr l] eqn:E; [exact I | exact I |].
  pose proof (do_build_now_wrote_default w args c wr l E) as ->.
  apply do_build_write_shape in E.
  destruct E as (filename & prev & Hf & Hok & _).
  rewrite (ns_filename args) in Hf. inversion Hf; subst filename.
  unfold spec_view_now, spec_view, stored_label in H.
  rewrite pin_formatters_order in H. cbn [formatter_for] in H.
  unfold out_name_ok, is_p8, is_p8png in Hok.
  destruct (ends_with (b_out args) ".p8.png"%bs).
  - cbn in H. discriminate H.
  - destruct (ends_with (b_out args) ".p8"%bs); [cbn in H; discriminate H | discriminate Hok].
Qed.

(* and when it says "succeed", exactly one to_file call with the echo writer *)
Theorem build_ok_writes {A} (w : world A) (args : build_args) x req :
  build_spec w args = Some (x, req) ->
  exists c, do_build_now w (namespace_now args) = Wrote c WDefault (w_exists w (b_out args)) /\ c_secs c = x.
Proof.
  intros H. rewrite <- build_select in H.
  destruct (do_build_now w (namespace_now args)) as [r|e|c wr l] eqn:E; try discriminate H.
  pose proof (do_build_now_wrote_default w args c wr l E) as ->.
  pose proof (do_build_write_shape w _ c WDefault l E) as (filename & prev & Hf & _ & Hl & _).
  rewrite (ns_filename args) in Hf. inversion Hf; subst filename. subst l.
  exists c. split; [reflexivity|].
  unfold spec_view_now, spec_view in H.
  destruct (stored_label w formatters_order (b_out args) c (w_exists w (b_out args))) as [[l0 b0]|]; [|discriminate H].
  inversion H. reflexivity.
Qed.

(* observation O1 as a statement about the model: with --lua-format, whenever the Namespace lacks one of the
   attributes that branch reads strictly (today: `indentwidth`, which the build sub-command does not define),
   do_build never reaches to_file *)
Theorem build_lua_format_never_writes {A} (w : world A) (ns : namespace) :
  truthy (getattr_d ns "lua_format"%bs (VBool false)) = true ->
  (exists a, In a do_build_format_attrs /\ ns_get ns a = None) ->
  not_wrote (do_build_now w ns).
Proof.
  intros Hf (a & Hin & Ha). unfold do_build_now, do_build.
  destruct (ns_get ns "filename"%bs) as [[| filename | b]|]; try exact I.
  destruct (negb _ && negb _); [exact I|].
  destruct (if w_exists w filename then w_cart w filename else Ok (w_empty w)); [|exact I].
  destruct (build_loop _ _ _ _ _ _ _ _) as [r|o] eqn:El.
  - cbv zeta. rewrite Hf.
    assert (Hfa : forallb (fun a0 => match ns_get ns a0 with Some _ => true | None => false end) do_build_format_attrs = false).
    { apply not_true_is_false. intros H. rewrite forallb_forall in H. specialize (H a Hin). rewrite Ha in H. discriminate H. }
    rewrite Hfa. exact I.
  - eapply build_loop_stop_not_wrote; eassumption.
Qed.

(* ---------- the model's run, seen as an observation, passes the instance predicate ---------- *)
Definition model_observation {A} (w : world A) (args : build_args) : observation A :=
  match do_build_now w (namespace_now args) with
  | Wrote c WDefault l =>
    match stored_label_now w (b_out args) c l with
    | Ok (lab, _) => mkObs false false (Some (c_secs c, lab))
    | Err _ => mkObs true true None
    end
  | Wrote _ _ _ => mkObs false false None
  | _ => mkObs true true None
  end.

Lemma secs_eqb_refl {A} (eqb : A -> A -> bool) : (forall a, eqb a a = true) -> forall x, secs_eqb eqb x x = true.
Proof. intros H x. unfold secs_eqb. apply forallb_forall. intros s _. apply H. Qed.

Theorem model_holds {A} (eqb : A -> A -> bool) :
  (forall a, eqb a a = true) ->
  forall (w : world A) (args : build_args), holds_C13 eqb w args (model_observation w args) = true.
Proof.
  intros Hr w args. unfold holds_C13, model_observation.
  rewrite <- build_select. unfold spec_view_now, spec_view, stored_label_now.
  destruct (do_build_now w (namespace_now args)) as [r|e|c wr l] eqn:E; [reflexivity | reflexivity |].
  pose proof (do_build_now_wrote_default w args c wr l E) as ->.
  destruct (stored_label w formatters_order (b_out args) c l) as [[lab b0]|e0]; [|reflexivity].
  cbn [obeys o_failed o_after negb andb]. rewrite secs_eqb_refl by exact Hr. cbn [andb].
  destruct (w_exists w (b_out args)); [|reflexivity].
  cbn [label_ok]. destruct lab; cbn; [apply Hr | reflexivity].
Qed.
