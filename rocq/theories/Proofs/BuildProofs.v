(* C13 - the do_build model obeys the selection rule, for every argument configuration, every
   file-system world and every (abstract) section content. *)
From PV Require Import Base.Prelude Spec.BuildSpec Model.Build Model.BuildInst Instances.HoldsC13
  Generated.T_files_build Generated.T_files_file Generated.T_build_do.

(* ---------- pins: the regenerated shape facts the model relies on ---------- *)
Lemma pin_build_sections : build_sections = map section_name all_sections.
Proof. reflexivity. Qed.

Lemma pin_build_endswith_consts :
  build_endswith_consts = [".p8"%bs : bytes; ".p8.png"%bs : bytes; ".p8"%bs : bytes; ".p8.png"%bs : bytes;
                           ".lua"%bs : bytes; ".lua"%bs : bytes].
Proof. reflexivity. Qed.

Lemma pin_build_empty_prefixes : build_empty_prefixes = ["empty_"%bs : bytes; "empty_"%bs : bytes].
Proof. reflexivity. Qed.

Lemma pin_section_eq_consts : do_build_section_eq_consts = ["lua"%bs : bytes; "lua"%bs : bytes].
Proof. reflexivity. Qed.

Lemma pin_getattr_names :
  do_build_getattr_names = ["lua_path"%bs : bytes; "optimize_tokens"%bs : bytes; "lua_format"%bs : bytes; "lua_minify"%bs : bytes].
Proof. reflexivity. Qed.

Lemma pin_formatters_order : formatters_order = [".p8.png"%bs : bytes; ".p8"%bs : bytes; ".rom"%bs : bytes].
Proof. reflexivity. Qed.

(* order of the calls / returns of do_build that matter to the model: one optional read of OUT, the
   loop with its four early returns, one from_file per source, two setattr, one to_file as the last action *)
Lemma pin_do_build_skeleton :
  do_build_skeleton =
  ["return"%bs : bytes; "Game.make_empty_game"%bs : bytes; "path.exists"%bs : bytes; "file.from_file"%bs : bytes;
   "Game.make_empty_game"%bs : bytes; "for"%bs : bytes; "return"%bs : bytes; "path.exists"%bs : bytes;
   "return"%bs : bytes; "return"%bs : bytes; "with"%bs : bytes; "open"%bs : bytes; "Lua.from_lines"%bs : bytes;
   "_evaluate_require"%bs : bytes; "raise"%bs : bytes; "_prepend_package_lua"%bs : bytes; "file.from_file"%bs : bytes;
   "setattr"%bs : bytes; "setattr"%bs : bytes; "file.to_file"%bs : bytes; "return"%bs : bytes].
Proof. reflexivity. Qed.

(* every section of the loop is an argparse destination taking a file name, and 'empty_'+section a flag *)
Lemma pin_build_dests :
  forallb (fun s => existsb (fun d => zlist_eqb (fst d) (section_name s) && (snd d =? 0)) build_arg_dests
                    && existsb (fun d => zlist_eqb (fst d) ("empty_"%bs ++ section_name s) && (snd d =? 1)) build_arg_dests)
          all_sections = true.
Proof. vm_compute. reflexivity. Qed.

(* observation O1 (not part of C13's statement): `build --lua-format` reads args.indentwidth, which the
   build sub-command does not define, and passes a 1-tuple as writer class *)
Lemma pin_O1_no_indentwidth :
  existsb (fun d => zlist_eqb (fst d) "indentwidth"%bs) build_arg_dests = false
  /\ do_build_writer_cls_is_tuple = true.
Proof. split; reflexivity. Qed.

(* ---------- small facts ---------- *)
Lemma section_of_name_name s : section_of_name (section_name s) = Some s.
Proof. destruct s; reflexivity. Qed.

Lemma name_is_lua s : zlist_eqb (section_name s) "lua"%bs = section_eqb s SLua.
Proof. destruct s; reflexivity. Qed.

Lemma sec_set_get_same {A} s (x : secs A) : sec_set s (sec_get s x) x = x.
Proof. destruct x, s; reflexivity. Qed.

Lemma sec_get_set_same {A} s (a : A) x : sec_get s (sec_set s a x) = a.
Proof. destruct s; reflexivity. Qed.

Lemma sec_get_set_other {A} s t (a : A) x : section_eqb s t = false -> sec_get s (sec_set t a x) = sec_get s x.
Proof. destruct s, t; cbn; intros H; try discriminate H; reflexivity. Qed.

Lemma cart_eta {A} (c : cart A) : mkCart (c_secs c) (c_label c) (c_version c) = c.
Proof. destruct c; reflexivity. Qed.

Lemma ends_with_iff s suffix : ends_with s suffix = true <-> exists r, s = r ++ suffix.
Proof.
  unfold ends_with. rewrite starts_with_app. split.
  - intros (r & H). exists (rev r).
    rewrite <- (rev_involutive s), H, rev_app_distr, rev_involutive. reflexivity.
  - intros (r & ->). exists (rev r). apply rev_app_distr.
Qed.

(* ---------- the Namespace argparse builds ---------- *)
Section WithArgs.
Variable args : build_args.
Let ns := namespace_now args.

Lemma ns_filename : ns_get ns "filename"%bs = Some (VStr (b_out args)).
Proof. vm_compute. reflexivity. Qed.

Lemma ns_src s :
  getattr_d ns (section_name s) VNone = match b_src args s with Some fn => VStr fn | None => VNone end.
Proof. destruct s; vm_compute; reflexivity. Qed.

Lemma ns_empty s :
  getattr_d ns ("empty_"%bs ++ section_name s) (VBool false) = VBool (b_empty args s).
Proof. destruct s; vm_compute; reflexivity. Qed.

Lemma ns_lua_path :
  getattr_d ns "lua_path"%bs VNone = match b_lua_path args with Some p => VStr p | None => VNone end.
Proof. vm_compute. reflexivity. Qed.

Lemma ns_optimize_tokens : getattr_d ns "optimize_tokens"%bs (VBool false) = VBool false.
Proof. vm_compute. reflexivity. Qed.

Lemma ns_lua_format : getattr_d ns "lua_format"%bs (VBool false) = VBool false.
Proof. vm_compute. reflexivity. Qed.

Lemma ns_lua_minify : getattr_d ns "lua_minify"%bs (VBool false) = VBool false.
Proof. vm_compute. reflexivity. Qed.

End WithArgs.

(* ---------- one loop iteration = the rule for that section ---------- *)
Definition not_wrote {A} (o : outcome A) : Prop :=
  match o with Wrote _ _ _ => False | _ => True end.

Section Step.
Context {A : Type}.
Variable w : world A.
Variable args : build_args.
Let ns := namespace_now args.

(* [chosen] with the current value of the section made explicit *)
Definition chosen_cur (cur : A) (s : section) : result A :=
  match b_src args s with
  | Some fn =>
    if b_empty args s then Err ValueError
    else if negb (w_exists w fn) then Err ValueError
    else if negb (source_name_ok s fn) then Err ValueError
    else if section_eqb s SLua && is_luafile fn then w_luafile w fn (b_lua_path args)
    else match w_cart w fn with
         | Ok src => Ok (sec_get s (c_secs src))
         | Err e => Err e
         end
  | None =>
    if b_empty args s then Ok (sec_get s (c_secs (w_empty w)))
    else Ok cur
  end.

Lemma chosen_is_chosen_cur prev s : chosen w args prev s = chosen_cur (sec_get s (c_secs prev)) s.
Proof. reflexivity. Qed.

Definition step_now (sn : bytes) (result : cart A) : step A :=
  build_step build_endswith_consts build_empty_prefixes do_build_section_eq_consts w ns (w_empty w) sn result.

Lemma build_step_spec s (result : cart A) :
  match chosen_cur (sec_get s (c_secs result)) s with
  | Ok v => step_now (section_name s) result
            = Continue (mkCart (sec_set s v (c_secs result)) (c_label result) (c_version result))
  | Err _ => exists o, step_now (section_name s) result = Stop o /\ not_wrote o
  end.
Proof.
  unfold step_now, build_step, chosen_cur.
  change (prefc build_empty_prefixes 0) with ("empty_"%bs : bytes).
  change (prefc build_empty_prefixes 1) with ("empty_"%bs : bytes).
  change (endc build_endswith_consts 2) with (".p8"%bs : bytes).
  change (endc build_endswith_consts 3) with (".p8.png"%bs : bytes).
  change (endc build_endswith_consts 4) with (".lua"%bs : bytes).
  change (endc build_endswith_consts 5) with (".lua"%bs : bytes).
  change (eqc do_build_section_eq_consts 0) with ("lua"%bs : bytes).
  change (eqc do_build_section_eq_consts 1) with ("lua"%bs : bytes).
  unfold ns.
  rewrite (ns_src args s), (ns_empty args s), (ns_lua_path args), (ns_optimize_tokens args), (name_is_lua s).
  unfold cart_getattr, cart_setattr. rewrite (section_of_name_name s).
  unfold source_name_ok, is_p8, is_p8png, is_luafile.
  assert (Hlp : match match b_lua_path args with Some p => VStr p | None => VNone end with
                | VStr p => Some p | _ => None end = b_lua_path args)
    by (destruct (b_lua_path args); reflexivity).
  rewrite Hlp; clear Hlp.
  destruct (b_src args s) as [fn|].
  - cbn [truthy].
    destruct (b_empty args s).
    { eexists; split; [reflexivity | exact I]. }
    destruct (w_exists w fn); cbn [negb].
    2:{ eexists; split; [reflexivity | exact I]. }
    destruct (ends_with fn ".p8"%bs) eqn:E1, (ends_with fn ".p8.png"%bs) eqn:E2,
             (section_eqb s SLua) eqn:E3, (ends_with fn ".lua"%bs) eqn:E4; cbn [negb andb orb];
      try (eexists; split; [reflexivity | exact I]);
      try (destruct (w_luafile w fn (b_lua_path args)) as [code|e];
           [ assert (Hs : s = SLua) by (destruct s; (reflexivity || discriminate E3)); subst s; reflexivity
           | eexists; split; [reflexivity | exact I] ]);
      try (destruct (w_cart w fn) as [src|e]; [reflexivity | eexists; split; [reflexivity | exact I]]).
  - cbn [truthy].
    destruct (b_empty args s).
    + reflexivity.
    + rewrite sec_set_get_same, cart_eta. reflexivity.
Qed.

End Step.

(* ---------- the whole command ---------- *)
Theorem build_select {A} (w : world A) (args : build_args) :
  spec_view_now w (b_out args) (do_build_now w (namespace_now args)) = build_spec w args.
Proof.
  unfold do_build_now, do_build, build_spec.
  rewrite (ns_filename args).
  change (endc build_endswith_consts 0) with (".p8"%bs : bytes).
  change (endc build_endswith_consts 1) with (".p8.png"%bs : bytes).
  unfold out_name_ok, is_p8, is_p8png, previous.
  rewrite negb_orb.
  destruct (negb (ends_with (b_out args) ".p8"%bs) && negb (ends_with (b_out args) ".p8.png"%bs)) eqn:Eout.
  { reflexivity. }
  destruct (if w_exists w (b_out args) then w_cart w (b_out args) else Ok (w_empty w)) as [prev|e].
  2:{ reflexivity. }
  rewrite pin_build_sections. cbn [map all_sections build_loop].
  rewrite !chosen_is_chosen_cur.
  change (build_step build_endswith_consts build_empty_prefixes do_build_section_eq_consts w (namespace_now args) (w_empty w))
    with (step_now w args).
  (* lua *)
  pose proof (build_step_spec w args SLua prev) as H.
  destruct (chosen_cur w args (sec_get SLua (c_secs prev)) SLua) as [v1|e1].
  2:{ destruct H as (o & -> & Ho). destruct o; [reflexivity | reflexivity | destruct Ho]. }
  rewrite H; clear H.
  (* gfx *)
  match goal with |- context [step_now w args (section_name SGfx) ?r] => pose proof (build_step_spec w args SGfx r) as H end.
  cbn [sec_get sec_set c_secs c_label c_version x_lua x_gfx x_gff x_map x_sfx x_music] in H |- *.
  destruct (chosen_cur w args (x_gfx (c_secs prev)) SGfx) as [v2|e2].
  2:{ destruct H as (o & -> & Ho). destruct o; [reflexivity | reflexivity | destruct Ho]. }
  rewrite H; clear H.
  (* gff *)
  match goal with |- context [step_now w args (section_name SGff) ?r] => pose proof (build_step_spec w args SGff r) as H end.
  cbn [sec_get sec_set c_secs c_label c_version x_lua x_gfx x_gff x_map x_sfx x_music] in H |- *.
  destruct (chosen_cur w args (x_gff (c_secs prev)) SGff) as [v3|e3].
  2:{ destruct H as (o & -> & Ho). destruct o; [reflexivity | reflexivity | destruct Ho]. }
  rewrite H; clear H.
  (* map *)
  match goal with |- context [step_now w args (section_name SMap) ?r] => pose proof (build_step_spec w args SMap r) as H end.
  cbn [sec_get sec_set c_secs c_label c_version x_lua x_gfx x_gff x_map x_sfx x_music] in H |- *.
  destruct (chosen_cur w args (x_map (c_secs prev)) SMap) as [v4|e4].
  2:{ destruct H as (o & -> & Ho). destruct o; [reflexivity | reflexivity | destruct Ho]. }
  rewrite H; clear H.
  (* sfx *)
  match goal with |- context [step_now w args (section_name SSfx) ?r] => pose proof (build_step_spec w args SSfx r) as H end.
  cbn [sec_get sec_set c_secs c_label c_version x_lua x_gfx x_gff x_map x_sfx x_music] in H |- *.
  destruct (chosen_cur w args (x_sfx (c_secs prev)) SSfx) as [v5|e5].
  2:{ destruct H as (o & -> & Ho). destruct o; [reflexivity | reflexivity | destruct Ho]. }
  rewrite H; clear H.
  (* music *)
  match goal with |- context [step_now w args (section_name SMusic) ?r] => pose proof (build_step_spec w args SMusic r) as H end.
  cbn [sec_get sec_set c_secs c_label c_version x_lua x_gfx x_gff x_map x_sfx x_music] in H |- *.
  destruct (chosen_cur w args (x_music (c_secs prev)) SMusic) as [v6|e6].
  2:{ destruct H as (o & -> & Ho). destruct o; [reflexivity | reflexivity | destruct Ho]. }
  rewrite H; clear H.
  (* the write *)
  rewrite (ns_lua_format args), (ns_lua_minify args). cbn [truthy].
  unfold spec_view_now, spec_view, stored_label, previous_label, is_p8png.
  rewrite pin_formatters_order. cbn [formatter_for].
  apply andb_false_iff in Eout.
  destruct (ends_with (b_out args) ".p8.png"%bs) eqn:E2.
  - cbn. destruct (w_exists w (b_out args)); reflexivity.
  - destruct (ends_with (b_out args) ".p8"%bs) eqn:E1.
    + cbn. destruct (w_exists w (b_out args)); reflexivity.
    + destruct Eout as [Eo | Eo]; discriminate Eo.
Qed.

(* ---------- a loop iteration that stops never writes (for every namespace, also with flags) ---------- *)
Lemma build_step_stop_not_wrote {A} ends prefixes eqconsts (w : world A) ns e sn r o :
  build_step ends prefixes eqconsts w ns e sn r = Stop o -> not_wrote o.
Proof.
  unfold build_step.
  repeat match goal with
         | |- context [match ?x with _ => _ end] => destruct x
         end; intros H; inversion H; exact I.
Qed.

Lemma build_loop_stop_not_wrote {A} ends prefixes eqconsts (w : world A) ns e names r o :
  build_loop ends prefixes eqconsts w ns e names r = Stop o -> not_wrote o.
Proof.
  revert r. induction names as [|sn names IH]; intros r; cbn [build_loop].
  - discriminate.
  - destruct (build_step ends prefixes eqconsts w ns e sn r) as [r'|o'] eqn:E.
    + apply IH.
    + intros H. inversion H; subst. eapply build_step_stop_not_wrote; eassumption.
Qed.

(* the loop never touches the label section or the version *)
Lemma build_step_keeps_label {A} ends prefixes eqconsts (w : world A) ns e sn r r' :
  build_step ends prefixes eqconsts w ns e sn r = Continue r' ->
  c_label r' = c_label r /\ c_version r' = c_version r.
Proof.
  unfold build_step, cart_setattr.
  repeat match goal with
         | |- context [match ?x with _ => _ end] => destruct x
         end; intros H; inversion H; subst; split; reflexivity.
Qed.

Lemma build_loop_keeps_label {A} ends prefixes eqconsts (w : world A) ns e names r r' :
  build_loop ends prefixes eqconsts w ns e names r = Continue r' ->
  c_label r' = c_label r /\ c_version r' = c_version r.
Proof.
  revert r. induction names as [|sn names IH]; intros r; cbn [build_loop].
  - intros H. inversion H; subst. split; reflexivity.
  - destruct (build_step ends prefixes eqconsts w ns e sn r) as [r1|o1] eqn:E; [|discriminate].
    intros H. apply IH in H. apply build_step_keeps_label in E.
    destruct H as [H1 H2], E as [E1 E2]. split; congruence.
Qed.

(* for EVERY namespace (any flags): do_build calls to_file at most once, as its last action, for the
   name in args.filename, which then ends in .p8 or .p8.png; the label flag is os.path.exists(OUT);
   the label section and version written are those of OUT's previous contents (or the defaults) *)
Theorem do_build_write_shape {A} (w : world A) (ns : namespace) c wr l :
  do_build_now w ns = Wrote c wr l ->
  exists filename prev,
    ns_get ns "filename"%bs = Some (VStr filename) /\ out_name_ok filename = true /\
    l = w_exists w filename /\
    (if w_exists w filename then w_cart w filename else Ok (w_empty w)) = Ok prev /\
    c_label c = c_label prev /\ c_version c = c_version prev.
Proof.
  unfold do_build_now, do_build.
  destruct (ns_get ns "filename"%bs) as [[| filename | b]|]; try discriminate.
  change (endc build_endswith_consts 0) with (".p8"%bs : bytes).
  change (endc build_endswith_consts 1) with (".p8.png"%bs : bytes).
  destruct (negb (ends_with filename ".p8"%bs) && negb (ends_with filename ".p8.png"%bs)) eqn:Eo; [discriminate|].
  destruct (if w_exists w filename then w_cart w filename else Ok (w_empty w)) as [prev|e] eqn:Ep; [|discriminate].
  destruct (build_loop _ _ _ w ns (w_empty w) build_sections prev) as [r|o] eqn:El.
  - apply build_loop_keeps_label in El. destruct El as [L1 L2].
    intros H. exists filename, prev.
    assert (Hok : out_name_ok filename = true).
    { unfold out_name_ok, is_p8, is_p8png. rewrite <- negb_orb in Eo. apply negb_false_iff in Eo. exact Eo. }
    destruct (truthy (getattr_d ns "lua_format"%bs (VBool false))).
    + destruct (ns_get ns "indentwidth"%bs), (ns_get ns "keep_all_names"%bs), (ns_get ns "keep_names_from_file"%bs);
        try discriminate; inversion H; subst; repeat split; auto.
    + destruct (truthy (getattr_d ns "lua_minify"%bs (VBool false))); inversion H; subst; repeat split; auto.
  - intros H. subst o. apply build_loop_stop_not_wrote in El. destruct El.
Qed.

Lemma do_build_now_wrote_default {A} (w : world A) (args : build_args) c wr l :
  do_build_now w (namespace_now args) = Wrote c wr l -> wr = WDefault.
Proof.
  unfold do_build_now, do_build.
  rewrite (ns_filename args), (ns_lua_format args), (ns_lua_minify args). cbn [truthy].
  destruct (negb _ && negb _); [discriminate|].
  destruct (if w_exists w (b_out args) then w_cart w (b_out args) else Ok (w_empty w)); [|discriminate].
  destruct (build_loop _ _ _ _ _ _ _ _) as [r|o] eqn:El.
  - intros H. inversion H. reflexivity.
  - intros H. subst o. apply build_loop_stop_not_wrote in El. destruct El.
Qed.

(* when the rule says "fail", do_build performs no to_file call at all: OUT is not even opened *)
Theorem build_fail_no_write {A} (w : world A) (args : build_args) :
  build_spec w args = None -> not_wrote (do_build_now w (namespace_now args)).
Proof.
  intros H. rewrite <- build_select in H.
  destruct (do_build_now w (namespace_now args)) as [r|e|c wr l] eqn:E; [exact I | exact I |].
  pose proof (do_build_now_wrote_default w args c wr l E) as ->.
  apply do_build_write_shape in E.
  destruct E as (filename & prev & Hf & Hok & _).
  rewrite (ns_filename args) in Hf. inversion Hf; subst filename.
  unfold spec_view_now, spec_view, stored_label in H.
  rewrite pin_formatters_order in H. cbn [formatter_for] in H.
  unfold out_name_ok, is_p8, is_p8png in Hok.
  destruct (ends_with (b_out args) ".p8.png"%bs).
  - cbn in H. discriminate H.
  - destruct (ends_with (b_out args) ".p8"%bs); [cbn in H; discriminate H | discriminate Hok].
Qed.

(* and when it says "succeed", exactly one to_file call with the echo writer *)
Theorem build_ok_writes {A} (w : world A) (args : build_args) x req :
  build_spec w args = Some (x, req) ->
  exists c, do_build_now w (namespace_now args) = Wrote c WDefault (w_exists w (b_out args)) /\ c_secs c = x.
Proof.
  intros H. rewrite <- build_select in H.
  destruct (do_build_now w (namespace_now args)) as [r|e|c wr l] eqn:E; try discriminate H.
  pose proof (do_build_now_wrote_default w args c wr l E) as ->.
  pose proof (do_build_write_shape w _ c WDefault l E) as (filename & prev & Hf & _ & Hl & _).
  rewrite (ns_filename args) in Hf. inversion Hf; subst filename. subst l.
  exists c. split; [reflexivity|].
  unfold spec_view_now, spec_view in H.
  destruct (stored_label w formatters_order (b_out args) c (w_exists w (b_out args))) as [[l0 b0]|]; [|discriminate H].
  inversion H. reflexivity.
Qed.

(* observation O1 as a statement about the model: with --lua-format and the Namespace the build
   sub-command produces (no `indentwidth`), do_build never reaches to_file *)
Theorem build_lua_format_never_writes {A} (w : world A) (ns : namespace) :
  truthy (getattr_d ns "lua_format"%bs (VBool false)) = true ->
  ns_get ns "indentwidth"%bs = None ->
  not_wrote (do_build_now w ns).
Proof.
  intros Hf Hi. unfold do_build_now, do_build.
  destruct (ns_get ns "filename"%bs) as [[| filename | b]|]; try exact I.
  destruct (negb _ && negb _); [exact I|].
  destruct (if w_exists w filename then w_cart w filename else Ok (w_empty w)); [|exact I].
  destruct (build_loop _ _ _ _ _ _ _ _) as [r|o] eqn:El.
  - rewrite Hf, Hi. exact I.
  - eapply build_loop_stop_not_wrote; eassumption.
Qed.

(* ---------- the model's run, seen as an observation, passes the instance predicate ---------- *)
Definition model_observation {A} (w : world A) (args : build_args) : observation A :=
  match do_build_now w (namespace_now args) with
  | Wrote c WDefault l =>
    match stored_label_now w (b_out args) c l with
    | Ok (lab, _) => mkObs false false (Some (c_secs c, lab))
    | Err _ => mkObs true true None
    end
  | Wrote _ _ _ => mkObs false false None
  | _ => mkObs true true None
  end.

Lemma secs_eqb_refl {A} (eqb : A -> A -> bool) : (forall a, eqb a a = true) -> forall x, secs_eqb eqb x x = true.
Proof. intros H x. unfold secs_eqb. apply forallb_forall. intros s _. apply H. Qed.

Theorem model_holds {A} (eqb : A -> A -> bool) :
  (forall a, eqb a a = true) ->
  forall (w : world A) (args : build_args), holds_C13 eqb w args (model_observation w args) = true.
Proof.
  intros Hr w args. unfold holds_C13, model_observation.
  rewrite <- build_select. unfold spec_view_now, spec_view, stored_label_now.
  destruct (do_build_now w (namespace_now args)) as [r|e|c wr l] eqn:E; [reflexivity | reflexivity |].
  pose proof (do_build_now_wrote_default w args c wr l E) as ->.
  destruct (stored_label w formatters_order (b_out args) c l) as [[lab b0]|e0]; [|reflexivity].
  cbn [obeys o_failed o_after negb andb]. rewrite secs_eqb_refl by exact Hr. cbn [andb].
  destruct (w_exists w (b_out args)); [|reflexivity].
  cbn [label_ok]. destruct lab; cbn; [apply Hr | reflexivity].
Qed.
