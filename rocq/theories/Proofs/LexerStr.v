(* The in-string loop of the lexer model ([scan_string] / [escape_step], driven by the REGENERATED
   table [string_escapes]) decodes a quoted string literal exactly as the reference grammar does
   ([unescape_until] / [simple_escape]), on the whole domain where the reference is defined. *)
From PV Require Import Base.Prelude Generated.T_lexer Model.Lexer Spec.LuaLex Proofs.LexerProofs.
From Coq Require Import ZifyBool.

(* ---------- the regenerated escape table, by computation *)

(* On every byte that reaches the one-byte table lookup in the reference's order of tests (not a digit,
   not 'x', not CR), the table agrees with [simple_escape]; LF is the line continuation. *)
Definition escape_table_ok (e : Z) : bool :=
  if is_digit e || (e =? 120) || (e =? 13) then true
  else
    match lookup_bytes string_escapes [e] with
    | Some [v] => if e =? 10 then v =? 10
                  else match simple_escape e with Some w => v =? w | None => false end
    | Some _ => false
    | None => if e =? 10 then false else match simple_escape e with Some _ => false | None => true end
    end.

Lemma escape_table_sweep : forallb escape_table_ok (upto 256) = true.
Proof. vm_compute. reflexivity. Qed.

Lemma lookup_lf : lookup_bytes string_escapes [10] = Some [10].
Proof.
  pose proof (sweep_byte _ escape_table_sweep 10 ltac:(unfold byte; lia)) as H.
  unfold escape_table_ok in H. change (is_digit 10 || (10 =? 120) || (10 =? 13)) with false in H.
  cbv iota in H. destruct (lookup_bytes string_escapes [10]) as [[|v [|? ?]]|]; try discriminate.
  change (10 =? 10) with true in H. cbv iota in H. apply Z.eqb_eq in H. subst v. reflexivity.
Qed.

Lemma lookup_simple e v : byte e ->
  is_digit e = false -> (e =? 120) = false -> (e =? 13) = false -> (e =? 10) = false ->
  simple_escape e = Some v -> lookup_bytes string_escapes [e] = Some [v].
Proof.
  intros Hb Hd Hx Hcr Hlf Hs.
  pose proof (sweep_byte _ escape_table_sweep e Hb) as H.
  unfold escape_table_ok in H. rewrite Hd, Hx, Hcr, Hlf, Hs in H. cbn [orb] in H.
  destruct (lookup_bytes string_escapes [e]) as [[|w [|? ?]]|]; try discriminate.
  apply Z.eqb_eq in H. subst w. reflexivity.
Qed.

(* ---------- line ends *)
Lemma crlf_only_tl c r : crlf_only (c :: r) = true -> crlf_only r = true.
Proof. cbn [crlf_only]. intros H. apply andb_true_iff in H. apply H. Qed.

Lemma crlf_only_app_r a : forall b, crlf_only (a ++ b) = true -> crlf_only b = true.
Proof.
  induction a as [|c a IH]; intros b H; [exact H|]. apply IH. apply (crlf_only_tl c). exact H.
Qed.

Lemma crlf_only_cr r : crlf_only (13 :: r) = true -> exists t, r = 10 :: t.
Proof.
  cbn [crlf_only]. change (13 =? 13) with true. cbv iota. intros H. apply andb_true_iff in H.
  destruct H as [H _]. destruct r as [|z t]; [discriminate|].
  destruct (Z.eq_dec z 10) as [->|N]; [exists t; reflexivity|]. exfalso. apply N.
  destruct z as [|p|p]; try discriminate.
  do 4 (destruct p as [p|p|]; try discriminate). reflexivity.
Qed.

(* ---------- the reference's treatment of one escape, as a non-recursive function *)
Definition spec_escape (r : list Z) : option (Z * list Z * list Z) :=
  match r with
  | [] => None
  | e :: r1 =>
    if is_digit e then
      match r1 with
      | e2 :: r2 =>
        if is_digit e2 then
          match r2 with
          | e3 :: r3 =>
            if is_digit e3 then
              let v := (e - 48) * 100 + (e2 - 48) * 10 + (e3 - 48) in
              if v <=? 255 then Some (v, [e; e2; e3], r3) else None
            else Some ((e - 48) * 10 + (e2 - 48), [e; e2], r2)
          | [] => Some ((e - 48) * 10 + (e2 - 48), [e; e2], r2)
          end
        else Some (e - 48, [e], r1)
      | [] => Some (e - 48, [e], r1)
      end
    else if e =? 120 then
      match r1 with
      | h1 :: h2 :: r3 =>
        if is_hex h1 && is_hex h2 then Some (digit_val h1 * 16 + digit_val h2, [e; h1; h2], r3) else None
      | _ => None
      end
    else if e =? 10 then
      match r1 with
      | e2 :: r2 => if e2 =? 13 then Some (10, [e; 13], r2) else Some (10, [e], r1)
      | [] => Some (10, [e], r1)
      end
    else if e =? 13 then
      match r1 with
      | e2 :: r2 => if e2 =? 10 then Some (10, [e; 10], r2) else Some (10, [e], r1)
      | [] => Some (10, [e], r1)
      end
    else
      match simple_escape e with
      | Some v => Some (v, [e], r1)
      | None => None
      end
  end.

Lemma unescape_backslash q r : (92 =? q) = false ->
  unescape_until q (92 :: r) =
  match spec_escape r with
  | Some (x, used, r') => ucons (92 :: used) x (unescape_until q r')
  | None => None
  end.
Proof.
  intros Hq. cbn [unescape_until]. rewrite Hq. change (is_eol 92) with false. change (92 =? 92) with true.
  cbv iota. unfold spec_escape.
  destruct r as [|e r1]; [reflexivity|].
  destruct (is_digit e).
  - destruct r1 as [|e2 r2]; [reflexivity|]. destruct (is_digit e2); [|reflexivity].
    destruct r2 as [|e3 r3]; [reflexivity|]. destruct (is_digit e3); [|reflexivity].
    cbv zeta. destruct ((e - 48) * 100 + (e2 - 48) * 10 + (e3 - 48) <=? 255); reflexivity.
  - destruct (e =? 120).
    + destruct r1 as [|h1 [|h2 r3]]; try reflexivity. destruct (is_hex h1 && is_hex h2); reflexivity.
    + destruct (e =? 10).
      * destruct r1 as [|e2 r2]; [reflexivity|]. destruct (e2 =? 13); reflexivity.
      * destruct (e =? 13).
        -- destruct r1 as [|e2 r2]; [reflexivity|]. destruct (e2 =? 10); reflexivity.
        -- destruct (simple_escape e); reflexivity.
Qed.

(* ---------- one escape: model = reference, or the reference is about to reject a raw line feed *)
(* the model's byte classes and hex digit value are the reference's, by conversion *)
Lemma m_classes_are : m_digit = is_digit /\ m_hex = is_hex /\ hexval = digit_val.
Proof. repeat split. Qed.

Lemma byte_of_digits_3 d1 d2 d3 :
  byte_of_digits [d1; d2; d3] = (d1 - 48) * 100 + (d2 - 48) * 10 + (d3 - 48).
Proof. unfold byte_of_digits. cbn [fold_left]. lia. Qed.
Lemma byte_of_digits_2 d1 d2 : byte_of_digits [d1; d2] = (d1 - 48) * 10 + (d2 - 48).
Proof. unfold byte_of_digits. cbn [fold_left]. lia. Qed.
Lemma byte_of_digits_1 d1 : byte_of_digits [d1] = d1 - 48.
Proof. unfold byte_of_digits. cbn [fold_left]. lia. Qed.

Lemma is_digit_range c : is_digit c = true -> 48 <= c <= 57.
Proof. unfold is_digit. lia. Qed.

Lemma escape_agrees r x used r' :
  Forall byte r -> crlf_only r = true ->
  spec_escape r = Some (x, used, r') ->
  escape_step r = Ok ([x], used, r') \/ (exists t, r' = 10 :: t).
Proof.
  intros Hb Hc H. unfold spec_escape in H. unfold escape_step.
  destruct r as [|e r1]; [discriminate|].
  change m_digit with is_digit. change m_hex with is_hex. change hexval with digit_val.
  destruct (is_digit e) eqn:D1.
  - (* \ddd *)
    left. apply is_digit_range in D1.
    destruct r1 as [|e2 r2].
    { inversion H; subst. cbn [take_upto].
      assert (E : is_digit e = true) by (unfold is_digit; lia). rewrite E.
      cbv beta iota. rewrite byte_of_digits_1. destruct (e - 48 <? 256) eqn:L; [reflexivity|lia]. }
    cbn [take_upto].
    assert (E : is_digit e = true) by (unfold is_digit; lia). rewrite E.
    destruct (is_digit e2) eqn:D2.
    2:{ inversion H; subst. cbv beta iota. rewrite byte_of_digits_1. destruct (e - 48 <? 256) eqn:L; [reflexivity|lia]. }
    apply is_digit_range in D2.
    destruct r2 as [|e3 r3].
    { inversion H; subst. cbv beta iota. rewrite byte_of_digits_2.
      destruct ((e - 48) * 10 + (e2 - 48) <? 256) eqn:L; [reflexivity|lia]. }
    destruct (is_digit e3) eqn:D3.
    2:{ inversion H; subst. cbv beta iota. rewrite byte_of_digits_2.
        destruct ((e - 48) * 10 + (e2 - 48) <? 256) eqn:L; [reflexivity|lia]. }
    cbv zeta in H. cbv beta iota. rewrite byte_of_digits_3.
    destruct ((e - 48) * 100 + (e2 - 48) * 10 + (e3 - 48) <=? 255) eqn:V; [|discriminate].
    inversion H; subst.
    destruct ((e - 48) * 100 + (e2 - 48) * 10 + (e3 - 48) <? 256) eqn:L; [reflexivity|lia].
  - destruct (e =? 120) eqn:Ex.
    + (* \xhh *)
      left. destruct r1 as [|h1 [|h2 r3]]; try discriminate.
      destruct (is_hex h1 && is_hex h2) eqn:Hh; [|discriminate]. inversion H; subst.
      apply andb_true_iff in Hh. destruct Hh as [-> ->]. cbn [andb]. reflexivity.
    + destruct (e =? 10) eqn:Elf.
      * (* backslash, line feed *)
        apply Z.eqb_eq in Elf. subst e.
        destruct r1 as [|e2 r2].
        { left. inversion H; subst. rewrite lookup_lf. reflexivity. }
        destruct (e2 =? 13) eqn:E2.
        -- (* LF CR: the CR must be followed by a raw LF *)
           right. apply Z.eqb_eq in E2. subst e2. inversion H; subst.
           apply crlf_only_tl in Hc. apply crlf_only_cr in Hc. exact Hc.
        -- left. inversion H; subst.
           change (10 =? 120) with false. change (10 =? 13) with false. cbn [andb].
           rewrite lookup_lf. destruct r2; reflexivity.
      * destruct (e =? 13) eqn:Ecr.
        -- (* backslash, CR (LF) *)
           left. apply Z.eqb_eq in Ecr. subst e.
           destruct (crlf_only_cr _ Hc) as [t ->]. change (10 =? 10) with true in H. cbv iota in H.
           injection H as <- <- <-. change (13 =? 120) with false. change (13 =? 13) with true.
           change (10 =? 10) with true. cbn [andb]. destruct t; reflexivity.
        -- (* one-byte escapes *)
           left. destruct (simple_escape e) as [v|] eqn:Es; [|discriminate]. inversion H; subst.
           assert (Hl : lookup_bytes string_escapes [e] = Some [x]).
           { apply lookup_simple; auto. inversion Hb; assumption. }
           rewrite Hl. cbn [andb]. destruct r' as [|h1 [|h2 r3]]; reflexivity.
Qed.

Lemma spec_escape_split r x used r' : spec_escape r = Some (x, used, r') -> r = used ++ r'.
Proof.
  unfold spec_escape. destruct r as [|e r1]; [discriminate|].
  destruct (is_digit e).
  - destruct r1 as [|e2 r2]; [intros H; inversion H; reflexivity|].
    destruct (is_digit e2); [|intros H; inversion H; reflexivity].
    destruct r2 as [|e3 r3]; [intros H; inversion H; reflexivity|].
    destruct (is_digit e3); [|intros H; inversion H; reflexivity].
    cbv zeta. destruct (_ <=? 255); [|discriminate]. intros H; inversion H; reflexivity.
  - destruct (e =? 120).
    { destruct r1 as [|h1 [|h2 r3]]; try discriminate.
      destruct (is_hex h1 && is_hex h2); [|discriminate]. intros H; inversion H; reflexivity. }
    destruct (e =? 10).
    { destruct r1 as [|e2 r2]; [intros H; inversion H; reflexivity|].
      destruct (e2 =? 13) eqn:E; intros H; inversion H; subst; [|reflexivity].
      apply Z.eqb_eq in E. subst. reflexivity. }
    destruct (e =? 13).
    { destruct r1 as [|e2 r2]; [intros H; inversion H; reflexivity|].
      destruct (e2 =? 10) eqn:E; intros H; inversion H; subst; [|reflexivity].
      apply Z.eqb_eq in E. subst. reflexivity. }
    destruct (simple_escape e); [|discriminate]. intros H; inversion H; reflexivity.
Qed.

Lemma Forall_app_r {A} (P : A -> Prop) a : forall b, Forall P (a ++ b) -> Forall P b.
Proof. induction a as [|x a IH]; intros b H; [exact H|]. apply IH. inversion H; assumption. Qed.

(* ---------- the loop *)
(* [s] is the text after the opening quote [q].  The delimiter must not be a line feed (the lexer only
   ever opens a string on 34 or 39): for q = 10 the statement fails on backslash LF CR LF. *)
Theorem string_scan_agrees_gen : forall q, q <> 10 -> forall fuel s v raw rest acc pc,
  Forall byte s -> crlf_only s = true ->
  unescape_until q s = Some (v, raw, rest) ->
  (length s <= fuel)%nat ->
  scan_string fuel q s acc pc = Ok (SClosed (rev v ++ acc) (rev raw ++ pc) rest).
Proof.
  intros q Hq. induction fuel as [|f IH]; intros s v raw rest acc pc Hb Hc Hu Hl.
  - destruct s; [discriminate|]. cbn [length] in Hl. lia.
  - destruct s as [|c r]; [discriminate|]. cbn [scan_string].
    destruct (c =? q) eqn:Ecq.
    { cbn [unescape_until] in Hu. rewrite Ecq in Hu. inversion Hu; subst. reflexivity. }
    destruct (c =? 92) eqn:Ebs.
    + apply Z.eqb_eq in Ebs. subst c. rewrite (unescape_backslash q r Ecq) in Hu.
      destruct (spec_escape r) as [[[x used] r']|] eqn:Es; [|discriminate].
      pose proof (spec_escape_split _ _ _ _ Es) as Hsplit.
      assert (Hb' : Forall byte r) by (inversion Hb; assumption).
      pose proof (crlf_only_tl _ _ Hc) as Hc'.
      destruct (escape_agrees _ _ _ _ Hb' Hc' Es) as [Hm | [t Ht]].
      * rewrite Hm.
        destruct (unescape_until q r') as [[[v' raw'] rest']|] eqn:Eu; [|discriminate].
        cbn [ucons] in Hu. inversion Hu; subst v raw rest'.
        rewrite (IH r' v' raw' rest).
        -- rewrite !rev_append_rev. cbn [rev app]. rewrite rev_app_distr. cbn [rev].
           rewrite <- !app_assoc. reflexivity.
        -- rewrite Hsplit in Hb'. apply Forall_app_r in Hb'. exact Hb'.
        -- rewrite Hsplit in Hc'. apply crlf_only_app_r in Hc'. exact Hc'.
        -- exact Eu.
        -- rewrite Hsplit in Hl. cbn [length] in Hl. rewrite app_length in Hl. lia.
      * (* backslash LF CR, then a raw LF: the reference is undefined *)
        subst r'. cbn [unescape_until] in Hu.
        destruct (10 =? q) eqn:E10; [apply Z.eqb_eq in E10; congruence|].
        change (is_eol 10) with true in Hu. cbv iota in Hu. discriminate.
    + cbn [unescape_until] in Hu. rewrite Ecq, Ebs in Hu.
      destruct (is_eol c); [discriminate|].
      destruct (unescape_until q r) as [[[v' raw'] rest']|] eqn:Eu; [|discriminate].
      cbn [ucons] in Hu. inversion Hu; subst v raw rest'.
      rewrite (IH r v' raw' rest).
      * cbn [rev app]. rewrite <- !app_assoc. reflexivity.
      * inversion Hb; assumption.
      * apply (crlf_only_tl c). exact Hc.
      * exact Eu.
      * cbn [length] in Hl. lia.
Qed.

(* the statement for the two delimiters of the language *)
Theorem string_scan_agrees : forall q s v raw rest,
  q = 34 \/ q = 39 ->
  Forall byte s -> crlf_only s = true ->
  unescape_until q s = Some (v, raw, rest) ->
  forall fuel acc pc, (length s <= fuel)%nat ->
  scan_string fuel q s acc pc = Ok (SClosed (rev v ++ acc) (rev raw ++ pc) rest).
Proof.
  intros q s v raw rest Hq Hb Hc Hu fuel acc pc Hl.
  apply string_scan_agrees_gen; auto. destruct Hq; subst; discriminate.
Qed.

(* the statement without the side condition on q is false *)
Lemma string_scan_agrees_lf_delim_refuted :
  let q := 10 in let s := [92; 10; 13; 10] in
  Forall byte s /\ crlf_only s = true /\
  unescape_until q s = Some ([10], s, []) /\
  scan_string (length s) q s [] [] = Ok (SClosed [13; 10] (rev s) []).
Proof.
  cbv zeta. split; [|split; [|split]]; try (vm_compute; reflexivity).
  repeat constructor; unfold byte; lia.
Qed.

(* ---------- corollaries on the reference side *)
Lemma unescape_until_split q : forall s v raw rest,
  unescape_until q s = Some (v, raw, rest) -> s = raw ++ rest.
Proof.
  intros s. remember (length s) as n eqn:Hn. revert s Hn.
  induction n as [n IH] using lt_wf_ind. intros s Hn v raw rest Hu.
  destruct s as [|c r]; [discriminate|].
  destruct (c =? q) eqn:Ecq.
  { cbn [unescape_until] in Hu. rewrite Ecq in Hu. inversion Hu; reflexivity. }
  destruct (c =? 92) eqn:Ebs.
  - apply Z.eqb_eq in Ebs. subst c. rewrite (unescape_backslash q r Ecq) in Hu.
    destruct (spec_escape r) as [[[x used] r']|] eqn:Es; [|discriminate].
    apply spec_escape_split in Es.
    destruct (unescape_until q r') as [[[v' raw'] rest']|] eqn:Eu; [|discriminate].
    cbn [ucons] in Hu. inversion Hu; subst v raw rest'.
    apply (IH (length r')) in Eu; [|subst; cbn [length]; rewrite app_length; lia|reflexivity].
    rewrite Es, Eu. cbn [app]. rewrite <- app_assoc. reflexivity.
  - cbn [unescape_until] in Hu. rewrite Ecq, Ebs in Hu.
    destruct (is_eol c); [discriminate|].
    destruct (unescape_until q r) as [[[v' raw'] rest']|] eqn:Eu; [|discriminate].
    cbn [ucons] in Hu. inversion Hu; subst v raw rest'.
    apply (IH (length r)) in Eu; [|subst; cbn [length]; lia|reflexivity].
    rewrite Eu at 1. reflexivity.
Qed.

Lemma digit_val_range h : is_hex h = true -> 0 <= digit_val h <= 15.
Proof.
  unfold is_hex, digit_val, is_digit, is_lower_hex, is_upper_hex.
  destruct ((48 <=? h) && (h <=? 57)) eqn:A; destruct ((97 <=? h) && (h <=? 102)) eqn:B; lia.
Qed.

Lemma spec_escape_byte r x used r' : Forall byte r -> spec_escape r = Some (x, used, r') -> byte x.
Proof.
  intros Hb. unfold spec_escape. destruct r as [|e r1]; [discriminate|].
  destruct (is_digit e) eqn:D1.
  - apply is_digit_range in D1.
    destruct r1 as [|e2 r2]; [intros H; inversion H; unfold byte; lia|].
    destruct (is_digit e2) eqn:D2; [|intros H; inversion H; unfold byte; lia].
    apply is_digit_range in D2.
    destruct r2 as [|e3 r3]; [intros H; inversion H; unfold byte; lia|].
    destruct (is_digit e3) eqn:D3; [|intros H; inversion H; unfold byte; lia].
    apply is_digit_range in D3. cbv zeta.
    destruct (_ <=? 255) eqn:V; [|discriminate]. intros H; inversion H; unfold byte; lia.
  - destruct (e =? 120).
    { destruct r1 as [|h1 [|h2 r3]]; try discriminate.
      destruct (is_hex h1 && is_hex h2) eqn:Hh; [|discriminate]. intros H; inversion H.
      apply andb_true_iff in Hh. destruct Hh as [Hh1 Hh2].
      apply digit_val_range in Hh1. apply digit_val_range in Hh2. unfold byte. lia. }
    destruct (e =? 10).
    { destruct r1 as [|e2 r2]; [|destruct (e2 =? 13)]; intros H; inversion H; unfold byte; lia. }
    destruct (e =? 13).
    { destruct r1 as [|e2 r2]; [|destruct (e2 =? 10)]; intros H; inversion H; unfold byte; lia. }
    destruct (simple_escape e) as [v|] eqn:Es; [|discriminate]. intros H; inversion H; subst.
    unfold simple_escape in Es.
    repeat match type of Es with
           | (if ?b then _ else _) = _ => destruct b; [inversion Es; unfold byte; lia|]
           end.
    discriminate.
Qed.

Lemma unescape_until_bytes q : forall s v raw rest,
  Forall byte s -> unescape_until q s = Some (v, raw, rest) -> Forall byte v.
Proof.
  intros s. remember (length s) as n eqn:Hn. revert s Hn.
  induction n as [n IH] using lt_wf_ind. intros s Hn v raw rest Hb Hu.
  destruct s as [|c r]; [discriminate|].
  assert (Hbr : Forall byte r) by (inversion Hb; assumption).
  destruct (c =? q) eqn:Ecq.
  { cbn [unescape_until] in Hu. rewrite Ecq in Hu. inversion Hu; constructor. }
  destruct (c =? 92) eqn:Ebs.
  - apply Z.eqb_eq in Ebs. subst c. rewrite (unescape_backslash q r Ecq) in Hu.
    destruct (spec_escape r) as [[[x used] r']|] eqn:Es; [|discriminate].
    pose proof (spec_escape_byte _ _ _ _ Hbr Es) as Hx.
    apply spec_escape_split in Es.
    destruct (unescape_until q r') as [[[v' raw'] rest']|] eqn:Eu; [|discriminate].
    cbn [ucons] in Hu. inversion Hu; subst v raw rest'.
    constructor; [exact Hx|].
    apply (IH (length r')) in Eu; [exact Eu|subst; cbn [length]; rewrite app_length; lia|reflexivity|].
    rewrite Es in Hbr. apply Forall_app_r in Hbr. exact Hbr.
  - cbn [unescape_until] in Hu. rewrite Ecq, Ebs in Hu.
    destruct (is_eol c); [discriminate|].
    destruct (unescape_until q r) as [[[v' raw'] rest']|] eqn:Eu; [|discriminate].
    cbn [ucons] in Hu. inversion Hu; subst v raw rest'.
    constructor; [inversion Hb; assumption|].
    apply (IH (length r)) in Eu; [exact Eu|subst; cbn [length]; lia|reflexivity|exact Hbr].
Qed.

Print Assumptions string_scan_agrees_gen.
Print Assumptions string_scan_agrees.
Print Assumptions unescape_until_split.
Print Assumptions unescape_until_bytes.
