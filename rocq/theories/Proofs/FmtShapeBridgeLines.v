(* Line-level facts used to bridge the shape of a formatted text and the text modulo line-edge blanks:

     - [canon_ws] on a text whose every carriage return is directly followed by a line feed ([cw]);
     - the blanks that [strip_line_edges] / [strip_line_edges_end] ([Sc]) treat as layout: blanks
       before a line feed, blanks that end the file, blanks that begin a blank or comment line. *)
From PV Require Import Base.Prelude Spec.LuaLex Model.FmtSpaces Proofs.FmtSpacesProofs Proofs.FmtLinesProofs Proofs.FmtLineEnd Proofs.LuaLexFacts.
From Coq Require Import Lia ZifyBool.

(* ====================================================================== canon_ws *)
(* canon_ws on a text whose every carriage return is directly followed by a line feed: drop the CRs, tabs become spaces *)
Fixpoint cw (s : list Z) : list Z :=
  match s with [] => [] | c :: r => if c =? 13 then cw r else (if c =? 9 then 32 else c) :: cw r end.

Lemma cw_app x y : cw (x ++ y) = cw x ++ cw y.
Proof.
  induction x as [|c x IH]; [reflexivity|]. cbn [app cw]. destruct (c =? 13); [exact IH|].
  cbn [app]. rewrite IH. reflexivity.
Qed.

Lemma cw_no_cr s : ~ In CR (cw s).
Proof.
  induction s as [|c r IH]; [intros []|]. cbn [cw]. destruct (c =? 13) eqn:E; [exact IH|].
  intros [H | H]; [|exact (IH H)]. unfold CR in H. destruct (c =? 9) eqn:E9; lia.
Qed.

Lemma cw_cons_other c r : (c =? 13) = false -> cw (c :: r) = t2s c :: cw r.
Proof. intros E. cbn [cw]. rewrite E. reflexivity. Qed.

Lemma m_pair_head a b r c X : (c =? a) = false -> m_pair a b r (c :: X) = None.
Proof. intros E. unfold m_pair. destruct X; [reflexivity|]. rewrite E. reflexivity. Qed.

Lemma resub_crnl_cw s : LuaLex.crlf_only s = true -> resub (m_pair CR NL NL) 0 (map t2s s) = cw s.
Proof.
  induction s as [|c r IH]; intros H; [reflexivity|].
  rewrite crlf_only_cons in H. apply andb_true_iff in H. destruct H as [H1 H2]. specialize (IH H2).
  destruct (c =? 13) eqn:E.
  - apply Z.eqb_eq in E. subst c. destruct r as [|d r']; [discriminate H1|]. cbn [hd10] in H1.
    apply Z.eqb_eq in H1. subst d.
    change (cw (13 :: 10 :: r')) with (10 :: cw r'). change (cw (10 :: r')) with (10 :: cw r') in IH.
    change (map t2s (13 :: 10 :: r')) with (13 :: 10 :: map t2s r').
    change (map t2s (10 :: r')) with (10 :: map t2s r') in IH.
    rewrite (resub_some _ _ _ [NL] 1) by reflexivity.
    rewrite resub_none in IH by (apply m_pair_head; reflexivity).
    cbn [app resub]. exact IH.
  - rewrite (cw_cons_other _ _ E). cbn [map].
    assert (E' : (t2s c =? CR) = false).
    { unfold t2s, TAB, SP, CR. destruct (c =? 9) eqn:E9; lia. }
    rewrite resub_none.
    + rewrite IH. reflexivity.
    + apply m_pair_head. exact E'.
Qed.

Lemma canon_ws_cw s : LuaLex.crlf_only s = true -> canon_ws s = cw s.
Proof.
  intros H. unfold canon_ws. rewrite resub_t2s, (resub_crnl_cw s H).
  rewrite (resub_pair_id NL CR NL) by (right; apply cw_no_cr).
  apply resub_byte_id. apply cw_no_cr.
Qed.

(* ====================================================================== the two strippers, line by line *)
Definition Sc (a e : bool) (y : list Z) : list Z := if e then strip_line_edges_end a y else strip_line_edges a y.

(* what happens to one line: [first] / [last] tell its position *)
Definition G (a e first last : bool) (l : list Z) : list Z :=
  let h := if last && negb e then l else rstrip l in
  if negb first || a then lnorm h else h.

Definition mapfl (f : bool -> bool -> list Z -> list Z) (L : list (list Z)) : list (list Z) :=
  match L with
  | [] => []
  | l0 :: ls => f true (is_nil ls) l0 :: map_last (f false) ls
  end.

Lemma map_last_mid f A l B : map_last f (A ++ l :: B) = map (f false) A ++ map_last f (l :: B).
Proof.
  induction A as [|a0 A IH]; [reflexivity|]. cbn [app map_last map].
  assert (E : is_nil (A ++ l :: B) = false) by (destruct A; reflexivity). rewrite E, IH. reflexivity.
Qed.

Lemma mapfl_replace f A l l' B :
  f (is_nil A) (is_nil B) l = f (is_nil A) (is_nil B) l' -> mapfl f (A ++ l :: B) = mapfl f (A ++ l' :: B).
Proof.
  intros H. destruct A as [|a0 A].
  - cbn [app mapfl is_nil] in *. rewrite H. reflexivity.
  - cbn [app mapfl is_nil] in *. rewrite !map_last_mid. cbn [map_last]. rewrite H.
    assert (E : forall x, is_nil (A ++ x :: B) = false) by (intros x; destruct A; reflexivity).
    rewrite !E. reflexivity.
Qed.

Lemma edge_strip_mapfl a L : edge_strip a L = mapfl (G a false) L.
Proof.
  destruct L as [|l0 ls]; [reflexivity|]. cbn [edge_strip mapfl]. f_equal.
  - unfold G. rewrite andb_true_r. cbn [negb orb]. reflexivity.
  - apply map_last_ext. intros b l. unfold G. rewrite andb_true_r. cbn [negb orb]. reflexivity.
Qed.

Lemma rstrip_last_snoc A x : rstrip_last (A ++ [x]) = A ++ [rstrip x].
Proof.
  unfold rstrip_last. destruct (A ++ [x]) eqn:E; [destruct A; discriminate E|].
  rewrite <- E, removelast_last, last_last. reflexivity.
Qed.

Lemma edge_strip_end_mapfl a L : L <> [] -> edge_strip a (rstrip_last L) = mapfl (G a true) L.
Proof.
  intros H. destruct (exists_last H) as (A & x & ->). rewrite rstrip_last_snoc.
  destruct A as [|a0 A].
  - cbn [app edge_strip mapfl is_nil map_last]. unfold G. cbn [negb andb orb]. reflexivity.
  - cbn [app edge_strip mapfl].
    assert (E : forall y, is_nil (A ++ [y]) = false) by (intros y; destruct A; reflexivity).
    rewrite !E, !map_last_snoc. unfold G. cbn [negb andb orb]. reflexivity.
Qed.

Lemma Sc_lines a e y : Sc a e y = joinl (mapfl (G a e) (split_nl y)).
Proof.
  unfold Sc. destruct e.
  - unfold strip_line_edges_end. rewrite edge_strip_end_mapfl by apply split_nl_nonempty. reflexivity.
  - unfold strip_line_edges. rewrite edge_strip_mapfl. reflexivity.
Qed.

(* ---------- lines of a concatenation ---------- *)
Lemma split_nl_last p : exists A l, split_nl p = A ++ [l] /\
  forall y, split_nl (p ++ y) = A ++ (l ++ hd [] (split_nl y)) :: tl (split_nl y).
Proof.
  destruct (exists_last (split_nl_nonempty p)) as (A & l & E). exists A, l. split; [exact E|].
  intros y. rewrite split_nl_app_gen, E, removelast_last, last_last. reflexivity.
Qed.

Lemma split_nl_repeat_sp n : split_nl (repeat SP n) = [repeat SP n].
Proof. apply split_nl_noNL_line, noNL_repeat_sp. Qed.

(* ---------- blanks at the edges of one line ---------- *)
Lemma rstrip_app_repeat l n : rstrip (l ++ repeat SP n) = rstrip l.
Proof.
  induction l as [|c l IH].
  - cbn [app rstrip]. apply rstrip_all_sp, all_sp_repeat.
  - cbn [app rstrip]. change (c :: l ++ repeat SP n) with ((c :: l) ++ repeat SP n).
    rewrite forallb_app, all_sp_repeat, andb_true_r, IH. reflexivity.
Qed.

Lemma rstrip_repeat_app n l : forallb is_sp l = false -> rstrip (repeat SP n ++ l) = repeat SP n ++ rstrip l.
Proof.
  intros H. induction n as [|n IH]; [reflexivity|]. cbn [repeat app]. rewrite rstrip_cons_sp.
  rewrite forallb_app, H, andb_false_r, IH. reflexivity.
Qed.

Lemma starts2_rstrip x l : (x =? SP) = false -> starts2 x l = true -> forallb is_sp l = false /\ starts2 x (rstrip l) = true.
Proof.
  intros Hx H. destruct l as [|u [|v t]]; [discriminate H | discriminate H|]. cbn [starts2] in H.
  apply andb_true_iff in H. destruct H as [Hu Hv]. apply Z.eqb_eq in Hu, Hv. subst u v.
  assert (Hs : is_sp x = false) by exact Hx.
  split; [cbn [forallb]; rewrite Hs; reflexivity|].
  rewrite !rstrip_cons_nonsp by exact Hs. cbn [starts2]. rewrite Z.eqb_refl. reflexivity.
Qed.

Lemma is_cmt_rstrip l : is_cmt l = true -> forallb is_sp l = false /\ is_cmt (rstrip l) = true.
Proof.
  unfold is_cmt. intros H. apply orb_true_iff in H. destruct H as [H | H].
  - destruct (starts2_rstrip DASH l eq_refl H) as [H1 H2]. rewrite H2. split; [exact H1 | reflexivity].
  - destruct (starts2_rstrip SLASH l eq_refl H) as [H1 H2]. rewrite H2, orb_true_r. split; [exact H1 | reflexivity].
Qed.

Lemma starts2_lstrip x l : (x =? SP) = false -> starts2 x l = true -> lstrip l = l.
Proof.
  intros Hx H. destruct l as [|u [|v t]]; [discriminate H | discriminate H|]. cbn [starts2] in H.
  apply andb_true_iff in H. destruct H as [Hu _]. apply Z.eqb_eq in Hu. subst u.
  unfold lstrip. cbn [span_p]. unfold is_sp at 1. rewrite Hx. reflexivity.
Qed.

Lemma is_cmt_lstrip l : is_cmt l = true -> lstrip l = l.
Proof.
  unfold is_cmt. intros H. apply orb_true_iff in H. destruct H as [H | H].
  - exact (starts2_lstrip DASH l eq_refl H).
  - exact (starts2_lstrip SLASH l eq_refl H).
Qed.

Lemma lnorm_repeat_app n l : l = [] \/ is_cmt l = true -> lnorm (repeat SP n ++ l) = lnorm l.
Proof.
  intros H. unfold lnorm. rewrite lstrip_repeat_app. destruct H as [-> | H].
  - reflexivity.
  - rewrite (is_cmt_lstrip l H), H, orb_true_r. reflexivity.
Qed.

Lemma lnorm_rstrip_repeat_app n l : l = [] \/ is_cmt l = true ->
  lnorm (rstrip (repeat SP n ++ l)) = lnorm (rstrip l).
Proof.
  intros [-> | H].
  - rewrite app_nil_r, (rstrip_all_sp _ (all_sp_repeat n)). reflexivity.
  - destruct (is_cmt_rstrip l H) as [H1 H2]. rewrite (rstrip_repeat_app n l H1).
    apply lnorm_repeat_app. right. exact H2.
Qed.

(* ====================================================================== the blanks that are layout *)
(* blanks directly before a line feed are layout *)
Lemma Sc_blank_eol a e p n q : Sc a e (p ++ repeat 32 n ++ 10 :: q) = Sc a e (p ++ 10 :: q).
Proof.
  rewrite !Sc_lines. f_equal.
  change 32 with SP. change 10 with NL.
  rewrite app_assoc, !split_nl_app_nl.
  destruct (split_nl_last p) as (A & l & E & Hy). rewrite Hy, E, split_nl_repeat_sp. cbn [hd tl].
  rewrite <- !app_assoc. cbn [app].
  apply mapfl_replace.
  destruct (split_nl q) as [|b B] eqn:Eq; [destruct (split_nl_nonempty _ Eq)|]. cbn [is_nil].
  unfold G. cbn [andb]. rewrite rstrip_app_repeat. reflexivity.
Qed.

(* blanks that end the text, for the run that ends the file *)
Lemma Sc_blank_end a p n : Sc a true (p ++ repeat 32 n) = Sc a true p.
Proof.
  rewrite !Sc_lines. f_equal. change 32 with SP.
  destruct (split_nl_last p) as (A & l & E & Hy). rewrite Hy, E, split_nl_repeat_sp. cbn [hd tl].
  apply mapfl_replace. unfold G. cbn [is_nil negb andb]. rewrite rstrip_app_repeat. reflexivity.
Qed.

Lemma starts2_split x q : (x =? NL) = false -> starts2 x q = true ->
  exists l B, split_nl q = l :: B /\ starts2 x l = true.
Proof.
  intros Hx H. destruct q as [|u [|v t]]; [discriminate H | discriminate H|]. cbn [starts2] in H.
  apply andb_true_iff in H. destruct H as [Hu Hv]. apply Z.eqb_eq in Hu, Hv. subst u v.
  cbn [split_nl]. rewrite Hx.
  destruct (split_nl t) as [|l B] eqn:E; [destruct (split_nl_nonempty _ E)|].
  exists (x :: x :: l), B. split; [reflexivity|]. cbn [starts2]. rewrite Z.eqb_refl. reflexivity.
Qed.

(* blanks at the beginning of a line that is blank or begins with a comment are layout *)
Lemma Sc_blank_bol a e p n q :
  ((p = [] /\ a = true) \/ exists p', p = p' ++ [10]) ->
  (q = [] \/ (exists q', q = 10 :: q') \/ starts2 45 q = true \/ starts2 47 q = true) ->
  Sc a e (p ++ repeat 32 n ++ q) = Sc a e (p ++ q).
Proof.
  intros Hp Hq. rewrite !Sc_lines. f_equal. change 32 with SP.
  assert (HA : exists A, (forall y, split_nl (p ++ y) = A ++ split_nl y) /\ (is_nil A = true -> a = true)).
  { destruct Hp as [[-> Ha] | [p' ->]].
    - exists []. split; [reflexivity | intros _; exact Ha].
    - exists (split_nl p'). split.
      + intros y. rewrite <- app_assoc. cbn [app]. apply (split_nl_app_nl p' y).
      + destruct (split_nl p') eqn:E; [destruct (split_nl_nonempty _ E) | discriminate]. }
  destruct HA as (A & HA & Ha).
  assert (HB : exists l B, split_nl q = l :: B /\ (l = [] \/ is_cmt l = true)).
  { destruct Hq as [-> | [[q' ->] | [H | H]]].
    - exists [], []. split; [reflexivity | left; reflexivity].
    - exists [], (split_nl q'). split; [reflexivity | left; reflexivity].
    - destruct (starts2_split 45 q eq_refl H) as (l & B & E & Hl). exists l, B. split; [exact E|].
      right. unfold is_cmt. change DASH with 45. rewrite Hl. reflexivity.
    - destruct (starts2_split 47 q eq_refl H) as (l & B & E & Hl). exists l, B. split; [exact E|].
      right. unfold is_cmt. change SLASH with 47. rewrite Hl. apply orb_true_r. }
  destruct HB as (l & B & EB & Hl).
  rewrite !HA, split_nl_app_gen, split_nl_repeat_sp, EB. cbn [removelast last hd tl app].
  apply mapfl_replace. unfold G.
  assert (Ef : negb (is_nil A) || a = true).
  { destruct (is_nil A) eqn:E; [rewrite (Ha eq_refl); reflexivity | reflexivity]. }
  rewrite Ef. destruct (is_nil B && negb e).
  - apply lnorm_repeat_app. exact Hl.
  - apply lnorm_rstrip_repeat_app. exact Hl.
Qed.
