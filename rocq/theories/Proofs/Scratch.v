From Coq Require Import ZArith List Bool Lia ZifyBool.
From PV Require Import Base.Prelude Base.ListX Base.PySlice Spec.PxcFormat Generated.K_compress Generated.K_p8png
  Generated.K_p8png_codec Model.Compress Model.HexSection Model.Gfx Model.Gff Model.PngStego Model.P8Png Proofs.CompressProofs Proofs.P8PngProofs.
Ltac Zify.zify_post_hook ::= Z.to_euclidean_division_equations.
