(* C10's whole-program theorems for VALID programs: the hypotheses "parsed to the end, tree inside the writer domain, no
   trailing field separator" of C10_output_form / C10_indent_text / C10_idempotent / C10_reindent_invariant discharged
   from a derivation in the reference grammar (Proofs/ValidDomain6.v valid_in_domain_nts, ValidDomainLex.v).
   vsrc src ss lts g : src is a source of the reference dialect, lts its lexer tokens, g a derivation of them with
   line_scoped, excl (C08's side condition), g_no_paren_suffix (finding C09-paren-suffix-assert) and g_no_trailing_sep
   (the cosmetic deviation C10_indent_trailing_sep_refuted). *)
From PV Require Import Base.Prelude Spec.LuaTokens Spec.LuaGrammar Spec.LuaLex Spec.SameCode Spec.TokenDepth Spec.ReindentSpec
  Model.Tokens Model.Parser Model.ParserInst Model.WriterChunks Model.AstWriter Model.WriterDomain Model.FmtSpaces Model.FmtSpacesInst
  Proofs.ParserProofs Proofs.ParserComplete2 Proofs.FmtLinesProofs Proofs.AstWriterDepth Proofs.AstWriterLines Proofs.AstWriterReindent Proofs.FmtLineEnd
  Proofs.FmtRelexIdem Proofs.FmtRelexReindent Proofs.ValidDomain1 Proofs.ValidDomain6 Proofs.ValidDomainLex.
From PV Require Model.Lexer Model.LexToken.
Import LexToken.

Definition vsrc (src : list Z) (ss : list stok) (lts : list Lexer.tok) (g : tree) : Prop :=
  Forall byte src /\ spec_lex src = Some ss /\ Lexer.model_lex [src] = Ok lts /\
  derives (map lex_token lts) g = true /\ line_scoped (map lex_token lts) g = true /\ excl g = true /\
  g_no_paren_suffix g = true /\ g_no_trailing_sep g = true.

Lemma vsrc_domain src ss lts g : vsrc src ss lts g ->
  exists root e, lua_parse (map lex_token lts) = Ok (root, e) /\ consumed (map lex_token lts) e = true /\
                 writable (map lex_token lts) root = true /\ no_trailing_sep root = true.
Proof. intros (HB & Hs & Hm & Hd & Hl & He & Hg & Ht). exact (valid_source_in_domain_nts src ss lts g HB Hs Hm Hd Hl He Hg Ht). Qed.

Theorem output_form_valid w src ss lts g : vsrc src ss lts g -> gaps_tidy (map lex_token lts) = true ->
  exists root e, lua_parse (map lex_token lts) = Ok (root, e) /\
    writer_text (fmt_spaces w) (map lex_token lts) (view root) = Ok (ref_fmt (gap_fmt w) (map lex_token lts)).
Proof.
  intros Hv Hg. destruct (vsrc_domain _ _ _ _ Hv) as (root & e & Hp & Hc & Hw & Ht).
  exists root, e. split; [exact Hp|]. exact (program_ref_fmt _ w root e Hp Hc Hw Ht Hg).
Qed.

Theorem indent_valid w src ss lts g : vsrc src ss lts g -> codes_tidy (map lex_token lts) = true ->
  exists root e cs, lua_parse (map lex_token lts) = Ok (root, e) /\
    writer_text (fmt_spaces w) (map lex_token lts) (view root) = Ok (chunks_text (fmt_spaces w) cs) /\
    codes_of cs = sig_codes (map lex_token lts) 0 /\
    forall A i text B p q, cs = A ++ Code i text :: B ->
      chunks_text (fmt_spaces w) A = p ++ NL :: q -> noNL q -> forallb is_sp q = true ->
      sigb (map lex_token lts) i = true /\ 0 <= token_depth (map lex_token lts) i /\
      q = repeat SP (Z.to_nat w * Z.to_nat (token_depth (map lex_token lts) i)).
Proof.
  intros Hv Hct. destruct (vsrc_domain _ _ _ _ Hv) as (root & e & Hp & Hc & Hw & Ht). destruct Hv as (HB & Hs & Hm & _).
  destruct (indent_text w src ss lts root e HB Hs Hm Hp Hc Hw Hct Ht) as (cs & H1 & H2 & H3).
  exists root, e, cs. repeat split; try assumption; eapply H3; eassumption.
Qed.

Theorem idempotent_valid_partial w src ss lts g : vsrc src ss lts g -> gaps_tidy (map lex_token lts) = true ->
  exists root e out ss' lts',
    lua_parse (map lex_token lts) = Ok (root, e) /\
    writer_text (fmt_spaces w) (map lex_token lts) (view root) = Ok out /\ Forall byte out /\
    spec_lex out = Some ss' /\ Lexer.model_lex [out] = Ok lts' /\
    formatted_as (gap_fmt w) (map lex_token lts) (map lex_token lts') /\ gaps_tidy (map lex_token lts') = true /\
    forall g', derives (map lex_token lts') g' = true -> line_scoped (map lex_token lts') g' = true -> excl g' = true ->
      g_no_paren_suffix g' = true -> g_no_trailing_sep g' = true ->
      exists root' e', lua_parse (map lex_token lts') = Ok (root', e') /\
        writer_text (fmt_spaces w) (map lex_token lts') (view root') = Ok out.
Proof.
  intros Hv Hg. destruct (vsrc_domain _ _ _ _ Hv) as (root & e & Hp & Hc & Hw & Ht). destruct Hv as (HB & Hs & Hm & _).
  destruct (luafmt_idempotent w src ss lts root e HB Hs Hm Hp Hc Hw Ht Hg) as (out & ss' & lts' & H1 & H2 & H3 & H4 & H5 & H6 & H7).
  exists root, e, out, ss', lts'. repeat split; try assumption.
  intros g' Hd' Hl' He' Hg' Ht'.
  destruct (valid_source_in_domain_nts out ss' lts' g' H2 H3 H4 Hd' Hl' He' Hg' Ht') as (root' & e' & Hp' & Hc' & Hw' & Hts').
  exists root', e'. split; [exact Hp'|]. exact (H7 root' e' Hp' Hc' Hw' Hts').
Qed.

Theorem reindent_invariant_valid w src1 ss1 lts1 g1 src2 ss2 lts2 g2 :
  vsrc src1 ss1 lts1 g1 -> gaps_tidy (map lex_token lts1) = true ->
  vsrc src2 ss2 lts2 g2 -> gaps_tidy (map lex_token lts2) = true ->
  reindent_equiv (map lex_token lts1) (map lex_token lts2) ->
  exists root1 e1 root2 e2 out,
    lua_parse (map lex_token lts1) = Ok (root1, e1) /\ lua_parse (map lex_token lts2) = Ok (root2, e2) /\
    writer_text (fmt_spaces w) (map lex_token lts1) (view root1) = Ok out /\
    writer_text (fmt_spaces w) (map lex_token lts2) (view root2) = Ok out.
Proof.
  intros Hv1 Hg1 Hv2 Hg2 Hr.
  destruct (vsrc_domain _ _ _ _ Hv1) as (root1 & e1 & Hp1 & Hc1 & Hw1 & Ht1).
  destruct (vsrc_domain _ _ _ _ Hv2) as (root2 & e2 & Hp2 & Hc2 & Hw2 & Ht2).
  exists root1, e1, root2, e2, (ref_fmt (gap_fmt w) (map lex_token lts1)).
  split; [exact Hp1|]. split; [exact Hp2|]. split; [exact (program_ref_fmt _ w root1 e1 Hp1 Hc1 Hw1 Ht1 Hg1)|].
  rewrite <- (program_reindent w _ _ root1 e1 root2 e2 Hp1 Hc1 Hw1 Ht1 Hg1 Hp2 Hc2 Hw2 Ht2 Hg2 Hr).
  exact (program_ref_fmt _ w root1 e1 Hp1 Hc1 Hw1 Ht1 Hg1).
Qed.
