(* Source pins of pico8/game/file.py: file.from_file / to_file: the write protocol (Model/WriteProtocol.v).
   WRITTEN BY gen/mkpins.py (developer step) from the sources the hand-written model was compared with;
   each lemma fails when the function it names has been edited since (digest of ast.unparse, docstrings
   dropped; regenerated on every run into Generated/T_pins_file.v). *)
From Coq Require Import ZArith List.
Import ListNotations.
Open Scope Z_scope.
From PV Require Import Generated.T_pins_file.

Lemma pin__UnrecognizedFileType____init___ok : pin__UnrecognizedFileType____init__ = [124; 32; 76; 83; 252; 24; 107; 126].
Proof. reflexivity. Qed.
Lemma pin__mod__formatter_for_filename_ok : pin__mod__formatter_for_filename = [192; 241; 53; 77; 71; 79; 49; 92].
Proof. reflexivity. Qed.
Lemma pin__mod__from_file_ok : pin__mod__from_file = [199; 9; 214; 204; 100; 20; 73; 92].
Proof. reflexivity. Qed.
Lemma pin__mod__to_file_ok : pin__mod__to_file = [55; 68; 252; 108; 123; 166; 203; 28].
Proof. reflexivity. Qed.

(* no function was added to or removed from the pinned classes *)
Lemma pin_names__file_ok : pin_names__file =
  [[112; 105; 110; 95; 95; 85; 110; 114; 101; 99; 111; 103; 110; 105; 122; 101; 100; 70; 105; 108; 101; 84; 121; 112; 101; 95; 95; 95; 95; 105; 110; 105; 116; 95; 95]; [112; 105; 110; 95; 95; 109; 111; 100; 95; 95; 102; 111; 114; 109; 97; 116; 116; 101; 114; 95; 102; 111; 114; 95; 102; 105; 108; 101; 110; 97; 109; 101]; [112; 105; 110; 95; 95; 109; 111; 100; 95; 95; 102; 114; 111; 109; 95; 102; 105; 108; 101]; [112; 105; 110; 95; 95; 109; 111; 100; 95; 95; 116; 111; 95; 102; 105; 108; 101]].
Proof. reflexivity. Qed.
