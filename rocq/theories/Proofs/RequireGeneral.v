(* C12, require side, ANY load-path pattern: every candidate of _locate_require_file lies under the
   directory the pattern text designates (Spec/LoadPathSpec.v: pattern_root = pattern_dir minus
   pattern_climb levels), whatever string passes the filter.  No hypothesis on the pattern or on the
   instantiated candidate.  The statements for sane patterns (RequireProofs.v) are corollaries:
   a sane pattern has climb 0. *)
From PV Require Import Base.Prelude Model.Paths Model.Require Spec.PathSpec Spec.LoadPathSpec
  Proofs.PathProofs Proofs.RequireProofs Generated.T_files_build Model.FilesInst.
From Coq Require Import ZifyBool.

(* ------------------------------------------------------------------ Spec text = model text *)
Lemma instantiate_replace name pat : instantiate name pat = replace_char 63 name pat.
Proof. reflexivity. Qed.

Lemma last_part_base s : last_part s = base_part s.
Proof. induction s as [|c r IH]; [reflexivity|]. cbn [last_part base_part]. rewrite IH. reflexivity. Qed.

Lemma from_first_from pat : from_first_placeholder pat = from_placeholder pat.
Proof. induction pat as [|c r IH]; [reflexivity|]. cbn [from_first_placeholder from_placeholder]. rewrite IH. reflexivity. Qed.

Lemma before_no_placeholder pat : has_placeholder (before_placeholder pat) = false.
Proof.
  unfold has_placeholder. induction pat as [|c r IH]; [reflexivity|].
  cbn [before_placeholder]. destruct (c =? 63) eqn:E; [reflexivity|]. cbn [existsb]. rewrite E, IH. reflexivity.
Qed.

Lemma replace_app r a b : replace_char 63 r (a ++ b) = replace_char 63 r a ++ replace_char 63 r b.
Proof. unfold replace_char. apply flat_map_app. Qed.

Lemma candidate_tail_rest pat req : candidate_tail pat req = replace_char 63 req (pattern_rest pat).
Proof.
  unfold candidate_tail, pattern_rest.
  change (last_part (before_placeholder pat)) with (base_part (before_placeholder pat)).
  change (from_first_placeholder pat) with (from_placeholder pat).
  rewrite replace_app. f_equal. symmetry. apply replace_id.
  assert (H : existsb (fun x => x =? 63) (dir_part (before_placeholder pat) ++ base_part (before_placeholder pat)) = false).
  { rewrite dir_base. apply before_no_placeholder. }
  rewrite existsb_app in H. apply orb_false_iff in H as [_ H]. exact H.
Qed.

(* ------------------------------------------------------------------ components of an instantiated text *)
Lemma join_components s : join_with 47 (components s) = s.
Proof.
  induction s as [|c r IH]; [reflexivity|]. cbn [components].
  pose proof (components_nonnil r) as Hn.
  destruct (Z.eqb_spec c 47) as [->|N].
  - destruct (components r) as [|h t] eqn:E; [congruence|].
    change (join_with 47 ([] :: h :: t)) with ([] ++ 47 :: join_with 47 (h :: t)). rewrite IH. reflexivity.
  - destruct (components r) as [|h t] eqn:E; [congruence|].
    destruct t as [|h2 t2].
    + cbn [join_with] in *. rewrite IH. reflexivity.
    + change (join_with 47 ((c :: h) :: h2 :: t2)) with ((c :: h) ++ 47 :: join_with 47 (h2 :: t2)).
      change (join_with 47 (h :: h2 :: t2)) with (h ++ 47 :: join_with 47 (h2 :: t2)) in IH.
      rewrite <- IH. reflexivity.
Qed.

Lemma components_replace_join r l :
  l <> [] ->
  components (replace_char 63 r (join_with 47 l)) = flat_map (fun c => components (replace_char 63 r c)) l.
Proof.
  induction l as [|x l IH]; [congruence|]. intros _.
  destruct l as [|y l].
  - cbn [join_with flat_map]. rewrite app_nil_r. reflexivity.
  - change (join_with 47 (x :: y :: l)) with (x ++ 47 :: join_with 47 (y :: l)).
    change (x ++ 47 :: join_with 47 (y :: l)) with (x ++ [47] ++ join_with 47 (y :: l)).
    rewrite !replace_app. change (replace_char 63 r [47]) with [47]. cbn [app].
    rewrite components_app_slash, IH by discriminate. reflexivity.
Qed.

Lemma components_replace r t :
  components (replace_char 63 r t) = flat_map (fun c => components (replace_char 63 r c)) (components t).
Proof.
  rewrite <- (join_components t) at 1. apply components_replace_join. apply components_nonnil.
Qed.

(* ------------------------------------------------------------------ sequences that never go below their start *)
(* from any position, the walk ends at least n levels deeper and the start position stays *)
Definition grows (n : nat) (cs : list bytes) : Prop :=
  forall S, exists ext, walk S cs = ext ++ S /\ (n <= length ext)%nat.

Lemma grows_nil : grows 0 [].
Proof. intros S. exists []. split; [reflexivity|cbn; lia]. Qed.

Lemma grows_weaken n n' cs : (n' <= n)%nat -> grows n cs -> grows n' cs.
Proof. intros Hn H S. destruct (H S) as (ext & E & L). exists ext. split; [exact E|lia]. Qed.

Lemma grows_app n m a b : grows n a -> grows m b -> grows (n + m) (a ++ b).
Proof.
  intros Ha Hb S. rewrite walk_app. destruct (Ha S) as (e1 & E1 & L1). rewrite E1.
  destruct (Hb (e1 ++ S)) as (e2 & E2 & L2). rewrite E2. exists (e2 ++ e1).
  rewrite <- app_assoc. split; [reflexivity|]. rewrite app_length. lia.
Qed.

Lemma grows_descend c : comp_kind c = 2 -> grows 1 [c].
Proof. intros H S. rewrite walk_step, H. cbn [Z.eqb walk]. exists [c]. split; [reflexivity|cbn; lia]. Qed.

Lemma grows_stay c : comp_kind c = 0 -> grows 0 [c].
Proof. intros H S. rewrite walk_step, H. cbn [Z.eqb walk]. exists []. split; [reflexivity|cbn; lia]. Qed.

Lemma grows_not_parent cs : Forall not_parent cs -> grows 0 cs.
Proof. intros H S. destruct (walk_grows S cs H) as (ext & E). exists ext. split; [exact E|lia]. Qed.

(* a final component of any kind after at least one level gained *)
Lemma grows_then_any n cs c : grows (S n) cs -> grows n (cs ++ [c]).
Proof.
  intros H S. rewrite walk_app. destruct (H S) as (ext & E & L). rewrite E.
  destruct ext as [|e ext']; [cbn in L; lia|]. cbn [length] in L.
  rewrite walk_step. cbn [walk].
  destruct (comp_kind_cases c) as [K|[K|K]]; rewrite K; cbn [Z.eqb app tl].
  - exists (e :: ext'). split; [reflexivity|cbn; lia].
  - exists ext'. split; [reflexivity|lia].
  - exists (c :: e :: ext'). split; [reflexivity|cbn; lia].
Qed.

(* ------------------------------------------------------------------ kinds of glued components *)
Lemma kind0_eq c : comp_kind c = 0 -> c = [] \/ c = [46].
Proof.
  unfold comp_kind. destruct c as [|x [|y [|z r]]]; auto.
  - destruct x as [|p|p]; try discriminate. do 6 (destruct p as [p|p|]; try discriminate). auto.
  - destruct x as [|p|p]; try discriminate. do 6 (destruct p as [p|p|]; try discriminate).
    destruct y as [|p|p]; try discriminate. do 6 (destruct p as [p|p|]; try discriminate).
  - destruct x as [|p|p]; try discriminate. do 6 (destruct p as [p|p|]; try discriminate).
    destruct y as [|p|p]; try discriminate. do 6 (destruct p as [p|p|]; try discriminate).
Qed.

Lemma kind_not2 x : comp_kind x <> 2 -> x = [] \/ x = [46] \/ x = [46; 46].
Proof.
  intros H. destruct (comp_kind_cases x) as [K|[K|K]]; [|right; right; apply is_dotdot_eq; exact K|congruence].
  destruct (kind0_eq x K) as [E|E]; auto.
Qed.

(* a text that contains r, where r is neither empty nor "." nor "..", is a name *)
Lemma contains_name p r s : comp_kind r = 2 -> comp_kind (p ++ r ++ s) = 2.
Proof.
  intros Hr. destruct (comp_kind_cases (p ++ r ++ s)) as [K|[K|K]]; [| |exact K]; exfalso.
  - assert (H : comp_kind (p ++ r ++ s) <> 2) by (rewrite K; discriminate).
    apply kind_not2 in H. destruct H as [H|[H|H]].
    + apply app_eq_nil in H as [_ H]. apply app_eq_nil in H as [H _]. subst r. discriminate.
    + destruct p as [|a p].
      * cbn [app] in H. destruct r as [|b r]; [discriminate|]. injection H as -> H.
        apply app_eq_nil in H as [-> _]. discriminate.
      * injection H as -> H. apply app_eq_nil in H as [_ H]. apply app_eq_nil in H as [-> _]. discriminate.
    + destruct p as [|a [|b p]]; cbn [app] in H.
      * destruct r as [|c [|d r]]; [discriminate| |].
        -- injection H as -> _. discriminate.
        -- injection H as -> -> H. apply app_eq_nil in H as [-> _]. discriminate.
      * injection H as -> H. destruct r as [|c r]; [discriminate|]. injection H as -> H.
        apply app_eq_nil in H as [-> _]. discriminate.
      * injection H as -> -> H. apply app_eq_nil in H as [_ H]. apply app_eq_nil in H as [-> _]. discriminate.
  - apply is_dotdot_eq in K.
    destruct p as [|a [|b p]]; cbn [app] in K.
    + destruct r as [|c [|d r]]; [discriminate| |].
      * injection K as -> _. discriminate.
      * injection K as -> -> H. apply app_eq_nil in H as [-> _]. discriminate.
    + injection K as -> H. destruct r as [|c r]; [discriminate|]. injection H as -> H.
      apply app_eq_nil in H as [-> _]. discriminate.
    + injection K as -> -> H. apply app_eq_nil in H as [_ H]. apply app_eq_nil in H as [-> _]. discriminate.
Qed.

Lemma ends_with_name p r : comp_kind r = 2 -> comp_kind (p ++ r) = 2.
Proof. intros H. rewrite <- (app_nil_r r). apply contains_name. exact H. Qed.

(* ck ++ w is ".." only for w = "." or w = ".." when ck is not ".." *)
Lemma glue_last_not_parent ck w :
  not_parent ck -> w <> [46] -> w <> [46; 46] -> not_parent (ck ++ w).
Proof.
  unfold not_parent. intros Hk H1 H2 K. apply is_dotdot_eq in K.
  destruct ck as [|a [|b ck]]; cbn [app] in K.
  - congruence.
  - injection K as -> K. congruence.
  - injection K as -> -> K. apply app_eq_nil in K as [-> _]. apply Hk. reflexivity.
Qed.

(* ------------------------------------------------------------------ the names require() accepts *)
Definition valid_name (r : bytes) : Prop :=
  r <> [] /\ starts_with [47] r = false /\ Forall not_parent (components r) /\ contains [46; 47] r = false.

Lemma filter_valid_name req : require_filter_now req = true -> valid_name req.
Proof. exact (require_filter_now_spec req). Qed.

Lemma noslash_app a b : noslash a -> noslash b -> noslash (a ++ b).
Proof. unfold noslash. intros Ha Hb. rewrite existsb_app, Ha, Hb. reflexivity. Qed.

Lemma noslash_cons x a : noslash (x :: a) -> (x =? 47) = false /\ noslash a.
Proof. unfold noslash. cbn [existsb]. intros H. apply orb_false_iff in H. exact H. Qed.

Lemma split_first s : noslash s \/ exists c1 s', s = c1 ++ 47 :: s' /\ noslash c1.
Proof.
  induction s as [|x s IH]; [left; reflexivity|].
  destruct (Z.eqb_spec x 47) as [->|N].
  - right. exists [], s. split; reflexivity.
  - destruct IH as [H|(c1 & s' & -> & H)].
    + left. unfold noslash in *. cbn [existsb]. rewrite H. apply Z.eqb_neq in N. rewrite N. reflexivity.
    + right. exists (x :: c1), s'. split; [reflexivity|].
      unfold noslash in *. cbn [existsb]. rewrite H. apply Z.eqb_neq in N. rewrite N. reflexivity.
Qed.

(* a valid name is one component (not ".."), or  c1/.../ck  with c1 a proper name *)
Lemma name_shape r :
  valid_name r ->
  (noslash r /\ not_parent r /\ r <> [])
  \/ exists c1 r' mids ck, r = c1 ++ 47 :: r' /\ noslash c1 /\ comp_kind c1 = 2 /\
       components r' = mids ++ [ck] /\ Forall not_parent mids /\ not_parent ck /\ noslash ck.
Proof.
  intros (Hne & Hrel & Hnp & Hdot).
  destruct (split_first r) as [H|(c1 & r' & -> & H)].
  - left. rewrite (components_noslash_one r H) in Hnp. inversion Hnp; subst. auto.
  - right. rewrite components_app_slash, (components_noslash_one c1 H) in Hnp. cbn [app] in Hnp.
    inversion Hnp as [|x l Hc1 Hrest]; subst.
    pose proof (components_nonnil r') as Hn.
    destruct (exists_last Hn) as (mids & ck & E). rewrite E in Hrest.
    apply Forall_app in Hrest as [Hm Hk]. inversion Hk; subst.
    exists c1, r', mids, ck. split; [reflexivity|]. split; [exact H|]. split.
    + destruct (comp_kind_cases c1) as [K|[K|K]]; [|contradiction|exact K].
      exfalso. destruct (kind0_eq c1 K) as [-> | ->].
      * cbn in Hrel. discriminate.
      * cbn in Hdot. discriminate.
    + split; [exact E|]. split; [exact Hm|]. split; [assumption|].
      pose proof (components_all_noslash r') as Ha. rewrite E in Ha. apply Forall_app in Ha as [_ Ha].
      inversion Ha; subst. assumption.
Qed.

Lemma replace_noslash r c : noslash r -> noslash c -> noslash (replace_char 63 r c).
Proof.
  intros Hr. induction c as [|x c IH]; intros Hc; [reflexivity|].
  apply noslash_cons in Hc as [Hx Hc]. unfold replace_char. cbn [flat_map]. fold (replace_char 63 r c).
  apply noslash_app; [|apply IH; exact Hc].
  destruct (x =? 63); [exact Hr|]. unfold noslash. cbn [existsb]. rewrite Hx. reflexivity.
Qed.

Lemma replace_cons_ph r t : replace_char 63 r (63 :: t) = r ++ replace_char 63 r t.
Proof. reflexivity. Qed.

Lemma replace_cons_other r x t : (x =? 63) = false -> replace_char 63 r (x :: t) = x :: replace_char 63 r t.
Proof. intros H. unfold replace_char. cbn [flat_map]. rewrite H. reflexivity. Qed.

Lemma has_placeholder_from c :
  has_placeholder c = true -> exists rest, from_placeholder c = 63 :: rest.
Proof.
  unfold has_placeholder. induction c as [|x c IH]; [discriminate|]. cbn [existsb from_placeholder].
  destruct (Z.eqb_spec x 63) as [->|N]; [intros _; exists c; reflexivity|]. cbn [orb]. exact IH.
Qed.

(* ---- a name with at least two components put into a component of a pattern ---- *)
Section Multi.
Variables (c1 r' : bytes) (mids : list bytes) (ck : bytes).
Hypothesis Hc1n : noslash c1.
Hypothesis Hc1 : comp_kind c1 = 2.
Hypothesis Hr' : components r' = mids ++ [ck].
Hypothesis Hm : Forall not_parent mids.
Hypothesis Hck : not_parent ck.
Hypothesis Hckn : noslash ck.
Let r := c1 ++ 47 :: r'.

Lemma multi_no_placeholder a t :
  has_placeholder t = false -> noslash a -> noslash t ->
  components (a ++ replace_char 63 r t) = [a ++ t].
Proof.
  intros Hp Ha Ht. rewrite replace_id by exact Hp. apply components_noslash_one, noslash_app; assumption.
Qed.

Lemma count_no_placeholder t : has_placeholder t = false -> count_placeholders t = 0%nat.
Proof.
  unfold has_placeholder, count_placeholders. induction t as [|x t IH]; [reflexivity|].
  cbn [existsb filter]. intros H. apply orb_false_iff in H as [Hx Ht]. rewrite Hx. apply IH, Ht.
Qed.

(* first component: ends with c1; last: starts with ck; between them the middle components of the name and
   one joint ck..c1 per further placeholder: (number of placeholders) * (components of the name - 1) - 1
   components, each of which satisfies any P that holds of the middle components and of every text ending in c1 *)
Lemma multi_placeholder (P : bytes -> Prop) :
  Forall P mids -> (forall x, P (x ++ c1)) ->
  forall t a,
  noslash t -> noslash a -> has_placeholder t = true ->
  exists M, components (a ++ replace_char 63 r t)
            = (a ++ before_placeholder t ++ c1) :: M ++ [ck ++ after_last_placeholder t]
            /\ Forall P M /\ S (length M) = (count_placeholders t * S (length mids))%nat.
Proof.
  intros HPm HPj.
  induction t as [|x t IH]; intros a Ht Ha Hp; [discriminate|].
  apply noslash_cons in Ht as [Hx Ht].
  destruct (Z.eqb_spec x 63) as [->|N].
  - rewrite replace_cons_ph. cbn [before_placeholder Z.eqb Pos.eqb app].
    set (rest := replace_char 63 r t).
    assert (E : a ++ r ++ rest = (a ++ c1) ++ 47 :: (r' ++ rest)).
    { unfold r. rewrite <- !app_assoc. reflexivity. }
    rewrite E, components_app_slash, (components_noslash_one (a ++ c1)) by (apply noslash_app; assumption).
    destruct (components_app r' rest) as (l & y & Hl & Hab). rewrite Hr' in Hl.
    apply app_inj_tail in Hl as [<- <-]. rewrite Hab.
    destruct (components_app ck rest) as (l2 & y2 & Hl2 & Hab2).
    rewrite (components_noslash_one ck Hckn) in Hl2.
    assert (l2 = [] /\ y2 = ck) as [-> ->].
    { destruct l2 as [|l0 [|l1 l2]]; [injection Hl2 as <-; split; reflexivity|discriminate|discriminate]. }
    cbn [app] in Hab2. rewrite <- Hab2. cbn [after_last_placeholder].
    destruct (has_placeholder t) eqn:Hpt.
    + destruct (IH ck Ht Hckn eq_refl) as (M & EM & HM & LM). fold rest in EM. rewrite EM.
      exists (mids ++ (ck ++ before_placeholder t ++ c1) :: M). split; [|split].
      * cbn [app]. rewrite <- app_assoc. reflexivity.
      * apply Forall_app. split; [exact HPm|]. constructor; [|exact HM].
        rewrite app_assoc. apply HPj.
      * unfold count_placeholders in *. cbn [filter Z.eqb Pos.eqb length]. rewrite app_length. cbn [length]. rewrite Nat.mul_succ_l, <- LM. rewrite (Nat.add_comm (S (length M))). reflexivity.
    + unfold rest. rewrite multi_no_placeholder by assumption.
      exists mids. split; [reflexivity|]. split; [exact HPm|].
      pose proof (count_no_placeholder t Hpt) as C0. unfold count_placeholders in *.
      cbn [filter Z.eqb Pos.eqb length]. rewrite C0, Nat.mul_1_l. reflexivity.
  - assert (Hx63 : (x =? 63) = false) by (apply Z.eqb_neq; exact N).
    rewrite replace_cons_other by exact Hx63.
    assert (Hpt : has_placeholder t = true).
    { unfold has_placeholder in *. cbn [existsb] in Hp. rewrite Hx63 in Hp. exact Hp. }
    assert (Ha' : noslash (a ++ [x])).
    { apply noslash_app; [exact Ha|]. unfold noslash. cbn [existsb]. rewrite Hx. reflexivity. }
    destruct (IH (a ++ [x]) Ht Ha' Hpt) as (M & EM & HM & LM).
    exists M. split; [|split; [exact HM|]].
    + cbn [before_placeholder after_last_placeholder]. rewrite Hx63, Hpt.
      rewrite <- app_assoc in EM. cbn [app] in EM. rewrite EM. rewrite <- app_assoc. reflexivity.
    + unfold count_placeholders in *. cbn [filter]. rewrite Hx63. exact LM.
Qed.

Lemma joint_not_parent x : not_parent (x ++ c1).
Proof. unfold not_parent. rewrite ends_with_name by exact Hc1. discriminate. Qed.

Lemma multi_grows c :
  noslash c -> has_placeholder c = true ->
  grows 0 (components (replace_char 63 r c))
  /\ (after_last_placeholder c <> [46] -> after_last_placeholder c <> [46; 46] ->
      grows 1 (components (replace_char 63 r c))).
Proof.
  intros Hc Hp. destruct (multi_placeholder not_parent Hm joint_not_parent c [] Hc eq_refl Hp) as (M & E & HM & _).
  cbn [app] in E. rewrite E.
  assert (H1 : grows 1 [before_placeholder c ++ c1]) by (apply grows_descend, ends_with_name; exact Hc1).
  split.
  - change ((before_placeholder c ++ c1) :: M ++ [ck ++ after_last_placeholder c])
      with (((before_placeholder c ++ c1) :: M) ++ [ck ++ after_last_placeholder c]).
    apply grows_then_any. change ((before_placeholder c ++ c1) :: M) with ([before_placeholder c ++ c1] ++ M).
    apply (grows_app 1 0); [exact H1|apply grows_not_parent; exact HM].
  - intros W1 W2.
    change ((before_placeholder c ++ c1) :: M ++ [ck ++ after_last_placeholder c])
      with ([before_placeholder c ++ c1] ++ (M ++ [ck ++ after_last_placeholder c])).
    apply (grows_app 1 0); [exact H1|]. apply grows_not_parent, Forall_app. split; [exact HM|].
    constructor; [|constructor]. apply glue_last_not_parent; assumption.
Qed.
End Multi.

(* ------------------------------------------------------------------ one component of a pattern *)
Definition eff_ok (e : Z) (seq : list bytes) : Prop :=
  if e =? 1 then grows 1 seq
  else if e =? 0 then grows 0 seq
  else grows 0 seq \/ forall S, walk S seq = tl S.

Lemma eff_ok_grows1 e seq : grows 1 seq -> eff_ok e seq.
Proof.
  intros H. unfold eff_ok. destruct (e =? 1); [exact H|].
  destruct (e =? 0); [|left]; apply (grows_weaken 1 0); (lia || exact H).
Qed.

Lemma eff_ok_grows0 e seq : e <> 1 -> grows 0 seq -> eff_ok e seq.
Proof.
  intros He H. unfold eff_ok. destruct (Z.eqb_spec e 1); [congruence|].
  destruct (e =? 0); [exact H|left; exact H].
Qed.

Lemma eff_ok_single e x :
  (comp_kind x = 1 -> e = -1) -> (comp_kind x = 0 -> e <> 1) -> eff_ok e [x].
Proof.
  intros H1 H0. destruct (comp_kind_cases x) as [K|[K|K]].
  - apply eff_ok_grows0; [apply H0; exact K|apply grows_stay; exact K].
  - rewrite (H1 K). right. intros S. rewrite walk_step, K. reflexivity.
  - apply eff_ok_grows1, grows_descend. exact K.
Qed.

Lemma comp_effect_ok r c :
  valid_name r -> noslash c -> eff_ok (comp_effect c) (components (replace_char 63 r c)).
Proof.
  intros Hv Hc. unfold comp_effect. destruct (has_placeholder c) eqn:Hp.
  - rewrite instantiate_replace.
    destruct (name_shape r Hv) as [(Hn & Hnp & Hne)|(c1 & r' & mids & ck & -> & Hc1n & Hc1 & Hr' & Hm & Hck & Hckn)].
    + (* a one-component name *)
      rewrite (components_noslash_one _ (replace_noslash r c Hn Hc)).
      destruct (list_eq_dec Z.eq_dec r [46]) as [->|Nd].
      * apply eff_ok_single.
        -- intros K. rewrite K. reflexivity.
        -- intros K. rewrite K. cbn [Z.eqb andb]. discriminate.
      * apply eff_ok_grows1, grows_descend.
        destruct (has_placeholder_from c Hp) as (rest & Hf).
        rewrite replace_split, Hf, replace_cons_ph. apply contains_name.
        destruct (comp_kind_cases r) as [K|[K|K]]; [|contradiction|exact K].
        destruct (kind0_eq r K); congruence.
    + (* several components *)
      destruct (multi_grows c1 r' mids ck Hc1n Hc1 Hr' Hm Hck Hckn c Hc Hp) as [G0 G1].
      destruct (comp_kind (replace_char 63 [46] c) =? 1); [apply eff_ok_grows0; [discriminate|exact G0]|].
      destruct ((comp_kind (replace_char 63 [46] c) =? 2)
                && negb (zlist_eqb (after_last_placeholder c) [46] || zlist_eqb (after_last_placeholder c) [46; 46])) eqn:E.
      * apply eff_ok_grows1, G1.
        -- intros W. rewrite W in E. cbn in E. rewrite andb_false_r in E. discriminate.
        -- intros W. rewrite W in E. cbn in E. rewrite andb_false_r in E. discriminate.
      * apply eff_ok_grows0; [discriminate|exact G0].
  - unfold has_placeholder in Hp. rewrite replace_id by exact Hp. rewrite (components_noslash_one c Hc).
    apply eff_ok_single.
    + intros K. rewrite K. reflexivity.
    + intros K. rewrite K. discriminate.
Qed.

(* ------------------------------------------------------------------ the whole rest of a pattern *)
Lemma skipn_split {A} m : forall (l : list A), exists pre, skipn m l = pre ++ skipn (S m) l.
Proof.
  induction m as [|m IH]; intros l.
  - destruct l as [|x l]; [exists []; reflexivity|exists [x]; reflexivity].
  - destruct l as [|x l]; [exists []; reflexivity|]. apply (IH l).
Qed.

Lemma tl_skipn {A} m : forall (l : list A), tl (skipn m l) = skipn (S m) l.
Proof.
  induction m as [|m IH]; intros l.
  - destruct l; reflexivity.
  - destruct l as [|x l]; [reflexivity|]. apply (IH l).
Qed.

(* the worst-case count is an upper bound for every valid name: the walk over the instantiated components
   leaves all but [climb_from u m cs] levels of the start in place *)
Lemma climb_sound r :
  valid_name r ->
  forall cs, Forall noslash cs ->
  forall u m S0 S,
  (exists ext, S = ext ++ skipn m S0 /\ (u <= length ext)%nat) ->
  exists ext', walk S (flat_map (fun c => components (replace_char 63 r c)) cs)
               = ext' ++ skipn (climb_from u m cs) S0.
Proof.
  intros Hv cs Hcs. induction Hcs as [|c cs Hc _ IH]; intros u m S0 S (ext & -> & Hu).
  - exists ext. reflexivity.
  - cbn [flat_map climb_from]. rewrite walk_app.
    pose proof (comp_effect_ok r c Hv Hc) as Ho. unfold eff_ok in Ho.
    set (seq := components (replace_char 63 r c)) in *.
    destruct (comp_effect c =? 1).
    + destruct (Ho (ext ++ skipn m S0)) as (e2 & -> & L2). apply IH.
      exists (e2 ++ ext). rewrite <- app_assoc. split; [reflexivity|]. rewrite app_length. lia.
    + destruct (comp_effect c =? 0).
      * destruct (Ho (ext ++ skipn m S0)) as (e2 & -> & L2). apply IH.
        exists (e2 ++ ext). rewrite <- app_assoc. split; [reflexivity|]. rewrite app_length. lia.
      * destruct (skipn_split m S0) as (pre & Hpre).
        destruct Ho as [Ho|Ho].
        -- destruct (Ho (ext ++ skipn m S0)) as (e2 & -> & L2).
           destruct u as [|u']; apply IH.
           ++ exists (e2 ++ ext ++ pre). rewrite Hpre, <- !app_assoc. split; [reflexivity|lia].
           ++ exists (e2 ++ ext). rewrite <- app_assoc. split; [reflexivity|]. rewrite app_length. lia.
        -- rewrite Ho. destruct u as [|u']; apply IH.
           ++ destruct ext as [|e ext']; cbn [app tl].
              ** exists []. rewrite tl_skipn. split; [reflexivity|cbn; lia].
              ** exists (ext' ++ pre). rewrite Hpre, <- app_assoc. split; [reflexivity|lia].
           ++ destruct ext as [|e ext']; [cbn in Hu; lia|]. cbn [app tl length] in *.
              exists ext'. split; [reflexivity|lia].
Qed.

(* ------------------------------------------------------------------ where a candidate lies *)
Lemma walk_dir_tail S d tail :
  d = [] \/ (exists a, d = a ++ [47]) ->
  walk S (components (d ++ tail)) = walk (walk S (components d)) (components tail).
Proof.
  intros [->|(a & ->)].
  - reflexivity.
  - rewrite <- app_assoc. cbn [app]. rewrite components_app_slash, components_end_slash.
    rewrite !walk_app. reflexivity.
Qed.

Lemma ends_with_slash_end a : ends_with_slash (a ++ [47]) = true.
Proof.
  induction a as [|x a IH]; [reflexivity|]. cbn [app].
  destruct (a ++ [47]) as [|y l] eqn:E; [destruct a; discriminate|]. exact IH.
Qed.

Lemma pattern_dir_shape base pat :
  pattern_dir base pat = [] \/ ends_with_slash (pattern_dir base pat) = true.
Proof.
  unfold pattern_dir.
  destruct (dir_part_shape (before_placeholder pat)) as [->|(a & ->)].
  - destruct (absolute pat); [left; reflexivity|]. destruct base as [|b0 b1]; [left; reflexivity|].
    right. apply ends_with_slash_end.
  - destruct (absolute pat); [right; apply ends_with_slash_end|].
    destruct base as [|b0 b1]; right; [apply ends_with_slash_end|].
    change ((b0 :: b1) ++ 47 :: a ++ [47]) with ((b0 :: b1) ++ (47 :: a) ++ [47]). rewrite app_assoc.
    apply ends_with_slash_end.
Qed.

Lemma walk_ups n : forall W, walk W (components (ups n)) = skipn n W.
Proof.
  induction n as [|n IH]; intros W; [reflexivity|].
  change (ups (S n)) with ([46; 46] ++ 47 :: ups n). rewrite components_app_slash, walk_app.
  cbn [components Z.eqb Pos.eqb walk comp_kind]. rewrite IH. destruct W; [apply skipn_nil|reflexivity].
Qed.

Lemma ups_relative n : absolute (ups n) = false.
Proof. destruct n; reflexivity. Qed.

Section General.
Variable cwd : bytes.

Lemma stack_root base pat :
  stack cwd (pattern_root base pat) = skipn (pattern_climb pat) (stack cwd (pattern_dir base pat)).
Proof.
  unfold pattern_root. destruct (pattern_dir_shape base pat) as [->|H].
  - cbn [app]. rewrite stack_relative by apply ups_relative. apply walk_ups.
  - rewrite stack_app_endslash by exact H. apply walk_ups.
Qed.

(* the location of a candidate: walk the instantiated rest of the pattern from the directory part *)
Lemma candidate_stack base pat req :
  starts_with [47] req = false -> req <> [] ->
  stack cwd (candidate 63 base req pat)
  = walk (stack cwd (pattern_dir base pat)) (components (candidate_tail pat req)).
Proof.
  intros Hreq Hne.
  set (d := dir_part (before_placeholder pat)).
  set (tl_ := candidate_tail pat req) in *.
  assert (Hc : replace_char 63 req pat = d ++ tl_) by apply candidate_split.
  assert (Hp : pat = d ++ base_part (before_placeholder pat) ++ from_placeholder pat) by apply pattern_split.
  assert (Hd : d = [] \/ exists a, d = a ++ [47]) by apply dir_part_shape.
  assert (Hrel_req : absolute req = false).
  { destruct req as [|c r]; [reflexivity|]. rewrite absolute_eqb. cbn [starts_with] in Hreq.
    rewrite andb_true_r in Hreq. rewrite Z.eqb_sym. exact Hreq. }
  assert (Habs : absolute pat = absolute d /\ absolute (d ++ tl_) = absolute d).
  { destruct d as [|c0 d0] eqn:Ed.
    - assert (Hn : noslash (before_placeholder pat)) by (apply dir_part_nil; exact Ed).
      cbn [app]. cbn [app] in Hp. unfold tl_, candidate_tail.
      assert (Hb : base_part (before_placeholder pat) = before_placeholder pat).
      { pose proof (dir_base (before_placeholder pat)) as H. fold d in H. rewrite Ed in H. exact H. }
      rewrite Hb. rewrite Hb in Hp.
      destruct (before_placeholder pat) as [|c1 n1] eqn:En.
      + cbn [app] in *. destruct (from_placeholder_head pat) as [Hf|(r & Hf)]; rewrite Hf in *.
        * rewrite Hp. split; reflexivity.
        * rewrite Hp. unfold replace_char. cbn [flat_map Z.eqb Pos.eqb].
          split; [reflexivity|]. rewrite absolute_app by exact Hne. exact Hrel_req.
      + rewrite Hp. cbn [app]. rewrite !absolute_eqb.
        unfold noslash in Hn. cbn [existsb] in Hn. apply orb_false_iff in Hn as [Hn _].
        rewrite Hn. split; reflexivity.
    - rewrite Hp. cbn [app]. rewrite !absolute_eqb. split; reflexivity. }
  destruct Habs as [Hap Hac].
  unfold candidate. rewrite isabs_absolute, Hc, Hac. unfold pattern_dir. fold d. rewrite Hap.
  destruct (absolute d) eqn:Ead.
  - unfold stack. rewrite Hac, Ead. apply walk_dir_tail. exact Hd.
  - assert (Hrc : absolute (d ++ tl_) = false) by (rewrite Hac; reflexivity).
    destruct base as [|b0 b1] eqn:Eb.
    + unfold join. rewrite isabs_absolute, Hrc. cbn [is_empty orb app].
      rewrite (stack_relative cwd (d ++ tl_) Hrc), (stack_relative cwd d Ead).
      apply walk_dir_tail. exact Hd.
    + rewrite <- Eb. assert (Hb : base <> []) by (rewrite Eb; discriminate).
      rewrite stack_join by assumption. rewrite stack_app_slash by exact Hb.
      apply walk_dir_tail. exact Hd.
Qed.

(* THE GENERAL STATEMENT, one candidate: any pattern, any base directory, any valid name *)
Theorem candidate_under_root base pat req :
  valid_name req -> under cwd (pattern_root base pat) (candidate 63 base req pat).
Proof.
  intros Hv. pose proof Hv as (Hne & Hrel & _ & _).
  apply under_of_stack. rewrite candidate_stack, stack_root, candidate_tail_rest, components_replace by assumption.
  apply (climb_sound req Hv _ (components_all_noslash _) 0 0 (stack cwd (pattern_dir base pat))).
  exists []. split; [reflexivity|cbn; lia].
Qed.
End General.

(* the whole candidate list of _locate_require_file, any load path *)
Lemma candidates_contained_general cwd file_path lua_path req p :
  require_filter_now req = true ->
  In p (require_candidates_now file_path lua_path req) ->
  exists pat, In pat (split_on 59 lua_path) /\ under cwd (pattern_root (dirname file_path) pat) p.
Proof.
  intros Hf Hin. unfold require_candidates_now, require_candidates in Hin.
  apply in_map_iff in Hin as (pat & <- & Hpat).
  change path_sep_now with 59 in Hpat. exists pat. split; [exact Hpat|].
  change placeholder_now with 63. apply candidate_under_root, filter_valid_name. exact Hf.
Qed.

(* ------------------------------------------------------------------ patterns that do not climb *)
Definition nonclimbing (c : bytes) : Prop := comp_effect c = 1 \/ comp_effect c = 0.

Lemma climb_nonclimbing cs : Forall nonclimbing cs -> forall u m, climb_from u m cs = m.
Proof.
  induction 1 as [|c cs Hc _ IH]; intros u m; [reflexivity|].
  cbn [climb_from]. destruct Hc as [-> | ->]; cbn [Z.eqb Pos.eqb]; apply IH.
Qed.

Lemma pattern_root_climb0 base pat : pattern_climb pat = 0%nat -> pattern_root base pat = pattern_dir base pat.
Proof. intros H. unfold pattern_root. rewrite H. apply app_nil_r. Qed.

Lemma components_no_placeholder s :
  has_placeholder s = false -> Forall (fun c => has_placeholder c = false) (components s).
Proof.
  unfold has_placeholder. induction s as [|x s IH]; intros H.
  - constructor; [reflexivity|constructor].
  - cbn [existsb] in H. apply orb_false_iff in H as [Hx Hs]. specialize (IH Hs). cbn [components].
    destruct (x =? 47); [constructor; [reflexivity|exact IH]|].
    destruct (components s) as [|h t].
    + constructor; [|constructor]. cbn [existsb]. rewrite Hx. reflexivity.
    + inversion IH; subst. constructor; [|assumption]. cbn [existsb]. rewrite Hx. assumption.
Qed.

Lemma literal_effect c : has_placeholder c = false -> not_parent c -> nonclimbing c.
Proof.
  intros Hp Hn. unfold nonclimbing, comp_effect. rewrite Hp.
  destruct (comp_kind_cases c) as [K|[K|K]]; [|contradiction|]; rewrite K; auto.
Qed.

(* every sane pattern (RequireProofs.pattern_saneb: D N?S) has climb 0 *)
Lemma sane_climb0 pat : pattern_saneb pat = true -> pattern_climb pat = 0%nat.
Proof.
  unfold pattern_saneb, pattern_climb, pattern_rest. intros H.
  change (last_part (before_placeholder pat)) with (base_part (before_placeholder pat)).
  change (from_first_placeholder pat) with (from_placeholder pat).
  apply andb_true_iff in H as [Hn H]. apply negb_true_iff in Hn.
  set (n := base_part (before_placeholder pat)) in *.
  assert (Hns : noslash n) by apply base_part_noslash.
  assert (Hnp : has_placeholder n = false).
  { assert (E : has_placeholder (dir_part (before_placeholder pat) ++ n) = false).
    { unfold n. rewrite dir_base. apply before_no_placeholder. }
    unfold has_placeholder in *. rewrite existsb_app in E. apply orb_false_iff in E as [_ E]. exact E. }
  destruct (from_placeholder pat) as [|q sfx]; [discriminate|].
  destruct (Z.eqb_spec q 63) as [->|N].
  2:{ destruct q as [|p|p]; try discriminate. do 6 (destruct p as [p|p|]; try discriminate). congruence. }
  apply andb_true_iff in H as [H H3]. apply andb_true_iff in H as [H1 H2].
  apply negb_true_iff in H1. apply negb_true_iff in H3.
  apply climb_nonclimbing.
  change (n ++ 63 :: sfx) with (n ++ [63] ++ sfx). rewrite app_assoc.
  destruct (components_app (n ++ [63]) sfx) as (l & x & Hl & Hab). rewrite Hab.
  assert (Hn63 : noslash (n ++ [63])) by (apply noslash_app; [exact Hns|reflexivity]).
  rewrite (components_noslash_one _ Hn63) in Hl.
  assert (l = [] /\ x = n ++ [63]) as [-> ->].
  { destruct l as [|l0 [|l1 l2]]; [injection Hl as <-; split; reflexivity|discriminate|discriminate]. }
  cbn [app].
  pose proof (components_no_placeholder sfx H1) as Hsp.
  assert (Hsk : Forall not_parent (components sfx)).
  { apply Forall_forall. intros c Hc. rewrite forallb_forall in H2. specialize (H2 c Hc).
    apply negb_true_iff in H2. unfold not_parent. intros E. rewrite E in H2. discriminate. }
  pose proof (components_nonnil sfx) as Hnn.
  destruct (components sfx) as [|s1 t]; [congruence|]. cbn [hd tl] in *.
  inversion Hsp as [|? ? Hs1 Ht]; subst. inversion Hsk as [|? ? Hk1 Hkt]; subst.
  constructor.
  - (* the component with the placeholder: n ? s1 *)
    unfold nonclimbing, comp_effect.
    assert (Hph : has_placeholder ((n ++ [63]) ++ s1) = true).
    { unfold has_placeholder. rewrite !existsb_app. cbn. rewrite orb_true_r. reflexivity. }
    rewrite Hph, instantiate_replace, !replace_app.
    unfold has_placeholder in Hnp, Hs1. rewrite (replace_id [46] n Hnp), (replace_id [46] s1 Hs1).
    change (replace_char 63 [46] [63]) with [46].
    destruct (Z.eqb_spec (comp_kind ((n ++ [46]) ++ s1)) 1) as [K|K].
    + exfalso. apply is_dotdot_eq in K. rewrite <- app_assoc in K. cbn [app] in K.
      destruct n as [|a [|b n']]; cbn [app] in K.
      * injection K as K. subst s1. discriminate.
      * injection K as -> K. discriminate.
      * injection K as _ _ K. destruct n'; discriminate.
    + destruct ((comp_kind ((n ++ [46]) ++ s1) =? 2) && _); auto.
  - (* the literal components after it *)
    apply Forall_forall. intros c Hc. rewrite Forall_forall in Ht, Hkt.
    apply literal_effect; [apply Ht|apply Hkt]; exact Hc.
Qed.

(* RequireProofs.candidates_contained follows from the general statement *)
Lemma candidates_contained_from_general cwd file_path lua_path req p :
  require_filter_now req = true ->
  forallb pattern_saneb (split_on 59 lua_path) = true ->
  In p (require_candidates_now file_path lua_path req) ->
  exists pat, In pat (split_on 59 lua_path) /\ under cwd (pattern_dir (dirname file_path) pat) p.
Proof.
  intros Hf Hs Hin.
  destruct (candidates_contained_general cwd file_path lua_path req p Hf Hin) as (pat & Hpat & Hu).
  exists pat. split; [exact Hpat|]. rewrite forallb_forall in Hs.
  rewrite <- (pattern_root_climb0 _ pat (sane_climb0 pat (Hs pat Hpat))). exact Hu.
Qed.

(* the same for every load path whose patterns have climb 0 - a decidable condition on the pattern text that
   also admits several placeholders ( ?/?.lua  lib/?/?.lua ) *)
Definition pattern_flatb (pat : bytes) : bool := Nat.eqb (pattern_climb pat) 0.

Lemma candidates_contained_flat cwd file_path lua_path req p :
  require_filter_now req = true ->
  forallb pattern_flatb (split_on 59 lua_path) = true ->
  In p (require_candidates_now file_path lua_path req) ->
  exists pat, In pat (split_on 59 lua_path) /\ under cwd (pattern_dir (dirname file_path) pat) p.
Proof.
  intros Hf Hs Hin.
  destruct (candidates_contained_general cwd file_path lua_path req p Hf Hin) as (pat & Hpat & Hu).
  exists pat. split; [exact Hpat|]. rewrite forallb_forall in Hs.
  specialize (Hs pat Hpat). apply Nat.eqb_eq in Hs.
  rewrite <- (pattern_root_climb0 _ pat Hs). exact Hu.
Qed.

Lemma sane_flat pat : pattern_saneb pat = true -> pattern_flatb pat = true.
Proof. intros H. unfold pattern_flatb. rewrite (sane_climb0 pat H). reflexivity. Qed.

(* ------------------------------------------------------------------ where the root lies *)
Lemma root_location cwd base pat :
  locate cwd (pattern_root base pat)
  = firstn (length (locate cwd (pattern_dir base pat)) - pattern_climb pat) (locate cwd (pattern_dir base pat)).
Proof.
  rewrite !locate_stack, stack_root.
  rewrite <- (rev_involutive (stack cwd (pattern_dir base pat))) at 1.
  rewrite skipn_rev, rev_involutive. reflexivity.
Qed.

(* ------------------------------------------------------------------ what is false *)
Definition g_cwd : bytes := [47; 116].                                        (* /t *)
Definition g_main : bytes := [47; 116; 47; 119; 47; 109; 46; 108; 117; 97].  (* /t/w/m.lua *)
Definition g_base : bytes := [47; 116; 47; 119].                              (* /t/w *)

(* "every candidate lies under the directory part of its pattern" is false beyond climb 0, and the place a
   candidate reaches is not a function of the pattern and the NUMBER of components of the name:
   (a) ?? (no ".." and no "." in the pattern) with require(".") names <dir>/..
   (b) ?/../x : require("a") stays in <dir>, require(".") reaches the parent - one component each
   (c) x?../../y : require("a/b") stays in <dir>, require("a/") reaches the parent - two components each *)
Lemma natural_containment_refuted :
  (exists pat req p, require_filter_now req = true /\ contains [46] pat = false /\
     In p (require_candidates_now g_main pat req) /\ underb g_cwd (pattern_dir g_base pat) p = false)
  /\ (exists pat r1 r2 p1 p2, require_filter_now r1 = true /\ require_filter_now r2 = true /\
        length (components r1) = length (components r2) /\
        In p1 (require_candidates_now g_main pat r1) /\ In p2 (require_candidates_now g_main pat r2) /\
        underb g_cwd (pattern_dir g_base pat) p1 = true /\ underb g_cwd (pattern_dir g_base pat) p2 = false)
  /\ (exists pat r1 r2 p1 p2, require_filter_now r1 = true /\ require_filter_now r2 = true /\
        length (components r1) = 2%nat /\ length (components r2) = 2%nat /\
        In p1 (require_candidates_now g_main pat r1) /\ In p2 (require_candidates_now g_main pat r2) /\
        underb g_cwd (pattern_dir g_base pat) p1 = true /\ underb g_cwd (pattern_dir g_base pat) p2 = false).
Proof.
  split; [|split].
  - exists [63; 63], [46], [47; 116; 47; 119; 47; 46; 46].                    (* ??  "."  /t/w/.. *)
    vm_compute. repeat split; try reflexivity. left. reflexivity.
  - exists [63; 47; 46; 46; 47; 120], [97], [46],                             (* ?/../x  "a"  "." *)
      [47; 116; 47; 119; 47; 97; 47; 46; 46; 47; 120],                        (* /t/w/a/../x *)
      [47; 116; 47; 119; 47; 46; 47; 46; 46; 47; 120].                        (* /t/w/./../x *)
    vm_compute. repeat split; try reflexivity; left; reflexivity.
  - exists [120; 63; 46; 46; 47; 46; 46; 47; 121], [97; 47; 98], [97; 47],    (* x?../../y  "a/b"  "a/" *)
      [47; 116; 47; 119; 47; 120; 97; 47; 98; 46; 46; 47; 46; 46; 47; 121],   (* /t/w/xa/b../../y *)
      [47; 116; 47; 119; 47; 120; 97; 47; 46; 46; 47; 46; 46; 47; 121].       (* /t/w/xa/../../y *)
    vm_compute. repeat split; try reflexivity; left; reflexivity.
Qed.

(* the count is reached: for these patterns require(".") names a place that is NOT under the directory one
   level below the root (pattern_dir with one "../" less) *)
Definition exact_examples : list bytes :=
  [[63; 63];                                                   (* ??               climb 1 *)
   [63; 47; 46; 46; 47; 120];                                  (* ?/../x           1 *)
   [63; 47; 46; 46; 47; 63; 46; 108; 117; 97];                 (* ?/../?.lua       1 *)
   [97; 47; 63; 47; 46; 46; 47; 46; 46; 47; 63];               (* a/?/../../?      2 *)
   [63; 47; 46; 46; 47; 46; 46; 47; 120; 47; 63; 46; 108; 117; 97];   (* ?/../../x/?.lua  2 *)
   [63; 47; 63; 47; 46; 46; 47; 46; 46];                       (* ?/?/../..        2 *)
   [108; 105; 98; 47; 46; 46; 47; 46; 46]].                    (* lib/../..        1 (no placeholder) *)

Lemma pattern_root_exact_examples :
  map pattern_climb exact_examples = [1; 1; 1; 2; 2; 2; 1]%nat
  /\ forallb (fun pat =>
       match pattern_climb pat with
       | S n => negb (underb g_cwd (pattern_dir g_base pat ++ ups n) (candidate 63 g_base [46] pat))
                && underb g_cwd (pattern_root g_base pat) (candidate 63 g_base [46] pat)
       | O => false
       end) exact_examples = true.
Proof. vm_compute. split; reflexivity. Qed.

(* ------------------------------------------------------------------ names made of proper names only *)
(* for such names the kinds of the candidate's components - hence the levels it leaves and enters - are a
   function of the pattern and of the NUMBER of components of the name *)
Definition proper_name (r : bytes) : Prop :=
  valid_name r /\ Forall (fun c => comp_kind c = 2) (components r).

Lemma kinds_all2 l : Forall (fun c => comp_kind c = 2) l -> map comp_kind l = repeat 2 (length l).
Proof. induction 1 as [|c l Hc _ IH]; [reflexivity|]. cbn [map length repeat]. rewrite Hc, IH. reflexivity. Qed.

Lemma plain_component r c :
  proper_name r -> noslash c ->
  map comp_kind (components (replace_char 63 r c)) = plain_kinds (length (components r)) c.
Proof.
  intros [Hv Hk] Hc. unfold plain_kinds. destruct (has_placeholder c) eqn:Hp.
  - destruct (split_first r) as [Hn|(c1 & r' & -> & Hc1n)].
    + rewrite (components_noslash_one r Hn) in *. inversion Hk as [|? ? Hr _]; subst.
      cbn [length]. rewrite Nat.sub_diag, Nat.mul_0_r. cbn [Nat.add repeat].
      rewrite (components_noslash_one _ (replace_noslash r c Hn Hc)). cbn [map]. f_equal.
      destruct (has_placeholder_from c Hp) as (rest & Hf).
      rewrite replace_split, Hf, replace_cons_ph. apply contains_name. exact Hr.
    + rewrite components_app_slash, (components_noslash_one c1 Hc1n) in *. cbn [app] in *.
      inversion Hk as [|? ? Hc1 Hrest]; subst.
      pose proof (components_nonnil r') as Hnn.
      destruct (exists_last Hnn) as (mids & ck & E). rewrite E in *.
      apply Forall_app in Hrest as [Hm Hck]. inversion Hck as [|? ? Hck2 _]; subst.
      assert (Hckn : noslash ck).
      { pose proof (components_all_noslash r') as Ha. rewrite E in Ha. apply Forall_app in Ha as [_ Ha].
        inversion Ha; subst. assumption. }
      destruct (multi_placeholder c1 r' mids ck Hc1n E Hckn (fun x => comp_kind x = 2) Hm
                  (fun x => ends_with_name x c1 Hc1) c [] Hc eq_refl Hp) as (M & EM & HM & LM).
      cbn [app] in EM. rewrite EM.
      assert (Hall : Forall (fun x => comp_kind x = 2) ((before_placeholder c ++ c1) :: M ++ [ck ++ after_last_placeholder c])).
      { constructor; [apply ends_with_name; exact Hc1|]. apply Forall_app. split; [exact HM|].
        constructor; [|constructor]. apply (contains_name [] ck). exact Hck2. }
      rewrite (kinds_all2 _ Hall). f_equal. cbn [length]. rewrite !app_length. cbn [length].
      replace (S (length mids + 1) - 1)%nat with (S (length mids)) by lia. rewrite <- LM. lia.
  - unfold has_placeholder in Hp. rewrite replace_id by exact Hp. rewrite (components_noslash_one c Hc). reflexivity.
Qed.

Lemma plain_components r cs :
  proper_name r -> Forall noslash cs ->
  map comp_kind (flat_map (fun c => components (replace_char 63 r c)) cs)
  = flat_map (plain_kinds (length (components r))) cs.
Proof.
  intros Hr. induction 1 as [|c cs Hc _ IH]; [reflexivity|].
  cbn [flat_map]. rewrite map_app, IH, (plain_component r c Hr Hc). reflexivity.
Qed.

(* a walk is determined by the kinds of its components: m levels of S0 left, h names on top *)
Lemma walk_profile S0 : forall cs m ext,
  exists ext', walk (ext ++ skipn m S0) cs = ext' ++ skipn (fst (profile m (length ext) (map comp_kind cs))) S0
               /\ length ext' = snd (profile m (length ext) (map comp_kind cs)).
Proof.
  induction cs as [|c cs IH]; intros m ext.
  - exists ext. split; reflexivity.
  - rewrite walk_step. cbn [map profile].
    destruct (comp_kind_cases c) as [K|[K|K]]; rewrite K; cbn [Z.eqb Pos.eqb].
    + apply IH.
    + destruct ext as [|e ext']; cbn [app tl length].
      * rewrite tl_skipn. apply (IH (S m) []).
      * apply IH.
    + apply (IH m (c :: ext)).
Qed.

Section Plain.
Variable cwd : bytes.

Lemma plain_candidate_stack base pat req :
  proper_name req ->
  exists ext,
    stack cwd (candidate 63 base req pat)
    = ext ++ skipn (fst (plain_profile pat (length (components req)))) (stack cwd (pattern_dir base pat))
    /\ length ext = snd (plain_profile pat (length (components req))).
Proof.
  intros Hr. pose proof Hr as [(Hne & Hrel & _ & _) _].
  rewrite candidate_stack, candidate_tail_rest, components_replace by assumption.
  unfold plain_profile. rewrite <- (plain_components req _ Hr (components_all_noslash _)).
  apply (walk_profile (stack cwd (pattern_dir base pat)) _ 0 []).
Qed.

(* the location of the candidate: the location of pattern_dir without its last m names, then h names *)
Lemma plain_candidate_location base pat req :
  require_filter_now req = true -> Forall (fun c => comp_kind c = 2) (components req) ->
  let D := locate cwd (pattern_dir base pat) in
  let mh := plain_profile pat (length (components req)) in
  exists names, locate cwd (candidate 63 base req pat) = firstn (length D - fst mh) D ++ names
                /\ length names = snd mh.
Proof.
  intros Hf Hk D mh.
  destruct (plain_candidate_stack base pat req (conj (filter_valid_name req Hf) Hk)) as (ext & E & L).
  exists (rev ext). split; [|rewrite rev_length; exact L].
  unfold D. rewrite !locate_stack, E, rev_app_distr. f_equal.
  rewrite <- (rev_involutive (stack cwd (pattern_dir base pat))) at 1.
  rewrite skipn_rev, rev_involutive. reflexivity.
Qed.
End Plain.

(* ---- packaged statements for Properties/C12.v ---- *)
Lemma candidate_under_root_now cwd base pat req :
  require_filter_now req = true ->
  under cwd (pattern_root base pat) (candidate 63 base req pat).
Proof. intros H. apply candidate_under_root, filter_valid_name, H. Qed.

Lemma sane_climb0_root pat :
  pattern_saneb pat = true -> pattern_climb pat = 0%nat /\ forall base, pattern_root base pat = pattern_dir base pat.
Proof. intros H. split; [|intros base; apply pattern_root_climb0]; apply sane_climb0, H. Qed.
