(* Whole-output consequences of the run theorems, for a writer whose output is a list of chunks
   (Model/WriterChunks.v: one Trivia chunk per _get_code_for_spaces call, one Code chunk per token the
   cursor passes) rendered with W = fmt_spaces w (LuaFormatterWriter with indentwidth w).

   Nothing here depends on the walk itself: the walk (Model/AstWriter.v, worker parser) supplies the
   chunk list and the facts assumed below about it:
     separated  - two white-space runs are never adjacent (a run is consumed by one call; the other
                  calls at the same cursor see an empty run)
     codes_ok   - a code token's text is not empty, does not begin with a line feed and does not end
                  in a blank or a line feed
   and, for C10_indent, that the indent passed with a token's white-space run is the token's
   syntactic depth. *)
From PV Require Import Base.Prelude Spec.LuaTokens Model.FmtSpaces Model.FmtSpacesInst Model.WriterChunks
  Proofs.FmtSpacesProofs Proofs.FmtLinesProofs.
From Coq Require Import Lia.

Lemma fmt_run_nil cfg : fmt_run cfg [] = [].
Proof. apply fmt_run_empty. Qed.

Lemma fmt_spaces_nil w s ind e : fmt_spaces w s ind e [] = [].
Proof. unfold fmt_spaces, run_code. cbn [map concat]. apply fmt_run_nil. Qed.

(* ---------- only white space moves, at the level of token runs and of whole chunk lists ---------- *)
Lemma fmt_spaces_nonws w s ind e run : nonws (fmt_spaces w s ind e run) = nonws (run_code run).
Proof. unfold fmt_spaces. apply fmt_run_nonws. Qed.

Lemma run_code_flat_map run : run_code run = flat_map tcode run.
Proof. unfold run_code. rewrite flat_map_concat_map. reflexivity. Qed.

(* the formatter's output and the echo writer's output (the source text of the tokens walked) have the same
   bytes outside white space, in the same order: luafmt changes only white space *)
Theorem chunks_fmt_vs_echo_nonws w cs :
  nonws (chunks_text (fmt_spaces w) cs) = nonws (chunks_text echo_spaces cs).
Proof.
  unfold chunks_text. induction cs as [|c cs IH]; [reflexivity|]. cbn [flat_map]. rewrite !nonws_app, IH. f_equal.
  destruct c as [s ind e run | i text]; cbn [chunk_text]; [|reflexivity].
  unfold echo_spaces. rewrite fmt_spaces_nonws, run_code_flat_map. reflexivity.
Qed.

(* ---------- edges of a text ---------- *)
Definition ends_code (t : list Z) : Prop := exists t' c, t = t' ++ [c] /\ c <> SP /\ c <> NL.

(* a code token's text *)
Definition code_ok (text : list Z) : Prop := starts_nl text = false /\ ends_code text.

Definition codes_ok (cs : list chunk) : Prop := forall i text, In (Code i text) cs -> code_ok text.

(* was the last thing written a (non-empty) white-space run? *)
Fixpoint after_trivia (b : bool) (A : list chunk) : bool :=
  match A with
  | [] => b
  | Trivia _ _ _ [] :: r => after_trivia b r
  | Trivia _ _ _ (_ :: _) :: r => after_trivia true r
  | Code _ _ :: r => after_trivia false r
  end.

Definition separated (cs : list chunk) : Prop :=
  forall A s ind e t ts B, cs = A ++ Trivia s ind e (t :: ts) :: B -> after_trivia false A = false.

(* the indent passed with the last non-empty run *)
Fixpoint last_ind (acc : option Z) (A : list chunk) : option Z :=
  match A with
  | [] => acc
  | Trivia _ ind _ (_ :: _) :: r => last_ind (Some ind) r
  | _ :: r => last_ind acc r
  end.

Definition no_end (A : list chunk) : Prop := forall s ind r, ~ In (Trivia s ind true r) A.

Lemma after_trivia_app b A B : after_trivia b (A ++ B) = after_trivia (after_trivia b A) B.
Proof.
  revert b. induction A as [|c A IH]; intros b; [reflexivity|]. destruct c as [s ind e [|t ts] | i text]; cbn; apply IH.
Qed.

Lemma last_ind_app acc A B : last_ind acc (A ++ B) = last_ind (last_ind acc A) B.
Proof.
  revert acc. induction A as [|c A IH]; intros acc; [reflexivity|].
  destruct c as [s ind e [|t ts] | i text]; cbn; apply IH.
Qed.

Lemma chunks_text_app W A B : chunks_text W (A ++ B) = chunks_text W A ++ chunks_text W B.
Proof. unfold chunks_text. apply flat_map_app. Qed.

Lemma chunks_text_one W c : chunks_text W [c] = chunk_text W c.
Proof. unfold chunks_text. cbn. apply app_nil_r. Qed.

(* ---------- the text after the last line feed ---------- *)
Definition lastline (t : list Z) : list Z := last (split_nl t) [].

Lemma lastline_nl p q : noNL q -> lastline (p ++ NL :: q) = q.
Proof.
  intros H. unfold lastline. rewrite split_nl_app_nl, (split_nl_noNL_line q H). apply last_last.
Qed.

Lemma split_nl_app_noNL t o : noNL o ->
  split_nl (t ++ o) = removelast (split_nl t) ++ [last (split_nl t) [] ++ o].
Proof.
  intros Ho. induction t as [|c t IH].
  - cbn [app split_nl removelast last]. apply split_nl_noNL_line. exact Ho.
  - cbn [app split_nl]. destruct (c =? NL).
    + rewrite IH. destruct (split_nl t) as [|l ls] eqn:E; [destruct (split_nl_nonempty _ E)|].
      change (removelast ([] :: l :: ls)) with ([] :: removelast (l :: ls)).
      change (last ([] :: l :: ls) []) with (last (l :: ls) []). reflexivity.
    + rewrite IH. destruct (split_nl t) as [|l ls] eqn:E; [destruct (split_nl_nonempty _ E)|].
      destruct ls as [|l2 ls].
      * reflexivity.
      * change (removelast ((c :: l) :: l2 :: ls)) with ((c :: l) :: removelast (l2 :: ls)).
        change (removelast (l :: l2 :: ls)) with (l :: removelast (l2 :: ls)).
        change (last ((c :: l) :: l2 :: ls) []) with (last (l2 :: ls) []).
        change (last (l :: l2 :: ls) []) with (last (l2 :: ls) []). reflexivity.
Qed.

Lemma lastline_app_noNL t o : noNL o -> lastline (t ++ o) = lastline t ++ o.
Proof. intros H. unfold lastline. rewrite (split_nl_app_noNL t o H). apply last_last. Qed.

Lemma last_nl_split o : In NL o -> exists p q, o = p ++ NL :: q /\ noNL q.
Proof.
  induction o as [|c o IH]; intros H; [destruct H|].
  destruct (in_dec Z.eq_dec NL o) as [Hin | Hnot].
  - destruct (IH Hin) as (p & q & -> & Hq). exists (c :: p), q. split; [reflexivity | exact Hq].
  - destruct H as [-> | H]; [|contradiction]. exists [], o. split; [reflexivity|].
    unfold noNL. apply Forall_forall. intros x Hx ->. contradiction.
Qed.

Lemma noNL_or_in o : noNL o \/ In NL o.
Proof.
  destruct (in_dec Z.eq_dec NL o) as [H | H]; [right; exact H | left].
  unfold noNL. apply Forall_forall. intros x Hx ->. contradiction.
Qed.

Lemma all_sp_app a b : forallb is_sp (a ++ b) = forallb is_sp a && forallb is_sp b.
Proof. apply forallb_app. Qed.

(* ====================================================================== a token that begins a line *)
Section Chunks.
Variable w : Z.
Notation W := (fmt_spaces w).

Lemma chunk_lines_inv cs : separated cs -> codes_ok cs ->
  forall A B, cs = A ++ B -> no_end A ->
  let t := chunks_text W A in
  (after_trivia false A = false -> t = [] \/ ends_code t) /\
  (forall p q, t = p ++ NL :: q -> noNL q -> forallb is_sp q = true ->
     exists ind, last_ind None A = Some ind /\ q = repeat SP (Z.to_nat w * Z.to_nat ind)).
Proof.
  intros Hsep Hok. induction A as [|c A IH] using rev_ind; intros B Hcs Hne.
  - cbn. split; [intros _; left; reflexivity|]. intros p q H. destruct p; discriminate.
  - rewrite <- app_assoc in Hcs. cbn [app] in Hcs.
    assert (HneA : no_end A).
    { intros s ind r Hin. apply (Hne s ind r). apply in_or_app. left. exact Hin. }
    destruct (IH (c :: B) Hcs HneA) as [IHa IHb]. clear IH.
    rewrite chunks_text_app, chunks_text_one, after_trivia_app, last_ind_app.
    set (t := chunks_text W A) in *.
    destruct c as [s ind e [|x run] | i text].
    + (* an empty run *)
      cbn [chunk_text after_trivia last_ind]. rewrite fmt_spaces_nil, app_nil_r. split; assumption.
    + (* a white-space run *)
      cbn [chunk_text after_trivia last_ind].
      assert (Hb : after_trivia false A = false) by (apply (Hsep A s ind e x run B); exact Hcs).
      assert (He : e = false).
      { destruct e; [|reflexivity]. exfalso. apply (Hne s ind (x :: run)). apply in_or_app. right. left. reflexivity. }
      subst e. split; [discriminate|]. intros p q Ht Hq Hsp.
      set (o := fmt_spaces w s ind false (x :: run)) in *.
      destruct (noNL_or_in o) as [Ho | Ho].
      * (* the line feed is older than this run: impossible, a code token ended the text before *)
        exfalso.
        assert (Hin : In NL (t ++ o)) by (rewrite Ht; apply in_or_app; right; left; reflexivity).
        apply in_app_or in Hin. destruct Hin as [Hin | Hin].
        2:{ unfold noNL in Ho. rewrite Forall_forall in Ho. exact (Ho NL Hin eq_refl). }
        apply (f_equal lastline) in Ht. rewrite lastline_nl in Ht by exact Hq.
        rewrite lastline_app_noNL in Ht by exact Ho.
        destruct (IHa Hb) as [Et | (t' & c0 & Et & Hc1 & Hc2)]; [rewrite Et in Hin; destruct Hin|].
        rewrite Et in Ht. unfold lastline in Ht. rewrite (split_nl_app_noNL t' [c0]) in Ht.
        2:{ repeat constructor. exact Hc2. }
        rewrite last_last in Ht. subst q. rewrite !all_sp_app in Hsp.
        apply andb_true_iff in Hsp. destruct Hsp as [Hsp _]. apply andb_true_iff in Hsp. destruct Hsp as [_ Hsp].
        cbn in Hsp. rewrite andb_true_r in Hsp. unfold is_sp in Hsp. apply Z.eqb_eq in Hsp. contradiction.
      * destruct (last_nl_split o Ho) as (p2 & q2 & Eo & Hq2).
        assert (Eq : q = q2).
        { apply (f_equal lastline) in Ht. rewrite lastline_nl in Ht by exact Hq.
          rewrite Eo, app_assoc, lastline_nl in Ht by exact Hq2. symmetry. exact Ht. }
        subst q2. exists ind. split; [reflexivity|].
        unfold o, fmt_spaces in Eo.
        pose proof (fmt_run_indent (mk_fcfg (s =? 0) false w ind) (run_code (x :: run)) p2 q eq_refl Eo Hq Hsp) as Hi.
        exact Hi.
    + (* a code token *)
      cbn [chunk_text after_trivia last_ind].
      assert (Hc : code_ok text).
      { apply (Hok i text). rewrite Hcs. apply in_or_app. right. left. reflexivity. }
      destruct Hc as [_ (t' & c0 & Et & Hc1 & Hc2)].
      split.
      * intros _. right. exists (t ++ t'), c0. rewrite Et, app_assoc. auto.
      * intros p q Ht Hq Hsp. exfalso. rewrite Et, app_assoc in Ht.
        destruct q as [|cq q'] using rev_ind.
        -- change (p ++ [NL]) with (p ++ [NL]) in Ht. apply app_inj_tail in Ht. destruct Ht as [_ Ht]. contradiction.
        -- clear IHq'. change (p ++ NL :: q' ++ [cq]) with (p ++ (NL :: q') ++ [cq]) in Ht.
           rewrite app_assoc in Ht. apply app_inj_tail in Ht. destruct Ht as [_ Ht]. subst cq.
           rewrite all_sp_app in Hsp. apply andb_true_iff in Hsp. destruct Hsp as [_ Hsp]. cbn in Hsp.
           rewrite andb_true_r in Hsp. unfold is_sp in Hsp. apply Z.eqb_eq in Hsp. contradiction.
Qed.


(* a code token that begins a line (after a line feed) is preceded by exactly
   indentwidth x (the indent passed with the last white-space run before it) spaces *)
Theorem chunks_token_indent cs A i text B p q :
  cs = A ++ Code i text :: B -> separated cs -> codes_ok cs -> no_end A ->
  chunks_text W A = p ++ NL :: q -> noNL q -> forallb is_sp q = true ->
  exists ind, last_ind None A = Some ind /\ q = repeat SP (Z.to_nat w * Z.to_nat ind).
Proof.
  intros Hcs Hsep Hok Hne Ht Hq Hsp.
  destruct (chunk_lines_inv cs Hsep Hok A (Code i text :: B) Hcs Hne) as [_ H]. exact (H p q Ht Hq Hsp).
Qed.

(* the first line of the file: a token that begins it sits at column 0 *)
Lemma fmt_run_first_line cfg r : f_at_start cfg = true ->
  noNL (fmt_run cfg r) -> forallb is_sp (fmt_run cfg r) = true -> fmt_run cfg r = [].
Proof.
  intros Ha Hn Hsp.
  destruct (split_nl (canon_ws r)) as [|l0 ls] eqn:HS; [destruct (split_nl_nonempty _ HS)|].
  rewrite (fmt_run_lines cfg r l0 ls HS) in *.
  destruct (f_at_end cfg).
  - destruct (trail_nl_spec (joinl (fmt_lines cfg l0 ls))) as [[_ E] | (a & c & b & _ & Hc & _ & E)]; rewrite E in *.
    + destruct (existsb is_nl _); [|reflexivity]. exfalso. inversion Hn; subst. congruence.
    + exfalso. rewrite all_sp_app in Hsp. apply andb_true_iff in Hsp. destruct Hsp as [_ Hsp]. cbn [forallb] in Hsp.
      apply andb_true_iff in Hsp. destruct Hsp as [Hsp _]. unfold is_sp in Hsp. unfold is_sp_nl in Hc.
      rewrite Hsp in Hc. discriminate.
  - unfold fmt_lines in *. rewrite Ha in *.
    destruct (sq (fmt_tail cfg ls)) as [|x y] eqn:ES.
    + cbn [joinl flat concat map] in *. rewrite app_nil_r in *.
      assert (Et : fmt_tail cfg ls = []).
      { pose proof (is_nil_sq (fmt_tail cfg ls)) as N. rewrite ES in N. destruct (fmt_tail cfg ls); [reflexivity | discriminate]. }
      rewrite Et in *. unfold dollar_head in *. cbn [is_nil orb] in *. rewrite andb_true_r in *.
      destruct (forallb is_sp (fmt_head cfg l0 ls)) eqn:F; [reflexivity | congruence].
    + exfalso. cbn [joinl] in Hn. rewrite flat_cons in Hn. unfold noNL in Hn. apply Forall_app in Hn.
      destruct Hn as [_ Hn]. inversion Hn; subst. congruence.
Qed.

Theorem chunks_first_line cs A B : cs = A ++ B -> codes_ok cs ->
  (forall s ind e r, In (Trivia s ind e r) A -> r <> [] -> s = 0) ->
  noNL (chunks_text W A) -> forallb is_sp (chunks_text W A) = true -> chunks_text W A = [].
Proof.
  intros Hcs Hok. revert B Hcs. induction A as [|c A IH] using rev_ind; intros B Hcs H0 Hn Hsp; [reflexivity|].
  rewrite chunks_text_app, chunks_text_one in *. rewrite all_sp_app in Hsp. apply andb_true_iff in Hsp.
  destruct Hsp as [Hs1 Hs2]. unfold noNL in Hn. apply Forall_app in Hn. destruct Hn as [Hn1 Hn2].
  rewrite <- app_assoc in Hcs.
  assert (EA : chunks_text W A = []).
  { apply (IH (c :: B) Hcs); [|exact Hn1 | exact Hs1].
    intros s ind e r Hin Hr. apply (H0 s ind e r); [apply in_or_app; left; exact Hin | exact Hr]. }
  rewrite EA. cbn [app]. destruct c as [s ind e [|x run] | i text].
  - apply fmt_spaces_nil.
  - assert (s = 0) as -> by (apply (H0 s ind e (x :: run)); [apply in_or_app; right; left; reflexivity | discriminate]).
    cbn [chunk_text] in *. unfold fmt_spaces in *. apply fmt_run_first_line; [reflexivity | exact Hn2 | exact Hs2].
  - exfalso. cbn [chunk_text] in *.
    assert (Hc : code_ok text) by (apply (Hok i text); rewrite Hcs; apply in_or_app; right; left; reflexivity).
    destruct Hc as [_ (t' & c0 & -> & Hc1 & Hc2)]. rewrite all_sp_app in Hs2. apply andb_true_iff in Hs2.
    destruct Hs2 as [_ Hs2]. cbn in Hs2. rewrite andb_true_r in Hs2. unfold is_sp in Hs2. apply Z.eqb_eq in Hs2. contradiction.
Qed.

(* ====================================================================== no trailing blanks, no double blank lines *)
Lemma ends_code_ends_sp t : ends_code t -> ends_sp t = false.
Proof.
  intros (t' & c & -> & Hc & _). rewrite ends_sp_app by discriminate. cbn. apply Z.eqb_neq. exact Hc.
Qed.

Lemma has3nl_after_code a c b : c <> NL -> has3nl ((a ++ [c]) ++ b) = has3nl (a ++ [c]) || has3nl b.
Proof.
  intros Hc. apply Z.eqb_neq in Hc. induction a as [|x a IH].
  - cbn [app]. rewrite (has3nl_nonNL c b) by (apply Z.eqb_neq; exact Hc). reflexivity.
  - destruct a as [|y1 a'].
    + cbn [app] in *. destruct b as [|e b'].
      * reflexivity.
      * change (has3nl [x; c]) with false. cbn [orb].
        change (has3nl (x :: c :: e :: b')) with (((x =? NL) && (c =? NL) && (e =? NL)) || has3nl (c :: e :: b')).
        rewrite Hc, andb_false_r. cbn [andb orb]. exact IH.
    + destruct a' as [|z1 a''].
      * cbn [app] in *. change (has3nl [x; y1; c]) with (((x =? NL) && (y1 =? NL) && (c =? NL)) || has3nl [y1; c]).
        change (has3nl (x :: y1 :: c :: b)) with (((x =? NL) && (y1 =? NL) && (c =? NL)) || has3nl (y1 :: c :: b)).
        rewrite IH. rewrite orb_assoc. reflexivity.
      * cbn [app] in *.
        change (has3nl (x :: y1 :: z1 :: (a'' ++ [c]) ++ b)) with (((x =? NL) && (y1 =? NL) && (z1 =? NL)) || has3nl (y1 :: z1 :: (a'' ++ [c]) ++ b)).
        change (has3nl (x :: y1 :: z1 :: a'' ++ [c])) with (((x =? NL) && (y1 =? NL) && (z1 =? NL)) || has3nl (y1 :: z1 :: a'' ++ [c])).
        rewrite IH. rewrite orb_assoc. reflexivity.
Qed.

Lemma has3nl_before_code a c b : c <> NL -> has3nl (a ++ c :: b) = has3nl a || has3nl (c :: b).
Proof.
  intros Hc. pose proof Hc as Hc'. apply Z.eqb_neq in Hc. induction a as [|x a IH].
  - reflexivity.
  - destruct a as [|y1 a'].
    + cbn [app] in *. destruct b as [|e b'].
      * reflexivity.
      * change (has3nl (x :: c :: e :: b')) with (((x =? NL) && (c =? NL) && (e =? NL)) || has3nl (c :: e :: b')).
        rewrite Hc, andb_false_r. reflexivity.
    + destruct a' as [|z1 a''].
      * cbn [app] in *.
        change (has3nl (x :: y1 :: c :: b)) with (((x =? NL) && (y1 =? NL) && (c =? NL)) || has3nl (y1 :: c :: b)).
        rewrite Hc, andb_false_r. cbn [orb]. rewrite IH. reflexivity.
      * cbn [app] in *.
        change (has3nl (x :: y1 :: z1 :: a'' ++ c :: b)) with (((x =? NL) && (y1 =? NL) && (z1 =? NL)) || has3nl (y1 :: z1 :: a'' ++ c :: b)).
        change (has3nl (x :: y1 :: z1 :: a'')) with (((x =? NL) && (y1 =? NL) && (z1 =? NL)) || has3nl (y1 :: z1 :: a'')).
        rewrite IH. rewrite orb_assoc. reflexivity.
Qed.

(* outside code tokens no line ends in a blank and there are never two blank lines in a row:
   the only places where "space, line feed" or three line feeds can occur are inside a code token
   (a long string) *)
Theorem chunks_shape cs : separated cs -> codes_ok cs ->
  (forall i text, In (Code i text) cs -> has_sp_nl text = false /\ has3nl text = false) ->
  has_sp_nl (chunks_text W cs) = false /\ has3nl (chunks_text W cs) = false.
Proof.
  intros Hsep Hok Hin.
  assert (G : forall A B, cs = A ++ B ->
              let t := chunks_text W A in
              has_sp_nl t = false /\ has3nl t = false /\
              (after_trivia false A = false -> t = [] \/ ends_code t)).
  { induction A as [|c A IH] using rev_ind; intros B Hcs.
    - cbn. repeat split; auto.
    - rewrite <- app_assoc in Hcs. cbn [app] in Hcs. destruct (IH (c :: B) Hcs) as (I1 & I2 & I3). clear IH.
      rewrite chunks_text_app, chunks_text_one, after_trivia_app.
      set (t := chunks_text W A) in *.
      destruct c as [s ind e [|x run] | i text].
      + cbn [chunk_text after_trivia]. rewrite fmt_spaces_nil, app_nil_r. repeat split; assumption.
      + cbn [chunk_text after_trivia].
        assert (Hb : after_trivia false A = false) by (apply (Hsep A s ind e x run B); exact Hcs).
        set (o := fmt_spaces w s ind e (x :: run)).
        assert (O1 : has_sp_nl o = false) by apply fmt_run_no_trailing_blank.
        assert (O2 : has3nl o = false) by apply fmt_run_blank_lines.
        split; [|split; [|discriminate]].
        * rewrite has_sp_nl_app, I1, O1. cbn [orb].
          destruct (I3 Hb) as [-> | He]; [reflexivity|]. rewrite (ends_code_ends_sp t He). reflexivity.
        * destruct (I3 Hb) as [Et | (t' & c0 & Et & _ & Hc)]; [rewrite Et; exact O2|].
          rewrite Et. rewrite has3nl_after_code by exact Hc. rewrite <- Et, I2, O2. reflexivity.
      + cbn [chunk_text after_trivia].
        assert (HI : In (Code i text) cs) by (rewrite Hcs; apply in_or_app; right; left; reflexivity).
        destruct (Hok i text HI) as [Hs (t' & c0 & Et & Hc1 & Hc2)]. destruct (Hin i text HI) as [T1 T2].
        split; [|split].
        * rewrite has_sp_nl_app, I1, T1, Hs, andb_false_r. reflexivity.
        * destruct text as [|c1 text']; [destruct t'; discriminate|]. cbn [starts_nl] in Hs.
          rewrite has3nl_before_code by (apply Z.eqb_neq; exact Hs). rewrite I2, T2. reflexivity.
        * intros _. right. exists (t ++ t'), c0. rewrite Et, app_assoc. auto. }
  destruct (G cs [] (eq_sym (app_nil_r cs))) as (H1 & H2 & _). split; assumption.
Qed.


(* ====================================================================== re-indentation *)
(* two chunks that differ at most in blanks at the edges of the lines of a white-space run *)
Definition chunk_equiv (c1 c2 : chunk) : Prop :=
  match c1, c2 with
  | Trivia s1 i1 e1 r1, Trivia s2 i2 e2 r2 =>
    (s1 =? 0) = (s2 =? 0) /\ i1 = i2 /\ e1 = e2 /\
    strip_line_edges (s1 =? 0) (canon_ws (run_code r1)) = strip_line_edges (s1 =? 0) (canon_ws (run_code r2))
  | Code _ t1, Code _ t2 => t1 = t2
  | _, _ => False
  end.

Theorem chunks_reindent cs1 cs2 : Forall2 chunk_equiv cs1 cs2 -> chunks_text W cs1 = chunks_text W cs2.
Proof.
  induction 1 as [|c1 c2 r1 r2 Hc _ IH]; [reflexivity|]. unfold chunks_text in *. cbn [flat_map]. rewrite IH. f_equal.
  destruct c1 as [s1 i1 e1 x1 | j1 t1], c2 as [s2 i2 e2 x2 | j2 t2]; cbn in Hc; try contradiction.
  - destruct Hc as (Hs & -> & -> & Hn). cbn [chunk_text]. unfold fmt_spaces. rewrite <- Hs.
    apply fmt_run_depends_on_norm. exact Hn.
  - subst. reflexivity.
Qed.

End Chunks.
