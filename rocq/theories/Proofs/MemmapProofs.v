From PV Require Import Base.Prelude Base.ListX Base.PySlice Generated.K_game Model.Memmap Spec.FlatMem.
From Coq Require Import ZifyBool.

(* pointwise description of "the bytes of [old], which sit at addresses base.., after
   writing [data] at address [s]" *)
Definition upd_spec (base s : Z) (data old new : list Z) : Prop :=
  length new = length old /\
  forall k, (k < length old)%nat ->
    nth_error new k =
    if (s <=? base + Z.of_nat k) && (base + Z.of_nat k <? s + zlen data)
    then nth_error data (Z.to_nat (base + Z.of_nat k - s))
    else nth_error old k.

Lemma upd_spec_unique base s data old n1 n2 :
  upd_spec base s data old n1 -> upd_spec base s data old n2 -> n1 = n2.
Proof.
  intros [L1 H1] [L2 H2]. apply nth_error_ext. intros k.
  destruct (Nat.ltb_spec k (length old)) as [Hk|Hk].
  - rewrite H1, H2 by assumption. reflexivity.
  - transitivity (@None Z); [|symmetry]; apply nth_error_None; lia.
Qed.

Lemma upd_spec_app base s data o1 n1 o2 n2 :
  upd_spec base s data o1 n1 -> upd_spec (base + zlen o1) s data o2 n2 ->
  upd_spec base s data (o1 ++ o2) (n1 ++ n2).
Proof.
  intros [L1 H1] [L2 H2]. split.
  - rewrite !app_length. lia.
  - intros k Hk. rewrite app_length in Hk. rewrite !nth_error_app, L1.
    destruct (Nat.ltb_spec k (length o1)) as [Hlt|Hge].
    + apply H1. exact Hlt.
    + rewrite H2 by lia. unfold zlen.
      replace (base + Z.of_nat (length o1) + Z.of_nat (k - length o1)) with (base + Z.of_nat k) by lia.
      reflexivity.
Qed.

Lemma upd_spec_nil base s data : upd_spec base s data [] [].
Proof. split; [reflexivity|]. intros k Hk. cbn in Hk. lia. Qed.

Lemma upd_spec_flat_write s data old :
  0 <= s -> s + zlen data <= zlen old ->
  upd_spec 0 s data old (flat_write old s data).
Proof.
  intros Hs He. unfold upd_spec, flat_write, zlen in *. split.
  - rewrite !app_length, firstn_length, skipn_length. lia.
  - intros k Hk. rewrite !nth_error_app, firstn_length.
    rewrite Nat.min_l by lia.
    destruct (Nat.ltb_spec k (Z.to_nat s)) as [H1|H1].
    + rewrite nth_error_firstn by exact H1.
      destruct ((s <=? 0 + Z.of_nat k) && (0 + Z.of_nat k <? s + Z.of_nat (length data))) eqn:E; [lia|reflexivity].
    + destruct (Nat.ltb_spec (k - Z.to_nat s) (length data)) as [H2|H2].
      * destruct ((s <=? 0 + Z.of_nat k) && (0 + Z.of_nat k <? s + Z.of_nat (length data))) eqn:E; [|lia].
        f_equal. lia.
      * destruct ((s <=? 0 + Z.of_nat k) && (0 + Z.of_nat k <? s + Z.of_nat (length data))) eqn:E; [lia|].
        rewrite nth_error_skipn. f_equal. lia.
Qed.

(* one memmap row: the code's slice arithmetic implements the pointwise spec *)
Lemma wcd_row_spec s data lo hi sec :
  0 <= s -> 0 <= lo <= hi -> zlen sec = hi - lo ->
  upd_spec lo s data sec
    (if wcd_skip s (zlen data) lo hi then sec else wcd_region_update s data lo hi sec).
Proof.
  intros Hs Hr Hlen.
  pose proof (zlen_nonneg data) as Hn.
  destruct (wcd_skip s (zlen data) lo hi) eqn:Eskip.
  - (* skipped: no address of the region is written *)
    split; [reflexivity|]. intros k Hk. unfold wcd_skip in Eskip. unfold zlen in *.
    destruct ((s <=? lo + Z.of_nat k) && (lo + Z.of_nat k <? s + Z.of_nat (length data))) eqn:E; [lia|reflexivity].
  - unfold wcd_skip in Eskip. unfold wcd_region_update.
    set (n := zlen data) in *.
    set (ds := wcd_data_start s lo). set (de := wcd_data_end s n lo hi).
    set (ts := wcd_text_start s lo). set (te := wcd_text_end s n hi).
    assert (Hds : ds = Z.max 0 (s - lo)).
    { subst ds. unfold wcd_data_start. destruct (s >? lo) eqn:E; lia. }
    assert (Hde : de = Z.min (s + n - lo) (hi - lo)).
    { subst de. unfold wcd_data_end. destruct (s + n <? hi) eqn:E; lia. }
    assert (Hts : ts = Z.max 0 (lo - s)).
    { subst ts. unfold wcd_text_start. destruct (s >? lo) eqn:E; lia. }
    assert (Hte : te = Z.min n (hi - s)).
    { subst te. unfold wcd_text_end. destruct (s + n <? hi) eqn:E; lia. }
    assert (Hb1 : 0 <= ds <= de) by lia.
    assert (Hb2 : de <= zlen sec) by lia.
    assert (Hb3 : 0 <= ts <= te) by lia.
    assert (Hb4 : te <= zlen data) by (fold n; lia).
    assert (Hsl : zlen (py_slice data ts te) = de - ds).
    { rewrite py_slice_length by assumption. lia. }
    split.
    + pose proof (py_setslice_length sec (py_slice data ts te) ds de Hb1 Hb2 Hsl) as HL.
      unfold zlen in HL. lia.
    + intros k Hk.
      rewrite (py_setslice_nth_error sec _ ds de k Hb1 Hb2 Hsl).
      unfold zlen in Hlen.
      destruct (Z.of_nat k <? ds) eqn:E1.
      * destruct ((s <=? lo + Z.of_nat k) && (lo + Z.of_nat k <? s + zlen data)) eqn:E; [fold n in E; lia|reflexivity].
      * destruct (Z.of_nat k <? de) eqn:E2.
        -- destruct ((s <=? lo + Z.of_nat k) && (lo + Z.of_nat k <? s + zlen data)) eqn:E; [|fold n in E; lia].
           rewrite py_slice_nth_error by (try assumption; lia).
           f_equal. lia.
        -- destruct ((s <=? lo + Z.of_nat k) && (lo + Z.of_nat k <? s + zlen data)) eqn:E; [fold n in E; lia|reflexivity].
Qed.

(* the regenerated memmap is the PICO-8 memory map (pin: recomputed on every run) *)
Lemma wcd_rows_pin :
  wcd_rows = [(0, 8192, 0); (8192, 12288, 1); (12288, 12544, 2); (12544, 12800, 3); (12800, 17152, 4)].
Proof. vm_compute. reflexivity. Qed.

Lemma write_cart_data_ok st data addr :
  wf_regions st -> 0 <= addr -> addr + zlen data <= data_end ->
  exists st', write_cart_data st data addr = Ok st' /\ wf_regions st' /\
              flat st' = flat_write (flat st) addr data.
Proof.
  intros Hwf Ha He. unfold wf_regions, region_sizes in Hwf.
  destruct st as [|g [|m [|f [|mu [|sf [|x rest]]]]]]; try discriminate Hwf.
  cbn [map] in Hwf. injection Hwf as Lg Lm Lf Lmu Lsf.
  unfold write_cart_data, data_end in *.
  assert (Hg : wcd_guard addr (zlen data) = false) by (unfold wcd_guard; lia).
  rewrite Hg, wcd_rows_pin.
  cbn [fold_left wcd_row].
  pose proof (wcd_row_spec addr data 0 8192 g Ha ltac:(lia) ltac:(lia)) as S0.
  pose proof (wcd_row_spec addr data 8192 12288 m Ha ltac:(lia) ltac:(lia)) as S1.
  pose proof (wcd_row_spec addr data 12288 12544 f Ha ltac:(lia) ltac:(lia)) as S2.
  pose proof (wcd_row_spec addr data 12544 12800 mu Ha ltac:(lia) ltac:(lia)) as S3.
  pose proof (wcd_row_spec addr data 12800 17152 sf Ha ltac:(lia) ltac:(lia)) as S4.
  set (g' := if wcd_skip addr (zlen data) 0 8192 then g else wcd_region_update addr data 0 8192 g) in *.
  set (m' := if wcd_skip addr (zlen data) 8192 12288 then m else wcd_region_update addr data 8192 12288 m) in *.
  set (f' := if wcd_skip addr (zlen data) 12288 12544 then f else wcd_region_update addr data 12288 12544 f) in *.
  set (mu' := if wcd_skip addr (zlen data) 12544 12800 then mu else wcd_region_update addr data 12544 12800 mu) in *.
  set (sf' := if wcd_skip addr (zlen data) 12800 17152 then sf else wcd_region_update addr data 12800 17152 sf) in *.
  exists [g'; m'; f'; mu'; sf'].
  split.
  { f_equal.
    subst g' m' f' mu' sf'.
    destruct (wcd_skip addr (zlen data) 0 8192);
    destruct (wcd_skip addr (zlen data) 8192 12288);
    destruct (wcd_skip addr (zlen data) 12288 12544);
    destruct (wcd_skip addr (zlen data) 12544 12800);
    destruct (wcd_skip addr (zlen data) 12800 17152); reflexivity. }
  assert (HL : forall b o n, upd_spec b addr data o n -> zlen n = zlen o).
  { intros b o n [L _]. unfold zlen. lia. }
  split.
  { unfold wf_regions, region_sizes. cbn [map].
    rewrite (HL _ _ _ S0), (HL _ _ _ S1), (HL _ _ _ S2), (HL _ _ _ S3), (HL _ _ _ S4).
    congruence. }
  unfold flat. cbn [concat]. rewrite !app_nil_r.
  apply (upd_spec_unique 0 addr data (g ++ m ++ f ++ mu ++ sf)).
  - apply upd_spec_app; [exact S0|]. rewrite Lg.
    apply upd_spec_app; [exact S1|]. rewrite Lm.
    apply upd_spec_app; [exact S2|]. rewrite Lf.
    apply upd_spec_app; [exact S3|]. rewrite Lmu.
    exact S4.
  - apply upd_spec_flat_write; [exact Ha|].
    rewrite !zlen_app. lia.
Qed.

Lemma write_cart_data_reject st data addr :
  addr + zlen data > data_end -> write_cart_data st data addr = Err ValueError.
Proof.
  intros H. unfold write_cart_data, data_end in *.
  assert (Hg : wcd_guard addr (zlen data) = true) by (unfold wcd_guard; lia).
  rewrite Hg. reflexivity.
Qed.

Lemma flat_write_length mem addr data :
  0 <= addr -> addr + zlen data <= zlen mem -> zlen (flat_write mem addr data) = zlen mem.
Proof.
  intros Ha He. destruct (upd_spec_flat_write addr data mem Ha He) as [L _].
  unfold zlen. lia.
Qed.

Lemma wf_regions_flat_len st : wf_regions st -> zlen (flat st) = data_end.
Proof.
  unfold wf_regions, region_sizes, flat.
  destruct st as [|g [|m [|f [|mu [|sf [|x rest]]]]]]; try discriminate.
  cbn [map concat]. intros [= Lg Lm Lf Lmu Lsf]. rewrite !zlen_app, zlen_nil. unfold data_end. lia.
Qed.

Lemma write_many_ok ws : forall st,
  wf_regions st ->
  Forall (fun w => 0 <= fst w /\ fst w + zlen (snd w) <= data_end) ws ->
  exists st', write_many st ws = Ok st' /\ wf_regions st' /\
              flat st' = flat_write_many (flat st) ws.
Proof.
  induction ws as [|[a d] ws IH]; intros st Hwf Hall.
  - exists st. cbn. auto.
  - inversion Hall as [|w ws' [Ha He] Hrest]; subst. cbn [fst snd] in *.
    destruct (write_cart_data_ok st d a Hwf Ha He) as (st1 & E1 & W1 & F1).
    destruct (IH st1 W1 Hrest) as (st2 & E2 & W2 & F2).
    exists st2. cbn [write_many flat_write_many]. rewrite E1. cbn [bind].
    rewrite E2, <- F1. auto.
Qed.

(* byte-level reading of [flat_write]: inside the window the data, outside the old memory *)
Lemma flat_write_inside mem addr data (i : nat) :
  0 <= addr -> addr + zlen data <= zlen mem ->
  (Z.to_nat addr <= i < Z.to_nat addr + length data)%nat ->
  nth_error (flat_write mem addr data) i = nth_error data (i - Z.to_nat addr).
Proof.
  intros Ha He Hi. unfold flat_write, zlen in *.
  assert (Lf : length (firstn (Z.to_nat addr) mem) = Z.to_nat addr)
    by (rewrite firstn_length; lia).
  rewrite nth_error_app2 by lia. rewrite Lf.
  rewrite nth_error_app1 by lia. reflexivity.
Qed.

Lemma flat_write_outside mem addr data (i : nat) :
  0 <= addr -> addr + zlen data <= zlen mem ->
  (i < Z.to_nat addr \/ Z.to_nat addr + length data <= i)%nat ->
  nth_error (flat_write mem addr data) i = nth_error mem i.
Proof.
  intros Ha He Hi. unfold flat_write, zlen in *.
  assert (Lf : length (firstn (Z.to_nat addr) mem) = Z.to_nat addr)
    by (rewrite firstn_length; lia).
  destruct Hi as [Hi|Hi].
  - rewrite nth_error_app1 by lia.
    rewrite <- (firstn_skipn (Z.to_nat addr) mem) at 2.
    rewrite nth_error_app1 by lia. reflexivity.
  - rewrite nth_error_app2 by lia. rewrite nth_error_app2 by lia. rewrite Lf.
    replace (Z.to_nat (addr + Z.of_nat (length data))) with (Z.to_nat addr + length data)%nat by lia.
    rewrite <- (firstn_skipn (Z.to_nat addr + length data) mem) at 2.
    rewrite nth_error_app2 by (rewrite firstn_length; lia).
    rewrite firstn_length. f_equal. lia.
Qed.

(* the statement of C18 read byte by byte: the addressed bytes are the data, every other
   byte of the 0x4300-byte image keeps its value, every region keeps its size *)
Lemma write_cart_data_bytes st data addr :
  wf_regions st -> 0 <= addr -> addr + zlen data <= data_end ->
  exists st', write_cart_data st data addr = Ok st' /\ map zlen st' = map zlen st /\
    (forall i, (Z.to_nat addr <= i < Z.to_nat addr + length data)%nat ->
               nth_error (flat st') i = nth_error data (i - Z.to_nat addr)) /\
    (forall i, (i < Z.to_nat addr \/ Z.to_nat addr + length data <= i)%nat ->
               nth_error (flat st') i = nth_error (flat st) i).
Proof.
  intros Hwf Ha He.
  destruct (write_cart_data_ok st data addr Hwf Ha He) as (st' & E & W & F).
  pose proof (wf_regions_flat_len st Hwf) as L.
  exists st'. split; [exact E|]. split.
  - unfold wf_regions in *. congruence.
  - rewrite F. split; intros i Hi.
    + apply flat_write_inside; lia.
    + apply flat_write_outside; lia.
Qed.

(* histories read byte by byte: last writer wins *)
Lemma flat_write_many_bytes ws : forall mem i,
  Forall (fun w => 0 <= fst w /\ fst w + zlen (snd w) <= zlen mem) ws ->
  nth_error (flat_write_many mem ws) i = byte_after ws (nth_error mem i) i.
Proof.
  induction ws as [|[a d] ws IH]; intros mem i Hall; [reflexivity|].
  inversion Hall as [|w ws' [Ha He] Hrest]; subst. cbn [fst snd] in *.
  cbn [flat_write_many byte_after].
  pose proof (flat_write_length mem a d Ha He) as L.
  rewrite IH by (rewrite L; exact Hrest). f_equal.
  destruct ((Z.to_nat a <=? i) && (i <? Z.to_nat a + length d))%nat eqn:B.
  - apply flat_write_inside; lia.
  - apply flat_write_outside; lia.
Qed.

Lemma write_many_bytes ws st :
  wf_regions st ->
  Forall (fun w => 0 <= fst w /\ fst w + zlen (snd w) <= data_end) ws ->
  exists st', write_many st ws = Ok st' /\ wf_regions st' /\
    forall i, nth_error (flat st') i = byte_after ws (nth_error (flat st) i) i.
Proof.
  intros Hwf Hall. destruct (write_many_ok ws st Hwf Hall) as (st' & E & W & F).
  exists st'. split; [exact E|]. split; [exact W|]. intros i. rewrite F.
  apply flat_write_many_bytes. rewrite (wf_regions_flat_len st Hwf). exact Hall.
Qed.
