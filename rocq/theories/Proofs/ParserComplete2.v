(* Completeness of the parser model, part 2: facts about the reference grammar alone.
   - pattern calculus: disjointness / inclusion of token patterns decided by computation;
   - inversion of the terminals of the grammar;
   - the fragment predicate [in_frag], faithfulness of the token leaves [tokdata_ok] and the context [CTX]
     that every completeness lemma carries (fragment, line scope of the one-line ifs, fence);
   - expressions as operator/operand item lists; prefix expressions as a base followed by suffixes. *)
From PV Require Import Base.Prelude Spec.LuaTokens Spec.LuaGrammar Model.Tokens Model.Parser Model.ParserInst
  Model.AstWriter Proofs.ParserProofs Proofs.ParserComplete1.
From Coq Require Import ZifyBool.
Ltac Zify.zify_post_hook ::= Z.to_euclidean_division_equations.

(* ------------------------------------------------------------------ pattern calculus *)
Definition nd (c : kclass) (d : list Z) : list Z := match c with CKeyword => lower d | _ => d end.

Definition pdisj (q1 q2 : pat) : bool :=
  match q1, q2 with
  | PClass a, PClass b => negb (kclass_eqb a b)
  | PClass a, PTok b _ => negb (kclass_eqb a b)
  | PTok b _, PClass a => negb (kclass_eqb a b)
  | PTok a d, PTok b e => negb (kclass_eqb a b) || negb (zlist_eqb (nd a d) (nd b e))
  end.

Lemma kmatch_ptok k c d : kmatch k (PTok c d) = true -> fst k = c /\ snd k = nd c d.
Proof.
  unfold kmatch. intros H. apply andb_true_iff in H. destruct H as [H1 H2].
  apply kclass_eqb_eq in H1. apply zlist_eqb_eq in H2. rewrite H1 in H2. split; assumption.
Qed.

Lemma kclass_eqb_refl c : kclass_eqb c c = true.
Proof. destruct c; reflexivity. Qed.

Lemma kclass_eqb_neq a b : kclass_eqb a b = false -> a <> b.
Proof. intros H E. subst. rewrite kclass_eqb_refl in H. discriminate. Qed.

Lemma pdisj_sound q1 q2 k : pdisj q1 q2 = true -> kmatch k q1 = true -> kmatch k q2 = false.
Proof.
  destruct q1 as [a|a d], q2 as [b|b e]; cbn [pdisj]; intros Hd Hm.
  - cbn [kmatch] in *. apply kclass_eqb_eq in Hm. rewrite Hm. apply negb_true_iff in Hd. exact Hd.
  - cbn [kmatch] in Hm. apply kclass_eqb_eq in Hm. cbn [kmatch]. rewrite Hm.
    apply negb_true_iff in Hd. rewrite Hd. reflexivity.
  - apply kmatch_ptok in Hm. destruct Hm as [Hm _]. cbn [kmatch]. rewrite Hm.
    apply negb_true_iff in Hd. destruct (kclass_eqb a b) eqn:E; [|reflexivity].
    apply kclass_eqb_eq in E. subst. rewrite kclass_eqb_refl in Hd. discriminate.
  - apply kmatch_ptok in Hm. destruct Hm as [Hm1 Hm2]. cbn [kmatch]. rewrite Hm1, Hm2.
    destruct (kclass_eqb a b) eqn:E; [|reflexivity]. apply kclass_eqb_eq in E. subst b.
    cbn [negb orb] in Hd. apply negb_true_iff in Hd. cbn [andb]. unfold nd in Hd. exact Hd.
Qed.

Definition pat_eqb (q1 q2 : pat) : bool :=
  match q1, q2 with
  | PClass a, PClass b => kclass_eqb a b
  | PTok a d, PTok b e => kclass_eqb a b && zlist_eqb d e
  | _, _ => false
  end.

Lemma pat_eqb_eq q1 q2 : pat_eqb q1 q2 = true -> q1 = q2.
Proof.
  destruct q1 as [a|a d], q2 as [b|b e]; cbn [pat_eqb]; intros H; try discriminate.
  - apply kclass_eqb_eq in H. subst. reflexivity.
  - apply andb_true_iff in H. destruct H as [H1 H2]. apply kclass_eqb_eq in H1. apply zlist_eqb_eq in H2.
    subst. reflexivity.
Qed.

Definition anyof (ps : list pat) (k : kclass * list Z) : bool := existsb (kmatch k) ps.

Lemma anyof_miss ps q k : forallb (fun q1 => pdisj q1 q) ps = true -> anyof ps k = true -> kmatch k q = false.
Proof.
  unfold anyof. intros H Ha. apply existsb_exists in Ha. destruct Ha as (q1 & Hin & Hm).
  rewrite forallb_forall in H. exact (pdisj_sound q1 q k (H q1 Hin) Hm).
Qed.

Lemma anyof_sub ps1 ps2 k :
  forallb (fun q => existsb (pat_eqb q) ps2) ps1 = true -> anyof ps1 k = true -> anyof ps2 k = true.
Proof.
  unfold anyof. intros H Ha. apply existsb_exists in Ha. destruct Ha as (q1 & Hin & Hm).
  rewrite forallb_forall in H. specialize (H q1 Hin). apply existsb_exists in H. destruct H as (q2 & Hin2 & He).
  apply pat_eqb_eq in He. subst q2. apply existsb_exists. exists q1. split; assumption.
Qed.

Lemma anyof_nomatch ps L k :
  forallb (fun q1 => forallb (fun q2 => pdisj q1 q2) L) ps = true -> anyof ps k = true -> nomatch L k = true.
Proof.
  unfold anyof, nomatch. intros H Ha. apply existsb_exists in Ha. destruct Ha as (q1 & Hin & Hm).
  rewrite forallb_forall in H. specialize (H q1 Hin). rewrite forallb_forall in H.
  apply forallb_forall. intros q2 Hin2. apply negb_true_iff. exact (pdisj_sound q1 q2 k (H q2 Hin2) Hm).
Qed.

Lemma nomatch_sub L1 L2 k :
  forallb (fun q => existsb (pat_eqb q) L2) L1 = true -> nomatch L2 k = true -> nomatch L1 k = true.
Proof.
  unfold nomatch. intros H Hn. rewrite forallb_forall in *. intros q Hin. specialize (H q Hin).
  apply existsb_exists in H. destruct H as (q2 & Hin2 & He). apply pat_eqb_eq in He. subst q2. apply Hn, Hin2.
Qed.

Lemma nomatch_miss L q k : existsb (pat_eqb q) L = true -> nomatch L k = true -> kmatch k q = false.
Proof.
  intros H Hn. apply existsb_exists in H. destruct H as (q2 & Hin & He). apply pat_eqb_eq in He. subst q2.
  exact (nomatch_in L k q Hn Hin).
Qed.

(* ------------------------------------------------------------------ follow sets used by the lemmas *)
Definition cont_pats : list pat :=
  [psym "["%bs; psym "."%bs; psym "("%bs; psym "{"%bs; PClass CString; psym ":"%bs].
Definition fcont := nomatch cont_pats.
Definition fexp := nomatch (lua_binops ++ cont_pats).
Definition fexpl := nomatch (lua_binops ++ cont_pats ++ [psym ","%bs]).
(* what may follow a block *)
Definition block_end : list pat := [pkw "end"%bs; pkw "else"%bs; pkw "elseif"%bs; pkw "until"%bs].
Definition fblock := anyof block_end.
(* a token that starts neither a statement nor an expression *)
Definition stop_pats : list pat :=
  [psym ")"%bs; psym "}"%bs; psym ";"%bs; pkw "end"%bs; pkw "else"%bs; pkw "elseif"%bs; pkw "until"%bs].
Definition fstop := anyof stop_pats.

Definition gbinops : list pat := map psym binop_syms ++ [pkw "and"%bs; pkw "or"%bs].
Definition gunops : list pat := map psym unop_syms ++ [pkw "not"%bs].
Definition gassign : list pat := map psym assign_syms.

(* ------------------------------------------------------------------ terminals *)
Lemma is_sym_kmatch d t : is_sym d t = kmatch (kd t) (psym d).
Proof. unfold is_sym, kmatch, kd, psym. cbn [fst snd]. destruct (tk t); reflexivity. Qed.
Lemma is_kw_kmatch d t : is_kw d t = kmatch (kd t) (pkw d).
Proof. unfold is_kw, kmatch, kd, pkw. cbn [fst snd]. destruct (tk t); reflexivity. Qed.
Lemma is_class_kmatch c t : is_class c t = kmatch (kd t) (PClass c).
Proof. reflexivity. Qed.

Lemma existsb_map {A B} (f : B -> bool) (g : A -> B) l : existsb f (map g l) = existsb (fun x => f (g x)) l.
Proof. induction l as [|x l IH]; [reflexivity|]. cbn [map existsb]. rewrite IH. reflexivity. Qed.

Lemma existsb_ext' {A} (f g : A -> bool) l : (forall x, f x = g x) -> existsb f l = existsb g l.
Proof. intros H. induction l as [|x l IH]; [reflexivity|]. cbn [existsb]. rewrite H, IH. reflexivity. Qed.

Lemma is_binop_anyof t : is_binop t = anyof gbinops (kd t).
Proof.
  unfold is_binop, anyof, gbinops. rewrite existsb_app, existsb_map. cbn [existsb].
  rewrite orb_false_r, !is_kw_kmatch, <- orb_assoc. f_equal. apply existsb_ext'. intros d. apply is_sym_kmatch.
Qed.
Lemma is_unop_anyof t : is_unop t = anyof gunops (kd t).
Proof.
  unfold is_unop, anyof, gunops. rewrite existsb_app, existsb_map. cbn [existsb].
  rewrite orb_false_r, !is_kw_kmatch. f_equal. apply existsb_ext'. intros d. apply is_sym_kmatch.
Qed.
Lemma is_assignop_anyof t : is_assignop t = anyof gassign (kd t).
Proof.
  unfold is_assignop, anyof, gassign. rewrite existsb_map. apply existsb_ext'. intros d. apply is_sym_kmatch.
Qed.

Lemma kw_inv d g s s' : kw d g s = Some s' ->
  exists i t, g = Kw i /\ s = (i, t) :: s' /\ kmatch (kd t) (pkw d) = true.
Proof.
  unfold kw. destruct g; try discriminate. intros H. apply eat_inv in H. destruct H as (t & -> & H).
  rewrite is_kw_kmatch in H. eexists _, _. repeat split. exact H.
Qed.
Lemma sym_inv d g s s' : sym d g s = Some s' ->
  exists i t, g = Kw i /\ s = (i, t) :: s' /\ kmatch (kd t) (psym d) = true.
Proof.
  unfold sym. destruct g; try discriminate. intros H. apply eat_inv in H. destruct H as (t & -> & H).
  rewrite is_sym_kmatch in H. eexists _, _. repeat split. exact H.
Qed.
Lemma tokc_inv c g s s' : tokc c g s = Some s' ->
  exists i t0 t, g = Tok i t0 /\ s = (i, t) :: s' /\ kmatch (kd t) (PClass c) = true.
Proof.
  unfold tokc. destruct g; try discriminate. intros H. apply eat_inv in H. destruct H as (u & -> & H).
  eexists _, _, _. repeat split. exact H.
Qed.
Lemma tokp_inv pr g s s' : tokp pr g s = Some s' ->
  exists i t0 t, g = Tok i t0 /\ s = (i, t) :: s' /\ pr t = true.
Proof.
  unfold tokp. destruct g; try discriminate. intros H. apply eat_inv in H. destruct H as (u & -> & H).
  eexists _, _, _. repeat split. exact H.
Qed.
Lemma eat_sym_inv d i s s' : eat (is_sym d) i s = Some s' -> exists t, s = (i, t) :: s' /\ kmatch (kd t) (psym d) = true.
Proof. intros H. apply eat_inv in H. destruct H as (t & -> & H). rewrite is_sym_kmatch in H. eexists. split; [reflexivity | exact H]. Qed.

Lemma obind_some {A B} (o : option A) (f : A -> option B) b : obind o f = Some b -> exists a, o = Some a /\ f a = Some b.
Proof. destruct o as [a|]; [|discriminate]. intros H. exists a. split; [reflexivity | exact H]. Qed.

(* ------------------------------------------------------------------ the fragment *)
(* leftmost descent reaches a parenthesis: the statement / expression starts with '(' *)
Fixpoint starts_paren (g : tree) : bool :=
  match g with
  | Paren _ _ _ => true
  | Node _ _ _ _ (x :: _) => starts_paren x
  | Lst (x :: _) => starts_paren x
  | _ => false
  end.

(* Lua's call ambiguity: a statement that starts with '(' directly follows a ';' (prev = true also lets it be the
   first statement of the list: the first statement of a block that is not the body of a one-line if) *)
Fixpoint pguard (prev : bool) (l : list tree) : bool :=
  match l with
  | [] => true
  | Kw _ :: r => pguard true r
  | x :: r => (prev || negb (starts_paren x)) && pguard false r
  end.

(* one-line if: the body has a first item, which is not a do-block (picotool reads `if (c) do` as
   `if (c) then`, known finding) and does not start with '(' (`if (c) (f)()` is the condition `(c)(f)()`);
   an else part has at least one statement (picotool drops an empty one) *)
Definition shortif_ok (fs : list tree) : bool :=
  match fs with
  | [_; Lst (Lst [_; Node _ _ _ _ [Lst (x :: r)]] :: rest)] =>
      negb (is_tag x tStatDo) && pguard false (x :: r) &&
      match rest with
      | [] => true
      | [_; Lst [_; Node _ _ _ _ [Lst l2]]] => existsb (fun y => negb (is_hidden y)) l2
      | _ => false
      end
  | _ => false
  end.

Fixpoint in_frag (g : tree) : bool :=
  match g with
  | Node tag _ _ sh fs =>
      (negb sh || (tag =? tStatIf)) &&
      (if tag =? tChunk then match fs with [Lst l] => pguard true l | _ => true end else true) &&
      (if (tag =? tStatIf) && sh then shortif_ok fs else true) &&
      forallb in_frag fs
  | Lst l => forallb in_frag l
  | Paren _ _ x => in_frag x
  | Hid x => in_frag x
  | _ => true
  end.

(* the exclusions alone: in_frag without the well-formedness of the short flags, which [derives] checks *)
Fixpoint excl (g : tree) : bool :=
  match g with
  | Node tag _ _ sh fs =>
      (if tag =? tChunk then match fs with [Lst l] => pguard true l | _ => true end else true) &&
      (if (tag =? tStatIf) && sh then shortif_ok fs else true) &&
      forallb excl fs
  | Lst l => forallb excl l
  | Paren _ _ x => excl x
  | Hid x => excl x
  | _ => true
  end.

Lemma in_frag_of_excl g : excl g = true -> flags_ok g = true -> in_frag g = true.
Proof.
  induction g as [tag s e sh fs IH| | l IH| | | | |i j x IH|x IH] using tree_ind'; intros H1 H2; try reflexivity.
  - cbn [excl flags_ok in_frag] in *. apply andb_true_iff in H1. destruct H1 as [H1 H1f]. apply andb_true_iff in H1. destruct H1 as [H1a H1b].
    apply andb_true_iff in H2. destruct H2 as [H2a H2f]. rewrite H2a, H1a, H1b. cbn [andb].
    clear -IH H1f H2f. induction IH as [|x r Hx _ IH2]; [reflexivity|]. cbn [forallb] in *.
    apply andb_true_iff in H1f, H2f. destruct H1f as [A1 A2], H2f as [B1 B2]. rewrite (Hx A1 B1), (IH2 A2 B2). reflexivity.
  - cbn [excl flags_ok in_frag] in *. induction IH as [|x r Hx _ IH2]; [reflexivity|]. cbn [forallb] in *.
    apply andb_true_iff in H1, H2. destruct H1 as [A1 A2], H2 as [B1 B2]. rewrite (Hx A1 B1), (IH2 A2 B2). reflexivity.
  - cbn [excl flags_ok in_frag] in *. apply IH; assumption.
  - cbn [excl flags_ok in_frag] in *. apply IH; assumption.
Qed.

Section Ctx.
Variable ts : list token.

(* the token stored at a Tok leaf of the derivation carries the data of the token at that index *)
Fixpoint tokdata_ok (g : tree) : bool :=
  match g with
  | Node _ _ _ _ fs => forallb tokdata_ok fs
  | Lst l => forallb tokdata_ok l
  | Paren _ _ x => tokdata_ok x
  | Hid x => tokdata_ok x
  | Tok i t => match ParserProofs.tok_at ts i with Some u => zlist_eqb (tdata u) (tdata t) | None => false end
  | _ => true
  end.

Lemma tokdata_of_leaves_ok g : leaves_ok ts g = true -> tokdata_ok g = true.
Proof.
  induction g as [tag s e sh fs IH| i t | l IH| | | | |i j x IH|x IH] using tree_ind'; intros H; try reflexivity.
  - cbn [leaves_ok tokdata_ok] in *. induction IH as [|x r Hx _ IH2]; [reflexivity|]. cbn [forallb] in *.
    apply andb_true_iff in H. destruct H as [A1 A2]. rewrite (Hx A1), (IH2 A2). reflexivity.
  - cbn [leaves_ok tokdata_ok] in *. unfold ParserProofs.tok_at. destruct (i <? 0); [discriminate H | exact H].
  - cbn [leaves_ok tokdata_ok] in *. induction IH as [|x r Hx _ IH2]; [reflexivity|]. cbn [forallb] in *.
    apply andb_true_iff in H. destruct H as [A1 A2]. rewrite (Hx A1), (IH2 A2). reflexivity.
  - cbn [leaves_ok tokdata_ok] in *. apply IH, H.
  - cbn [leaves_ok tokdata_ok] in *. apply IH, H.
Qed.

Definition LS (x : tree) : bool :=
  match first_last (leaves x) with
  | Some (a, b) => negb (newline_in ts 0 a b) && line_ends_after ts 0 b
  | None => false
  end.

Lemma line_scoped_LS g : line_scoped ts g = forallb LS (short_ifs g).
Proof. reflexivity. Qed.

Definition CTX (g : tree) (mx : option Z) : Prop :=
  in_frag g = true /\ tokdata_ok g = true /\ (forall x, In x (short_ifs g) -> LS x = true) /\
  (forall j, In j (leaves g) -> fence_ok mx j = true).

Definition CTXL (l : list tree) (mx : option Z) : Prop := Forall (fun c => CTX c mx) l.

Lemma CTX_fields (l : list tree) mx :
  forallb in_frag l = true -> forallb tokdata_ok l = true ->
  (forall x, In x (flat_map short_ifs l) -> LS x = true) ->
  (forall j, In j (flat_map leaves l) -> fence_ok mx j = true) -> CTXL l mx.
Proof.
  induction l as [|c l IH]; intros H1 H2 H3 H4; [constructor|].
  cbn [forallb flat_map] in *. apply andb_true_iff in H1, H2. destruct H1 as [H1a H1b], H2 as [H2a H2b].
  constructor.
  - repeat split; try assumption.
    + intros x Hx. apply H3. apply in_or_app. left. exact Hx.
    + intros j Hj. apply H4. apply in_or_app. left. exact Hj.
  - apply IH; try assumption.
    + intros x Hx. apply H3. apply in_or_app. right. exact Hx.
    + intros j Hj. apply H4. apply in_or_app. right. exact Hj.
Qed.

Lemma CTX_node tag a b sh fs mx : CTX (Node tag a b sh fs) mx -> CTXL fs mx.
Proof.
  intros (H1 & H2 & H3 & H4). cbn [in_frag] in H1. apply andb_true_iff in H1. destruct H1 as [_ H1].
  apply CTX_fields; try assumption.
  intros x Hx. apply H3. cbn [short_ifs]. apply in_or_app. right. exact Hx.
Qed.

Lemma CTX_lst l mx : CTX (Lst l) mx -> CTXL l mx.
Proof. intros (H1 & H2 & H3 & H4). apply CTX_fields; assumption. Qed.

Lemma CTX_paren i j x mx : CTX (Paren i j x) mx -> CTX x mx /\ fence_ok mx i = true /\ fence_ok mx j = true.
Proof.
  intros (H1 & H2 & H3 & H4). split; [repeat split; try assumption|].
  - intros k Hk. apply H4. cbn [leaves app]. right. apply in_or_app. left. exact Hk.
  - split; apply H4; cbn [leaves app].
    + left. reflexivity.
    + right. apply in_or_app. right. left. reflexivity.
Qed.

Lemma CTX_hid x mx : CTX (Hid x) mx -> CTX x mx.
Proof. intros H. exact H. Qed.

Lemma CTX_kw i mx : CTX (Kw i) mx -> fence_ok mx i = true.
Proof. intros (_ & _ & _ & H). apply H. left. reflexivity. Qed.

Lemma CTX_tok i t mx : CTX (Tok i t) mx -> fence_ok mx i = true.
Proof. intros (_ & _ & _ & H). apply H. left. reflexivity. Qed.

Lemma CTX_tokdata i t u mx : CTX (Tok i t) mx -> ParserProofs.tok_at ts i = Some u -> tdata u = tdata t.
Proof.
  intros (_ & H & _) Hu. cbn [tokdata_ok] in H. rewrite Hu in H. apply zlist_eqb_eq in H. exact H.
Qed.

Lemma CTXL_cons c l mx : CTXL (c :: l) mx -> CTX c mx /\ CTXL l mx.
Proof. intros H. inversion H; subst. split; assumption. Qed.

Lemma CTXL_app a b mx : CTXL (a ++ b) mx -> CTXL a mx /\ CTXL b mx.
Proof. unfold CTXL. apply Forall_app. Qed.

(* a different fence: only the fence part changes *)
Lemma CTX_refence g mx mx' : CTX g mx -> (forall j, In j (leaves g) -> fence_ok mx' j = true) -> CTX g mx'.
Proof. intros (H1 & H2 & H3 & _) H4. repeat split; assumption. Qed.

End Ctx.

Ltac ctx_split H :=
  repeat match type of H with
         | CTXL _ (_ :: _) _ =>
             let H1 := fresh "HC" in apply CTXL_cons in H; destruct H as [H1 H]
         end.

(* ------------------------------------------------------------------ expressions as item lists *)
Lemma g_chain_seen n : forall w items s s', g_chain n w false items s = Some s' -> g_chain n w true items s = Some s'.
Proof.
  induction n as [|n IH]; intros w items s s'; [discriminate|]. cbn [g_chain].
  destruct items as [|x r].
  - destruct w; cbn [orb negb]; discriminate.
  - destruct w.
    + destruct x; try (intros H; apply obind_some in H; destruct H as (a & -> & H); cbn [obind]; apply IH, H).
      destruct (tokp is_unop (Tok i t) s); [intros H; exact H | discriminate].
    + intros H; exact H.
Qed.

(* the operator/operand items of an expression *)
Definition items_of (g : tree) : list tree :=
  match g with
  | Node tag _ _ _ fs => if tag =? tChain then fs else [g]
  | _ => [g]
  end.

Lemma g_operand_node n g s s' : g_operand n g s = Some s' -> exists tag a b sh fs, g = Node tag a b sh fs /\
  (tag = tVarargDots \/ tag = tExpValue).
Proof.
  destruct n; [discriminate|]. cbn [g_operand]. destruct g; try discriminate.
  destruct (tag =? tVarargDots) eqn:E1; [apply Z.eqb_eq in E1; intros _; eexists _, _, _, _, _; split; [reflexivity | left; exact E1]|].
  destruct (tag =? tExpValue) eqn:E2; [|discriminate]. apply Z.eqb_eq in E2.
  intros _; eexists _, _, _, _, _; split; [reflexivity | right; exact E2].
Qed.

Lemma g_exp_items n g s s' : g_exp n g s = Some s' ->
  exists m, g_chain m true true (items_of g) s = Some s'.
Proof.
  destruct n; [discriminate|]. cbn [g_exp]. destruct g; try discriminate. unfold items_of.
  destruct (tag =? tChain) eqn:E.
  - intros H. exists n. apply g_chain_seen, H.
  - intros H. exists (S n). destruct n; [discriminate H|]. cbn [g_chain]. rewrite H. reflexivity.
Qed.

Definition ditems (items : list tree) (t : tree) : bool := all2d items (flat_exp (view t)).

Lemma den_of_items g t : ditems (items_of g) t = true -> (forall x, items_of g = [x] -> den x t = true) ->
  (exists n s s', g_exp n g s = Some s') -> den g t = true.
Proof.
  intros H1 H2 (n & s & s' & H3). destruct n; [discriminate|]. cbn [g_exp] in H3. destruct g; try discriminate.
  unfold items_of in *. destruct (tag =? tChain) eqn:E.
  - unfold den. rewrite denotes_node, E. exact H1.
  - apply H2. reflexivity.
Qed.

Lemma CTX_items ts g mx : CTX ts g mx -> CTXL ts (items_of g) mx.
Proof.
  intros H. destruct g; try (constructor; [exact H | constructor]). unfold items_of.
  destruct (tag =? tChain); [apply CTX_node in H; exact H | constructor; [exact H | constructor]].
Qed.

(* flat_exp of a node that is neither a binary nor a unary operator node *)
Lemma flat_exp_other tag s e sh fs : (tag =? tExpBinOp) = false -> (tag =? tExpUnOp) = false ->
  flat_exp (Node tag s e sh fs) = [Node tag s e sh fs].
Proof.
  intros H1 H2. cbn [flat_exp]. rewrite H1, H2.
  repeat (first [reflexivity | match goal with |- context [match ?x with _ => _ end] => is_var x; destruct x end]).
Qed.

Lemma flat_exp_binop s e sh a i o b :
  flat_exp (Node tExpBinOp s e sh [a; Tok i o; b]) = flat_exp a ++ Tok i o :: flat_exp b.
Proof. destruct a; reflexivity. Qed.
Lemma flat_exp_unop s e sh i o a :
  flat_exp (Node tExpUnOp s e sh [Tok i o; a]) = Tok i o :: flat_exp a.
Proof. destruct a; reflexivity. Qed.

Lemma all2d_app a la b lb : all2d a la = true -> all2d b lb = true -> all2d (a ++ b) (la ++ lb) = true.
Proof.
  revert la. induction a as [|x a IH]; intros la H1 H2.
  - destruct la; [exact H2 | discriminate H1].
  - cbn [app]. rewrite all2d_cons in *. destruct (is_hidden x); [apply IH; assumption|].
    destruct la as [|y la]; [discriminate H1|]. apply andb_true_iff in H1. destruct H1 as [H1a H1b].
    cbn [app]. rewrite H1a. cbn [andb]. apply IH; assumption.
Qed.

(* ------------------------------------------------------------------ prefix expressions: base and suffixes *)
Definition sfx : Set := (Z * Z * Z * bool * list tree)%type.

Definition wrap1 (x : sfx) (p : tree) : tree :=
  let '(tag, a, b, sh, rest) := x in Node tag a b sh (p :: rest).

Fixpoint wraps (base : tree) (l : list (nat * sfx)) : tree :=
  match l with
  | [] => base
  | (_, x) :: r => wraps (wrap1 x base) r
  end.

Definition g_suf (n : nat) (x : sfx) (s : stream) : option stream :=
  let '(tag, _, _, _, rest) := x in
  if tag =? tVarIndex then
    match rest with
    | [o; e; c] => s <~ sym "["%bs o s ;; s <~ g_exp n e s ;; sym "]"%bs c s
    | _ => None end
  else if tag =? tVarAttribute then
    match rest with
    | [d; nm] => s <~ sym "."%bs d s ;; tokc CName nm s
    | _ => None end
  else if tag =? tFunctionCall then
    match rest with
    | [a] => g_args n a s
    | _ => None end
  else if tag =? tFunctionCallMethod then
    match rest with
    | [c; nm; a] => s <~ sym ":"%bs c s ;; s <~ tokc CName nm s ;; g_args n a s
    | _ => None end
  else None.

Fixpoint g_sufs (l : list (nat * sfx)) (s : stream) : option stream :=
  match l with
  | [] => Some s
  | (n, x) :: r => s <~ g_suf n x s ;; g_sufs r s
  end.

Definition g_base (n : nat) (base : tree) (s : stream) : option stream :=
  match base with
  | Paren i j x => s <~ eat (is_sym "("%bs) i s ;; s <~ g_exp n x s ;; eat (is_sym ")"%bs) j s
  | Node tag _ _ _ [nm] => if tag =? tVarName then tokc CName nm s else None
  | _ => None
  end.

Lemma wraps_snoc base l n x : wraps base (l ++ [(n, x)]) = wrap1 x (wraps base l).
Proof. revert base. induction l as [|[m y] l IH]; intros base; [reflexivity|]. cbn [app wraps]. apply IH. Qed.

Lemma g_sufs_snoc l n x s : g_sufs (l ++ [(n, x)]) s = (s <~ g_sufs l s ;; g_suf n x s).
Proof.
  revert s. induction l as [|[m y] l IH]; intros s; cbn [app g_sufs obind].
  - destruct (g_suf n x s); reflexivity.
  - destruct (g_suf m y s) as [s1|]; [cbn [obind]; apply IH | reflexivity].
Qed.

Lemma spine n : forall g s s', g_prefix n g s = Some s' ->
  exists nb base l s0, g = wraps base l /\ g_base nb base s = Some s0 /\ g_sufs l s0 = Some s'.
Proof.
  induction n as [|n IH]; intros g s s'; [discriminate|]. cbn [g_prefix]. destruct g; try discriminate.
  - (* Node *)
    destruct (tag =? tVarName) eqn:E1.
    { destruct fields as [|nm [|? ?]]; try discriminate. intros H.
      exists n, (Node tag s0 e short [nm]), [], s'. split; [reflexivity|]. split; [|reflexivity].
      cbn [g_base]. rewrite E1. exact H. }
    destruct (tag =? tVarIndex) eqn:E2.
    { destruct fields as [|p [|o [|e1 [|c [|? ?]]]]]; try discriminate. intros H.
      apply obind_some in H. destruct H as (s1 & Hp & H).
      destruct (IH _ _ _ Hp) as (nb & base & l & sb & -> & Hb & Hl).
      exists nb, base, (l ++ [(n, (tag, s0, e, short, [o; e1; c]))]), sb.
      split; [rewrite wraps_snoc; reflexivity|]. split; [exact Hb|].
      rewrite g_sufs_snoc, Hl. cbn [obind g_suf]. rewrite E2. exact H. }
    destruct (tag =? tVarAttribute) eqn:E3.
    { destruct fields as [|p [|d [|nm [|? ?]]]]; try discriminate. intros H.
      apply obind_some in H. destruct H as (s1 & Hp & H).
      destruct (IH _ _ _ Hp) as (nb & base & l & sb & -> & Hb & Hl).
      exists nb, base, (l ++ [(n, (tag, s0, e, short, [d; nm]))]), sb.
      split; [rewrite wraps_snoc; reflexivity|]. split; [exact Hb|].
      rewrite g_sufs_snoc, Hl. cbn [obind g_suf]. rewrite E2, E3. exact H. }
    destruct (tag =? tFunctionCall) eqn:E4.
    { destruct fields as [|p [|a [|? ?]]]; try discriminate. intros H.
      apply obind_some in H. destruct H as (s1 & Hp & H).
      destruct (IH _ _ _ Hp) as (nb & base & l & sb & -> & Hb & Hl).
      exists nb, base, (l ++ [(n, (tag, s0, e, short, [a]))]), sb.
      split; [rewrite wraps_snoc; reflexivity|]. split; [exact Hb|].
      rewrite g_sufs_snoc, Hl. cbn [obind g_suf]. rewrite E2, E3, E4. exact H. }
    destruct (tag =? tFunctionCallMethod) eqn:E5; [|discriminate].
    { destruct fields as [|p [|c [|nm [|a [|? ?]]]]]; try discriminate. intros H.
      apply obind_some in H. destruct H as (s1 & Hp & H).
      destruct (IH _ _ _ Hp) as (nb & base & l & sb & -> & Hb & Hl).
      exists nb, base, (l ++ [(n, (tag, s0, e, short, [c; nm; a]))]), sb.
      split; [rewrite wraps_snoc; reflexivity|]. split; [exact Hb|].
      rewrite g_sufs_snoc, Hl. cbn [obind g_suf]. rewrite E2, E3, E4, E5. exact H. }
  - (* Paren *)
    intros H. exists n, (Paren i j g), [], s'. split; [reflexivity|]. split; [exact H | reflexivity].
Qed.

(* context of base and suffixes *)
Definition sfx_rest (x : nat * sfx) : list tree := let '(_, (_, _, _, _, rest)) := x in rest.

Lemma CTX_wraps ts mx : forall l base, CTX ts (wraps base l) mx ->
  CTX ts base mx /\ Forall (fun x => CTXL ts (sfx_rest x) mx) l.
Proof.
  induction l as [|[n [[[[tag a] b] sh] rest]] l IH]; intros base H; cbn [wraps] in H.
  - split; [exact H | constructor].
  - apply IH in H. destruct H as [H1 H2]. cbn [wrap1] in H1. apply CTX_node in H1.
    apply CTXL_cons in H1. destruct H1 as [H1a H1b]. split; [exact H1a|]. constructor; [exact H1b | exact H2].
Qed.

(* the tag of the outermost suffix *)
Definition sfx_tag (x : nat * sfx) : Z := let '(_, (tag, _, _, _, _)) := x in tag.

(* ------------------------------------------------------------------ first tokens *)
Definition hd_in (ps : list pat) (s : stream) : Prop :=
  exists i t r, s = (i, t) :: r /\ anyof ps (kd t) = true.

Lemma known_anyof q ps k : existsb (pat_eqb q) ps = true -> kmatch k q = true -> anyof ps k = true.
Proof.
  intros H Hk. apply existsb_exists in H. destruct H as (q2 & Hin & He). apply pat_eqb_eq in He. subst q2.
  unfold anyof. apply existsb_exists. exists q. split; assumption.
Qed.

Lemma known_nomatch q L k : forallb (pdisj q) L = true -> kmatch k q = true -> nomatch L k = true.
Proof.
  intros H Hk. unfold nomatch. rewrite forallb_forall in *. intros q2 Hin. apply negb_true_iff.
  exact (pdisj_sound q q2 k (H q2 Hin) Hk).
Qed.

Lemma hd_sub ps ps' s : forallb (fun q => existsb (pat_eqb q) ps') ps = true -> hd_in ps s -> hd_in ps' s.
Proof. intros H (i & t & r & Hs & Ha). exists i, t, r. split; [exact Hs|]. eapply anyof_sub; eassumption. Qed.

Lemma hd_kw d g s s' : kw d g s = Some s' -> hd_in [pkw d] s.
Proof.
  intros H. apply kw_inv in H. destruct H as (i & t & _ & -> & Hk). exists i, t, s'. split; [reflexivity|].
  unfold anyof. cbn [existsb]. rewrite Hk. reflexivity.
Qed.
Lemma hd_sym d g s s' : sym d g s = Some s' -> hd_in [psym d] s.
Proof.
  intros H. apply sym_inv in H. destruct H as (i & t & _ & -> & Hk). exists i, t, s'. split; [reflexivity|].
  unfold anyof. cbn [existsb]. rewrite Hk. reflexivity.
Qed.
Lemma hd_tokc c g s s' : tokc c g s = Some s' -> hd_in [PClass c] s.
Proof.
  intros H. apply tokc_inv in H. destruct H as (i & t0 & t & _ & -> & Hk). exists i, t, s'. split; [reflexivity|].
  unfold anyof. cbn [existsb]. rewrite Hk. reflexivity.
Qed.
Lemma hd_eat_sym d i s s' : eat (is_sym d) i s = Some s' -> hd_in [psym d] s.
Proof.
  intros H. apply eat_sym_inv in H. destruct H as (t & -> & Hk). exists i, t, s'. split; [reflexivity|].
  unfold anyof. cbn [existsb]. rewrite Hk. reflexivity.
Qed.

Ltac hd_first H :=
  (* H : obind (term ...) f = Some s'  or  term ... = Some s' *)
  let E := fresh "E" in
  first [ apply obind_some in H; destruct H as (? & E & _) | rename H into E ];
  first [ apply hd_kw in E | apply hd_sym in E | apply hd_tokc in E | apply hd_eat_sym in E ];
  eapply hd_sub; [|exact E]; vm_compute; reflexivity.

Definition prefix_first : list pat := [PClass CName; psym "("%bs].

Lemma g_base_head n base s s' : g_base n base s = Some s' -> hd_in prefix_first s.
Proof.
  unfold g_base. destruct base; try discriminate.
  - destruct fields as [|nm [|? ?]]; try discriminate. destruct (tag =? tVarName); [|discriminate].
    intros H. hd_first H.
  - intros H. hd_first H.
Qed.

Lemma g_prefix_head n g s s' : g_prefix n g s = Some s' -> hd_in prefix_first s.
Proof. intros H. apply spine in H. destruct H as (nb & base & l & s0 & _ & Hb & _). eapply g_base_head, Hb. Qed.

Lemma g_table_head n g s s' : g_table n g s = Some s' -> hd_in [psym "{"%bs] s.
Proof.
  destruct n; [discriminate|]. cbn [g_table]. destruct g; try discriminate.
  destruct fields as [|o [|[| |l| | | | | |] [|c [|? ?]]]]; try discriminate.
  destruct (tag =? tTableConstructor); [|discriminate]. intros H. hd_first H.
Qed.

Definition args_first : list pat := [psym "("%bs; psym "{"%bs; PClass CString].

Lemma g_args_head n g s s' : g_args n g s = Some s' -> hd_in args_first s.
Proof.
  destruct n; [discriminate|]. cbn [g_args]. destruct g; try discriminate.
  - destruct (tag =? tFunctionArgs).
    + destruct fields as [|o [|el [|c [|? ?]]]]; try discriminate; destruct el; cbv beta iota; intros H; try discriminate H; hd_first H.
    + destruct (tag =? tTableConstructor); [|discriminate]. intros H. apply g_table_head in H.
      eapply hd_sub; [|exact H]. vm_compute. reflexivity.
  - intros H. hd_first H.
Qed.

Definition operand_first : list pat :=
  [pkw "nil"%bs; pkw "true"%bs; pkw "false"%bs; PClass CNumber; PClass CString; psym "..."%bs; pkw "function"%bs;
   psym "{"%bs; PClass CName; psym "("%bs].

Lemma g_operand_head n g s s' : g_operand n g s = Some s' -> hd_in operand_first s.
Proof.
  destruct n; [discriminate|]. cbn [g_operand]. destruct g; try discriminate.
  destruct (tag =? tVarargDots).
  { destruct fields as [|d [|? ?]]; try discriminate. intros H. hd_first H. }
  destruct (tag =? tExpValue); [|discriminate].
  destruct fields as [|x [|y [|? ?]]]; try discriminate.
  - destruct x; try discriminate.
    + destruct (tag0 =? tFunction).
      { destruct fields as [|f [|body [|? ?]]]; try discriminate. intros H. hd_first H. }
      destruct (tag0 =? tTableConstructor).
      { intros H. apply g_table_head in H. eapply hd_sub; [|exact H]. vm_compute. reflexivity. }
      intros H. apply g_prefix_head in H. eapply hd_sub; [|exact H]. vm_compute. reflexivity.
    + destruct (tokc CNumber (Tok i t) s) eqn:E.
      * intros _. hd_first E.
      * intros H. hd_first H.
    + intros H. apply g_prefix_head in H. eapply hd_sub; [|exact H]. vm_compute. reflexivity.
  - destruct x, y as [| | | |bb| | | |]; cbv beta iota; try discriminate; try destruct bb; intros H; hd_first H.
  - destruct x, y; cbv beta iota; try discriminate; match goal with |- context [if ?b then _ else _] => destruct b end; discriminate.
Qed.

Definition exp_first : list pat := gunops ++ operand_first.

Lemma g_chain_head n seen items s s' : g_chain n true seen items s = Some s' -> hd_in exp_first s.
Proof.
  destruct n; [discriminate|]. cbn [g_chain]. destruct items as [|x r]; [discriminate|].
  assert (Hop : forall y, (s <~ g_operand n y s ;; g_chain n false seen r s) = Some s' -> hd_in exp_first s).
  { intros y H. apply obind_some in H. destruct H as (s1 & H & _). apply g_operand_head in H.
    eapply hd_sub; [|exact H]. vm_compute. reflexivity. }
  destruct x; try (apply Hop).
  destruct (tokp is_unop (Tok i t) s) eqn:E; [|discriminate]. intros _.
  apply tokp_inv in E. destruct E as (j & t0 & u & _ & -> & Hu). rewrite is_unop_anyof in Hu.
  exists j, u, s0. split; [reflexivity|]. eapply anyof_sub; [|exact Hu]. vm_compute. reflexivity.
Qed.

Lemma g_exp_head n g s s' : g_exp n g s = Some s' -> hd_in exp_first s.
Proof. intros H. apply g_exp_items in H. destruct H as (m & H). eapply g_chain_head, H. Qed.

(* follow knowledge from the first token of what comes next *)
Lemma hd_follow_nomatch ps L mx s :
  forallb (fun q1 => forallb (fun q2 => pdisj q1 q2) L) ps = true -> hd_in ps s -> follow (nomatch L) mx s.
Proof.
  intros H (i & t & r & -> & Ha). apply follow_head. eapply anyof_nomatch; eassumption.
Qed.
Lemma hd_follow_anyof ps ps' mx s :
  forallb (fun q => existsb (pat_eqb q) ps') ps = true -> hd_in ps s -> follow (anyof ps') mx s.
Proof.
  intros H (i & t & r & -> & Ha). apply follow_head. eapply anyof_sub; eassumption.
Qed.

(* open the pattern matches of a grammar equation *)
Ltac gmatch H :=
  repeat (cbv beta iota in H;
          match type of H with
          | context [match ?x with _ => _ end] => is_var x; destruct x; try discriminate H
          end);
  cbv beta iota in H.

Ltac gtag H tg :=
  match type of H with
  | context [?tag =? tg] =>
      let E := fresh "Et" in destruct (tag =? tg) eqn:E; [apply Z.eqb_eq in E; try subst tag | try discriminate H]
  end.

(* ------------------------------------------------------------------ the token after a leading name *)
Lemma g_suf_head n x s s' : g_suf n x s = Some s' -> hd_in cont_pats s.
Proof.
  destruct x as [[[[tag a] b] sh] rest]. unfold g_suf.
  destruct (tag =? tVarIndex). { intros H. gmatch H. hd_first H. }
  destruct (tag =? tVarAttribute). { intros H. gmatch H. hd_first H. }
  destruct (tag =? tFunctionCall).
  { intros H. gmatch H. apply g_args_head in H. eapply hd_sub; [|exact H]. vm_compute. reflexivity. }
  destruct (tag =? tFunctionCallMethod); [|discriminate]. intros H. gmatch H. hd_first H.
Qed.

(* two patterns that cannot match the same token *)
Lemma kcontra k q1 q2 : kmatch k q1 = true -> kmatch k q2 = true -> pdisj q1 q2 = true -> False.
Proof. intros H1 H2 Hd. rewrite (pdisj_sound q1 q2 k Hd H1) in H2. discriminate. Qed.

Lemma hd_contra ps q i t r : hd_in ps ((i, t) :: r) -> kmatch (kd t) q = true -> forallb (fun q1 => pdisj q1 q) ps = true -> False.
Proof.
  intros (j & u & r' & E & Ha) Hk Hd. injection E as <- <- <-.
  rewrite (anyof_miss ps q (kd t) Hd Ha) in Hk. discriminate.
Qed.

Lemma name_operand_second n g i t r0 s1 : g_operand n g ((i, t) :: r0) = Some s1 -> kmatch (kd t) (PClass CName) = true ->
  s1 = r0 \/ hd_in cont_pats r0.
Proof.
  intros H Hk. destruct n; [discriminate|]. cbn [g_operand] in H. destruct g; try discriminate.
  assert (Hpre : forall m x, g_prefix m x ((i, t) :: r0) = Some s1 -> s1 = r0 \/ hd_in cont_pats r0).
  { intros m x Hx. apply spine in Hx. destruct Hx as (nb & base & l & sb & _ & Hb & Hl).
    assert (sb = r0).
    { unfold g_base in Hb. destruct base; try discriminate.
      - gmatch Hb. destruct (tag0 =? tVarName); [|discriminate]. apply tokc_inv in Hb.
        destruct Hb as (j & u0 & u & _ & E & _). injection E as _ _ <-. reflexivity.
      - exfalso. apply obind_some in Hb. destruct Hb as (? & Hb & _). apply hd_eat_sym in Hb.
        eapply hd_contra; [exact Hb | exact Hk | reflexivity]. }
    subst sb. destruct l as [|[m' y] l]; cbn [g_sufs] in Hl.
    - left. congruence.
    - right. apply obind_some in Hl. destruct Hl as (? & Hl & _). eapply g_suf_head, Hl. }
  destruct (tag =? tVarargDots).
  { exfalso. gmatch H. apply hd_sym in H. eapply hd_contra; [exact H | exact Hk | reflexivity]. }
  destruct (tag =? tExpValue); [|discriminate].
  destruct fields as [|x [|y [|? ?]]]; try discriminate.
  - destruct x; try discriminate.
    + destruct (tag0 =? tFunction).
      { exfalso. gmatch H. apply obind_some in H. destruct H as (? & H & _). apply hd_kw in H.
        eapply hd_contra; [exact H | exact Hk | reflexivity]. }
      destruct (tag0 =? tTableConstructor).
      { exfalso. apply g_table_head in H. eapply hd_contra; [exact H | exact Hk | reflexivity]. }
      eapply Hpre, H.
    + exfalso. destruct (tokc CNumber (Tok i0 t0) ((i, t) :: r0)) eqn:E.
      * apply hd_tokc in E. eapply hd_contra; [exact E | exact Hk | reflexivity].
      * apply hd_tokc in H. eapply hd_contra; [exact H | exact Hk | reflexivity].
    + eapply Hpre, H.
  - exfalso. destruct x, y as [| | | |bb| | | |]; cbv beta iota in H; try discriminate H; try destruct bb;
      apply hd_kw in H; (eapply hd_contra; [exact H | exact Hk | reflexivity]).
  - exfalso. destruct x, y; cbv beta iota in H; try discriminate H;
      match type of H with context [if ?b then _ else _] => destruct b end; discriminate H.
Qed.

Lemma name_second n seen items i t r0 s' mx :
  g_chain n true seen items ((i, t) :: r0) = Some s' -> kmatch (kd t) (PClass CName) = true ->
  follow (anyof [psym ","%bs; psym ";"%bs; psym "}"%bs]) mx s' -> follow (nomatch [psym "="%bs]) mx r0.
Proof.
  intros H Hk Hf. destruct n; [discriminate|]. cbn [g_chain] in H. destruct items as [|x r]; [discriminate|].
  assert (Hop : (s <~ g_operand n x ((i, t) :: r0) ;; g_chain n false seen r s) = Some s' ->
                follow (nomatch [psym "="%bs]) mx r0).
  { clear H. intros H. apply obind_some in H. destruct H as (s1 & H1 & H2).
    destruct (name_operand_second _ _ _ _ _ _ H1 Hk) as [->|Hh].
    - destruct n; [discriminate|]. cbn [g_chain] in H2. destruct r as [|b r].
      + destruct seen; cbn in H2; [|discriminate]. injection H2 as <-.
        eapply follow_weaken; [|exact Hf]. intros k0 Hk0. eapply anyof_nomatch; [|exact Hk0]. vm_compute. reflexivity.
      + apply obind_some in H2. destruct H2 as (? & H2 & _). apply tokp_inv in H2.
        destruct H2 as (j & u0 & u & _ & -> & Hu). rewrite is_binop_anyof in Hu. apply follow_head.
        eapply anyof_nomatch; [|exact Hu]. vm_compute. reflexivity.
    - eapply hd_follow_nomatch; [|exact Hh]. vm_compute. reflexivity. }
  destruct x; try (apply Hop, H).
  exfalso. destruct (tokp is_unop (Tok i0 t0) ((i, t) :: r0)) eqn:E; [|discriminate].
  apply tokp_inv in E. destruct E as (j & u0 & u & _ & E & Hu). injection E as <- <- <-.
  rewrite is_unop_anyof in Hu. rewrite (anyof_miss gunops (PClass CName) (kd t) eq_refl Hu) in Hk. discriminate.
Qed.

(* the leading name of an expression is a leaf of its derivation *)
Lemma leaves_wraps i : forall l base, In i (leaves base) -> In i (leaves (wraps base l)).
Proof.
  induction l as [|[n [[[[tag a] b] sh] rest]] l IH]; intros base H; [exact H|].
  cbn [wraps]. apply IH. cbn [wrap1 leaves flat_map]. apply in_or_app. left. exact H.
Qed.

Lemma leaves_node1 tag s e sh x : leaves (Node tag s e sh [x]) = leaves x.
Proof. cbn [leaves flat_map]. apply app_nil_r. Qed.

Lemma name_operand_leaf n g i t r0 s1 : g_operand n g ((i, t) :: r0) = Some s1 -> kmatch (kd t) (PClass CName) = true ->
  In i (leaves g).
Proof.
  intros H Hk. destruct n; [discriminate|]. cbn [g_operand] in H. destruct g; try discriminate.
  assert (Hpre : forall m x, g_prefix m x ((i, t) :: r0) = Some s1 -> In i (leaves x)).
  { intros m x Hx. apply spine in Hx. destruct Hx as (nb & base & l & sb & -> & Hb & Hl).
    apply leaves_wraps. unfold g_base in Hb. destruct base; try discriminate.
    - gmatch Hb. destruct (tag0 =? tVarName); [|discriminate]. apply tokc_inv in Hb.
      destruct Hb as (j & u0 & u & -> & E & _). injection E as <- _ _. cbn [leaves flat_map app]. left. reflexivity.
    - exfalso. apply obind_some in Hb. destruct Hb as (? & Hb & _). apply hd_eat_sym in Hb.
      eapply hd_contra; [exact Hb | exact Hk | reflexivity]. }
  destruct (tag =? tVarargDots).
  { exfalso. gmatch H. apply hd_sym in H. eapply hd_contra; [exact H | exact Hk | reflexivity]. }
  destruct (tag =? tExpValue); [|discriminate].
  destruct fields as [|x [|y [|? ?]]]; try discriminate.
  - destruct x; try discriminate.
    + destruct (tag0 =? tFunction).
      { exfalso. gmatch H. apply obind_some in H. destruct H as (? & H & _). apply hd_kw in H.
        eapply hd_contra; [exact H | exact Hk | reflexivity]. }
      destruct (tag0 =? tTableConstructor).
      { exfalso. apply g_table_head in H. eapply hd_contra; [exact H | exact Hk | reflexivity]. }
      rewrite leaves_node1. eapply Hpre, H.
    + exfalso. destruct (tokc CNumber (Tok i0 t0) ((i, t) :: r0)) eqn:E.
      * apply hd_tokc in E. eapply hd_contra; [exact E | exact Hk | reflexivity].
      * apply hd_tokc in H. eapply hd_contra; [exact H | exact Hk | reflexivity].
    + rewrite leaves_node1. eapply Hpre, H.
  - exfalso. destruct x, y as [| | | |bb| | | |]; cbv beta iota in H; try discriminate H; try destruct bb;
      apply hd_kw in H; (eapply hd_contra; [exact H | exact Hk | reflexivity]).
  - exfalso. destruct x, y; cbv beta iota in H; try discriminate H;
      match type of H with context [if ?b then _ else _] => destruct b end; discriminate H.
Qed.

Lemma name_chain_leaf n seen items i t r0 s' :
  g_chain n true seen items ((i, t) :: r0) = Some s' -> kmatch (kd t) (PClass CName) = true ->
  In i (flat_map leaves items).
Proof.
  intros H Hk. destruct n; [discriminate|]. cbn [g_chain] in H. destruct items as [|x r]; [discriminate|].
  assert (Hop : (s <~ g_operand n x ((i, t) :: r0) ;; g_chain n false seen r s) = Some s' -> In i (flat_map leaves (x :: r))).
  { clear H. intros H. apply obind_some in H. destruct H as (s1 & H1 & _). cbn [flat_map]. apply in_or_app. left.
    eapply name_operand_leaf; eassumption. }
  destruct x; try (apply Hop, H).
  exfalso. destruct (tokp is_unop (Tok i0 t0) ((i, t) :: r0)) eqn:E; [|discriminate].
  apply tokp_inv in E. destruct E as (j & u0 & u & _ & E & Hu). injection E as <- <- <-.
  rewrite is_unop_anyof in Hu. rewrite (anyof_miss gunops (PClass CName) (kd t) eq_refl Hu) in Hk. discriminate.
Qed.

Lemma leaves_items g : flat_map leaves (items_of g) = leaves g.
Proof.
  destruct g; cbn [items_of flat_map]; try apply app_nil_r.
  destruct (tag =? tChain); [reflexivity | apply app_nil_r].
Qed.

Lemma name_exp_leaf n g i t r0 s' : g_exp n g ((i, t) :: r0) = Some s' -> kmatch (kd t) (PClass CName) = true -> In i (leaves g).
Proof.
  intros H Hk. apply g_exp_items in H. destruct H as (m & H). rewrite <- leaves_items. eapply name_chain_leaf; eassumption.
Qed.

Lemma name_exp_second n g i t r0 s' mx : g_exp n g ((i, t) :: r0) = Some s' -> kmatch (kd t) (PClass CName) = true ->
  follow (anyof [psym ","%bs; psym ";"%bs; psym "}"%bs]) mx s' -> follow (nomatch [psym "="%bs]) mx r0.
Proof. intros H Hk Hf. apply g_exp_items in H. destruct H as (m & H). eapply name_second; eassumption. Qed.

(* ------------------------------------------------------------------ first token of a statement *)
Lemma starts_paren_wraps : forall l base, starts_paren (wraps base l) = starts_paren base.
Proof.
  induction l as [|[n [[[[tag a] b] sh] rest]] l IH]; intros base; [reflexivity|]. cbn [wraps]. rewrite IH. reflexivity.
Qed.

Lemma g_prefix_head_sp n g s s' : g_prefix n g s = Some s' ->
  hd_in (if starts_paren g then [psym "("%bs] else [PClass CName]) s.
Proof.
  intros H. apply spine in H. destruct H as (nb & base & l & s0 & -> & Hb & _). rewrite starts_paren_wraps.
  unfold g_base in Hb. destruct base; try discriminate.
  - gmatch Hb. destruct (tag =? tVarName); [|discriminate]. apply tokc_inv in Hb.
    destruct Hb as (j & u0 & u & -> & -> & Hk). cbn [starts_paren]. exists j, u, s0. split; [reflexivity|].
    unfold anyof. cbn [existsb]. rewrite Hk. reflexivity.
  - cbn [starts_paren]. hd_first Hb.
Qed.

Definition stat_first_nodo : list pat :=
  [PClass CName; PClass CLabel; pkw "while"%bs; pkw "repeat"%bs; pkw "if"%bs; pkw "for"%bs;
   pkw "function"%bs; pkw "local"%bs; pkw "goto"%bs; pkw "break"%bs].
Definition stat_first_np : list pat := pkw "do"%bs :: stat_first_nodo.

Ltac eval_cond :=
  repeat match goal with
         | |- hd_in (if ?c then _ else _) _ =>
             let v := eval vm_compute in c in
             lazymatch v with true => idtac | false => idtac end;
             change c with v; cbv iota
         end.

Lemma g_stat_head n g s s' : g_stat n g s = Some s' ->
  hd_in (if starts_paren g then [psym "("%bs] else if is_tag g tStatDo then [pkw "do"%bs] else stat_first_nodo) s.
Proof.
  destruct n; [discriminate|]. cbn [g_stat]. destruct g as [tag a b sh fs| | | | | | | |]; try discriminate.
  Ltac kwfirst H :=
    try match type of H with
        | obind (kw _ ?x _) _ = _ => is_var x; destruct x; try discriminate H
        | kw _ ?x _ = _ => is_var x; destruct x; try discriminate H
        end.
  Ltac kwcase H := intros H; gmatch H; kwfirst H; eval_cond; hd_first H.
  destruct (tag =? tStatAssignment) eqn:E1; [apply Z.eqb_eq in E1; subst tag|].
  { intros H. gmatch H. gtag H tVarList. apply obind_some in H. destruct H as (s1 & H & _).
    destruct l as [|v r]; [discriminate|]. cbn [sep_list] in H. apply obind_some in H. destruct H as (s2 & H & _).
    destruct n; [discriminate|]. cbn [g_var] in H.
    destruct (is_tag v tVarName || is_tag v tVarIndex || is_tag v tVarAttribute); [|discriminate].
    apply g_prefix_head_sp in H. cbn [starts_paren]. destruct (starts_paren v); [exact H|]. eval_cond.
    eapply hd_sub; [|exact H]. vm_compute. reflexivity. }
  destruct (tag =? tStatFunctionCall) eqn:E2; [apply Z.eqb_eq in E2; subst tag|].
  { intros H. gmatch H. match type of H with (if ?c then _ else _) = _ => destruct c; [|discriminate] end.
    apply g_prefix_head_sp in H. cbn [starts_paren]. destruct (starts_paren t); [exact H|]. eval_cond.
    eapply hd_sub; [|exact H]. vm_compute. reflexivity. }
  destruct (tag =? tStatDo) eqn:E3; [apply Z.eqb_eq in E3; subst tag|]. { kwcase H. }
  destruct (tag =? tStatWhile) eqn:E4; [apply Z.eqb_eq in E4; subst tag|]. { kwcase H. }
  destruct (tag =? tStatRepeat) eqn:E5; [apply Z.eqb_eq in E5; subst tag|]. { kwcase H. }
  destruct (tag =? tStatIf) eqn:E6; [apply Z.eqb_eq in E6; subst tag|].
  { destruct sh; kwcase H. }
  destruct (tag =? tStatForStep) eqn:E7; [apply Z.eqb_eq in E7; subst tag|]. { kwcase H. }
  destruct (tag =? tStatForIn) eqn:E8; [apply Z.eqb_eq in E8; subst tag|]. { kwcase H. }
  destruct (tag =? tStatFunction) eqn:E9; [apply Z.eqb_eq in E9; subst tag|].
  { intros H; gmatch H; gtag H tFunctionName; kwfirst H; eval_cond; hd_first H. }
  destruct (tag =? tStatLocalFunction) eqn:E10; [apply Z.eqb_eq in E10; subst tag|]. { kwcase H. }
  destruct (tag =? tStatLocalAssignment) eqn:E11; [apply Z.eqb_eq in E11; subst tag|]. { kwcase H. }
  destruct (tag =? tStatGoto) eqn:E12; [apply Z.eqb_eq in E12; subst tag|]. { kwcase H. }
  destruct (tag =? tStatLabel) eqn:E13; [apply Z.eqb_eq in E13; subst tag|]. { kwcase H. }
  destruct (tag =? tStatBreak) eqn:E14; [apply Z.eqb_eq in E14; subst tag|discriminate]. kwcase H.
Qed.

Lemma g_stat_head_np n g s s' : g_stat n g s = Some s' -> starts_paren g = false -> hd_in stat_first_np s.
Proof.
  intros H Hs. apply g_stat_head in H. rewrite Hs in H. destruct (is_tag g tStatDo);
    (eapply hd_sub; [|exact H]; vm_compute; reflexivity).
Qed.

Lemma g_stat_head_nodo n g s s' : g_stat n g s = Some s' -> starts_paren g = false -> is_tag g tStatDo = false ->
  hd_in stat_first_nodo s.
Proof. intros H Hs Hd. apply g_stat_head in H. rewrite Hs, Hd in H. exact H. Qed.
